(* Totality and round-trip theorems for the v1 update codec model (Codec/UpdateV1.v). *)
From Coq Require Import List NArith ZArith Bool Lia ZifyBool ZifyN ZifyNat.
From YV Require Import Gen.Consts Lib.Bytes Codec.Varint Codec.AnyCodec Codec.IdSetCodec Codec.UpdateV1
  Codec.Messages Ids.Ranges Codec.VarintProofs Codec.AnyProofs Codec.FramingProofs.
Import ListNotations.
Open Scope N_scope.
Ltac Zify.zify_post_hook ::= Z.div_mod_to_equations.

(* ------------------------------------------------------------------------------------------------ *)
(* unfolding equations of the fuelled loops                                                         *)
(* ------------------------------------------------------------------------------------------------ *)

Lemma read_strings_eq : forall fuel n bs acc,
  read_strings fuel n bs acc =
  if n =? 0 then Ok (rev acc) bs else
  match fuel with
  | O => Fuel
  | S f => let* (s, rest) := read_string bs in read_strings f (n - 1) rest (s :: acc)
  end.
Proof. destruct fuel; reflexivity. Qed.

Lemma read_anys_eq : forall fuel n bs acc,
  read_anys fuel n bs acc =
  if n =? 0 then Ok (rev acc) bs else
  match fuel with
  | O => Fuel
  | S f => let* (a, rest) := decode_any fuel bs in read_anys f (n - 1) rest (a :: acc)
  end.
Proof. destruct fuel; reflexivity. Qed.

Lemma decode_blocks_eq : forall fuel n client clock bs acc,
  decode_blocks fuel n client clock bs acc =
  if n =? 0 then Ok (rev acc) bs else
  match fuel with
  | O => Fuel
  | S f =>
    let* (ob, rest) := decode_block fuel (mkid client clock) bs in
    match ob with
    | None => decode_blocks f (n - 1) client clock rest acc
    | Some b =>
      match add32_checked clock (block_len b) with
      | Some clock' => decode_blocks f (n - 1) client clock' rest (b :: acc)
      | None => Err UnexpectedValue
      end
    end
  end.
Proof. destruct fuel; reflexivity. Qed.

Lemma decode_clients_eq : forall fuel n bs acc,
  decode_clients fuel n bs acc =
  if n =? 0 then Ok acc bs else
  match fuel with
  | O => Fuel
  | S f =>
    let* (nblocks, r1) := read_var_u32 bs in
    let* (c0, r2) := read_var_u64 r1 in
    let* (client, r2') := client_id_new c0 r2 in
    let* (clock, r3) := read_var_u32 r2' in
    let* (blocks, r4) := decode_blocks f nblocks client clock r3 [] in
    decode_clients f (n - 1) r4 (add_client_blocks acc client blocks)
  end.
Proof. destruct fuel; reflexivity. Qed.

(* ------------------------------------------------------------------------------------------------ *)
(* B8. totality of decode_update_v1: no panic at all                                                *)
(* ------------------------------------------------------------------------------------------------ *)

Lemma bnd_decode_any : forall fuel bs, (length bs < fuel)%nat -> bnd (length bs) (decode_any fuel bs).
Proof.
  intros fuel bs Hl. pose proof (decode_any_total fuel bs) as Ht.
  pose proof (decode_any_fuel_ge fuel bs Hl) as Hf. pose proof (decode_any_shrinks fuel bs) as Hs.
  destruct (decode_any fuel bs); cbn [bnd]; auto.
  eapply Hs; [exact Hl|reflexivity].
Qed.

Lemma bnd_read_strings : forall fuel n bs acc, (length bs < fuel)%nat ->
  bnd (S (length bs)) (read_strings fuel n bs acc).
Proof.
  induction fuel as [|f IH]; intros n bs acc Hl; [lia|]. rewrite read_strings_eq.
  destruct (n =? 0); [cbn; lia|].
  eapply bnd_bind; [apply bnd_read_string|]. intros s rest Hr.
  eapply bnd_le; [|apply IH]; lia.
Qed.

Lemma bnd_read_anys : forall fuel n bs acc, (length bs < fuel)%nat ->
  bnd (S (length bs)) (read_anys fuel n bs acc).
Proof.
  induction fuel as [|f IH]; intros n bs acc Hl; [lia|]. rewrite read_anys_eq.
  destruct (n =? 0); [cbn; lia|].
  eapply bnd_bind; [apply bnd_decode_any; exact Hl|]. intros s rest Hr.
  eapply bnd_le; [|apply IH]; lia.
Qed.

Lemma bnd_decode_scope : forall u r bs, bnd (length bs) (decode_scope u r bs).
Proof.
  intros u r bs. unfold decode_scope. destruct u; [destruct r|]; apply bnd_rmap;
    try apply bnd_read_string; apply bnd_read_id.
Qed.

Lemma bnd_decode_weak_link : forall bs, bnd (length bs) (decode_weak_link bs).
Proof.
  intro bs. unfold decode_weak_link. eapply bnd_bind; [apply bnd_read_u8|]. intros flags r0 H0.
  eapply bnd_bind; [apply bnd_decode_scope|]. intros s r1 H1.
  eapply (bnd_bind _ _ (S (length r1))).
  - destruct (flag flags C_WEAK_REF_FLAGS_END_UNBOUNDED).
    + eapply bnd_le; [|apply bnd_decode_scope]; lia.
    + destruct (negb (flag flags C_WEAK_REF_FLAGS_QUOTE)); [cbn; lia|].
      eapply bnd_le; [|apply bnd_decode_scope]; lia.
  - intros e r2 H2. cbn [bnd]. lia.
Qed.

Lemma bnd_decode_tyref : forall bs, bnd (length bs) (decode_tyref bs).
Proof.
  intro bs. unfold decode_tyref. destruct bs as [|t rest]; cbn [read_u8 bind]; [exact I|].
  repeat match goal with |- bnd _ (if ?t =? ?c then _ else _) => destruct (t =? c) end;
    try exact I; try (cbn; lia).
  - apply bnd_rmap. eapply bnd_le; [|apply bnd_read_string]. cbn; lia.
  - apply bnd_rmap. eapply bnd_le; [|apply bnd_decode_weak_link]. cbn; lia.
Qed.

Lemma bnd_decode_content : forall fuel info bs, (length bs < fuel)%nat ->
  bnd (length bs) (decode_content fuel info bs).
Proof.
  intros fuel info bs Hl. unfold decode_content.
  repeat match goal with |- bnd _ (if ?t =? ?c then _ else _) => destruct (t =? c) end;
    try exact I.
  - apply bnd_rmap, bnd_read_var_u32.
  - eapply bnd_bind; [apply bnd_read_var_u32|]. intros n rest Hr. apply bnd_rmap.
    eapply bnd_le; [|apply bnd_read_strings]; lia.
  - apply bnd_rmap, bnd_read_buf.
  - apply bnd_rmap, bnd_read_string.
  - apply bnd_rmap, bnd_read_string.
  - eapply bnd_bind; [apply bnd_read_string|]. intros k r1 H1.
    eapply bnd_bind; [apply bnd_read_string|]. intros v r2 H2. cbn [bnd]. lia.
  - apply bnd_rmap, bnd_decode_tyref.
  - eapply bnd_bind; [apply bnd_read_var_u32|]. intros n rest Hr. apply bnd_rmap.
    eapply bnd_le; [|apply bnd_read_anys]; lia.
  - eapply bnd_bind; [apply bnd_read_string|]. intros g r1 H1.
    eapply bnd_bind; [apply bnd_decode_any; lia|]. intros o r2 H2. cbn [bnd]. lia.
Qed.

Lemma bnd_decode_block : forall fuel i bs, (length bs < fuel)%nat ->
  bnd (length bs) (decode_block fuel i bs).
Proof.
  intros fuel i bs Hl. unfold decode_block. destruct bs as [|info r0]; cbn [read_u8 bind]; [exact I|].
  cbn [length] in *.
  destruct (info =? C_BLOCK_SKIP_REF_NUMBER).
  { apply bnd_rmap. eapply bnd_le; [|apply bnd_read_var_u32]. lia. }
  destruct (info =? C_BLOCK_GC_REF_NUMBER).
  { apply bnd_rmap. eapply bnd_le; [|apply bnd_read_var_u32]. lia. }
  eapply (bnd_bind _ _ (S (length r0))).
  { destruct (flag info C_HAS_ORIGIN); [|cbn; lia].
    apply bnd_rmap. eapply bnd_le; [|apply bnd_read_id]. lia. }
  intros o r1 H1.
  eapply (bnd_bind _ _ (S (length r0))).
  { destruct (flag info C_HAS_RIGHT_ORIGIN); [|cbn; lia].
    apply bnd_rmap. eapply bnd_le; [|apply bnd_read_id]. lia. }
  intros ro r2 H2.
  eapply (bnd_bind _ _ (S (length r0))).
  { destruct (negb (flag info C_HAS_ORIGIN) && negb (flag info C_HAS_RIGHT_ORIGIN)); [|cbn; lia].
    eapply bnd_bind; [apply bnd_read_var_u32|]. intros pi q Hq.
    destruct (pi =? 1); apply bnd_rmap.
    - eapply bnd_le; [|apply bnd_read_string]. lia.
    - eapply bnd_le; [|apply bnd_read_id]. lia. }
  intros p r3 H3.
  eapply (bnd_bind _ _ (S (length r0))).
  { destruct (negb (flag info C_HAS_ORIGIN) && negb (flag info C_HAS_RIGHT_ORIGIN) && flag info C_HAS_PARENT_SUB);
      [|cbn; lia].
    apply bnd_rmap. eapply bnd_le; [|apply bnd_read_string]. lia. }
  intros ps r4 H4.
  eapply (bnd_bind _ _ (S (length r0))).
  { eapply bnd_le; [|apply bnd_decode_content]; lia. }
  intros c r5 H5. destruct (content_len c =? 0); cbn [bnd]; lia.
Qed.

Lemma bnd_decode_blocks : forall fuel n client clock bs acc, (length bs < fuel)%nat ->
  bnd (S (length bs)) (decode_blocks fuel n client clock bs acc).
Proof.
  induction fuel as [|f IH]; intros n client clock bs acc Hl; [lia|]. rewrite decode_blocks_eq.
  destruct (n =? 0); [cbn; lia|].
  eapply bnd_bind; [apply bnd_decode_block; exact Hl|]. intros ob rest Hr.
  destruct ob as [b|].
  - destruct (add32_checked clock (block_len b)); [|exact I].
    eapply bnd_le; [|apply IH]; lia.
  - eapply bnd_le; [|apply IH]; lia.
Qed.

Lemma bnd_decode_clients : forall fuel n bs acc, (length bs < fuel)%nat ->
  bnd (S (length bs)) (decode_clients fuel n bs acc).
Proof.
  induction fuel as [|f IH]; intros n bs acc Hl; [lia|]. rewrite decode_clients_eq.
  destruct (n =? 0); [cbn; lia|].
  eapply bnd_bind; [apply bnd_read_var_u32|]. intros nblocks r1 H1.
  eapply bnd_bind; [apply bnd_read_var_u64|]. intros c0 r2 H2.
  eapply bnd_bind; [apply bnd_client_id_new|]. intros client r2' H2'.
  eapply bnd_bind; [apply bnd_read_var_u32|]. intros clock r3 H3.
  eapply bnd_bind; [apply bnd_decode_blocks; lia|]. intros blocks r4 H4.
  eapply bnd_le; [|apply IH]; lia.
Qed.

Lemma bnd_decode_update : forall fuel bs, (length bs < fuel)%nat ->
  bnd (length bs) (decode_update_v1 fuel bs).
Proof.
  intros fuel bs Hl. unfold decode_update_v1.
  eapply bnd_bind; [apply bnd_read_var_u32|]. intros n r1 H1.
  eapply bnd_bind; [apply bnd_decode_clients; lia|]. intros cs r2 H2.
  eapply bnd_bind; [apply bnd_decode_idset; lia|]. intros ds r3 H3.
  cbn [bnd]. lia.
Qed.

Theorem decode_block_total : forall fuel i bs, (length bs < fuel)%nat ->
  match decode_block fuel i bs with
  | Ok _ rest => (length rest < length bs)%nat
  | Err _ => True
  | Panic _ => False
  | Fuel => False
  end.
Proof. exact bnd_decode_block. Qed.
Print Assumptions decode_block_total.

Theorem decode_block_shrinks : forall fuel i bs ob rest, (length bs < fuel)%nat ->
  decode_block fuel i bs = Ok ob rest -> (length rest < length bs)%nat.
Proof.
  intros fuel i bs ob rest Hl H. pose proof (decode_block_total fuel i bs Hl) as Ht. rewrite H in Ht. exact Ht.
Qed.
Print Assumptions decode_block_shrinks.

Theorem decode_update_total : forall fuel bs, (length bs < fuel)%nat ->
  match decode_update_v1 fuel bs with
  | Ok _ rest => (length rest < length bs)%nat
  | Err _ => True
  | Panic _ => False
  | Fuel => False
  end.
Proof. exact bnd_decode_update. Qed.
Print Assumptions decode_update_total.

(* in particular fuel [length bs + 1] always suffices and the decoder terminates without panic *)
Corollary decode_update_no_panic : forall bs,
  match decode_update_v1 (S (length bs)) bs with Panic _ | Fuel => False | _ => True end.
Proof.
  intro bs. pose proof (decode_update_total (S (length bs)) bs (Nat.lt_succ_diag_r _)) as H.
  destruct (decode_update_v1 (S (length bs)) bs); auto.
Qed.

(* the former panic inputs: one client, one block (info = ITEM_ANY, parent = root ""), one Any of tag INT *)
Definition update_any_prefix : list N := [1; 1; 0; 0; C_BLOCK_ITEM_ANY_REF_NUMBER; 1; 0; 1; ANY_ENC_INT].
Definition update_shl_witness : list N := update_any_prefix ++ shl_i64_witness.
Definition update_neg_witness : list N := update_any_prefix ++ neg_i64_witness.
(* client id 2^53 in the block header *)
Definition update_client_id_witness : list N := [1; 1; 128; 128; 128; 128; 128; 128; 128; 16; 0].
(* clock 2^32 - 1, then a GC block of length 1 *)
Definition update_add_u32_witness : list N := [1; 1; 0; 255; 255; 255; 255; 15; C_BLOCK_GC_REF_NUMBER; 1].
(* no blocks; the delete set overflows *)
Definition update_add_u32_ds_witness : list N := 0 :: idset_add_u32_witness.

Definition is_panic {A} (r : res A) : bool := match r with Panic _ | Fuel => true | _ => false end.

Example decode_update_former_witnesses :
  forallb (fun bs => negb (is_panic (decode_update_v1 (S (length bs)) bs)))
    [update_add_u32_witness; update_client_id_witness; update_shl_witness; update_neg_witness;
     update_add_u32_ds_witness] = true /\
  decode_update_v1 (S (length update_add_u32_witness)) update_add_u32_witness = Err UnexpectedValue /\
  decode_update_v1 (S (length update_client_id_witness)) update_client_id_witness = Err UnexpectedValue /\
  decode_update_v1 (S (length update_add_u32_ds_witness)) update_add_u32_ds_witness = Err UnexpectedValue.
Proof. repeat split; vm_compute; reflexivity. Qed.

(* ------------------------------------------------------------------------------------------------ *)
(* A5. block round trip                                                                             *)
(* ------------------------------------------------------------------------------------------------ *)

Definition is_some {A} (o : option A) : bool := match o with Some _ => true | None => false end.

(* one end is a root name and the other a nested id: the single PARENT_ROOT flag cannot describe both *)
Definition wl_mixed (w : weaklink) : bool :=
  match wl_start w, wl_end w with
  | SRoot _, SNested _ | SNested _, SRoot _ => true
  | _, _ => false
  end.
Definition wf_weaklink (w : weaklink) : bool :=
  wf_scope (wl_start w) && wf_scope (wl_end w) && negb (wl_mixed w).
Definition wf_tyref (t : tyref) : bool :=
  match t with TXmlElement n => wf_str n | TWeak w => wf_weaklink w | _ => true end.

(* strings (wf_str: bytes, u32 length, well-formed UTF-8) are validated by the decoder; a JSON item carries its
   element count through an i32 (a count >= 2^31 reads as empty); Any values obey the decoder's depth limit *)
Definition wf_content (c : bcontent) : bool :=
  match c with
  | BDeleted n => (0 <? n) && (n <? two32)
  | BJson l => (0 <? N.of_nat (length l)) && (N.of_nat (length l) <? 2147483648) && forallb wf_str l
  | BBinary b => wf_bin b
  | BString s => wf_str s && (0 <? str_len16 s)
  | BEmbed j => wf_str j
  | BFormat k j => wf_str k && wf_str j
  | BType t => wf_tyref t
  | BAny l => (0 <? N.of_nat (length l)) && (N.of_nat (length l) <? two32) && forallb wf_any_top l
  | BDoc g o => wf_str g && wf_any_top o
  end.

Definition content_fuel (c : bcontent) : nat :=
  match c with
  | BJson l => length l
  | BAny l => (length l + list_max (map any_fuel l))%nat
  | BDoc _ o => any_fuel o
  | _ => 0%nat
  end.

Definition wf_oid (o : option id) : bool := match o with Some i => wf_id i | None => true end.
Definition wf_ostr (o : option (list N)) : bool := match o with Some s => wf_str s | None => true end.
Definition wf_parent (p : parent) : bool :=
  match p with PNamed n => wf_str n | PId i => wf_id i | PUnknown => true end.

(* the wire carries parent / parent_sub only when both origins are absent *)
Definition wf_block (b : block) : bool :=
  match b with
  | BItem _ o ro p ps c =>
      wf_oid o && wf_oid ro && wf_parent p && wf_ostr ps && wf_content c &&
      (if is_some o || is_some ro
       then match p with PUnknown => negb (is_some ps) | _ => false end
       else true)
  | BGC _ n | BSkip _ n => n <? two32
  end.

Definition block_fuel (b : block) : nat :=
  match b with BItem _ _ _ _ _ c => content_fuel c | _ => 0%nat end.

(* ---- flag bytes: finite sweeps ---- *)

Definition binfo (ho hr hp : bool) (c : bcontent) : N :=
  (if ho then C_HAS_ORIGIN else 0) + (if hr then C_HAS_RIGHT_ORIGIN else 0) +
  (if hp then C_HAS_PARENT_SUB else 0) + N.land (content_ref c) 15.

Lemma binfo_facts : forall ho hr hp c,
  (binfo ho hr hp c =? C_BLOCK_SKIP_REF_NUMBER) = false /\
  (binfo ho hr hp c =? C_BLOCK_GC_REF_NUMBER) = false /\
  flag (binfo ho hr hp c) C_HAS_ORIGIN = ho /\
  flag (binfo ho hr hp c) C_HAS_RIGHT_ORIGIN = hr /\
  flag (binfo ho hr hp c) C_HAS_PARENT_SUB = hp /\
  N.land (binfo ho hr hp c) 15 = content_ref c.
Proof. intros [] [] [] []; vm_compute; repeat split; reflexivity. Qed.

(* an item's info byte is never the GC or the Skip marker *)
Theorem item_info_not_gc_skip : forall ho hr hp c,
  binfo ho hr hp c <> C_BLOCK_GC_REF_NUMBER /\ binfo ho hr hp c <> C_BLOCK_SKIP_REF_NUMBER.
Proof.
  intros ho hr hp c. destruct (binfo_facts ho hr hp c) as (H1 & H2 & _). split; lia.
Qed.
Print Assumptions item_info_not_gc_skip.

Definition wflags (single root su eu sa ea : bool) : N :=
  (if single then 0 else C_WEAK_REF_FLAGS_QUOTE)
  + (if root then C_WEAK_REF_FLAGS_PARENT_ROOT else 0)
  + (if su then C_WEAK_REF_FLAGS_START_UNBOUNDED else 0)
  + (if eu then C_WEAK_REF_FLAGS_END_UNBOUNDED else 0)
  + (if sa then C_WEAK_REF_FLAGS_START_ASSOC else 0)
  + (if ea then C_WEAK_REF_FLAGS_END_ASSOC else 0).

Lemma wflags_facts : forall single root su eu sa ea,
  flag (wflags single root su eu sa ea) C_WEAK_REF_FLAGS_QUOTE = negb single /\
  flag (wflags single root su eu sa ea) C_WEAK_REF_FLAGS_PARENT_ROOT = root /\
  flag (wflags single root su eu sa ea) C_WEAK_REF_FLAGS_START_UNBOUNDED = su /\
  flag (wflags single root su eu sa ea) C_WEAK_REF_FLAGS_END_UNBOUNDED = eu /\
  flag (wflags single root su eu sa ea) C_WEAK_REF_FLAGS_START_ASSOC = sa /\
  flag (wflags single root su eu sa ea) C_WEAK_REF_FLAGS_END_ASSOC = ea.
Proof. intros [] [] [] [] [] []; vm_compute; repeat split; reflexivity. Qed.

(* ---- type references ---- *)

Lemma id_eqb_eq : forall a b, id_eqb a b = true -> a = b.
Proof.
  intros [c k] [c' k'] H. unfold id_eqb in H. cbn [cl ck] in H. apply andb_prop in H.
  destruct H as [H1 H2]. apply N.eqb_eq in H1. apply N.eqb_eq in H2. subst. reflexivity.
Qed.

Lemma scope_roundtrip : forall s root rest, wf_scope s = true ->
  (scope_unbounded s = true -> root = scope_root s) ->
  decode_scope (scope_unbounded s) root (encode_scope s ++ rest) = Ok s rest.
Proof.
  intros [n|i|i] root rest Hwf Hroot; cbn [wf_scope scope_unbounded scope_root encode_scope] in *;
    unfold decode_scope, rmap.
  - rewrite (Hroot eq_refl). rewrite str_roundtrip by exact Hwf. reflexivity.
  - rewrite (Hroot eq_refl). rewrite id_roundtrip by exact Hwf. reflexivity.
  - rewrite id_roundtrip by exact Hwf. reflexivity.
Qed.

Lemma decode_weak_link_cons : forall flags r0,
  decode_weak_link (flags :: r0) =
  let single := negb (flag flags C_WEAK_REF_FLAGS_QUOTE) in
  let root := flag flags C_WEAK_REF_FLAGS_PARENT_ROOT in
  let* (s, r1) := decode_scope (flag flags C_WEAK_REF_FLAGS_START_UNBOUNDED) root r0 in
  let* (e, r2) := (if flag flags C_WEAK_REF_FLAGS_END_UNBOUNDED then decode_scope true root r1
                   else if single then Ok s r1 else decode_scope false root r1) in
  Ok {| wl_start := s; wl_start_after := flag flags C_WEAK_REF_FLAGS_START_ASSOC;
        wl_end := e; wl_end_after := flag flags C_WEAK_REF_FLAGS_END_ASSOC |} r2.
Proof. reflexivity. Qed.

Lemma decode_tyref_weak : forall r, decode_tyref (C_TYPE_REFS_WEAK :: r) = rmap TWeak (decode_weak_link r).
Proof. reflexivity. Qed.
Lemma decode_tyref_xml : forall r,
  decode_tyref (C_TYPE_REFS_XML_ELEMENT :: r) = rmap TXmlElement (read_string r).
Proof. reflexivity. Qed.

Lemma weak_link_roundtrip : forall w rest, wf_weaklink w = true ->
  decode_tyref (encode_weak_link w ++ rest) = Ok (TWeak w) rest.
Proof.
  intros [s sa e ea] rest Hwf. unfold wf_weaklink in Hwf. cbn [wl_start wl_end] in Hwf.
  apply andb_prop in Hwf. destruct Hwf as [Hwf Hmix]. apply andb_prop in Hwf. destruct Hwf as [Hs He].
  apply negb_true_iff in Hmix. unfold wl_mixed in Hmix. cbn [wl_start wl_end] in Hmix.
  unfold encode_weak_link. cbn [wl_start wl_end wl_start_after wl_end_after].
  set (single := wl_single _).
  pose proof (wflags_facts single (scope_root s || scope_root e) (scope_unbounded s) (scope_unbounded e) sa ea) as F.
  unfold wflags in F.
  match type of F with flag ?x _ = _ /\ _ => set (info := x) in * end.
  destruct F as (F1 & F2 & F3 & F4 & F5 & F6). clearbody info.
  cbn [app]. rewrite decode_tyref_weak, decode_weak_link_cons. cbv zeta.
  rewrite F1, F2, F3, F4, F5, F6, negb_involutive. rewrite <- app_assoc.
  rewrite scope_roundtrip; [|exact Hs|].
  2:{ destruct s, e; try discriminate; reflexivity. }
  cbn [bind]. unfold rmap.
  destruct e as [n|j|j]; cbn [scope_unbounded].
  - rewrite (scope_roundtrip (SRoot n)); [reflexivity|exact He|].
    cbn [scope_root]. intros _. apply orb_true_r.
  - rewrite (scope_roundtrip (SNested j)); [reflexivity|exact He|].
    cbn [scope_root]. intros _. destruct s; try discriminate; reflexivity.
  - unfold single, wl_single. cbn [wl_start wl_end].
    destruct (scope_eqb s (SRelative j)) eqn:Eq.
    + destruct s as [n|i|i]; cbn [scope_eqb] in Eq; try discriminate.
      apply id_eqb_eq in Eq. subst i. cbn [app bind]. reflexivity.
    + change (write_id_v1 j) with (encode_scope (SRelative j)).
      rewrite (scope_roundtrip (SRelative j) _ rest He); [reflexivity|]. cbn [scope_unbounded]. discriminate.
Qed.

Theorem tyref_roundtrip : forall t rest, wf_tyref t = true ->
  decode_tyref (encode_tyref t ++ rest) = Ok t rest.
Proof.
  intros t rest Hwf. destruct t; cbn [encode_tyref wf_tyref] in *; try reflexivity.
  - rewrite <- app_comm_cons. rewrite decode_tyref_xml. unfold rmap.
    rewrite str_roundtrip by exact Hwf. reflexivity.
  - apply weak_link_roundtrip. exact Hwf.
Qed.
Print Assumptions tyref_roundtrip.

(* the excluded shape really does not round trip *)
Theorem weak_link_mixed_refuted :
  let w := {| wl_start := SRoot [97]; wl_start_after := false; wl_end := SNested (mkid 1 2); wl_end_after := false |} in
  decode_tyref (encode_weak_link w) <> Ok (TWeak w) [].
Proof. vm_compute. discriminate. Qed.
Print Assumptions weak_link_mixed_refuted.

(* ---- contents ---- *)

Lemma decode_content_ref : forall fuel info bs c, N.land info 15 = content_ref c ->
  decode_content fuel info bs =
  match c with
  | BDeleted _ => rmap BDeleted (read_var_u32 bs)
  | BJson _ => let* (n, rest) := read_var_u32 bs in
               rmap BJson (read_strings fuel (if n <? 2147483648 then n else 0) rest [])
  | BBinary _ => rmap BBinary (read_buf bs)
  | BString _ => rmap BString (read_string bs)
  | BEmbed _ => rmap BEmbed (read_string bs)
  | BFormat _ _ => let* (k, r1) := read_string bs in let* (v, r2) := read_string r1 in Ok (BFormat k v) r2
  | BType _ => rmap BType (decode_tyref bs)
  | BAny _ => let* (n, rest) := read_var_u32 bs in rmap BAny (read_anys fuel n rest [])
  | BDoc _ _ => let* (g, r1) := read_string bs in let* (o, r2) := decode_any fuel r1 in Ok (BDoc g o) r2
  end.
Proof. intros fuel info bs c H. unfold decode_content. rewrite H. destruct c; reflexivity. Qed.

Lemma read_strings_roundtrip : forall l fuel acc rest,
  (length l <= fuel)%nat -> forallb wf_str l = true ->
  read_strings fuel (N.of_nat (length l)) (flat_map write_string l ++ rest) acc = Ok (rev acc ++ l) rest.
Proof.
  induction l as [|x l IH]; intros fuel acc rest Hf Hwf; rewrite read_strings_eq.
  - cbn [length flat_map app]. change (N.of_nat 0 =? 0) with true. cbv iota. rewrite app_nil_r. reflexivity.
  - cbn [length] in *. rewrite of_nat_S_eqb0, of_nat_S_pred. destruct fuel as [|f]; [lia|].
    cbn [forallb] in Hwf. apply andb_prop in Hwf. destruct Hwf as [Hx Hr].
    cbn [flat_map]. rewrite <- app_assoc. rewrite str_roundtrip by exact Hx. cbn [bind].
    rewrite IH by (try lia; assumption). cbn [rev]. rewrite <- app_assoc. reflexivity.
Qed.

Lemma read_anys_roundtrip : forall l fuel M acc body rest,
  (length l + M <= fuel)%nat -> (forall a, In a l -> (any_fuel a <= M)%nat) ->
  forallb wf_any_top l = true -> encode_anys l = Some body ->
  read_anys fuel (N.of_nat (length l)) (body ++ rest) acc = Ok (rev acc ++ l) rest.
Proof.
  induction l as [|x l IH]; intros fuel M acc body rest Hf HM Hwf Henc; rewrite read_anys_eq.
  - cbn [encode_anys] in Henc. apply some_inj in Henc. subst body.
    cbn [length app]. change (N.of_nat 0 =? 0) with true. cbv iota. rewrite app_nil_r. reflexivity.
  - cbn [length] in *. rewrite of_nat_S_eqb0, of_nat_S_pred. destruct fuel as [|f]; [lia|].
    cbn [forallb] in Hwf. apply andb_prop in Hwf. destruct Hwf as [Hx Hr].
    cbn [encode_anys] in Henc. destruct (encode_any x) as [xb|] eqn:Ex; [|discriminate].
    destruct (encode_anys l) as [lb|] eqn:El; [|discriminate]. apply some_inj in Henc. subst body.
    rewrite <- app_assoc.
    assert (HxM : (any_fuel x <= M)%nat) by (apply HM; left; reflexivity).
    unfold wf_any_top in Hx. apply andb_prop in Hx. destruct Hx as [Hx Hxd].
    rewrite (any_roundtrip_full (S f) x xb) by (try assumption; lia). cbn [bind].
    assert (HM' : forall a, In a l -> (any_fuel a <= M)%nat) by (intros a Ha; apply HM; right; exact Ha).
    rewrite (IH f M (x :: acc) lb rest); [|lia|exact HM'|exact Hr|reflexivity].
    cbn [rev]. rewrite <- app_assoc. reflexivity.
Qed.

Theorem content_roundtrip : forall c fuel info cb rest,
  wf_content c = true -> (content_fuel c <= fuel)%nat -> N.land info 15 = content_ref c ->
  encode_content c = Some cb ->
  decode_content fuel info (cb ++ rest) = Ok c rest.
Proof.
  intros c fuel info cb rest Hwf Hf Hinfo Henc. rewrite (decode_content_ref fuel info _ c Hinfo).
  destruct c as [n|l|b|s|j|k j|t|l|g o]; cbn [encode_content wf_content content_fuel] in *; unfold rmap.
  - apply some_inj in Henc. subst cb. rewrite var_u32_roundtrip by lia. reflexivity.
  - apply some_inj in Henc. subst cb. apply andb_prop in Hwf. destruct Hwf as [Hwf Hl].
    apply andb_prop in Hwf. destruct Hwf as [Hpos Hlt].
    rewrite <- app_assoc. rewrite var_u32_roundtrip by (unfold two32; lia). cbn [bind].
    replace (N.of_nat (length l) <? 2147483648) with true by lia.
    rewrite read_strings_roundtrip by assumption. reflexivity.
  - apply some_inj in Henc. subst cb. rewrite bin_roundtrip by exact Hwf. reflexivity.
  - apply some_inj in Henc. subst cb. apply andb_prop in Hwf. destruct Hwf as [Hs _].
    rewrite str_roundtrip by exact Hs. reflexivity.
  - apply some_inj in Henc. subst cb. rewrite str_roundtrip by exact Hwf. reflexivity.
  - apply some_inj in Henc. subst cb. apply andb_prop in Hwf. destruct Hwf as [Hk Hj].
    rewrite <- app_assoc. rewrite str_roundtrip by exact Hk. cbn [bind].
    rewrite str_roundtrip by exact Hj. reflexivity.
  - apply some_inj in Henc. subst cb. rewrite tyref_roundtrip by exact Hwf. reflexivity.
  - destruct (encode_anys l) as [body|] eqn:El; [|discriminate]. apply some_inj in Henc. subst cb.
    apply andb_prop in Hwf. destruct Hwf as [Hwf Hl].
    rewrite <- app_assoc. rewrite var_u32_roundtrip by lia. cbn [bind].
    rewrite (read_anys_roundtrip l fuel (list_max (map any_fuel l))); try assumption; [reflexivity|].
    intros a Ha. apply (list_max_map_in _ any_fuel). exact Ha.
  - destruct (encode_any o) as [body|] eqn:Eo; [|discriminate]. apply some_inj in Henc. subst cb.
    apply andb_prop in Hwf. destruct Hwf as [Hg Ho].
    unfold wf_any_top in Ho. apply andb_prop in Ho. destruct Ho as [Ho Hod].
    rewrite <- app_assoc. rewrite str_roundtrip by exact Hg. cbn [bind].
    rewrite (any_roundtrip_full fuel o body) by (try assumption; lia). reflexivity.
Qed.
Print Assumptions content_roundtrip.

Lemma wf_content_len : forall c, wf_content c = true -> (content_len c =? 0) = false.
Proof.
  intros c H. destruct c; cbn [wf_content content_len] in *; try reflexivity;
    repeat (apply andb_prop in H; destruct H as [H ?]); lia.
Qed.

(* ---- blocks ---- *)

Ltac item_facts ho hr hp c :=
  let F := fresh "F" in
  let inf := fresh "info" in
  pose proof (binfo_facts ho hr hp c) as F; unfold binfo in F;
  match type of F with (?x =? _) = false /\ _ => set (inf := x) in * end;
  destruct F as (F1 & F2 & F3 & F4 & F5 & F6); clearbody inf.

Ltac rt :=
  repeat first
    [ rewrite <- app_assoc
    | rewrite id_roundtrip by assumption
    | rewrite str_roundtrip by assumption
    | rewrite var_u32_roundtrip by (unfold two32; lia)
    | progress cbn [bind app negb andb] ].

Theorem block_roundtrip : forall b fuel bs rest,
  wf_block b = true -> (block_fuel b <= fuel)%nat -> encode_block b = Some bs ->
  decode_block fuel (block_id b) (bs ++ rest) = Ok (Some b) rest.
Proof.
  intros b fuel bs rest Hwf Hf Henc. destruct b as [i o ro p ps c|i n|i n]; cbn [block_id block_fuel wf_block] in *.
  - repeat (apply andb_prop in Hwf; destruct Hwf as [Hwf ?]).
    rename H into Hshape, H0 into Hc, H1 into Hps, H2 into Hp, H3 into Hro, Hwf into Ho.
    pose proof (wf_content_len c Hc) as Hlen.
    destruct o as [o|], ro as [ro|]; cbn [is_some orb wf_oid] in *;
      try (match type of Hshape with true = true => fail 1 | _ => idtac end;
           destruct p; try discriminate Hshape; destruct ps; try discriminate Hshape).
    + (* origin + right origin *)
      cbn [encode_block] in Henc. destruct (encode_content c) as [cb|] eqn:Ec; [|discriminate].
      item_facts true true false c. apply some_inj in Henc. subst bs.
      rewrite <- app_comm_cons. unfold decode_block. cbn [read_u8 bind].
      rewrite F1, F2, F3, F4. unfold rmap. rt.
      rewrite (content_roundtrip c fuel info cb rest) by assumption. cbn [bind]. rewrite Hlen. reflexivity.
    + (* origin only *)
      cbn [encode_block] in Henc. destruct (encode_content c) as [cb|] eqn:Ec; [|discriminate].
      item_facts true false false c. apply some_inj in Henc. subst bs.
      rewrite <- app_comm_cons. unfold decode_block. cbn [read_u8 bind].
      rewrite F1, F2, F3, F4. unfold rmap. rt.
      rewrite (content_roundtrip c fuel info cb rest) by assumption. cbn [bind]. rewrite Hlen. reflexivity.
    + (* right origin only *)
      cbn [encode_block] in Henc. destruct (encode_content c) as [cb|] eqn:Ec; [|discriminate].
      item_facts false true false c. apply some_inj in Henc. subst bs.
      rewrite <- app_comm_cons. unfold decode_block. cbn [read_u8 bind].
      rewrite F1, F2, F3, F4. unfold rmap. rt.
      rewrite (content_roundtrip c fuel info cb rest) by assumption. cbn [bind]. rewrite Hlen. reflexivity.
    + (* no origin: parent on the wire *)
      cbn [encode_block] in Henc. destruct (encode_content c) as [cb|] eqn:Ec.
      2:{ destruct p; discriminate. }
      cbn [wf_parent wf_ostr] in *.
      destruct p as [pn|pi|]; [| |discriminate]; destruct ps as [s|]; cbn [wf_ostr] in *.
      * item_facts false false true c. apply some_inj in Henc. subst bs.
        rewrite <- app_comm_cons. unfold decode_block. cbn [read_u8 bind].
        rewrite F1, F2, F3, F4, F5. unfold rmap. rt. change (1 =? 1) with true. cbv iota. rt.
        rewrite (content_roundtrip c fuel info cb rest) by assumption. cbn [bind]. rewrite Hlen. reflexivity.
      * item_facts false false false c. apply some_inj in Henc. subst bs.
        rewrite <- app_comm_cons. unfold decode_block. cbn [read_u8 bind].
        rewrite F1, F2, F3, F4, F5. unfold rmap. rt. change (1 =? 1) with true. cbv iota. rt.
        rewrite (content_roundtrip c fuel info cb rest) by assumption. cbn [bind]. rewrite Hlen. reflexivity.
      * item_facts false false true c. apply some_inj in Henc. subst bs.
        rewrite <- app_comm_cons. unfold decode_block. cbn [read_u8 bind].
        rewrite F1, F2, F3, F4, F5. unfold rmap. rt. change (0 =? 1) with false. cbv iota. rt.
        rewrite (content_roundtrip c fuel info cb rest) by assumption. cbn [bind]. rewrite Hlen. reflexivity.
      * item_facts false false false c. apply some_inj in Henc. subst bs.
        rewrite <- app_comm_cons. unfold decode_block. cbn [read_u8 bind].
        rewrite F1, F2, F3, F4, F5. unfold rmap. rt. change (0 =? 1) with false. cbv iota. rt.
        rewrite (content_roundtrip c fuel info cb rest) by assumption. cbn [bind]. rewrite Hlen. reflexivity.
  - cbn [encode_block] in Henc. apply some_inj in Henc. subst bs.
    rewrite <- app_comm_cons. unfold decode_block. cbn [read_u8 bind].
    change (C_BLOCK_GC_REF_NUMBER =? C_BLOCK_SKIP_REF_NUMBER) with false.
    change (C_BLOCK_GC_REF_NUMBER =? C_BLOCK_GC_REF_NUMBER) with true. cbv iota.
    unfold rmap. rewrite var_u32_roundtrip by lia. reflexivity.
  - cbn [encode_block] in Henc. apply some_inj in Henc. subst bs.
    rewrite <- app_comm_cons. unfold decode_block. cbn [read_u8 bind].
    change (C_BLOCK_SKIP_REF_NUMBER =? C_BLOCK_SKIP_REF_NUMBER) with true. cbv iota.
    unfold rmap. rewrite var_u32_roundtrip by lia. reflexivity.
Qed.
Print Assumptions block_roundtrip.

(* what the strengthened wf_content excludes does not round trip *)

(* a JSON item whose count does not fit an i32 decodes to an empty item (which decode_block then drops) *)
Theorem json_count_i32_wrap : forall fuel info n rest,
  N.land info 15 = C_BLOCK_ITEM_JSON_REF_NUMBER -> 2147483648 <= n -> n < two32 ->
  decode_content fuel info (write_var_u32 n ++ rest) = Ok (BJson []) rest.
Proof.
  intros fuel info n rest Hinfo Hlo Hhi.
  rewrite (decode_content_ref fuel info _ (BJson []) Hinfo).
  rewrite var_u32_roundtrip by exact Hhi. cbn [bind]. replace (n <? 2147483648) with false by lia.
  rewrite read_strings_eq. reflexivity.
Qed.
Print Assumptions json_count_i32_wrap.

(* an item whose string is not well-formed UTF-8 is encoded but rejected by the decoder *)
Example block_invalid_utf8_rejected :
  let b := BItem (mkid 1 5) None None (PNamed [97]) None (BString [104; 255]) in
  wf_block b = false /\
  exists bs, encode_block b = Some bs /\ decode_block (S (length bs)) (mkid 1 5) bs = Err UnexpectedValue.
Proof. split; [vm_compute; reflexivity|]. eexists. split; [vm_compute; reflexivity|]. vm_compute. reflexivity. Qed.

(* ------------------------------------------------------------------------------------------------ *)
(* A6. update round trip                                                                            *)
(* ------------------------------------------------------------------------------------------------ *)

(* every block of the client [c] carries the id the decoder will assign: consecutive clocks from [k] *)
Fixpoint blocks_chain (c k : N) (l : list block) : bool :=
  match l with
  | [] => true
  | b :: r => id_eqb (block_id b) (mkid c k) && (k + block_len b <? two32) && blocks_chain c (k + block_len b) r
  end.

Definition wf_client (cb : N * list block) : bool :=
  match snd cb with
  | [] => false
  | b0 :: _ =>
    (fst cb <? two53) && (N.of_nat (length (snd cb)) <? two32) &&
    forallb wf_block (snd cb) && blocks_chain (fst cb) (ck (block_id b0)) (snd cb)
  end.

Definition wf_update (u : update) : bool :=
  (N.of_nat (length (u_blocks u)) <? two32) && forallb wf_client (u_blocks u) &&
  nodupb (map fst (u_blocks u)) && wf_idset (u_ds u).

Definition client_fuel (cb : N * list block) : nat :=
  (length (snd cb) + list_max (map block_fuel (snd cb)))%nat.
Definition update_fuel (u : update) : nat :=
  Nat.max (length (u_blocks u) + list_max (map client_fuel (u_blocks u)))%nat (idset_fuel (u_ds u)).

Lemma blocks_roundtrip : forall l fuel M c k acc body rest,
  (length l + M <= fuel)%nat -> (forall b, In b l -> (block_fuel b <= M)%nat) ->
  forallb wf_block l = true -> blocks_chain c k l = true -> encode_blocks l = Some body ->
  decode_blocks fuel (N.of_nat (length l)) c k (body ++ rest) acc = Ok (rev acc ++ l) rest.
Proof.
  induction l as [|x l IH]; intros fuel M c k acc body rest Hf HM Hwf Hch Henc; rewrite decode_blocks_eq.
  - cbn [encode_blocks] in Henc. apply some_inj in Henc. subst body.
    cbn [length app]. change (N.of_nat 0 =? 0) with true. cbv iota. rewrite app_nil_r. reflexivity.
  - cbn [length] in *. rewrite of_nat_S_eqb0, of_nat_S_pred. destruct fuel as [|f]; [lia|].
    cbn [forallb] in Hwf. apply andb_prop in Hwf. destruct Hwf as [Hx Hr].
    cbn [blocks_chain] in Hch. apply andb_prop in Hch. destruct Hch as [Hch Hch'].
    apply andb_prop in Hch. destruct Hch as [Hid Hk]. apply id_eqb_eq in Hid.
    cbn [encode_blocks] in Henc. destruct (encode_block x) as [xb|] eqn:Ex; [|discriminate].
    destruct (encode_blocks l) as [lb|] eqn:El; [|discriminate]. apply some_inj in Henc. subst body.
    rewrite <- app_assoc.
    assert (HxM : (block_fuel x <= M)%nat) by (apply HM; left; reflexivity).
    rewrite <- Hid. rewrite (block_roundtrip x (S f) xb) by (try assumption; lia). cbn [bind].
    unfold add32_checked. rewrite Hk.
    assert (HM' : forall b, In b l -> (block_fuel b <= M)%nat) by (intros b Hb; apply HM; right; exact Hb).
    rewrite (IH f M c (k + block_len x) (x :: acc) lb rest); [|lia|exact HM'|exact Hr|exact Hch'|reflexivity].
    cbn [rev]. rewrite <- app_assoc. reflexivity.
Qed.

Lemma add_client_blocks_append : forall acc c bs,
  (forall c', In c' (map fst acc) -> c' <> c) -> add_client_blocks acc c bs = acc ++ [(c, bs)].
Proof.
  induction acc as [|[c0 b0] acc IH]; intros c bs H; cbn [add_client_blocks app]; [reflexivity|].
  assert (c0 <> c) by (apply H; left; reflexivity).
  replace (c0 =? c) with false by lia.
  rewrite IH; [reflexivity|]. intros c' Hin. apply H. right. exact Hin.
Qed.

Lemma clients_roundtrip : forall l fuel M acc body rest,
  (length l + M <= fuel)%nat -> (forall cb, In cb l -> (client_fuel cb <= M)%nat) ->
  forallb wf_client l = true -> nodupb (map fst l) = true ->
  (forall c' x, In c' (map fst acc) -> In x (map fst l) -> c' <> x) ->
  encode_clients l = Some body ->
  decode_clients fuel (N.of_nat (length l)) (body ++ rest) acc = Ok (acc ++ l) rest.
Proof.
  induction l as [|[c bl] l IH]; intros fuel M acc body rest Hf HM Hwf Hnd Hacc Henc; rewrite decode_clients_eq.
  - cbn [encode_clients] in Henc. apply some_inj in Henc. subst body.
    cbn [length app]. change (N.of_nat 0 =? 0) with true. cbv iota. rewrite app_nil_r. reflexivity.
  - cbn [length] in *. rewrite of_nat_S_eqb0, of_nat_S_pred. destruct fuel as [|f]; [lia|].
    cbn [forallb] in Hwf. apply andb_prop in Hwf. destruct Hwf as [Hx Hr].
    unfold wf_client in Hx. cbn [fst snd] in Hx. destruct bl as [|b0 bl']; [discriminate|].
    set (bl := b0 :: bl') in *.
    repeat (apply andb_prop in Hx; destruct Hx as [Hx ?]).
    rename Hx into Hc, H into Hch, H0 into Hwb, H1 into Hlen.
    cbn [encode_clients] in Henc. fold bl in Henc.
    destruct (encode_blocks bl) as [xb|] eqn:Ex; [|discriminate].
    destruct (encode_clients l) as [lb|] eqn:El; [|discriminate]. apply some_inj in Henc. subst body.
    unfold write_var_usize. rewrite <- !app_assoc.
    rewrite var_u32_of_u64_roundtrip by lia. cbn [bind].
    rewrite var_u64_roundtrip by (unfold two53, two64 in *; lia). cbn [bind].
    unfold client_id_new. rewrite Hc. cbn [bind].
    assert (Hk0 : ck (block_id b0) < two32).
    { unfold bl in Hch. cbn [blocks_chain] in Hch. apply andb_prop in Hch. destruct Hch as [Hch _].
      apply andb_prop in Hch. lia. }
    rewrite var_u32_roundtrip by exact Hk0. cbn [bind].
    assert (HcM : (client_fuel (c, bl) <= M)%nat) by (apply HM; left; reflexivity).
    unfold client_fuel in HcM. cbn [snd] in HcM.
    rewrite (blocks_roundtrip bl f (list_max (map block_fuel bl)) c (ck (block_id b0)) [] xb);
      [|lia|intros b Hb; apply (list_max_map_in _ block_fuel); exact Hb|exact Hwb|exact Hch|exact Ex].
    cbn [bind rev app].
    cbn [map fst nodupb] in Hnd. apply andb_prop in Hnd. destruct Hnd as [Hnin Hnd].
    apply negb_true_iff in Hnin.
    rewrite add_client_blocks_append.
    2:{ intros c' Hin. apply Hacc; [exact Hin|]. left. reflexivity. }
    rewrite (IH f M (acc ++ [(c, bl)]) lb rest); try assumption; try lia; try reflexivity.
    + rewrite <- app_assoc. reflexivity.
    + intros cb Hin. apply HM. right. exact Hin.
    + intros c' x Hin Hx. rewrite map_app in Hin. apply in_app_or in Hin. destruct Hin as [Hin|Hin].
      * apply Hacc; [exact Hin|]. right. exact Hx.
      * cbn [map fst In] in Hin. destruct Hin as [<-|[]]. eapply existsb_eqb_false; eassumption.
Qed.

Lemma nonempty_clients_id : forall l, forallb wf_client l = true -> nonempty_clients l = l.
Proof.
  induction l as [|[c bl] l IH]; intro H; [reflexivity|].
  cbn [forallb] in H. apply andb_prop in H. destruct H as [Hx Hr].
  unfold nonempty_clients in *. cbn [filter snd]. destruct bl; [discriminate|]. rewrite IH by exact Hr. reflexivity.
Qed.

Theorem update_roundtrip : forall u fuel bs rest,
  wf_update u = true -> (update_fuel u <= fuel)%nat -> encode_update_v1 u = Some bs ->
  decode_update_v1 fuel (bs ++ rest) = Ok u rest.
Proof.
  intros [cs ds] fuel bs rest Hwf Hf Henc. unfold wf_update, update_fuel in *. cbn [u_blocks u_ds] in *.
  repeat (apply andb_prop in Hwf; destruct Hwf as [Hwf ?]).
  rename Hwf into Hlen, H into Hds, H0 into Hnd, H1 into Hcl.
  unfold encode_update_v1 in Henc. cbn [u_blocks u_ds] in Henc.
  rewrite nonempty_clients_id in Henc by exact Hcl.
  destruct (encode_clients cs) as [body|] eqn:Ec; [|discriminate]. apply some_inj in Henc. subst bs.
  unfold decode_update_v1, write_var_usize. rewrite <- !app_assoc.
  rewrite var_u32_of_u64_roundtrip by lia. cbn [bind].
  rewrite (clients_roundtrip cs fuel (list_max (map client_fuel cs)) [] body);
    [|lia|intros cb Hb; apply (list_max_map_in _ client_fuel); exact Hb|exact Hcl|exact Hnd|intros c' x []|exact Ec].
  cbn [bind app]. rewrite idset_roundtrip by (try assumption; lia). reflexivity.
Qed.
Print Assumptions update_roundtrip.

(* the delete set of a decoded update is canonical and well formed: it can be encoded again *)
Theorem decode_update_ds_wf : forall fuel bs u rest,
  decode_update_v1 fuel bs = Ok u rest -> wf_idset (u_ds u) = true.
Proof.
  intros fuel bs u rest H. unfold decode_update_v1 in H.
  apply bind_ok in H. destruct H as (n & r1 & _ & H).
  apply bind_ok in H. destruct H as (cs & r2 & _ & H).
  apply bind_ok in H. destruct H as (ds & r3 & Hds & H). inversion H; subst. cbn [u_ds].
  eapply decode_idset_wf. exact Hds.
Qed.
Print Assumptions decode_update_ds_wf.

(* ------------------------------------------------------------------------------------------------ *)
(* remarks: what wf_block excludes really does not round trip, and the predicates are inhabited      *)
(* ------------------------------------------------------------------------------------------------ *)

(* the encoder refuses an item without origins whose parent is unknown *)
Theorem encode_block_unknown_parent : forall i ps c, encode_block (BItem i None None PUnknown ps c) = None.
Proof. reflexivity. Qed.

(* with an origin on the wire the parent and the parent_sub are dropped *)
Theorem block_parent_dropped :
  let b := BItem (mkid 1 5) (Some (mkid 1 4)) None (PNamed [97]) None (BDeleted 1) in
  exists bs, encode_block b = Some bs /\
             decode_block 1 (mkid 1 5) bs = Ok (Some (BItem (mkid 1 5) (Some (mkid 1 4)) None PUnknown None (BDeleted 1))) [].
Proof. eexists. split; [vm_compute; reflexivity|]. vm_compute. reflexivity. Qed.
Print Assumptions block_parent_dropped.

Theorem block_parent_sub_dropped :
  let b := BItem (mkid 1 5) (Some (mkid 1 4)) None PUnknown (Some [98]) (BDeleted 1) in
  exists bs, encode_block b = Some bs /\
             decode_block 1 (mkid 1 5) bs = Ok (Some (BItem (mkid 1 5) (Some (mkid 1 4)) None PUnknown None (BDeleted 1))) [].
Proof. eexists. split; [vm_compute; reflexivity|]. vm_compute. reflexivity. Qed.

(* zero-length content: Item::new returns None and the block disappears *)
Theorem block_empty_string_dropped :
  let b := BItem (mkid 1 5) None None (PNamed [97]) None (BString []) in
  exists bs, encode_block b = Some bs /\ decode_block 1 (mkid 1 5) bs = Ok None [].
Proof. eexists. split; [vm_compute; reflexivity|]. vm_compute. reflexivity. Qed.

Example update_roundtrip_example :
  let w := {| wl_start := SRelative (mkid 3 4); wl_start_after := true;
              wl_end := SRoot [120]; wl_end_after := false |} in
  let u := {| u_blocks :=
                [(5, [BItem (mkid 5 0) None None (PNamed [97]) (Some [98]) (BString [104; 105]);
                      BItem (mkid 5 2) (Some (mkid 5 1)) None PUnknown None
                            (BAny [AInt (-5)%Z; AArray [ANull; AString [1]]]);
                      BGC (mkid 5 4) 3; BSkip (mkid 5 7) 2;
                      BItem (mkid 5 9) (Some (mkid 5 1)) (Some (mkid 7 0)) PUnknown None (BType (TWeak w))]);
                 (7, [BItem (mkid 7 0) None None (PId (mkid 5 0)) None (BDeleted 4)])];
              u_ds := [(5, [(0, 1, tt); (3, 4, tt)]); (9, [(1, 2, tt)])] |} in
  wf_update u = true /\
  exists bs, encode_update_v1 u = Some bs /\ decode_update_v1 (update_fuel u) bs = Ok u [].
Proof.
  split; [vm_compute; reflexivity|]. eexists. split; [vm_compute; reflexivity|]. vm_compute. reflexivity.
Qed.
