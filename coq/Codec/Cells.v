(* C19: value cells of the C API (yffi/src/lib.rs): YInput -> Any (`YInput::into`) and Any -> YOutput
   (`impl From<Any> for YOutput` and the From impls it delegates to).  `jany` mirrors yrs::Any one to one
   (numbers are f64 bit patterns, big ints are i64 bit patterns); maps are association lists sorted by key
   without duplicates (yrs keeps them in a HashMap, the harness prints them sorted).  Tags come from
   Gen/Consts.v, regenerated from yffi/src/lib.rs on every run.  No proofs in this file. *)
From Coq Require Import List NArith ZArith Bool.
Import ListNotations.
From YV Require Import Gen.Consts.
Open Scope N_scope.

Inductive jany :=
| JNull | JUndefined
| JBool (b : bool)
| JNumber (bits : N)
| JBigInt (bits : N)
| JString (s : list N)
| JBuffer (b : list N)
| JArray (l : list jany)
| JMap (l : list (list N * jany)).

(* a cell as it crosses the boundary: tag, len and payload *)
Inductive cell :=
| Cell (tag : Z) (len : N) (p : payload)
with payload :=
| PNone
| PFlag (b : N)              (* u8 *)
| PNum (bits : N)
| PInt (bits : N)
| PStr (s : list N)          (* NUL-terminated UTF-8 on the wire; the bytes without the terminator *)
| PBuf (b : list N)
| PArr (l : list cell)
| PMap (l : list (list N * cell)).

(* what the yinput_* constructors build for a value (harness side) *)
Fixpoint input_of (a : jany) : cell :=
  match a with
  | JNull => Cell FFI_Y_JSON_NULL 0 PNone
  | JUndefined => Cell FFI_Y_JSON_UNDEF 0 PNone
  | JBool b => Cell FFI_Y_JSON_BOOL 1 (PFlag (if b then 1 else 0))
  | JNumber x => Cell FFI_Y_JSON_NUM 1 (PNum x)
  | JBigInt x => Cell FFI_Y_JSON_INT 1 (PInt x)
  | JString s => Cell FFI_Y_JSON_STR 1 (PStr s)
  | JBuffer b => Cell FFI_Y_JSON_BUF (N.of_nat (length b)) (PBuf b)
  | JArray l => Cell FFI_Y_JSON_ARR (N.of_nat (length l)) (PArr (map input_of l))
  | JMap l => Cell FFI_Y_JSON_MAP (N.of_nat (length l)) (PMap (map (fun kv => (fst kv, input_of (snd kv))) l))
  end.

(* sorted association lists (HashMap insert: a later key replaces an earlier one) *)
Fixpoint bytes_ltb (a b : list N) : bool :=
  match a, b with
  | [], [] => false
  | [], _ :: _ => true
  | _ :: _, [] => false
  | x :: r, y :: s => if x <? y then true else if y <? x then false else bytes_ltb r s
  end.
Definition bytes_eqb (a b : list N) : bool := negb (bytes_ltb a b) && negb (bytes_ltb b a).
Fixpoint map_insert {A} (k : list N) (v : A) (m : list (list N * A)) : list (list N * A) :=
  match m with
  | [] => [(k, v)]
  | (k', v') :: r => if bytes_ltb k k' then (k, v) :: m else if bytes_eqb k k' then (k, v) :: r else (k', v') :: map_insert k v r
  end.

(* YInput::into; None = panic (unknown tag, payload of the wrong shape) *)
Fixpoint into_any (c : cell) : option jany :=
  match c with
  | Cell tag len p =>
      if (tag =? FFI_Y_JSON_STR)%Z then match p with PStr s => Some (JString s) | _ => None end
      else if (tag =? FFI_Y_JSON_NULL)%Z then Some JNull
      else if (tag =? FFI_Y_JSON_UNDEF)%Z then Some JUndefined
      else if (tag =? FFI_Y_JSON_INT)%Z then match p with PInt x => Some (JBigInt x) | _ => None end
      else if (tag =? FFI_Y_JSON_NUM)%Z then match p with PNum x => Some (JNumber x) | _ => None end
      else if (tag =? FFI_Y_JSON_BOOL)%Z then match p with PFlag b => Some (JBool (negb (b =? 0))) | _ => None end
      else if (tag =? FFI_Y_JSON_BUF)%Z then match p with PBuf b => Some (JBuffer (firstn (N.to_nat len) b)) | _ => None end
      else if (tag =? FFI_Y_JSON_ARR)%Z then
        match p with
        | PArr l =>
            match (fix go (n : nat) (l : list cell) {struct l} : option (list jany) :=
                     match n, l with
                     | O, _ => Some []
                     | S _, [] => Some []
                     | S m, x :: r => match into_any x, go m r with Some a, Some b => Some (a :: b) | _, _ => None end
                     end) (N.to_nat len) l with
            | Some l' => Some (JArray l') | None => None
            end
        | _ => None
        end
      else if (tag =? FFI_Y_JSON_MAP)%Z then
        match p with
        | PMap l =>
            match (fix go (n : nat) (l : list (list N * cell)) (acc : list (list N * jany)) {struct l} : option (list (list N * jany)) :=
                     match n, l with
                     | O, _ => Some acc
                     | S _, [] => Some acc
                     | S m, (k, x) :: r => match into_any x with Some a => go m r (map_insert k a acc) | None => None end
                     end) (N.to_nat len) l [] with
            | Some m => Some (JMap m) | None => None
            end
        | _ => None
        end
      else if (tag =? FFI_Y_DOC)%Z then Some JUndefined
      else None
  end.

(* impl From<Any> for YOutput *)
Fixpoint output_of (a : jany) : cell :=
  match a with
  | JNull => Cell FFI_Y_JSON_NULL 0 PNone
  | JUndefined => Cell FFI_Y_JSON_UNDEF 0 PNone
  | JBool b => Cell FFI_Y_JSON_BOOL 1 (PFlag (if b then 1 else 0))
  | JNumber x => Cell FFI_Y_JSON_NUM 1 (PNum x)
  | JBigInt x => Cell FFI_Y_JSON_INT 1 (PInt x)
  | JString s => Cell FFI_Y_JSON_STR (N.of_nat (length s)) (PStr s)         (* len = byte length of the string *)
  | JBuffer b => Cell FFI_Y_JSON_BUF (N.of_nat (length b)) (PBuf b)
  | JArray l => Cell FFI_Y_JSON_ARR (N.of_nat (length l)) (PArr (map output_of l))
  | JMap l => Cell FFI_Y_JSON_MAP (N.of_nat (length l)) (PMap (map (fun kv => (fst kv, output_of (snd kv))) l))
  end.

(* reading an output cell back (the youtput_read_ functions): None where the reader returns NULL *)
Fixpoint read_back (c : cell) : option jany :=
  match c with
  | Cell tag len p =>
      if (tag =? FFI_Y_JSON_NULL)%Z then Some JNull
      else if (tag =? FFI_Y_JSON_UNDEF)%Z then Some JUndefined
      else if (tag =? FFI_Y_JSON_BOOL)%Z then match p with PFlag b => Some (JBool (negb (b =? 0))) | _ => None end
      else if (tag =? FFI_Y_JSON_NUM)%Z then match p with PNum x => Some (JNumber x) | _ => None end
      else if (tag =? FFI_Y_JSON_INT)%Z then match p with PInt x => Some (JBigInt x) | _ => None end
      else if (tag =? FFI_Y_JSON_STR)%Z then match p with PStr s => Some (JString s) | _ => None end
      else if (tag =? FFI_Y_JSON_BUF)%Z then match p with PBuf b => Some (JBuffer (firstn (N.to_nat len) b)) | _ => None end
      else if (tag =? FFI_Y_JSON_ARR)%Z then
        match p with
        | PArr l =>
            match (fix go (n : nat) (l : list cell) {struct l} : option (list jany) :=
                     match n, l with
                     | O, _ => Some []
                     | S _, [] => Some []
                     | S m, x :: r => match read_back x, go m r with Some a, Some b => Some (a :: b) | _, _ => None end
                     end) (N.to_nat len) l with
            | Some l' => Some (JArray l') | None => None
            end
        | _ => None
        end
      else if (tag =? FFI_Y_JSON_MAP)%Z then
        match p with
        | PMap l =>
            match (fix go (n : nat) (l : list (list N * cell)) {struct l} : option (list (list N * jany)) :=
                     match n, l with
                     | O, _ => Some []
                     | S _, [] => Some []
                     | S m, (k, x) :: r => match read_back x, go m r with Some a, Some b => Some ((k, a) :: b) | _, _ => None end
                     end) (N.to_nat len) l with
            | Some m => Some (JMap m) | None => None
            end
        | _ => None
        end
      else None
  end.

(* well-formed values: map keys strictly ascending at every level (what a HashMap holds, printed sorted) *)
Fixpoint keys_sorted {A} (l : list (list N * A)) : bool :=
  match l with
  | [] => true
  | [_] => true
  | (k1, _) :: (((k2, _) :: _) as r) => bytes_ltb k1 k2 && keys_sorted r
  end.
Fixpoint jwf (a : jany) : bool :=
  match a with
  | JArray l => forallb jwf l
  | JMap l => keys_sorted l && forallb (fun kv => jwf (snd kv)) l
  | _ => true
  end.
