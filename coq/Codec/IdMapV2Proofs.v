(* Theorems about IdMapV2.v -- see the list at the end of the file (Print Assumptions) and REPORT.md. *)
From Coq Require Import List NArith ZArith Bool Lia ZifyBool ZifyN ZifyNat.
From YV Require Import Gen.Consts Lib.Bytes Codec.Varint Codec.AnyCodec Codec.IdSetCodec Codec.UpdateV1 Ids.Ranges
  Ids.RangesProofs Codec.VarintProofs Codec.AnyProofs Codec.FramingProofs Codec.UpdateProofs.
From YV Require Import Codec.V2Cols Codec.UpdateV2 Codec.V2Proofs Codec.WireV2 Codec.IdMapCodec Codec.IdMapProofs.
From YV.Codec Require Import IdMapV2.
Import ListNotations.
Open Scope N_scope.
Ltac Zify.zify_post_hook ::= Z.div_mod_to_equations.

(* ================================================================================================ *)
(* A. the DecoderV1 / EncoderV1 instances of the generic body are IdMapCodec's idm_decode_v1 / idm_encode_v1 *)
(* ================================================================================================ *)

Lemma im2_of_res_bind : forall A B (r : res A) (f : A -> list N -> res B),
  im2_of_res (bind r f) = im2_bind (im2_of_res r) (fun a d => im2_of_res (f a d)).
Proof. intros A B r f. destruct r; reflexivity. Qed.

Lemma im2_bind_ext : forall D A B (r : im2_r D A) (f g : A -> D -> im2_r D B),
  (forall a d, f a d = g a d) -> im2_bind r f = im2_bind r g.
Proof. intros D A B r f g H. destruct r; cbn [im2_bind]; auto. Qed.

Lemma im2_dec_attr_v1 : forall fuel st bs,
  im2_dec_attr im2_reader_v1 fuel st bs = im2_of_res (idm_dec_attr fuel st bs).
Proof.
  intros fuel [tbl names] bs. unfold im2_dec_attr, idm_dec_attr. cbn [im2_reader_v1 im2_rd_var_usize im2_rd_string im2_rd_any].
  rewrite im2_of_res_bind. apply im2_bind_ext. intros attr_id r1.
  rewrite im2_of_res_bind.
  match goal with |- im2_bind ?x _ = im2_bind ?y _ => replace x with y end.
  - apply im2_bind_ext. intros st' r2. destruct (idm_nth (fst st') attr_id); reflexivity.
  - destruct (N.of_nat (length tbl) <=? attr_id); [|reflexivity].
    rewrite im2_of_res_bind. apply im2_bind_ext. intros name_id r2.
    rewrite im2_of_res_bind.
    match goal with |- im2_bind ?x _ = im2_bind ?y _ => replace x with y end.
    + apply im2_bind_ext. intros names' r3. rewrite im2_of_res_bind. apply im2_bind_ext. intros a r4.
      rewrite im2_of_res_bind.
      replace (im2_of_res (idm_from_any a r4)) with (im2_from_any (D := list N) a r4) by (destruct a; reflexivity).
      apply im2_bind_ext. intros value r5. destruct (idm_nth names' name_id); reflexivity.
    + destruct (N.of_nat (length names) <=? name_id); [|reflexivity].
      rewrite im2_of_res_bind. apply im2_bind_ext. intros; reflexivity.
Qed.

Lemma im2_dec_attrs_v1 : forall fuel n st bs acc,
  im2_dec_attrs im2_reader_v1 fuel n st bs acc = im2_of_res (idm_dec_attrs fuel n st bs acc).
Proof.
  induction fuel as [|f IH]; intros n st bs acc; cbn [im2_dec_attrs idm_dec_attrs].
  - destruct (n =? 0); reflexivity.
  - destruct (n =? 0); [reflexivity|]. rewrite im2_dec_attr_v1, im2_of_res_bind.
    apply im2_bind_ext. intros x r. apply IH.
Qed.

Lemma im2_dec_range_v1 : forall fuel st bs,
  im2_dec_range im2_reader_v1 fuel st bs = im2_of_res (idm_dec_range fuel st bs).
Proof.
  intros fuel st bs. unfold im2_dec_range, idm_dec_range. cbn [im2_reader_v1 im2_rd_ds_clock im2_rd_ds_len im2_rd_var_u32].
  rewrite im2_of_res_bind. apply im2_bind_ext. intros clock r1.
  rewrite im2_of_res_bind. apply im2_bind_ext. intros len r2.
  rewrite im2_of_res_bind. apply im2_bind_ext. intros alen r3.
  rewrite im2_dec_attrs_v1, im2_of_res_bind. apply im2_bind_ext. intros x r4.
  destruct (add32_checked clock len); reflexivity.
Qed.

Lemma im2_dec_ranges_v1 : forall fuel n st bs acc,
  im2_dec_ranges im2_reader_v1 fuel n st bs acc = im2_of_res (idm_dec_ranges fuel n st bs acc).
Proof.
  induction fuel as [|f IH]; intros n st bs acc; cbn [im2_dec_ranges idm_dec_ranges].
  - destruct (n =? 0); reflexivity.
  - destruct (n =? 0); [reflexivity|]. rewrite im2_dec_range_v1, im2_of_res_bind.
    apply im2_bind_ext. intros x r. apply IH.
Qed.

Lemma im2_dec_clients_v1 : forall fuel n st last bs acc,
  im2_dec_clients im2_reader_v1 fuel n st last bs acc = im2_of_res (idm_dec_clients fuel n st last bs acc).
Proof.
  induction fuel as [|f IH]; intros n st last bs acc; cbn [im2_dec_clients idm_dec_clients].
  - destruct (n =? 0); reflexivity.
  - destruct (n =? 0); [reflexivity|]. cbn [im2_reader_v1 im2_rd_var_u64 im2_rd_reset_ds im2_rd_var_u32].
    rewrite im2_of_res_bind. apply im2_bind_ext. intros diff r1.
    destruct (idm_add64_checked last diff) as [client|]; [|reflexivity].
    rewrite im2_of_res_bind. apply im2_bind_ext. intros nr r2.
    rewrite im2_dec_ranges_v1, im2_of_res_bind. apply im2_bind_ext. intros x r3.
    rewrite im2_of_res_bind.
    replace (im2_of_res (client_id_new client r3)) with (im2_client_new (D := list N) client r3)
      by (unfold im2_client_new, client_id_new; destruct (client <? two53); reflexivity).
    apply im2_bind_ext. intros c r4.
    destruct (idm_normalize (fst (fst x)) (snd x)); [apply IH|reflexivity].
Qed.

Lemma im2_to_of_res : forall A (r : res A), im2_to_res (im2_of_res r) = r.
Proof. intros A r. destruct r; reflexivity. Qed.

(* the DecoderV1 instance of the generic decoder is the v1 decoder of Codec/IdMapCodec.v, for every fuel and input *)
Theorem im2_decode_v1_eq : forall fuel bs, im2_decode_v1 fuel bs = idm_decode_v1 fuel bs.
Proof.
  intros fuel bs. unfold im2_decode_v1, im2_gen_decode, idm_decode_v1. cbn [im2_reader_v1 im2_rd_var_u32].
  rewrite <- (im2_to_of_res _ (bind (read_var_u32 bs) _)). f_equal.
  rewrite im2_of_res_bind. apply im2_bind_ext. intros n r1.
  rewrite im2_dec_clients_v1, im2_of_res_bind. apply im2_bind_ext. intros x r2. reflexivity.
Qed.

(* ---- encoder ---- *)
Lemma im2_flat_app : forall (a b : list im2_call), flat_map im2_w1 (a ++ b) = flat_map im2_w1 a ++ flat_map im2_w1 b.
Proof. intros a b. apply flat_map_app. Qed.

Lemma im2_calls_attr_v1 : forall tbl st a,
  idm_enc_attr tbl st a = (fst (im2_calls_attr tbl st a), flat_map im2_w1 (snd (im2_calls_attr tbl st a))).
Proof.
  intros tbl [vis names] a. unfold idm_enc_attr, im2_calls_attr.
  destruct (idm_find (N.eqb a) vis 0); [cbn; rewrite app_nil_r; reflexivity|].
  destruct (match idm_nth tbl a with Some d => d | None => ([], AUndefined) end) as [name value].
  destruct (idm_find (idm_bytes_eqb name) names 0); cbn [fst snd flat_map im2_w1 app];
    rewrite ?im2_flat_app; cbn [flat_map im2_w1 app]; rewrite ?app_nil_r; repeat rewrite <- app_assoc; reflexivity.
Qed.

Lemma im2_calls_attrs_v1 : forall tbl l st,
  idm_enc_attrs tbl st l = (fst (im2_calls_attrs tbl st l), flat_map im2_w1 (snd (im2_calls_attrs tbl st l))).
Proof.
  intros tbl. induction l as [|a l IH]; intro st; cbn [idm_enc_attrs im2_calls_attrs]; [reflexivity|].
  rewrite im2_calls_attr_v1. destruct (im2_calls_attr tbl st a) as [st1 o1]. cbn [fst snd].
  rewrite IH. destruct (im2_calls_attrs tbl st1 l) as [st2 o2]. cbn [fst snd]. rewrite im2_flat_app. reflexivity.
Qed.

Lemma im2_calls_range_v1 : forall tbl st x,
  idm_enc_range tbl st x = (fst (im2_calls_range tbl st x), flat_map im2_w1 (snd (im2_calls_range tbl st x))).
Proof.
  intros tbl st x. unfold idm_enc_range, im2_calls_range. rewrite im2_calls_attrs_v1.
  destruct (im2_calls_attrs tbl st (e_val x)) as [st1 o1]. cbn [fst snd flat_map im2_w1]. repeat rewrite <- app_assoc. reflexivity.
Qed.

Lemma im2_calls_ranges_v1 : forall tbl l st,
  idm_enc_ranges tbl st l = (fst (im2_calls_ranges tbl st l), flat_map im2_w1 (snd (im2_calls_ranges tbl st l))).
Proof.
  intros tbl. induction l as [|a l IH]; intro st; cbn [idm_enc_ranges im2_calls_ranges]; [reflexivity|].
  rewrite im2_calls_range_v1. destruct (im2_calls_range tbl st a) as [st1 o1]. cbn [fst snd].
  rewrite IH. destruct (im2_calls_ranges tbl st1 l) as [st2 o2]. cbn [fst snd]. rewrite im2_flat_app. reflexivity.
Qed.

Lemma im2_calls_clients_v1 : forall tbl l st last,
  idm_enc_clients tbl st last l
  = (fst (im2_calls_clients tbl st last l), flat_map im2_w1 (snd (im2_calls_clients tbl st last l))).
Proof.
  intros tbl. induction l as [|[c rs] l IH]; intros st last; cbn [idm_enc_clients im2_calls_clients]; [reflexivity|].
  rewrite im2_calls_ranges_v1. destruct (im2_calls_ranges tbl st rs) as [st1 o1]. cbn [fst snd].
  rewrite IH. destruct (im2_calls_clients tbl st1 c l) as [st2 o2]. cbn [fst snd flat_map im2_w1 app].
  rewrite im2_flat_app. repeat rewrite <- app_assoc. reflexivity.
Qed.

(* the EncoderV1 interpretation of the call sequence is the v1 encoder of Codec/IdMapCodec.v, for every value *)
Theorem im2_encode_v1_eq : forall v, im2_encode_v1 v = idm_encode_v1 v.
Proof.
  intro v. unfold im2_encode_v1, im2_calls, idm_encode_v1. cbn [flat_map im2_w1].
  rewrite im2_calls_clients_v1. reflexivity.
Qed.

(* ================================================================================================ *)
(* B. totality of the generic decoder over any reader whose reads shrink a measure of the state      *)
(* ================================================================================================ *)

Lemma im2_dec_attrs_eq : forall D (R : im2_reader D) fuel n st d acc,
  im2_dec_attrs R fuel n st d acc =
  if n =? 0 then Im2Ok (st, rev acc) d else
  match fuel with
  | O => Im2Fuel
  | S f => let^ (x, d') := im2_dec_attr R fuel st d in im2_dec_attrs R f (n - 1) (fst x) d' (snd x :: acc)
  end.
Proof. destruct fuel; reflexivity. Qed.

Lemma im2_dec_ranges_eq : forall D (R : im2_reader D) fuel n st d acc,
  im2_dec_ranges R fuel n st d acc =
  if n =? 0 then Im2Ok (st, rev acc) d else
  match fuel with
  | O => Im2Fuel
  | S f => let^ (x, d') := im2_dec_range R f st d in im2_dec_ranges R f (n - 1) (fst x) d' (snd x :: acc)
  end.
Proof. destruct fuel; reflexivity. Qed.

Lemma im2_dec_clients_eq : forall D (R : im2_reader D) fuel n st last d acc,
  im2_dec_clients R fuel n st last d acc =
  if n =? 0 then Im2Ok (st, acc) d else
  match fuel with
  | O => Im2Fuel
  | S f =>
    let^ (diff, d1) := im2_rd_var_u64 R (im2_rd_reset_ds R d) in
    match idm_add64_checked last diff with
    | None => Im2Err UnexpectedValue
    | Some client =>
      let^ (num_ranges, d2) := im2_rd_var_u32 R d1 in
      let^ (x, d3) := im2_dec_ranges R f num_ranges st d2 [] in
      let^ (c, d4) := im2_client_new client d3 in
      match idm_normalize (fst (fst x)) (snd x) with
      | None => Im2Panic P_INDEX
      | Some rs => im2_dec_clients R f (n - 1) (fst x) client d4 (match rs with [] => acc | _ => im_set acc c rs end)
      end
    end
  end.
Proof. destruct fuel; reflexivity. Qed.

Section Im2Total.
Context {D : Type}.
Variable R : im2_reader D.
Variable sz : D -> nat.

(* Ok with a state strictly smaller than n, or Err: never Panic, never Fuel *)
Definition im2_gbnd {A} (n : nat) (r : im2_r D A) : Prop :=
  match r with
  | Im2Ok _ d => (sz d < n)%nat
  | Im2Err _ => True
  | Im2Panic _ => False
  | Im2Fuel => False
  end.

Hypothesis H_u32 : forall d, im2_gbnd (sz d) (im2_rd_var_u32 R d).
Hypothesis H_u64 : forall d, im2_gbnd (sz d) (im2_rd_var_u64 R d).
Hypothesis H_usize : forall d, im2_gbnd (sz d) (im2_rd_var_usize R d).
Hypothesis H_reset : forall d, sz (im2_rd_reset_ds R d) = sz d.
Hypothesis H_clock : forall d, im2_gbnd (sz d) (im2_rd_ds_clock R d).
Hypothesis H_len : forall d, im2_gbnd (sz d) (im2_rd_ds_len R d).
Hypothesis H_string : forall d, im2_gbnd (S (sz d)) (im2_rd_string R d).
Hypothesis H_any : forall fuel d, (sz d < fuel)%nat -> im2_gbnd (sz d) (im2_rd_any R fuel d).

Lemma im2_gbnd_bind : forall A B n m (r : im2_r D A) (f : A -> D -> im2_r D B),
  im2_gbnd n r -> (forall a d, (sz d < n)%nat -> im2_gbnd m (f a d)) -> im2_gbnd m (im2_bind r f).
Proof. intros A B n m r f Hr Hf. destruct r; cbn [im2_bind im2_gbnd] in *; auto. Qed.

Lemma im2_gbnd_le : forall A n m (r : im2_r D A), (n <= m)%nat -> im2_gbnd n r -> im2_gbnd m r.
Proof. intros A n m r Hn H. destruct r; cbn in *; auto. lia. Qed.

Lemma im2_gbnd_dec_attr : forall fuel st d, (sz d < fuel)%nat -> im2_gbnd (sz d) (im2_dec_attr R fuel st d).
Proof.
  intros fuel [tbl names] d Hl. unfold im2_dec_attr.
  eapply im2_gbnd_bind; [apply H_usize|]. intros attr_id d1 H1.
  eapply (im2_gbnd_bind _ _ (S (sz d1))).
  - destruct (N.of_nat (length tbl) <=? attr_id); [|cbn [im2_gbnd]; lia].
    eapply im2_gbnd_bind; [apply H_usize|]. intros name_id d2 H2.
    eapply (im2_gbnd_bind _ _ (S (sz d2))).
    + destruct (N.of_nat (length names) <=? name_id); [|cbn [im2_gbnd]; lia].
      eapply im2_gbnd_bind; [apply H_string|]. intros nm d3 H3. cbn [im2_gbnd]. lia.
    + intros names' d3 H3.
      eapply im2_gbnd_bind; [apply H_any; lia|]. intros a d4 H4.
      eapply (im2_gbnd_bind _ _ (S (sz d4))).
      * unfold im2_from_any. destruct a; cbn [im2_gbnd]; auto.
      * intros value d5 H5. destruct (idm_nth names' name_id); cbn [im2_gbnd]; [lia|exact I].
  - intros st' d2 H2. destruct (idm_nth (fst st') attr_id); cbn [im2_gbnd]; [lia|exact I].
Qed.

Lemma im2_gbnd_dec_attrs : forall fuel n st d acc, (sz d < fuel)%nat ->
  im2_gbnd (S (sz d)) (im2_dec_attrs R fuel n st d acc).
Proof.
  induction fuel as [|f IH]; intros n st d acc Hl; [lia|]. rewrite im2_dec_attrs_eq.
  destruct (n =? 0); [cbn; lia|].
  eapply im2_gbnd_bind; [apply im2_gbnd_dec_attr; exact Hl|]. intros x d' Hr.
  eapply im2_gbnd_le; [|apply IH]; lia.
Qed.

Lemma im2_gbnd_dec_range : forall fuel st d, (sz d <= fuel)%nat -> im2_gbnd (sz d) (im2_dec_range R fuel st d).
Proof.
  intros fuel st d Hl. unfold im2_dec_range.
  eapply im2_gbnd_bind; [apply H_clock|]. intros clock d1 H1.
  eapply im2_gbnd_bind; [apply H_len|]. intros len d2 H2.
  eapply im2_gbnd_bind; [apply H_u32|]. intros alen d3 H3.
  eapply (im2_gbnd_bind _ _ (S (sz d3))); [apply im2_gbnd_dec_attrs; lia|]. intros x d4 H4.
  destruct (add32_checked clock len); cbn [im2_gbnd]; [lia|exact I].
Qed.

Lemma im2_gbnd_dec_ranges : forall fuel n st d acc, (sz d < fuel)%nat ->
  im2_gbnd (S (sz d)) (im2_dec_ranges R fuel n st d acc).
Proof.
  induction fuel as [|f IH]; intros n st d acc Hl; [lia|]. rewrite im2_dec_ranges_eq.
  destruct (n =? 0); [cbn; lia|].
  eapply im2_gbnd_bind; [apply im2_gbnd_dec_range; lia|]. intros x d' Hr.
  eapply im2_gbnd_le; [|apply IH]; lia.
Qed.

Lemma im2_gbnd_dec_clients : forall fuel n st last d acc, (sz d < fuel)%nat ->
  im2_gbnd (S (sz d)) (im2_dec_clients R fuel n st last d acc).
Proof.
  induction fuel as [|f IH]; intros n st last d acc Hl; [lia|]. rewrite im2_dec_clients_eq.
  destruct (n =? 0); [cbn; lia|].
  eapply im2_gbnd_bind; [apply H_u64|]. rewrite H_reset. intros diff d1 H1.
  destruct (idm_add64_checked last diff) as [client|]; [|exact I].
  eapply im2_gbnd_bind; [apply H_u32|]. intros nr d2 H2.
  eapply (im2_gbnd_bind _ _ (S (sz d2))); [apply im2_gbnd_dec_ranges; lia|]. intros x d3 H3.
  eapply (im2_gbnd_bind _ _ (S (sz d3))).
  { unfold im2_client_new. destruct (client <? two53); cbn [im2_gbnd]; [lia|exact I]. }
  intros c d4 H4.
  destruct (idm_normalize (fst (fst x)) (snd x)) as [rs|] eqn:En.
  2:{ exfalso. eapply idm_normalize_some. exact En. }
  eapply im2_gbnd_le; [|apply IH]; lia.
Qed.

(* for every state: with more fuel than the measure of the state the generic decoder returns a value (and a
   strictly smaller state) or an error -- no index panic, no exhaustion *)
Theorem im2_gen_decode_total : forall fuel d, (sz d < fuel)%nat -> im2_gbnd (sz d) (im2_gen_decode R fuel d).
Proof.
  intros fuel d Hl. unfold im2_gen_decode.
  eapply im2_gbnd_bind; [apply H_u32|]. intros n d1 H1.
  eapply (im2_gbnd_bind _ _ (S (sz d1))); [apply im2_gbnd_dec_clients; lia|]. intros x d2 H2.
  cbn [im2_gbnd]. lia.
Qed.
End Im2Total.

(* ---- the DecoderV2 reader shrinks the rest cursor ---- *)
Definition im2_sz2 (d : dec2) : nat := length (d_rest d).

Lemma im2_gbnd_on_rest : forall A (f : list N -> res A) d,
  bnd (length (d_rest d)) (f (d_rest d)) -> im2_gbnd im2_sz2 (im2_sz2 d) (im2_of_r2 (on_rest f d)).
Proof.
  intros A f d H. unfold on_rest, im2_sz2. destruct (f (d_rest d)); cbn in *; auto.
Qed.

Lemma im2_gbnd_v2_u32 : forall d, im2_gbnd im2_sz2 (im2_sz2 d) (im2_of_r2 (rd_var_u32 d)).
Proof. intro d. apply im2_gbnd_on_rest. apply bnd_read_var_u32. Qed.

Lemma im2_rd_var_u32_inv : forall d v d', rd_var_u32 d = R2Ok v d' ->
  (length (d_rest d') < length (d_rest d))%nat /\ d_ds d' = d_ds d.
Proof.
  intros d v d' H. unfold rd_var_u32, on_rest in H. pose proof (bnd_read_var_u32 (d_rest d)) as Hb.
  destruct (read_var_u32 (d_rest d)); try discriminate. inversion H; subst. cbn in *. split; [exact Hb|reflexivity].
Qed.

Lemma im2_gbnd_v2_clock : forall d, im2_gbnd im2_sz2 (im2_sz2 d) (im2_of_r2 (rd_ds_clock d)).
Proof.
  intro d. unfold rd_ds_clock. destruct (rd_var_u32 d) as [diff d1| | |] eqn:E; cbn [bind2 im2_of_r2 im2_gbnd]; auto.
  - apply im2_rd_var_u32_inv in E. destruct E as [E _].
    destruct (add32_checked (d_ds d1) diff); cbn; [unfold im2_sz2; cbn; exact E|exact I].
  - pose proof (im2_gbnd_v2_u32 d) as H. rewrite E in H. exact H.
  - pose proof (im2_gbnd_v2_u32 d) as H. rewrite E in H. exact H.
Qed.

Lemma im2_gbnd_v2_len : forall d, im2_gbnd im2_sz2 (im2_sz2 d) (im2_of_r2 (rd_ds_len d)).
Proof.
  intro d. unfold rd_ds_len. destruct (rd_var_u32 d) as [v d1| | |] eqn:E; cbn [bind2 im2_of_r2 im2_gbnd]; auto.
  - apply im2_rd_var_u32_inv in E. destruct E as [E _].
    destruct (add32_checked v 1) as [diff|]; [|exact I].
    destruct (add32_checked (d_ds d1) diff); cbn; [unfold im2_sz2; cbn; exact E|exact I].
  - pose proof (im2_gbnd_v2_u32 d) as H. rewrite E in H. exact H.
  - pose proof (im2_gbnd_v2_u32 d) as H. rewrite E in H. exact H.
Qed.

Lemma im2_gbnd_v2_string : forall d, im2_gbnd im2_sz2 (S (im2_sz2 d)) (im2_of_r2 (rd_string d)).
Proof.
  intro d. unfold rd_string, on_col. pose proof (str_read_total (fst (d_string d)) (snd (d_string d))) as H.
  destruct (str_read (fst (d_string d)) (snd (d_string d))); cbn in *; auto; unfold im2_sz2; cbn; lia.
Qed.

Lemma im2_gbnd_v2_any : forall d, im2_gbnd im2_sz2 (im2_sz2 d) (im2_of_r2 (rd_any d)).
Proof. intro d. apply im2_gbnd_on_rest. unfold decode_any_here. apply bnd_decode_any. lia. Qed.

Lemma im2_dec_v2_total_state : forall d,
  im2_gbnd im2_sz2 (im2_sz2 d) (im2_gen_decode im2_reader_v2 (S (length (d_rest d))) d).
Proof.
  intro d. apply im2_gen_decode_total; cbn [im2_reader_v2 im2_rd_var_u32 im2_rd_var_u64 im2_rd_var_usize im2_rd_reset_ds
    im2_rd_ds_clock im2_rd_ds_len im2_rd_string im2_rd_any].
  - apply im2_gbnd_v2_u32.
  - intro d0. apply im2_gbnd_on_rest. apply bnd_read_var_u64.
  - intro d0. apply im2_gbnd_on_rest. apply bnd_read_var_u64.
  - intro d0. reflexivity.
  - apply im2_gbnd_v2_clock.
  - apply im2_gbnd_v2_len.
  - apply im2_gbnd_v2_string.
  - intros _ d0 _. apply im2_gbnd_v2_any.
  - unfold im2_sz2. lia.
Qed.

Lemma im2_new_decoder_total : forall bs, ok2 (new_decoder bs).
Proof.
  intro bs. unfold new_decoder.
  match goal with |- ok2 (match ?r with _ => _ end) => assert (Hn : no_panic_fuel r); [|destruct r; cbn in *; auto; contradiction] end.
  repeat (apply npf_bind; [apply read_buf_v2_total|intros]).
  match goal with |- no_panic_fuel (match str_new ?x with _ => _ end) => pose proof (str_new_total x) as Hs; destruct (str_new x); cbn in *; auto end.
Qed.

(* 3. IdMap::<String>::decode_v2 is total: for ALL byte strings the model returns Ok or Err.  None of the modelled
   panics can happen (index into visited_attributions / visited_attr_names: idm_nth with an Err on None as in the Rust
   `.get(..).ok_or(..)`; u32 overflow of clock + len and of the ds_curr_val sums: checked_add; string column
   exhausted: Err EndOfBuffer from the length decoder; an index panic inside IdRanges::insert_with:
   idm_normalize_some), and the fuel S (length of the rest cursor) is enough. *)
Theorem im2_decode_total : forall bs, exists r, im2_decode bs = r /\
  match r with Ok _ _ | Err _ => True | Panic _ | Fuel => False end.
Proof.
  intro bs. eexists. split; [reflexivity|]. unfold im2_decode, w2_run.
  pose proof (im2_new_decoder_total bs) as Hn. destruct (new_decoder bs) as [[] d| | |]; cbn [bind2 ok2] in *; auto.
  unfold im2_dec_v2. pose proof (im2_dec_v2_total_state d) as H.
  destruct (im2_gen_decode im2_reader_v2 (S (length (d_rest d))) d); cbn in *; auto.
Qed.

(* the same with the v1 instance: IdMapProofs.idm_decode_total again, through the generic proof *)
Theorem im2_decode_v1_total : forall fuel bs, (length bs < fuel)%nat ->
  match im2_decode_v1 fuel bs with Ok _ rest => (length rest < length bs)%nat | Err _ => True | Panic _ | Fuel => False end.
Proof.
  intros fuel bs Hl. unfold im2_decode_v1.
  assert (H : im2_gbnd (@length N) (length bs) (im2_gen_decode im2_reader_v1 fuel bs)).
  { assert (Hb : forall A (r : res A) n, bnd n r -> im2_gbnd (@length N) n (im2_of_res r)) by (intros A r n Hr; destruct r; exact Hr).
    apply im2_gen_decode_total; cbn [im2_reader_v1 im2_rd_var_u32 im2_rd_var_u64 im2_rd_var_usize im2_rd_reset_ds
      im2_rd_ds_clock im2_rd_ds_len im2_rd_string im2_rd_any]; try exact Hl; try reflexivity; intros; apply Hb.
    - apply bnd_read_var_u32.
    - apply bnd_read_var_u64.
    - apply bnd_read_var_u64.
    - apply bnd_read_var_u32.
    - apply bnd_read_var_u32.
    - eapply bnd_le; [|apply bnd_read_string]. lia.
    - apply bnd_decode_any. assumption. }
  destruct (im2_gen_decode im2_reader_v1 fuel bs); cbn in *; auto.
Qed.

(* ================================================================================================ *)
(* C. round trip through EncoderV2 / DecoderV2                                                       *)
(* ================================================================================================ *)

(* the decoder state d is in step with the calls the encoder still has to make: the column traces of those calls,
   written with ds_curr_val = the decoder's ds_curr_val, are what the decoder's columns and rest cursor hold *)
Definition im2_holds (d : dec2) (l : list im2_call) (tl : list N) : Prop :=
  exists w, im2_wr2 (d_ds d) l = Some w /\ sync d w 0 tl.

Lemma im2_sync_set_ds : forall d w s tl x, sync d w s tl -> sync (set_ds d x) w s tl.
Proof. intros d w s tl x H. unfold sync in *. cbn [set_ds]. prj. exact H. Qed.

Lemma im2_sync_rest : forall A (f : list N -> res A) a d b k seq tl, sync d (wB b +++ k) seq tl ->
  (forall R, f (b ++ R) = Ok a R) ->
  on_rest f d = R2Ok a (set_rest d (w_rest k ++ tl)) /\ sync (set_rest d (w_rest k ++ tl)) k seq tl.
Proof.
  intros A f a d b k seq tl Hs Hf. sync_open Hs. split; [|sync_close; reflexivity].
  unfold on_rest. rewrite H10, <- app_assoc, Hf. reflexivity.
Qed.

Lemma im2_opt_app_some : forall w o w', im2_opt_app w o = Some w' -> exists k, o = Some k /\ w' = w +++ k.
Proof. intros w [k|] w' H; cbn in H; [inversion H; eauto|discriminate]. Qed.

Lemma im2_holds_rest : forall A (f : list N -> res A) a b d c k tl,
  im2_holds d (c :: k) tl ->
  (forall cur, im2_wr2 cur (c :: k) = im2_opt_app (wB b) (im2_wr2 cur k)) ->
  (forall R, f (b ++ R) = Ok a R) ->
  exists d', on_rest f d = R2Ok a d' /\ im2_holds d' k tl.
Proof.
  intros A f a b d c k tl (w & Hw & Hs) Hc Hf. rewrite Hc in Hw. apply im2_opt_app_some in Hw.
  destruct Hw as (wk & Hk & ->). destruct (im2_sync_rest _ f a d b wk 0 tl Hs Hf) as [E Hs'].
  eexists. split; [exact E|]. exists wk. split; [exact Hk|exact Hs'].
Qed.

Lemma im2_holds_var32 : forall d v k tl, im2_holds d (IcVar32 v :: k) tl -> v < two32 ->
  exists d', rd_var_u32 d = R2Ok v d' /\ im2_holds d' k tl.
Proof.
  intros d v k tl H Hv. eapply (im2_holds_rest _ read_var_u32); [exact H|reflexivity|].
  intro R. apply var_u32_roundtrip. exact Hv.
Qed.

Lemma im2_holds_var32_usize : forall d v k tl, im2_holds d (IcVar32 v :: k) tl -> v < two32 ->
  exists d', on_rest read_var_usize d = R2Ok v d' /\ im2_holds d' k tl.
Proof.
  intros d v k tl H Hv. eapply (im2_holds_rest _ read_var_usize); [exact H|reflexivity|].
  intro R. apply var_u64_of_u32_roundtrip. exact Hv.
Qed.

Lemma im2_holds_var64 : forall d v k tl, im2_holds d (IcVar64 v :: k) tl -> v < two64 ->
  exists d', on_rest read_var_u64 d = R2Ok v d' /\ im2_holds d' k tl.
Proof.
  intros d v k tl H Hv. eapply (im2_holds_rest _ read_var_u64); [exact H|reflexivity|].
  intro R. apply var_u64_roundtrip. exact Hv.
Qed.

Lemma im2_holds_any : forall d s k tl, im2_holds d (IcAny (AString s) :: k) tl -> wf_str s = true ->
  exists d', rd_any d = R2Ok (AString s) d' /\ im2_holds d' k tl.
Proof.
  intros d s k tl H Hs. unfold rd_any. eapply (im2_holds_rest _ decode_any_here); [exact H|reflexivity|].
  intro R. unfold idm_enc_value. destruct (encode_any (AString s)) as [body|] eqn:E; [|discriminate E].
  apply any_here_roundtrip; [|exact E]. unfold wf_any_top. cbn. rewrite Hs. reflexivity.
Qed.

Lemma im2_holds_reset : forall d k tl, im2_holds d (IcReset :: k) tl -> im2_holds (reset_ds d) k tl.
Proof.
  intros d k tl (w & Hw & Hs). cbn [im2_wr2] in Hw. exists w. split; [exact Hw|].
  unfold reset_ds. apply im2_sync_set_ds. exact Hs.
Qed.

Lemma im2_holds_string : forall d s k tl, im2_holds d (IcString s :: k) tl ->
  exists d', rd_string d = R2Ok s d' /\ im2_holds d' k tl.
Proof.
  intros d s k tl (w & Hw & Hs). cbn [im2_wr2] in Hw. apply im2_opt_app_some in Hw. destruct Hw as (wk & Hk & ->).
  sync_open Hs. cbn [yields] in H6. destruct H6 as (st' & bs' & Hr & Hy).
  exists (set_string d (st', bs')). split; [unfold rd_string, on_col; rewrite Hr; reflexivity|].
  exists wk. split; [exact Hk|sync_close].
Qed.

(* write_ds_clock(c); write_ds_len(l) against read_ds_clock; read_ds_len *)
Lemma im2_holds_range : forall d c l k tl, im2_holds d (IcClock c :: IcLen l :: k) tl ->
  exists d1 d2, rd_ds_clock d = R2Ok c d1 /\ rd_ds_len d1 = R2Ok l d2 /\ im2_holds d2 k tl /\ 0 < l /\ c + l < two32.
Proof.
  intros d c l k tl (w & Hw & Hs). cbn [im2_wr2] in Hw.
  destruct (N.ltb_spec c (d_ds d)) as [|Hc]; [discriminate|].
  apply im2_opt_app_some in Hw. destruct Hw as (w1 & Hw1 & ->).
  destruct (N.eqb_spec l 0) as [|Hl0]; [discriminate|]. destruct (N.leb_spec two32 (c + l)) as [|Hcl]; [discriminate|].
  cbn [orb] in Hw1. apply im2_opt_app_some in Hw1. destruct Hw1 as (wk & Hk & ->).
  pose proof Hs as Hs0. sync_open Hs0.
  set (d1 := set_ds (set_rest d (write_var_u32 (l - 1) ++ w_rest wk ++ tl)) c).
  assert (E1 : rd_ds_clock d = R2Ok c d1).
  { apply rd_ds_clock_at; [rewrite H10, <- !app_assoc; reflexivity|lia|lia]. }
  set (d2 := set_ds (set_rest d1 (w_rest wk ++ tl)) (d_ds d1 + l)).
  assert (E2 : rd_ds_len d1 = R2Ok l d2).
  { apply rd_ds_len_at; [reflexivity|lia|subst d1; cbn; lia]. }
  exists d1, d2. split; [exact E1|]. split; [exact E2|]. split; [|lia].
  exists wk. split.
  - subst d2 d1. cbn [set_ds set_rest d_ds]. exact Hk.
  - subst d2 d1. unfold sync. cbn [set_ds set_rest]. prj. repeat split; assumption.
Qed.

(* cost of a call sequence: the number of write_var(u32) calls -- every loop iteration of the decoder reads one *)
Definition im2_cost (l : list im2_call) : nat :=
  length (filter (fun c => match c with IcVar32 _ => true | _ => false end) l).

Lemma im2_cost_app : forall a b, im2_cost (a ++ b) = (im2_cost a + im2_cost b)%nat.
Proof. intros a b. unfold im2_cost. rewrite filter_app, app_length. reflexivity. Qed.

Lemma im2_cost_rest : forall l cur w, im2_wr2 cur l = Some w -> (im2_cost l <= length (w_rest w))%nat.
Proof.
  induction l as [|c l IH]; intros cur w H; [cbn; lia|]. cbn [im2_wr2] in H.
  destruct c as [v|v| |k|n|s|a].
  - apply im2_opt_app_some in H. destruct H as (k & Hk & ->). apply IH in Hk. unfold im2_cost in *.
    cbn [filter length wr_app wB w_rest]. rewrite app_length. pose proof (write_var_u32_length v). lia.
  - apply im2_opt_app_some in H. destruct H as (k & Hk & ->). apply IH in Hk. unfold im2_cost in *.
    cbn [filter length wr_app wB w_rest]. rewrite app_length. lia.
  - apply IH in H. exact H.
  - destruct (k <? cur); [discriminate|]. apply im2_opt_app_some in H. destruct H as (k' & Hk & ->). apply IH in Hk.
    unfold im2_cost in *. cbn [filter length wr_app wB w_rest]. rewrite app_length. lia.
  - destruct ((n =? 0) || (two32 <=? cur + n)); [discriminate|]. apply im2_opt_app_some in H. destruct H as (k' & Hk & ->).
    apply IH in Hk. unfold im2_cost in *. cbn [filter length wr_app wB w_rest]. rewrite app_length. lia.
  - apply im2_opt_app_some in H. destruct H as (k' & Hk & ->). apply IH in Hk. unfold im2_cost in *.
    cbn [filter length wr_app wS w_rest app]. lia.
  - apply im2_opt_app_some in H. destruct H as (k' & Hk & ->). apply IH in Hk. unfold im2_cost in *.
    cbn [filter length wr_app wB w_rest]. rewrite app_length. lia.
Qed.

Section Im2RoundTrip.
Variable tbl : idm_table.
Hypothesis Htl : N.of_nat (length tbl) < two32.
Hypothesis Htw : forallb idm_attr_wf tbl = true.

Ltac rdv2 := cbn [im2_reader_v2 im2_rd_var_u32 im2_rd_var_u64 im2_rd_var_usize im2_rd_reset_ds im2_rd_ds_clock
                  im2_rd_ds_len im2_rd_string im2_rd_any].

Lemma im2_attr_rt : forall a vis names st' o,
  a < N.of_nat (length tbl) -> idm_vis_ok tbl vis -> (length names <= length vis)%nat ->
  im2_calls_attr tbl (vis, names) a = (st', o) ->
  exists names', st' = (fst (idm_rn_attr vis a), names') /\ idm_vis_ok tbl (fst (idm_rn_attr vis a)) /\
    (length names' <= length (fst (idm_rn_attr vis a)))%nat /\ (1 <= im2_cost o)%nat /\
    forall f d k tl, im2_holds d (o ++ k) tl ->
      exists d', im2_dec_attr im2_reader_v2 f (idm_sel tbl vis, names) d
                 = Im2Ok ((idm_sel tbl (fst (idm_rn_attr vis a)), names'), snd (idm_rn_attr vis a)) d' /\
                 im2_holds d' k tl.
Proof.
  intros a vis names st' o Ha Hvis Hnm Henc. pose proof (idm_vis_len tbl Htl vis Hvis) as Hvl.
  unfold im2_calls_attr in Henc. unfold idm_rn_attr.
  destruct (idm_find (N.eqb a) vis 0) as [i|] eqn:Ef.
  - (* already written *)
    apply idm_find_spec in Ef. destruct Ef as (_ & Hi & _). replace (i - 0) with i in Hi by lia.
    inversion Henc; subst st' o. exists names. cbn [fst snd].
    split; [reflexivity|]. split; [exact Hvis|]. split; [exact Hnm|]. split; [cbn; lia|].
    intros f d k tl Hh. cbn [app] in Hh. rewrite idm_u32_small in Hh by lia.
    destruct (im2_holds_var32_usize _ _ _ _ Hh ltac:(lia)) as (d1 & E1 & Hh1).
    exists d1. split; [|exact Hh1]. unfold im2_dec_attr. rdv2. rewrite E1. cbn [im2_of_r2 im2_bind].
    rewrite idm_sel_length. replace (N.of_nat (length vis) <=? i) with false by lia. cbn [im2_bind fst].
    destruct (idm_nth_lt _ (idm_sel tbl vis) i) as [x ->]; [rewrite idm_sel_length; lia|]. reflexivity.
  - (* first use *)
    apply idm_find_none in Ef. cbn [fst snd].
    assert (Hvis' : idm_vis_ok tbl (vis ++ [a])).
    { destruct Hvis as [Hnd Hin]. split.
      - apply (NoDup_Add (a := a) (l := vis)); [rewrite <- (app_nil_r vis) at 1; apply Add_app|].
        split; [exact Hnd|]. intro Hina. rewrite Forall_forall in Ef. specialize (Ef a Hina). rewrite N.eqb_refl in Ef. discriminate.
      - apply Forall_app. split; [exact Hin|]. constructor; [exact Ha|constructor]. }
    pose proof (idm_vis_len tbl Htl _ Hvis') as Hvl'. rewrite app_length in Hvl'. cbn [length] in Hvl'.
    destruct (idm_nth_lt _ tbl a Ha) as [[name value] Hnth]. rewrite Hnth in Henc.
    pose proof Hnth as Hnth'. apply idm_nth_inv in Hnth'. destruct Hnth' as [_ En].
    pose proof (idm_forallb_nth _ _ _ _ _ Htw En) as Hd. unfold idm_attr_wf in Hd. cbn [fst snd] in Hd.
    apply andb_prop in Hd. destruct Hd as [Hname Hval]. destruct value as [| | | | | | |s| | |]; try discriminate Hval.
    assert (Hfn : idm_sel tbl vis ++ [(name, AString s)] = idm_sel tbl (vis ++ [a])).
    { unfold idm_sel. rewrite map_app. cbn [map]. rewrite Hnth. reflexivity. }
    assert (Hlast : forall names' : list (list N), idm_nth (fst (idm_sel tbl (vis ++ [a]), names')) (N.of_nat (length vis)) <> None).
    { intros names'. cbn [fst]. destruct (idm_nth_lt _ (idm_sel tbl (vis ++ [a])) (N.of_nat (length vis))) as [x ->]; [|discriminate].
      rewrite idm_sel_length, app_length. cbn [length]. lia. }
    destruct (idm_find (idm_bytes_eqb name) names 0) as [i|] eqn:Efn.
    + apply idm_find_spec in Efn. destruct Efn as (_ & Hi & x & Hx & Heq). replace (i - 0) with i in * by lia.
      apply idm_bytes_eqb_eq in Heq. subst x.
      inversion Henc; subst st' o. exists names.
      split; [reflexivity|]. split; [exact Hvis'|]. split; [rewrite app_length; cbn [length]; lia|].
      split; [cbn; lia|].
      intros f d k tl Hh. cbn [app] in Hh. rewrite !idm_u32_small in Hh by lia.
      destruct (im2_holds_var32_usize _ _ _ _ Hh ltac:(lia)) as (d1 & E1 & Hh1).
      destruct (im2_holds_var32_usize _ _ _ _ Hh1 ltac:(lia)) as (d2 & E2 & Hh2).
      destruct (im2_holds_any _ _ _ _ Hh2 Hval) as (d3 & E3 & Hh3).
      exists d3. split; [|exact Hh3]. unfold im2_dec_attr. rdv2. rewrite E1. cbn [im2_of_r2 im2_bind].
      rewrite idm_sel_length. replace (N.of_nat (length vis) <=? N.of_nat (length vis)) with true by lia.
      rewrite E2. cbn [im2_of_r2 im2_bind].
      replace (N.of_nat (length names) <=? i) with false by lia. cbn [im2_bind].
      rewrite E3. cbn [im2_of_r2 im2_bind im2_from_any].
      rewrite (idm_nth_some _ names i name Hx). rewrite Hfn. cbn [im2_bind].
      match goal with |- match ?X with _ => _ end = _ => destruct X eqn:EX end; [reflexivity|exfalso; exact (Hlast _ EX)].
    + inversion Henc; subst st' o. exists (names ++ [name]).
      split; [reflexivity|]. split; [exact Hvis'|]. split; [rewrite !app_length; cbn [length]; lia|].
      split; [cbn; lia|].
      intros f d k tl Hh. cbn [app] in Hh. rewrite !idm_u32_small in Hh by lia.
      destruct (im2_holds_var32_usize _ _ _ _ Hh ltac:(lia)) as (d1 & E1 & Hh1).
      destruct (im2_holds_var32_usize _ _ _ _ Hh1 ltac:(lia)) as (d2 & E2 & Hh2).
      destruct (im2_holds_string _ _ _ _ Hh2) as (d3 & E3 & Hh3).
      destruct (im2_holds_any _ _ _ _ Hh3 Hval) as (d4 & E4 & Hh4).
      exists d4. split; [|exact Hh4]. unfold im2_dec_attr. rdv2. rewrite E1. cbn [im2_of_r2 im2_bind].
      rewrite idm_sel_length. replace (N.of_nat (length vis) <=? N.of_nat (length vis)) with true by lia.
      rewrite E2. cbn [im2_of_r2 im2_bind].
      replace (N.of_nat (length names) <=? N.of_nat (length names)) with true by lia.
      rewrite E3. cbn [im2_of_r2 im2_bind]. rewrite E4. cbn [im2_of_r2 im2_bind im2_from_any].
      rewrite (idm_nth_some _ (names ++ [name]) (N.of_nat (length names)) name).
      2:{ rewrite Nat2N.id. rewrite nth_error_app2 by lia. rewrite Nat.sub_diag. reflexivity. }
      rewrite Hfn. cbn [im2_bind].
      match goal with |- match ?X with _ => _ end = _ => destruct X eqn:EX end; [reflexivity|exfalso; exact (Hlast _ EX)].
Qed.

Lemma im2_attrs_rt : forall l vis names st' o,
  Forall (fun a => a < N.of_nat (length tbl)) l -> idm_vis_ok tbl vis -> (length names <= length vis)%nat ->
  im2_calls_attrs tbl (vis, names) l = (st', o) ->
  exists names', st' = (fst (idm_rn_attrs vis l), names') /\ idm_vis_ok tbl (fst (idm_rn_attrs vis l)) /\
    (length names' <= length (fst (idm_rn_attrs vis l)))%nat /\ (length l <= im2_cost o)%nat /\
    forall f d k tl acc, (im2_cost o <= f)%nat -> im2_holds d (o ++ k) tl ->
      exists d', im2_dec_attrs im2_reader_v2 f (N.of_nat (length l)) (idm_sel tbl vis, names) d acc
        = Im2Ok ((idm_sel tbl (fst (idm_rn_attrs vis l)), names'), rev acc ++ snd (idm_rn_attrs vis l)) d' /\
        im2_holds d' k tl.
Proof.
  induction l as [|a l IH]; intros vis names st' o Hl Hvis Hnm Henc.
  - cbn [idm_rn_attrs im2_calls_attrs fst snd] in *. inversion Henc; subst st' o.
    exists names. split; [reflexivity|]. split; [exact Hvis|]. split; [exact Hnm|]. split; [cbn; lia|].
    intros f d k tl acc _ Hh. exists d. split; [|exact Hh]. rewrite im2_dec_attrs_eq. cbn [length app].
    change (N.of_nat 0 =? 0) with true. cbv iota. rewrite app_nil_r. reflexivity.
  - apply Forall_cons_iff in Hl. destruct Hl as [Ha Hl]. cbn [im2_calls_attrs idm_rn_attrs] in *.
    destruct (im2_calls_attr tbl (vis, names) a) as [st1 o1] eqn:Ea.
    destruct (im2_calls_attrs tbl st1 l) as [st2 o2] eqn:El. inversion Henc; subst st' o.
    destruct (im2_attr_rt a vis names st1 o1 Ha Hvis Hnm Ea) as (names1 & -> & Hvis1 & Hnm1 & Ho1 & Hd1).
    destruct (idm_rn_attr vis a) as [vis1 a'] eqn:E1. cbn [fst snd] in *.
    destruct (IH vis1 names1 st2 o2 Hl Hvis1 Hnm1 El) as (names2 & -> & Hvis2 & Hnm2 & Ho2 & Hd2).
    destruct (idm_rn_attrs vis1 l) as [vis2 r'] eqn:E2. cbn [fst snd] in *.
    exists names2. split; [reflexivity|]. split; [exact Hvis2|]. split; [exact Hnm2|].
    split; [rewrite im2_cost_app; cbn [length]; lia|].
    intros f d k tl acc Hf Hh. rewrite im2_cost_app in Hf. rewrite im2_dec_attrs_eq. cbn [length].
    rewrite of_nat_S_eqb0, of_nat_S_pred. destruct f as [|f]; [lia|].
    rewrite <- app_assoc in Hh. destruct (Hd1 (S f) d (o2 ++ k) tl Hh) as (d1 & Ed1 & Hh1).
    rewrite Ed1. cbn [im2_bind fst snd].
    destruct (Hd2 f d1 k tl (a' :: acc) ltac:(lia) Hh1) as (d2 & Ed2 & Hh2).
    exists d2. split; [|exact Hh2]. eapply eq_trans; [exact Ed2|]. cbn [rev]. rewrite <- app_assoc. reflexivity.
Qed.

Lemma im2_range_rt : forall x vis names st' o,
  idm_entry_wf tbl x = true -> idm_vis_ok tbl vis -> (length names <= length vis)%nat ->
  im2_calls_range tbl (vis, names) x = (st', o) ->
  exists names', st' = (fst (idm_rn_attrs vis (e_val x)), names') /\ idm_vis_ok tbl (fst (idm_rn_attrs vis (e_val x))) /\
    (length names' <= length (fst (idm_rn_attrs vis (e_val x))))%nat /\ (1 <= im2_cost o)%nat /\
    forall f d k tl, (im2_cost o <= S f)%nat -> im2_holds d (o ++ k) tl ->
      exists d', im2_dec_range im2_reader_v2 f (idm_sel tbl vis, names) d
        = Im2Ok ((idm_sel tbl (fst (idm_rn_attrs vis (e_val x))), names'),
                 (e_start x, e_end x, snd (idm_rn_attrs vis (e_val x)))) d' /\
        im2_holds d' k tl.
Proof.
  intros [[s e] v] vis names st' o Hwf Hvis Hnm Henc. unfold idm_entry_wf, e_start, e_end, e_val in *.
  cbn [fst snd] in *. unfold im2_calls_range, e_start, e_end, e_val in Henc. cbn [fst snd] in Henc.
  apply andb_prop in Hwf. destruct Hwf as [Hwf Hidx].
  assert (Hidx' : Forall (fun a => a < N.of_nat (length tbl)) v).
  { apply Forall_forall. rewrite forallb_forall in Hidx. intros a Hin. specialize (Hidx a Hin). lia. }
  destruct (im2_calls_attrs tbl (vis, names) v) as [st1 o1] eqn:Ea. inversion Henc; subst st' o.
  destruct (im2_attrs_rt v vis names st1 o1 Hidx' Hvis Hnm Ea) as (names1 & -> & Hvis1 & Hnm1 & Ho1 & Hd1).
  exists names1. split; [reflexivity|]. split; [exact Hvis1|]. split; [exact Hnm1|].
  change (im2_cost (IcClock s :: IcLen (e - s) :: IcVar32 (idm_u32 (N.of_nat (length v))) :: o1)) with (S (im2_cost o1)).
  split; [lia|].
  intros f d k tl Hf Hh. cbn [app] in Hh. rewrite idm_u32_small in Hh by lia.
  destruct (im2_holds_range _ _ _ _ _ Hh) as (d1 & d2 & Ed1 & Ed2 & Hh2 & Hl & Hsum).
  destruct (im2_holds_var32 _ _ _ _ Hh2 ltac:(lia)) as (d3 & Ed3 & Hh3).
  destruct (Hd1 f d3 k tl [] ltac:(lia) Hh3) as (d4 & Ed4 & Hh4).
  exists d4. split; [|exact Hh4]. unfold im2_dec_range. rdv2.
  rewrite Ed1. cbn [im2_of_r2 im2_bind]. rewrite Ed2. cbn [im2_of_r2 im2_bind]. rewrite Ed3. cbn [im2_of_r2 im2_bind].
  rewrite Ed4. cbn [im2_bind fst snd rev app]. unfold add32_checked.
  replace (s + (e - s)) with e by lia. replace (e <? two32) with true by lia. reflexivity.
Qed.

Lemma im2_ranges_rt : forall l vis names st' o,
  forallb (idm_entry_wf tbl) l = true -> idm_vis_ok tbl vis -> (length names <= length vis)%nat ->
  im2_calls_ranges tbl (vis, names) l = (st', o) ->
  exists names', st' = (fst (idm_rn_ranges vis l), names') /\ idm_vis_ok tbl (fst (idm_rn_ranges vis l)) /\
    (length names' <= length (fst (idm_rn_ranges vis l)))%nat /\ (length l <= im2_cost o)%nat /\
    forall f d k tl acc, (im2_cost o <= f)%nat -> im2_holds d (o ++ k) tl ->
      exists d', im2_dec_ranges im2_reader_v2 f (N.of_nat (length l)) (idm_sel tbl vis, names) d acc
        = Im2Ok ((idm_sel tbl (fst (idm_rn_ranges vis l)), names'), rev acc ++ snd (idm_rn_ranges vis l)) d' /\
        im2_holds d' k tl.
Proof.
  induction l as [|x l IH]; intros vis names st' o Hwf Hvis Hnm Henc.
  - cbn [idm_rn_ranges im2_calls_ranges fst snd] in *. inversion Henc; subst st' o.
    exists names. split; [reflexivity|]. split; [exact Hvis|]. split; [exact Hnm|]. split; [cbn; lia|].
    intros f d k tl acc _ Hh. exists d. split; [|exact Hh]. rewrite im2_dec_ranges_eq. cbn [length app].
    change (N.of_nat 0 =? 0) with true. cbv iota. rewrite app_nil_r. reflexivity.
  - cbn [forallb] in Hwf. apply andb_prop in Hwf. destruct Hwf as [Hx Hl]. cbn [im2_calls_ranges idm_rn_ranges] in *.
    destruct (im2_calls_range tbl (vis, names) x) as [st1 o1] eqn:Ea.
    destruct (im2_calls_ranges tbl st1 l) as [st2 o2] eqn:El. inversion Henc; subst st' o.
    destruct (im2_range_rt x vis names st1 o1 Hx Hvis Hnm Ea) as (names1 & -> & Hvis1 & Hnm1 & Ho1 & Hd1).
    destruct (idm_rn_attrs vis (e_val x)) as [vis1 v'] eqn:E1. cbn [fst snd] in *.
    destruct (IH vis1 names1 st2 o2 Hl Hvis1 Hnm1 El) as (names2 & -> & Hvis2 & Hnm2 & Ho2 & Hd2).
    destruct (idm_rn_ranges vis1 l) as [vis2 r'] eqn:E2. cbn [fst snd] in *.
    exists names2. split; [reflexivity|]. split; [exact Hvis2|]. split; [exact Hnm2|].
    split; [rewrite im2_cost_app; cbn [length]; lia|].
    intros f d k tl acc Hf Hh. rewrite im2_cost_app in Hf. rewrite im2_dec_ranges_eq. cbn [length].
    rewrite of_nat_S_eqb0, of_nat_S_pred. destruct f as [|f]; [lia|].
    rewrite <- app_assoc in Hh. destruct (Hd1 f d (o2 ++ k) tl ltac:(lia) Hh) as (d1 & Ed1 & Hh1).
    rewrite Ed1. cbn [im2_bind fst snd].
    destruct (Hd2 f d1 k tl ((e_start x, e_end x, v') :: acc) ltac:(lia) Hh1) as (d2 & Ed2 & Hh2).
    exists d2. split; [|exact Hh2]. eapply eq_trans; [exact Ed2|]. cbn [rev]. rewrite <- app_assoc. reflexivity.
Qed.

Lemma im2_clients_rt : forall l vis names last st' o,
  forallb (idm_client_wf tbl) l = true ->
  asc_above last (map fst l) = true \/ (last = 0 /\ ascb (map fst l) = true) ->
  idm_vis_ok tbl vis -> (length names <= length vis)%nat ->
  im2_calls_clients tbl (vis, names) last l = (st', o) ->
  exists names', st' = (fst (idm_rn_clients vis l), names') /\
    forall f d k tl (acc : idm_clients), (im2_cost o <= f)%nat ->
      (forall c' x, In c' (map fst acc) -> In x (map fst l) -> c' < x) ->
      im2_holds d (o ++ k) tl ->
      exists d', im2_dec_clients im2_reader_v2 f (N.of_nat (length l)) (idm_sel tbl vis, names) last d acc
        = Im2Ok ((idm_sel tbl (fst (idm_rn_clients vis l)), names'), acc ++ snd (idm_rn_clients vis l)) d' /\
        im2_holds d' k tl.
Proof.
  induction l as [|[c rs] l IH]; intros vis names last st' o Hwf Hasc Hvis Hnm Henc.
  - cbn [idm_rn_clients im2_calls_clients fst snd] in *. inversion Henc; subst st' o.
    exists names. split; [reflexivity|].
    intros f d k tl acc _ _ Hh. exists d. split; [|exact Hh]. rewrite im2_dec_clients_eq. cbn [length app].
    change (N.of_nat 0 =? 0) with true. cbv iota. rewrite app_nil_r. reflexivity.
  - cbn [forallb] in Hwf. apply andb_prop in Hwf. destruct Hwf as [Hx Hl].
    unfold idm_client_wf in Hx. cbn [fst snd] in Hx. apply andb_prop in Hx. destruct Hx as [Hx Hchain].
    apply andb_prop in Hx. destruct Hx as [Hc Hrs]. unfold idm_ranges_ewf in Hrs.
    apply andb_prop in Hrs. destruct Hrs as [Hrs Hsorted]. apply andb_prop in Hrs. destruct Hrs as [Hrs Hent].
    apply andb_prop in Hrs. destruct Hrs as [Hlen Hne].
    cbn [im2_calls_clients idm_rn_clients] in *.
    destruct (im2_calls_ranges tbl (vis, names) rs) as [st1 o1] eqn:Ea.
    destruct (im2_calls_clients tbl st1 c l) as [st2 o2] eqn:El. inversion Henc; subst st' o.
    destruct (im2_ranges_rt rs vis names st1 o1 Hent Hvis Hnm Ea) as (names1 & -> & Hvis1 & Hnm1 & Ho1 & Hd1).
    assert (Hidx : Forall (idm_idx_ok tbl) rs).
    { apply Forall_forall. rewrite forallb_forall in Hent. intros x Hin. specialize (Hent x Hin).
      unfold idm_entry_wf in Hent. apply andb_prop in Hent. destruct Hent as [_ Hi].
      apply Forall_forall. rewrite forallb_forall in Hi. intros a Ha. specialize (Hi a Ha). lia. }
    destruct (idm_rn_ranges vis rs) as [vis1 rs'] eqn:E1. cbn [fst snd] in *.
    pose proof (idm_rn_ranges_rel tbl rs vis vis1 rs' Hidx E1) as [_ Hrel].
    assert (Hlc : last <= c /\ asc_above c (map fst l) = true).
    { cbn [map fst] in Hasc. destruct Hasc as [Hasc|[-> Hasc]].
      - cbn [asc_above] in Hasc. apply andb_prop in Hasc. split; [lia|tauto].
      - cbn [ascb] in Hasc. split; [lia|exact Hasc]. }
    destruct Hlc as [Hlast Hasc'].
    destruct (IH vis1 names1 c st2 o2 Hl (or_introl Hasc') Hvis1 Hnm1 El) as (names2 & -> & Hd2).
    destruct (idm_rn_clients vis1 l) as [vis2 r'] eqn:E2. cbn [fst snd] in *.
    exists names2. split; [reflexivity|].
    intros f d k tl acc Hf Hacc Hh.
    change (im2_cost (IcReset :: IcVar64 (c - last) :: IcVar32 (idm_u32 (N.of_nat (length rs))) :: o1 ++ o2))
      with (S (im2_cost (o1 ++ o2))) in Hf. rewrite im2_cost_app in Hf.
    rewrite im2_dec_clients_eq. cbn [length].
    rewrite of_nat_S_eqb0, of_nat_S_pred. destruct f as [|f]; [lia|].
    cbn [app] in Hh. rewrite <- app_assoc in Hh. rewrite idm_u32_small in Hh by lia.
    apply im2_holds_reset in Hh.
    destruct (im2_holds_var64 _ _ _ _ Hh ltac:(unfold two53, two64 in *; lia)) as (d1 & Ed1 & Hh1).
    destruct (im2_holds_var32 _ _ _ _ Hh1 ltac:(lia)) as (d2 & Ed2 & Hh2).
    destruct (Hd1 f d2 (o2 ++ k) tl [] ltac:(lia) Hh2) as (d3 & Ed3 & Hh3).
    rdv2. rewrite Ed1. cbn [im2_of_r2 im2_bind].
    unfold idm_add64_checked. replace (last + (c - last)) with c by lia.
    replace (c <? two64) with true by (unfold two53, two64 in *; lia).
    rewrite Ed2. cbn [im2_of_r2 im2_bind]. rewrite Ed3. cbn [im2_bind fst snd rev app].
    unfold im2_client_new. rewrite Hc. cbn [im2_bind].
    unfold idm_normalize. rewrite (idm_normalize_chain (idm_sel tbl vis1) rs' []).
    2:{ exact I. }
    2:{ cbn [rev hd_error]. rewrite (idm_chain_rel tbl vis1 rs rs' Hrel None None I). exact Hchain. }
    cbn [app]. destruct rs as [|x0 rs0]; [discriminate Hne|]. inversion Hrel as [|? x0' ? rs0' ? ? Heq1 Heq2]; subst.
    cbv iota. rewrite idm_im_set_append.
    2:{ intros c' Hin. apply Hacc; [exact Hin|]. left. reflexivity. }
    destruct (Hd2 f d3 k tl (acc ++ [(c, x0' :: rs0')])) as (d4 & Ed4 & Hh4).
    + lia.
    + intros c' x Hin Hx. rewrite map_app in Hin. apply in_app_or in Hin. destruct Hin as [Hin|Hin].
      * apply Hacc; [exact Hin|]. right. exact Hx.
      * cbn [map fst In] in Hin. destruct Hin as [<-|[]]. eapply asc_above_lt; eassumption.
    + exact Hh3.
    + exists d4. split; [|exact Hh4]. eapply eq_trans; [exact Ed4|]. rewrite <- app_assoc. reflexivity.
Qed.
End Im2RoundTrip.

(* ---- the encoder does not panic on a value that satisfies idm_enc_wf, and only the string column and the rest
        buffer are written ---- *)
Fixpoint im2_strings (l : list im2_call) : list (list N) :=
  match l with
  | [] => []
  | IcString s :: r => s :: im2_strings r
  | _ :: r => im2_strings r
  end.

(* ds_curr_val after the calls *)
Fixpoint im2_cur (cur : N) (l : list im2_call) : N :=
  match l with
  | [] => cur
  | IcReset :: r => im2_cur 0 r
  | IcClock k :: r => im2_cur k r
  | IcLen n :: r => im2_cur (cur + n) r
  | _ :: r => im2_cur cur r
  end.

Lemma im2_opt_app_assoc : forall a b o, im2_opt_app a (im2_opt_app b o) = im2_opt_app (a +++ b) o.
Proof. intros a b [k|]; cbn; [rewrite wr_app_assoc|]; reflexivity. Qed.

Lemma im2_wr2_app : forall a b cur,
  im2_wr2 cur (a ++ b) = match im2_wr2 cur a with Some x => im2_opt_app x (im2_wr2 (im2_cur cur a) b) | None => None end.
Proof.
  induction a as [|c a IH]; intros b cur; cbn [app im2_wr2 im2_cur].
  - destruct (im2_wr2 cur b); cbn; [rewrite wr0_l|]; reflexivity.
  - destruct c as [v|v| |k|n|s|x]; try (rewrite IH; destruct (im2_wr2 cur a); cbn [im2_opt_app]; [apply im2_opt_app_assoc|reflexivity]).
    + apply IH.
    + destruct (k <? cur); [reflexivity|]. rewrite IH. destruct (im2_wr2 k a); cbn [im2_opt_app]; [apply im2_opt_app_assoc|reflexivity].
    + destruct ((n =? 0) || (two32 <=? cur + n)); [reflexivity|]. rewrite IH.
      destruct (im2_wr2 (cur + n) a); cbn [im2_opt_app]; [apply im2_opt_app_assoc|reflexivity].
Qed.

Definition im2_plain (l : list im2_call) : bool :=
  forallb (fun c => match c with IcVar32 _ | IcVar64 _ | IcString _ | IcAny _ => true | _ => false end) l.

Lemma im2_plain_ok : forall l cur, im2_plain l = true -> im2_wr2 cur l <> None /\ im2_cur cur l = cur.
Proof.
  induction l as [|c l IH]; intros cur H; [split; [discriminate|reflexivity]|].
  cbn [im2_plain forallb] in H. apply andb_prop in H. destruct H as [Hc Hl]. destruct (IH cur Hl) as [H1 H2].
  destruct c; try discriminate Hc; cbn [im2_wr2 im2_cur]; (split; [|exact H2]);
    destruct (im2_wr2 cur l); [discriminate|contradiction|discriminate|contradiction|discriminate|contradiction|discriminate|contradiction].
Qed.

Lemma im2_calls_attr_plain : forall tbl st a, im2_plain (snd (im2_calls_attr tbl st a)) = true.
Proof.
  intros tbl [vis names] a. unfold im2_calls_attr. destruct (idm_find (N.eqb a) vis 0); [reflexivity|].
  destruct (match idm_nth tbl a with Some d => d | None => ([], AUndefined) end) as [name value].
  destruct (idm_find (idm_bytes_eqb name) names 0); reflexivity.
Qed.

Lemma im2_calls_attrs_plain : forall tbl l st, im2_plain (snd (im2_calls_attrs tbl st l)) = true.
Proof.
  intros tbl. induction l as [|a l IH]; intro st; cbn [im2_calls_attrs]; [reflexivity|].
  pose proof (im2_calls_attr_plain tbl st a) as H1. destruct (im2_calls_attr tbl st a) as [st1 o1].
  pose proof (IH st1) as H2. destruct (im2_calls_attrs tbl st1 l) as [st2 o2]. cbn [snd] in *.
  unfold im2_plain in *. rewrite forallb_app, H1, H2. reflexivity.
Qed.

Lemma im2_calls_ranges_ok : forall tbl l st cur,
  forallb (fun x => e_end x <? two32) l = true -> idm_sorted cur l = true ->
  im2_wr2 cur (snd (im2_calls_ranges tbl st l)) <> None.
Proof.
  intros tbl. induction l as [|x l IH]; intros st cur Hb Hs; cbn [im2_calls_ranges]; [cbn; discriminate|].
  cbn [forallb idm_sorted] in *. apply andb_prop in Hb. destruct Hb as [Hx Hb].
  apply andb_prop in Hs. destruct Hs as [Hs Hs']. apply andb_prop in Hs. destruct Hs as [Hlo Hne].
  unfold im2_calls_range. pose proof (im2_calls_attrs_plain tbl (e_val x) st) as Hp.
  destruct (im2_calls_attrs tbl st (e_val x)) as [st1 o1]. cbn [snd] in Hp.
  specialize (IH st1 (e_end x) Hb Hs'). destruct (im2_calls_ranges tbl st1 l) as [st2 o2]. cbn [snd] in *.
  cbn [app im2_wr2]. replace (e_start x <? cur) with false by lia.
  replace ((e_end x - e_start x =? 0) || (two32 <=? e_start x + (e_end x - e_start x))) with false by lia.
  rewrite im2_wr2_app. destruct (im2_plain_ok o1 (e_start x + (e_end x - e_start x)) Hp) as [H1 H2].
  rewrite H2. replace (e_start x + (e_end x - e_start x)) with (e_end x) in * by lia.
  destruct (im2_wr2 (e_end x) o1); [|contradiction]. destruct (im2_wr2 (e_end x) o2); [|contradiction]. cbn. discriminate.
Qed.

Lemma im2_calls_clients_ok : forall tbl l st last cur,
  forallb (fun cr => forallb (fun x => e_end x <? two32) (snd cr) && idm_sorted 0 (snd cr)) l = true ->
  im2_wr2 cur (snd (im2_calls_clients tbl st last l)) <> None.
Proof.
  intros tbl. induction l as [|[c rs] l IH]; intros st last cur H; cbn [im2_calls_clients]; [cbn; discriminate|].
  cbn [forallb snd] in H. apply andb_prop in H. destruct H as [Hx Hl]. apply andb_prop in Hx. destruct Hx as [Hb Hs].
  pose proof (im2_calls_ranges_ok tbl rs st 0 Hb Hs) as H1. destruct (im2_calls_ranges tbl st rs) as [st1 o1].
  pose proof (fun cur => IH st1 c cur Hl) as H2. destruct (im2_calls_clients tbl st1 c l) as [st2 o2]. cbn [snd] in *.
  cbn [im2_wr2]. rewrite im2_wr2_app. destruct (im2_wr2 0 o1); [|contradiction].
  specialize (H2 (im2_cur 0 o1)). destruct (im2_wr2 (im2_cur 0 o1) o2); [|contradiction]. cbn. discriminate.
Qed.

Lemma im2_calls_ok : forall v, idm_enc_wf v = true -> im2_wr2 0 (im2_calls v) <> None.
Proof.
  intros [tbl cs] Hwf. unfold idm_enc_wf in Hwf. cbn [fst snd] in Hwf.
  apply andb_prop in Hwf. destruct Hwf as [Hwf _]. apply andb_prop in Hwf. destruct Hwf as [_ Hcs].
  unfold im2_calls. cbn [fst snd im2_wr2].
  assert (H : im2_wr2 0 (snd (im2_calls_clients tbl ([], []) 0 cs)) <> None).
  { apply im2_calls_clients_ok. apply forallb_forall. rewrite forallb_forall in Hcs. intros cr Hin. specialize (Hcs cr Hin).
    apply andb_prop in Hcs. destruct Hcs as [_ Hr]. unfold idm_ranges_ewf in Hr.
    apply andb_prop in Hr. destruct Hr as [Hr Hso]. apply andb_prop in Hr. destruct Hr as [_ Hent].
    apply andb_true_intro. split; [|exact Hso]. apply forallb_forall. rewrite forallb_forall in Hent. intros x Hx. specialize (Hent x Hx).
    unfold idm_entry_wf in Hent. lia. }
  destruct (im2_wr2 0 (snd (im2_calls_clients tbl ([], []) 0 cs))); [cbn; discriminate|contradiction].
Qed.

Lemma im2_wr2_cols : forall l cur w, im2_wr2 cur l = Some w ->
  w_keyclock w = [] /\ w_client w = [] /\ w_left w = [] /\ w_right w = [] /\ w_info w = [] /\
  w_string w = im2_strings l /\ w_pinfo w = [] /\ w_tyref w = [] /\ w_len w = [].
Proof.
  induction l as [|c l IH]; intros cur w H; cbn [im2_wr2 im2_strings] in *.
  - inversion H; subst w. cbn. repeat split; reflexivity.
  - destruct c as [v|v| |k|n|s|x].
    + apply im2_opt_app_some in H. destruct H as (k & Hk & ->). apply IH in Hk. cbn. exact Hk.
    + apply im2_opt_app_some in H. destruct H as (k & Hk & ->). apply IH in Hk. cbn. exact Hk.
    + apply IH in H. exact H.
    + destruct (k <? cur); [discriminate|]. apply im2_opt_app_some in H. destruct H as (k' & Hk & ->). apply IH in Hk. cbn. exact Hk.
    + destruct ((n =? 0) || (two32 <=? cur + n)); [discriminate|]. apply im2_opt_app_some in H. destruct H as (k' & Hk & ->).
      apply IH in Hk. cbn. exact Hk.
    + apply im2_opt_app_some in H. destruct H as (k' & Hk & ->). apply IH in Hk.
      destruct Hk as (H1 & H2 & H3 & H4 & H5 & H6 & H7 & H8 & H9). cbn. rewrite H6. repeat split; assumption.
    + apply im2_opt_app_some in H. destruct H as (k' & Hk & ->). apply IH in Hk. cbn. exact Hk.
Qed.

(* what v2 needs on top of the v1 well-formedness: the names written to the string column (one per distinct name,
   in order of first use) are well-formed UTF-8, fewer than 2^32, fewer than 2^62 bytes together (V2Proofs.str_col_ok:
   the conditions under which StringEncoder / StringDecoder round-trip) *)
Definition im2_names (v : idm_value) : list (list N) := im2_strings (im2_calls v).
Definition im2_v2_ok (v : idm_value) : bool := str_col_ok (im2_names v).

(* 2. round trip.  m' is the normal form idm_canon m (attributions renumbered in order of first use, unused table
   entries dropped), exactly as for v1 (IdMapProofs.idm_roundtrip_gen): equality with m itself holds when m is already
   numbered in order of first use (im2_roundtrip_exact).  The length hypothesis says that the output fits the address
   space (column lengths are read back as usize). *)
Theorem im2_roundtrip : forall m, idm_swf m = true -> im2_v2_ok m = true ->
  exists bs, im2_encode m = Some bs /\
    (N.of_nat (length bs) < two64 ->
     exists m', im2_decode bs = Ok m' [] /\ m' = idm_canon m /\ idm_resolve m' = idm_resolve m).
Proof.
  intros [tbl cs] Hswf Hv2. pose proof Hswf as Hswf0. unfold idm_swf in Hswf. cbn [fst snd] in Hswf.
  apply andb_prop in Hswf. destruct Hswf as [Hwf Hch]. pose proof (im2_calls_ok _ Hwf) as Hsome.
  destruct (im2_wr2 0 (im2_calls (tbl, cs))) as [w|] eqn:Ew; [|contradiction].
  pose proof (im2_wr2_cols _ _ _ Ew) as (C1 & C2 & C3 & C4 & C5 & C6 & C7 & C8 & C9).
  assert (Hcols : wf_cols w = true).
  { unfold wf_cols. rewrite C1, C2, C3, C4, C5, C6, C7, C8, C9. unfold im2_v2_ok, im2_names in Hv2. rewrite Hv2. reflexivity. }
  destruct (cols_rt w Hcols) as (bs & Hbs & Hdec). exists bs.
  split; [unfold im2_encode, w2_finish; rewrite Ew; exact Hbs|].
  intro Hlen. destruct (Hdec Hlen) as (d & Hnew & Hs).
  exists (idm_canon (tbl, cs)). split; [|split; [reflexivity|apply idm_canon_resolve; exact Hwf]].
  unfold im2_decode, w2_run. rewrite Hnew. cbn [bind2]. unfold im2_dec_v2, im2_gen_decode.
  unfold idm_enc_wf in Hwf. cbn [fst snd] in Hwf.
  apply andb_prop in Hwf. destruct Hwf as [Hwf Hasc]. apply andb_prop in Hwf. destruct Hwf as [Hwf Hcs].
  apply andb_prop in Hwf. destruct Hwf as [Hwf Hcl]. apply andb_prop in Hwf. destruct Hwf as [Htl Htw].
  assert (Hds : d_ds d = 0).
  { unfold new_decoder in Hnew.
    destruct (match d_rest d with _ => 0 end); clear -Hnew.
    all: repeat match type of Hnew with context [bind ?r _] => destruct r; cbn [bind] in Hnew; try discriminate end.
    all: match type of Hnew with context [str_new ?x] => destruct (str_new x); try discriminate end.
    all: inversion Hnew; reflexivity. }
  assert (Hh : im2_holds d (im2_calls (tbl, cs)) []) by (exists w; rewrite Hds; split; assumption).
  pose proof (im2_cost_rest _ _ _ Ew) as Hcost.
  assert (Hrest : d_rest d = w_rest w) by (destruct Hs as (_ & _ & _ & _ & _ & _ & _ & _ & _ & Hr & _); rewrite app_nil_r in Hr; exact Hr).
  unfold im2_calls in Hh, Hcost. cbn [fst snd] in Hh, Hcost. rewrite idm_u32_small in Hh, Hcost by lia.
  destruct (im2_calls_clients tbl ([], []) 0 cs) as [st' o] eqn:Eenc. cbn [snd] in Hh, Hcost.
  destruct (im2_holds_var32 _ _ _ _ Hh ltac:(lia)) as (d1 & E1 & Hh1).
  cbn [im2_reader_v2 im2_rd_var_u32]. rewrite E1. cbn [im2_of_r2 im2_bind].
  destruct (im2_clients_rt tbl ltac:(lia) Htw cs [] [] 0 st' o) as (names' & -> & Hd).
  - rewrite forallb_forall in *. intros cr Hin. unfold idm_client_wf. rewrite (Hcs cr Hin), (Hch cr Hin). reflexivity.
  - right. split; [reflexivity|exact Hasc].
  - split; constructor.
  - cbn. lia.
  - exact Eenc.
  - change (idm_sel tbl []) with (@nil idm_attr) in Hd.
    rewrite <- (app_nil_r o) in Hh1.
    destruct (Hd (S (length (d_rest d))) d1 [] [] []) as (d2 & E2 & Hh2).
    + change (im2_cost (IcVar32 (N.of_nat (length cs)) :: o)) with (S (im2_cost o)) in Hcost. rewrite Hrest. lia.
    + intros c' x [].
    + exact Hh1.
    + match goal with |- context [im2_dec_clients ?a ?b ?c ?e ?g ?h ?i] =>
        replace (im2_dec_clients a b c e g h i) with (Im2Ok (D := dec2) (idm_sel tbl (fst (idm_rn_clients [] cs)), names', [] ++ snd (idm_rn_clients [] cs)) d2)
          by (symmetry; exact E2) end.
      cbn [im2_bind fst snd app im2_to_r2]. unfold idm_canon. cbn [fst snd].
      destruct (idm_rn_clients [] cs) as [vis cs']. cbn [fst snd].
      destruct Hh2 as (w2 & Hw2 & Hs2). cbn [im2_wr2] in Hw2. inversion Hw2; subst w2.
      destruct Hs2 as (_ & _ & _ & _ & _ & _ & _ & _ & _ & Hr & _). cbn in Hr. rewrite Hr. reflexivity.
Qed.

(* a value numbered in order of first use is its own normal form (from the two v1 round trips) *)
Lemma im2_canon_wf : forall m, idm_wf m = true -> idm_canon m = m.
Proof.
  intros m Hwf. assert (Hs : idm_swf m = true).
  { unfold idm_wf in Hwf. unfold idm_swf. apply andb_prop in Hwf. destruct Hwf as [H _]. exact H. }
  pose proof (idm_roundtrip m (length (idm_encode_v1 m)) [] Hwf (le_n _)) as H1.
  pose proof (idm_roundtrip_gen m (length (idm_encode_v1 m)) [] Hs (le_n _)) as H2.
  rewrite H1 in H2. congruence.
Qed.

(* 2'. equality outright for values in the decoder's normal form (coalesced ranges, attributions numbered in order of
   first use, no unused table entry): idm_wf of IdMapProofs.v *)
Theorem im2_roundtrip_exact : forall m, idm_wf m = true -> im2_v2_ok m = true ->
  exists bs, im2_encode m = Some bs /\ (N.of_nat (length bs) < two64 -> im2_decode bs = Ok m []).
Proof.
  intros m Hwf Hv2. assert (Hs : idm_swf m = true).
  { unfold idm_wf in Hwf. unfold idm_swf. apply andb_prop in Hwf. destruct Hwf as [H _]. exact H. }
  destruct (im2_roundtrip m Hs Hv2) as (bs & He & Hd). exists bs. split; [exact He|].
  intro Hl. destruct (Hd Hl) as (m' & E & -> & _). rewrite (im2_canon_wf m Hwf) in E. exact E.
Qed.

(* 4. the v1 bytes and the v2 bytes of one map decode to the same value (the same table numbering even), hence to
   the same index-free view *)
Theorem im2_v1_v2_same_information : forall m bs2 fuel,
  idm_swf m = true -> im2_v2_ok m = true ->
  im2_encode m = Some bs2 -> N.of_nat (length bs2) < two64 -> (length (idm_encode_v1 m) <= fuel)%nat ->
  exists m1 m2, idm_decode_v1 fuel (idm_encode_v1 m) = Ok m1 [] /\ im2_decode bs2 = Ok m2 [] /\
                m1 = m2 /\ idm_resolve m1 = idm_resolve m /\ idm_resolve m2 = idm_resolve m.
Proof.
  intros m bs2 fuel Hs Hv2 He Hl Hf. destruct (im2_roundtrip m Hs Hv2) as (bs & He' & Hd).
  rewrite He in He'. inversion He'; subst bs. destruct (Hd Hl) as (m2 & E2 & -> & Hr).
  exists (idm_canon m), (idm_canon m). split.
  - rewrite <- (app_nil_r (idm_encode_v1 m)) at 1. apply idm_roundtrip_gen; assumption.
  - split; [exact E2|]. split; [reflexivity|]. split; exact Hr.
Qed.

(* 3'. SIZE OF THE DECODED VALUE.  Not proved here (im2_decoded_size is missing).  Unlike a v2 update (V2Proofs.v2_expansion:
   21 bytes decode to 1000 blocks) no run-length column feeds a loop of IdMap::decode: every iteration of each of the
   three loops reads at least one var-int from the rest cursor (im2_gbnd_dec_attr / _range / _clients above: the rest
   cursor strictly shrinks per iteration), a new table entry costs at least four rest bytes, and the bytes of the names
   come out of the string buffer.  So no expansion witness exists and no `_refuted` theorem is stated; the bound
   "table entries + ranges + attribute references <= length of the input" is the statement left to prove
   (for v1 it is IdMapProofs.idm_decoded_inv_holds). *)

Print Assumptions im2_decode_v1_eq.
Print Assumptions im2_encode_v1_eq.
Print Assumptions im2_gen_decode_total.
Print Assumptions im2_decode_total.
Print Assumptions im2_decode_v1_total.
Print Assumptions im2_roundtrip.
Print Assumptions im2_roundtrip_exact.
Print Assumptions im2_v1_v2_same_information.
