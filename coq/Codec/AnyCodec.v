(* lib0 `Any` values: yrs/src/any.rs (encode / decode).
   Numbers are modelled by their wire form: the f64 -> wire form classification of Any::encode and the
   i64 -> f64 conversion of Any::decode are not modelled (covered by the correspondence only). *)
From Coq Require Import List NArith ZArith Bool.
From YV Require Import Gen.Consts Lib.Bytes Codec.Varint.
Import ListNotations.
Open Scope N_scope.

Inductive any :=
| AUndefined | ANull
| ABool (b : bool)
| AInt (z : Z)            (* tag 125: var int *)
| AF32 (bits : N)         (* tag 124: 4 bytes big endian *)
| AF64 (bits : N)         (* tag 123: 8 bytes big endian *)
| ABigInt (bits : N)      (* tag 122: 8 bytes big endian, i64 bit pattern *)
| AString (s : list N)
| ABuffer (b : list N)
| AArray (l : list any)
| AMap (l : list (list N * any)).

(* encode: None = the encoder panics (AInt out of the i64 range) *)
Fixpoint encode_any (a : any) : option (list N) :=
  match a with
  | AUndefined => Some [ANY_ENC_UNDEFINED]
  | ANull => Some [ANY_ENC_NULL]
  | ABool b => Some [if b then ANY_ENC_TRUE else ANY_ENC_FALSE]
  | AInt z => match write_var_i64 z with Some bs => Some (ANY_ENC_INT :: bs) | None => None end
  | AF32 bits => Some (ANY_ENC_F32 :: be_bytes 4 bits)
  | AF64 bits => Some (ANY_ENC_F64 :: be_bytes 8 bits)
  | ABigInt bits => Some (ANY_ENC_BIGINT :: be_bytes 8 bits)
  | AString s => Some (ANY_ENC_STRING :: write_string s)
  | ABuffer b => Some (ANY_ENC_BUFFER :: write_buf b)
  | AArray l =>
      match (fix go (l : list any) : option (list N) :=
               match l with
               | [] => Some []
               | x :: r => match encode_any x, go r with Some a, Some b => Some (a ++ b) | _, _ => None end
               end) l with
      | Some body => Some (ANY_ENC_ARRAY :: write_var_usize (N.of_nat (length l)) ++ body)
      | None => None
      end
  | AMap l =>
      match (fix go (l : list (list N * any)) : option (list N) :=
               match l with
               | [] => Some []
               | (k, x) :: r => match encode_any x, go r with Some a, Some b => Some (write_string k ++ a ++ b) | _, _ => None end
               end) l with
      | Some body => Some (ANY_ENC_MAP :: write_var_usize (N.of_nat (length l)) ++ body)
      | None => None
      end
  end.

(* Any::MAX_DECODE_DEPTH *)
Definition ANY_MAX_DEPTH : N := C_ANY_MAX_DECODE_DEPTH.

(* decode: fuel bounds the nesting depth + element count; [length bs + 1] always suffices.
   [depth] is the current nesting level: deeper than ANY_MAX_DEPTH is rejected. *)
Fixpoint decode_any_at (fuel : nat) (depth : N) (bs : list N) : res any :=
  match fuel with
  | O => Fuel
  | S f =>
    if ANY_MAX_DEPTH <? depth then Err UnexpectedValue else
    let* (tag, rest) := read_u8 bs in
    if tag =? ANY_DEC_UNDEFINED then Ok AUndefined rest
    else if tag =? ANY_DEC_NULL then Ok ANull rest
    else if tag =? ANY_DEC_INT then rmap AInt (read_var_i64 rest)
    else if tag =? ANY_DEC_F32 then rmap (fun b => AF32 (be_value b 0)) (read_exact 4 rest)
    else if tag =? ANY_DEC_F64 then rmap (fun b => AF64 (be_value b 0)) (read_exact 8 rest)
    else if tag =? ANY_DEC_BIGINT then rmap (fun b => ABigInt (be_value b 0)) (read_exact 8 rest)
    else if tag =? ANY_DEC_FALSE then Ok (ABool false) rest
    else if tag =? ANY_DEC_TRUE then Ok (ABool true) rest
    else if tag =? ANY_DEC_STRING then rmap AString (read_string rest)
    else if tag =? ANY_DEC_MAP then
      let* (len, rest1) := read_var_usize rest in
      (fix entries (k : nat) (n : N) (bs : list N) (acc : list (list N * any)) {struct k} : res any :=
         if n =? 0 then Ok (AMap (rev acc)) bs else
         match k with
         | O => Fuel
         | S k' =>
           let* (key, r1) := read_string bs in
           let* (v, r2) := decode_any_at f (depth + 1) r1 in
           entries k' (n - 1) r2 ((key, v) :: acc)
         end) f len rest1 []
    else if tag =? ANY_DEC_ARRAY then
      let* (len, rest1) := read_var_usize rest in
      (fix elems (k : nat) (n : N) (bs : list N) (acc : list any) {struct k} : res any :=
         if n =? 0 then Ok (AArray (rev acc)) bs else
         match k with
         | O => Fuel
         | S k' =>
           let* (v, r2) := decode_any_at f (depth + 1) bs in
           elems k' (n - 1) r2 (v :: acc)
         end) f len rest1 []
    else if tag =? ANY_DEC_BUFFER then rmap ABuffer (read_buf rest)
    else Err UnexpectedValue
  end.
Definition decode_any (fuel : nat) (bs : list N) : res any := decode_any_at fuel 0 bs.
