(* v1 wire format of updates: update.rs (Update::decode / decode_block), block.rs (ItemContent::decode / encode,
   Item::encode), types/mod.rs (TypeRef), doc.rs (Options). *)
From Coq Require Import List NArith ZArith Bool.
From YV Require Import Gen.Consts Lib.Bytes Codec.Varint Codec.AnyCodec Codec.IdSetCodec Ids.Ranges.
Import ListNotations.
Open Scope N_scope.

Record id := mkid { cl : N; ck : N }.
Definition id_eqb (a b : id) : bool := (cl a =? cl b) && (ck a =? ck b).
Definition oid_eqb (a b : option id) : bool :=
  match a, b with None, None => true | Some x, Some y => id_eqb x y | _, _ => false end.

Inductive scope := SRoot (name : list N) | SNested (i : id) | SRelative (i : id).
Record weaklink := { wl_start : scope; wl_start_after : bool; wl_end : scope; wl_end_after : bool }.

Inductive tyref :=
| TArray | TMap | TText | TXmlElement (name : list N) | TXmlFragment | TXmlHook | TXmlText | TSubDoc
| TWeak (w : weaklink) | TUndefined.

Inductive parent := PNamed (name : list N) | PId (i : id) | PUnknown.

Inductive bcontent :=
| BDeleted (len : N)
| BJson (l : list (list N))
| BBinary (b : list N)
| BString (s : list N)                   (* UTF-8 bytes *)
| BEmbed (json : list N)                 (* JSON text, not parsed by the model *)
| BFormat (key : list N) (json : list N)
| BType (t : tyref)
| BAny (l : list any)
| BDoc (guid : list N) (opts : any).

Inductive block :=
| BItem (i : id) (origin rorigin : option id) (p : parent) (psub : option (list N)) (c : bcontent)
| BGC (i : id) (len : N)
| BSkip (i : id) (len : N).

Record update := { u_blocks : list (N * list block); u_ds : idset }.

(* ---- UTF-8 -> UTF-16 length (what SplittableString::len(Utf16) computes on valid UTF-8) ---- *)
Definition utf16_len_byte (b : N) : N :=
  if b <? 128 then 1            (* ASCII *)
  else if b <? 192 then 0       (* continuation byte *)
  else if b <? 240 then 1       (* 2- and 3-byte lead *)
  else 2.                       (* 4-byte lead: surrogate pair *)
Definition utf16_len (s : list N) : N := fold_left (fun acc b => acc + utf16_len_byte b) s 0.
(* SplittableString::len: a one-byte string has length 1 whatever the byte is *)
Definition str_len16 (s : list N) : N := match s with [_] => 1 | _ => utf16_len s end.

Definition content_len (c : bcontent) : N :=
  match c with
  | BDeleted n => n
  | BString s => str_len16 s
  | BAny l => N.of_nat (length l)
  | BJson l => N.of_nat (length l)
  | _ => 1
  end.
Definition block_len (b : block) : N :=
  match b with BItem _ _ _ _ _ c => content_len c | BGC _ n | BSkip _ n => n end.
Definition block_id (b : block) : id :=
  match b with BItem i _ _ _ _ _ | BGC i _ | BSkip i _ => i end.

(* ---- decoding ---- *)
Definition read_id_v1 (bs : list N) : res id :=
  let* (c, r1) := read_var_u64 bs in
  let* (k, r2) := read_var_u32 r1 in
  let* (c', r3) := client_id_new c r2 in
  Ok (mkid c' k) r3.

Definition flag (info bit : N) : bool := negb (N.land info bit =? 0).

Definition decode_scope (unbounded root : bool) (bs : list N) : res scope :=
  if unbounded then
    if root then rmap SRoot (read_string bs) else rmap SNested (read_id_v1 bs)
  else rmap SRelative (read_id_v1 bs).

Definition decode_weak_link (bs : list N) : res weaklink :=
  let* (flags, r0) := read_u8 bs in
  let single := negb (flag flags C_WEAK_REF_FLAGS_QUOTE) in
  let root := flag flags C_WEAK_REF_FLAGS_PARENT_ROOT in
  let* (s, r1) := decode_scope (flag flags C_WEAK_REF_FLAGS_START_UNBOUNDED) root r0 in
  let* (e, r2) := (if flag flags C_WEAK_REF_FLAGS_END_UNBOUNDED then decode_scope true root r1
                   else if single then Ok s r1 else decode_scope false root r1) in
  Ok {| wl_start := s; wl_start_after := flag flags C_WEAK_REF_FLAGS_START_ASSOC;
        wl_end := e; wl_end_after := flag flags C_WEAK_REF_FLAGS_END_ASSOC |} r2.

Definition decode_tyref (bs : list N) : res tyref :=
  let* (t, rest) := read_u8 bs in
  if t =? C_TYPE_REFS_ARRAY then Ok TArray rest
  else if t =? C_TYPE_REFS_MAP then Ok TMap rest
  else if t =? C_TYPE_REFS_TEXT then Ok TText rest
  else if t =? C_TYPE_REFS_XML_ELEMENT then rmap TXmlElement (read_string rest)
  else if t =? C_TYPE_REFS_XML_FRAGMENT then Ok TXmlFragment rest
  else if t =? C_TYPE_REFS_XML_HOOK then Ok TXmlHook rest
  else if t =? C_TYPE_REFS_XML_TEXT then Ok TXmlText rest
  else if t =? C_TYPE_REFS_DOC then Ok TSubDoc rest
  else if t =? C_TYPE_REFS_WEAK then rmap TWeak (decode_weak_link rest)
  else if t =? C_TYPE_REFS_UNDEFINED then Ok TUndefined rest
  else Err UnexpectedValue.

Fixpoint read_strings (fuel : nat) (n : N) (bs : list N) (acc : list (list N)) : res (list (list N)) :=
  if n =? 0 then Ok (rev acc) bs else
  match fuel with
  | O => Fuel
  | S f => let* (s, rest) := read_string bs in read_strings f (n - 1) rest (s :: acc)
  end.
Fixpoint read_anys (fuel : nat) (n : N) (bs : list N) (acc : list any) : res (list any) :=
  if n =? 0 then Ok (rev acc) bs else
  match fuel with
  | O => Fuel
  | S f => let* (a, rest) := decode_any fuel bs in read_anys f (n - 1) rest (a :: acc)
  end.

Definition decode_content (fuel : nat) (info : N) (bs : list N) : res bcontent :=
  let r := N.land info 15 in
  if r =? C_BLOCK_ITEM_DELETED_REF_NUMBER then rmap BDeleted (read_var_u32 bs)
  else if r =? C_BLOCK_ITEM_JSON_REF_NUMBER then
    (* `decoder.read_len()? as i32`: a length >= 2^31 is negative and the loop `while remaining > 0` does not run *)
    let* (n, rest) := read_var_u32 bs in rmap BJson (read_strings fuel (if n <? 2147483648 then n else 0) rest [])
  else if r =? C_BLOCK_ITEM_BINARY_REF_NUMBER then rmap BBinary (read_buf bs)
  else if r =? C_BLOCK_ITEM_STRING_REF_NUMBER then rmap BString (read_string bs)
  else if r =? C_BLOCK_ITEM_EMBED_REF_NUMBER then rmap BEmbed (read_string bs)
  else if r =? C_BLOCK_ITEM_FORMAT_REF_NUMBER then
    let* (k, r1) := read_string bs in let* (v, r2) := read_string r1 in Ok (BFormat k v) r2
  else if r =? C_BLOCK_ITEM_TYPE_REF_NUMBER then rmap BType (decode_tyref bs)
  else if r =? C_BLOCK_ITEM_ANY_REF_NUMBER then
    let* (n, rest) := read_var_u32 bs in rmap BAny (read_anys fuel n rest [])
  else if r =? C_BLOCK_ITEM_DOC_REF_NUMBER then
    let* (g, r1) := read_string bs in let* (o, r2) := decode_any fuel r1 in Ok (BDoc g o) r2
  else Err UnexpectedValue.

(* Update::decode_block; None = Item::new returned None (zero length content) *)
Definition decode_block (fuel : nat) (i : id) (bs : list N) : res (option block) :=
  let* (info, r0) := read_u8 bs in
  if info =? C_BLOCK_SKIP_REF_NUMBER then rmap (fun n => Some (BSkip i n)) (read_var_u32 r0)
  else if info =? C_BLOCK_GC_REF_NUMBER then rmap (fun n => Some (BGC i n)) (read_var_u32 r0)
  else
    let has_o := flag info C_HAS_ORIGIN in
    let has_r := flag info C_HAS_RIGHT_ORIGIN in
    let cant_copy := negb has_o && negb has_r in
    let* (o, r1) := (if has_o then rmap Some (read_id_v1 r0) else Ok None r0) in
    let* (ro, r2) := (if has_r then rmap Some (read_id_v1 r1) else Ok None r1) in
    let* (p, r3) := (if cant_copy then
                       let* (pi, q) := read_var_u32 r2 in
                       if pi =? 1 then rmap PNamed (read_string q) else rmap PId (read_id_v1 q)
                     else Ok PUnknown r2) in
    let* (ps, r4) := (if cant_copy && flag info C_HAS_PARENT_SUB then rmap Some (read_string r3) else Ok None r3) in
    let* (c, r5) := decode_content fuel info r4 in
    if content_len c =? 0 then Ok None r5 else Ok (Some (BItem i o ro p ps c)) r5.

Fixpoint decode_blocks (fuel : nat) (n : N) (client clock : N) (bs : list N) (acc : list block) : res (list block) :=
  if n =? 0 then Ok (rev acc) bs else
  match fuel with
  | O => Fuel
  | S f =>
    let* (ob, rest) := decode_block fuel (mkid client clock) bs in
    match ob with
    | None => decode_blocks f (n - 1) client clock rest acc
    | Some b =>
      match add32_checked clock (block_len b) with
      | Some clock' => decode_blocks f (n - 1) client clock' rest (b :: acc)
      | None => Err UnexpectedValue
      end
    end
  end.

Fixpoint add_client_blocks (l : list (N * list block)) (c : N) (bs : list block) : list (N * list block) :=
  match l with
  | [] => [(c, bs)]
  | (c', b') :: r => if c' =? c then (c', b' ++ bs) :: r else (c', b') :: add_client_blocks r c bs
  end.

Fixpoint decode_clients (fuel : nat) (n : N) (bs : list N) (acc : list (N * list block)) : res (list (N * list block)) :=
  if n =? 0 then Ok acc bs else
  match fuel with
  | O => Fuel
  | S f =>
    let* (nblocks, r1) := read_var_u32 bs in
    let* (c0, r2) := read_var_u64 r1 in
    let* (client, r2') := client_id_new c0 r2 in
    let* (clock, r3) := read_var_u32 r2' in
    let* (blocks, r4) := decode_blocks f nblocks client clock r3 [] in
    decode_clients f (n - 1) r4 (add_client_blocks acc client blocks)
  end.

Definition decode_update_v1 (fuel : nat) (bs : list N) : res update :=
  let* (n, r1) := read_var_u32 bs in
  let* (cs, r2) := decode_clients fuel n r1 [] in
  let* (ds, r3) := decode_idset_v1 fuel r2 in
  Ok {| u_blocks := cs; u_ds := ds |} r3.

(* ---- encoding (Item::encode / Block::encode, canonical client order is the caller's business) ---- *)
Definition write_id_v1 (i : id) : list N := write_var_u64 (cl i) ++ write_var_u32 (ck i).

Definition scope_unbounded (s : scope) : bool := match s with SRelative _ => false | _ => true end.
Definition scope_root (s : scope) : bool := match s with SRoot _ => true | _ => false end.
Definition encode_scope (s : scope) : list N :=
  match s with SRoot n => write_string n | SNested i | SRelative i => write_id_v1 i end.
Definition scope_eqb (a b : scope) : bool :=
  match a, b with
  | SRelative x, SRelative y => id_eqb x y
  | _, _ => false
  end.
(* LinkSource::is_single: start and end are the same relative id *)
Definition wl_single (w : weaklink) : bool := scope_eqb (wl_start w) (wl_end w).
Definition encode_weak_link (w : weaklink) : list N :=
  let single := wl_single w in
  let info := (if single then 0 else C_WEAK_REF_FLAGS_QUOTE)
            + (if scope_root (wl_start w) || scope_root (wl_end w) then C_WEAK_REF_FLAGS_PARENT_ROOT else 0)
            + (if scope_unbounded (wl_start w) then C_WEAK_REF_FLAGS_START_UNBOUNDED else 0)
            + (if scope_unbounded (wl_end w) then C_WEAK_REF_FLAGS_END_UNBOUNDED else 0)
            + (if wl_start_after w then C_WEAK_REF_FLAGS_START_ASSOC else 0)
            + (if wl_end_after w then C_WEAK_REF_FLAGS_END_ASSOC else 0) in
  [C_TYPE_REFS_WEAK; info] ++ encode_scope (wl_start w) ++
  (match wl_end w with
   | SRelative i => if single then [] else write_id_v1 i
   | s => encode_scope s
   end).

Definition encode_tyref (t : tyref) : list N :=
  match t with
  | TArray => [C_TYPE_REFS_ARRAY] | TMap => [C_TYPE_REFS_MAP] | TText => [C_TYPE_REFS_TEXT]
  | TXmlElement n => C_TYPE_REFS_XML_ELEMENT :: write_string n
  | TXmlFragment => [C_TYPE_REFS_XML_FRAGMENT] | TXmlHook => [C_TYPE_REFS_XML_HOOK]
  | TXmlText => [C_TYPE_REFS_XML_TEXT] | TSubDoc => [C_TYPE_REFS_DOC]
  | TWeak w => encode_weak_link w
  | TUndefined => [C_TYPE_REFS_UNDEFINED]
  end.

Definition content_ref (c : bcontent) : N :=
  match c with
  | BDeleted _ => C_BLOCK_ITEM_DELETED_REF_NUMBER | BJson _ => C_BLOCK_ITEM_JSON_REF_NUMBER
  | BBinary _ => C_BLOCK_ITEM_BINARY_REF_NUMBER | BString _ => C_BLOCK_ITEM_STRING_REF_NUMBER
  | BEmbed _ => C_BLOCK_ITEM_EMBED_REF_NUMBER | BFormat _ _ => C_BLOCK_ITEM_FORMAT_REF_NUMBER
  | BType _ => C_BLOCK_ITEM_TYPE_REF_NUMBER | BAny _ => C_BLOCK_ITEM_ANY_REF_NUMBER
  | BDoc _ _ => C_BLOCK_ITEM_DOC_REF_NUMBER
  end.

Fixpoint encode_anys (l : list any) : option (list N) :=
  match l with
  | [] => Some []
  | a :: r => match encode_any a, encode_anys r with Some x, Some y => Some (x ++ y) | _, _ => None end
  end.

Definition encode_content (c : bcontent) : option (list N) :=
  match c with
  | BDeleted n => Some (write_var_u32 n)
  | BJson l => Some (write_var_u32 (N.of_nat (length l)) ++ flat_map write_string l)
  | BBinary b => Some (write_buf b)
  | BString s => Some (write_string s)
  | BEmbed j => Some (write_string j)
  | BFormat k j => Some (write_string k ++ write_string j)
  | BType t => Some (encode_tyref t)
  | BAny l => match encode_anys l with Some body => Some (write_var_u32 (N.of_nat (length l)) ++ body) | None => None end
  | BDoc g o => match encode_any o with Some body => Some (write_string g ++ body) | None => None end
  end.

(* None = the encoder panics (TypePtr::Unknown without origins, or an unencodable Any) *)
Definition encode_block (b : block) : option (list N) :=
  match b with
  | BSkip _ n => Some (C_BLOCK_SKIP_REF_NUMBER :: write_var_u32 n)
  | BGC _ n => Some (C_BLOCK_GC_REF_NUMBER :: write_var_u32 n)
  | BItem _ o ro p ps c =>
    let info := (match o with Some _ => C_HAS_ORIGIN | None => 0 end)
              + (match ro with Some _ => C_HAS_RIGHT_ORIGIN | None => 0 end)
              + (match ps with Some _ => C_HAS_PARENT_SUB | None => 0 end)
              + N.land (content_ref c) 15 in
    let cant_copy := match o, ro with None, None => true | _, _ => false end in
    let ids := (match o with Some i => write_id_v1 i | None => [] end) ++ (match ro with Some i => write_id_v1 i | None => [] end) in
    let par := if cant_copy then
                 match p with
                 | PNamed n => Some (write_var_u32 1 ++ write_string n ++ match ps with Some s => write_string s | None => [] end)
                 | PId i => Some (write_var_u32 0 ++ write_id_v1 i ++ match ps with Some s => write_string s | None => [] end)
                 | PUnknown => None
                 end
               else Some [] in
    match par, encode_content c with
    | Some pb, Some cb => Some (info :: ids ++ pb ++ cb)
    | _, _ => None
    end
  end.

Fixpoint encode_blocks (l : list block) : option (list N) :=
  match l with
  | [] => Some []
  | b :: r => match encode_block b, encode_blocks r with Some x, Some y => Some (x ++ y) | _, _ => None end
  end.

Fixpoint encode_clients (l : list (N * list block)) : option (list N) :=
  match l with
  | [] => Some []
  | (c, bs) :: r =>
    match bs with
    | [] => encode_clients r
    | b0 :: _ =>
      match encode_blocks bs, encode_clients r with
      | Some x, Some y => Some (write_var_usize (N.of_nat (length bs)) ++ write_var_u64 c ++ write_var_u32 (ck (block_id b0)) ++ x ++ y)
      | _, _ => None
      end
    end
  end.

Definition nonempty_clients (l : list (N * list block)) : list (N * list block) :=
  filter (fun cb => match snd cb with [] => false | _ => true end) l.

(* the caller passes clients in the order they must appear on the wire (Update::encode: descending id) *)
Definition encode_update_v1 (u : update) : option (list N) :=
  let cs := nonempty_clients (u_blocks u) in
  match encode_clients cs with
  | Some body => Some (write_var_usize (N.of_nat (length cs)) ++ body ++ encode_idset_v1 (u_ds u))
  | None => None
  end.
