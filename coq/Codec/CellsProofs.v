(* C19: proofs about the value cells of the C API (Codec/Cells.v).
   - read_back_output: reading the output cell of a stored value gives the value back;
   - into_input: an input cell built by the constructors is stored as the value it was built from
     (maps: inserting strictly ascending keys one after the other reproduces the list);
   - output_of_input: corollary;
   - tags_distinct, cell_tag_determines_kind: the tag alone identifies the kind of a JSON-like cell. *)
From Coq Require Import List NArith ZArith Bool Lia.
Import ListNotations.
From YV Require Import Gen.Consts Codec.Cells.
Open Scope N_scope.

(* ---------- induction principle for the nested inductive ---------- *)
Section JanyInd.
  Variable P : jany -> Prop.
  Hypothesis HNull : P JNull.
  Hypothesis HUndef : P JUndefined.
  Hypothesis HBool : forall b, P (JBool b).
  Hypothesis HNum : forall x, P (JNumber x).
  Hypothesis HInt : forall x, P (JBigInt x).
  Hypothesis HStr : forall s, P (JString s).
  Hypothesis HBuf : forall b, P (JBuffer b).
  Hypothesis HArr : forall l, Forall P l -> P (JArray l).
  Hypothesis HMap : forall l, Forall (fun kv => P (snd kv)) l -> P (JMap l).

  Fixpoint jany_ind' (a : jany) : P a :=
    match a with
    | JNull => HNull
    | JUndefined => HUndef
    | JBool b => HBool b
    | JNumber x => HNum x
    | JBigInt x => HInt x
    | JString s => HStr s
    | JBuffer b => HBuf b
    | JArray l =>
        HArr l ((fix go (l : list jany) : Forall P l :=
                   match l with
                   | [] => Forall_nil P
                   | x :: r => @Forall_cons _ P x r (jany_ind' x) (go r)
                   end) l)
    | JMap l =>
        HMap l ((fix go (l : list (list N * jany)) : Forall (fun kv => P (snd kv)) l :=
                   match l with
                   | [] => Forall_nil _
                   | kv :: r =>
                       @Forall_cons _ (fun kv => P (snd kv)) kv r
                         (match kv as kv0 return P (snd kv0) with (_, v) => jany_ind' v end) (go r)
                   end) l)
    end.
End JanyInd.

Lemma Forall_forallb_mp : forall {A} (f : A -> bool) (Q : A -> Prop) l,
  Forall (fun a => f a = true -> Q a) l -> forallb f l = true -> Forall Q l.
Proof.
  intros A f Q l H; induction H as [|x r Hx Hr IH]; intros Hf; simpl in Hf.
  - constructor.
  - apply andb_true_iff in Hf; destruct Hf as [H1 H2]. constructor; auto.
Qed.

(* ---------- read_back after output_of ---------- *)
(* the two anonymous loops of read_back, named *)
Fixpoint rb_arr (n : nat) (l : list cell) {struct l} : option (list jany) :=
  match n, l with
  | O, _ => Some []
  | S _, [] => Some []
  | S m, x :: r => match read_back x, rb_arr m r with Some a, Some b => Some (a :: b) | _, _ => None end
  end.
Fixpoint rb_map (n : nat) (l : list (list N * cell)) {struct l} : option (list (list N * jany)) :=
  match n, l with
  | O, _ => Some []
  | S _, [] => Some []
  | S m, (k, x) :: r => match read_back x, rb_map m r with Some a, Some b => Some ((k, a) :: b) | _, _ => None end
  end.

Lemma read_back_buf : forall len b,
  read_back (Cell FFI_Y_JSON_BUF len (PBuf b)) = Some (JBuffer (firstn (N.to_nat len) b)).
Proof. reflexivity. Qed.
Lemma read_back_arr : forall len l,
  read_back (Cell FFI_Y_JSON_ARR len (PArr l)) =
  match rb_arr (N.to_nat len) l with Some l' => Some (JArray l') | None => None end.
Proof. reflexivity. Qed.
Lemma read_back_map : forall len l,
  read_back (Cell FFI_Y_JSON_MAP len (PMap l)) =
  match rb_map (N.to_nat len) l with Some m => Some (JMap m) | None => None end.
Proof. reflexivity. Qed.

Lemma rb_arr_ok : forall l, Forall (fun a => read_back (output_of a) = Some a) l ->
  forall n, (length l <= n)%nat -> rb_arr n (map output_of l) = Some l.
Proof.
  induction 1 as [|x r Hx Hr IH]; intros n Hn.
  - destruct n; reflexivity.
  - destruct n as [|n]; [simpl in Hn; lia|].
    cbn [map rb_arr]. rewrite Hx, IH by (simpl in Hn; lia). reflexivity.
Qed.
Lemma rb_map_ok : forall l, Forall (fun kv => read_back (output_of (snd kv)) = Some (snd kv)) l ->
  forall n, (length l <= n)%nat -> rb_map n (map (fun kv => (fst kv, output_of (snd kv))) l) = Some l.
Proof.
  induction 1 as [|[k v] r Hx Hr IH]; intros n Hn.
  - destruct n; reflexivity.
  - destruct n as [|n]; [simpl in Hn; lia|].
    cbn [map rb_map fst snd] in *. rewrite Hx, IH by (simpl in Hn; lia). reflexivity.
Qed.

Theorem read_back_output : forall a, read_back (output_of a) = Some a.
Proof.
  induction a as [| |b|x|x|s|b|l IH|l IH] using jany_ind'; try reflexivity.
  - destruct b; reflexivity.
  - change (output_of (JBuffer b)) with (Cell FFI_Y_JSON_BUF (N.of_nat (length b)) (PBuf b)).
    rewrite read_back_buf, Nnat.Nat2N.id, firstn_all. reflexivity.
  - change (output_of (JArray l)) with (Cell FFI_Y_JSON_ARR (N.of_nat (length l)) (PArr (map output_of l))).
    rewrite read_back_arr, Nnat.Nat2N.id, rb_arr_ok; auto.
  - change (output_of (JMap l))
      with (Cell FFI_Y_JSON_MAP (N.of_nat (length l)) (PMap (map (fun kv => (fst kv, output_of (snd kv))) l))).
    rewrite read_back_map, Nnat.Nat2N.id, rb_map_ok; auto.
Qed.

(* ---------- the order on keys ---------- *)
Lemma bytes_ltb_irrefl : forall a, bytes_ltb a a = false.
Proof. induction a as [|x r IH]; simpl; [reflexivity|]. rewrite N.ltb_irrefl. exact IH. Qed.

Lemma bytes_ltb_trans : forall a b c,
  bytes_ltb a b = true -> bytes_ltb b c = true -> bytes_ltb a c = true.
Proof.
  induction a as [|x r IH]; intros [|y s] [|z t]; simpl; try discriminate; auto.
  destruct (N.ltb_spec x y), (N.ltb_spec y x), (N.ltb_spec y z), (N.ltb_spec z y),
           (N.ltb_spec x z), (N.ltb_spec z x);
    intros; try congruence; try lia; eauto.
Qed.

Lemma bytes_ltb_asym : forall a b, bytes_ltb a b = true -> bytes_ltb b a = false.
Proof.
  intros a b H. destruct (bytes_ltb b a) eqn:E; [|reflexivity].
  pose proof (bytes_ltb_trans _ _ _ H E) as F. rewrite bytes_ltb_irrefl in F. discriminate.
Qed.

Lemma bytes_eqb_refl : forall a, bytes_eqb a a = true.
Proof. intros a. unfold bytes_eqb. rewrite bytes_ltb_irrefl. reflexivity. Qed.

(* strictly ascending, all pairs *)
Fixpoint ssorted {A} (l : list (list N * A)) : Prop :=
  match l with
  | [] => True
  | kv :: r => Forall (fun kv' => bytes_ltb (fst kv) (fst kv') = true) r /\ ssorted r
  end.

Lemma keys_sorted_cons : forall {A} (r : list (list N * A)) k v,
  keys_sorted ((k, v) :: r) = true ->
  keys_sorted r = true /\ Forall (fun kv' => bytes_ltb k (fst kv') = true) r.
Proof.
  induction r as [|[k2 v2] r IH]; intros k v H.
  - split; [reflexivity|constructor].
  - change (bytes_ltb k k2 && keys_sorted ((k2, v2) :: r) = true) in H.
    apply andb_true_iff in H; destruct H as [H1 H2].
    split; [exact H2|].
    destruct (IH _ _ H2) as [_ H3].
    constructor; [exact H1|].
    eapply Forall_impl; [|exact H3]. intros kv' H4. simpl in *.
    eapply bytes_ltb_trans; eauto.
Qed.

Lemma keys_sorted_ssorted : forall {A} (l : list (list N * A)), keys_sorted l = true -> ssorted l.
Proof.
  induction l as [|[k v] r IH]; intros H; [exact I|].
  destruct (keys_sorted_cons _ _ _ H) as [H1 H2]. split; auto.
Qed.

(* inserting a key above all the present ones appends *)
Lemma map_insert_last : forall {A} (acc : list (list N * A)) k v,
  Forall (fun kv' => bytes_ltb (fst kv') k = true) acc -> map_insert k v acc = acc ++ [(k, v)].
Proof.
  induction 1 as [|[k' v'] r Hx Hr IH]; [reflexivity|].
  cbn [fst] in Hx. cbn [map_insert app].
  rewrite (bytes_ltb_asym _ _ Hx). unfold bytes_eqb. rewrite Hx, andb_false_r. rewrite IH. reflexivity.
Qed.

(* inserting over an equal key replaces (not needed below; the HashMap behaviour the model follows) *)
Lemma map_insert_same_head : forall {A} k (v v' : A) r, map_insert k v ((k, v') :: r) = (k, v) :: r.
Proof. intros. cbn [map_insert]. rewrite bytes_ltb_irrefl, bytes_eqb_refl. reflexivity. Qed.

(* ---------- into_any after input_of ---------- *)
Fixpoint ia_arr (n : nat) (l : list cell) {struct l} : option (list jany) :=
  match n, l with
  | O, _ => Some []
  | S _, [] => Some []
  | S m, x :: r => match into_any x, ia_arr m r with Some a, Some b => Some (a :: b) | _, _ => None end
  end.
Fixpoint ia_map (n : nat) (l : list (list N * cell)) (acc : list (list N * jany)) {struct l}
  : option (list (list N * jany)) :=
  match n, l with
  | O, _ => Some acc
  | S _, [] => Some acc
  | S m, (k, x) :: r => match into_any x with Some a => ia_map m r (map_insert k a acc) | None => None end
  end.

Lemma into_any_buf : forall len b,
  into_any (Cell FFI_Y_JSON_BUF len (PBuf b)) = Some (JBuffer (firstn (N.to_nat len) b)).
Proof. reflexivity. Qed.
Lemma into_any_arr : forall len l,
  into_any (Cell FFI_Y_JSON_ARR len (PArr l)) =
  match ia_arr (N.to_nat len) l with Some l' => Some (JArray l') | None => None end.
Proof. reflexivity. Qed.
Lemma into_any_map : forall len l,
  into_any (Cell FFI_Y_JSON_MAP len (PMap l)) =
  match ia_map (N.to_nat len) l [] with Some m => Some (JMap m) | None => None end.
Proof. reflexivity. Qed.

Lemma ia_arr_ok : forall l, Forall (fun a => into_any (input_of a) = Some a) l ->
  forall n, (length l <= n)%nat -> ia_arr n (map input_of l) = Some l.
Proof.
  induction 1 as [|x r Hx Hr IH]; intros n Hn.
  - destruct n; reflexivity.
  - destruct n as [|n]; [simpl in Hn; lia|].
    cbn [map ia_arr]. rewrite Hx, IH by (simpl in Hn; lia). reflexivity.
Qed.

Lemma ia_map_ok : forall l,
  Forall (fun kv => into_any (input_of (snd kv)) = Some (snd kv)) l -> ssorted l ->
  forall acc n, (length l <= n)%nat ->
  Forall (fun kv => Forall (fun kv' => bytes_ltb (fst kv') (fst kv) = true) acc) l ->
  ia_map n (map (fun kv => (fst kv, input_of (snd kv))) l) acc = Some (acc ++ l).
Proof.
  induction 1 as [|[k v] r Hx Hr IH]; intros Hs acc n Hn Hacc.
  - rewrite app_nil_r. destruct n; reflexivity.
  - destruct n as [|n]; [simpl in Hn; lia|].
    destruct Hs as [Hk Hs]. inversion Hacc as [|? ? Ha Hacc']; subst.
    cbn [fst snd] in Hx, Hk, Ha.
    cbn [map ia_map fst snd]. rewrite Hx.
    rewrite (map_insert_last acc k v Ha).
    rewrite IH.
    + rewrite <- app_assoc. reflexivity.
    + exact Hs.
    + simpl in Hn; lia.
    + rewrite Forall_forall in Hacc', Hk. apply Forall_forall. intros kv Hin.
      apply Forall_app; split; [apply Hacc'; exact Hin|].
      constructor; [|constructor]. cbn [fst]. apply Hk; exact Hin.
Qed.

Theorem into_input : forall a, jwf a = true -> into_any (input_of a) = Some a.
Proof.
  induction a as [| |b|x|x|s|b|l IH|l IH] using jany_ind'; intros Hwf; try reflexivity.
  - destruct b; reflexivity.
  - change (input_of (JBuffer b)) with (Cell FFI_Y_JSON_BUF (N.of_nat (length b)) (PBuf b)).
    rewrite into_any_buf, Nnat.Nat2N.id, firstn_all. reflexivity.
  - change (input_of (JArray l)) with (Cell FFI_Y_JSON_ARR (N.of_nat (length l)) (PArr (map input_of l))).
    change (forallb jwf l = true) in Hwf.
    rewrite into_any_arr, Nnat.Nat2N.id, ia_arr_ok; auto.
    eapply Forall_forallb_mp; eauto.
  - change (input_of (JMap l))
      with (Cell FFI_Y_JSON_MAP (N.of_nat (length l)) (PMap (map (fun kv => (fst kv, input_of (snd kv))) l))).
    change (keys_sorted l && forallb (fun kv => jwf (snd kv)) l = true) in Hwf.
    apply andb_true_iff in Hwf; destruct Hwf as [Hs Hf].
    rewrite into_any_map, Nnat.Nat2N.id, ia_map_ok; auto.
    + eapply (Forall_forallb_mp (fun kv => jwf (snd kv))); eauto.
    + apply keys_sorted_ssorted; exact Hs.
    + apply Forall_forall; intros; constructor.
Qed.

Theorem output_of_input : forall a, jwf a = true ->
  option_map output_of (into_any (input_of a)) = Some (output_of a).
Proof. intros a H. rewrite (into_input a H). reflexivity. Qed.

(* ---------- tags ---------- *)
Definition json_tags : list Z :=
  [FFI_Y_JSON_BOOL; FFI_Y_JSON_NUM; FFI_Y_JSON_INT; FFI_Y_JSON_STR; FFI_Y_JSON_BUF;
   FFI_Y_JSON_ARR; FFI_Y_JSON_MAP; FFI_Y_JSON_NULL; FFI_Y_JSON_UNDEF].
Definition shared_tags : list Z :=
  [FFI_Y_ARRAY; FFI_Y_MAP; FFI_Y_TEXT; FFI_Y_XML_ELEM; FFI_Y_XML_TEXT; FFI_Y_XML_FRAG;
   FFI_Y_DOC; FFI_Y_WEAK_LINK].

Theorem tags_distinct :
  NoDup json_tags /\ Forall (fun t => (t <= 0)%Z) json_tags /\ Forall (fun t => (t > 0)%Z) shared_tags.
Proof.
  split; [|split].
  - unfold json_tags. repeat constructor; vm_compute; intuition discriminate.
  - unfold json_tags. repeat constructor; vm_compute; discriminate.
  - unfold shared_tags. repeat constructor.
Qed.

Definition same_kind (a b : jany) : Prop :=
  match a, b with
  | JNull, JNull | JUndefined, JUndefined | JBool _, JBool _ | JNumber _, JNumber _
  | JBigInt _, JBigInt _ | JString _, JString _ | JBuffer _, JBuffer _
  | JArray _, JArray _ | JMap _, JMap _ => True
  | _, _ => False
  end.

Theorem cell_tag_determines_kind : forall a b,
  (match output_of a, output_of b with Cell t1 _ _, Cell t2 _ _ => t1 = t2 end) -> same_kind a b.
Proof.
  intros a b; destruct a, b; intros H; try exact I; exfalso;
    cbn [output_of] in H; vm_compute in H; discriminate H.
Qed.

(* the same for input cells: the tag alone says which constructor built the cell *)
Theorem input_tag_determines_kind : forall a b,
  (match input_of a, input_of b with Cell t1 _ _, Cell t2 _ _ => t1 = t2 end) -> same_kind a b.
Proof.
  intros a b; destruct a, b; intros H; try exact I; exfalso;
    cbn [input_of] in H; vm_compute in H; discriminate H.
Qed.

(* ---------- a concrete nested value ---------- *)
(* [ { "a": "e-acute, grinning face" (UTF-8 c3 a9 f0 9f 98 80), "ab": buffer 00 ff 01 },
     i64 -1 as bits, f64 1.5 as bits, true, null, undefined, [] ] *)
Definition ex_value : jany :=
  JArray [ JMap [ ([97], JString [195; 169; 240; 159; 152; 128]);
                  ([97; 98], JBuffer [0; 255; 1]) ];
           JBigInt 18446744073709551615;
           JNumber 4609434218613702656;
           JBool true; JNull; JUndefined; JArray [] ].

Example ex_value_wf : jwf ex_value = true.
Proof. vm_compute. reflexivity. Qed.

Example ex_value_into : into_any (input_of ex_value) = Some ex_value.
Proof. vm_compute. reflexivity. Qed.

Example ex_value_read_back : read_back (output_of ex_value) = Some ex_value.
Proof. vm_compute. reflexivity. Qed.

Example ex_value_output :
  output_of ex_value =
  Cell (-3) 7
    (PArr [ Cell (-2) 2
              (PMap [ ([97], Cell (-5) 6 (PStr [195; 169; 240; 159; 152; 128]));
                      ([97; 98], Cell (-4) 3 (PBuf [0; 255; 1])) ]);
            Cell (-6) 1 (PInt 18446744073709551615);
            Cell (-7) 1 (PNum 4609434218613702656);
            Cell (-8) 1 (PFlag 1);
            Cell (-1) 0 PNone;
            Cell 0 0 PNone;
            Cell (-3) 0 (PArr []) ]).
Proof. vm_compute. reflexivity. Qed.

(* keys given in the wrong order are not well formed, and the stored map is the sorted one *)
Example ex_unsorted :
  let v := JMap [([98], JNull); ([97], JBool false)] in
  jwf v = false /\ into_any (input_of v) = Some (JMap [([97], JBool false); ([98], JNull)]).
Proof. vm_compute. split; reflexivity. Qed.

Print Assumptions read_back_output.
Print Assumptions into_input.
Print Assumptions output_of_input.
Print Assumptions tags_distinct.
Print Assumptions cell_tag_determines_kind.
