(* v1 wire format of sticky indexes (sticky_index.rs), y-sync messages (sync/protocol.rs) and
   awareness updates (sync/awareness.rs). *)
From Coq Require Import List NArith ZArith Bool.
From YV Require Import Gen.Consts Lib.Bytes Codec.Varint Codec.IdSetCodec Codec.UpdateV1 Ids.Ranges.
Import ListNotations.
Open Scope N_scope.

(* ---- StickyIndex = IndexScope + Assoc ---- *)
(* scope tags: 0 = Relative(id), 1 = Root(name), 2 = Nested(id) *)
Definition encode_index_scope (s : scope) : list N :=
  match s with
  | SRelative i => write_var_u32 0 ++ write_var_u64 (cl i) ++ write_var_u32 (ck i)
  | SNested i => write_var_u32 2 ++ write_var_u64 (cl i) ++ write_var_u32 (ck i)
  | SRoot n => write_var_u32 1 ++ write_string n
  end.
Definition decode_index_scope (bs : list N) : res scope :=
  let* (tag, r0) := read_var_u8 bs in
  if tag =? 0 then rmap SRelative (read_id_v1 r0)
  else if tag =? 1 then rmap SRoot (read_string r0)
  else if tag =? 2 then rmap SNested (read_id_v1 r0)
  else Err UnexpectedValue.

(* Assoc: write_var(-1) / write_var(0) as i32 -> signed varint; read_var::<i8> = read_var_i64 + try_into *)
Definition encode_assoc (after : bool) : list N :=
  match write_var_i64 (if after then 0%Z else (-1)%Z) with Some b => b | None => [] end.
Definition decode_assoc (bs : list N) : res bool :=
  let* (z, rest) := read_var_i64 bs in
  if ((z <? -128)%Z || (127 <? z)%Z) then Err InvalidVarInt else Ok (0 <=? z)%Z rest.

Definition encode_sticky (x : scope * bool) : list N := encode_index_scope (fst x) ++ encode_assoc (snd x).
Definition decode_sticky (bs : list N) : res (scope * bool) :=
  let* (s, r1) := decode_index_scope bs in
  let* (a, r2) := decode_assoc r1 in
  Ok (s, a) r2.

(* ---- awareness update: HashMap<ClientID, (clock, json string)>; wire order kept, last wins ---- *)
Definition aw_entry : Type := (N * (N * list N))%type.
Fixpoint aw_set (l : list aw_entry) (c k : N) (j : list N) : list aw_entry :=
  match l with
  | [] => [(c, (k, j))]
  | (c', v) :: r => if c' =? c then (c, (k, j)) :: r else (c', v) :: aw_set r c k j
  end.
Fixpoint decode_aw_loop (fuel : nat) (n : N) (bs : list N) (acc : list aw_entry) : res (list aw_entry) :=
  if n =? 0 then Ok acc bs else
  match fuel with
  | O => Fuel
  | S f =>
    let* (c0, r1) := read_var_u64 bs in
    let* (c, r1') := client_id_new c0 r1 in
    let* (k, r2) := read_var_u32 r1' in
    let* (j, r3) := read_string r2 in
    decode_aw_loop f (n - 1) r3 (aw_set acc c k j)
  end.
Definition decode_awareness (fuel : nat) (bs : list N) : res (list aw_entry) :=
  let* (n, rest) := read_var_usize bs in decode_aw_loop fuel n rest [].
Definition encode_awareness (l : list aw_entry) : list N :=
  write_var_usize (N.of_nat (length l)) ++
  flat_map (fun e => write_var_u64 (fst e) ++ write_var_u32 (fst (snd e)) ++ write_string (snd (snd e))) l.

(* ---- y-sync messages ---- *)
Inductive sync_msg := SyncStep1 (v : sv) | SyncStep2 (u : list N) | SyncUpdate (u : list N).
Inductive message :=
| MSync (m : sync_msg)
| MAuth (reason : option (list N))
| MAwarenessQuery
| MAwareness (a : list aw_entry)
| MCustom (tag : N) (data : list N).

Definition encode_sync_msg (m : sync_msg) : list N :=
  match m with
  | SyncStep1 v => write_var_u32 C_MSG_SYNC_STEP_1 ++ write_buf (encode_sv_v1 v)
  | SyncStep2 u => write_var_u32 C_MSG_SYNC_STEP_2 ++ write_buf u
  | SyncUpdate u => write_var_u32 C_MSG_SYNC_UPDATE ++ write_buf u
  end.
Definition decode_sync_msg (fuel : nat) (bs : list N) : res sync_msg :=
  let* (tag, r0) := read_var_u8 bs in
  if tag =? C_MSG_SYNC_STEP_1 then
    let* (b, r1) := read_buf r0 in
    match decode_sv_v1 fuel b with
    | Ok v _ => Ok (SyncStep1 v) r1
    | Err e => Err e | Panic s => Panic s | Fuel => Fuel
    end
  else if tag =? C_MSG_SYNC_STEP_2 then rmap SyncStep2 (read_buf r0)
  else if tag =? C_MSG_SYNC_UPDATE then rmap SyncUpdate (read_buf r0)
  else Err UnexpectedValue.

(* Message::Custom writes its tag with write_u8 but every tag is read with read_var::<u8> *)
Definition encode_message (m : message) : list N :=
  match m with
  | MSync s => write_var_u32 C_MSG_SYNC ++ encode_sync_msg s
  | MAuth (Some r) => write_var_u32 C_MSG_AUTH ++ write_var_u32 C_PERMISSION_DENIED ++ write_string r
  | MAuth None => write_var_u32 C_MSG_AUTH ++ write_var_u32 C_PERMISSION_GRANTED
  | MAwarenessQuery => write_var_u32 C_MSG_QUERY_AWARENESS
  | MAwareness a => write_var_u32 C_MSG_AWARENESS ++ write_buf (encode_awareness a)
  | MCustom tag data => write_var_u32 tag ++ write_buf data
  end.
Definition decode_message (fuel : nat) (bs : list N) : res message :=
  let* (tag, r0) := read_var_u8 bs in
  if tag =? C_MSG_SYNC then rmap MSync (decode_sync_msg fuel r0)
  else if tag =? C_MSG_AWARENESS then
    let* (b, r1) := read_buf r0 in
    match decode_awareness fuel b with
    | Ok a _ => Ok (MAwareness a) r1
    | Err e => Err e | Panic s => Panic s | Fuel => Fuel
    end
  else if tag =? C_MSG_AUTH then
    let* (p, r1) := read_var_u8 r0 in
    if p =? C_PERMISSION_DENIED then rmap (fun s => MAuth (Some s)) (read_string r1) else Ok (MAuth None) r1
  else if tag =? C_MSG_QUERY_AWARENESS then Ok MAwarenessQuery r0
  else rmap (MCustom tag) (read_buf r0).
