(* Round-trip and totality theorems for the v1 framing codecs:
     IdRange / IdSet / StateVector / Snapshot   (Codec/IdSetCodec.v)
     read_id_v1                                 (Codec/UpdateV1.v)
     sticky index / awareness / y-sync messages (Codec/Messages.v)
   Generated constants (Gen/Consts.v) stay symbolic in the statements. *)
From Coq Require Import List NArith ZArith Bool Lia ZifyBool ZifyN ZifyNat.
From YV Require Import Gen.Consts Lib.Bytes Codec.Varint Codec.AnyCodec Codec.IdSetCodec Codec.UpdateV1
  Codec.Messages Ids.Ranges Ids.RangesProofs Codec.VarintProofs Codec.AnyProofs.
Import ListNotations.
Open Scope N_scope.
Ltac Zify.zify_post_hook ::= Z.div_mod_to_equations.

(* ------------------------------------------------------------------------------------------------ *)
(* result predicate: Ok leaves fewer than [n] bytes, never Panic, never Fuel                         *)
(* ------------------------------------------------------------------------------------------------ *)

Definition bnd {A} (n : nat) (r : res A) : Prop :=
  match r with
  | Ok _ rest => (length rest < n)%nat
  | Err _ => True
  | Panic _ => False
  | Fuel => False
  end.

Lemma bnd_bind : forall A B n m (r : res A) (f : A -> list N -> res B),
  bnd n r -> (forall a rest, (length rest < n)%nat -> bnd m (f a rest)) -> bnd m (bind r f).
Proof. intros A B n m r f Hr Hf. destruct r; cbn [bind bnd] in *; auto. Qed.

Lemma bnd_rmap : forall A B n (g : A -> B) (r : res A), bnd n r -> bnd n (rmap g r).
Proof. intros A B n g r H. destruct r; cbn in *; auto. Qed.

Lemma bnd_le : forall A n m (r : res A), (n <= m)%nat -> bnd n r -> bnd m r.
Proof. intros A n m r Hn H. destruct r; cbn in *; auto. lia. Qed.

Lemma bnd_of_total : forall A n (r : res A),
  match r with Panic _ | Fuel => False | _ => True end ->
  (forall a rest, r = Ok a rest -> (length rest < n)%nat) -> bnd n r.
Proof. intros A n r Ht Hs. destruct r; cbn in *; try contradiction; auto. eapply Hs; reflexivity. Qed.

Lemma bind_ok : forall A B (r : res A) (f : A -> list N -> res B) b rest,
  bind r f = Ok b rest -> exists a r1, r = Ok a r1 /\ f a r1 = Ok b rest.
Proof. intros A B r f b rest H. destruct r as [a r1| | |]; cbn [bind] in H; try discriminate. eauto. Qed.

Lemma bnd_read_var_u32 : forall bs, bnd (length bs) (read_var_u32 bs).
Proof. intros bs. apply bnd_of_total; [apply read_var_u32_total|apply read_var_u32_shrinks]. Qed.

Lemma bnd_read_var_u64 : forall bs, bnd (length bs) (read_var_u64 bs).
Proof. intros bs. apply bnd_of_total; [apply read_var_u64_total|apply read_var_u64_shrinks]. Qed.

Lemma bnd_read_buf : forall bs, bnd (length bs) (read_buf bs).
Proof. intros bs. apply bnd_of_total; [apply read_buf_total|apply read_buf_shrinks]. Qed.

Lemma bnd_read_string : forall bs, bnd (length bs) (read_string bs).
Proof. intros bs. apply bnd_of_total; [apply read_string_total|apply read_string_shrinks]. Qed.

Lemma bnd_read_var_u8 : forall bs, bnd (length bs) (read_var_u8 bs).
Proof.
  intros bs. unfold read_var_u8. eapply bnd_bind; [apply bnd_read_var_u32|].
  intros v rest Hl. destruct (v <? 256); cbn [bnd]; auto.
Qed.

Lemma bnd_read_u8 : forall bs, bnd (length bs) (read_u8 bs).
Proof. intros [|b bs]; cbn; auto. Qed.

Lemma bnd_read_exact : forall n bs, bnd (S (length bs)) (read_exact n bs).
Proof.
  intros n bs. apply bnd_of_total; [apply read_exact_total|].
  intros a rest H. apply read_exact_shrinks in H. lia.
Qed.

Lemma bnd_read_var_i64 : forall bs, bnd (length bs) (read_var_i64 bs).
Proof. intros bs. apply bnd_of_total; [apply read_var_i64_total|apply read_var_i64_shrinks]. Qed.

(* ClientID::try_new: an id >= 2^53 is an error, not a panic *)
Lemma bnd_client_id_new : forall v rest, bnd (S (length rest)) (client_id_new v rest).
Proof. intros v rest. unfold client_id_new. destruct (v <? two53); cbn; auto. Qed.

Lemma client_id_new_ok : forall v rest c r, client_id_new v rest = Ok c r -> c = v /\ r = rest /\ v < two53.
Proof.
  intros v rest c r H. unfold client_id_new in H. destruct (N.ltb_spec v two53); [|discriminate].
  inversion H; subst. auto.
Qed.

(* ------------------------------------------------------------------------------------------------ *)
(* unfolding equations of the fuelled loops                                                         *)
(* ------------------------------------------------------------------------------------------------ *)

Lemma decode_ranges_loop_eq : forall fuel n bs acc,
  decode_ranges_loop fuel n bs acc =
  if n =? 0 then Ok (rev acc) bs else
  match fuel with
  | O => Fuel
  | S f =>
    let* (r, rest) := decode_range_v1 bs in
    decode_ranges_loop f (n - 1) rest ((fst r, snd r, tt) :: acc)
  end.
Proof. destruct fuel; reflexivity. Qed.

Lemma decode_idset_loop_eq : forall fuel n bs acc,
  decode_idset_loop fuel n bs acc =
  if n =? 0 then Ok acc bs else
  match fuel with
  | O => Fuel
  | S f =>
    let* (client, r1) := read_var_u64 bs in
    let* (c, r1') := client_id_new client r1 in
    let* (range, r3) := decode_idrange_v1 f r1' in
    decode_idset_loop f (n - 1) r3 (match range with [] => acc | _ => im_set acc c range end)
  end.
Proof. destruct fuel; reflexivity. Qed.

Lemma decode_sv_loop_eq : forall fuel n bs acc,
  decode_sv_loop fuel n bs acc =
  if n =? 0 then Ok acc bs else
  match fuel with
  | O => Fuel
  | S f =>
    let* (client, r1) := read_var_u64 bs in
    let* (c, r1') := client_id_new client r1 in
    let* (clock, r3) := read_var_u32 r1' in
    decode_sv_loop f (n - 1) r3 (sv_set acc c clock)
  end.
Proof. destruct fuel; reflexivity. Qed.

Lemma decode_aw_loop_eq : forall fuel n bs acc,
  decode_aw_loop fuel n bs acc =
  if n =? 0 then Ok acc bs else
  match fuel with
  | O => Fuel
  | S f =>
    let* (c0, r1) := read_var_u64 bs in
    let* (c, r1') := client_id_new c0 r1 in
    let* (k, r2) := read_var_u32 r1' in
    let* (j, r3) := read_string r2 in
    decode_aw_loop f (n - 1) r3 (aw_set acc c k j)
  end.
Proof. destruct fuel; reflexivity. Qed.

Lemma of_nat_S_eqb0 : forall k, (N.of_nat (S k) =? 0) = false.
Proof. intro k. lia. Qed.
Lemma of_nat_S_pred : forall k, N.of_nat (S k) - 1 = N.of_nat k.
Proof. intro k. lia. Qed.

(* ------------------------------------------------------------------------------------------------ *)
(* A1. IdRange / IdSet round trip                                                                   *)
(* ------------------------------------------------------------------------------------------------ *)

(* the decoder normalises: only canonical lists (every range non-empty and strictly after the previous end)
   come back unchanged *)
Definition wf_entry (x : entry unit) : bool := (e_start x <=? e_end x) && (e_end x <? two32).
Definition wf_idrange (r : idrange) : bool :=
  (N.of_nat (length r) <? two32) && forallb wf_entry r && ranges_canonical None r.

(* strictly ascending, every element above [lo] *)
Fixpoint asc_above (lo : N) (l : list N) : bool :=
  match l with [] => true | x :: r => (lo <? x) && asc_above x r end.
Definition ascb (l : list N) : bool := match l with [] => true | x :: r => asc_above x r end.

(* the decoder drops clients whose range list is empty *)
Definition nonempty {A} (l : list A) : bool := match l with [] => false | _ => true end.
Definition wf_idset (s : idset) : bool :=
  (N.of_nat (length s) <? two32) &&
  forallb (fun cr => (fst cr <? two53) && wf_idrange (snd cr) && nonempty (snd cr)) s &&
  ascb (map fst s).

Definition idset_fuel (s : idset) : nat :=
  (length s + list_max (map (fun cr => length (snd cr)) s))%nat.

Definition enc_entry (x : entry unit) : list N := write_var_u32 (e_start x) ++ write_var_u32 (e_end x - e_start x).

Lemma range_roundtrip : forall x rest, wf_entry x = true ->
  decode_range_v1 (enc_entry x ++ rest) = Ok (e_start x, e_end x) rest.
Proof.
  intros x rest Hwf. unfold wf_entry in Hwf. unfold decode_range_v1, enc_entry.
  rewrite <- app_assoc. rewrite var_u32_roundtrip by lia. cbn [bind].
  rewrite var_u32_roundtrip by lia. cbn [bind]. unfold add32_checked.
  replace (e_start x + (e_end x - e_start x)) with (e_end x) by lia.
  replace (e_end x <? two32) with true by lia. reflexivity.
Qed.

Lemma ranges_loop_roundtrip : forall r fuel acc rest,
  (length r <= fuel)%nat -> forallb wf_entry r = true ->
  decode_ranges_loop fuel (N.of_nat (length r)) (flat_map enc_entry r ++ rest) acc = Ok (rev acc ++ r) rest.
Proof.
  induction r as [|x r IH]; intros fuel acc rest Hf Hwf; rewrite decode_ranges_loop_eq.
  - cbn [length flat_map app]. change (N.of_nat 0 =? 0) with true. cbv iota. rewrite app_nil_r. reflexivity.
  - cbn [length] in *. rewrite of_nat_S_eqb0, of_nat_S_pred. destruct fuel as [|f]; [lia|].
    cbn [forallb] in Hwf. apply andb_prop in Hwf. destruct Hwf as [Hx Hr].
    cbn [flat_map]. rewrite <- app_assoc. rewrite range_roundtrip by exact Hx. cbn [bind fst snd].
    rewrite IH by (try lia; assumption). cbn [rev]. rewrite <- app_assoc. cbn [app].
    destruct x as [[s e] []]. reflexivity.
Qed.

Theorem idrange_roundtrip : forall r fuel rest,
  wf_idrange r = true -> (length r <= fuel)%nat ->
  decode_idrange_v1 fuel (encode_idrange_v1 r ++ rest) = Ok r rest.
Proof.
  intros r fuel rest Hwf Hf. unfold wf_idrange in Hwf. apply andb_prop in Hwf. destruct Hwf as [Hwf Hcan].
  apply andb_prop in Hwf. destruct Hwf as [Hl Hr].
  unfold decode_idrange_v1, encode_idrange_v1. rewrite <- app_assoc.
  rewrite var_u32_roundtrip by lia. cbn [bind].
  change (fun x : N * N * unit => write_var_u32 (e_start x) ++ write_var_u32 (e_end x - e_start x)) with enc_entry.
  rewrite ranges_loop_roundtrip by assumption. cbn [bind rev app].
  unfold normalize_ranges. rewrite Hcan. reflexivity.
Qed.
Print Assumptions idrange_roundtrip.

Lemma asc_above_lt : forall l lo x, asc_above lo l = true -> In x l -> lo < x.
Proof.
  induction l as [|y l IH]; intros lo x H Hin; [destruct Hin|].
  cbn [asc_above] in H. apply andb_prop in H. destruct H as [Hy Hl].
  destruct Hin as [->|Hin]; [lia|]. specialize (IH y x Hl Hin). lia.
Qed.

Lemma im_set_append : forall (acc : idset) c r,
  (forall c', In c' (map fst acc) -> c' < c) -> im_set acc c r = acc ++ [(c, r)].
Proof.
  induction acc as [|[c0 r0] acc IH]; intros c r H; cbn [im_set app]; [reflexivity|].
  assert (c0 < c) by (apply H; left; reflexivity).
  replace (c0 =? c) with false by lia. replace (c <? c0) with false by lia.
  rewrite IH; [reflexivity|]. intros c' Hin. apply H. right. exact Hin.
Qed.

Definition enc_client_range (cr : N * idrange) : list N := write_var_u64 (fst cr) ++ encode_idrange_v1 (snd cr).

Lemma idset_loop_roundtrip : forall s fuel M acc rest,
  (length s + M <= fuel)%nat ->
  (forall cr, In cr s -> (length (snd cr) <= M)%nat) ->
  forallb (fun cr => (fst cr <? two53) && wf_idrange (snd cr) && nonempty (snd cr)) s = true ->
  ascb (map fst s) = true ->
  (forall c' x, In c' (map fst acc) -> In x (map fst s) -> c' < x) ->
  decode_idset_loop fuel (N.of_nat (length s)) (flat_map enc_client_range s ++ rest) acc = Ok (acc ++ s) rest.
Proof.
  induction s as [|[c r] s IH]; intros fuel M acc rest Hf HM Hwf Hasc Hacc; rewrite decode_idset_loop_eq.
  - cbn [length flat_map app]. change (N.of_nat 0 =? 0) with true. cbv iota. rewrite app_nil_r. reflexivity.
  - cbn [length] in *. rewrite of_nat_S_eqb0, of_nat_S_pred. destruct fuel as [|f]; [lia|].
    cbn [forallb fst snd] in Hwf. apply andb_prop in Hwf. destruct Hwf as [Hx Hs].
    apply andb_prop in Hx. destruct Hx as [Hx Hne]. apply andb_prop in Hx. destruct Hx as [Hc Hr].
    cbn [flat_map]. unfold enc_client_range at 1. cbn [fst snd]. rewrite <- !app_assoc.
    rewrite var_u64_roundtrip by (unfold two53, two64 in *; lia). cbn [bind].
    unfold client_id_new. rewrite Hc. cbn [bind].
    assert (HrM : (length r <= M)%nat) by (apply (HM (c, r)); left; reflexivity).
    rewrite idrange_roundtrip by (try assumption; lia). cbn [bind].
    destruct r as [|x0 r0]; [discriminate Hne|]. cbv iota.
    cbn [map fst ascb] in Hasc.
    rewrite im_set_append.
    2:{ intros c' Hin. apply Hacc; [exact Hin|]. left. reflexivity. }
    rewrite (IH f M); try assumption; try lia.
    + rewrite <- app_assoc. reflexivity.
    + intros cr Hin. apply HM. right. exact Hin.
    + destruct s as [|[c1 r1] s]; [reflexivity|]. cbn [map fst ascb asc_above] in *.
      apply andb_prop in Hasc. tauto.
    + intros c' x Hin Hx. rewrite map_app in Hin. apply in_app_or in Hin. destruct Hin as [Hin|Hin].
      * apply Hacc; [exact Hin|]. right. exact Hx.
      * cbn [map fst In] in Hin. destruct Hin as [<-|[]]. eapply asc_above_lt; eassumption.
Qed.

Lemma list_max_map_in : forall A (g : A -> nat) l x, In x l -> (g x <= list_max (map g l))%nat.
Proof.
  intros A g l x Hin. pose proof (list_max_map_le A g l _ (Nat.le_refl _)) as H.
  rewrite Forall_forall in H. apply H. exact Hin.
Qed.

Theorem idset_roundtrip : forall s fuel rest,
  wf_idset s = true -> (idset_fuel s <= fuel)%nat ->
  decode_idset_v1 fuel (encode_idset_v1 s ++ rest) = Ok s rest.
Proof.
  intros s fuel rest Hwf Hf. unfold wf_idset in Hwf. apply andb_prop in Hwf. destruct Hwf as [Hwf Hasc].
  apply andb_prop in Hwf. destruct Hwf as [Hl Hs].
  unfold decode_idset_v1, encode_idset_v1. rewrite <- app_assoc.
  rewrite var_u32_roundtrip by lia. cbn [bind].
  change (fun cr : N * idrange => write_var_u64 (fst cr) ++ encode_idrange_v1 (snd cr)) with enc_client_range.
  apply (idset_loop_roundtrip s fuel (list_max (map (fun cr => length (snd cr)) s))); try assumption.
  - intros cr Hin. apply (list_max_map_in _ (fun cr => length (snd cr))). exact Hin.
  - intros c' x [].
Qed.
Print Assumptions idset_roundtrip.

(* ------------------------------------------------------------------------------------------------ *)
(* A2. StateVector / Snapshot round trip                                                            *)
(* ------------------------------------------------------------------------------------------------ *)

Fixpoint nodupb (l : list N) : bool :=
  match l with [] => true | x :: r => negb (existsb (N.eqb x) r) && nodupb r end.

Definition wf_sv (s : sv) : bool :=
  (N.of_nat (length s) <? two32) &&
  forallb (fun ck => (fst ck <? two53) && (snd ck <? two32)) s &&
  nodupb (map fst s).

Lemma existsb_eqb_false : forall x l, existsb (N.eqb x) l = false -> forall y, In y l -> x <> y.
Proof.
  intros x l H y Hin ->. assert (existsb (N.eqb y) l = true); [|congruence].
  apply existsb_exists. exists y. split; [exact Hin|apply N.eqb_refl].
Qed.

Lemma sv_set_append : forall (acc : sv) c k,
  (forall c', In c' (map fst acc) -> c' <> c) -> sv_set acc c k = acc ++ [(c, k)].
Proof.
  induction acc as [|[c0 k0] acc IH]; intros c k H; cbn [sv_set app]; [reflexivity|].
  assert (c0 <> c) by (apply H; left; reflexivity).
  replace (c0 =? c) with false by lia.
  rewrite IH; [reflexivity|]. intros c' Hin. apply H. right. exact Hin.
Qed.

Definition enc_sv_entry (ck : N * N) : list N := write_var_u64 (fst ck) ++ write_var_u32 (snd ck).

Lemma sv_loop_roundtrip : forall s fuel acc rest,
  (length s <= fuel)%nat ->
  forallb (fun ck => (fst ck <? two53) && (snd ck <? two32)) s = true ->
  nodupb (map fst s) = true ->
  (forall c' x, In c' (map fst acc) -> In x (map fst s) -> c' <> x) ->
  decode_sv_loop fuel (N.of_nat (length s)) (flat_map enc_sv_entry s ++ rest) acc = Ok (acc ++ s) rest.
Proof.
  induction s as [|[c k] s IH]; intros fuel acc rest Hf Hwf Hnd Hacc; rewrite decode_sv_loop_eq.
  - cbn [length flat_map app]. change (N.of_nat 0 =? 0) with true. cbv iota. rewrite app_nil_r. reflexivity.
  - cbn [length] in *. rewrite of_nat_S_eqb0, of_nat_S_pred. destruct fuel as [|f]; [lia|].
    cbn [forallb fst snd] in Hwf. apply andb_prop in Hwf. destruct Hwf as [Hx Hs].
    apply andb_prop in Hx. destruct Hx as [Hc Hk].
    cbn [flat_map]. unfold enc_sv_entry at 1. cbn [fst snd]. rewrite <- !app_assoc.
    rewrite var_u64_roundtrip by (unfold two53, two64 in *; lia). cbn [bind].
    unfold client_id_new. rewrite Hc. cbn [bind].
    rewrite var_u32_roundtrip by lia. cbn [bind].
    cbn [map fst nodupb] in Hnd. apply andb_prop in Hnd. destruct Hnd as [Hnin Hnd].
    apply negb_true_iff in Hnin.
    rewrite sv_set_append.
    2:{ intros c' Hin. apply Hacc; [exact Hin|]. left. reflexivity. }
    rewrite IH; try assumption; try lia.
    + rewrite <- app_assoc. reflexivity.
    + intros c' x Hin Hx. rewrite map_app in Hin. apply in_app_or in Hin. destruct Hin as [Hin|Hin].
      * apply Hacc; [exact Hin|]. right. exact Hx.
      * cbn [map fst In] in Hin. destruct Hin as [<-|[]]. eapply existsb_eqb_false; eassumption.
Qed.

Theorem sv_roundtrip : forall s fuel rest,
  wf_sv s = true -> (length s <= fuel)%nat ->
  decode_sv_v1 fuel (encode_sv_v1 s ++ rest) = Ok s rest.
Proof.
  intros s fuel rest Hwf Hf. unfold wf_sv in Hwf. apply andb_prop in Hwf. destruct Hwf as [Hwf Hnd].
  apply andb_prop in Hwf. destruct Hwf as [Hl Hs].
  unfold decode_sv_v1, encode_sv_v1, write_var_usize. rewrite <- app_assoc.
  rewrite var_u32_of_u64_roundtrip by lia. cbn [bind].
  change (fun ck : N * N => write_var_u64 (fst ck) ++ write_var_u32 (snd ck)) with enc_sv_entry.
  apply sv_loop_roundtrip; try assumption. intros c' x [].
Qed.
Print Assumptions sv_roundtrip.

Definition wf_snapshot (x : idset * sv) : bool := wf_idset (fst x) && wf_sv (snd x).
Definition snapshot_fuel (x : idset * sv) : nat := Nat.max (idset_fuel (fst x)) (length (snd x)).

Theorem snapshot_roundtrip : forall x fuel rest,
  wf_snapshot x = true -> (snapshot_fuel x <= fuel)%nat ->
  decode_snapshot_v1 fuel (encode_snapshot_v1 x ++ rest) = Ok x rest.
Proof.
  intros [ds s] fuel rest Hwf Hf. unfold wf_snapshot, snapshot_fuel in *. cbn [fst snd] in *.
  apply andb_prop in Hwf. destruct Hwf as [Hd Hs].
  unfold decode_snapshot_v1, encode_snapshot_v1. cbn [fst snd]. rewrite <- app_assoc.
  rewrite idset_roundtrip by (try assumption; lia). cbn [bind].
  rewrite sv_roundtrip by (try assumption; lia). reflexivity.
Qed.
Print Assumptions snapshot_roundtrip.

(* ------------------------------------------------------------------------------------------------ *)
(* normalisation of decoded range lists: never fails, result canonical, same set of clocks           *)
(* ------------------------------------------------------------------------------------------------ *)

(* ranges_canonical (the decoder's test) and canon (Ids/RangesProofs.v) agree *)
Lemma ranges_canonical_canon : forall l pe, ranges_canonical pe l = true ->
  canon l /\ match pe with Some p => lb_ok p l | None => True end.
Proof.
  induction l as [|x r IH]; intros pe H; cbn [ranges_canonical] in H.
  - split; [exact I|]. destruct pe; exact I.
  - apply andb_prop in H. destruct H as [H H3]. apply andb_prop in H. destruct H as [H1 H2].
    apply IH in H3. destruct H3 as [Hc Hl]. split.
    + cbn [canon]. split; [lia|]. split; assumption.
    + destruct pe; cbn [lb_ok]; [lia|exact I].
Qed.

Lemma canon_ranges_canonical : forall l pe, canon l ->
  match pe with Some p => lb_ok p l | None => True end -> ranges_canonical pe l = true.
Proof.
  induction l as [|x r IH]; intros pe Hc Hl; [reflexivity|].
  cbn [canon] in Hc. destruct Hc as (H1 & H2 & H3). cbn [ranges_canonical].
  rewrite (IH (Some (e_end x)) H3 H2), andb_true_r. apply andb_true_intro. split; [lia|].
  destruct pe; [cbn [lb_ok] in Hl; lia|reflexivity].
Qed.

Theorem ranges_canonical_iff : forall l, ranges_canonical None l = true <-> canon l.
Proof.
  intro l. split; intro H; [apply (ranges_canonical_canon l None H)|apply canon_ranges_canonical; [exact H|exact I]].
Qed.

Ltac den_lia := repeat match goal with |- context [den ?l ?k] => destruct (den l k) end; lia.

Definition norm_step (acc : option idrange) (x : entry unit) : option idrange :=
  match acc with Some a => insert_with ueq umerge a (e_start x) (e_end x) tt | None => None end.

Lemma normalize_ranges_eq : forall l, normalize_ranges l =
  if ranges_canonical None l then Some l else fold_left norm_step (sort_by_start l) (Some []).
Proof. reflexivity. Qed.

Lemma insert_with_empty : forall (l : idrange) s e, e <= s -> insert_with ueq umerge l s e tt = Some l.
Proof. intros l s e H. unfold insert_with. replace (e <=? s) with true by lia. reflexivity. Qed.

(* the rebuild never hits the index panic of insert: the accumulator stays canonical *)
Lemma norm_fold_spec : forall l acc, canon acc ->
  exists r, fold_left norm_step l (Some acc) = Some r /\ canon r /\ forall k, den r k = den acc k || den l k.
Proof.
  induction l as [|x l IH]; intros acc Hc.
  - exists acc. split; [reflexivity|]. split; [exact Hc|]. intro k. rewrite den_nil, orb_false_r. reflexivity.
  - cbn [fold_left norm_step]. destruct (N.leb_spec (e_end x) (e_start x)) as [He|He].
    + rewrite insert_with_empty by exact He. destruct (IH acc Hc) as (r & H1 & H2 & H3).
      exists r. split; [exact H1|]. split; [exact H2|]. intro k. rewrite H3, den_cons. den_lia.
    + destruct (insert_with_spec acc (e_start x) (e_end x) Hc He) as (acc' & Hi & Hc' & Hd). rewrite Hi.
      destruct (IH acc' Hc') as (r & H1 & H2 & H3).
      exists r. split; [exact H1|]. split; [exact H2|]. intro k. rewrite H3, Hd, den_cons. den_lia.
Qed.

Lemma den_insert_by_start : forall x l k, den (insert_by_start x l) k = den (x :: l) k.
Proof.
  intros x l k. induction l as [|y l IH]; cbn [insert_by_start]; [reflexivity|].
  destruct (e_start x <? e_start y); [reflexivity|]. rewrite (den_cons y), IH, !den_cons. den_lia.
Qed.

Lemma den_sort_fold : forall l acc k,
  den (fold_left (fun acc x => insert_by_start x acc) l acc) k = den acc k || den l k.
Proof.
  induction l as [|x l IH]; intros acc k; cbn [fold_left].
  - rewrite den_nil, orb_false_r. reflexivity.
  - rewrite IH, den_insert_by_start, !den_cons. den_lia.
Qed.

Lemma den_sort_by_start : forall l k, den (sort_by_start l) k = den l k.
Proof. intros l k. unfold sort_by_start. rewrite den_sort_fold, den_nil. reflexivity. Qed.

Theorem normalize_ranges_spec : forall l,
  exists r, normalize_ranges l = Some r /\ canon r /\ forall k, den r k = den l k.
Proof.
  intro l. rewrite normalize_ranges_eq. destruct (ranges_canonical None l) eqn:E.
  - exists l. split; [reflexivity|]. split; [apply ranges_canonical_iff; exact E|reflexivity].
  - destruct (norm_fold_spec (sort_by_start l) [] I) as (r & H1 & H2 & H3).
    exists r. split; [exact H1|]. split; [exact H2|]. intro k. rewrite H3, den_nil, den_sort_by_start. reflexivity.
Qed.
Print Assumptions normalize_ranges_spec.

(* a canonical list is a fixed point *)
Theorem normalize_ranges_canon : forall l, canon l -> normalize_ranges l = Some l.
Proof. intros l H. rewrite normalize_ranges_eq. apply ranges_canonical_iff in H. rewrite H. reflexivity. Qed.

(* ------------------------------------------------------------------------------------------------ *)
(* B7 / B8. totality of the IdSet / StateVector / Snapshot decoders: no panic at all                 *)
(* ------------------------------------------------------------------------------------------------ *)

Lemma bnd_decode_range : forall bs, bnd (length bs) (decode_range_v1 bs).
Proof.
  intro bs. unfold decode_range_v1. eapply bnd_bind; [apply bnd_read_var_u32|]. intros clock r1 H1.
  eapply bnd_bind; [apply bnd_read_var_u32|]. intros len r2 H2.
  destruct (add32_checked clock len); cbn [bnd]; [lia|exact I].
Qed.

Lemma bnd_ranges_loop : forall fuel n bs acc, (length bs < fuel)%nat ->
  bnd (S (length bs)) (decode_ranges_loop fuel n bs acc).
Proof.
  induction fuel as [|f IH]; intros n bs acc Hl; [lia|]. rewrite decode_ranges_loop_eq.
  destruct (n =? 0); [cbn; lia|].
  eapply bnd_bind; [apply bnd_decode_range|]. intros r rest Hr.
  eapply bnd_le; [|apply IH]; lia.
Qed.

Lemma bnd_decode_idrange : forall fuel bs, (length bs < fuel)%nat ->
  bnd (length bs) (decode_idrange_v1 fuel bs).
Proof.
  intros fuel bs Hl. unfold decode_idrange_v1. eapply bnd_bind; [apply bnd_read_var_u32|].
  intros len rest Hr. eapply (bnd_bind _ _ (length bs)); [eapply bnd_le; [|apply bnd_ranges_loop]; lia|].
  intros raw rest' Hr'. destruct (normalize_ranges_spec raw) as (r & -> & _). exact Hr'.
Qed.

Lemma bnd_idset_loop : forall fuel n bs acc, (length bs < fuel)%nat ->
  bnd (S (length bs)) (decode_idset_loop fuel n bs acc).
Proof.
  induction fuel as [|f IH]; intros n bs acc Hl; [lia|]. rewrite decode_idset_loop_eq.
  destruct (n =? 0); [cbn; lia|].
  eapply bnd_bind; [apply bnd_read_var_u64|]. intros client r1 H1.
  eapply bnd_bind; [apply bnd_client_id_new|]. intros c r1' H1'.
  eapply bnd_bind; [apply bnd_decode_idrange; lia|]. intros range r3 H3.
  eapply bnd_le; [|apply IH]; lia.
Qed.

Lemma bnd_decode_idset : forall fuel bs, (length bs < fuel)%nat ->
  bnd (length bs) (decode_idset_v1 fuel bs).
Proof.
  intros fuel bs Hl. unfold decode_idset_v1. eapply bnd_bind; [apply bnd_read_var_u32|].
  intros n rest Hr. eapply bnd_le; [|apply bnd_idset_loop]; lia.
Qed.

Lemma bnd_sv_loop : forall fuel n bs acc, (length bs < fuel)%nat ->
  bnd (S (length bs)) (decode_sv_loop fuel n bs acc).
Proof.
  induction fuel as [|f IH]; intros n bs acc Hl; [lia|]. rewrite decode_sv_loop_eq.
  destruct (n =? 0); [cbn; lia|].
  eapply bnd_bind; [apply bnd_read_var_u64|]. intros client r1 H1.
  eapply bnd_bind; [apply bnd_client_id_new|]. intros c r1' H1'.
  eapply bnd_bind; [apply bnd_read_var_u32|]. intros clock r3 H3.
  eapply bnd_le; [|apply IH]; lia.
Qed.

Lemma bnd_decode_sv : forall fuel bs, (length bs < fuel)%nat ->
  bnd (length bs) (decode_sv_v1 fuel bs).
Proof.
  intros fuel bs Hl. unfold decode_sv_v1. eapply bnd_bind; [apply bnd_read_var_u32|].
  intros n rest Hr. eapply bnd_le; [|apply bnd_sv_loop]; lia.
Qed.

Lemma bnd_read_id : forall bs, bnd (length bs) (read_id_v1 bs).
Proof.
  intro bs. unfold read_id_v1. eapply bnd_bind; [apply bnd_read_var_u64|]. intros c r1 H1.
  eapply bnd_bind; [apply bnd_read_var_u32|]. intros k r2 H2.
  eapply bnd_bind; [apply bnd_client_id_new|]. intros c' r3 H3. cbn [bnd]. lia.
Qed.

Theorem decode_idrange_total : forall fuel bs, (length bs < fuel)%nat ->
  match decode_idrange_v1 fuel bs with
  | Ok _ rest => (length rest < length bs)%nat
  | Err _ => True
  | Panic _ => False
  | Fuel => False
  end.
Proof. exact bnd_decode_idrange. Qed.
Print Assumptions decode_idrange_total.

Theorem decode_idset_total : forall fuel bs, (length bs < fuel)%nat ->
  match decode_idset_v1 fuel bs with
  | Ok _ rest => (length rest < length bs)%nat
  | Err _ => True
  | Panic _ => False
  | Fuel => False
  end.
Proof. exact bnd_decode_idset. Qed.
Print Assumptions decode_idset_total.

Theorem decode_sv_total : forall fuel bs, (length bs < fuel)%nat ->
  match decode_sv_v1 fuel bs with
  | Ok _ rest => (length rest < length bs)%nat
  | Err _ => True
  | Panic _ => False
  | Fuel => False
  end.
Proof. exact bnd_decode_sv. Qed.
Print Assumptions decode_sv_total.

Theorem decode_snapshot_total : forall fuel bs, (length bs < fuel)%nat ->
  match decode_snapshot_v1 fuel bs with
  | Ok _ rest => (length rest < length bs)%nat
  | Err _ => True
  | Panic _ => False
  | Fuel => False
  end.
Proof.
  intros fuel bs Hl. change (bnd (length bs) (decode_snapshot_v1 fuel bs)).
  unfold decode_snapshot_v1.
  eapply bnd_bind; [apply bnd_decode_idset; exact Hl|]. intros ds r1 H1.
  eapply bnd_bind; [apply bnd_decode_sv; lia|]. intros s r2 H2.
  cbn [bnd]. lia.
Qed.
Print Assumptions decode_snapshot_total.

(* the inputs that used to panic (u32 overflow of clock + len, client id 2^53) are now plain errors *)
Definition idset_add_u32_witness : list N := [1; 0; 1; 255; 255; 255; 255; 15; 1].
Definition idset_client_id_witness : list N := [1; 128; 128; 128; 128; 128; 128; 128; 16; 0].
Definition sv_client_id_witness : list N := [1; 128; 128; 128; 128; 128; 128; 128; 16; 0].

Example decode_idset_former_witnesses :
  decode_idset_v1 (S (length idset_add_u32_witness)) idset_add_u32_witness = Err UnexpectedValue /\
  decode_idset_v1 (S (length idset_client_id_witness)) idset_client_id_witness = Err UnexpectedValue /\
  decode_sv_v1 (S (length sv_client_id_witness)) sv_client_id_witness = Err UnexpectedValue.
Proof. repeat split; vm_compute; reflexivity. Qed.

(* ------------------------------------------------------------------------------------------------ *)
(* a decoded id set is canonical: it can be encoded again                                           *)
(* ------------------------------------------------------------------------------------------------ *)

Theorem decode_idrange_canon : forall fuel bs r rest,
  decode_idrange_v1 fuel bs = Ok r rest -> canon r.
Proof.
  intros fuel bs r rest H. unfold decode_idrange_v1 in H.
  apply bind_ok in H. destruct H as (len & r0 & _ & H).
  apply bind_ok in H. destruct H as (raw & r1 & _ & H).
  destruct (normalize_ranges_spec raw) as (r' & E & Hc & _). rewrite E in H. inversion H; subst. exact Hc.
Qed.
Print Assumptions decode_idrange_canon.

(* and it denotes the union of the ranges on the wire *)
Lemma ranges_loop_ok : forall fuel n bs acc raw rest,
  decode_ranges_loop fuel n bs acc = Ok raw rest ->
  exists l, raw = rev acc ++ l /\ N.of_nat (length l) = n /\ Forall (fun x => e_end x < two32) l.
Proof.
  induction fuel as [|f IH]; intros n bs acc raw rest H; rewrite decode_ranges_loop_eq in H.
  - destruct (N.eqb_spec n 0); [|discriminate]. inversion H; subst. exists []. rewrite app_nil_r. auto.
  - destruct (N.eqb_spec n 0).
    + inversion H; subst. exists []. rewrite app_nil_r. auto.
    + apply bind_ok in H. destruct H as ([s e] & r1 & Hr & H). cbn [fst snd] in H.
      apply IH in H. destruct H as (l & -> & Hn & Hl). exists ((s, e, tt) :: l).
      cbn [rev length]. rewrite <- app_assoc. split; [reflexivity|]. split; [lia|].
      constructor; [|exact Hl]. cbn [e_end fst snd].
      unfold decode_range_v1 in Hr. apply bind_ok in Hr. destruct Hr as (clock & q1 & _ & Hr).
      apply bind_ok in Hr. destruct Hr as (len & q2 & _ & Hr). unfold add32_checked in Hr.
      destruct (N.ltb_spec (clock + len) two32); [|discriminate]. inversion Hr; subst. assumption.
Qed.

Definition idset_canon (s : idset) : Prop :=
  ascb (map fst s) = true /\
  Forall (fun cr => fst cr < two53 /\ canon (snd cr) /\ snd cr <> []) s.

Lemma asc_above_im_set : forall (m : idset) lo c r,
  asc_above lo (map fst m) = true -> lo < c -> asc_above lo (map fst (im_set m c r)) = true.
Proof.
  induction m as [|[c' r'] m IH]; intros lo c r H Hlo; cbn [im_set map fst asc_above] in *.
  - rewrite andb_true_r. lia.
  - apply andb_prop in H. destruct H as [H1 H2].
    destruct (N.eqb_spec c' c) as [->|Hne]; cbn [map fst asc_above].
    + rewrite H2, andb_true_r. lia.
    + destruct (N.ltb_spec c c'); cbn [map fst asc_above].
      * rewrite H2, andb_true_r. lia.
      * rewrite IH by (try assumption; lia). rewrite andb_true_r. lia.
Qed.

Lemma ascb_im_set : forall (m : idset) c r, ascb (map fst m) = true -> ascb (map fst (im_set m c r)) = true.
Proof.
  intros [|[c' r'] m] c r H; [reflexivity|]. cbn [im_set].
  cbn [map fst ascb] in H.
  destruct (N.eqb_spec c' c) as [->|Hne]; cbn [map fst ascb]; [exact H|].
  destruct (N.ltb_spec c c'); cbn [map fst ascb asc_above].
  - rewrite H, andb_true_r. lia.
  - apply asc_above_im_set; [exact H|lia].
Qed.

Lemma Forall_im_set : forall (P : N * idrange -> Prop) (m : idset) c r,
  Forall P m -> P (c, r) -> Forall P (im_set m c r).
Proof.
  intros P. induction m as [|[c' r'] m IH]; intros c r Hm Hp; cbn [im_set]; [constructor; [exact Hp|constructor]|].
  inversion Hm; subst. destruct (c' =? c); [constructor; assumption|].
  destruct (c <? c'); [constructor; assumption|]. constructor; [assumption|]. apply IH; assumption.
Qed.

Lemma idset_loop_canon : forall fuel n bs acc s rest,
  idset_canon acc -> decode_idset_loop fuel n bs acc = Ok s rest -> idset_canon s.
Proof.
  induction fuel as [|f IH]; intros n bs acc s rest Hacc H; rewrite decode_idset_loop_eq in H.
  - destruct (n =? 0); [|discriminate]. inversion H; subst. exact Hacc.
  - destruct (n =? 0); [inversion H; subst; exact Hacc|].
    apply bind_ok in H. destruct H as (client & r1 & _ & H).
    apply bind_ok in H. destruct H as (c & r1' & Hc & H). apply client_id_new_ok in Hc. destruct Hc as (-> & -> & Hc).
    apply bind_ok in H. destruct H as (range & r3 & Hr & H). apply decode_idrange_canon in Hr.
    eapply IH; [|exact H]. destruct range as [|x range]; [exact Hacc|].
    destruct Hacc as [Ha Hf]. split; [apply ascb_im_set; exact Ha|].
    apply Forall_im_set; [exact Hf|]. cbn [fst snd]. split; [exact Hc|]. split; [exact Hr|discriminate].
Qed.

Theorem decode_idset_canon : forall fuel bs s rest,
  decode_idset_v1 fuel bs = Ok s rest ->
  ascb (map fst s) = true /\
  Forall (fun cr => fst cr < two53 /\ canon (snd cr) /\ snd cr <> []) s.
Proof.
  intros fuel bs s rest H. unfold decode_idset_v1 in H. apply bind_ok in H. destruct H as (n & r0 & _ & H).
  eapply idset_loop_canon; [|exact H]. split; [reflexivity|constructor].
Qed.
Print Assumptions decode_idset_canon.

(* ---- stronger: the decoded value satisfies wf_idrange / wf_idset, hence it round trips ---- *)

Theorem decode_idrange_spec : forall fuel bs r rest,
  decode_idrange_v1 fuel bs = Ok r rest ->
  exists raw : idrange, Forall (fun x => e_end x < two32) raw /\ canon r /\ forall k, den r k = den raw k.
Proof.
  intros fuel bs r rest H. unfold decode_idrange_v1 in H.
  apply bind_ok in H. destruct H as (len & r0 & _ & H).
  apply bind_ok in H. destruct H as (raw & r1 & Hraw & H).
  apply ranges_loop_ok in Hraw. destruct Hraw as (l & -> & _ & Hl). cbn [rev app] in *.
  destruct (normalize_ranges_spec l) as (r' & E & Hc & Hd). rewrite E in H. inversion H; subst.
  exists l. auto.
Qed.

Lemma canon_in_nonempty : forall l x, canon l -> In x l -> e_start x < e_end x.
Proof.
  induction l as [|y l IH]; intros x Hc Hin; [destruct Hin|]. cbn [canon] in Hc. destruct Hc as (H1 & _ & H3).
  destruct Hin as [->|Hin]; [exact H1|apply IH; assumption].
Qed.

Lemma canon_length_le : forall l b M, canon l -> lbw b l -> Forall (fun x => e_end x <= M) l ->
  l = [] \/ b + N.of_nat (length l) <= M.
Proof.
  induction l as [|x l IH]; intros b M Hc Hb Hf; [left; reflexivity|right].
  cbn [canon] in Hc. destruct Hc as (H1 & H2 & H3). cbn [lbw] in Hb. inversion Hf as [|? ? Hx Hl]; subst.
  destruct (IH (e_end x) M H3 (lb_ok_w _ _ H2) Hl) as [->|Hle]; cbn [length]; lia.
Qed.

Theorem decode_idrange_wf : forall fuel bs r rest,
  decode_idrange_v1 fuel bs = Ok r rest -> wf_idrange r = true.
Proof.
  intros fuel bs r rest H. apply decode_idrange_spec in H. destruct H as (raw & Hraw & Hc & Hd).
  assert (Hends : Forall (fun x => e_end x <= two32 - 1) r).
  { apply Forall_forall. intros x Hx. pose proof (canon_in_nonempty r x Hc Hx) as Hne.
    assert (Hk : den r (e_end x - 1) = true).
    { apply den_true_in. exists x. split; [exact Hx|lia]. }
    rewrite Hd in Hk. apply den_true_in in Hk. destruct Hk as (y & Hy & _ & Hlt).
    rewrite Forall_forall in Hraw. specialize (Hraw y Hy). lia. }
  unfold wf_idrange. apply andb_true_intro. split; [apply andb_true_intro; split|].
  - assert (Hb : lbw 0 r) by (destruct r; cbn; [exact I|lia]).
    destruct (canon_length_le r 0 (two32 - 1) Hc Hb Hends) as [->|Hle]; [reflexivity|]. unfold two32 in *. lia.
  - apply forallb_forall. intros x Hx. rewrite Forall_forall in Hends. specialize (Hends x Hx).
    pose proof (canon_in_nonempty r x Hc Hx). unfold wf_entry. unfold two32 in *. lia.
  - apply ranges_canonical_iff. exact Hc.
Qed.
Print Assumptions decode_idrange_wf.

Lemma length_im_set_le : forall (m : idset) c r, (length (im_set m c r) <= S (length m))%nat.
Proof.
  induction m as [|[c' r'] m IH]; intros c r; cbn [im_set length]; [lia|].
  destruct (c' =? c); cbn [length]; [lia|]. destruct (c <? c'); cbn [length]; [lia|]. specialize (IH c r). lia.
Qed.

Lemma idset_loop_wf : forall fuel n bs (acc s : idset) rest,
  Forall (fun cr => wf_idrange (snd cr) = true) acc ->
  decode_idset_loop fuel n bs acc = Ok s rest ->
  Forall (fun cr => wf_idrange (snd cr) = true) s /\ N.of_nat (length s) <= N.of_nat (length acc) + n.
Proof.
  induction fuel as [|f IH]; intros n bs acc s rest Hacc H; rewrite decode_idset_loop_eq in H.
  - destruct (n =? 0); [|discriminate]. inversion H; subst. split; [exact Hacc|lia].
  - destruct (n =? 0) eqn:En; [inversion H; subst; split; [exact Hacc|lia]|].
    apply bind_ok in H. destruct H as (client & r1 & _ & H).
    apply bind_ok in H. destruct H as (c & r1' & _ & H).
    apply bind_ok in H. destruct H as (range & r3 & Hr & H). apply decode_idrange_wf in Hr.
    apply IH in H.
    + destruct H as [H1 H2]. split; [exact H1|].
      destruct range; [lia|]. pose proof (length_im_set_le acc c (e :: range)). lia.
    + destruct range; [exact Hacc|]. apply Forall_im_set; [exact Hacc|exact Hr].
Qed.

Theorem decode_idset_wf : forall fuel bs s rest,
  decode_idset_v1 fuel bs = Ok s rest -> wf_idset s = true.
Proof.
  intros fuel bs s rest H. pose proof (decode_idset_canon _ _ _ _ H) as [Hasc Hcan].
  unfold decode_idset_v1 in H. apply bind_ok in H. destruct H as (n & r0 & Hn & H).
  apply read_var_u32_range in Hn. apply idset_loop_wf in H; [|constructor]. destruct H as [Hwf Hlen].
  unfold wf_idset. rewrite Hasc, andb_true_r. apply andb_true_intro. split; [cbn [length] in Hlen; lia|].
  apply forallb_forall. intros cr Hin. rewrite Forall_forall in Hwf, Hcan.
  destruct (Hcan cr Hin) as (Hc & _ & Hne). rewrite (Hwf cr Hin), andb_true_r.
  apply andb_true_intro. split; [lia|]. destruct (snd cr); [contradiction|reflexivity].
Qed.
Print Assumptions decode_idset_wf.

(* whatever the decoder accepts can be encoded again and decodes to the same value *)
Corollary decode_idset_reencode : forall fuel bs s rest rest',
  decode_idset_v1 fuel bs = Ok s rest ->
  decode_idset_v1 (idset_fuel s) (encode_idset_v1 s ++ rest') = Ok s rest'.
Proof. intros fuel bs s rest rest' H. apply idset_roundtrip; [eapply decode_idset_wf; exact H|lia]. Qed.
Print Assumptions decode_idset_reencode.

(* what the strengthened predicates exclude does not round trip: the decoder normalises unsorted, touching
   and empty ranges, and drops a client whose range list is empty *)
Example idrange_normalised_example :
  let r := [(3, 5, tt); (0, 3, tt); (7, 7, tt); (9, 12, tt); (10, 11, tt)] in
  wf_idrange r = false /\
  decode_idrange_v1 (S (length r)) (encode_idrange_v1 r) = Ok [(0, 5, tt); (9, 12, tt)] [].
Proof. split; vm_compute; reflexivity. Qed.

Example idset_empty_client_dropped_example :
  let s := [(5, []); (9, [(1, 2, tt)])] in
  wf_idset s = false /\ decode_idset_v1 (S (idset_fuel s)) (encode_idset_v1 s) = Ok [(9, [(1, 2, tt)])] [].
Proof. split; vm_compute; reflexivity. Qed.

(* ---- the same for state vectors and snapshots ---- *)

Lemma existsb_sv_set : forall (acc : sv) c k x, x <> c ->
  existsb (N.eqb x) (map fst (sv_set acc c k)) = existsb (N.eqb x) (map fst acc).
Proof.
  induction acc as [|[c' k'] acc IH]; intros c k x Hx; cbn [sv_set map fst existsb].
  - replace (x =? c) with false by lia. reflexivity.
  - destruct (N.eqb_spec c' c) as [->|Hne]; cbn [map fst existsb]; [reflexivity|].
    rewrite IH by exact Hx. reflexivity.
Qed.

Lemma nodupb_sv_set : forall (acc : sv) c k,
  nodupb (map fst acc) = true -> nodupb (map fst (sv_set acc c k)) = true.
Proof.
  induction acc as [|[c' k'] acc IH]; intros c k H; cbn [sv_set map fst nodupb] in *; [reflexivity|].
  apply andb_prop in H. destruct H as [H1 H2].
  destruct (N.eqb_spec c' c) as [->|Hne]; cbn [map fst nodupb].
  - rewrite H1, H2. reflexivity.
  - rewrite existsb_sv_set by exact Hne. rewrite H1, IH by exact H2. reflexivity.
Qed.

Lemma length_sv_set_le : forall (acc : sv) c k, (length (sv_set acc c k) <= S (length acc))%nat.
Proof.
  induction acc as [|[c' k'] acc IH]; intros c k; cbn [sv_set length]; [lia|].
  destruct (c' =? c); cbn [length]; [lia|]. specialize (IH c k). lia.
Qed.

Lemma Forall_sv_set : forall (P : N * N -> Prop) (acc : sv) c k,
  Forall P acc -> P (c, k) -> Forall P (sv_set acc c k).
Proof.
  intros P. induction acc as [|[c' k'] acc IH]; intros c k Ha Hp; cbn [sv_set]; [constructor; [exact Hp|constructor]|].
  inversion Ha; subst. destruct (c' =? c); constructor; try assumption. apply IH; assumption.
Qed.

Lemma sv_loop_wf : forall fuel n bs (acc s : sv) rest,
  nodupb (map fst acc) = true -> Forall (fun ck => fst ck < two53 /\ snd ck < two32) acc ->
  decode_sv_loop fuel n bs acc = Ok s rest ->
  nodupb (map fst s) = true /\ Forall (fun ck => fst ck < two53 /\ snd ck < two32) s /\
  N.of_nat (length s) <= N.of_nat (length acc) + n.
Proof.
  induction fuel as [|f IH]; intros n bs acc s rest Hnd Hacc H; rewrite decode_sv_loop_eq in H.
  - destruct (n =? 0); [|discriminate]. inversion H; subst. repeat split; try assumption. lia.
  - destruct (n =? 0) eqn:En; [inversion H; subst; repeat split; try assumption; lia|].
    apply bind_ok in H. destruct H as (client & r1 & _ & H).
    apply bind_ok in H. destruct H as (c & r1' & Hc & H). apply client_id_new_ok in Hc. destruct Hc as (-> & -> & Hc).
    apply bind_ok in H. destruct H as (clock & r3 & Hk & H). apply read_var_u32_range in Hk.
    apply IH in H.
    + destruct H as (H1 & H2 & H3). repeat split; try assumption.
      pose proof (length_sv_set_le acc client clock). lia.
    + apply nodupb_sv_set. exact Hnd.
    + apply Forall_sv_set; [exact Hacc|]. cbn [fst snd]. split; assumption.
Qed.

Theorem decode_sv_wf : forall fuel bs s rest, decode_sv_v1 fuel bs = Ok s rest -> wf_sv s = true.
Proof.
  intros fuel bs s rest H. unfold decode_sv_v1 in H. apply bind_ok in H. destruct H as (n & r0 & Hn & H).
  apply read_var_u32_range in Hn. apply sv_loop_wf in H; [|reflexivity|constructor].
  destruct H as (H1 & H2 & H3). unfold wf_sv. rewrite H1, andb_true_r. apply andb_true_intro.
  split; [cbn [length] in H3; lia|]. apply forallb_forall. intros ck Hin. rewrite Forall_forall in H2.
  specialize (H2 ck Hin). lia.
Qed.
Print Assumptions decode_sv_wf.

Theorem decode_snapshot_wf : forall fuel bs x rest,
  decode_snapshot_v1 fuel bs = Ok x rest -> wf_snapshot x = true.
Proof.
  intros fuel bs x rest H. unfold decode_snapshot_v1 in H.
  apply bind_ok in H. destruct H as (ds & r1 & Hd & H). apply bind_ok in H. destruct H as (s & r2 & Hs & H).
  inversion H; subst. unfold wf_snapshot. cbn [fst snd].
  rewrite (decode_idset_wf _ _ _ _ Hd), (decode_sv_wf _ _ _ _ Hs). reflexivity.
Qed.
Print Assumptions decode_snapshot_wf.

Corollary decode_snapshot_reencode : forall fuel bs x rest rest',
  decode_snapshot_v1 fuel bs = Ok x rest ->
  decode_snapshot_v1 (snapshot_fuel x) (encode_snapshot_v1 x ++ rest') = Ok x rest'.
Proof. intros fuel bs x rest rest' H. apply snapshot_roundtrip; [eapply decode_snapshot_wf; exact H|lia]. Qed.

(* ------------------------------------------------------------------------------------------------ *)
(* ids (shared by sticky indexes and updates)                                                       *)
(* ------------------------------------------------------------------------------------------------ *)

Definition wf_id (i : id) : bool := (cl i <? two53) && (ck i <? two32).
(* wf_str / wf_bin / str_roundtrip: Codec/VarintProofs.v (strings must be well-formed UTF-8) *)

Lemma id_roundtrip : forall i rest, wf_id i = true -> read_id_v1 (write_id_v1 i ++ rest) = Ok i rest.
Proof.
  intros [c k] rest Hwf. unfold wf_id in Hwf. cbn [cl ck] in Hwf. apply andb_prop in Hwf. destruct Hwf as [Hc Hk].
  unfold read_id_v1, write_id_v1. cbn [cl ck]. rewrite <- app_assoc.
  rewrite var_u64_roundtrip by (unfold two53, two64 in *; lia). cbn [bind].
  rewrite var_u32_roundtrip by lia. cbn [bind]. unfold client_id_new. rewrite Hc. reflexivity.
Qed.
Print Assumptions id_roundtrip.

Theorem read_id_v1_shrinks : forall bs i rest, read_id_v1 bs = Ok i rest -> (length rest < length bs)%nat.
Proof.
  intros bs i rest H. pose proof (bnd_read_id bs) as Hb. rewrite H in Hb. exact Hb.
Qed.
Print Assumptions read_id_v1_shrinks.

Theorem read_id_v1_total : forall bs,
  match read_id_v1 bs with Panic _ | Fuel => False | _ => True end.
Proof.
  intro bs. pose proof (bnd_read_id bs) as Hb. destruct (read_id_v1 bs); cbn in *; auto.
Qed.
Print Assumptions read_id_v1_total.

(* ------------------------------------------------------------------------------------------------ *)
(* A3. sticky index round trip                                                                      *)
(* ------------------------------------------------------------------------------------------------ *)

Definition wf_scope (s : scope) : bool :=
  match s with SRoot n => wf_str n | SNested i | SRelative i => wf_id i end.

Lemma var_u8_roundtrip : forall t rest, t < 256 -> read_var_u8 (write_var_u32 t ++ rest) = Ok t rest.
Proof.
  intros t rest Ht. unfold read_var_u8. rewrite var_u32_roundtrip by (unfold two32; lia). cbn [bind].
  replace (t <? 256) with true by lia. reflexivity.
Qed.

(* below 128 the varint is the byte itself (Message::Custom writes its tag with write_u8) *)
Lemma write_var_u32_small : forall t, t < 128 -> write_var_u32 t = [t].
Proof. intros t Ht. unfold write_var_u32. cbn [write_var_fuel]. replace (t <? 128) with true by lia. reflexivity. Qed.

Lemma index_scope_roundtrip : forall s rest, wf_scope s = true ->
  decode_index_scope (encode_index_scope s ++ rest) = Ok s rest.
Proof.
  intros [n|i|i] rest Hwf; cbn [wf_scope encode_index_scope] in *; unfold decode_index_scope, rmap;
    rewrite <- app_assoc; rewrite var_u8_roundtrip by reflexivity; cbn [bind].
  - change (1 =? 0) with false. change (1 =? 1) with true. cbv iota.
    rewrite str_roundtrip by exact Hwf. reflexivity.
  - change (2 =? 0) with false. change (2 =? 1) with false. change (2 =? 2) with true. cbv iota.
    change (write_var_u64 (cl i) ++ write_var_u32 (ck i)) with (write_id_v1 i).
    rewrite id_roundtrip by exact Hwf. reflexivity.
  - change (0 =? 0) with true. cbv iota.
    change (write_var_u64 (cl i) ++ write_var_u32 (ck i)) with (write_id_v1 i).
    rewrite id_roundtrip by exact Hwf. reflexivity.
Qed.

Lemma assoc_roundtrip : forall a rest, decode_assoc (encode_assoc a ++ rest) = Ok a rest.
Proof.
  intros a rest. unfold decode_assoc, encode_assoc.
  destruct (var_i64_roundtrip (if a then 0%Z else (-1)%Z) rest) as (bs & Hw & Hr).
  { destruct a; unfold two63; lia. }
  rewrite Hw, Hr. cbn [bind]. destruct a; reflexivity.
Qed.

Definition wf_sticky (x : scope * bool) : bool := wf_scope (fst x).

Theorem sticky_roundtrip : forall x rest, wf_sticky x = true ->
  decode_sticky (encode_sticky x ++ rest) = Ok x rest.
Proof.
  intros [s a] rest Hwf. unfold wf_sticky in Hwf. cbn [fst] in Hwf.
  unfold decode_sticky, encode_sticky. cbn [fst snd]. rewrite <- app_assoc.
  rewrite index_scope_roundtrip by exact Hwf. cbn [bind]. rewrite assoc_roundtrip. reflexivity.
Qed.
Print Assumptions sticky_roundtrip.

(* ------------------------------------------------------------------------------------------------ *)
(* A4. awareness / sync messages round trip                                                         *)
(* ------------------------------------------------------------------------------------------------ *)

Definition wf_aw_entry (e : aw_entry) : bool :=
  (fst e <? two53) && (fst (snd e) <? two32) && wf_str (snd (snd e)).
Definition wf_awareness (l : list aw_entry) : bool :=
  (N.of_nat (length l) <? two64) && forallb wf_aw_entry l && nodupb (map fst l).

Lemma aw_set_append : forall (acc : list aw_entry) c k j,
  (forall c', In c' (map fst acc) -> c' <> c) -> aw_set acc c k j = acc ++ [(c, (k, j))].
Proof.
  induction acc as [|[c0 v0] acc IH]; intros c k j H; cbn [aw_set app]; [reflexivity|].
  assert (c0 <> c) by (apply H; left; reflexivity).
  replace (c0 =? c) with false by lia.
  rewrite IH; [reflexivity|]. intros c' Hin. apply H. right. exact Hin.
Qed.

Definition enc_aw_entry (e : aw_entry) : list N :=
  write_var_u64 (fst e) ++ write_var_u32 (fst (snd e)) ++ write_string (snd (snd e)).

Lemma aw_loop_roundtrip : forall l fuel acc rest,
  (length l <= fuel)%nat -> forallb wf_aw_entry l = true -> nodupb (map fst l) = true ->
  (forall c' x, In c' (map fst acc) -> In x (map fst l) -> c' <> x) ->
  decode_aw_loop fuel (N.of_nat (length l)) (flat_map enc_aw_entry l ++ rest) acc = Ok (acc ++ l) rest.
Proof.
  induction l as [|[c [k j]] l IH]; intros fuel acc rest Hf Hwf Hnd Hacc; rewrite decode_aw_loop_eq.
  - cbn [length flat_map app]. change (N.of_nat 0 =? 0) with true. cbv iota. rewrite app_nil_r. reflexivity.
  - cbn [length] in *. rewrite of_nat_S_eqb0, of_nat_S_pred. destruct fuel as [|f]; [lia|].
    cbn [forallb] in Hwf. apply andb_prop in Hwf. destruct Hwf as [Hx Hs].
    unfold wf_aw_entry in Hx. cbn [fst snd] in Hx.
    apply andb_prop in Hx. destruct Hx as [Hx Hj]. apply andb_prop in Hx. destruct Hx as [Hc Hk].
    cbn [flat_map]. unfold enc_aw_entry at 1. cbn [fst snd]. rewrite <- !app_assoc.
    rewrite var_u64_roundtrip by (unfold two53, two64 in *; lia). cbn [bind].
    unfold client_id_new. rewrite Hc. cbn [bind].
    rewrite var_u32_roundtrip by lia. cbn [bind].
    rewrite str_roundtrip by exact Hj. cbn [bind].
    cbn [map fst nodupb] in Hnd. apply andb_prop in Hnd. destruct Hnd as [Hnin Hnd].
    apply negb_true_iff in Hnin.
    rewrite aw_set_append.
    2:{ intros c' Hin. apply Hacc; [exact Hin|]. left. reflexivity. }
    rewrite IH; try assumption; try lia.
    + rewrite <- app_assoc. reflexivity.
    + intros c' x Hin Hx. rewrite map_app in Hin. apply in_app_or in Hin. destruct Hin as [Hin|Hin].
      * apply Hacc; [exact Hin|]. right. exact Hx.
      * cbn [map fst In] in Hin. destruct Hin as [<-|[]]. eapply existsb_eqb_false; eassumption.
Qed.

Theorem awareness_roundtrip : forall l fuel rest,
  wf_awareness l = true -> (length l <= fuel)%nat ->
  decode_awareness fuel (encode_awareness l ++ rest) = Ok l rest.
Proof.
  intros l fuel rest Hwf Hf. unfold wf_awareness in Hwf. apply andb_prop in Hwf. destruct Hwf as [Hwf Hnd].
  apply andb_prop in Hwf. destruct Hwf as [Hl Hs].
  unfold decode_awareness, encode_awareness, read_var_usize, write_var_usize. rewrite <- app_assoc.
  rewrite var_u64_roundtrip by lia. cbn [bind].
  change (fun e : aw_entry => write_var_u64 (fst e) ++ write_var_u32 (fst (snd e)) ++ write_string (snd (snd e)))
    with enc_aw_entry.
  apply aw_loop_roundtrip; try assumption. intros c' x [].
Qed.
Print Assumptions awareness_roundtrip.

(* a payload that travels inside write_buf must itself fit a u32 length *)
Definition wf_payload (b : list N) : bool := N.of_nat (length b) <? two32.

Definition wf_sync_msg (m : sync_msg) : bool :=
  match m with
  | SyncStep1 v => wf_sv v && wf_payload (encode_sv_v1 v)
  | SyncStep2 u | SyncUpdate u => wf_payload u
  end.
Definition sync_msg_fuel (m : sync_msg) : nat :=
  match m with SyncStep1 v => length v | _ => 0%nat end.

Theorem sync_msg_roundtrip : forall m fuel rest,
  wf_sync_msg m = true -> (sync_msg_fuel m <= fuel)%nat ->
  decode_sync_msg fuel (encode_sync_msg m ++ rest) = Ok m rest.
Proof.
  intros m fuel rest Hwf Hf.
  destruct m as [v|u|u]; cbn [wf_sync_msg sync_msg_fuel encode_sync_msg] in *; unfold wf_payload in *;
    unfold decode_sync_msg, rmap;
    rewrite <- app_assoc; rewrite var_u8_roundtrip by reflexivity; cbn [bind].
  - apply andb_prop in Hwf. destruct Hwf as [Hv Hl].
    change (C_MSG_SYNC_STEP_1 =? C_MSG_SYNC_STEP_1) with true. cbv iota.
    rewrite buf_roundtrip by lia. cbn [bind].
    rewrite <- (app_nil_r (encode_sv_v1 v)). rewrite sv_roundtrip by assumption. reflexivity.
  - change (C_MSG_SYNC_STEP_2 =? C_MSG_SYNC_STEP_1) with false.
    change (C_MSG_SYNC_STEP_2 =? C_MSG_SYNC_STEP_2) with true. cbv iota.
    rewrite buf_roundtrip by lia. reflexivity.
  - change (C_MSG_SYNC_UPDATE =? C_MSG_SYNC_STEP_1) with false.
    change (C_MSG_SYNC_UPDATE =? C_MSG_SYNC_STEP_2) with false.
    change (C_MSG_SYNC_UPDATE =? C_MSG_SYNC_UPDATE) with true. cbv iota.
    rewrite buf_roundtrip by lia. reflexivity.
Qed.
Print Assumptions sync_msg_roundtrip.

Definition wf_message (m : message) : bool :=
  match m with
  | MSync s => wf_sync_msg s
  | MAuth (Some r) => wf_str r
  | MAuth None => true
  | MAwarenessQuery => true
  | MAwareness a => wf_awareness a && wf_payload (encode_awareness a)
  | MCustom tag data => (4 <=? tag) && (tag <? 256) && wf_payload data
  end.
Definition message_fuel (m : message) : nat :=
  match m with MSync s => sync_msg_fuel s | MAwareness a => length a | _ => 0%nat end.

Theorem message_roundtrip : forall m fuel rest,
  wf_message m = true -> (message_fuel m <= fuel)%nat ->
  decode_message fuel (encode_message m ++ rest) = Ok m rest.
Proof.
  intros m fuel rest Hwf Hf.
  destruct m as [s|[r|]| |a|tag data]; cbn [wf_message message_fuel encode_message] in *; unfold wf_payload in *;
    unfold decode_message, rmap; rewrite <- ?app_assoc.
  - rewrite var_u8_roundtrip by reflexivity. cbn [bind].
    change (C_MSG_SYNC =? C_MSG_SYNC) with true. cbv iota.
    rewrite sync_msg_roundtrip by assumption. reflexivity.
  - rewrite var_u8_roundtrip by reflexivity. cbn [bind].
    change (C_MSG_AUTH =? C_MSG_SYNC) with false. change (C_MSG_AUTH =? C_MSG_AWARENESS) with false.
    change (C_MSG_AUTH =? C_MSG_AUTH) with true. cbv iota.
    rewrite var_u8_roundtrip by reflexivity. cbn [bind].
    change (C_PERMISSION_DENIED =? C_PERMISSION_DENIED) with true. cbv iota.
    rewrite str_roundtrip by exact Hwf. reflexivity.
  - rewrite var_u8_roundtrip by reflexivity. cbn [bind].
    change (C_MSG_AUTH =? C_MSG_SYNC) with false. change (C_MSG_AUTH =? C_MSG_AWARENESS) with false.
    change (C_MSG_AUTH =? C_MSG_AUTH) with true. cbv iota.
    rewrite <- (app_nil_r (write_var_u32 C_PERMISSION_GRANTED)), <- app_assoc.
    rewrite var_u8_roundtrip by reflexivity. cbn [bind app].
    change (C_PERMISSION_GRANTED =? C_PERMISSION_DENIED) with false. reflexivity.
  - rewrite <- (app_nil_r (write_var_u32 C_MSG_QUERY_AWARENESS)), <- app_assoc.
    rewrite var_u8_roundtrip by reflexivity. cbn [bind app]. reflexivity.
  - apply andb_prop in Hwf. destruct Hwf as [Ha Hl].
    rewrite var_u8_roundtrip by reflexivity. cbn [bind].
    change (C_MSG_AWARENESS =? C_MSG_SYNC) with false. change (C_MSG_AWARENESS =? C_MSG_AWARENESS) with true.
    cbv iota. rewrite buf_roundtrip by lia. cbn [bind].
    rewrite <- (app_nil_r (encode_awareness a)). rewrite awareness_roundtrip by assumption. reflexivity.
  - apply andb_prop in Hwf. destruct Hwf as [Ht Hl]. apply andb_prop in Ht. destruct Ht as [Ht1 Ht2].
    rewrite var_u8_roundtrip by lia. cbn [bind].
    replace (tag =? C_MSG_SYNC) with false by (unfold C_MSG_SYNC; lia).
    replace (tag =? C_MSG_AWARENESS) with false by (unfold C_MSG_AWARENESS; lia).
    replace (tag =? C_MSG_AUTH) with false by (unfold C_MSG_AUTH; lia).
    replace (tag =? C_MSG_QUERY_AWARENESS) with false by (unfold C_MSG_QUERY_AWARENESS; lia).
    rewrite buf_roundtrip by lia. reflexivity.
Qed.
Print Assumptions message_roundtrip.

(* ------------------------------------------------------------------------------------------------ *)
(* B8. totality of the sticky index / awareness / message decoders                                  *)
(* ------------------------------------------------------------------------------------------------ *)

Theorem read_buf_value_shrinks : forall bs b rest,
  read_buf bs = Ok b rest -> (length b + length rest < length bs)%nat.
Proof.
  intros bs b rest H. unfold read_buf in H.
  destruct (read_var_u32 bs) as [len r| | |] eqn:E; cbn [bind] in H; try discriminate.
  apply read_var_u32_shrinks in E. apply read_exact_shrinks in H. destruct H as (_ & _ & ->).
  rewrite app_length in E. exact E.
Qed.
Print Assumptions read_buf_value_shrinks.

Theorem decode_sticky_total : forall bs,
  match decode_sticky bs with
  | Ok _ rest => (length rest < length bs)%nat
  | Err _ => True
  | Panic _ => False
  | Fuel => False
  end.
Proof.
  intro bs. change (bnd (length bs) (decode_sticky bs)). unfold decode_sticky.
  eapply (bnd_bind _ _ (length bs)).
  - unfold decode_index_scope. eapply bnd_bind; [apply bnd_read_var_u8|]. intros tag r0 H0.
    eapply (bnd_le _ (length r0)); [lia|].
    destruct (tag =? 0); [apply bnd_rmap, bnd_read_id|].
    destruct (tag =? 1); [apply bnd_rmap, bnd_read_string|].
    destruct (tag =? 2); [apply bnd_rmap, bnd_read_id|exact I].
  - intros s r1 H1. eapply (bnd_bind _ _ (length r1)).
    + unfold decode_assoc. eapply bnd_bind.
      * apply bnd_read_var_i64.
      * intros z rest Hz. destruct ((z <? -128)%Z || (127 <? z)%Z); cbn [bnd]; [exact I|exact Hz].
    + intros a r2 H2. cbn [bnd]. lia.
Qed.
Print Assumptions decode_sticky_total.

(* the former panic inputs: client id 2^53 is an error; the signed reader wraps, and the Assoc conversion
   to i8 accepts 0 / rejects i64::MIN *)
Definition sticky_client_id_witness : list N := [0; 128; 128; 128; 128; 128; 128; 128; 16; 0].
Definition sticky_shl_witness : list N := [1; 0] ++ shl_i64_witness.
Definition sticky_neg_witness : list N := [1; 0] ++ neg_i64_witness.

Example decode_sticky_former_witnesses :
  decode_sticky sticky_client_id_witness = Err UnexpectedValue /\
  decode_sticky sticky_shl_witness = Ok (SRoot [], true) [] /\
  decode_sticky sticky_neg_witness = Err InvalidVarInt.
Proof. repeat split; vm_compute; reflexivity. Qed.

Lemma bnd_aw_loop : forall fuel n bs acc, (length bs < fuel)%nat ->
  bnd (S (length bs)) (decode_aw_loop fuel n bs acc).
Proof.
  induction fuel as [|f IH]; intros n bs acc Hl; [lia|]. rewrite decode_aw_loop_eq.
  destruct (n =? 0); [cbn; lia|].
  eapply bnd_bind; [apply bnd_read_var_u64|]. intros c0 r1 H1.
  eapply bnd_bind; [apply bnd_client_id_new|]. intros c r1' H1'.
  eapply bnd_bind; [apply bnd_read_var_u32|]. intros k r2 H2.
  eapply bnd_bind; [apply bnd_read_string|]. intros j r3 H3.
  eapply bnd_le; [|apply IH]; lia.
Qed.

Lemma bnd_decode_awareness : forall fuel bs, (length bs < fuel)%nat ->
  bnd (length bs) (decode_awareness fuel bs).
Proof.
  intros fuel bs Hl. unfold decode_awareness, read_var_usize. eapply bnd_bind; [apply bnd_read_var_u64|].
  intros n rest Hr. eapply bnd_le; [|apply bnd_aw_loop]; lia.
Qed.

Theorem decode_awareness_total : forall fuel bs, (length bs < fuel)%nat ->
  match decode_awareness fuel bs with
  | Ok _ rest => (length rest < length bs)%nat
  | Err _ => True
  | Panic _ => False
  | Fuel => False
  end.
Proof. exact bnd_decode_awareness. Qed.
Print Assumptions decode_awareness_total.

Lemma bnd_decode_sync_msg : forall fuel bs, (length bs < fuel)%nat ->
  bnd (length bs) (decode_sync_msg fuel bs).
Proof.
  intros fuel bs Hl. unfold decode_sync_msg. eapply bnd_bind; [apply bnd_read_var_u8|]. intros tag r0 H0.
  eapply (bnd_le _ (length r0)); [lia|].
  destruct (tag =? C_MSG_SYNC_STEP_1).
  - destruct (read_buf r0) as [b r1| | |] eqn:E; cbn [bind].
    + pose proof (read_buf_value_shrinks _ _ _ E) as Hb.
      pose proof (bnd_decode_sv fuel b) as Hs.
      destruct (decode_sv_v1 fuel b); cbn [bnd] in *; try (apply Hs; lia). lia.
    + exact I.
    + pose proof (read_buf_total r0) as Ht. rewrite E in Ht. destruct Ht.
    + pose proof (read_buf_total r0) as Ht. rewrite E in Ht. destruct Ht.
  - destruct (tag =? C_MSG_SYNC_STEP_2); [apply bnd_rmap, bnd_read_buf|].
    destruct (tag =? C_MSG_SYNC_UPDATE); [apply bnd_rmap, bnd_read_buf|exact I].
Qed.

Theorem decode_sync_msg_total : forall fuel bs, (length bs < fuel)%nat ->
  match decode_sync_msg fuel bs with
  | Ok _ rest => (length rest < length bs)%nat
  | Err _ => True
  | Panic _ => False
  | Fuel => False
  end.
Proof. exact bnd_decode_sync_msg. Qed.
Print Assumptions decode_sync_msg_total.

Lemma bnd_decode_message : forall fuel bs, (length bs < fuel)%nat ->
  bnd (length bs) (decode_message fuel bs).
Proof.
  intros fuel bs Hl. unfold decode_message. eapply bnd_bind; [apply bnd_read_var_u8|]. intros tag r0 H0.
  eapply (bnd_le _ (S (length r0))); [lia|].
  destruct (tag =? C_MSG_SYNC).
  { apply bnd_rmap. eapply bnd_le; [|apply bnd_decode_sync_msg]; lia. }
  destruct (tag =? C_MSG_AWARENESS).
  { destruct (read_buf r0) as [b r1| | |] eqn:E; cbn [bind].
    + pose proof (read_buf_value_shrinks _ _ _ E) as Hb.
      pose proof (bnd_decode_awareness fuel b) as Hs.
      destruct (decode_awareness fuel b); cbn [bnd] in *; try (apply Hs; lia). lia.
    + exact I.
    + pose proof (read_buf_total r0) as Ht. rewrite E in Ht. destruct Ht.
    + pose proof (read_buf_total r0) as Ht. rewrite E in Ht. destruct Ht. }
  destruct (tag =? C_MSG_AUTH).
  { eapply bnd_bind; [apply bnd_read_var_u8|]. intros p r1 H1.
    destruct (p =? C_PERMISSION_DENIED); [|cbn [bnd]; lia].
    apply bnd_rmap. eapply bnd_le; [|apply bnd_read_string]. lia. }
  destruct (tag =? C_MSG_QUERY_AWARENESS); [cbn [bnd]; lia|].
  apply bnd_rmap. eapply bnd_le; [|apply bnd_read_buf]. lia.
Qed.

(* Ok may leave the whole tail (MAwarenessQuery has no body): the bound is on the input, tag included *)
Theorem decode_message_total : forall fuel bs, (length bs < fuel)%nat ->
  match decode_message fuel bs with
  | Ok _ rest => (length rest < length bs)%nat
  | Err _ => True
  | Panic _ => False
  | Fuel => False
  end.
Proof. exact bnd_decode_message. Qed.
Print Assumptions decode_message_total.

(* the former panic inputs (client id 2^53 inside a state vector / an awareness update) are errors now *)
Definition awareness_client_id_witness : list N := [1; 128; 128; 128; 128; 128; 128; 128; 16].
Definition sync_msg_client_id_witness : list N := [0; 10; 1; 128; 128; 128; 128; 128; 128; 128; 16; 0].
Definition message_sync_client_id_witness : list N := 0 :: sync_msg_client_id_witness.
Definition message_awareness_client_id_witness : list N := [1; 9; 1; 128; 128; 128; 128; 128; 128; 128; 16].

Example decode_message_former_witnesses :
  decode_awareness (S (length awareness_client_id_witness)) awareness_client_id_witness = Err UnexpectedValue /\
  decode_sync_msg (S (length sync_msg_client_id_witness)) sync_msg_client_id_witness = Err UnexpectedValue /\
  decode_message (S (length message_sync_client_id_witness)) message_sync_client_id_witness = Err UnexpectedValue /\
  decode_message (S (length message_awareness_client_id_witness)) message_awareness_client_id_witness
    = Err UnexpectedValue.
Proof. repeat split; vm_compute; reflexivity. Qed.

(* ------------------------------------------------------------------------------------------------ *)
(* remarks                                                                                          *)
(* ------------------------------------------------------------------------------------------------ *)

(* Message::Custom writes its tag with write_u8 while the reader uses read_var::<u8>: the model's
   encode_message uses write_var_u32, which agrees with write_u8 only below 128 (write_var_u32_small).
   With the raw byte of a tag >= 128 on the wire the reader takes it for a continuation byte:
   the raw encodings of MCustom 200 [7] and MCustom 200 [0] decode to an error / to another message. *)
Theorem custom_tag_raw_byte_refuted :
  decode_message 10 ([200] ++ write_buf [7]) = Err EndOfBuffer /\
  decode_message 10 ([200] ++ write_buf [0]) = Ok (MCustom 200 []) [].
Proof. split; vm_compute; reflexivity. Qed.
Print Assumptions custom_tag_raw_byte_refuted.

(* the well-formedness predicates are inhabited: a concrete snapshot and message *)
Example snapshot_roundtrip_example :
  let x := ([(5, [(0, 1, tt); (3, 4, tt)]); (9, [(1, 2, tt)])], [(7, 3); (2, 4294967295)]) in
  wf_snapshot x = true /\ decode_snapshot_v1 (snapshot_fuel x) (encode_snapshot_v1 x) = Ok x [].
Proof. split; vm_compute; reflexivity. Qed.

Example message_roundtrip_example :
  let m := MSync (SyncStep1 [(7, 3); (2, 9)]) in
  wf_message m = true /\ decode_message (message_fuel m) (encode_message m) = Ok m [].
Proof. split; vm_compute; reflexivity. Qed.
