(* lib0 variable length integers: yrs/src/encoding/varint.rs, read.rs, write.rs *)
From Coq Require Import List NArith ZArith Bool.
From YV Require Import Gen.Consts Lib.Bytes.
Import ListNotations.
Open Scope N_scope.

(* ---- write_var_u32 / write_var_u64 (same loop; the type only bounds the value) ---- *)
Fixpoint write_var_fuel (fuel : nat) (v : N) : list N :=
  match fuel with
  | O => [v mod 128]
  | S f => if v <? 128 then [v] else (v mod 128 + 128) :: write_var_fuel f (v / 128)
  end.
Definition write_var_u64 (v : N) : list N := write_var_fuel 9 v.   (* 10 groups of 7 bits cover 64 bits *)
Definition write_var_u32 (v : N) : list N := write_var_fuel 4 v.   (* 5 groups cover 32 bits *)

(* ---- read_var_u64 / read_var_u32: recursion on the input ---- *)
Fixpoint read_var_loop (shl : N -> N -> N) (limit : N) (bs : list N) (num len : N) : res N :=
  match bs with
  | [] => Err EndOfBuffer
  | r :: rest =>
    let num' := N.lor num (shl (r mod 128) len) in
    let len' := len + 7 in
    if r <? 128 then Ok num' rest
    else if limit <? len' then Err InvalidVarInt
    else read_var_loop shl limit rest num' len'
  end.
Definition read_var_u64 (bs : list N) : res N := read_var_loop wshl64 VARINT_LIMIT_READ_VAR_U64 bs 0 0.
Definition read_var_u32 (bs : list N) : res N := read_var_loop wshl32 VARINT_LIMIT_READ_VAR_U32 bs 0 0.
(* usize on a 64-bit target *)
Definition read_var_usize := read_var_u64.
Definition write_var_usize := write_var_u64.

(* u8 / u16: read_var_u32 then try_into *)
Definition read_var_u8 (bs : list N) : res N :=
  let* (v, rest) := read_var_u32 bs in if v <? 256 then Ok v rest else Err InvalidVarInt.

(* ---- signed: write_var_i64 ---- *)
Fixpoint write_var_i64_tail (fuel : nat) (v : N) : list N :=
  match fuel with
  | O => []
  | S f => if v =? 0 then [] else ((if 127 <? v then 128 else 0) + v mod 128) :: write_var_i64_tail f (v / 128)
  end.
(* value given as sign + magnitude; i64::MIN (magnitude 2^63, negative) makes `-value` overflow *)
Definition write_var_i64 (z : Z) : option (list N) :=
  if (z <? - Z.of_N two63 + 1)%Z then None (* i64::MIN: `-value` panics; smaller values are not i64 *)
  else
    let neg := (z <? 0)%Z in
    let v := Z.to_N (Z.abs z) in
    Some (((if 63 <? v then 128 else 0) + (if neg then 64 else 0) + v mod 64) :: write_var_i64_tail 10 (v / 64)).

(* ---- read_var_i64 / read_signed: `num` is the i64 bit pattern (an N below 2^64) ---- *)
(* i64::wrapping_shl: the shift amount is masked to 6 bits, the result truncated to 64 bits *)
Definition shl_i64_checked (x len : N) : option N := Some ((N.shiftl x (len mod 64)) mod two64).

Fixpoint read_var_i64_loop (limit : N) (bs : list N) (num len : N) (neg : bool) : res (N * bool) :=
  match bs with
  | [] => Err EndOfBuffer
  | r :: rest =>
    match shl_i64_checked (r mod 128) len with
    | None => Panic P_SHL_I64
    | Some sh =>
      let num' := N.lor num sh in
      let len' := len + 7 in
      if r <? 128 then Ok (num', neg) rest
      else if limit <? len' then Err InvalidVarInt
      else read_var_i64_loop limit rest num' len' neg
    end
  end.

(* interpret a 64-bit pattern as i64, negate when flagged; `-num` panics on i64::MIN *)
(* wrapping_neg: i64::MIN negates to itself *)
Definition finish_i64 (pat : N) (neg : bool) : option Z :=
  let z := if pat <? two63 then Z.of_N pat else (Z.of_N pat - Z.of_N two64)%Z in
  if neg then (if pat =? two63 then Some z else Some (- z)%Z) else Some z.

Definition read_var_i64_gen (limit : N) (bs : list N) : res (Z * bool) :=
  match bs with
  | [] => Err EndOfBuffer
  | r :: rest =>
    let num := r mod 64 in
    let neg := 64 <=? (r mod 128) in
    let* (pn, rest') := (if r <? 128 then Ok (num, neg) rest else read_var_i64_loop limit rest num 6 neg) in
    match finish_i64 (fst pn) (snd pn) with
    | Some z => Ok (z, snd pn) rest'
    | None => Panic P_NEG_I64
    end
  end.
Definition read_var_i64 (bs : list N) : res Z := rmap fst (read_var_i64_gen VARINT_LIMIT_READ_VAR_I64 bs).
(* Signed<i64>: value and the sign flag (distinguishes -0) *)
Definition read_signed (bs : list N) : res (Z * bool) := read_var_i64_gen VARINT_LIMIT_READ_SIGNED bs.

(* ---- buffers and strings ---- *)
Definition write_buf (b : list N) : list N := write_var_usize (N.of_nat (length b)) ++ b.
Definition read_buf (bs : list N) : res (list N) :=
  let* (len, rest) := read_var_u32 bs in read_exact len rest.
Definition write_string := write_buf.
(* read_string: read_buf + std::str::from_utf8 *)
Definition read_string (bs : list N) : res (list N) :=
  let* (s, rest) := read_buf bs in
  if utf8_valid s then Ok s rest else Err UnexpectedValue.
