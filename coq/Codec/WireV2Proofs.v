(* Round trip, totality and v1 / v2 agreement for the lib0 v2 forms of IdSet, StateVector, Snapshot and StickyIndex
   (WireV2.v).  The well-formedness predicates are exactly those of the v1 round-trip theorems
   (Codec/FramingProofs.v: wf_idset, wf_sv, wf_snapshot, wf_sticky); v2 needs no further bound:
     - the only column used is the string column, for the name of a Root scope, and wf_str (well-formed UTF-8,
       fewer than 2^32 bytes) implies V2Proofs.str_col_ok of the one-element column;
     - cols_rt / update_v2_roundtrip assume that the whole output is shorter than 2^64 bytes; here that hypothesis
       is discharged: it is only needed for the nine column buffers, which are empty or hold one string below 2^32
       bytes (the rest buffer, which can be long, carries no length prefix). *)
From Coq Require Import List NArith ZArith Bool Lia ZifyBool ZifyN ZifyNat.
From YV Require Import Gen.Consts Lib.Bytes Codec.Varint Codec.AnyCodec Codec.IdSetCodec Codec.UpdateV1 Codec.Messages
  Ids.Ranges Codec.VarintProofs Codec.AnyProofs Codec.FramingProofs Codec.UpdateProofs.
From YV Require Import Codec.V2Cols Codec.UpdateV2 Codec.V2Proofs.
From YV Require Import Codec.WireV2.
Import ListNotations.
Open Scope N_scope.

(* ================================================================================================ *)
(* 1. DecoderV2::new over what EncoderV2::to_vec writes when at most one string was written          *)
(* ================================================================================================ *)

Lemma w2_i64_tail_length : forall f v, (length (write_var_i64_tail f v) <= f)%nat.
Proof.
  induction f as [|f IH]; intro v; cbn [write_var_i64_tail]; [cbn; lia|].
  destruct (v =? 0); [cbn; lia|]. cbn [length]. specialize (IH (v / 128)). lia.
Qed.

Lemma w2_write_var_i64_length : forall z l, write_var_i64 z = Some l -> (length l <= 11)%nat.
Proof.
  intros z l H. unfold write_var_i64 in H. destruct (z <? - Z.of_N two63 + 1)%Z; [discriminate|].
  cbv zeta in H. apply some_inj in H. subst l. cbn [length]. pose proof (w2_i64_tail_length 10 (Z.to_N (Z.abs z) / 64)). lia.
Qed.

(* the lengths part of a string column with one string: one signed var-int *)
Lemma w2_uint1_length : forall v l, uint_encode [v] = Some l -> (length l <= 11)%nat.
Proof.
  intros v l H. rewrite uint_encode_emit in H. cbn [uint_emit] in H. destruct (0 =? v).
  - assert (E : uint_run_bytes 0 (0 + 1) = Some [0]) by (vm_compute; reflexivity).
    rewrite E in H. apply some_inj in H. subst l. cbn [length]. lia.
  - change (uint_run_bytes 0 0) with (Some (@nil N)) in H.
    change (uint_run_bytes v 1) with (write_var_i64 (to_i64 v)) in H.
    destruct (write_var_i64 (to_i64 v)) as [b|] eqn:E; [|discriminate].
    apply some_inj in H. subst l. cbn [app]. eapply w2_write_var_i64_length. exact E.
Qed.

Lemma w2_str_col_ok1 : forall n, wf_str n = true -> str_col_ok [n] = true.
Proof.
  intros n H. pose proof (wf_str_len n H) as Hl. pose proof (wf_str_utf8 n H) as Hu.
  unfold str_col_ok. cbn [forallb concat length]. rewrite Hu, app_nil_r. unfold two32 in *. cbn [andb].
  apply andb_true_intro. split; [reflexivity|]. lia.
Qed.

(* the column traces of the four types: nothing but (at most one) string and the rest buffer *)
Definition w2_small (w : wr) : Prop :=
  w_keyclock w = [] /\ w_client w = [] /\ w_left w = [] /\ w_right w = [] /\ w_info w = [] /\ w_pinfo w = [] /\
  w_tyref w = [] /\ w_len w = [] /\ (w_string w = [] \/ exists n, w_string w = [n] /\ wf_str n = true).

Lemma w2_cols_rt : forall w, w2_small w ->
  exists bs, wr_to_bytes w = Some bs /\ exists d, new_decoder bs = R2Ok tt d /\ sync d w 0 [].
Proof.
  intros [kc cli lft rgt inf strs pin tyr len rest] (H1 & H2 & H3 & H4 & H5 & H6 & H7 & H8 & Hstr).
  cbn [w_keyclock w_client w_left w_right w_info w_string w_pinfo w_tyref w_len] in *. subst.
  assert (Hok : str_col_ok strs = true).
  { destruct Hstr as [->|(n & -> & Hn)]; [reflexivity|apply w2_str_col_ok1; exact Hn]. }
  destruct (str_encode_yields strs Hok) as (sb & lens & Hsb & Hnew & Hsy).
  assert (Hlen : N.of_nat (length sb) < two64).
  { rewrite str_encode_eq in Hsb. destruct (uint_encode (map utf16_len strs)) as [ls|] eqn:El; [|discriminate].
    apply some_inj in Hsb. subst sb. unfold write_string, write_buf, write_var_usize. rewrite !app_length.
    pose proof (write_var_u64_length (N.of_nat (length (concat strs)))) as Hv.
    destruct Hstr as [->|(n & -> & Hn)].
    - vm_compute in El. apply some_inj in El. subst ls. cbn [concat length] in *. unfold two64. lia.
    - cbn [map] in El. apply w2_uint1_length in El. pose proof (wf_str_len n Hn) as Hl.
      cbn [concat] in *. rewrite app_nil_r in *. unfold two64, two32 in *. lia. }
  unfold wr_to_bytes. cbn [w_keyclock w_client w_left w_right w_info w_string w_pinfo w_tyref w_len w_rest].
  rewrite Hsb. change (uint_encode []) with (Some (@nil N)). cbv iota.
  change (idiff_encode []) with (@nil N). change (rle_encode []) with (@nil N).
  eexists. split; [reflexivity|].
  unfold new_decoder. cbv iota.
  repeat (rewrite read_buf_v2_roundtrip by first [exact Hlen | cbn [length]; unfold two64; lia]; cbn [bind]).
  rewrite Hnew. eexists. split; [reflexivity|].
  unfold sync. prj. repeat split; try reflexivity.
  - exact Hsy.
  - rewrite app_nil_r. reflexivity.
Qed.

Lemma w2_small_B : forall b, w2_small (wB b).
Proof. intro b. unfold w2_small, wB. cbn. repeat split. left. reflexivity. Qed.

(* with no string the output is the fixed header followed by the rest buffer *)
Lemma w2_header_bytes : forall b, wr_to_bytes (wB b) = Some (w2_header ++ b).
Proof. intro b. reflexivity. Qed.

Lemma w2_sync_rest_of : forall d w seq tl, sync d w seq tl -> d_rest d = w_rest w ++ tl.
Proof. intros d w seq tl (_ & _ & _ & _ & _ & _ & _ & _ & _ & H & _). exact H. Qed.

(* ================================================================================================ *)
(* 2. IdSet round trip                                                                               *)
(* ================================================================================================ *)

(* (1) the encoder does not panic on a well-formed id set (w2_encode_idset is what it writes), and what it writes
   decodes to the same id set with nothing left on the rest cursor *)
Theorem w2_idset_roundtrip : forall s, wf_idset s = true ->
  w2_encode_idset_opt s = Some (w2_encode_idset s) /\
  w2_decode_idset (w2_encode_idset s) = Ok s [].
Proof.
  intros s Hwf. destruct (idset_rt s Hwf) as (body & Hb & Hdec).
  destruct (w2_cols_rt (wB body) (w2_small_B body)) as (bs & Hbs & d & Hnew & Hs).
  unfold w2_encode_idset, w2_encode_idset_opt, w2_enc_idset. rewrite Hb. cbn [w2_finish]. rewrite Hbs. cbn [w2_bytes].
  split; [reflexivity|].
  unfold w2_decode_idset, w2_run. rewrite Hnew. cbn [bind2].
  pose proof (w2_sync_rest_of _ _ _ _ Hs) as Hr. cbn [wB w_rest] in Hr.
  destruct (Hdec d [] Hr) as (d' & E & Hr'). unfold w2_dec_idset. rewrite E, Hr'. reflexivity.
Qed.

(* ================================================================================================ *)
(* 3. StateVector round trip                                                                         *)
(* ================================================================================================ *)

Lemma w2_sv_loop_rt : forall s acc d R,
  forallb (fun ck => (fst ck <? two53) && (snd ck <? two32)) s = true ->
  nodupb (map fst s) = true ->
  (forall c' x, In c' (map fst acc) -> In x (map fst s) -> c' <> x) ->
  d_rest d = flat_map enc_sv_entry s ++ R ->
  exists d', iter2 (N.of_nat (length s)) w2_dec_sv_step acc d = R2Ok (acc ++ s) d' /\ d_rest d' = R.
Proof.
  induction s as [|[c k] s IH]; intros acc d R Hwf Hnd Hacc Hrest.
  - cbn [length]. rewrite iter2_0, app_nil_r. exists d. split; [reflexivity|exact Hrest].
  - cbn [forallb fst snd] in Hwf. apply andb_prop in Hwf. destruct Hwf as [Hx Hs].
    apply andb_prop in Hx. destruct Hx as [Hc Hk].
    cbn [map fst nodupb] in Hnd. apply andb_prop in Hnd. destruct Hnd as [Hnin Hnd]. apply negb_true_iff in Hnin.
    cbn [length]. rewrite iter2_S. unfold w2_dec_sv_step at 1. unfold rd_client_id_rest, on_rest.
    rewrite Hrest. cbn [flat_map]. unfold enc_sv_entry at 1. cbn [fst snd]. rewrite <- !app_assoc.
    rewrite var_u64_roundtrip by (unfold two53, two64 in *; lia). cbn [bind].
    unfold client_id_new. rewrite Hc. cbn [bind2].
    set (d1 := set_rest d _).
    assert (Hr1 : d_rest d1 = write_var_u32 k ++ flat_map enc_sv_entry s ++ R) by reflexivity.
    rewrite (rd_var_u32_at d1 k _ Hr1) by lia. cbn [bind2].
    rewrite sv_set_append.
    2:{ intros c' Hin. apply Hacc; [exact Hin|]. left. reflexivity. }
    destruct (IH (acc ++ [(c, k)]) (set_rest d1 (flat_map enc_sv_entry s ++ R)) R Hs Hnd) as (d' & E & Hr').
    + intros c' x Hin Hx. rewrite map_app in Hin. apply in_app_or in Hin. destruct Hin as [Hin|Hin].
      * apply Hacc; [exact Hin|]. right. exact Hx.
      * cbn [map fst In] in Hin. destruct Hin as [<-|[]]. eapply existsb_eqb_false; eassumption.
    + reflexivity.
    + rewrite <- app_assoc in E. cbn [app] in E. exists d'. split; [exact E|exact Hr'].
Qed.

Lemma w2_sv_rt : forall s, wf_sv s = true ->
  forall d R, d_rest d = w_rest (w2_enc_sv s) ++ R ->
    exists d', w2_dec_sv d = R2Ok s d' /\ d_rest d' = R.
Proof.
  intros s Hwf d R Hrest. unfold wf_sv in Hwf. apply andb_prop in Hwf. destruct Hwf as [Hwf Hnd].
  apply andb_prop in Hwf. destruct Hwf as [Hl Hs].
  unfold w2_enc_sv in Hrest. cbn [wB w_rest] in Hrest. rewrite <- app_assoc in Hrest.
  unfold w2_dec_sv, rd_var_u32, on_rest. rewrite Hrest. unfold write_var_usize.
  rewrite var_u32_of_u64_roundtrip by lia. cbn [bind2].
  change (fun ck : N * N => write_var_u64 (fst ck) ++ write_var_u32 (snd ck)) with enc_sv_entry.
  apply w2_sv_loop_rt; try assumption; [intros c' x []|reflexivity].
Qed.

(* the v2 form of a state vector is the fixed header and then its v1 form *)
Lemma w2_sv_is_header_v1 : forall s, w2_encode_sv s = w2_header ++ encode_sv_v1 s.
Proof. intro s. reflexivity. Qed.

Theorem w2_sv_roundtrip : forall s, wf_sv s = true ->
  w2_encode_sv_opt s = Some (w2_encode_sv s) /\
  w2_decode_sv (w2_encode_sv s) = Ok s [].
Proof.
  intros s Hwf. split; [reflexivity|].
  destruct (w2_cols_rt (w2_enc_sv s) (w2_small_B _)) as (bs & Hbs & d & Hnew & Hs).
  unfold w2_encode_sv, w2_encode_sv_opt. cbn [w2_finish]. rewrite Hbs. cbn [w2_bytes].
  unfold w2_decode_sv, w2_run. rewrite Hnew. cbn [bind2].
  destruct (w2_sv_rt s Hwf d [] (w2_sync_rest_of _ _ _ _ Hs)) as (d' & E & Hr'). rewrite E, Hr'. reflexivity.
Qed.

(* ================================================================================================ *)
(* 4. Snapshot round trip                                                                            *)
(* ================================================================================================ *)

Theorem w2_snapshot_roundtrip : forall x, wf_snapshot x = true ->
  w2_encode_snapshot_opt x = Some (w2_encode_snapshot x) /\
  w2_decode_snapshot (w2_encode_snapshot x) = Ok x [].
Proof.
  intros [ds s] Hwf. unfold wf_snapshot in Hwf. cbn [fst snd] in Hwf. apply andb_prop in Hwf. destruct Hwf as [Hd Hs].
  destruct (idset_rt ds Hd) as (body & Hb & Hdec).
  assert (Hsm : w2_small (wB body +++ w2_enc_sv s)).
  { unfold w2_small, w2_enc_sv, wB, wr_app. cbn. repeat split. left. reflexivity. }
  destruct (w2_cols_rt _ Hsm) as (bs & Hbs & d & Hnew & Hsy).
  unfold w2_encode_snapshot, w2_encode_snapshot_opt, w2_enc_snapshot, w2_enc_idset. cbn [fst snd]. rewrite Hb.
  cbn [w2_finish]. rewrite Hbs. cbn [w2_bytes]. split; [reflexivity|].
  unfold w2_decode_snapshot, w2_run. rewrite Hnew. cbn [bind2].
  pose proof (w2_sync_rest_of _ _ _ _ Hsy) as Hr. cbn [wr_app wB w_rest] in Hr. rewrite <- app_assoc in Hr.
  destruct (Hdec d _ Hr) as (d1 & E1 & Hr1).
  unfold w2_dec_snapshot, w2_dec_idset. rewrite E1. cbn [bind2].
  destruct (w2_sv_rt s Hs d1 [] Hr1) as (d2 & E2 & Hr2). rewrite E2. cbn [bind2]. rewrite Hr2. reflexivity.
Qed.

(* ================================================================================================ *)
(* 5. StickyIndex round trip                                                                         *)
(* ================================================================================================ *)

Lemma w2_sync_tag : forall t d k seq tl, sync d (wB (write_var_u32 t) +++ k) seq tl -> t < 256 ->
  exists d', on_rest read_var_u8 d = R2Ok t d' /\ sync d' k seq tl.
Proof.
  intros t d k seq tl Hs Ht. apply (sync_rest _ read_var_u8 t _ _ _ _ _ Hs).
  intro R. apply var_u8_roundtrip. exact Ht.
Qed.

Lemma w2_sync_assoc : forall a d k seq tl, sync d (wB (encode_assoc a) +++ k) seq tl ->
  exists d', w2_dec_assoc d = R2Ok a d' /\ sync d' k seq tl.
Proof.
  intros a d k seq tl Hs. apply (sync_rest _ decode_assoc a _ _ _ _ _ Hs). intro R. apply assoc_roundtrip.
Qed.

Lemma w2_sticky_small : forall x, wf_sticky x = true -> w2_small (w2_enc_sticky x).
Proof.
  intros [[n|i|i] a] H; unfold wf_sticky in H; cbn [fst wf_scope] in H;
    unfold w2_small, w2_enc_sticky, w2_enc_index_scope, wB, wS, wr_app; cbn [fst snd];
    cbn [w_keyclock w_client w_left w_right w_info w_string w_pinfo w_tyref w_len app]; repeat split.
  - right. exists n. split; [reflexivity|exact H].
  - left. reflexivity.
  - left. reflexivity.
Qed.

Theorem w2_sticky_roundtrip : forall x, wf_sticky x = true ->
  w2_encode_sticky_opt x = Some (w2_encode_sticky x) /\
  w2_decode_sticky (w2_encode_sticky x) = Ok x [].
Proof.
  intros x Hwf.
  destruct (w2_cols_rt _ (w2_sticky_small x Hwf)) as (bs & Hbs & d & Hnew & Hs).
  unfold w2_encode_sticky, w2_encode_sticky_opt. cbn [w2_finish]. rewrite Hbs. cbn [w2_bytes].
  split; [reflexivity|].
  unfold w2_decode_sticky, w2_run. rewrite Hnew. cbn [bind2]. clear Hnew Hbs bs.
  destruct x as [s a]. unfold wf_sticky in Hwf. cbn [fst] in Hwf.
  unfold w2_enc_sticky in Hs. cbn [fst snd] in Hs.
  assert (Hend : forall d', sync d' wr0 0 [] -> d_rest d' = []).
  { intros d' H. apply w2_sync_rest_of in H. exact H. }
  unfold w2_dec_sticky, w2_dec_index_scope, r2_map.
  destruct s as [n|i|i]; cbn [w2_enc_index_scope wf_scope] in *.
  - change (w2_tag 1) with (write_var_u32 1) in Hs. step w2_sync_tag.
    change (1 =? 0) with false. change (1 =? 1) with true. cbv iota.
    step sync_string'. rewrite <- (wr0_r (wB _)) in Hs. step w2_sync_assoc.
    rewrite (Hend _ Hs). reflexivity.
  - change (w2_tag 2) with (write_var_u32 2) in Hs. step w2_sync_tag.
    change (2 =? 0) with false. change (2 =? 1) with false. change (2 =? 2) with true. cbv iota.
    step sync_scope_id. rewrite <- (wr0_r (wB _)) in Hs. step w2_sync_assoc.
    rewrite (Hend _ Hs). reflexivity.
  - change (w2_tag 0) with (write_var_u32 0) in Hs. step w2_sync_tag.
    change (0 =? 0) with true. cbv iota.
    step sync_scope_id. rewrite <- (wr0_r (wB _)) in Hs. step w2_sync_assoc.
    rewrite (Hend _ Hs). reflexivity.
Qed.

(* a sticky index that is not a Root scope has the header and then its v1 form *)
Lemma w2_sticky_is_header_v1 : forall s a, (match s with SRoot _ => False | _ => True end) ->
  w2_encode_sticky (s, a) = w2_header ++ encode_sticky (s, a).
Proof.
  intros [n|i|i] a H; [destruct H| |];
    unfold w2_encode_sticky, w2_encode_sticky_opt, w2_enc_sticky, encode_sticky;
    cbn [fst snd w2_enc_index_scope encode_index_scope w2_finish];
    rewrite <- !wB_app, w2_header_bytes; cbn [w2_bytes]; rewrite <- !app_assoc; reflexivity.
Qed.

(* ================================================================================================ *)
(* 6. totality: value or error for every byte string                                                 *)
(* ================================================================================================ *)

Lemma w2_ok2_new_decoder : forall bs, ok2 (new_decoder bs).
Proof.
  intro bs. unfold new_decoder.
  match goal with |- ok2 (match ?r with _ => _ end) =>
    assert (Hn : no_panic_fuel r); [|destruct r; cbn in *; auto; contradiction] end.
  repeat (apply npf_bind; [apply read_buf_v2_total|intros]).
  pose proof (str_new_total a4) as Hs. destruct (str_new a4); cbn in *; auto.
Qed.

Lemma w2_run_total : forall A (dec : dec2 -> r2 A), (forall d, ok2 (dec d)) ->
  forall bs, no_panic_fuel (w2_run dec bs).
Proof.
  intros A dec Hdec bs. unfold w2_run.
  assert (H : ok2 (let+ (_, d) := new_decoder bs in dec d)).
  { apply ok2_bind2; [apply w2_ok2_new_decoder|]. intros _ d. apply Hdec. }
  destruct (let+ (_, d) := new_decoder bs in dec d); cbn in *; auto.
Qed.

Lemma w2_ok2_dec_sv : forall d, ok2 (w2_dec_sv d).
Proof.
  intro d. unfold w2_dec_sv. apply ok2_bind2; [apply ok2_rd_var_u32|]. intros n d1. apply ok2_iter2. intros acc d2.
  unfold w2_dec_sv_step. apply ok2_bind2; [unfold rd_client_id_rest; ok2|]. intros c d3.
  apply ok2_bind2; [apply ok2_rd_var_u32|]. intros; exact I.
Qed.

Lemma w2_ok2_dec_snapshot : forall d, ok2 (w2_dec_snapshot d).
Proof.
  intro d. unfold w2_dec_snapshot. apply ok2_bind2; [apply ok2_dec_idset|]. intros ds d1.
  apply ok2_bind2; [apply w2_ok2_dec_sv|]. intros; exact I.
Qed.

Lemma w2_decode_assoc_total : forall bs, no_panic_fuel (decode_assoc bs).
Proof.
  intro bs. unfold decode_assoc. apply npf_bind; [apply read_var_i64_total|].
  intros z rest. destruct ((z <? -128)%Z || (127 <? z)%Z); exact I.
Qed.

Lemma w2_ok2_dec_sticky : forall d, ok2 (w2_dec_sticky d).
Proof.
  intro d. unfold w2_dec_sticky. apply ok2_bind2.
  - unfold w2_dec_index_scope. apply ok2_bind2; [apply ok2_on_rest; intro bs; apply read_var_u8_total|].
    intros tag d0.
    destruct (tag =? 0); [apply ok2_map2, ok2_dec_scope_id|].
    destruct (tag =? 1); [apply ok2_map2, ok2_rd_string|].
    destruct (tag =? 2); [apply ok2_map2, ok2_dec_scope_id|exact I].
  - intros s d1. apply ok2_bind2; [|intros; exact I].
    unfold w2_dec_assoc. apply ok2_on_rest. apply w2_decode_assoc_total.
Qed.

(* (2) for every byte string the result is Ok or Err: never a panic, never out of fuel *)
Theorem w2_decode_idset_total : forall bs, no_panic_fuel (w2_decode_idset bs).
Proof. apply w2_run_total. apply ok2_dec_idset. Qed.
Theorem w2_decode_sv_total : forall bs, no_panic_fuel (w2_decode_sv bs).
Proof. apply w2_run_total. apply w2_ok2_dec_sv. Qed.
Theorem w2_decode_snapshot_total : forall bs, no_panic_fuel (w2_decode_snapshot bs).
Proof. apply w2_run_total. apply w2_ok2_dec_snapshot. Qed.
Theorem w2_decode_sticky_total : forall bs, no_panic_fuel (w2_decode_sticky bs).
Proof. apply w2_run_total. apply w2_ok2_dec_sticky. Qed.

(* ================================================================================================ *)
(* 7. v1 and v2 forms of one value decode to the same value                                          *)
(* ================================================================================================ *)

Theorem w2_v1_v2_same_value_idset : forall s fuel, wf_idset s = true -> (idset_fuel s <= fuel)%nat ->
  decode_idset_v1 fuel (encode_idset_v1 s) = w2_decode_idset (w2_encode_idset s) /\
  w2_decode_idset (w2_encode_idset s) = Ok s [].
Proof.
  intros s fuel Hwf Hf. destruct (w2_idset_roundtrip s Hwf) as [_ H2]. split; [|exact H2].
  rewrite H2. rewrite <- (app_nil_r (encode_idset_v1 s)). apply idset_roundtrip; assumption.
Qed.

Theorem w2_v1_v2_same_value_sv : forall s fuel, wf_sv s = true -> (length s <= fuel)%nat ->
  decode_sv_v1 fuel (encode_sv_v1 s) = w2_decode_sv (w2_encode_sv s) /\
  w2_decode_sv (w2_encode_sv s) = Ok s [].
Proof.
  intros s fuel Hwf Hf. destruct (w2_sv_roundtrip s Hwf) as [_ H2]. split; [|exact H2].
  rewrite H2. rewrite <- (app_nil_r (encode_sv_v1 s)). apply sv_roundtrip; assumption.
Qed.

Theorem w2_v1_v2_same_value_snapshot : forall x fuel, wf_snapshot x = true -> (snapshot_fuel x <= fuel)%nat ->
  decode_snapshot_v1 fuel (encode_snapshot_v1 x) = w2_decode_snapshot (w2_encode_snapshot x) /\
  w2_decode_snapshot (w2_encode_snapshot x) = Ok x [].
Proof.
  intros x fuel Hwf Hf. destruct (w2_snapshot_roundtrip x Hwf) as [_ H2]. split; [|exact H2].
  rewrite H2. rewrite <- (app_nil_r (encode_snapshot_v1 x)). apply snapshot_roundtrip; assumption.
Qed.

Theorem w2_v1_v2_same_value_sticky : forall x, wf_sticky x = true ->
  decode_sticky (encode_sticky x) = w2_decode_sticky (w2_encode_sticky x) /\
  w2_decode_sticky (w2_encode_sticky x) = Ok x [].
Proof.
  intros x Hwf. destruct (w2_sticky_roundtrip x Hwf) as [_ H2]. split; [|exact H2].
  rewrite H2. rewrite <- (app_nil_r (encode_sticky x)). apply sticky_roundtrip; assumption.
Qed.

(* (3) all four types *)
Theorem w2_v1_v2_same_value :
  (forall s fuel, wf_idset s = true -> (idset_fuel s <= fuel)%nat ->
     decode_idset_v1 fuel (encode_idset_v1 s) = w2_decode_idset (w2_encode_idset s)) /\
  (forall s fuel, wf_sv s = true -> (length s <= fuel)%nat ->
     decode_sv_v1 fuel (encode_sv_v1 s) = w2_decode_sv (w2_encode_sv s)) /\
  (forall x fuel, wf_snapshot x = true -> (snapshot_fuel x <= fuel)%nat ->
     decode_snapshot_v1 fuel (encode_snapshot_v1 x) = w2_decode_snapshot (w2_encode_snapshot x)) /\
  (forall x, wf_sticky x = true ->
     decode_sticky (encode_sticky x) = w2_decode_sticky (w2_encode_sticky x)).
Proof.
  repeat split; intros.
  - apply w2_v1_v2_same_value_idset; assumption.
  - apply w2_v1_v2_same_value_sv; assumption.
  - apply w2_v1_v2_same_value_snapshot; assumption.
  - apply w2_v1_v2_same_value_sticky; assumption.
Qed.

Print Assumptions w2_idset_roundtrip.
Print Assumptions w2_sv_roundtrip.
Print Assumptions w2_snapshot_roundtrip.
Print Assumptions w2_sticky_roundtrip.
Print Assumptions w2_decode_idset_total.
Print Assumptions w2_decode_sv_total.
Print Assumptions w2_decode_snapshot_total.
Print Assumptions w2_decode_sticky_total.
Print Assumptions w2_v1_v2_same_value_idset.
Print Assumptions w2_v1_v2_same_value_sv.
Print Assumptions w2_v1_v2_same_value_snapshot.
Print Assumptions w2_v1_v2_same_value_sticky.
Print Assumptions w2_v1_v2_same_value.
