(* Round-trip, well-formedness and totality theorems for the lib0 varint codec model (Codec/Varint.v).
   The limits VARINT_LIMIT_* stay symbolic in the statements; they are unfolded inside the proofs only, so
   a change of the constant in the Rust source regenerates Gen/Consts.v and re-checks everything here. *)
From Coq Require Import List NArith ZArith Bool Lia ZifyBool ZifyN ZifyNat.
From YV Require Import Gen.Consts Lib.Bytes Codec.Varint.
Import ListNotations.
Open Scope N_scope.
Ltac Zify.zify_post_hook ::= Z.div_mod_to_equations.

Arguments N.add : simpl never.
Arguments N.sub : simpl never.
Arguments N.mul : simpl never.
Arguments N.div : simpl never.
Arguments N.modulo : simpl never.
Arguments N.eqb : simpl never.
Arguments N.ltb : simpl never.
Arguments N.leb : simpl never.
Arguments N.shiftl : simpl never.
Arguments N.lor : simpl never.
Arguments N.pow : simpl never.

(* ------------------------------------------------------------------------------------------------ *)
(* arithmetic helpers                                                                               *)
(* ------------------------------------------------------------------------------------------------ *)

Lemma lor_disjoint_add : forall a b k, a < 2 ^ k -> N.lor a (b * 2 ^ k) = a + b * 2 ^ k.
Proof.
  intros a b k Ha. rewrite <- N.shiftl_mul_pow2.
  assert (Hland : N.land a (N.shiftl b k) = 0).
  { apply N.bits_inj. intro n. rewrite N.land_spec, N.bits_0.
    destruct (N.ltb_spec n k) as [Hn|Hn].
    + rewrite N.shiftl_spec_low by assumption. apply andb_false_r.
    + assert (Ht : N.testbit a n = false).
      { destruct (N.eq_dec a 0) as [->|Hz]; [apply N.bits_0|].
        apply N.bits_above_log2. apply N.log2_lt_pow2; [lia|].
        eapply N.lt_le_trans; [exact Ha|]. apply N.pow_le_mono_r; lia. }
      rewrite Ht. reflexivity. }
  rewrite <- N.lxor_lor by exact Hland.
  symmetry. apply N.add_nocarry_lxor. exact Hland.
Qed.

Lemma pow2_pos : forall n, 0 < 2 ^ n.
Proof. intro n. apply N.neq_0_lt_0. apply N.pow_nonzero. lia. Qed.

(* x <> 0 and x * 2^len < 2^B force len < B *)
Lemma shift_lt_width : forall x len B, x <> 0 -> x * 2 ^ len < 2 ^ B -> len < B.
Proof.
  intros x len B Hx H. apply (N.pow_lt_mono_r_iff 2); [lia|].
  eapply N.le_lt_trans; [|exact H]. pose proof (pow2_pos len). nia.
Qed.

(* x >= 128 and x * 2^len < 2^B force len + 7 < B *)
Lemma shift7_lt_width : forall x len B, 128 <= x -> x * 2 ^ len < 2 ^ B -> len + 7 < B.
Proof.
  intros x len B Hx H. apply (N.pow_lt_mono_r_iff 2); [lia|].
  eapply N.le_lt_trans; [|exact H]. rewrite N.pow_add_r. change (2 ^ 7) with 128.
  pose proof (pow2_pos len). nia.
Qed.

Lemma wshl64_exact : forall x len, x * 2 ^ len < 2 ^ 64 -> wshl64 x len = x * 2 ^ len.
Proof.
  intros x len H. unfold wshl64. destruct (N.eq_dec x 0) as [->|Hx].
  - rewrite N.shiftl_0_l. reflexivity.
  - pose proof (shift_lt_width _ _ _ Hx H) as Hl.
    rewrite (N.mod_small len 64) by exact Hl. rewrite N.shiftl_mul_pow2.
    change two64 with (2 ^ 64). apply N.mod_small. exact H.
Qed.

Lemma wshl32_exact : forall x len, x * 2 ^ len < 2 ^ 32 -> wshl32 x len = x * 2 ^ len.
Proof.
  intros x len H. unfold wshl32. destruct (N.eq_dec x 0) as [->|Hx].
  - rewrite N.shiftl_0_l. reflexivity.
  - pose proof (shift_lt_width _ _ _ Hx H) as Hl.
    rewrite (N.mod_small len 32) by exact Hl. rewrite N.shiftl_mul_pow2.
    change two32 with (2 ^ 32). apply N.mod_small. exact H.
Qed.

Lemma pow128_succ : forall f, 128 ^ N.of_nat (S f) = 128 * 128 ^ N.of_nat f.
Proof. intro f. rewrite Nat2N.inj_succ. apply N.pow_succ_r'. Qed.

(* ------------------------------------------------------------------------------------------------ *)
(* unsigned: generic round trip over the shift function, the limit and the bit width B              *)
(* ------------------------------------------------------------------------------------------------ *)

Section Unsigned.
  Variables (shl : N -> N -> N) (limit B : N).
  Hypothesis Hshl : forall x len, x * 2 ^ len < 2 ^ B -> shl x len = x * 2 ^ len.
  Hypothesis HB : B <= limit + 1.

  Lemma read_write_last : forall v acc len rest,
    v < 128 -> acc < 2 ^ len -> v * 2 ^ len < 2 ^ B ->
    read_var_loop shl limit (v :: rest) acc len = Ok (acc + v * 2 ^ len) rest.
  Proof.
    intros v acc len rest Hv Hacc Hb. cbn [read_var_loop].
    rewrite (N.mod_small v 128) by exact Hv.
    replace (v <? 128) with true by lia.
    rewrite Hshl by exact Hb. rewrite lor_disjoint_add by exact Hacc. reflexivity.
  Qed.

  Lemma read_write_gen : forall fuel v acc len rest,
    v < 128 ^ N.of_nat (S fuel) -> acc < 2 ^ len -> v * 2 ^ len < 2 ^ B ->
    read_var_loop shl limit (write_var_fuel fuel v ++ rest) acc len = Ok (acc + v * 2 ^ len) rest.
  Proof.
    induction fuel as [|f IH]; intros v acc len rest Hv Hacc Hb.
    - change (128 ^ N.of_nat 1) with 128 in Hv.
      cbn [write_var_fuel app]. rewrite (N.mod_small v 128) by exact Hv.
      apply read_write_last; assumption.
    - cbn [write_var_fuel]. destruct (N.ltb_spec v 128) as [Hs|Hbig].
      + cbn [app]. apply read_write_last; assumption.
      + cbn [app read_var_loop].
        pose proof (shift7_lt_width _ _ _ Hbig Hb) as Hlen.
        replace ((v mod 128 + 128) mod 128) with (v mod 128) by lia.
        replace (v mod 128 + 128 <? 128) with false by lia.
        replace (limit <? len + 7) with false by lia.
        assert (Hpow : 2 ^ (len + 7) = 2 ^ len * 128) by (rewrite N.pow_add_r; reflexivity).
        pose proof (pow2_pos len) as Hp.
        assert (Hvm : v mod 128 * 2 ^ len < 2 ^ B).
        { eapply N.le_lt_trans; [|exact Hb]. apply N.mul_le_mono_r. apply N.mod_le; lia. }
        rewrite Hshl by exact Hvm.
        rewrite lor_disjoint_add by exact Hacc.
        rewrite IH.
        * f_equal. rewrite Hpow. pose proof (N.div_mod v 128).
          generalize dependent (2 ^ len). intros. nia.
        * rewrite pow128_succ in Hv. apply N.div_lt_upper_bound; lia.
        * rewrite Hpow. assert (v mod 128 < 128) by (apply N.mod_lt; lia).
          generalize dependent (2 ^ len). intros. nia.
        * eapply N.le_lt_trans; [|exact Hb]. rewrite Hpow.
          pose proof (N.div_mod v 128).
          generalize dependent (2 ^ len). intros. nia.
  Qed.
End Unsigned.

Lemma limit64_ok : 64 <= VARINT_LIMIT_READ_VAR_U64 + 1.
Proof. unfold VARINT_LIMIT_READ_VAR_U64. lia. Qed.
Lemma limit32_ok : 32 <= VARINT_LIMIT_READ_VAR_U32 + 1.
Proof. unfold VARINT_LIMIT_READ_VAR_U32. lia. Qed.

Theorem var_u64_roundtrip : forall v rest, v < two64 ->
  read_var_u64 (write_var_u64 v ++ rest) = Ok v rest.
Proof.
  intros v rest Hv. unfold read_var_u64, write_var_u64.
  rewrite (read_write_gen wshl64 _ 64 wshl64_exact limit64_ok).
  - f_equal. change (2 ^ 0) with 1. lia.
  - eapply N.lt_trans; [exact Hv|]. reflexivity.
  - reflexivity.
  - change (2 ^ 0) with 1. change (2 ^ 64) with two64. lia.
Qed.
Print Assumptions var_u64_roundtrip.

Theorem var_u32_roundtrip : forall v rest, v < two32 ->
  read_var_u32 (write_var_u32 v ++ rest) = Ok v rest.
Proof.
  intros v rest Hv. unfold read_var_u32, write_var_u32.
  rewrite (read_write_gen wshl32 _ 32 wshl32_exact limit32_ok).
  - f_equal. change (2 ^ 0) with 1. lia.
  - eapply N.lt_trans; [exact Hv|]. reflexivity.
  - reflexivity.
  - change (2 ^ 0) with 1. change (2 ^ 32) with two32. lia.
Qed.
Print Assumptions var_u32_roundtrip.

(* the u32 reader accepts the (longer-fuel) u64/usize writer output for values below 2^32: this is the
   combination used by write_buf / read_buf *)
Theorem var_u32_of_u64_roundtrip : forall v rest, v < two32 ->
  read_var_u32 (write_var_u64 v ++ rest) = Ok v rest.
Proof.
  intros v rest Hv. unfold read_var_u32, write_var_u64.
  rewrite (read_write_gen wshl32 _ 32 wshl32_exact limit32_ok).
  - f_equal. change (2 ^ 0) with 1. lia.
  - eapply N.lt_trans; [exact Hv|]. reflexivity.
  - reflexivity.
  - change (2 ^ 0) with 1. change (2 ^ 32) with two32. lia.
Qed.
Print Assumptions var_u32_of_u64_roundtrip.

(* and conversely the u64 reader accepts the u32 writer output *)
Theorem var_u64_of_u32_roundtrip : forall v rest, v < two32 ->
  read_var_u64 (write_var_u32 v ++ rest) = Ok v rest.
Proof.
  intros v rest Hv. unfold read_var_u64, write_var_u32.
  rewrite (read_write_gen wshl64 _ 64 wshl64_exact limit64_ok).
  - f_equal. change (2 ^ 0) with 1. lia.
  - eapply N.lt_trans; [exact Hv|]. reflexivity.
  - reflexivity.
  - change (2 ^ 0) with 1. apply (N.lt_trans _ two32); [lia|reflexivity].
Qed.

(* for values below 2^32 both writers emit the same bytes *)
Lemma write_var_fuel_more : forall f k v, v < 128 ^ N.of_nat (S f) ->
  write_var_fuel (f + k) v = write_var_fuel f v.
Proof.
  induction f as [|f IH]; intros k v Hv.
  - change (128 ^ N.of_nat 1) with 128 in Hv. cbn [Nat.add write_var_fuel].
    destruct k; cbn [write_var_fuel].
    + reflexivity.
    + replace (v <? 128) with true by lia. rewrite N.mod_small by exact Hv. reflexivity.
  - cbn [Nat.add write_var_fuel]. destruct (v <? 128); [reflexivity|].
    f_equal. apply IH. rewrite pow128_succ in Hv. apply N.div_lt_upper_bound; lia.
Qed.

Theorem write_var_u64_u32_agree : forall v, v < two32 -> write_var_u64 v = write_var_u32 v.
Proof.
  intros v Hv. unfold write_var_u64, write_var_u32.
  apply (write_var_fuel_more 4 5). eapply N.lt_trans; [exact Hv|]. reflexivity.
Qed.

(* ------------------------------------------------------------------------------------------------ *)
(* well-formedness of the writer output                                                             *)
(* ------------------------------------------------------------------------------------------------ *)

Lemma write_var_fuel_bytes : forall fuel v, bytes_ok (write_var_fuel fuel v) = true.
Proof.
  induction fuel as [|f IH]; intro v; cbn [write_var_fuel].
  - unfold bytes_ok, is_byte. cbn [forallb]. rewrite andb_true_r. lia.
  - destruct (N.ltb_spec v 128) as [Hs|Hbig].
    + unfold bytes_ok, is_byte. cbn [forallb]. rewrite andb_true_r. lia.
    + unfold bytes_ok in *. cbn [forallb]. rewrite IH. rewrite andb_true_r. unfold is_byte. lia.
Qed.

Lemma write_var_fuel_length : forall fuel v, (1 <= length (write_var_fuel fuel v) <= S fuel)%nat.
Proof.
  induction fuel as [|f IH]; intro v; cbn [write_var_fuel].
  - cbn [length]. lia.
  - destruct (v <? 128); cbn [length]; [lia|]. specialize (IH (v / 128)). lia.
Qed.

Theorem write_var_u64_bytes : forall v, v < two64 -> bytes_ok (write_var_u64 v) = true.
Proof. intros v _. apply write_var_fuel_bytes. Qed.
Print Assumptions write_var_u64_bytes.

Theorem write_var_u32_bytes : forall v, v < two32 -> bytes_ok (write_var_u32 v) = true.
Proof. intros v _. apply write_var_fuel_bytes. Qed.
Print Assumptions write_var_u32_bytes.

Theorem write_var_u64_length : forall v, (1 <= length (write_var_u64 v) <= 10)%nat.
Proof. intro v. apply (write_var_fuel_length 9). Qed.
Print Assumptions write_var_u64_length.

Theorem write_var_u32_length : forall v, (1 <= length (write_var_u32 v) <= 5)%nat.
Proof. intro v. apply (write_var_fuel_length 4). Qed.
Print Assumptions write_var_u32_length.

(* ------------------------------------------------------------------------------------------------ *)
(* totality of the unsigned readers and bounds on what they consume                                 *)
(* ------------------------------------------------------------------------------------------------ *)

Definition no_panic_fuel {A} (r : res A) : Prop :=
  match r with Panic _ | Fuel => False | _ => True end.

Lemma read_var_loop_total : forall shl limit bs num len,
  no_panic_fuel (read_var_loop shl limit bs num len).
Proof.
  intros shl limit. induction bs as [|r rest IH]; intros num len; cbn [read_var_loop].
  - exact I.
  - destruct (r <? 128); [exact I|]. destruct (limit <? len + 7); [exact I|]. apply IH.
Qed.

Theorem read_var_u64_total : forall bs,
  match read_var_u64 bs with Panic _ | Fuel => False | _ => True end.
Proof. intro bs. apply (read_var_loop_total wshl64 VARINT_LIMIT_READ_VAR_U64 bs 0 0). Qed.
Print Assumptions read_var_u64_total.

Theorem read_var_u32_total : forall bs,
  match read_var_u32 bs with Panic _ | Fuel => False | _ => True end.
Proof. intro bs. apply (read_var_loop_total wshl32 VARINT_LIMIT_READ_VAR_U32 bs 0 0). Qed.
Print Assumptions read_var_u32_total.

Theorem read_exact_total : forall n bs,
  match read_exact n bs with Panic _ | Fuel => False | _ => True end.
Proof. intros n bs. unfold read_exact. destruct (N.of_nat (length bs) <? n); exact I. Qed.
Print Assumptions read_exact_total.

Theorem read_buf_total : forall bs,
  match read_buf bs with Panic _ | Fuel => False | _ => True end.
Proof.
  intro bs. unfold read_buf. pose proof (read_var_u32_total bs) as H.
  destruct (read_var_u32 bs) as [len rest| | |]; cbn [bind]; try exact H; try exact I.
  apply read_exact_total.
Qed.
Print Assumptions read_buf_total.

Theorem read_var_u8_total : forall bs,
  match read_var_u8 bs with Panic _ | Fuel => False | _ => True end.
Proof.
  intro bs. unfold read_var_u8. pose proof (read_var_u32_total bs) as H.
  destruct (read_var_u32 bs) as [v rest| | |]; cbn [bind]; try exact H; try exact I.
  destruct (v <? 256); exact I.
Qed.

(* the loop returns a suffix; the consumed prefix is non-empty and bounded by the limit *)
Lemma read_var_loop_suffix : forall shl limit bs num len v rest,
  read_var_loop shl limit bs num len = Ok v rest ->
  exists pre, bs = pre ++ rest /\ (1 <= length pre)%nat /\
              (length pre = 1%nat \/ len + 7 * N.of_nat (length pre) <= limit + 7).
Proof.
  intros shl limit. induction bs as [|r tl IH]; intros num len v rest H; cbn [read_var_loop] in H.
  - discriminate.
  - destruct (r <? 128).
    + inversion H; subst. exists [r]. cbn [app length]. split; [reflexivity|]. split; [lia|]. left. reflexivity.
    + destruct (N.ltb_spec limit (len + 7)) as [Hl|Hl]; [discriminate|].
      apply IH in H. destruct H as (pre & -> & Hlen & Hb).
      exists (r :: pre). cbn [app length]. split; [reflexivity|]. split; [lia|]. right.
      destruct Hb as [Hb|Hb]; [rewrite Hb|]; lia.
Qed.

Theorem read_var_u64_suffix : forall bs v rest, read_var_u64 bs = Ok v rest ->
  exists pre, bs = pre ++ rest /\ (1 <= length pre <= 11)%nat.
Proof.
  intros bs v rest H. unfold read_var_u64 in H. apply read_var_loop_suffix in H.
  destruct H as (pre & -> & Hlen & Hb). exists pre. split; [reflexivity|].
  unfold VARINT_LIMIT_READ_VAR_U64 in Hb. lia.
Qed.
Print Assumptions read_var_u64_suffix.

Theorem read_var_u32_suffix : forall bs v rest, read_var_u32 bs = Ok v rest ->
  exists pre, bs = pre ++ rest /\ (1 <= length pre <= 11)%nat.
Proof.
  intros bs v rest H. unfold read_var_u32 in H. apply read_var_loop_suffix in H.
  destruct H as (pre & -> & Hlen & Hb). exists pre. split; [reflexivity|].
  unfold VARINT_LIMIT_READ_VAR_U32 in Hb. lia.
Qed.
Print Assumptions read_var_u32_suffix.

(* the u32 reader always returns a u32 *)
Lemma read_var_loop32_range : forall limit bs num len v rest,
  num < two32 -> read_var_loop wshl32 limit bs num len = Ok v rest -> v < two32.
Proof.
  intros limit. induction bs as [|r tl IH]; intros num len v rest Hn H; cbn [read_var_loop] in H.
  - discriminate.
  - assert (Hlor : N.lor num (wshl32 (r mod 128) len) < two32).
    { unfold wshl32. change two32 with (2 ^ 32) in *.
      destruct (N.eq_dec (N.lor num (N.shiftl (r mod 128) (len mod 32) mod 2 ^ 32)) 0) as [->|Hz]; [reflexivity|].
      apply N.log2_lt_pow2; [lia|]. rewrite N.log2_lor.
      apply N.max_lub_lt.
      - destruct (N.eq_dec num 0) as [->|Hnz]; [reflexivity|]. apply N.log2_lt_pow2; [lia|exact Hn].
      - set (x := N.shiftl (r mod 128) (len mod 32) mod 2 ^ 32).
        assert (x < 2 ^ 32) by (apply N.mod_lt; discriminate).
        destruct (N.eq_dec x 0) as [->|Hnz]; [reflexivity|]. apply N.log2_lt_pow2; [lia|assumption]. }
    destruct (r <? 128).
    + inversion H; subst. exact Hlor.
    + destruct (limit <? len + 7); [discriminate|]. eapply IH; [exact Hlor|exact H].
Qed.

Theorem read_var_u32_range : forall bs v rest, read_var_u32 bs = Ok v rest -> v < two32.
Proof. intros bs v rest H. eapply read_var_loop32_range; [|exact H]. reflexivity. Qed.
Print Assumptions read_var_u32_range.

(* ------------------------------------------------------------------------------------------------ *)
(* buffers                                                                                          *)
(* ------------------------------------------------------------------------------------------------ *)

Lemma read_exact_app : forall b rest, read_exact (N.of_nat (length b)) (b ++ rest) = Ok b rest.
Proof.
  intros b rest. unfold read_exact. rewrite app_length.
  replace (N.of_nat (length b + length rest) <? N.of_nat (length b)) with false by lia.
  rewrite Nat2N.id. rewrite firstn_app, Nat.sub_diag, firstn_all. cbn [firstn]. rewrite app_nil_r.
  rewrite skipn_app, Nat.sub_diag, skipn_all. reflexivity.
Qed.

Theorem buf_roundtrip : forall b rest, N.of_nat (length b) < two32 ->
  read_buf (write_buf b ++ rest) = Ok b rest.
Proof.
  intros b rest Hb. unfold read_buf, write_buf, write_var_usize.
  rewrite <- app_assoc. rewrite var_u32_of_u64_roundtrip by exact Hb. cbn [bind].
  apply read_exact_app.
Qed.
Print Assumptions buf_roundtrip.

(* read_string validates UTF-8 (std::str::from_utf8): only well-formed strings round trip *)
Theorem string_roundtrip : forall s rest, N.of_nat (length s) < two32 -> utf8_valid s = true ->
  read_string (write_string s ++ rest) = Ok s rest.
Proof.
  intros s rest Hl Hu. unfold read_string, write_string. rewrite buf_roundtrip by exact Hl.
  cbn [bind]. rewrite Hu. reflexivity.
Qed.
Print Assumptions string_roundtrip.

(* an ill-formed string is rejected by the reader: it does not round trip *)
Theorem string_invalid_rejected : forall s rest, N.of_nat (length s) < two32 -> utf8_valid s = false ->
  read_string (write_string s ++ rest) = Err UnexpectedValue.
Proof.
  intros s rest Hl Hu. unfold read_string, write_string. rewrite buf_roundtrip by exact Hl.
  cbn [bind]. rewrite Hu. reflexivity.
Qed.

(* non-vacuity: "h\u00e9\u1f600" (1-, 2- and 4-byte sequences) is valid; a lone continuation byte, an overlong
   form, a surrogate and a truncated sequence are not *)
Example utf8_valid_example : utf8_valid [104; 195; 169; 240; 159; 152; 128] = true.
Proof. vm_compute. reflexivity. Qed.
Example utf8_invalid_examples :
  utf8_valid [128] = false /\ utf8_valid [192; 128] = false /\ utf8_valid [237; 160; 128] = false /\
  utf8_valid [240; 159; 152] = false /\ utf8_valid [244; 144; 128; 128] = false /\ utf8_valid [255] = false.
Proof. vm_compute. repeat split; reflexivity. Qed.

Theorem read_string_ok_valid : forall bs s rest, read_string bs = Ok s rest ->
  read_buf bs = Ok s rest /\ utf8_valid s = true.
Proof.
  intros bs s rest H. unfold read_string in H.
  destruct (read_buf bs) as [b r| | |]; cbn [bind] in H; try discriminate.
  destruct (utf8_valid b) eqn:E; [|discriminate]. inversion H; subst. split; [reflexivity|exact E].
Qed.

Theorem write_buf_bytes : forall b, bytes_ok b = true -> bytes_ok (write_buf b) = true.
Proof.
  intros b Hb. unfold write_buf, write_var_usize, write_var_u64, bytes_ok in *.
  rewrite forallb_app. rewrite Hb. rewrite andb_true_r. apply write_var_fuel_bytes.
Qed.

(* ------------------------------------------------------------------------------------------------ *)
(* signed                                                                                           *)
(* ------------------------------------------------------------------------------------------------ *)

Lemma write_var_i64_tail_0 : forall f, write_var_i64_tail f 0 = [].
Proof. destruct f; reflexivity. Qed.

Lemma shl_i64_exact : forall x len, x <> 0 -> x * 2 ^ len < 2 ^ 64 ->
  shl_i64_checked x len = Some (x * 2 ^ len).
Proof.
  intros x len Hx H. unfold shl_i64_checked.
  pose proof (shift_lt_width _ _ _ Hx H) as Hl.
  rewrite (N.mod_small len 64) by exact Hl.
  rewrite N.shiftl_mul_pow2. change two64 with (2 ^ 64). rewrite N.mod_small by exact H. reflexivity.
Qed.

Lemma shl_i64_zero : forall len, shl_i64_checked 0 len = Some 0.
Proof.
  intros len. unfold shl_i64_checked. rewrite N.shiftl_0_l. reflexivity.
Qed.

Lemma i64_tail_gen : forall limit, 63 <= limit -> forall fuel v acc len rest neg,
  v <> 0 -> v < 128 ^ N.of_nat fuel -> acc < 2 ^ len -> v * 2 ^ len < 2 ^ 64 ->
  read_var_i64_loop limit (write_var_i64_tail fuel v ++ rest) acc len neg
  = Ok (acc + v * 2 ^ len, neg) rest.
Proof.
  intros limit Hlim. induction fuel as [|f IH]; intros v acc len rest neg Hv0 Hv Hacc Hb.
  - change (128 ^ N.of_nat 0) with 1 in Hv. lia.
  - cbn [write_var_i64_tail]. replace (v =? 0) with false by lia.
    pose proof (shift_lt_width _ _ _ Hv0 Hb) as Hl.
    pose proof (pow2_pos len) as Hp.
    destruct (N.ltb_spec 127 v) as [Hbig|Hs].
    + cbn [app read_var_i64_loop].
      assert (Hbig' : 128 <= v) by lia.
      pose proof (shift7_lt_width _ _ _ Hbig' Hb) as Hlen.
      replace ((128 + v mod 128) mod 128) with (v mod 128) by lia.
      assert (Hvm : v mod 128 * 2 ^ len < 2 ^ 64).
      { eapply N.le_lt_trans; [|exact Hb]. apply N.mul_le_mono_r. apply N.mod_le; lia. }
      assert (Hsh : shl_i64_checked (v mod 128) len = Some (v mod 128 * 2 ^ len)).
      { destruct (N.eq_dec (v mod 128) 0) as [Hz|Hnz].
        - rewrite Hz. rewrite shl_i64_zero. reflexivity.
        - apply shl_i64_exact; assumption. }
      rewrite Hsh.
      replace (128 + v mod 128 <? 128) with false by lia.
      replace (limit <? len + 7) with false by lia.
      rewrite lor_disjoint_add by exact Hacc.
      assert (Hpow : 2 ^ (len + 7) = 2 ^ len * 128) by (rewrite N.pow_add_r; reflexivity).
      rewrite IH.
      * f_equal. f_equal. rewrite Hpow. pose proof (N.div_mod v 128).
        generalize dependent (2 ^ len). intros. nia.
      * lia.
      * rewrite pow128_succ in Hv. apply N.div_lt_upper_bound; lia.
      * rewrite Hpow. assert (v mod 128 < 128) by (apply N.mod_lt; lia).
        generalize dependent (2 ^ len). intros. nia.
      * eapply N.le_lt_trans; [|exact Hb]. rewrite Hpow.
        pose proof (N.div_mod v 128).
        generalize dependent (2 ^ len). intros. nia.
    + replace (v / 128) with 0 by lia. rewrite write_var_i64_tail_0.
      cbn [app read_var_i64_loop].
      replace ((0 + v mod 128) mod 128) with v by lia.
      replace (0 + v mod 128) with v by lia.
      rewrite shl_i64_exact by assumption.
      replace (v <? 128) with true by lia.
      rewrite lor_disjoint_add by exact Hacc. reflexivity.
Qed.

Lemma limit_i64_ok : 63 <= VARINT_LIMIT_READ_VAR_I64.
Proof. unfold VARINT_LIMIT_READ_VAR_I64. lia. Qed.
Lemma limit_signed_ok : 63 <= VARINT_LIMIT_READ_SIGNED.
Proof. unfold VARINT_LIMIT_READ_SIGNED. lia. Qed.

Lemma finish_i64_small : forall v neg, v < two63 ->
  finish_i64 v neg = Some (if neg then (- Z.of_N v)%Z else Z.of_N v).
Proof.
  intros v neg Hv. unfold finish_i64.
  replace (v <? two63) with true by lia. replace (v =? two63) with false by lia.
  destruct neg; reflexivity.
Qed.

(* generic in the limit: serves read_var_i64 and read_signed *)
Lemma var_i64_gen_roundtrip : forall limit z rest, 63 <= limit ->
  (- Z.of_N two63 < z < Z.of_N two63)%Z ->
  exists bs, write_var_i64 z = Some bs /\
             read_var_i64_gen limit (bs ++ rest) = Ok (z, (z <? 0)%Z) rest.
Proof.
  intros limit z rest Hlim Hz. unfold write_var_i64.
  replace (z <? - Z.of_N two63 + 1)%Z with false by lia.
  eexists. split; [reflexivity|].
  set (v := Z.to_N (Z.abs z)). set (neg := (z <? 0)%Z).
  assert (Hv : v < two63) by (unfold v; lia).
  assert (Hzv : z = if neg then (- Z.of_N v)%Z else Z.of_N v).
  { unfold v, neg. destruct (Z.ltb_spec z 0); lia. }
  clearbody v neg. clear Hz.
  set (nb := if neg then 64 else 0).
  assert (Hnb : (nb = 0 \/ nb = 64) /\ (64 <=? nb) = neg) by (unfold nb; destruct neg; split; auto).
  destruct Hnb as [Hnb Hnb']. clearbody nb.
  cbn [app read_var_i64_gen].
  destruct (N.ltb_spec 63 v) as [Hbig|Hs].
  - (* continuation *)
    replace ((128 + nb + v mod 64) mod 64) with (v mod 64) by lia.
    replace ((128 + nb + v mod 64) mod 128) with (nb + v mod 64) by lia.
    replace (64 <=? nb + v mod 64) with neg by (rewrite <- Hnb'; lia).
    replace (128 + nb + v mod 64 <? 128) with false by lia.
    rewrite (i64_tail_gen limit Hlim 10 (v / 64) (v mod 64) 6 rest neg).
    + cbn [bind fst snd]. change (2 ^ 6) with 64.
      replace (v mod 64 + v / 64 * 64) with v by lia.
      rewrite finish_i64_small by exact Hv. rewrite <- Hzv. reflexivity.
    + lia.
    + apply N.div_lt_upper_bound; [lia|]. eapply N.lt_trans; [exact Hv|]. reflexivity.
    + change (2 ^ 6) with 64. lia.
    + change (2 ^ 6) with 64. change (2 ^ 64) with two64. unfold two63, two64 in *. lia.
  - replace (v / 64) with 0 by lia. rewrite write_var_i64_tail_0.
    replace ((0 + nb + v mod 64) mod 64) with v by lia.
    replace ((0 + nb + v mod 64) mod 128) with (nb + v mod 64) by lia.
    replace (64 <=? nb + v mod 64) with neg by (rewrite <- Hnb'; lia).
    replace (0 + nb + v mod 64 <? 128) with true by lia.
    cbn [bind fst snd].
    rewrite finish_i64_small by exact Hv. rewrite <- Hzv. reflexivity.
Qed.

Theorem var_i64_roundtrip : forall z rest, (- Z.of_N two63 < z < Z.of_N two63)%Z ->
  exists bs, write_var_i64 z = Some bs /\ read_var_i64 (bs ++ rest) = Ok z rest.
Proof.
  intros z rest Hz.
  destruct (var_i64_gen_roundtrip VARINT_LIMIT_READ_VAR_I64 z rest limit_i64_ok Hz) as (bs & Hw & Hr).
  exists bs. split; [exact Hw|]. unfold read_var_i64. rewrite Hr. reflexivity.
Qed.
Print Assumptions var_i64_roundtrip.

Theorem signed_roundtrip : forall z rest, (- Z.of_N two63 < z < Z.of_N two63)%Z ->
  exists bs, write_var_i64 z = Some bs /\ read_signed (bs ++ rest) = Ok (z, (z <? 0)%Z) rest.
Proof.
  intros z rest Hz. unfold read_signed. apply var_i64_gen_roundtrip; [exact limit_signed_ok|exact Hz].
Qed.
Print Assumptions signed_roundtrip.

(* the writer refuses exactly i64::MIN (and anything below, which is not an i64) *)
Theorem write_var_i64_none : forall z, write_var_i64 z = None <-> (z <= - Z.of_N two63)%Z.
Proof.
  intro z. unfold write_var_i64. destruct (Z.ltb_spec z (- Z.of_N two63 + 1)); split; intro H'; try lia;
  try reflexivity; discriminate.
Qed.

(* ------------------------------------------------------------------------------------------------ *)
(* the signed readers are total: wrapping shift and wrapping negation, no panic site is reachable   *)
(* ------------------------------------------------------------------------------------------------ *)

(* the inputs that used to hit `<< len` with len >= 64 and `-i64::MIN` *)
Definition shl_i64_witness : list N := [128; 128; 128; 128; 128; 128; 128; 128; 128; 128; 0].
Definition neg_i64_witness : list N := [192; 128; 128; 128; 128; 128; 128; 128; 128; 2].

Lemma shl_i64_checked_some : forall x len, exists sh, shl_i64_checked x len = Some sh.
Proof. intros x len. unfold shl_i64_checked. eexists. reflexivity. Qed.

Lemma finish_i64_some : forall pat neg, exists z, finish_i64 pat neg = Some z.
Proof.
  intros pat neg. unfold finish_i64. destruct neg; [destruct (pat =? two63)|]; eexists; reflexivity.
Qed.

Lemma read_var_i64_loop_total : forall limit bs num len neg,
  no_panic_fuel (read_var_i64_loop limit bs num len neg).
Proof.
  intro limit. induction bs as [|r rest IH]; intros num len neg; cbn [read_var_i64_loop].
  - exact I.
  - destruct (shl_i64_checked_some (r mod 128) len) as [sh ->].
    destruct (r <? 128); [exact I|]. destruct (limit <? len + 7); [exact I|]. apply IH.
Qed.

Lemma read_var_i64_gen_total : forall limit bs, no_panic_fuel (read_var_i64_gen limit bs).
Proof.
  intros limit bs. unfold read_var_i64_gen. destruct bs as [|r rest]; [exact I|].
  destruct (r <? 128).
  - cbn [bind fst snd]. destruct (finish_i64_some (r mod 64) (64 <=? r mod 128)) as [z ->]. exact I.
  - pose proof (read_var_i64_loop_total limit rest (r mod 64) 6 (64 <=? r mod 128)) as H.
    destruct (read_var_i64_loop limit rest (r mod 64) 6 (64 <=? r mod 128)) as [[p n] rest'| | |];
      cbn [bind fst snd]; try exact H; try exact I.
    destruct (finish_i64_some p n) as [z ->]. exact I.
Qed.

Theorem read_var_i64_total : forall bs,
  match read_var_i64 bs with Panic _ | Fuel => False | _ => True end.
Proof.
  intro bs. unfold read_var_i64, rmap. pose proof (read_var_i64_gen_total VARINT_LIMIT_READ_VAR_I64 bs) as H.
  destruct (read_var_i64_gen VARINT_LIMIT_READ_VAR_I64 bs); cbn [bind]; exact H.
Qed.
Print Assumptions read_var_i64_total.

Theorem read_signed_total : forall bs,
  match read_signed bs with Panic _ | Fuel => False | _ => True end.
Proof. intro bs. apply read_var_i64_gen_total. Qed.
Print Assumptions read_signed_total.

(* kept under the old name: the set of reachable panic sites is now empty *)
Theorem read_var_i64_panics : forall bs,
  match read_var_i64 bs with Panic _ | Fuel => False | _ => True end.
Proof. exact read_var_i64_total. Qed.
Print Assumptions read_var_i64_panics.

Theorem read_signed_panics : forall bs,
  match read_signed bs with Panic _ | Fuel => False | _ => True end.
Proof. exact read_signed_total. Qed.

(* the former panic witnesses now decode (wrapping semantics) *)
Example read_var_i64_former_witnesses :
  read_var_i64 shl_i64_witness = Ok 0%Z [] /\
  read_var_i64 neg_i64_witness = Ok (- Z.of_N two63)%Z [].
Proof. vm_compute. split; reflexivity. Qed.

(* ------------------------------------------------------------------------------------------------ *)
(* consumption of the signed reader (used by AnyProofs for the fuel bound)                          *)
(* ------------------------------------------------------------------------------------------------ *)

Lemma read_var_i64_loop_shrinks : forall limit bs num len neg p rest,
  read_var_i64_loop limit bs num len neg = Ok p rest -> (length rest < length bs)%nat.
Proof.
  intro limit. induction bs as [|r tl IH]; intros num len neg p rest H; cbn [read_var_i64_loop] in H.
  - discriminate.
  - destruct (shl_i64_checked (r mod 128) len); [|discriminate].
    destruct (r <? 128).
    + inversion H; subst. cbn [length]. lia.
    + destruct (limit <? len + 7); [discriminate|]. apply IH in H. cbn [length]. lia.
Qed.

Lemma read_var_i64_gen_shrinks : forall limit bs p rest,
  read_var_i64_gen limit bs = Ok p rest -> (length rest < length bs)%nat.
Proof.
  intros limit bs p rest H. unfold read_var_i64_gen in H. destruct bs as [|r tl]; [discriminate|].
  destruct (r <? 128).
  - cbn [bind fst snd] in H. destruct (finish_i64 _ _); [|discriminate]. inversion H; subst. cbn [length]. lia.
  - destruct (read_var_i64_loop limit tl (r mod 64) 6 (64 <=? r mod 128)) as [[q n] rest'| | |] eqn:E;
      cbn [bind fst snd] in H; try discriminate.
    destruct (finish_i64 q n); [|discriminate]. inversion H; subst.
    apply read_var_i64_loop_shrinks in E. cbn [length]. lia.
Qed.

Theorem read_var_i64_shrinks : forall bs z rest,
  read_var_i64 bs = Ok z rest -> (length rest < length bs)%nat.
Proof.
  intros bs z rest H. unfold read_var_i64, rmap in H.
  destruct (read_var_i64_gen VARINT_LIMIT_READ_VAR_I64 bs) as [p r| | |] eqn:E; cbn [bind] in H; try discriminate.
  inversion H; subst. eapply read_var_i64_gen_shrinks. exact E.
Qed.

Lemma read_var_loop_shrinks : forall shl limit bs num len v rest,
  read_var_loop shl limit bs num len = Ok v rest -> (length rest < length bs)%nat.
Proof.
  intros shl limit bs num len v rest H. apply read_var_loop_suffix in H.
  destruct H as (pre & -> & Hl & _). rewrite app_length. lia.
Qed.

Theorem read_var_u64_shrinks : forall bs v rest,
  read_var_u64 bs = Ok v rest -> (length rest < length bs)%nat.
Proof. intros bs v rest. apply read_var_loop_shrinks. Qed.

Theorem read_var_u32_shrinks : forall bs v rest,
  read_var_u32 bs = Ok v rest -> (length rest < length bs)%nat.
Proof. intros bs v rest. apply read_var_loop_shrinks. Qed.

Theorem read_exact_shrinks : forall n bs b rest,
  read_exact n bs = Ok b rest -> (length rest <= length bs)%nat /\ length b = N.to_nat n /\ bs = b ++ rest.
Proof.
  intros n bs b rest H. unfold read_exact in H.
  destruct (N.ltb_spec (N.of_nat (length bs)) n) as [Hl|Hl]; [discriminate|].
  inversion H; subst. rewrite skipn_length, firstn_length. split; [lia|]. split; [lia|].
  symmetry. apply firstn_skipn.
Qed.

Theorem read_buf_shrinks : forall bs b rest,
  read_buf bs = Ok b rest -> (length rest < length bs)%nat.
Proof.
  intros bs b rest H. unfold read_buf in H.
  destruct (read_var_u32 bs) as [len r| | |] eqn:E; cbn [bind] in H; try discriminate.
  apply read_var_u32_shrinks in E. apply read_exact_shrinks in H. lia.
Qed.

Theorem read_string_total : forall bs,
  match read_string bs with Panic _ | Fuel => False | _ => True end.
Proof.
  intro bs. unfold read_string. pose proof (read_buf_total bs) as H.
  destruct (read_buf bs) as [s rest| | |]; cbn [bind]; try exact H; try exact I.
  destruct (utf8_valid s); exact I.
Qed.
Print Assumptions read_string_total.

Theorem read_string_shrinks : forall bs s rest,
  read_string bs = Ok s rest -> (length rest < length bs)%nat.
Proof.
  intros bs s rest H. apply read_string_ok_valid in H. destruct H as [H _].
  eapply read_buf_shrinks. exact H.
Qed.
Print Assumptions read_string_shrinks.

(* ------------------------------------------------------------------------------------------------ *)
(* well-formed strings and binary payloads (shared by the later files)                              *)
(* ------------------------------------------------------------------------------------------------ *)

(* a binary payload: bytes, length fits the u32 length prefix *)
Definition wf_bin (b : list N) : bool := bytes_ok b && (N.of_nat (length b) <? two32).
(* a string: additionally well-formed UTF-8 (read_string rejects anything else) *)
Definition wf_str (s : list N) : bool := wf_bin s && utf8_valid s.

(* well-formed UTF-8 consists of bytes, so the bytes_ok conjunct of wf_str is implied *)
Lemma utf8_valid_fuel_bytes : forall fuel s, utf8_valid_fuel fuel s = true -> bytes_ok s = true.
Proof.
  unfold bytes_ok.
  induction fuel as [|f IH]; intros s H; cbn [utf8_valid_fuel] in H.
  - destruct s; [reflexivity|discriminate].
  - destruct s as [|b0 r]; [reflexivity|].
    unfold cont, in_range in H.
    repeat match type of H with
    | (if ?c then _ else _) = true => destruct c eqn:?
    | match ?l with [] => _ | _ :: _ => _ end = true => destruct l; [discriminate H|]
    end; try discriminate H;
    repeat (apply andb_prop in H; let H' := fresh "H" in destruct H as [H H']);
    cbn [forallb];
    match goal with Hr : utf8_valid_fuel f ?l = true |- _ => rewrite (IH l Hr) end; unfold is_byte; lia.
Qed.

Theorem utf8_valid_bytes_ok : forall s, utf8_valid s = true -> bytes_ok s = true.
Proof. intros s H. eapply utf8_valid_fuel_bytes. exact H. Qed.
Print Assumptions utf8_valid_bytes_ok.

Lemma wf_str_iff : forall s, wf_str s = true <-> N.of_nat (length s) < two32 /\ utf8_valid s = true.
Proof.
  intro s. unfold wf_str, wf_bin. split.
  - intro H. apply andb_prop in H. destruct H as [H Hu]. apply andb_prop in H. split; [lia|exact Hu].
  - intros [Hl Hu]. rewrite (utf8_valid_bytes_ok s Hu), Hu. cbn [andb]. rewrite andb_true_r. lia.
Qed.

Lemma wf_bin_len : forall b, wf_bin b = true -> N.of_nat (length b) < two32.
Proof. intros b H. unfold wf_bin in H. apply andb_prop in H. lia. Qed.

Lemma wf_str_len : forall s, wf_str s = true -> N.of_nat (length s) < two32.
Proof. intros s H. unfold wf_str in H. apply andb_prop in H. destruct H as [H _]. apply wf_bin_len. exact H. Qed.

Lemma wf_str_utf8 : forall s, wf_str s = true -> utf8_valid s = true.
Proof. intros s H. unfold wf_str in H. apply andb_prop in H. tauto. Qed.

Lemma bin_roundtrip : forall b rest, wf_bin b = true -> read_buf (write_buf b ++ rest) = Ok b rest.
Proof. intros b rest H. apply buf_roundtrip. apply wf_bin_len. exact H. Qed.

Lemma str_roundtrip : forall s rest, wf_str s = true -> read_string (write_string s ++ rest) = Ok s rest.
Proof. intros s rest H. apply string_roundtrip; [apply wf_str_len|apply wf_str_utf8]; exact H. Qed.

(* what read_string returns is a well-formed string as soon as the input consists of bytes *)
Lemma bytes_ok_app : forall a b, bytes_ok (a ++ b) = bytes_ok a && bytes_ok b.
Proof. intros a b. unfold bytes_ok. apply forallb_app. Qed.

Theorem read_string_wf : forall bs s rest, bytes_ok bs = true -> read_string bs = Ok s rest -> wf_str s = true.
Proof.
  intros bs s rest Hb H. apply read_string_ok_valid in H. destruct H as [H Hu].
  unfold read_buf in H. destruct (read_var_u32 bs) as [len r| | |] eqn:E; cbn [bind] in H; try discriminate.
  pose proof (read_var_u32_range _ _ _ E) as Hr.
  apply read_var_u32_suffix in E. destruct E as (pre & -> & _).
  apply read_exact_shrinks in H. destruct H as (_ & Hlen & ->).
  rewrite !bytes_ok_app in Hb. apply andb_prop in Hb. destruct Hb as [_ Hb]. apply andb_prop in Hb. destruct Hb as [Hs _].
  unfold wf_str, wf_bin. rewrite Hs, Hu. cbn [andb]. rewrite andb_true_r. lia.
Qed.
Print Assumptions read_string_wf.
