(* Round-trip and totality theorems for the lib0 v2 column codecs (V2Cols.v) and the v2 update codec (UpdateV2.v). *)
From Coq Require Import List NArith ZArith Bool Lia ZifyBool ZifyN ZifyNat.
From YV Require Import Gen.Consts Lib.Bytes Codec.Varint Codec.AnyCodec Codec.IdSetCodec Codec.UpdateV1 Ids.Ranges
  Codec.VarintProofs Codec.AnyProofs Codec.FramingProofs Codec.UpdateProofs.
From YV Require Import Codec.V2Cols Codec.UpdateV2.
Import ListNotations.
Open Scope N_scope.
Ltac Zify.zify_post_hook ::= Z.div_mod_to_equations.

(* ================================================================================================ *)
(* 0. a column decoder yields a list of values and ends at the end of the column                     *)
(* ================================================================================================ *)

Section Yields.
  Context {S V : Type}.
  Variable read : S -> list N -> res (V * S).

  Fixpoint yields (st : S) (bs : list N) (l : list V) : Prop :=
    match l with
    | [] => bs = []
    | v :: r => exists st' bs', read st bs = Ok (v, st') bs' /\ yields st' bs' r
    end.

  Lemma yields_read_n : forall l st bs, yields st bs l ->
    exists st', read_n read (length l) st bs = Ok (l, st') [].
  Proof.
    induction l as [|v l IH]; intros st bs H; cbn [yields length read_n] in *.
    - subst bs. exists st. reflexivity.
    - destruct H as (st' & bs' & Hr & Hy). destruct (IH _ _ Hy) as (st'' & Hn).
      exists st''. rewrite Hr. cbn [bind fst snd]. rewrite Hn. reflexivity.
  Qed.
End Yields.

Lemma repeat_snoc : forall A (x : A) k l, repeat x (S k) ++ l = repeat x k ++ x :: l.
Proof.
  intros A x k l. induction k as [|k IH]; [reflexivity|].
  change (repeat x (S (S k))) with (x :: repeat x (S k)). cbn [app]. rewrite IH. reflexivity.
Qed.

(* ================================================================================================ *)
(* 1. two's complement helpers                                                                       *)
(* ================================================================================================ *)

Lemma to_i32_range : forall n, n < two32 -> (- Ztwo31 <= to_i32 n < Ztwo31)%Z.
Proof. intros n H. unfold to_i32, two31, two32, Ztwo31, Ztwo32 in *. destruct (N.ltb_spec n 2147483648); lia. Qed.

Lemma of_i32_range : forall z, of_i32 z < two32.
Proof. intro z. unfold of_i32, two32, Ztwo32. lia. Qed.

Lemma of_to_i32 : forall n, n < two32 -> of_i32 (to_i32 n) = n.
Proof. intros n H. unfold of_i32, to_i32, two31, two32, Ztwo32 in *. destruct (N.ltb_spec n 2147483648); lia. Qed.

Lemma to_of_i32 : forall z, (- Ztwo31 <= z < Ztwo31)%Z -> to_i32 (of_i32 z) = z.
Proof.
  intros z H. unfold of_i32, to_i32, two31, Ztwo31, Ztwo32 in *.
  destruct (N.ltb_spec (Z.to_N (z mod 4294967296)) 2147483648); lia.
Qed.

Lemma wrap_i32_small : forall z, (- Ztwo31 <= z < Ztwo31)%Z -> wrap_i32 z = z.
Proof. intros z H. unfold wrap_i32. apply to_of_i32. exact H. Qed.

Lemma wrap_i32_range : forall z, (- Ztwo31 <= wrap_i32 z < Ztwo31)%Z.
Proof. intro z. unfold wrap_i32. apply to_i32_range. apply of_i32_range. Qed.

(* of_i32 only depends on the class modulo 2^32 *)
Lemma of_i32_wrap : forall z, of_i32 (wrap_i32 z) = of_i32 z.
Proof. intro z. unfold wrap_i32. rewrite of_to_i32 by apply of_i32_range. reflexivity. Qed.

Lemma of_i32_add_wrap : forall a z, of_i32 (a + wrap_i32 z) = of_i32 (a + z).
Proof.
  intros a z. unfold wrap_i32, of_i32, to_i32, two31, Ztwo32.
  destruct (N.ltb_spec (Z.to_N (z mod 4294967296)) 2147483648); lia.
Qed.

(* ================================================================================================ *)
(* 2. UIntOptRle round trip                                                                          *)
(* ================================================================================================ *)

(* the bytes the encoder will still append, given its pending run (last, count) and the values to come *)
Fixpoint uint_emit (last count : N) (l : list N) : option (list N) :=
  match l with
  | [] => uint_run_bytes last count
  | v :: r =>
    if last =? v then uint_emit last (count + 1) r
    else match uint_run_bytes last count, uint_emit v 1 r with
         | Some a, Some b => Some (a ++ b)
         | _, _ => None
         end
  end.

Lemma uint_fold_none : forall l, fold_left uint_write_opt l None = None.
Proof. induction l as [|v l IH]; [reflexivity|exact IH]. Qed.

Definition uint_finish (o : option uint_enc) : option (list N) :=
  match o with Some e => uint_to_bytes e | None => None end.

Lemma uint_fold_emit : forall l e,
  uint_finish (fold_left uint_write_opt l (Some e)) =
  match uint_emit (ue_last e) (ue_count e) l with Some b => Some (ue_buf e ++ b) | None => None end.
Proof.
  induction l as [|v l IH]; intro e.
  - cbn [fold_left uint_finish uint_emit]. unfold uint_to_bytes, uint_flush.
    destruct (uint_run_bytes (ue_last e) (ue_count e)); reflexivity.
  - cbn [fold_left uint_emit]. unfold uint_write_opt at 2. unfold uint_write.
    destruct (ue_last e =? v) eqn:E.
    + rewrite IH. cbn [ue_last ue_count ue_buf]. reflexivity.
    + unfold uint_flush. destruct (uint_run_bytes (ue_last e) (ue_count e)) as [a|].
      * rewrite IH. cbn [ue_last ue_count ue_buf].
        destruct (uint_emit v 1 l); [rewrite app_assoc; reflexivity|reflexivity].
      * rewrite uint_fold_none. reflexivity.
Qed.

Lemma uint_encode_emit : forall l, uint_encode l = uint_emit 0 0 l.
Proof.
  intro l. change (uint_encode l) with (uint_finish (fold_left uint_write_opt l (Some uint_init))).
  rewrite uint_fold_emit. cbn [uint_init ue_last ue_count ue_buf app].
  destruct (uint_emit 0 0 l); reflexivity.
Qed.

Lemma uint_read_pending : forall st bs, ud_count st <> 0 ->
  uint_read st bs = Ok (ud_last st, {| ud_last := ud_last st; ud_count := ud_count st - 1 |}) bs.
Proof. intros st bs H. unfold uint_read. replace (ud_count st =? 0) with false by lia. reflexivity. Qed.

Lemma yields_uint_pending : forall j last bs l,
  yields uint_read {| ud_last := last; ud_count := 0 |} bs l ->
  yields uint_read {| ud_last := last; ud_count := N.of_nat j |} bs (repeat last j ++ l).
Proof.
  induction j as [|j IH]; intros last bs l H; [exact H|].
  cbn [repeat app yields]. eexists. eexists. split.
  - rewrite uint_read_pending by (cbn [ud_count]; lia). cbn [ud_last ud_count]. rewrite of_nat_S_pred. reflexivity.
  - apply IH. exact H.
Qed.

Lemma read_signed_negzero : forall rest, read_signed (64 :: rest) = Ok (0%Z, true) rest.
Proof. intro rest. reflexivity. Qed.

Lemma read_count2_roundtrip : forall c rest, 2 <= c -> c < two32 ->
  read_count2 (write_var_u32 (c - 2) ++ rest) = Ok c rest.
Proof.
  intros c rest H2 Hc. unfold read_count2. rewrite var_u32_roundtrip by lia. cbn [bind].
  unfold add32_checked. replace (c - 2 + 2) with c by lia. replace (c <? two32) with true by lia. reflexivity.
Qed.

Lemma of_i64_small : forall n, n < two63 -> of_i64 (Z.of_N n) = n.
Proof. intros n H. unfold of_i64, two63, Ztwo64 in *. lia. Qed.

Lemma uint_run_read : forall last k rest st,
  last < two63 -> (1 <= k)%nat -> N.of_nat k < two32 -> ud_count st = 0 ->
  exists a, uint_run_bytes last (N.of_nat k) = Some a /\
            uint_read st (a ++ rest) = Ok (last, {| ud_last := last; ud_count := N.of_nat k - 1 |}) rest.
Proof.
  intros last k rest st Hl Hk Hk32 Hst. unfold uint_run_bytes.
  replace (N.of_nat k =? 0) with false by lia.
  assert (Hi : to_i64 last = Z.of_N last) by (unfold to_i64; replace (last <? two63) with true by lia; reflexivity).
  rewrite Hi. unfold uint_read. rewrite Hst. change (0 =? 0) with true. cbv iota.
  destruct (N.eqb_spec (N.of_nat k) 1) as [E1|E1].
  - destruct (signed_roundtrip (Z.of_N last) rest) as (bs & Hw & Hr); [unfold two63 in *; lia|].
    exists bs. split; [exact Hw|]. rewrite Hr. cbn [bind fst snd].
    replace (Z.of_N last <? 0)%Z with false by lia. cbn [bind fst snd].
    rewrite of_i64_small by exact Hl. rewrite E1. reflexivity.
  - replace (Z.of_N last <=? - Ztwo63)%Z with false by (unfold Ztwo63; lia).
    unfold write_signed_i64. replace (- Z.of_N last <=? - Ztwo63)%Z with false by (unfold two63, Ztwo63 in *; lia).
    cbn [andb]. rewrite Z.opp_involutive.
    destruct (N.eq_dec last 0) as [->|Hnz].
    + eexists. split; [reflexivity|]. cbn [app]. rewrite read_signed_negzero. cbn [bind fst snd].
      change (write_var_i64_tail 10 (Z.to_N (Z.of_N 0 / 64))) with (@nil N). cbn [app].
      rewrite read_count2_roundtrip by lia. cbn [bind fst snd]. reflexivity.
    + destruct (signed_roundtrip (- Z.of_N last)%Z (write_var_u32 (N.of_nat k - 2) ++ rest)) as (bs & Hw & Hr);
        [unfold two63 in *; lia|].
      unfold write_var_i64 in Hw.
      replace (- Z.of_N last <? - Z.of_N two63 + 1)%Z with false in Hw by (unfold two63 in *; lia).
      replace (- Z.of_N last <? 0)%Z with true in Hw, Hr by lia.
      replace (Z.to_N (Z.abs (- Z.of_N last))) with last in Hw by lia.
      apply some_inj in Hw.
      eexists. split; [reflexivity|].
      replace (if (63 <? Z.of_N last)%Z then 128 else 0) with (if 63 <? last then 128 else 0)
        by (destruct (N.ltb_spec 63 last), (Z.ltb_spec 63 (Z.of_N last)); lia).
      replace (Z.to_N (Z.of_N last mod 64)) with (last mod 64) by lia.
      replace (Z.to_N (Z.of_N last / 64)) with (last / 64) by lia.
      rewrite Hw. rewrite <- app_assoc. rewrite Hr. cbn [bind fst snd].
      rewrite read_count2_roundtrip by lia. cbn [bind fst snd].
      rewrite Z.opp_involutive. rewrite of_i64_small by exact Hl. reflexivity.
Qed.

Definition uint_vals_ok (l : list N) : bool := forallb (fun v => v <? two63) l.

Lemma uint_emit_yields : forall l last k,
  last < two63 -> uint_vals_ok l = true -> (1 <= k)%nat -> N.of_nat (k + length l) < two32 ->
  exists b, uint_emit last (N.of_nat k) l = Some b /\
            forall st, ud_count st = 0 -> yields uint_read st b (repeat last k ++ l).
Proof.
  induction l as [|v l IH]; intros last k Hl Hok Hk Hlen.
  - cbn [uint_emit length] in *.
    destruct (uint_run_read last k [] {| ud_last := 0; ud_count := 0 |} Hl Hk) as (a & Ha & _); [lia|reflexivity|].
    exists a. split; [exact Ha|]. intros st Hst.
    destruct (uint_run_read last k [] st Hl Hk) as (a' & Ha' & Hr); [lia|exact Hst|].
    rewrite Ha in Ha'. apply some_inj in Ha'. subst a'. rewrite app_nil_r in Hr.
    destruct k as [|j]; [lia|]. cbn [repeat app yields]. eexists. eexists. split; [exact Hr|].
    rewrite of_nat_S_pred. apply (yields_uint_pending j last [] []). reflexivity.
  - cbn [uint_vals_ok forallb] in Hok. apply andb_prop in Hok. destruct Hok as [Hv Hok].
    cbn [length] in Hlen. cbn [uint_emit].
    destruct (N.eqb_spec last v) as [<-|Hne].
    + destruct (IH last (S k) Hl Hok) as (b & Hb & Hy); [lia|lia|].
      replace (N.of_nat k + 1) with (N.of_nat (S k)) by lia.
      exists b. split; [exact Hb|]. intros st Hst. rewrite <- repeat_snoc. apply Hy. exact Hst.
    + destruct (IH v 1%nat) as (b & Hb & Hy); [lia|exact Hok|lia|lia|].
      destruct (uint_run_read last k b {| ud_last := 0; ud_count := 0 |} Hl Hk) as (a & Ha & _); [lia|reflexivity|].
      rewrite Ha. change (N.of_nat 1) with 1 in Hb. rewrite Hb.
      exists (a ++ b). split; [reflexivity|]. intros st Hst.
      destruct (uint_run_read last k b st Hl Hk) as (a' & Ha' & Hr); [lia|exact Hst|].
      rewrite Ha in Ha'. apply some_inj in Ha'. subst a'.
      destruct k as [|j]; [lia|]. cbn [repeat app yields]. eexists. eexists. split; [exact Hr|].
      rewrite of_nat_S_pred. apply yields_uint_pending. apply (Hy {| ud_last := last; ud_count := 0 |}). reflexivity.
Qed.

Lemma uint_encode_yields : forall l,
  uint_vals_ok l = true -> N.of_nat (length l) < two32 ->
  exists b, uint_encode l = Some b /\ forall st, ud_count st = 0 -> yields uint_read st b l.
Proof.
  intros l Hok Hlen. rewrite uint_encode_emit. destruct l as [|v l].
  - exists []. split; [reflexivity|]. intros st _. reflexivity.
  - cbn [uint_vals_ok forallb] in Hok. apply andb_prop in Hok. destruct Hok as [Hv Hok]. cbn [length] in Hlen.
    cbn [uint_emit]. destruct (N.eqb_spec 0 v) as [<-|Hne].
    + destruct (uint_emit_yields l 0 1%nat) as (b & Hb & Hy); [reflexivity|exact Hok|lia|lia|].
      exists b. split; [exact Hb|]. exact Hy.
    + destruct (uint_emit_yields l v 1%nat) as (b & Hb & Hy); [lia|exact Hok|lia|lia|].
      change (N.of_nat 1) with 1 in Hb. change (uint_run_bytes 0 0) with (Some (@nil N)). rewrite Hb.
      exists b. split; [reflexivity|]. exact Hy.
Qed.

(* (a) every list of values below 2^63 (shorter than 2^32) comes back, and the column is consumed entirely *)
Theorem uint_roundtrip : forall l,
  uint_vals_ok l = true -> N.of_nat (length l) < two32 ->
  exists b st, uint_encode l = Some b /\ uint_decode (length l) b = Ok (l, st) [].
Proof.
  intros l Hok Hlen. destruct (uint_encode_yields l Hok Hlen) as (b & Hb & Hy).
  destruct (yields_read_n uint_read l uint_st0 b (Hy uint_st0 eq_refl)) as (st & Hn).
  exists b, st. split; [exact Hb|exact Hn].
Qed.
Print Assumptions uint_roundtrip.

(* ================================================================================================ *)
(* 3. IntDiffOptRle round trip                                                                       *)
(* ================================================================================================ *)

Fixpoint idiff_emit (last : N) (diff : Z) (count : N) (l : list N) : list N :=
  match l with
  | [] => idiff_run_bytes diff count
  | v :: r =>
    let d := wrap_i32 (to_i32 v - to_i32 last) in
    if (diff =? d)%Z then idiff_emit v diff (count + 1) r
    else idiff_run_bytes diff count ++ idiff_emit v d 1 r
  end.

Lemma idiff_fold_emit : forall l e,
  idiff_to_bytes (fold_left idiff_write l e) = ie_buf e ++ idiff_emit (ie_last e) (ie_diff e) (ie_count e) l.
Proof.
  induction l as [|v l IH]; intro e.
  - reflexivity.
  - cbn [fold_left idiff_emit]. rewrite IH. unfold idiff_write.
    destruct (ie_diff e =? wrap_i32 (to_i32 v - to_i32 (ie_last e)))%Z.
    + reflexivity.
    + cbn [idiff_flush ie_buf ie_last ie_count ie_diff]. rewrite app_assoc. reflexivity.
Qed.

Lemma idiff_encode_emit : forall l, idiff_encode l = idiff_emit 0 0 0 l.
Proof. intro l. unfold idiff_encode. rewrite idiff_fold_emit. reflexivity. Qed.

(* the only condition on the values: they are u32 (the i32 difference is widened to i64 before `<< 1`, /repo
   d9039ca, so differences of 2^30 and above survive) *)
Definition idiff_vals_ok (l : list N) : bool := forallb (fun v => v <? two32) l.

(* k values at distance d, starting after x *)
Fixpoint arith (x : N) (d : Z) (k : nat) : list N :=
  match k with O => [] | S j => let y := of_i32 (to_i32 x + d) in y :: arith y d j end.
Fixpoint arith_end (x : N) (d : Z) (k : nat) : N :=
  match k with O => x | S j => arith_end (of_i32 (to_i32 x + d)) d j end.

Lemma arith_snoc : forall k x d,
  arith x d (S k) = arith x d k ++ [of_i32 (to_i32 (arith_end x d k) + d)] /\
  arith_end x d (S k) = of_i32 (to_i32 (arith_end x d k) + d).
Proof.
  induction k as [|k IH]; intros x d; [split; reflexivity|].
  destruct (IH (of_i32 (to_i32 x + d)) d) as [H1 H2]. split.
  - change (arith x d (S (S k))) with (of_i32 (to_i32 x + d) :: arith (of_i32 (to_i32 x + d)) d (S k)).
    rewrite H1. reflexivity.
  - change (arith_end x d (S (S k))) with (arith_end (of_i32 (to_i32 x + d)) d (S k)). rewrite H2. reflexivity.
Qed.

Lemma arith_end_lt : forall k x d, x < two32 -> arith_end x d k < two32.
Proof. induction k as [|k IH]; intros x d H; [exact H|]. cbn [arith_end]. apply IH. apply of_i32_range. Qed.

Lemma idiff_read_pending : forall st bs, id_count st <> 0 ->
  idiff_read st bs =
  Ok (of_i32 (to_i32 (id_last st) + id_diff st),
      {| id_last := of_i32 (to_i32 (id_last st) + id_diff st); id_count := id_count st - 1; id_diff := id_diff st |}) bs.
Proof. intros st bs H. unfold idiff_read. replace (id_count st =? 0) with false by lia. reflexivity. Qed.

Lemma yields_idiff_pending : forall j x d bs l,
  yields idiff_read {| id_last := arith_end x d j; id_count := 0; id_diff := d |} bs l ->
  yields idiff_read {| id_last := x; id_count := N.of_nat j; id_diff := d |} bs (arith x d j ++ l).
Proof.
  induction j as [|j IH]; intros x d bs l H; [exact H|].
  cbn [arith app yields]. eexists. eexists. split.
  - rewrite idiff_read_pending by (cbn [id_count]; lia). cbn [id_last id_count id_diff]. rewrite of_nat_S_pred. reflexivity.
  - apply IH. exact H.
Qed.

Lemma idiff_run_read : forall diff k rest st,
  (- Ztwo31 <= diff < Ztwo31)%Z -> (1 <= k)%nat -> N.of_nat k < two32 -> id_count st = 0 ->
  idiff_read st (idiff_run_bytes diff (N.of_nat k) ++ rest) =
  Ok (of_i32 (to_i32 (id_last st) + diff),
      {| id_last := of_i32 (to_i32 (id_last st) + diff); id_count := N.of_nat k - 1; id_diff := diff |}) rest.
Proof.
  intros diff k rest st Hd Hk Hk32 Hst. unfold idiff_run_bytes.
  replace (N.of_nat k =? 0) with false by lia.
  unfold idiff_read. rewrite Hst. change (0 =? 0) with true. cbv iota.
  destruct (N.eqb_spec (N.of_nat k) 1) as [E1|E1].
  - replace (1 <? N.of_nat k) with false by lia. rewrite app_nil_r.
    destruct (var_i64_roundtrip (2 * diff + 0)%Z rest) as (bs & Hw & Hr); [unfold two63, Ztwo31 in *; lia|].
    unfold write_var_i64_bytes. rewrite Hw. rewrite Hr. cbn [bind].
    replace (Z.odd (2 * diff + 0)) with false
      by (rewrite Z.add_0_r, Z.odd_mul; reflexivity).
    cbn [bind fst snd]. replace ((2 * diff + 0) / 2)%Z with diff by lia.
    rewrite wrap_i32_small by exact Hd. rewrite E1. reflexivity.
  - replace (1 <? N.of_nat k) with true by lia.
    destruct (var_i64_roundtrip (2 * diff + 1)%Z (write_var_u32 (N.of_nat k - 2) ++ rest)) as (bs & Hw & Hr);
      [unfold two63, Ztwo31 in *; lia|].
    unfold write_var_i64_bytes. rewrite Hw. rewrite <- app_assoc. rewrite Hr. cbn [bind].
    replace (Z.odd (2 * diff + 1)) with true
      by (rewrite Z.odd_add, Z.odd_mul; reflexivity).
    rewrite read_count2_roundtrip by lia.
    cbn [bind fst snd]. replace ((2 * diff + 1) / 2)%Z with diff by lia.
    rewrite wrap_i32_small by exact Hd. reflexivity.
Qed.

Lemma idiff_next_value : forall v last, v < two32 ->
  of_i32 (to_i32 last + wrap_i32 (to_i32 v - to_i32 last)) = v.
Proof.
  intros v last Hv. rewrite of_i32_add_wrap.
  replace (to_i32 last + (to_i32 v - to_i32 last))%Z with (to_i32 v) by lia. apply of_to_i32. exact Hv.
Qed.

Lemma idiff_emit_yields : forall l x diff k,
  (- Ztwo31 <= diff < Ztwo31)%Z -> (1 <= k)%nat -> N.of_nat (k + length l) < two32 ->
  idiff_vals_ok l = true ->
  forall st, id_count st = 0 -> id_last st = x ->
  yields idiff_read st (idiff_emit (arith_end x diff k) diff (N.of_nat k) l) (arith x diff k ++ l).
Proof.
  induction l as [|v l IH]; intros x diff k Hd Hk Hlen Hok st Hst Hx.
  - cbn [idiff_emit]. rewrite <- (app_nil_r (idiff_run_bytes diff (N.of_nat k))).
    destruct k as [|j]; [lia|]. cbn [arith app yields]. eexists. eexists. split.
    + rewrite idiff_run_read by (try assumption; cbn [length] in Hlen; lia). rewrite Hx. reflexivity.
    + rewrite of_nat_S_pred. apply (yields_idiff_pending j _ diff [] []). reflexivity.
  - cbn [idiff_vals_ok forallb] in Hok. apply andb_prop in Hok. destruct Hok as [Hv Hok']. fold (idiff_vals_ok l) in Hok'.
    cbn [length] in Hlen. cbn [idiff_emit]. set (last := arith_end x diff k) in *.
    pose proof (wrap_i32_range (to_i32 v - to_i32 last)) as Hd'.
    set (d := wrap_i32 (to_i32 v - to_i32 last)) in *.
    assert (Hnext : of_i32 (to_i32 last + d) = v) by (apply idiff_next_value; lia).
    destruct (Z.eqb_spec diff d) as [E|E].
    + destruct (arith_snoc k x diff) as [H1 H2]. fold last in H1, H2. rewrite <- E in Hnext.
      rewrite Hnext in H1, H2.
      replace (idiff_emit v diff (N.of_nat k + 1) l) with (idiff_emit (arith_end x diff (S k)) diff (N.of_nat (S k)) l)
        by (rewrite H2; f_equal; lia).
      replace (arith x diff k ++ v :: l) with (arith x diff (S k) ++ l) by (rewrite H1, <- app_assoc; reflexivity).
      apply (IH x diff (S k)); try assumption; try lia.
    + destruct k as [|j]; [lia|]. cbn [arith app yields]. eexists. eexists. split.
      * rewrite idiff_run_read by (try assumption; lia). rewrite Hx. reflexivity.
      * rewrite of_nat_S_pred. apply yields_idiff_pending.
        change (arith_end (of_i32 (to_i32 x + diff)) diff j) with last.
        assert (Hend : arith_end last d 1 = v) by (cbn [arith_end]; exact Hnext).
        assert (Har : arith last d 1 = [v]) by (cbn [arith]; rewrite Hnext; reflexivity).
        change (v :: l) with ([v] ++ l). rewrite <- Har. rewrite <- Hend at 1.
        change 1 with (N.of_nat 1).
        apply IH; try assumption; try reflexivity; try lia.
Qed.

Lemma idiff_encode_yields : forall l,
  idiff_vals_ok l = true -> N.of_nat (length l) < two32 ->
  forall st, id_count st = 0 -> id_last st = 0 -> yields idiff_read st (idiff_encode l) l.
Proof.
  intros l Hok Hlen st Hst Hl0. rewrite idiff_encode_emit. destruct l as [|v l].
  - reflexivity.
  - cbn [idiff_vals_ok forallb] in Hok. apply andb_prop in Hok. destruct Hok as [Hv Hok']. fold (idiff_vals_ok l) in Hok'.
    cbn [length] in Hlen. cbn [idiff_emit].
    pose proof (wrap_i32_range (to_i32 v - to_i32 0)) as Hd.
    set (d := wrap_i32 (to_i32 v - to_i32 0)) in *.
    assert (Hnext : of_i32 (to_i32 0 + d) = v) by (apply idiff_next_value; lia).
    assert (Hend : arith_end 0 d 1 = v) by (cbn [arith_end]; exact Hnext).
    assert (Har : arith 0 d 1 = [v]) by (cbn [arith]; rewrite Hnext; reflexivity).
    assert (Hgoal : yields idiff_read st (idiff_emit v d 1 l) (v :: l)).
    { change (v :: l) with ([v] ++ l). rewrite <- Har. rewrite <- Hend at 1. change 1 with (N.of_nat 1).
      apply idiff_emit_yields; try assumption; try lia. }
    destruct (Z.eqb_spec 0 d) as [E|E].
    + rewrite <- E in Hgoal. exact Hgoal.
    + exact Hgoal.
Qed.

(* (a) every list of u32 values comes back, whatever the differences between consecutive values *)
Theorem idiff_roundtrip : forall l,
  idiff_vals_ok l = true -> N.of_nat (length l) < two32 ->
  exists st, idiff_decode (length l) (idiff_encode l) = Ok (l, st) [].
Proof.
  intros l Hok Hlen. apply (yields_read_n idiff_read l idiff_st0). apply idiff_encode_yields; try assumption; reflexivity.
Qed.
Print Assumptions idiff_roundtrip.

(* differences of 2^30 and above, which the `<< 1` in i32 used to corrupt (before /repo d9039ca) *)
Example idiff_wide_differences :
  idiff_decode 1 (idiff_encode [1073741824]) = Ok ([1073741824], {| id_last := 1073741824; id_count := 0; id_diff := 1073741824%Z |}) [] /\
  rmap fst (idiff_decode 7 (idiff_encode [3000000000; 7; 4000000000; 4294967290; 0; 2147483648; 0])) =
    Ok [3000000000; 7; 4000000000; 4294967290; 0; 2147483648; 0] [].
Proof. split; vm_compute; reflexivity. Qed.

(* malformed stream: the decoder accepts any i64 and keeps the low 32 bits of `diff >> 1` (the truncating cast).
   [128; 128; 128; 128; 64] is the var-int 2^33 (no count flag): diff >> 1 = 2^32, as i32 = 0; the second is 2^33 + 2 *)
Example idiff_truncating_cast :
  idiff_read idiff_st0 [128; 128; 128; 128; 64] = Ok (0, {| id_last := 0; id_count := 0; id_diff := 0%Z |}) [] /\
  idiff_read idiff_st0 [130; 128; 128; 128; 64] = Ok (1, {| id_last := 1; id_count := 0; id_diff := 1%Z |}) [].
Proof. split; vm_compute; reflexivity. Qed.

(* ================================================================================================ *)
(* 4. Rle round trip                                                                                 *)
(* ================================================================================================ *)

(* the bytes still to come after the value byte of the current run *)
Fixpoint rle_emit (last count : N) (l : list N) : list N :=
  match l with
  | [] => []
  | v :: r =>
    if last =? v then rle_emit last (count + 1) r
    else write_var_u32 (count - 1) ++ [v] ++ rle_emit v 1 r
  end.

Lemma rle_fold_emit : forall l e v, re_last e = Some v -> 0 < re_count e ->
  rle_to_bytes (fold_left rle_write l e) = re_buf e ++ rle_emit v (re_count e) l.
Proof.
  induction l as [|x l IH]; intros e v Hl Hc.
  - cbn [fold_left rle_emit]. rewrite app_nil_r. reflexivity.
  - cbn [fold_left rle_emit]. unfold rle_write at 2. rewrite Hl. cbv beta iota.
    destruct (v =? x) eqn:E.
    + rewrite (IH _ v) by (cbn [re_last re_count]; first [reflexivity|assumption|lia]). reflexivity.
    + rewrite (IH _ x) by (cbn [re_last re_count]; first [reflexivity|lia]). cbn [re_buf re_count].
      replace (0 <? re_count e) with true by lia. rewrite <- !app_assoc. reflexivity.
Qed.

Lemma rle_encode_emit : forall v l, rle_encode (v :: l) = v :: rle_emit v 1 l.
Proof.
  intros v l. unfold rle_encode. cbn [fold_left]. rewrite (rle_fold_emit l _ v); reflexivity.
Qed.

Lemma rle_read_pending : forall st bs, rd_count st <> 0%Z -> (- Ztwo31 < rd_count st <= Ztwo31)%Z ->
  rle_read st bs = Ok (rd_last st, {| rd_last := rd_last st; rd_count := (rd_count st - 1)%Z |}) bs.
Proof.
  intros st bs H0 Hm. unfold rle_read. replace (rd_count st =? 0)%Z with false by lia. cbn [bind fst snd].
  rewrite wrap_i32_small by lia. reflexivity.
Qed.

(* positive count: j more copies, then the next run *)
Lemma yields_rle_pending : forall j v bs l, (Z.of_nat j <= Ztwo31)%Z ->
  yields rle_read {| rd_last := v; rd_count := 0%Z |} bs l ->
  yields rle_read {| rd_last := v; rd_count := Z.of_nat j |} bs (repeat v j ++ l).
Proof.
  induction j as [|j IH]; intros v bs l Hj H; [exact H|].
  cbn [repeat app yields]. eexists. eexists. split.
  - rewrite rle_read_pending by (cbn [rd_count]; unfold Ztwo31 in *; lia). cbn [rd_last rd_count].
    replace (Z.of_nat (S j) - 1)%Z with (Z.of_nat j) by lia. reflexivity.
  - apply IH; [lia|exact H].
Qed.

(* negative count (last run): the value is repeated; the counter stays negative for 2^31 - 1 reads *)
Lemma yields_rle_forever : forall j v c,
  (c < 0)%Z -> (- Ztwo31 < c - Z.of_nat j + 1)%Z ->
  yields rle_read {| rd_last := v; rd_count := c |} [] (repeat v j).
Proof.
  induction j as [|j IH]; intros v c Hc Hm; [reflexivity|].
  cbn [repeat yields]. eexists. eexists. split.
  - rewrite rle_read_pending by (cbn [rd_count]; unfold Ztwo31 in *; lia). cbn [rd_last rd_count]. reflexivity.
  - apply IH; lia.
Qed.

Lemma write_var_u32_cons : forall v, exists b t, write_var_u32 v = b :: t.
Proof.
  intro v. pose proof (write_var_u32_length v) as H. destruct (write_var_u32 v) as [|b t]; [cbn [length] in H; lia|eauto].
Qed.

Lemma rle_emit_yields : forall l v k st,
  (1 <= k)%nat -> N.of_nat (k + length l) < two31 -> rd_count st = 0%Z ->
  yields rle_read st (v :: rle_emit v (N.of_nat k) l) (repeat v k ++ l).
Proof.
  induction l as [|x l IH]; intros v k st Hk Hlen Hst.
  - cbn [rle_emit length] in *. rewrite app_nil_r. destruct k as [|j]; [lia|].
    cbn [repeat yields]. eexists. eexists. split.
    + unfold rle_read. rewrite Hst. reflexivity.
    + cbn [snd]. rewrite wrap_i32_small by (unfold Ztwo31; lia).
      apply yields_rle_forever; unfold Ztwo31, two31 in *; lia.
  - cbn [length] in Hlen. cbn [rle_emit]. destruct (N.eqb_spec v x) as [<-|Hne].
    + replace (N.of_nat k + 1) with (N.of_nat (S k)) by lia. rewrite <- repeat_snoc. apply IH; try assumption; lia.
    + destruct k as [|j]; [lia|]. cbn [repeat app yields]. eexists. eexists. split.
      * unfold rle_read. rewrite Hst. change (0 =? 0)%Z with true. cbv iota. cbn [read_u8 bind].
        destruct (write_var_u32_cons (N.of_nat (S j) - 1)) as (b & t & Hbt).
        assert (Hm : forall (X : Type) (rest : list N) (a c : X),
                   match write_var_u32 (N.of_nat (S j) - 1) ++ rest with [] => a | _ :: _ => c end = c)
          by (intros; rewrite Hbt; reflexivity).
        rewrite Hm.
        rewrite var_u32_roundtrip by (unfold two31, two32 in *; lia). cbn [bind fst snd].
        assert (Hc : wrap_i32 (to_i32 (N.of_nat (S j) - 1) + 1) = Z.of_nat (S j)).
        { rewrite wrap_i32_small; unfold to_i32, two31, Ztwo31 in *;
            replace (N.of_nat (S j) - 1 <? 2147483648) with true by lia; lia. }
        rewrite Hc. rewrite wrap_i32_small by (unfold Ztwo31, two31 in *; lia).
        replace (Z.of_nat (S j) - 1)%Z with (Z.of_nat j) by lia. reflexivity.
      * apply yields_rle_pending; [unfold Ztwo31, two31 in *; lia|]. apply (IH x 1%nat); try reflexivity; lia.
Qed.

(* (a) every list shorter than 2^31 comes back (the values are u8 in Rust; the model does not need it) *)
Theorem rle_encode_yields : forall l st, N.of_nat (length l) < two31 -> rd_count st = 0%Z ->
  yields rle_read st (rle_encode l) l.
Proof.
  intros l st Hlen Hst. destruct l as [|v l]; [reflexivity|].
  rewrite rle_encode_emit. cbn [length] in Hlen.
  apply (rle_emit_yields l v 1%nat st); try assumption; lia.
Qed.

Theorem rle_roundtrip : forall l, N.of_nat (length l) < two31 ->
  exists st, rle_decode (length l) (rle_encode l) = Ok (l, st) [].
Proof. intros l Hlen. apply (yields_read_n rle_read l rle_st0). apply rle_encode_yields; [exact Hlen|reflexivity]. Qed.
Print Assumptions rle_roundtrip.

(* ================================================================================================ *)
(* 5. DecoderV2::read_usize / read_buf on what write_buf produces                                    *)
(* ================================================================================================ *)

Lemma shl_usize_exact : forall x len, x * 2 ^ len < 2 ^ 64 -> (N.shiftl x len) mod two64 = x * 2 ^ len.
Proof. intros x len H. rewrite N.shiftl_mul_pow2. change two64 with (2 ^ 64). apply N.mod_small. exact H. Qed.

Lemma read_usize_last : forall v acc len rest,
  v < 128 -> acc < 2 ^ len -> v * 2 ^ len < 2 ^ 64 -> len < 64 ->
  read_usize_loop (v :: rest) acc len = Ok (acc + v * 2 ^ len) rest.
Proof.
  intros v acc len rest Hv Hacc Hb Hlen. cbn [read_usize_loop].
  replace (64 <=? len) with false by lia.
  rewrite (N.mod_small v 128) by exact Hv. replace (v <? 128) with true by lia.
  rewrite shl_usize_exact by exact Hb. rewrite lor_disjoint_add by exact Hacc. reflexivity.
Qed.

Lemma read_usize_gen : forall fuel v acc len rest,
  v < 128 ^ N.of_nat (S fuel) -> acc < 2 ^ len -> v * 2 ^ len < 2 ^ 64 -> len < 64 ->
  read_usize_loop (write_var_fuel fuel v ++ rest) acc len = Ok (acc + v * 2 ^ len) rest.
Proof.
  induction fuel as [|f IH]; intros v acc len rest Hv Hacc Hb Hlen.
  - change (128 ^ N.of_nat 1) with 128 in Hv.
    cbn [write_var_fuel app]. rewrite (N.mod_small v 128) by exact Hv.
    apply read_usize_last; assumption.
  - cbn [write_var_fuel]. destruct (N.ltb_spec v 128) as [Hs|Hbig].
    + cbn [app]. apply read_usize_last; assumption.
    + cbn [app read_usize_loop].
      pose proof (shift7_lt_width _ _ _ Hbig Hb) as Hlen7.
      replace (64 <=? len) with false by lia.
      replace ((v mod 128 + 128) mod 128) with (v mod 128) by lia.
      replace (v mod 128 + 128 <? 128) with false by lia.
      replace (128 <? len + 7) with false by lia.
      assert (Hpow : 2 ^ (len + 7) = 2 ^ len * 128) by (rewrite N.pow_add_r; reflexivity).
      pose proof (pow2_pos len) as Hp.
      assert (Hvm : v mod 128 * 2 ^ len < 2 ^ 64).
      { eapply N.le_lt_trans; [|exact Hb]. apply N.mul_le_mono_r. apply N.mod_le; lia. }
      rewrite shl_usize_exact by exact Hvm.
      rewrite lor_disjoint_add by exact Hacc.
      rewrite IH.
      * f_equal. rewrite Hpow. pose proof (N.div_mod v 128).
        generalize dependent (2 ^ len). intros. nia.
      * rewrite pow128_succ in Hv. apply N.div_lt_upper_bound; lia.
      * rewrite Hpow. assert (v mod 128 < 128) by (apply N.mod_lt; lia).
        generalize dependent (2 ^ len). intros. nia.
      * eapply N.le_lt_trans; [|exact Hb]. rewrite Hpow.
        pose proof (N.div_mod v 128).
        generalize dependent (2 ^ len). intros. nia.
      * lia.
Qed.

Theorem read_usize_roundtrip : forall v rest, v < two64 ->
  read_usize_v2 (write_var_usize v ++ rest) = Ok v rest.
Proof.
  intros v rest Hv. unfold read_usize_v2, write_var_usize.
  pose proof (write_var_u64_length v) as Hl.
  destruct (write_var_u64 v ++ rest) as [|b t] eqn:E.
  - destruct (write_var_u64 v); [cbn [length] in Hl; lia|discriminate E].
  - rewrite <- E. unfold write_var_u64.
    rewrite (read_usize_gen 9 v 0 0 rest).
    + f_equal. change (2 ^ 0) with 1. lia.
    + eapply N.lt_trans; [exact Hv|]. reflexivity.
    + reflexivity.
    + change (2 ^ 0) with 1. change (2 ^ 64) with two64. lia.
    + lia.
Qed.
Print Assumptions read_usize_roundtrip.

Theorem read_buf_v2_roundtrip : forall b rest, N.of_nat (length b) < two64 ->
  read_buf_v2 (write_buf b ++ rest) = Ok b rest.
Proof.
  intros b rest Hb. unfold read_buf_v2, write_buf. rewrite <- app_assoc.
  rewrite read_usize_roundtrip by exact Hb. cbn [bind]. apply read_exact_app.
Qed.

(* ================================================================================================ *)
(* 6. UTF-8: validity of a concatenation, cutting by UTF-16 length                                   *)
(* ================================================================================================ *)

(* one well-formed char at the head of s: what is left after it *)
Definition utf8_step (s : list N) : option (list N) :=
  match s with
  | [] => None
  | b0 :: r =>
    if b0 <? 128 then Some r
    else if in_range 194 223 b0 then
      match r with b1 :: r' => if cont b1 then Some r' else None | _ => None end
    else if b0 =? 224 then
      match r with b1 :: b2 :: r' => if in_range 160 191 b1 && cont b2 then Some r' else None | _ => None end
    else if in_range 225 236 b0 || in_range 238 239 b0 then
      match r with b1 :: b2 :: r' => if cont b1 && cont b2 then Some r' else None | _ => None end
    else if b0 =? 237 then
      match r with b1 :: b2 :: r' => if in_range 128 159 b1 && cont b2 then Some r' else None | _ => None end
    else if b0 =? 240 then
      match r with b1 :: b2 :: b3 :: r' => if in_range 144 191 b1 && cont b2 && cont b3 then Some r' else None | _ => None end
    else if in_range 241 243 b0 then
      match r with b1 :: b2 :: b3 :: r' => if cont b1 && cont b2 && cont b3 then Some r' else None | _ => None end
    else if b0 =? 244 then
      match r with b1 :: b2 :: b3 :: r' => if in_range 128 143 b1 && cont b2 && cont b3 then Some r' else None | _ => None end
    else None
  end.

Ltac split_cases :=
  repeat first
    [ match goal with |- context [if ?c then _ else _] => destruct c eqn:? end
    | match goal with |- context [match ?l with [] => _ | _ :: _ => _ end] => is_var l; destruct l end ].

Lemma utf8_fuel_step : forall f b0 r,
  utf8_valid_fuel (S f) (b0 :: r) =
  match utf8_step (b0 :: r) with Some r' => utf8_valid_fuel f r' | None => false end.
Proof. intros f b0 r. cbn [utf8_valid_fuel utf8_step]. split_cases; reflexivity. Qed.

Ltac step_cases H :=
  repeat match type of H with
         | (if ?c then _ else _) = _ => destruct c eqn:?
         | match ?l with [] => _ | _ :: _ => _ end = _ => destruct l
         end; try discriminate H.

Lemma utf8_step_suffix : forall s r', utf8_step s = Some r' -> (length r' < length s)%nat.
Proof.
  intros s r' H. destruct s as [|b0 r]; [discriminate|]. cbn [utf8_step] in H.
  step_cases H; apply some_inj in H; subst; cbn [length]; lia.
Qed.

Lemma utf8_step_app : forall s r' t, utf8_step s = Some r' -> utf8_step (s ++ t) = Some (r' ++ t).
Proof.
  intros s r' t H. destruct s as [|b0 r]; [discriminate|]. cbn [utf8_step] in H.
  step_cases H; apply some_inj in H; subst; cbn [app utf8_step];
    repeat match goal with E : ?c = _ |- context [?c] => rewrite E end; reflexivity.
Qed.

Lemma utf8_step_head : forall b0 r r', utf8_step (b0 :: r) = Some r' -> cont b0 = false.
Proof.
  intros b0 r r' H. cbn [utf8_step] in H. unfold cont, in_range in *.
  step_cases H; lia.
Qed.

Lemma utf8_fuel_succ : forall f s, (length s <= f)%nat -> utf8_valid_fuel (S f) s = utf8_valid_fuel f s.
Proof.
  induction f as [|f IH]; intros s Hl.
  - destruct s; [reflexivity|cbn [length] in Hl; lia].
  - destruct s as [|b0 r]; [reflexivity|]. rewrite !utf8_fuel_step.
    destruct (utf8_step (b0 :: r)) as [r'|] eqn:E; [|reflexivity].
    apply IH. apply utf8_step_suffix in E. cbn [length] in *. lia.
Qed.

Lemma utf8_fuel_enough : forall k s, utf8_valid_fuel (length s + k) s = utf8_valid s.
Proof.
  induction k as [|k IH]; intro s.
  - rewrite Nat.add_0_r. reflexivity.
  - rewrite Nat.add_succ_r. rewrite utf8_fuel_succ by lia. apply IH.
Qed.

Lemma utf8_fuel_ge : forall f s, (length s <= f)%nat -> utf8_valid_fuel f s = utf8_valid s.
Proof. intros f s H. replace f with (length s + (f - length s))%nat by lia. apply utf8_fuel_enough. Qed.

Lemma utf8_valid_app_n : forall n a b, (length a <= n)%nat ->
  utf8_valid a = true -> utf8_valid b = true -> utf8_valid (a ++ b) = true.
Proof.
  induction n as [|n IH]; intros a b Hl Ha Hb.
  - destruct a; [exact Hb|cbn [length] in Hl; lia].
  - destruct a as [|b0 r]; [exact Hb|].
    unfold utf8_valid in Ha. cbn [length] in Ha, Hl. rewrite utf8_fuel_step in Ha.
    destruct (utf8_step (b0 :: r)) as [r'|] eqn:E; [|discriminate].
    pose proof (utf8_step_suffix _ _ E) as Hs. cbn [length] in Hs.
    rewrite utf8_fuel_ge in Ha by lia.
    unfold utf8_valid. cbn [app length]. rewrite utf8_fuel_step.
    change (b0 :: r ++ b) with ((b0 :: r) ++ b). rewrite (utf8_step_app _ _ b E).
    rewrite utf8_fuel_ge by (rewrite !app_length; lia).
    apply IH; try assumption. lia.
Qed.

Theorem utf8_valid_app : forall a b, utf8_valid a = true -> utf8_valid b = true -> utf8_valid (a ++ b) = true.
Proof. intros a b. apply (utf8_valid_app_n (length a)). lia. Qed.

Lemma utf8_valid_concat : forall l, forallb utf8_valid l = true -> utf8_valid (concat l) = true.
Proof.
  induction l as [|s l IH]; intro H; [reflexivity|].
  cbn [forallb] in H. apply andb_prop in H. destruct H as [Hs Hl]. cbn [concat].
  apply utf8_valid_app; [exact Hs|apply IH; exact Hl].
Qed.

(* a string that does not start in the middle of a char *)
Definition head_ok (t : list N) : Prop := match t with [] => True | b :: _ => cont b = false end.

Lemma utf8_valid_head : forall s, utf8_valid s = true -> head_ok s.
Proof.
  intros [|b0 r] H; [exact I|]. unfold utf8_valid in H. cbn [length] in H. rewrite utf8_fuel_step in H.
  destruct (utf8_step (b0 :: r)) as [r'|] eqn:E; [|discriminate]. cbn [head_ok]. eapply utf8_step_head. exact E.
Qed.

Lemma concat_head_ok : forall l, forallb utf8_valid l = true -> head_ok (concat l).
Proof.
  induction l as [|s l IH]; intro H; [exact I|].
  cbn [forallb] in H. apply andb_prop in H. destruct H as [Hs Hl]. cbn [concat].
  destruct s as [|b0 r]; [apply IH; exact Hl|]. exact (utf8_valid_head _ Hs).
Qed.

Lemma utf16_fold_acc : forall s a,
  fold_left (fun acc b => acc + utf16_len_byte b) s a = a + fold_left (fun acc b => acc + utf16_len_byte b) s 0.
Proof.
  induction s as [|b s IH]; intro a; cbn [fold_left]; [lia|].
  rewrite IH. rewrite (IH (0 + utf16_len_byte b)). lia.
Qed.

Lemma utf16_len_cons : forall b s, utf16_len (b :: s) = utf16_len_byte b + utf16_len s.
Proof. intros b s. unfold utf16_len. cbn [fold_left]. rewrite utf16_fold_acc. lia. Qed.

Lemma utf16_len_byte_le : forall b, utf16_len_byte b <= 2.
Proof. intro b. unfold utf16_len_byte. destruct (b <? 128), (b <? 192), (b <? 240); lia. Qed.

Lemma utf16_len_le : forall s, utf16_len s <= 2 * N.of_nat (length s).
Proof.
  induction s as [|b s IH]; [unfold utf16_len; cbn [fold_left length]; lia|].
  rewrite utf16_len_cons. pose proof (utf16_len_byte_le b). cbn [length]. lia.
Qed.

Lemma take16_app : forall s t, head_ok t -> take16 (utf16_len s) (s ++ t) = (s, t).
Proof.
  induction s as [|b s IH]; intros t Ht.
  - change (utf16_len []) with 0. cbn [app]. destruct t as [|c t]; [reflexivity|].
    cbn [head_ok] in Ht. cbn [take16]. rewrite Ht. reflexivity.
  - rewrite utf16_len_cons. cbn [app take16]. destruct (cont b) eqn:Ec.
    + assert (H0 : utf16_len_byte b = 0).
      { unfold cont, in_range, utf16_len_byte in *. replace (b <? 128) with false by lia.
        replace (b <? 192) with true by lia. reflexivity. }
      rewrite H0. rewrite N.add_0_l. rewrite IH by exact Ht. reflexivity.
    + assert (H1 : 1 <= utf16_len_byte b).
      { unfold cont, in_range, utf16_len_byte in *. destruct (b <? 128) eqn:?; [lia|].
        replace (b <? 192) with false by lia. destruct (b <? 240); lia. }
      replace (utf16_len_byte b + utf16_len s =? 0) with false by lia.
      replace (utf16_len_byte b + utf16_len s - utf16_len_byte b) with (utf16_len s) by lia.
      rewrite IH by exact Ht. reflexivity.
Qed.

(* ================================================================================================ *)
(* 7. String column round trip                                                                       *)
(* ================================================================================================ *)

Lemma str_fold : forall l e,
  fold_left str_write l e =
  {| se_buf := se_buf e ++ concat l; se_lens := fold_left uint_write_opt (map utf16_len l) (se_lens e) |}.
Proof.
  induction l as [|s l IH]; intro e.
  - cbn [fold_left concat map]. rewrite app_nil_r. destruct e; reflexivity.
  - cbn [fold_left concat map]. rewrite IH. cbn [str_write se_buf se_lens]. rewrite app_assoc. reflexivity.
Qed.

Lemma str_encode_eq : forall l,
  str_encode l = match uint_encode (map utf16_len l) with
                 | Some lens => Some (write_string (concat l) ++ lens)
                 | None => None
                 end.
Proof.
  intro l. unfold str_encode. rewrite str_fold. unfold str_to_bytes. cbn [str_init se_buf se_lens app].
  unfold uint_encode. destruct (fold_left uint_write_opt (map utf16_len l) (Some uint_init)); reflexivity.
Qed.

(* every string well-formed UTF-8, fewer than 2^32 strings, fewer than 2^62 bytes in total *)
Definition str_col_ok (l : list (list N)) : bool :=
  forallb utf8_valid l && (N.of_nat (length l) <? two32) && (N.of_nat (length (concat l)) <? 4611686018427387904).

Lemma concat_length_le : forall (l : list (list N)) s, In s l -> (length s <= length (concat l))%nat.
Proof.
  induction l as [|x l IH]; intros s H; [destruct H|]. cbn [concat]. rewrite app_length.
  destruct H as [->|H]; [lia|]. specialize (IH s H). lia.
Qed.

Lemma str_lens_ok : forall l, N.of_nat (length (concat l)) < 4611686018427387904 ->
  uint_vals_ok (map utf16_len l) = true.
Proof.
  intros l H. unfold uint_vals_ok. rewrite forallb_forall. intros v Hv. apply in_map_iff in Hv.
  destruct Hv as (s & <- & Hs). pose proof (concat_length_le l s Hs). pose proof (utf16_len_le s).
  unfold two63. lia.
Qed.

Lemma str_new_roundtrip : forall s lens, utf8_valid s = true -> N.of_nat (length s) < two64 ->
  str_new (write_string s ++ lens) = Ok {| sd_str := s; sd_lens := uint_st0 |} lens.
Proof.
  intros s lens Hs Hl. unfold str_new, write_string. rewrite read_buf_v2_roundtrip by exact Hl.
  cbn [bind]. rewrite Hs. reflexivity.
Qed.

Lemma str_yields : forall l ust bs,
  forallb utf8_valid l = true -> yields uint_read ust bs (map utf16_len l) ->
  yields str_read {| sd_str := concat l; sd_lens := ust |} bs l.
Proof.
  induction l as [|s l IH]; intros ust bs Hv Hy; [exact Hy|].
  cbn [forallb] in Hv. apply andb_prop in Hv. destruct Hv as [Hs Hl].
  cbn [map yields] in Hy. destruct Hy as (ust' & bs' & Hr & Hy).
  cbn [yields]. eexists. eexists. split.
  - unfold str_read. cbn [sd_lens sd_str]. rewrite Hr. cbn [bind fst snd concat].
    rewrite take16_app by (apply concat_head_ok; exact Hl). cbn [fst snd]. reflexivity.
  - apply IH; assumption.
Qed.

(* the lengths column of [l] after the string buffer: what DecoderV2::new hands to the string decoder *)
Theorem str_encode_yields : forall l, str_col_ok l = true ->
  exists b lens, str_encode l = Some b /\
                 str_new b = Ok {| sd_str := concat l; sd_lens := uint_st0 |} lens /\
                 yields str_read {| sd_str := concat l; sd_lens := uint_st0 |} lens l.
Proof.
  intros l Hok. unfold str_col_ok in Hok. apply andb_prop in Hok. destruct Hok as [Hok Hb].
  apply andb_prop in Hok. destruct Hok as [Hv Hn].
  destruct (uint_encode_yields (map utf16_len l)) as (lens & Hlens & Hy).
  - apply str_lens_ok. lia.
  - rewrite map_length. lia.
  - exists (write_string (concat l) ++ lens), lens. split; [|split].
    + rewrite str_encode_eq, Hlens. reflexivity.
    + apply str_new_roundtrip; [apply utf8_valid_concat; exact Hv|unfold two64; lia].
    + apply str_yields; [exact Hv|apply Hy; reflexivity].
Qed.

Theorem str_roundtrip : forall l, str_col_ok l = true ->
  exists b st, str_encode l = Some b /\ str_decode (length l) b = Ok (l, st) [].
Proof.
  intros l Hok. destruct (str_encode_yields l Hok) as (b & lens & Hb & Hnew & Hy).
  destruct (yields_read_n str_read l _ lens Hy) as (st & Hn).
  exists b, st. split; [exact Hb|]. unfold str_decode. rewrite Hnew. cbn [bind]. exact Hn.
Qed.
Print Assumptions str_roundtrip.

(* ================================================================================================ *)
(* 8. (c) totality of the column decoders; the Rle decoder can panic                                 *)
(* ================================================================================================ *)

Lemma npf_bind : forall A B (r : res A) (f : A -> list N -> res B),
  no_panic_fuel r -> (forall a rest, no_panic_fuel (f a rest)) -> no_panic_fuel (bind r f).
Proof. intros A B r f Hr Hf. destruct r; cbn [bind no_panic_fuel] in *; auto. Qed.

Lemma read_count2_total : forall bs, no_panic_fuel (read_count2 bs).
Proof.
  intro bs. unfold read_count2. apply npf_bind; [apply read_var_u32_total|].
  intros c rest. destruct (add32_checked c 2); exact I.
Qed.

Theorem uint_read_total : forall st bs, no_panic_fuel (uint_read st bs).
Proof.
  intros st bs. unfold uint_read. apply npf_bind; [|intros; exact I].
  destruct (ud_count st =? 0); [|exact I].
  apply npf_bind; [apply read_signed_total|]. intros s r1. destruct (snd s); [|exact I].
  apply npf_bind; [apply read_count2_total|]. intros; exact I.
Qed.
Print Assumptions uint_read_total.

Theorem idiff_read_total : forall st bs, no_panic_fuel (idiff_read st bs).
Proof.
  intros st bs. unfold idiff_read. apply npf_bind; [|intros; exact I].
  destruct (id_count st =? 0); [|exact I].
  apply npf_bind; [apply read_var_i64_total|]. intros d r1.
  apply npf_bind; [|intros; exact I]. destruct (Z.odd d); [apply read_count2_total|exact I].
Qed.
Print Assumptions idiff_read_total.

Lemma read_usize_loop_total : forall bs num len, no_panic_fuel (read_usize_loop bs num len).
Proof.
  induction bs as [|r rest IH]; intros num len; cbn [read_usize_loop]; [exact I|].
  destruct (64 <=? len); [exact I|]. destruct (r <? 128); [exact I|]. destruct (128 <? len + 7); [exact I|]. apply IH.
Qed.

Theorem read_buf_v2_total : forall bs, no_panic_fuel (read_buf_v2 bs).
Proof.
  intro bs. unfold read_buf_v2. apply npf_bind.
  - unfold read_usize_v2. destruct bs; [exact I|apply read_usize_loop_total].
  - intros len rest. apply read_exact_total.
Qed.

Theorem str_new_total : forall bs, no_panic_fuel (str_new bs).
Proof.
  intro bs. unfold str_new. apply npf_bind; [apply read_buf_v2_total|].
  intros s rest. destruct (utf8_valid s); exact I.
Qed.

Theorem str_read_total : forall st bs, no_panic_fuel (str_read st bs).
Proof. intros st bs. unfold str_read. apply npf_bind; [apply uint_read_total|]. intros; exact I. Qed.
Print Assumptions str_read_total.

Lemma read_n_total : forall S V (read : S -> list N -> res (V * S)),
  (forall st bs, no_panic_fuel (read st bs)) -> forall n st bs, no_panic_fuel (read_n read n st bs).
Proof.
  intros S V read H. induction n as [|n IH]; intros st bs; cbn [read_n]; [exact I|].
  apply npf_bind; [apply H|]. intros vs r1. apply npf_bind; [apply IH|]. intros; exact I.
Qed.

Theorem uint_decode_total : forall n bs, no_panic_fuel (uint_decode n bs).
Proof. intros n bs. apply read_n_total. apply uint_read_total. Qed.
Theorem idiff_decode_total : forall n bs, no_panic_fuel (idiff_decode n bs).
Proof. intros n bs. apply read_n_total. apply idiff_read_total. Qed.
Theorem str_decode_total : forall n bs, no_panic_fuel (str_decode n bs).
Proof.
  intros n bs. unfold str_decode. apply npf_bind; [apply str_new_total|].
  intros st rest. apply read_n_total. apply str_read_total.
Qed.
Print Assumptions uint_decode_total.
Print Assumptions idiff_decode_total.
Print Assumptions str_decode_total.

(* RleDecoder::read_u8 counts down with `wrapping_sub` (repaired in /repo 32185c6; `self.count -= 1` used to
   overflow when a run length of 2^31 - 1 on the wire made the counter i32::MIN, or when the last, "forever" run was
   read 2^31 times): the decoder is total like the others *)
Theorem rle_read_total : forall st bs, no_panic_fuel (rle_read st bs).
Proof.
  intros st bs. unfold rle_read. apply npf_bind; [|intros; exact I].
  destruct (rd_count st =? 0)%Z; [|exact I].
  destruct bs as [|b r1]; cbn [read_u8 bind]; [exact I|].
  destruct r1 as [|c r1']; [exact I|].
  apply npf_bind; [apply read_var_u32_total|]. intros; exact I.
Qed.
Print Assumptions rle_read_total.

Theorem rle_decode_total : forall n bs, no_panic_fuel (rle_decode n bs).
Proof. intros n bs. apply read_n_total. apply rle_read_total. Qed.
Print Assumptions rle_decode_total.

(* the run length 2^31 - 1 that used to panic: the counter wraps to i32::MIN, then to i32::MAX *)
Definition rle_witness : list N := [0; 255; 255; 255; 255; 7].
Example rle_former_witness :
  rle_read rle_st0 rle_witness = Ok (0, {| rd_last := 0; rd_count := 2147483647%Z |}) [].
Proof. vm_compute. reflexivity. Qed.
Example rle_forever_wraps : forall v bs,
  rle_read {| rd_last := v; rd_count := (- Ztwo31)%Z |} bs = Ok (v, {| rd_last := v; rd_count := 2147483647%Z |}) bs.
Proof. intros v bs. reflexivity. Qed.

(* the complete 23-byte v2 update built on it, which made Update::decode_v2 panic before the repair
   (decoder.rs:487): it now decodes to one GC block, as the repaired yrs does *)
Definition rle_update_witness : list N :=
  [0; 0; 1; 1; 0; 0; 6; 0; 255; 255; 255; 255; 7; 1; 0; 0; 0; 1; 1; 1; 1; 0; 0].
Example decode_update_v2_former_witness :
  decode_update_v2 rle_update_witness = Ok {| u_blocks := [(1, [BGC (mkid 1 0) 1])]; u_ds := [] |} [].
Proof. vm_compute. reflexivity. Qed.

(* ================================================================================================ *)
(* 9. (b) update round trip                                                                          *)
(* ================================================================================================ *)

(* ---- the trace monoid ---- *)
Ltac prj := cbn [d_rest d_keys d_ds d_keyclock d_client d_left d_right d_info d_string d_pinfo d_tyref d_len
                 w_keyclock w_client w_left w_right w_info w_string w_pinfo w_tyref w_len w_rest fst snd app].

Ltac prj_in H := cbn [d_rest d_keys d_ds d_keyclock d_client d_left d_right d_info d_string d_pinfo d_tyref d_len
                 w_keyclock w_client w_left w_right w_info w_string w_pinfo w_tyref w_len w_rest fst snd app] in H.

Lemma wr_app_assoc : forall a b c, (a +++ b) +++ c = a +++ (b +++ c).
Proof. intros a b c. unfold wr_app. prj. rewrite <- !app_assoc. reflexivity. Qed.
Lemma wr0_l : forall k, wr0 +++ k = k.
Proof. intros []. reflexivity. Qed.
Lemma wr0_r : forall k, k +++ wr0 = k.
Proof. intros []. unfold wr_app, wr0. prj. rewrite !app_nil_r. reflexivity. Qed.
Lemma wB_app : forall a b, wB (a ++ b) = wB a +++ wB b.
Proof. reflexivity. Qed.

(* ---- iter2 ---- *)
Lemma pos_iter_stuck : forall A (step : A -> dec2 -> r2 A) p r,
  (forall a d, r <> R2Ok a d) -> Pos.iter (fun r => bind2 r step) r p = r.
Proof.
  intros A step. induction p as [p IH|p IH|]; intros r Hr; cbn [Pos.iter].
  - rewrite (IH r Hr), (IH r Hr). destruct r; try reflexivity. exfalso. eapply Hr. reflexivity.
  - rewrite (IH r Hr), (IH r Hr). reflexivity.
  - destruct r; try reflexivity. exfalso. eapply Hr. reflexivity.
Qed.

Lemma iter2_pos_spec : forall A (step : A -> dec2 -> r2 A) p r,
  iter2_pos step p r = Pos.iter (fun r => bind2 r step) r p.
Proof.
  intros A step. induction p as [p IH|p IH|]; intros r.
  - destruct r as [a d|e|s|].
    + cbn [iter2_pos Pos.iter]. rewrite !IH. reflexivity.
    + rewrite pos_iter_stuck by (intros a d H; discriminate H). reflexivity.
    + rewrite pos_iter_stuck by (intros a d H; discriminate H). reflexivity.
    + rewrite pos_iter_stuck by (intros a d H; discriminate H). reflexivity.
  - destruct r as [a d|e|s|].
    + cbn [iter2_pos Pos.iter]. rewrite !IH. reflexivity.
    + rewrite pos_iter_stuck by (intros a d H; discriminate H). reflexivity.
    + rewrite pos_iter_stuck by (intros a d H; discriminate H). reflexivity.
    + rewrite pos_iter_stuck by (intros a d H; discriminate H). reflexivity.
  - destruct r; reflexivity.
Qed.

(* the early exit does not change the function *)
Theorem iter2_spec : forall A n (step : A -> dec2 -> r2 A) a d,
  iter2 n step a d = N.iter n (fun r => bind2 r step) (R2Ok a d).
Proof. intros A [|p] step a d; [reflexivity|]. cbn [iter2 N.iter]. apply iter2_pos_spec. Qed.
Print Assumptions iter2_spec.

Lemma nth_N_spec : forall A (l : list A) k, nth_N l k = nth_error l (N.to_nat k).
Proof.
  induction l as [|x l IH]; intro k; cbn [nth_N].
  - destruct (N.to_nat k); reflexivity.
  - destruct (N.eqb_spec k 0) as [->|Hk]; [reflexivity|].
    rewrite IH. replace (N.to_nat k) with (S (N.to_nat (k - 1))) by lia. reflexivity.
Qed.

Lemma iter2_0 : forall A (step : A -> dec2 -> r2 A) a d, iter2 0 step a d = R2Ok a d.
Proof. reflexivity. Qed.

Lemma iter_stuck : forall A (step : A -> dec2 -> r2 A) n r,
  (forall a d, r <> R2Ok a d) -> N.iter n (fun r => bind2 r step) r = r.
Proof.
  intros A step n r Hr. induction n as [|n IH] using N.peano_ind; [reflexivity|].
  rewrite N.iter_succ, IH. destruct r; try reflexivity. exfalso. eapply Hr. reflexivity.
Qed.

Lemma iter2_succ : forall A (step : A -> dec2 -> r2 A) n a d,
  iter2 (N.succ n) step a d = bind2 (step a d) (iter2 n step).
Proof.
  intros A step n a d. rewrite !iter2_spec. rewrite N.iter_succ_r. cbn [bind2].
  destruct (step a d) as [a' d'| | |] eqn:E; cbn [bind2]; [symmetry; apply iter2_spec| | |];
    apply iter_stuck; intros; discriminate.
Qed.

Lemma iter2_S : forall A (step : A -> dec2 -> r2 A) (n : nat) a d,
  iter2 (N.of_nat (S n)) step a d = bind2 (step a d) (iter2 (N.of_nat n) step).
Proof. intros. rewrite Nat2N.inj_succ. apply iter2_succ. Qed.

(* ---- the decoder is in step with what is left of the encoder's traces ---- *)
Definition sync (d : dec2) (w : wr) (seq : N) (tl : list N) : Prop :=
  yields idiff_read (fst (d_keyclock d)) (snd (d_keyclock d)) (w_keyclock w) /\
  yields uint_read (fst (d_client d)) (snd (d_client d)) (w_client w) /\
  yields idiff_read (fst (d_left d)) (snd (d_left d)) (w_left w) /\
  yields idiff_read (fst (d_right d)) (snd (d_right d)) (w_right w) /\
  yields rle_read (fst (d_info d)) (snd (d_info d)) (w_info w) /\
  yields str_read (fst (d_string d)) (snd (d_string d)) (w_string w) /\
  yields rle_read (fst (d_pinfo d)) (snd (d_pinfo d)) (w_pinfo w) /\
  yields uint_read (fst (d_tyref d)) (snd (d_tyref d)) (w_tyref w) /\
  yields uint_read (fst (d_len d)) (snd (d_len d)) (w_len w) /\
  d_rest d = w_rest w ++ tl /\
  N.of_nat (length (d_keys d)) = seq.

Ltac sync_open Hs :=
  unfold sync in Hs;
  cbn [wr_app wK wC wL wR wI wS wP wT wN wB
       w_keyclock w_client w_left w_right w_info w_string w_pinfo w_tyref w_len w_rest app] in Hs;
  destruct Hs as (H1 & H2 & H3 & H4 & H5 & H6 & H7 & H8 & H9 & H10 & H11).
Ltac sync_close := unfold sync; cbn [set_rest set_keys set_keyclock set_client set_left set_right set_info set_string
                                     set_pinfo set_tyref set_len]; prj; repeat split; assumption.

Lemma sync_keyclock : forall d v k seq tl, sync d (wK v +++ k) seq tl ->
  exists d', on_col idiff_read d_keyclock set_keyclock d = R2Ok v d' /\ sync d' k seq tl /\ d_keys d' = d_keys d.
Proof.
  intros d v k seq tl Hs. sync_open Hs. cbn [yields] in H1. destruct H1 as (st' & bs' & Hr & Hy).
  exists (set_keyclock d (st', bs')). split; [unfold on_col; rewrite Hr; reflexivity|]. split; [sync_close|reflexivity].
Qed.
Lemma sync_client_raw : forall d v k seq tl, sync d (wC v +++ k) seq tl ->
  exists d', on_col uint_read d_client set_client d = R2Ok v d' /\ sync d' k seq tl.
Proof.
  intros d v k seq tl Hs. sync_open Hs. cbn [yields] in H2. destruct H2 as (st' & bs' & Hr & Hy).
  exists (set_client d (st', bs')). split; [unfold on_col; rewrite Hr; reflexivity|sync_close].
Qed.
Lemma sync_left : forall d v k seq tl, sync d (wL v +++ k) seq tl ->
  exists d', on_col idiff_read d_left set_left d = R2Ok v d' /\ sync d' k seq tl.
Proof.
  intros d v k seq tl Hs. sync_open Hs. cbn [yields] in H3. destruct H3 as (st' & bs' & Hr & Hy).
  exists (set_left d (st', bs')). split; [unfold on_col; rewrite Hr; reflexivity|sync_close].
Qed.
Lemma sync_right : forall d v k seq tl, sync d (wR v +++ k) seq tl ->
  exists d', on_col idiff_read d_right set_right d = R2Ok v d' /\ sync d' k seq tl.
Proof.
  intros d v k seq tl Hs. sync_open Hs. cbn [yields] in H4. destruct H4 as (st' & bs' & Hr & Hy).
  exists (set_right d (st', bs')). split; [unfold on_col; rewrite Hr; reflexivity|sync_close].
Qed.
Lemma sync_info : forall d v k seq tl, sync d (wI v +++ k) seq tl ->
  exists d', rd_info d = R2Ok v d' /\ sync d' k seq tl.
Proof.
  intros d v k seq tl Hs. sync_open Hs. cbn [yields] in H5. destruct H5 as (st' & bs' & Hr & Hy).
  exists (set_info d (st', bs')). split; [unfold rd_info, on_col; rewrite Hr; reflexivity|sync_close].
Qed.
Lemma sync_string : forall d v k seq tl, sync d (wS v +++ k) seq tl ->
  exists d', rd_string d = R2Ok v d' /\ sync d' k seq tl /\ d_keys d' = d_keys d.
Proof.
  intros d v k seq tl Hs. sync_open Hs. cbn [yields] in H6. destruct H6 as (st' & bs' & Hr & Hy).
  exists (set_string d (st', bs')). split; [unfold rd_string, on_col; rewrite Hr; reflexivity|].
  split; [sync_close|reflexivity].
Qed.
Lemma sync_pinfo : forall d v k seq tl, sync d (wP v +++ k) seq tl ->
  exists d', rd_parent_info d = R2Ok (v =? 1) d' /\ sync d' k seq tl.
Proof.
  intros d v k seq tl Hs. sync_open Hs. cbn [yields] in H7. destruct H7 as (st' & bs' & Hr & Hy).
  exists (set_pinfo d (st', bs')). split; [unfold rd_parent_info, r2_map, on_col; rewrite Hr; reflexivity|sync_close].
Qed.
Lemma sync_tyref : forall d v k seq tl, sync d (wT v +++ k) seq tl -> v < 256 ->
  exists d', rd_type_ref d = R2Ok v d' /\ sync d' k seq tl.
Proof.
  intros d v k seq tl Hs Hv. sync_open Hs. cbn [yields] in H8. destruct H8 as (st' & bs' & Hr & Hy).
  exists (set_tyref d (st', bs')). split; [|sync_close].
  unfold rd_type_ref, r2_map, on_col. rewrite Hr. cbn [bind2 fst snd]. rewrite N.mod_small by exact Hv. reflexivity.
Qed.
Lemma sync_len : forall d v k seq tl, sync d (wN v +++ k) seq tl -> v < two32 ->
  exists d', rd_len d = R2Ok v d' /\ sync d' k seq tl.
Proof.
  intros d v k seq tl Hs Hv. sync_open Hs. cbn [yields] in H9. destruct H9 as (st' & bs' & Hr & Hy).
  exists (set_len d (st', bs')). split; [|sync_close].
  unfold rd_len, r2_map, on_col. rewrite Hr. cbn [bind2 fst snd]. rewrite N.mod_small by exact Hv. reflexivity.
Qed.
(* a read on the rest cursor that consumes exactly the bytes the encoder appended *)
Lemma sync_rest : forall A (f : list N -> res A) a d b k seq tl, sync d (wB b +++ k) seq tl ->
  (forall R, f (b ++ R) = Ok a R) ->
  exists d', on_rest f d = R2Ok a d' /\ sync d' k seq tl.
Proof.
  intros A f a d b k seq tl Hs Hf. sync_open Hs.
  exists (set_rest d (w_rest k ++ tl)). split; [|sync_close; reflexivity].
  unfold on_rest. rewrite H10, <- app_assoc, Hf. reflexivity.
Qed.

(* ---- derived reads ---- *)
Lemma sync_client : forall d c k seq tl, sync d (wC c +++ k) seq tl -> c < two53 ->
  exists d', rd_client d = R2Ok c d' /\ sync d' k seq tl.
Proof.
  intros d c k seq tl Hs Hc. destruct (sync_client_raw _ _ _ _ _ Hs) as (d1 & E & Hs1).
  exists d1. split; [|exact Hs1]. unfold rd_client. rewrite E. cbn [bind2]. unfold client_check.
  replace (c <? two53) with true by lia. reflexivity.
Qed.

Lemma sync_left_id : forall d i k seq tl, sync d (enc_left_id i +++ k) seq tl -> wf_id i = true ->
  exists d', rd_left_id d = R2Ok i d' /\ sync d' k seq tl.
Proof.
  intros d i k seq tl Hs Hi. unfold wf_id in Hi. apply andb_prop in Hi. destruct Hi as [Hc Hk].
  unfold enc_left_id in Hs. rewrite wr_app_assoc in Hs.
  destruct (sync_client _ _ _ _ _ Hs) as (d1 & E1 & Hs1); [lia|].
  destruct (sync_left _ _ _ _ _ Hs1) as (d2 & E2 & Hs2).
  exists d2. split; [|exact Hs2]. unfold rd_left_id. rewrite E1. cbn [bind2]. rewrite E2. cbn [bind2].
  destruct i; reflexivity.
Qed.

Lemma sync_right_id : forall d i k seq tl, sync d (enc_right_id i +++ k) seq tl -> wf_id i = true ->
  exists d', rd_right_id d = R2Ok i d' /\ sync d' k seq tl.
Proof.
  intros d i k seq tl Hs Hi. unfold wf_id in Hi. apply andb_prop in Hi. destruct Hi as [Hc Hk].
  unfold enc_right_id in Hs. rewrite wr_app_assoc in Hs.
  destruct (sync_client _ _ _ _ _ Hs) as (d1 & E1 & Hs1); [lia|].
  destruct (sync_right _ _ _ _ _ Hs1) as (d2 & E2 & Hs2).
  exists d2. split; [|exact Hs2]. unfold rd_right_id. rewrite E1. cbn [bind2]. rewrite E2. cbn [bind2].
  destruct i; reflexivity.
Qed.

(* the key table of the decoder has as many entries as keys were written: the clock is never found in it *)
Lemma sync_key : forall d s k seq tl, sync d (enc_key seq s +++ k) seq tl ->
  exists d', rd_key d = R2Ok s d' /\ sync d' k (seq + 1) tl.
Proof.
  intros d s k seq tl Hs. unfold enc_key in Hs. rewrite wr_app_assoc in Hs.
  destruct (sync_keyclock _ _ _ _ _ Hs) as (d1 & E1 & Hs1 & K1).
  destruct (sync_string _ _ _ _ _ Hs1) as (d2 & E2 & Hs2 & K2).
  exists (set_keys d2 (d_keys d2 ++ [s])). split.
  - unfold rd_key. rewrite E1. cbn [bind2]. rewrite nth_N_spec.
    assert (Hn : nth_error (d_keys d1) (N.to_nat seq) = None).
    { apply nth_error_None. destruct Hs1 as (_ & _ & _ & _ & _ & _ & _ & _ & _ & _ & Hl). lia. }
    rewrite Hn. rewrite E2. cbn [bind2]. reflexivity.
  - sync_open Hs2. unfold sync, set_keys. prj. repeat split; try assumption.
    rewrite app_length. cbn [length]. lia.
Qed.

Lemma sync_var_u32 : forall d v k seq tl, sync d (wB (write_var_u32 v) +++ k) seq tl -> v < two32 ->
  exists d', rd_var_u32 d = R2Ok v d' /\ sync d' k seq tl.
Proof.
  intros d v k seq tl Hs Hv. apply (sync_rest _ read_var_u32 v _ _ _ _ _ Hs).
  intro R. apply var_u32_roundtrip. exact Hv.
Qed.

Lemma sync_var_usize_u32 : forall d v k seq tl, sync d (wB (write_var_usize v) +++ k) seq tl -> v < two32 ->
  exists d', rd_var_u32 d = R2Ok v d' /\ sync d' k seq tl.
Proof.
  intros d v k seq tl Hs Hv. apply (sync_rest _ read_var_u32 v _ _ _ _ _ Hs).
  intro R. apply var_u32_of_u64_roundtrip. exact Hv.
Qed.

Lemma sync_u8 : forall d b k seq tl, sync d (wB [b] +++ k) seq tl ->
  exists d', rd_u8 d = R2Ok b d' /\ sync d' k seq tl.
Proof. intros d b k seq tl Hs. apply (sync_rest _ read_u8 b _ _ _ _ _ Hs). intro R. reflexivity. Qed.

Lemma sync_buf : forall d b k seq tl, sync d (wB (write_buf b) +++ k) seq tl -> wf_bin b = true ->
  exists d', rd_buf d = R2Ok b d' /\ sync d' k seq tl.
Proof.
  intros d b k seq tl Hs Hb. apply (sync_rest _ read_buf b _ _ _ _ _ Hs). intro R. apply bin_roundtrip. exact Hb.
Qed.

(* ---- Any values on the rest cursor ---- *)
Lemma any_fuel_le_length : forall a bs, encode_any a = Some bs -> (any_fuel a <= length bs)%nat.
Proof.
  fix rec 1. intros a bs H. destruct a as [| |b|z|bits|bits|bits|s|s|l|l].
  - apply some_inj in H; subst bs. cbn. lia.
  - apply some_inj in H; subst bs. cbn. lia.
  - apply some_inj in H; subst bs. cbn. lia.
  - cbn [encode_any] in H. destruct (write_var_i64 z); [|discriminate]. apply some_inj in H; subst bs. cbn [any_fuel length]. lia.
  - apply some_inj in H; subst bs. cbn [any_fuel length]. lia.
  - apply some_inj in H; subst bs. cbn [any_fuel length]. lia.
  - apply some_inj in H; subst bs. cbn [any_fuel length]. lia.
  - apply some_inj in H; subst bs. cbn [any_fuel length]. lia.
  - apply some_inj in H; subst bs. cbn [any_fuel length]. lia.
  - rewrite encode_any_array in H. destruct (enc_list encode_any l) as [body|] eqn:E; [|discriminate].
    apply some_inj in H; subst bs. cbn [any_fuel length]. rewrite app_length.
    assert (Hb : (length l <= length body /\ list_max (map any_fuel l) <= length body)%nat).
    { clear -rec E. revert body E. induction l as [|x l IHl]; intros body E; cbn [enc_list] in E.
      - cbn. lia.
      - destruct (encode_any x) as [xa|] eqn:Ex; [|discriminate].
        destruct (enc_list encode_any l) as [lb|] eqn:El; [|discriminate].
        apply some_inj in E; subst body. pose proof (rec x xa Ex) as Hx. pose proof (any_fuel_pos x).
        destruct (IHl lb eq_refl) as [H1 H2]. rewrite app_length.
        cbn [length map list_max fold_right]. change (fold_right Nat.max 0%nat (map any_fuel l)) with (list_max (map any_fuel l)).
        lia. }
    lia.
  - rewrite encode_any_map in H. destruct (enc_map encode_any l) as [body|] eqn:E; [|discriminate].
    apply some_inj in H; subst bs. cbn [any_fuel length]. rewrite app_length.
    assert (Hb : (length l <= length body /\
                  list_max (map (fun kx : list N * any => match kx with (_, x) => any_fuel x end) l) <= length body)%nat).
    { clear -rec E. revert body E. induction l as [|[k x] l IHl]; intros body E; cbn [enc_map] in E.
      - cbn. lia.
      - destruct (encode_any x) as [xa|] eqn:Ex; [|discriminate].
        destruct (enc_map encode_any l) as [lb|] eqn:El; [|discriminate].
        apply some_inj in E; subst body. pose proof (rec x xa Ex) as Hx. pose proof (any_fuel_pos x).
        destruct (IHl lb eq_refl) as [H1 H2]. rewrite !app_length.
        cbn [length map list_max fold_right].
        change (fold_right Nat.max 0%nat (map (fun kx : list N * any => match kx with (_, x) => any_fuel x end) l))
          with (list_max (map (fun kx : list N * any => match kx with (_, x) => any_fuel x end) l)).
        lia. }
    lia.
Qed.

Lemma any_here_roundtrip : forall a body R, wf_any_top a = true -> encode_any a = Some body ->
  decode_any_here (body ++ R) = Ok a R.
Proof.
  intros a body R Hwf Henc. unfold wf_any_top in Hwf. apply andb_prop in Hwf. destruct Hwf as [Hw Hd].
  unfold decode_any_here. apply any_roundtrip_full; try assumption; [|lia].
  pose proof (any_fuel_le_length a body Henc). rewrite app_length. lia.
Qed.

Lemma firstn_app_len : forall (a b : list N), firstn (length (a ++ b) - length b) (a ++ b) = a.
Proof.
  intros a b. rewrite app_length. replace (length a + length b - length b)%nat with (length a) by lia.
  rewrite firstn_app, Nat.sub_diag, firstn_all. cbn [firstn]. apply app_nil_r.
Qed.

Lemma sync_any : forall d a body k seq tl, sync d (wB body +++ k) seq tl ->
  wf_any_top a = true -> encode_any a = Some body ->
  exists d', rd_any d = R2Ok a d' /\ sync d' k seq tl.
Proof.
  intros d a body k seq tl Hs Hwf Henc. apply (sync_rest _ decode_any_here a _ _ _ _ _ Hs).
  intro R. apply any_here_roundtrip; assumption.
Qed.

(* a payload is the encoding of a well-formed Any *)
Fixpoint bytes_eqb (a b : list N) : bool :=
  match a, b with
  | [], [] => true
  | x :: a', y :: b' => (x =? y) && bytes_eqb a' b'
  | _, _ => false
  end.
Lemma bytes_eqb_eq : forall a b, bytes_eqb a b = true -> a = b.
Proof.
  induction a as [|x a IH]; intros [|y b] H; cbn [bytes_eqb] in H; try discriminate; [reflexivity|].
  apply andb_prop in H. destruct H as [Hx Hr]. apply N.eqb_eq in Hx. subst y. f_equal. apply IH. exact Hr.
Qed.
Definition any_payload_ok (j : list N) : bool :=
  match decode_any_here j with
  | Ok a [] => wf_any_top a && match encode_any a with Some j' => bytes_eqb j' j | None => false end
  | _ => false
  end.
Lemma any_payload_spec : forall j, any_payload_ok j = true -> exists a, wf_any_top a = true /\ encode_any a = Some j.
Proof.
  intros j H. unfold any_payload_ok in H. destruct (decode_any_here j) as [a [|? ?]| | |]; try discriminate.
  apply andb_prop in H. destruct H as [Hw He]. exists a. split; [exact Hw|].
  destruct (encode_any a) as [j'|]; [|discriminate]. apply bytes_eqb_eq in He. subst. reflexivity.
Qed.

Lemma sync_any_raw : forall d j k seq tl, sync d (wB j +++ k) seq tl -> any_payload_ok j = true ->
  exists d', rd_any_raw d = R2Ok j d' /\ sync d' k seq tl.
Proof.
  intros d j k seq tl Hs Hj. destruct (any_payload_spec j Hj) as (a & Hw & He).
  apply (sync_rest _ _ j _ _ _ _ _ Hs). intro R. rewrite (any_here_roundtrip a j R Hw He). cbn [bind].
  rewrite firstn_app_len. reflexivity.
Qed.

(* ---- stepping tactic: consume the head of the trace with lemma L ---- *)
Ltac step L :=
  let d' := fresh "d" in let E := fresh "E" in let Hs' := fresh "Hs" in
  match goal with
  | Hs : sync _ _ _ _ |- _ =>
    rewrite ?wr_app_assoc, ?wr0_l in Hs;
    edestruct L as (d' & E & Hs'); [exact Hs|..];
    try solve [assumption | reflexivity | lia | unfold two53, two32, two31 in *; lia];
    [rewrite E; cbn [bind2]; clear E Hs; rename Hs' into Hs]
  end.
Ltac finish := eexists; split; [reflexivity|assumption].

Ltac eval_eqb :=
  repeat match goal with
         | |- context [N.eqb ?a ?b] =>
           let v := eval vm_compute in (N.eqb a b) in
           match v with
           | true => change (N.eqb a b) with true
           | false => change (N.eqb a b) with false
           end
         end; cbv iota.

(* ---- well-formedness of the parts that are not column values ---- *)
Definition wf_scope2 (s : scope) : bool := match s with SRoot _ => true | SNested i | SRelative i => wf_id i end.
Definition wf_weaklink2 (w : weaklink) : bool := wf_scope2 (wl_start w) && wf_scope2 (wl_end w) && negb (wl_mixed w).
Definition wf_tyref2 (t : tyref) : bool := match t with TWeak w => wf_weaklink2 w | _ => true end.
Definition wf_content2 (c : bcontent) : bool :=
  match c with
  | BDeleted n => (0 <? n) && (n <? two32)
  | BJson l => (0 <? N.of_nat (length l)) && (N.of_nat (length l) <? two31)
  | BBinary b => wf_bin b
  | BString s => 0 <? str_len16 s
  | BEmbed j => any_payload_ok j
  | BFormat _ j => any_payload_ok j
  | BType t => wf_tyref2 t
  | BAny l => (0 <? N.of_nat (length l)) && (N.of_nat (length l) <? two32) && forallb wf_any_top l
  | BDoc _ o => wf_any_top o
  end.
Definition wf_parent2 (p : parent) : bool := match p with PId i => wf_id i | _ => true end.
Definition wf_block2 (b : block) : bool :=
  match b with
  | BItem _ o ro p ps c =>
      wf_oid o && wf_oid ro && wf_parent2 p && wf_content2 c &&
      (if is_some o || is_some ro
       then match p with PUnknown => negb (is_some ps) | _ => false end
       else true)
  | BGC _ n | BSkip _ n => n <? two32
  end.

(* ---- weak links and type references ---- *)
Lemma sync_scope_id : forall d i k seq tl,
  sync d (wB (write_var_u64 (cl i) ++ write_var_u32 (ck i)) +++ k) seq tl -> wf_id i = true ->
  exists d', dec_scope_id d = R2Ok i d' /\ sync d' k seq tl.
Proof.
  intros d i k seq tl Hs Hi. unfold wf_id in Hi. apply andb_prop in Hi. destruct Hi as [Hc Hk].
  rewrite wB_app, wr_app_assoc in Hs.
  destruct (sync_rest _ (fun bs => let* (c, r) := read_var_u64 bs in client_id_new c r) (cl i) _ _ _ _ _ Hs) as (d1 & E1 & Hs1).
  { intro R. rewrite var_u64_roundtrip by (unfold two53, two64 in *; lia). cbn [bind]. unfold client_id_new.
    rewrite Hc. reflexivity. }
  destruct (sync_var_u32 _ _ _ _ _ Hs1) as (d2 & E2 & Hs2); [lia|].
  exists d2. split; [|exact Hs2]. unfold dec_scope_id, rd_client_id_rest. rewrite E1. cbn [bind2]. rewrite E2. cbn [bind2].
  destruct i; reflexivity.
Qed.

Lemma scope_rt : forall s root d k seq tl, wf_scope2 s = true ->
  (scope_unbounded s = true -> root = scope_root s) ->
  sync d (enc_scope s +++ k) seq tl ->
  exists d', dec_scope (scope_unbounded s) root d = R2Ok s d' /\ sync d' k seq tl.
Proof.
  intros [n|i|i] root d k seq tl Hwf Hroot Hs; cbn [wf_scope2 scope_unbounded scope_root enc_scope] in *;
    unfold dec_scope, r2_map.
  - rewrite (Hroot eq_refl). destruct (sync_string _ _ _ _ _ Hs) as (d1 & E & Hs1 & _).
    rewrite E. cbn [bind2]. eexists. split; [reflexivity|exact Hs1].
  - rewrite (Hroot eq_refl). step sync_scope_id. finish.
  - step sync_scope_id. finish.
Qed.

Lemma dec_tyref_weak : forall d d1, rd_type_ref d = R2Ok C_TYPE_REFS_WEAK d1 ->
  dec_tyref d = r2_map TWeak (dec_weak_link d1).
Proof. intros d d1 E. unfold dec_tyref. rewrite E. reflexivity. Qed.

Lemma weak_link_rt : forall w d k seq tl, wf_weaklink2 w = true ->
  sync d (enc_weak_link w +++ k) seq tl ->
  exists d', dec_tyref d = R2Ok (TWeak w) d' /\ sync d' k seq tl.
Proof.
  intros [s sa e ea] d k seq tl Hwf Hs. unfold wf_weaklink2 in Hwf. cbn [wl_start wl_end] in Hwf.
  apply andb_prop in Hwf. destruct Hwf as [Hwf Hmix]. apply andb_prop in Hwf. destruct Hwf as [Hws Hwe].
  apply negb_true_iff in Hmix. unfold wl_mixed in Hmix. cbn [wl_start wl_end] in Hmix.
  unfold enc_weak_link in Hs. cbn [wl_start wl_end wl_start_after wl_end_after] in Hs.
  set (single := wl_single {| wl_start := s; wl_start_after := sa; wl_end := e; wl_end_after := ea |}) in *.
  change (weak_info {| wl_start := s; wl_start_after := sa; wl_end := e; wl_end_after := ea |})
    with (wflags single (scope_root s || scope_root e) (scope_unbounded s) (scope_unbounded e) sa ea) in Hs.
  pose proof (wflags_facts single (scope_root s || scope_root e) (scope_unbounded s) (scope_unbounded e) sa ea) as F.
  set (info := wflags single (scope_root s || scope_root e) (scope_unbounded s) (scope_unbounded e) sa ea) in *.
  destruct F as (F1 & F2 & F3 & F4 & F5 & F6). clearbody info.
  rewrite !wr_app_assoc in Hs.
  destruct (sync_tyref _ _ _ _ _ Hs) as (d1 & E1 & Hs1); [reflexivity|].
  rewrite (dec_tyref_weak _ _ E1). clear E1 Hs. rename Hs1 into Hs.
  unfold r2_map, dec_weak_link. step sync_u8. cbv zeta.
  rewrite F1, F2, F3, F4, F5, F6, negb_involutive.
  edestruct (scope_rt s (scope_root s || scope_root e)) as (d2 & E2 & Hs2); [exact Hws| |exact Hs|].
  { destruct s, e; try discriminate; reflexivity. }
  rewrite E2. cbn [bind2]. clear E2 Hs. rename Hs2 into Hs.
  destruct e as [n|j|j]; cbn [scope_unbounded].
  - edestruct (scope_rt (SRoot n) (scope_root s || true)) as (d3 & E3 & Hs3); [exact Hwe| |exact Hs|].
    { cbn [scope_root]. intros _. apply orb_true_r. }
    cbn [scope_unbounded] in E3. cbn [scope_root]. rewrite E3. cbn [bind2]. eexists. split; [reflexivity|exact Hs3].
  - edestruct (scope_rt (SNested j) (scope_root s || false)) as (d3 & E3 & Hs3); [exact Hwe| |exact Hs|].
    { cbn [scope_root]. intros _. destruct s; try discriminate; reflexivity. }
    cbn [scope_unbounded] in E3. cbn [scope_root]. rewrite E3. cbn [bind2]. eexists. split; [reflexivity|exact Hs3].
  - unfold single, wl_single in *. cbn [wl_start wl_end] in *.
    destruct (scope_eqb s (SRelative j)) eqn:Eq.
    + destruct s as [n|i|i]; cbn [scope_eqb] in Eq; try discriminate.
      apply id_eqb_eq in Eq. subst i. cbn [negb]. cbn [bind2]. rewrite wr0_l in Hs. eexists. split; [reflexivity|exact Hs].
    + cbn [negb]. edestruct (scope_rt (SRelative j) (scope_root s || false)) as (d3 & E3 & Hs3); [exact Hwe| |exact Hs|].
      { cbn [scope_unbounded]. discriminate. }
      cbn [scope_unbounded] in E3. cbn [scope_root]. rewrite E3. cbn [bind2]. eexists. split; [reflexivity|exact Hs3].
Qed.

Lemma tyref_rt : forall t d k seq tl, wf_tyref2 t = true ->
  sync d (fst (enc_tyref seq t) +++ k) seq tl ->
  exists d', dec_tyref d = R2Ok t d' /\ sync d' k (snd (enc_tyref seq t)) tl.
Proof.
  intros t d k seq tl Hwf Hs.
  destruct t; cbn [enc_tyref fst snd wf_tyref2] in *;
    try (unfold dec_tyref; step sync_tyref; eval_eqb; finish).
  - unfold dec_tyref. step sync_tyref. eval_eqb. unfold r2_map. step sync_key. finish.
  - apply weak_link_rt; assumption.
Qed.

(* ---- contents ---- *)
Lemma dec_content_ref : forall info d c, N.land info 15 = content_ref c ->
  dec_content info d =
  match c with
  | BDeleted _ => r2_map BDeleted (rd_len d)
  | BJson _ => let+ (n, d1) := rd_len d in
               r2_map BJson (iter2 (if n <? two31 then n else 0) (push_step rd_string) [] d1)
  | BBinary _ => r2_map BBinary (rd_buf d)
  | BString _ => r2_map BString (rd_string d)
  | BEmbed _ => r2_map BEmbed (rd_any_raw d)
  | BFormat _ _ => let+ (k, d1) := rd_key d in let+ (v, d2) := rd_any_raw d1 in R2Ok (BFormat k v) d2
  | BType _ => r2_map BType (dec_tyref d)
  | BAny _ => let+ (n, d1) := rd_len d in r2_map BAny (iter2 n (push_step rd_any) [] d1)
  | BDoc _ _ => let+ (g, d1) := rd_string d in let+ (o, d2) := rd_any d1 in R2Ok (BDoc g o) d2
  end.
Proof. intros info d c H. unfold dec_content. rewrite H. destruct c; reflexivity. Qed.

Lemma strings_rt : forall l acc d k seq tl, sync d (wr_concat (map wS l) +++ k) seq tl ->
  exists d', iter2 (N.of_nat (length l)) (push_step rd_string) acc d = R2Ok (acc ++ l) d' /\ sync d' k seq tl.
Proof.
  induction l as [|s l IH]; intros acc d k seq tl Hs.
  - cbn [map wr_concat fold_right] in Hs. rewrite wr0_l in Hs. cbn [length]. rewrite iter2_0, app_nil_r.
    eexists. split; [reflexivity|exact Hs].
  - cbn [map wr_concat fold_right] in Hs. fold (wr_concat (map wS l)) in Hs. rewrite wr_app_assoc in Hs.
    cbn [length]. rewrite iter2_S. unfold push_step at 1.
    destruct (sync_string _ _ _ _ _ Hs) as (d1 & E & Hs1 & _). rewrite E. cbn [bind2].
    destruct (IH (acc ++ [s]) d1 k seq tl Hs1) as (d2 & E2 & Hs2). rewrite E2.
    rewrite <- app_assoc. eexists. split; [reflexivity|exact Hs2].
Qed.

Lemma anys_rt : forall l body acc d k seq tl, encode_anys l = Some body -> forallb wf_any_top l = true ->
  sync d (wB body +++ k) seq tl ->
  exists d', iter2 (N.of_nat (length l)) (push_step rd_any) acc d = R2Ok (acc ++ l) d' /\ sync d' k seq tl.
Proof.
  induction l as [|x l IH]; intros body acc d k seq tl Henc Hwf Hs.
  - cbn [encode_anys] in Henc. apply some_inj in Henc. subst body. change (wB []) with wr0 in Hs. rewrite wr0_l in Hs.
    cbn [length]. rewrite iter2_0, app_nil_r. eexists. split; [reflexivity|exact Hs].
  - cbn [encode_anys] in Henc. destruct (encode_any x) as [xb|] eqn:Ex; [|discriminate].
    destruct (encode_anys l) as [lb|] eqn:El; [|discriminate]. apply some_inj in Henc. subst body.
    cbn [forallb] in Hwf. apply andb_prop in Hwf. destruct Hwf as [Hx Hl].
    rewrite wB_app, wr_app_assoc in Hs.
    cbn [length]. rewrite iter2_S. unfold push_step at 1.
    destruct (sync_any _ x _ _ _ _ Hs Hx Ex) as (d1 & E & Hs1). rewrite E. cbn [bind2].
    destruct (IH lb (acc ++ [x]) d1 k seq tl eq_refl Hl Hs1) as (d2 & E2 & Hs2). rewrite E2.
    rewrite <- app_assoc. eexists. split; [reflexivity|exact Hs2].
Qed.

Lemma content_rt : forall c info seq cw seq' d k tl,
  wf_content2 c = true -> N.land info 15 = content_ref c -> enc_content seq c = Some (cw, seq') ->
  sync d (cw +++ k) seq tl ->
  exists d', dec_content info d = R2Ok c d' /\ sync d' k seq' tl.
Proof.
  intros c info seq cw seq' d k tl Hwf Hinfo Henc Hs. rewrite (dec_content_ref info d c Hinfo).
  destruct c as [n|l|b|s|j|ky j|t|l|g o]; cbn [enc_content wf_content2] in *; unfold r2_map.
  - apply some_inj in Henc. inversion Henc; subst. step sync_len. finish.
  - apply some_inj in Henc. inversion Henc; subst. apply andb_prop in Hwf. destruct Hwf as [Hp Hl].
    step sync_len. replace (N.of_nat (length l) <? two31) with true by lia.
    destruct (strings_rt l [] _ _ _ _ Hs) as (d1 & E & Hs1). rewrite E. cbn [bind2 app]. eexists. split; [reflexivity|exact Hs1].
  - apply some_inj in Henc. inversion Henc; subst. step sync_buf. finish.
  - apply some_inj in Henc. inversion Henc; subst. destruct (sync_string _ _ _ _ _ Hs) as (d1 & E & Hs1 & _).
    rewrite E. cbn [bind2]. eexists. split; [reflexivity|exact Hs1].
  - apply some_inj in Henc. inversion Henc; subst. step sync_any_raw. finish.
  - apply some_inj in Henc. inversion Henc; subst. step sync_key. step sync_any_raw. finish.
  - apply some_inj in Henc. destruct (enc_tyref seq t) as [tw sq] eqn:Et. inversion Henc; subst.
    pose proof (tyref_rt t d k seq tl Hwf) as Ht. rewrite Et in Ht. cbn [fst snd] in Ht.
    destruct (Ht Hs) as (d1 & E & Hs1). rewrite E. cbn [bind2]. eexists. split; [reflexivity|exact Hs1].
  - destruct (encode_anys l) as [body|] eqn:El; [|discriminate]. apply some_inj in Henc. inversion Henc; subst.
    apply andb_prop in Hwf. destruct Hwf as [Hwf Hl]. apply andb_prop in Hwf. destruct Hwf as [Hp Hlt].
    step sync_len.
    destruct (anys_rt l body [] _ _ _ _ El Hl Hs) as (d1 & E & Hs1). rewrite E. cbn [bind2 app].
    eexists. split; [reflexivity|exact Hs1].
  - destruct (encode_any o) as [body|] eqn:Eo; [|discriminate]. apply some_inj in Henc. inversion Henc; subst.
    rewrite wr_app_assoc in Hs. destruct (sync_string _ _ _ _ _ Hs) as (d1 & E & Hs1 & _). rewrite E. cbn [bind2].
    destruct (sync_any _ o _ _ _ _ Hs1 Hwf Eo) as (d2 & E2 & Hs2). rewrite E2. cbn [bind2].
    eexists. split; [reflexivity|exact Hs2].
Qed.

Lemma wf_content2_len : forall c, wf_content2 c = true -> (content_len c =? 0) = false.
Proof.
  intros c H. destruct c; cbn [wf_content2 content_len] in *; try reflexivity;
    repeat (apply andb_prop in H; destruct H as [H ?]); lia.
Qed.

(* ---- blocks ---- *)
Lemma sync_string' : forall d v k seq tl, sync d (wS v +++ k) seq tl ->
  exists d', rd_string d = R2Ok v d' /\ sync d' k seq tl.
Proof. intros d v k seq tl Hs. destruct (sync_string _ _ _ _ _ Hs) as (d1 & E & Hs1 & _). eauto. Qed.

Lemma enc_block_item : forall seq i o ro p ps c,
  enc_block seq (BItem i o ro p ps c) =
  let info := binfo (is_some o) (is_some ro) (is_some ps) c in
  let cant_copy := match o, ro with None, None => true | _, _ => false end in
  let ids := (match o with Some i => enc_left_id i | None => wr0 end) +++
             (match ro with Some i => enc_right_id i | None => wr0 end) in
  let par := if cant_copy then
               match p with
               | PNamed n => Some (wP 1 +++ wS n +++ match ps with Some s => wS s | None => wr0 end)
               | PId i => Some (wP 0 +++ enc_left_id i +++ match ps with Some s => wS s | None => wr0 end)
               | PUnknown => None
               end
             else Some wr0 in
  match par, enc_content seq c with
  | Some pb, Some (cb, seq') => Some (wI info +++ ids +++ pb +++ cb, seq')
  | _, _ => None
  end.
Proof. intros seq i o ro p ps c. destruct o, ro, ps; reflexivity. Qed.

Ltac item_setup Henc Hc :=
  rewrite enc_block_item in Henc; cbv zeta in Henc; cbn [is_some] in Henc;
  match type of Henc with context [binfo ?ho ?hr ?hp ?c] =>
    let F := fresh "F" in
    pose proof (binfo_facts ho hr hp c) as F;
    set (info := binfo ho hr hp c) in *;
    destruct F as (F1 & F2 & F3 & F4 & F5 & F6); clearbody info
  end.

Ltac item_tail c Hc Ec Hlen :=
  match goal with
  | Hs : sync ?d (?cb +++ ?k) ?seq ?tl, F6 : N.land ?info 15 = content_ref c |- _ =>
    let d' := fresh "d" in let E := fresh "E" in let Hs' := fresh "Hs" in
    destruct (content_rt c info seq cb _ d k tl Hc F6 Ec Hs) as (d' & E & Hs');
    rewrite E; cbn [bind2]; rewrite Hlen; eexists; split; [reflexivity|exact Hs']
  end.

Theorem block_rt : forall b seq bw seq' d k tl,
  wf_block2 b = true -> enc_block seq b = Some (bw, seq') -> sync d (bw +++ k) seq tl ->
  exists d', dec_block (block_id b) d = R2Ok (Some b) d' /\ sync d' k seq' tl.
Proof.
  intros b seq bw seq' d k tl Hwf Henc Hs. destruct b as [i o ro p ps c|i n|i n]; cbn [block_id wf_block2] in *.
  - repeat (apply andb_prop in Hwf; destruct Hwf as [Hwf ?]).
    rename H into Hshape, H0 into Hc, H1 into Hp, H2 into Hro, Hwf into Ho.
    pose proof (wf_content2_len c Hc) as Hlen.
    destruct o as [oi|], ro as [ri|]; cbn [is_some orb wf_oid] in *;
      try (match type of Hshape with true = true => fail 1 | _ => idtac end;
           destruct p; try discriminate Hshape; destruct ps; try discriminate Hshape).
    + item_setup Henc Hc. destruct (enc_content seq c) as [[cb sq]|] eqn:Ec; [|discriminate].
      apply some_inj in Henc. inversion Henc; subst bw seq'. clear Henc.
      unfold dec_block. step sync_info. rewrite F1, F2. cbv iota zeta. rewrite F3, F4. cbn [negb andb]. unfold r2_map.
      step sync_left_id. step sync_right_id. rewrite ?wr0_l in Hs. item_tail c Hc Ec Hlen.
    + item_setup Henc Hc. destruct (enc_content seq c) as [[cb sq]|] eqn:Ec; [|discriminate].
      apply some_inj in Henc. inversion Henc; subst bw seq'. clear Henc.
      unfold dec_block. step sync_info. rewrite F1, F2. cbv iota zeta. rewrite F3, F4. cbn [negb andb]. unfold r2_map.
      step sync_left_id. cbn [bind2]. rewrite ?wr0_l in Hs. item_tail c Hc Ec Hlen.
    + item_setup Henc Hc. destruct (enc_content seq c) as [[cb sq]|] eqn:Ec; [|discriminate].
      apply some_inj in Henc. inversion Henc; subst bw seq'. clear Henc.
      unfold dec_block. step sync_info. rewrite F1, F2. cbv iota zeta. rewrite F3, F4. cbn [negb andb]. unfold r2_map.
      cbn [bind2]. step sync_right_id. rewrite ?wr0_l in Hs. item_tail c Hc Ec Hlen.
    + cbn [wf_parent2] in Hp.
      destruct p as [pn|pi|]; [| |rewrite enc_block_item in Henc; cbv beta zeta iota in Henc; discriminate Henc];
        destruct ps as [s|];
        item_setup Henc Hc; (destruct (enc_content seq c) as [[cb sq]|] eqn:Ec; [|discriminate]);
        apply some_inj in Henc; inversion Henc; subst bw seq'; clear Henc;
        unfold dec_block; step sync_info; rewrite F1, F2; cbv iota zeta; rewrite F3, F4, F5; cbn [negb andb bind2]; unfold r2_map.
      * step sync_pinfo. eval_eqb. step sync_string'. step sync_string'. item_tail c Hc Ec Hlen.
      * step sync_pinfo. eval_eqb. step sync_string'. cbn [bind2]. rewrite ?wr0_l in Hs. item_tail c Hc Ec Hlen.
      * step sync_pinfo. eval_eqb. step sync_left_id. step sync_string'. item_tail c Hc Ec Hlen.
      * step sync_pinfo. eval_eqb. step sync_left_id. cbn [bind2]. rewrite ?wr0_l in Hs. item_tail c Hc Ec Hlen.
  - cbn [enc_block] in Henc. apply some_inj in Henc. inversion Henc; subst bw seq'. clear Henc.
    unfold dec_block. step sync_info. eval_eqb. unfold r2_map. step sync_len. finish.
  - cbn [enc_block] in Henc. apply some_inj in Henc. inversion Henc; subst bw seq'. clear Henc.
    unfold dec_block. step sync_info. eval_eqb. unfold r2_map. step sync_var_u32. finish.
Qed.

Lemma blocks_rt : forall l seq w seq' c clock acc d k tl,
  forallb wf_block2 l = true -> blocks_chain c clock l = true -> enc_blocks seq l = Some (w, seq') ->
  sync d (w +++ k) seq tl ->
  exists clock' d', iter2 (N.of_nat (length l)) (dec_block_step c) (clock, acc) d = R2Ok (clock', acc ++ l) d' /\
                    sync d' k seq' tl.
Proof.
  induction l as [|x l IH]; intros seq w seq' c clock acc d k tl Hwf Hch Henc Hs.
  - cbn [enc_blocks] in Henc. apply some_inj in Henc. inversion Henc; subst. rewrite wr0_l in Hs.
    cbn [length]. rewrite iter2_0, app_nil_r. eexists. eexists. split; [reflexivity|exact Hs].
  - cbn [forallb] in Hwf. apply andb_prop in Hwf. destruct Hwf as [Hx Hr].
    cbn [blocks_chain] in Hch. apply andb_prop in Hch. destruct Hch as [Hch Hch'].
    apply andb_prop in Hch. destruct Hch as [Hid Hk]. apply id_eqb_eq in Hid.
    cbn [enc_blocks] in Henc. destruct (enc_block seq x) as [[xw s1]|] eqn:Ex; [|discriminate].
    destruct (enc_blocks s1 l) as [[lw s2]|] eqn:El; [|discriminate]. apply some_inj in Henc. inversion Henc; subst.
    rewrite wr_app_assoc in Hs. cbn [length]. rewrite iter2_S. unfold dec_block_step at 1. cbn [fst snd].
    rewrite <- Hid. destruct (block_rt x seq xw s1 d _ tl Hx Ex Hs) as (d1 & E & Hs1). rewrite E. cbn [bind2].
    unfold add32_checked. rewrite Hk.
    destruct (IH s1 lw seq' c (clock + block_len x) (acc ++ [x]) d1 k tl Hr Hch' El Hs1) as (clock' & d2 & E2 & Hs2).
    cbn [bind2]. rewrite E2. rewrite <- app_assoc. eexists. eexists. split; [reflexivity|exact Hs2].
Qed.

Definition wf_client2 (cb : N * list block) : bool :=
  match snd cb with
  | [] => false
  | b0 :: _ =>
    (fst cb <? two53) && (N.of_nat (length (snd cb)) <? two32) &&
    forallb wf_block2 (snd cb) && blocks_chain (fst cb) (ck (block_id b0)) (snd cb)
  end.

Lemma clients_rt : forall l seq w seq' acc d k tl,
  forallb wf_client2 l = true -> nodupb (map fst l) = true ->
  (forall c' x, In c' (map fst acc) -> In x (map fst l) -> c' <> x) ->
  enc_clients seq l = Some (w, seq') -> sync d (w +++ k) seq tl ->
  exists d', iter2 (N.of_nat (length l)) dec_client_step acc d = R2Ok (acc ++ l) d' /\ sync d' k seq' tl.
Proof.
  induction l as [|[c bl] l IH]; intros seq w seq' acc d k tl Hwf Hnd Hacc Henc Hs.
  - cbn [enc_clients] in Henc. apply some_inj in Henc. inversion Henc; subst. rewrite wr0_l in Hs.
    cbn [length]. rewrite iter2_0, app_nil_r. eexists. split; [reflexivity|exact Hs].
  - cbn [forallb] in Hwf. apply andb_prop in Hwf. destruct Hwf as [Hx Hr].
    unfold wf_client2 in Hx. cbn [fst snd] in Hx. destruct bl as [|b0 bl']; [discriminate|].
    set (bl := b0 :: bl') in *.
    repeat (apply andb_prop in Hx; destruct Hx as [Hx ?]).
    rename Hx into Hc, H into Hch, H0 into Hwb, H1 into Hlen.
    cbn [enc_clients] in Henc. fold bl in Henc.
    destruct (enc_blocks seq bl) as [[xw s1]|] eqn:Ex; [|discriminate].
    destruct (enc_clients s1 l) as [[lw s2]|] eqn:El; [|discriminate]. apply some_inj in Henc.
    apply pair_equal_spec in Henc. destruct Henc as [<- <-].
    assert (Hk0 : ck (block_id b0) < two32).
    { unfold bl in Hch. cbn [blocks_chain] in Hch. apply andb_prop in Hch. destruct Hch as [Hch _].
      apply andb_prop in Hch. lia. }
    cbn [length]. rewrite iter2_S. unfold dec_client_step at 1.
    step sync_var_usize_u32. step sync_client. step sync_var_u32.
    rewrite ?wr_app_assoc in Hs.
    destruct (blocks_rt bl seq xw s1 c (ck (block_id b0)) [] _ _ tl Hwb Hch Ex Hs) as (clock' & d3 & E & Hs3).
    rewrite E. cbn [bind2 snd app].
    cbn [map fst nodupb] in Hnd. apply andb_prop in Hnd. destruct Hnd as [Hnin Hnd].
    apply negb_true_iff in Hnin.
    rewrite add_client_blocks_append.
    2:{ intros c' Hin. apply Hacc; [exact Hin|]. left. reflexivity. }
    destruct (IH s1 lw s2 (acc ++ [(c, bl)]) d3 k tl Hr Hnd) as (d4 & E4 & Hs4); [|exact El|exact Hs3|].
    + intros c' x Hin Hx. rewrite map_app in Hin. apply in_app_or in Hin. destruct Hin as [Hin|Hin].
      * apply Hacc; [exact Hin|]. right. exact Hx.
      * cbn [map fst In] in Hin. destruct Hin as [<-|[]]. eapply existsb_eqb_false; eassumption.
    + rewrite E4. rewrite <- app_assoc. eexists. split; [reflexivity|exact Hs4].
Qed.

(* ---- delete set (rest cursor and ds_curr_val only) ---- *)
Lemma rd_var_u32_at : forall d v R, d_rest d = write_var_u32 v ++ R -> v < two32 ->
  rd_var_u32 d = R2Ok v (set_rest d R).
Proof. intros d v R H Hv. unfold rd_var_u32, on_rest. rewrite H, var_u32_roundtrip by exact Hv. reflexivity. Qed.

Lemma rd_ds_clock_at : forall d s R, d_rest d = write_var_u32 (s - d_ds d) ++ R -> d_ds d <= s -> s < two32 ->
  rd_ds_clock d = R2Ok s (set_ds (set_rest d R) s).
Proof.
  intros d s R H Hle Hs. unfold rd_ds_clock. rewrite (rd_var_u32_at d _ R H) by lia. cbn [bind2].
  unfold set_rest at 1. prj. unfold add32_checked. replace (d_ds d + (s - d_ds d)) with s by lia.
  replace (s <? two32) with true by lia. reflexivity.
Qed.

Lemma rd_ds_len_at : forall d len R, d_rest d = write_var_u32 (len - 1) ++ R -> 1 <= len -> d_ds d + len < two32 ->
  rd_ds_len d = R2Ok len (set_ds (set_rest d R) (d_ds d + len)).
Proof.
  intros d len R H H1 Hs. unfold rd_ds_len. rewrite (rd_var_u32_at d _ R H) by lia. cbn [bind2].
  unfold add32_checked. replace (len - 1 + 1) with len by lia. replace (len <? two32) with true by lia.
  unfold set_rest at 1. prj. replace (d_ds d + len <? two32) with true by lia. reflexivity.
Qed.

Definition cur_of (p : option N) : N := match p with Some e => e | None => 0 end.

Lemma ranges_rt : forall r prev, forallb wf_entry r = true -> ranges_canonical prev r = true ->
  exists body, enc_ranges (cur_of prev) r = Some body /\
    forall d acc R, d_rest d = body ++ R -> d_ds d = cur_of prev ->
      exists d', iter2 (N.of_nat (length r)) dec_range_step acc d = R2Ok (acc ++ r) d' /\ d_rest d' = R.
Proof.
  induction r as [|x r IH]; intros prev Hwf Hcan.
  - exists []. split; [reflexivity|]. intros d acc R Hr Hd. cbn [length]. rewrite iter2_0, app_nil_r.
    exists d. split; [reflexivity|exact Hr].
  - cbn [forallb] in Hwf. apply andb_prop in Hwf. destruct Hwf as [Hx Hwf]. unfold wf_entry in Hx.
    cbn [ranges_canonical] in Hcan. apply andb_prop in Hcan. destruct Hcan as [Hcan Hcan'].
    apply andb_prop in Hcan. destruct Hcan as [Hne Hprev].
    destruct (IH (Some (e_end x)) Hwf Hcan') as (body' & Hb' & Hdec). cbn [cur_of] in Hb', Hdec.
    assert (Hcur : cur_of prev <= e_start x) by (destruct prev; cbn [cur_of]; lia).
    cbn [enc_ranges].
    replace ((e_start x <? cur_of prev) || (e_end x <=? e_start x) || (two32 <=? e_end x)) with false by lia.
    rewrite Hb'. eexists. split; [reflexivity|].
    intros d acc R Hr Hd. cbn [length]. rewrite iter2_S. unfold dec_range_step at 1. unfold dec_range.
    rewrite <- Hd in Hr. rewrite <- !app_assoc in Hr.
    rewrite (rd_ds_clock_at d (e_start x) _ Hr) by lia. cbn [bind2].
    set (d1 := set_ds (set_rest d _) (e_start x)).
    assert (Hr1 : d_rest d1 = write_var_u32 (e_end x - e_start x - 1) ++ body' ++ R) by reflexivity.
    assert (Hd1 : d_ds d1 = e_start x) by reflexivity.
    rewrite (rd_ds_len_at d1 (e_end x - e_start x) _ Hr1) by lia. cbn [bind2].
    unfold add32_checked. replace (e_start x + (e_end x - e_start x)) with (e_end x) by lia.
    replace (e_end x <? two32) with true by lia. cbn [bind2 fst snd].
    set (d2 := set_ds (set_rest d1 _) _).
    destruct (Hdec d2 (acc ++ [(e_start x, e_end x, tt)]) R) as (d3 & E & Hr3); [reflexivity|unfold d2; cbn [set_ds d_ds]; lia|].
    rewrite E. rewrite <- app_assoc. destruct x as [[s e] []]. exists d3. split; [reflexivity|exact Hr3].
Qed.

Lemma idrange_rt : forall r, wf_idrange r = true ->
  exists body, enc_ranges 0 r = Some body /\
    forall d R, d_rest d = write_var_u32 (N.of_nat (length r)) ++ body ++ R -> d_ds d = 0 ->
      exists d', dec_idrange d = R2Ok r d' /\ d_rest d' = R.
Proof.
  intros r Hwf. unfold wf_idrange in Hwf. apply andb_prop in Hwf. destruct Hwf as [Hwf Hcan].
  apply andb_prop in Hwf. destruct Hwf as [Hl Hr].
  destruct (ranges_rt r None Hr Hcan) as (body & Hb & Hdec). cbn [cur_of] in Hb, Hdec.
  exists body. split; [exact Hb|]. intros d R Hrest Hd. unfold dec_idrange.
  rewrite (rd_var_u32_at d _ _ Hrest) by lia. cbn [bind2].
  destruct (Hdec (set_rest d (body ++ R)) [] R) as (d' & E & Hr'); [reflexivity|exact Hd|].
  rewrite E. cbn [bind2 app]. unfold normalize_ranges. rewrite Hcan. exists d'. split; [reflexivity|exact Hr'].
Qed.

Lemma idset_clients_rt : forall s acc,
  forallb (fun cr => (fst cr <? two53) && wf_idrange (snd cr) && nonempty (snd cr)) s = true ->
  ascb (map fst s) = true ->
  (forall c' x, In c' (map fst acc) -> In x (map fst s) -> c' < x) ->
  exists body, enc_idset_clients s = Some body /\
    forall d R, d_rest d = body ++ R ->
      exists d', iter2 (N.of_nat (length s)) dec_idset_step acc d = R2Ok (acc ++ s) d' /\ d_rest d' = R.
Proof.
  induction s as [|[c r] s IH]; intros acc Hwf Hasc Hacc.
  - exists []. split; [reflexivity|]. intros d R Hr. cbn [length]. rewrite iter2_0, app_nil_r. exists d. split; [reflexivity|exact Hr].
  - cbn [forallb fst snd] in Hwf. apply andb_prop in Hwf. destruct Hwf as [Hx Hs].
    apply andb_prop in Hx. destruct Hx as [Hx Hne]. apply andb_prop in Hx. destruct Hx as [Hc Hr].
    destruct (idrange_rt r Hr) as (rb & Hrb & Hrdec).
    destruct (IH (acc ++ [(c, r)])) as (sb & Hsb & Hsdec).
    + exact Hs.
    + destruct s as [|[c1 r1] s]; [reflexivity|]. cbn [map fst ascb asc_above] in *. apply andb_prop in Hasc. tauto.
    + intros c' x Hin Hx. rewrite map_app in Hin. apply in_app_or in Hin. destruct Hin as [Hin|Hin].
      * apply Hacc; [exact Hin|]. right. exact Hx.
      * cbn [map fst In] in Hin. destruct Hin as [<-|[]]. cbn [map fst ascb] in Hasc. eapply asc_above_lt; eassumption.
    + cbn [enc_idset_clients]. rewrite Hrb, Hsb. eexists. split; [reflexivity|].
      intros d R Hrest. cbn [length]. rewrite iter2_S. unfold dec_idset_step at 1.
      unfold rd_client_id_rest, on_rest. unfold reset_ds at 1. cbn [set_ds d_rest]. rewrite Hrest.
      rewrite <- !app_assoc. rewrite var_u64_roundtrip by (unfold two53, two64 in *; lia). cbn [bind].
      unfold client_id_new. rewrite Hc. cbn [bind2].
      set (d1 := set_rest (reset_ds d) _).
      destruct (Hrdec d1 (sb ++ R)) as (d2 & E & Hr2); [reflexivity|reflexivity|].
      rewrite E. cbn [bind2]. destruct r as [|x0 r0]; [discriminate Hne|]. cbv iota.
      rewrite im_set_append.
      2:{ intros c' Hin. apply Hacc; [exact Hin|]. left. reflexivity. }
      destruct (Hsdec d2 R Hr2) as (d3 & E3 & Hr3). rewrite <- app_assoc in E3. cbn [app] in E3.
      exists d3. split; [exact E3|exact Hr3].
Qed.

Lemma idset_rt : forall s, wf_idset s = true ->
  exists body, enc_idset s = Some body /\
    forall d R, d_rest d = body ++ R -> exists d', dec_idset d = R2Ok s d' /\ d_rest d' = R.
Proof.
  intros s Hwf. unfold wf_idset in Hwf. apply andb_prop in Hwf. destruct Hwf as [Hwf Hasc].
  apply andb_prop in Hwf. destruct Hwf as [Hl Hs].
  destruct (idset_clients_rt s [] Hs Hasc) as (body & Hb & Hdec); [intros c' x []|].
  unfold enc_idset. rewrite Hb. eexists. split; [reflexivity|].
  intros d R Hrest. unfold dec_idset. rewrite <- app_assoc in Hrest.
  rewrite (rd_var_u32_at d _ _ Hrest) by lia. cbn [bind2].
  destruct (Hdec (set_rest d (body ++ R)) R) as (d' & E & Hr'); [reflexivity|].
  exists d'. split; [exact E|exact Hr'].
Qed.

(* ---- the column values of the whole update: what the column round trips need ----
   (1) value ranges: clocks and key clocks are u32 (idiff_vals_ok; no condition on their differences since /repo
       d9039ca), clients / type refs / lengths are below 2^63 (uint_vals_ok);
   (2) column sizes: fewer than 2^32 values per column (the u32 run counters), fewer than 2^31 info / parent-info
       bytes (RleDecoder counts in an i32);
   (3) strings (str_col_ok): every string written to the string column is well-formed UTF-8, fewer than 2^32 of them,
       fewer than 2^62 bytes in total. *)
Definition wf_cols (w : wr) : bool :=
  idiff_vals_ok (w_keyclock w) && (N.of_nat (length (w_keyclock w)) <? two32) &&
  uint_vals_ok (w_client w) && (N.of_nat (length (w_client w)) <? two32) &&
  idiff_vals_ok (w_left w) && (N.of_nat (length (w_left w)) <? two32) &&
  idiff_vals_ok (w_right w) && (N.of_nat (length (w_right w)) <? two32) &&
  (N.of_nat (length (w_info w)) <? two31) &&
  str_col_ok (w_string w) &&
  (N.of_nat (length (w_pinfo w)) <? two31) &&
  uint_vals_ok (w_tyref w) && (N.of_nat (length (w_tyref w)) <? two32) &&
  uint_vals_ok (w_len w) && (N.of_nat (length (w_len w)) <? two32).

Lemma cols_rt : forall w, wf_cols w = true ->
  exists bs, wr_to_bytes w = Some bs /\
    (N.of_nat (length bs) < two64 -> exists d, new_decoder bs = R2Ok tt d /\ sync d w 0 []).
Proof.
  intros w H. unfold wf_cols in H.
  repeat (apply andb_prop in H; let H' := fresh "C" in destruct H as [H H']).
  destruct (uint_encode_yields (w_client w)) as (cb & Hcb & Hcy); [assumption|lia|].
  destruct (uint_encode_yields (w_tyref w)) as (tb & Htb & Hty); [assumption|lia|].
  destruct (uint_encode_yields (w_len w)) as (lb & Hlb & Hly); [assumption|lia|].
  destruct (str_encode_yields (w_string w)) as (sb & lens & Hsb & Hnew & Hsy); [assumption|].
  unfold wr_to_bytes. rewrite Hcb, Hsb, Htb, Hlb. eexists. split; [reflexivity|].
  intro Hlen. cbn [length] in Hlen. unfold write_buf, write_var_usize in Hlen. rewrite !app_length in Hlen.
  unfold new_decoder.
  repeat (rewrite read_buf_v2_roundtrip by (unfold two64 in *; lia); cbn [bind]). rewrite Hnew.
  eexists. split; [reflexivity|].
  unfold sync. prj. repeat split.
  - apply idiff_encode_yields; try assumption; try reflexivity; lia.
  - apply Hcy. reflexivity.
  - apply idiff_encode_yields; try assumption; try reflexivity; lia.
  - apply idiff_encode_yields; try assumption; try reflexivity; lia.
  - apply rle_encode_yields; [lia|reflexivity].
  - exact Hsy.
  - apply rle_encode_yields; [lia|reflexivity].
  - apply Hty. reflexivity.
  - apply Hly. reflexivity.
  - rewrite app_nil_r. reflexivity.
Qed.

(* the structural conditions of v1's wf_update (clients below 2^53 with consecutive block ids, fewer than 2^32 clients
   and blocks, canonical delete set) over wf_block2 / wf_content2 -- which differ from v1's wf_block in that an
   Embed / Format payload must be the encoding of a well-formed Any (any_payload_ok) instead of a JSON string, and in
   that no per-string length bound is needed -- plus wf_cols of the update's column traces *)
Definition wf_update_v2 (u : update) : bool :=
  (N.of_nat (length (u_blocks u)) <? two32) && forallb wf_client2 (u_blocks u) &&
  nodupb (map fst (u_blocks u)) && wf_idset (u_ds u) &&
  match enc_update u with Some w => wf_cols w | None => false end.

Lemma nonempty_clients_id2 : forall l, forallb wf_client2 l = true -> nonempty_clients l = l.
Proof.
  induction l as [|[c bl] l IH]; intro H; [reflexivity|].
  cbn [forallb] in H. apply andb_prop in H. destruct H as [Hx Hr].
  unfold nonempty_clients in *. cbn [filter snd]. destruct bl; [discriminate|]. rewrite IH by exact Hr. reflexivity.
Qed.

(* (b) the whole update: the encoder does not panic, and what it writes decodes to the same update with nothing
   left on the rest cursor.  The length hypothesis says the output fits the address space (column lengths are
   written as usize). *)
Theorem update_v2_roundtrip : forall u, wf_update_v2 u = true ->
  exists bs, encode_update_v2 u = Some bs /\
             (N.of_nat (length bs) < two64 -> decode_update_v2 bs = Ok u []).
Proof.
  intros [cs ds] Hwf. unfold wf_update_v2 in Hwf. cbn [u_blocks u_ds] in Hwf.
  repeat (apply andb_prop in Hwf; destruct Hwf as [Hwf ?]).
  rename Hwf into Hn, H into Hcols, H0 into Hds, H1 into Hnd, H2 into Hcl.
  destruct (enc_update {| u_blocks := cs; u_ds := ds |}) as [w|] eqn:Eu; [|discriminate].
  destruct (cols_rt w Hcols) as (bs & Hbs & Hdec). exists bs. split; [unfold encode_update_v2; rewrite Eu; exact Hbs|].
  intro Hlen. destruct (Hdec Hlen) as (d & Hnew & Hs). unfold decode_update_v2. rewrite Hnew. cbn [bind2].
  unfold enc_update in Eu. cbn [u_blocks u_ds] in Eu. rewrite nonempty_clients_id2 in Eu by exact Hcl.
  destruct (enc_clients 0 cs) as [[body sq]|] eqn:Ec; [|discriminate].
  destruct (idset_rt ds Hds) as (dsb & Hdsb & Hdsdec). rewrite Hdsb in Eu. apply some_inj in Eu. subst w.
  unfold dec_update. step sync_var_usize_u32.
  assert (Hacc : forall c' x : N, In c' (map fst (@nil (N * list block))) -> In x (map fst cs) -> c' <> x) by (intros c' x []).
  destruct (clients_rt cs 0 body sq [] d0 (wB dsb) [] Hcl Hnd Hacc Ec Hs) as (d2 & E2 & Hs2).
  rewrite E2. cbn [bind2 app].
  assert (Hr2 : d_rest d2 = dsb ++ []) by (destruct Hs2 as (_ & _ & _ & _ & _ & _ & _ & _ & _ & Hr & _); exact Hr).
  destruct (Hdsdec d2 [] Hr2) as (d3 & E3 & Hr3). rewrite E3. cbn [bind2]. rewrite Hr3. reflexivity.
Qed.
Print Assumptions update_v2_roundtrip.

(* ================================================================================================ *)
(* 10. the v2 update decoder is total: Ok or Err for every input, no panic, no fuel                   *)
(* ================================================================================================ *)

Definition ok2 {A} (r : r2 A) : Prop :=
  match r with R2Fuel | R2Panic _ => False | _ => True end.

Lemma ok2_bind2 : forall A B (r : r2 A) (f : A -> dec2 -> r2 B),
  ok2 r -> (forall a d, ok2 (f a d)) -> ok2 (bind2 r f).
Proof. intros A B r f Hr Hf. destruct r; cbn [bind2 ok2] in *; auto. Qed.
Lemma ok2_map2 : forall A B (g : A -> B) (r : r2 A), ok2 r -> ok2 (r2_map g r).
Proof. intros A B g r H. unfold r2_map. apply ok2_bind2; [exact H|]. intros; exact I. Qed.
Lemma ok2_iter2 : forall A (step : A -> dec2 -> r2 A) n a d,
  (forall a d, ok2 (step a d)) -> ok2 (iter2 n step a d).
Proof.
  intros A step n a d H. rewrite iter2_spec. induction n as [|n IH] using N.peano_ind; [exact I|].
  rewrite N.iter_succ. apply ok2_bind2; [exact IH|exact H].
Qed.
Lemma ok2_on_rest : forall A (f : list N -> res A) d, (forall bs, no_panic_fuel (f bs)) -> ok2 (on_rest f d).
Proof. intros A f d H. unfold on_rest. specialize (H (d_rest d)). destruct (f (d_rest d)); cbn in *; auto; contradiction. Qed.
Lemma ok2_on_col : forall S V (read : S -> list N -> res (V * S)) get set d,
  (forall st bs, no_panic_fuel (read st bs)) -> ok2 (on_col read get set d).
Proof.
  intros S V read get set d H. unfold on_col. specialize (H (fst (get d)) (snd (get d))).
  destruct (read (fst (get d)) (snd (get d))); cbn in *; auto; contradiction.
Qed.
Lemma ok2_on_col_rle : forall get set d, ok2 (on_col rle_read get set d).
Proof. intros get set d. apply ok2_on_col. apply rle_read_total. Qed.

Lemma decode_any_here_total : forall bs, no_panic_fuel (decode_any_here bs).
Proof.
  intro bs. unfold decode_any_here. pose proof (decode_any_total (S (length bs)) bs) as H.
  pose proof (decode_any_fuel bs) as Hf. destruct (decode_any (S (length bs)) bs); cbn in *; auto.
Qed.

Lemma read_client_id_total : forall bs, no_panic_fuel (let* (c, r) := read_var_u64 bs in client_id_new c r).
Proof.
  intro bs. apply npf_bind; [apply read_var_u64_total|]. intros c r. unfold client_id_new. destruct (c <? two53); exact I.
Qed.

Ltac ok2 :=
  repeat first
    [ exact I
    | apply ok2_map2
    | apply ok2_bind2; [|intros]
    | apply ok2_on_col_rle
    | apply ok2_on_col; first [apply uint_read_total | apply idiff_read_total | apply str_read_total]
    | apply ok2_on_rest; first [ apply read_var_u32_total | apply read_buf_total | apply decode_any_here_total
                               | apply read_client_id_total | intros [|? ?]; exact I ] ].

Lemma ok2_rd_client : forall d, ok2 (rd_client d).
Proof. intro d. unfold rd_client. ok2. unfold client_check. destruct (a <? two53); exact I. Qed.
Lemma ok2_rd_left_id : forall d, ok2 (rd_left_id d).
Proof. intro d. unfold rd_left_id. apply ok2_bind2; [apply ok2_rd_client|]. intros. ok2. Qed.
Lemma ok2_rd_right_id : forall d, ok2 (rd_right_id d).
Proof. intro d. unfold rd_right_id. apply ok2_bind2; [apply ok2_rd_client|]. intros. ok2. Qed.
Lemma ok2_rd_string : forall d, ok2 (rd_string d).
Proof. intro d. unfold rd_string. ok2. Qed.
Lemma ok2_rd_len : forall d, ok2 (rd_len d).
Proof. intro d. unfold rd_len. ok2. Qed.
Lemma ok2_rd_var_u32 : forall d, ok2 (rd_var_u32 d).
Proof. intro d. unfold rd_var_u32. ok2. Qed.
Lemma ok2_rd_key : forall d, ok2 (rd_key d).
Proof.
  intro d. unfold rd_key. ok2. destruct (nth_N (d_keys d0) a); [exact I|].
  apply ok2_bind2; [apply ok2_rd_string|]. intros; exact I.
Qed.
Lemma ok2_rd_any_raw : forall d, ok2 (rd_any_raw d).
Proof.
  intro d. unfold rd_any_raw. apply ok2_on_rest. intro bs. apply npf_bind; [apply decode_any_here_total|]. intros; exact I.
Qed.
Lemma ok2_rd_any : forall d, ok2 (rd_any d).
Proof. intro d. unfold rd_any. ok2. Qed.

Lemma ok2_dec_scope_id : forall d, ok2 (dec_scope_id d).
Proof. intro d. unfold dec_scope_id, rd_client_id_rest. ok2. Qed.
Lemma ok2_dec_scope : forall u r d, ok2 (dec_scope u r d).
Proof.
  intros u r d. unfold dec_scope. destruct u; [destruct r|]; apply ok2_map2;
    first [apply ok2_rd_string|apply ok2_dec_scope_id].
Qed.
Lemma ok2_dec_weak_link : forall d, ok2 (dec_weak_link d).
Proof.
  intro d. unfold dec_weak_link. apply ok2_bind2; [unfold rd_u8; ok2|]. intros flags d0. cbv zeta.
  apply ok2_bind2; [apply ok2_dec_scope|]. intros s d1.
  apply ok2_bind2; [|intros; exact I].
  destruct (flag flags C_WEAK_REF_FLAGS_END_UNBOUNDED); [apply ok2_dec_scope|].
  destruct (negb (flag flags C_WEAK_REF_FLAGS_QUOTE)); [exact I|apply ok2_dec_scope].
Qed.
Lemma ok2_dec_tyref : forall d, ok2 (dec_tyref d).
Proof.
  intro d. unfold dec_tyref. apply ok2_bind2; [unfold rd_type_ref; ok2|]. intros t d1.
  repeat match goal with |- ok2 (if ?c then _ else _) => destruct c end;
    try exact I; apply ok2_map2; first [apply ok2_rd_key|apply ok2_dec_weak_link].
Qed.

Lemma ok2_push_step : forall A (rd : dec2 -> r2 A), (forall d, ok2 (rd d)) -> forall acc d, ok2 (push_step rd acc d).
Proof. intros A rd H acc d. unfold push_step. apply ok2_bind2; [apply H|]. intros; exact I. Qed.

Lemma ok2_dec_content : forall info d, ok2 (dec_content info d).
Proof.
  intros info d. unfold dec_content.
  repeat match goal with |- ok2 (if ?c then _ else _) => destruct c end; try exact I.
  - apply ok2_map2, ok2_rd_len.
  - apply ok2_bind2; [apply ok2_rd_len|]. intros n d1. apply ok2_map2, ok2_iter2. apply ok2_push_step, ok2_rd_string.
  - apply ok2_map2. unfold rd_buf. ok2.
  - apply ok2_map2, ok2_rd_string.
  - apply ok2_map2, ok2_rd_any_raw.
  - apply ok2_bind2; [apply ok2_rd_key|]. intros k d1. apply ok2_bind2; [apply ok2_rd_any_raw|]. intros; exact I.
  - apply ok2_map2, ok2_dec_tyref.
  - apply ok2_bind2; [apply ok2_rd_len|]. intros n d1. apply ok2_map2, ok2_iter2. apply ok2_push_step, ok2_rd_any.
  - apply ok2_bind2; [apply ok2_rd_string|]. intros g d1. apply ok2_bind2; [apply ok2_rd_any|]. intros; exact I.
Qed.

Lemma ok2_dec_block : forall i d, ok2 (dec_block i d).
Proof.
  intros i d. unfold dec_block. apply ok2_bind2; [unfold rd_info; apply ok2_on_col_rle|]. intros info d0.
  destruct (info =? C_BLOCK_SKIP_REF_NUMBER); [apply ok2_map2, ok2_rd_var_u32|].
  destruct (info =? C_BLOCK_GC_REF_NUMBER); [apply ok2_map2, ok2_rd_len|]. cbv zeta.
  apply ok2_bind2. { destruct (flag info C_HAS_ORIGIN); [apply ok2_map2, ok2_rd_left_id|exact I]. } intros o d1.
  apply ok2_bind2. { destruct (flag info C_HAS_RIGHT_ORIGIN); [apply ok2_map2, ok2_rd_right_id|exact I]. } intros ro d2.
  apply ok2_bind2.
  { destruct (negb (flag info C_HAS_ORIGIN) && negb (flag info C_HAS_RIGHT_ORIGIN)); [|exact I].
    apply ok2_bind2; [unfold rd_parent_info; apply ok2_map2, ok2_on_col_rle|]. intros is_key q.
    destruct is_key; apply ok2_map2; [apply ok2_rd_string|apply ok2_rd_left_id]. }
  intros p d3. apply ok2_bind2.
  { destruct (negb (flag info C_HAS_ORIGIN) && negb (flag info C_HAS_RIGHT_ORIGIN) && flag info C_HAS_PARENT_SUB);
      [apply ok2_map2, ok2_rd_string|exact I]. }
  intros ps d4. apply ok2_bind2; [apply ok2_dec_content|]. intros c d5. destruct (content_len c =? 0); exact I.
Qed.

Lemma ok2_dec_client_step : forall acc d, ok2 (dec_client_step acc d).
Proof.
  intros acc d. unfold dec_client_step. apply ok2_bind2; [apply ok2_rd_var_u32|]. intros nb d1.
  apply ok2_bind2; [apply ok2_rd_client|]. intros c d2. apply ok2_bind2; [apply ok2_rd_var_u32|]. intros k d3.
  apply ok2_bind2; [|intros; exact I]. apply ok2_iter2. intros st d4. unfold dec_block_step.
  apply ok2_bind2; [apply ok2_dec_block|]. intros ob d5. destruct ob as [b|]; [|exact I].
  destruct (add32_checked (fst st) (block_len b)); exact I.
Qed.

Lemma ok2_dec_idset : forall d, ok2 (dec_idset d).
Proof.
  intro d. unfold dec_idset. apply ok2_bind2; [apply ok2_rd_var_u32|]. intros n d1. apply ok2_iter2. intros acc d2.
  unfold dec_idset_step. apply ok2_bind2; [unfold rd_client_id_rest; ok2|]. intros c d3.
  apply ok2_bind2; [|intros; exact I]. unfold dec_idrange. apply ok2_bind2; [apply ok2_rd_var_u32|]. intros len d4.
  apply ok2_bind2.
  - apply ok2_iter2. intros acc' d5. unfold dec_range_step. apply ok2_bind2; [|intros; exact I]. unfold dec_range.
    apply ok2_bind2.
    { unfold rd_ds_clock. apply ok2_bind2; [apply ok2_rd_var_u32|]. intros diff d6. destruct (add32_checked (d_ds d6) diff); exact I. }
    intros clock d6. apply ok2_bind2.
    { unfold rd_ds_len. apply ok2_bind2; [apply ok2_rd_var_u32|]. intros v d7. destruct (add32_checked v 1); [|exact I].
      destruct (add32_checked (d_ds d7) n0); exact I. }
    intros l d7. destruct (add32_checked clock l); exact I.
  - intros raw d5. destruct (normalize_ranges_spec raw) as (r & -> & _). exact I.
Qed.

(* for every byte string the result is Ok or Err: never a panic, never out of fuel *)
Theorem decode_update_v2_total : forall bs, no_panic_fuel (decode_update_v2 bs).
Proof.
  intro bs. unfold decode_update_v2.
  assert (H : ok2 (let+ (_, d) := new_decoder bs in dec_update d)).
  { apply ok2_bind2.
    - unfold new_decoder.
      match goal with |- ok2 (match ?r with _ => _ end) => assert (Hn : no_panic_fuel r); [|destruct r; cbn in *; auto; contradiction] end.
      repeat (apply npf_bind; [apply read_buf_v2_total|intros]).
      pose proof (str_new_total a4) as Hs. destruct (str_new a4); cbn in *; auto.
    - intros _ d. unfold dec_update. apply ok2_bind2; [apply ok2_rd_var_u32|]. intros n d1.
      apply ok2_bind2; [apply ok2_iter2, ok2_dec_client_step|]. intros cs d2.
      apply ok2_bind2; [apply ok2_dec_idset|]. intros; exact I. }
  destruct (let+ (_, d) := new_decoder bs in dec_update d); cbn in *; auto.
Qed.
Print Assumptions decode_update_v2_total.

(* ================================================================================================ *)
(* 11. (d) examples                                                                                  *)
(* ================================================================================================ *)

(* the runs of the doc comments of encoder.rs *)
Example idiff_example :
  idiff_encode [1; 2; 3; 2] = [3; 1; 66] /\
  idiff_decode 4 [3; 1; 66] = Ok ([1; 2; 3; 2], {| id_last := 2; id_count := 0; id_diff := (-1)%Z |}) [].
Proof. split; vm_compute; reflexivity. Qed.

Example uint_example :
  uint_encode [1; 2; 3; 3; 3] = Some [1; 2; 67; 1] /\
  uint_decode 5 [1; 2; 67; 1] = Ok ([1; 2; 3; 3; 3], {| ud_last := 3; ud_count := 0 |}) [].
Proof. split; vm_compute; reflexivity. Qed.

(* "negative zero": a run of zeros is the sign flag alone *)
Example uint_negative_zero :
  uint_encode [0; 0; 0; 5] = Some [64; 1; 5] /\
  uint_decode 4 [64; 1; 5] = Ok ([0; 0; 0; 5], {| ud_last := 5; ud_count := 0 |}) [].
Proof. split; vm_compute; reflexivity. Qed.

(* the count of the last run is not written: the decoder repeats the last value "forever" *)
Example rle_example :
  rle_encode [1; 1; 1; 7] = [1; 2; 7] /\
  rle_decode 6 [1; 2; 7] = Ok ([1; 1; 1; 7; 7; 7], {| rd_last := 7; rd_count := (-4)%Z |}) [].
Proof. split; vm_compute; reflexivity. Qed.

(* "hi", "", U+1F600, U+E9: one buffer and the UTF-16 lengths 2 0 2 1 *)
Example str_example :
  str_encode [[104; 105]; []; [240; 159; 152; 128]; [195; 169]] =
    Some [8; 104; 105; 240; 159; 152; 128; 195; 169; 2; 0; 2; 1] /\
  rmap fst (str_decode 4 [8; 104; 105; 240; 159; 152; 128; 195; 169; 2; 0; 2; 1]) =
    Ok [[104; 105]; []; [240; 159; 152; 128]; [195; 169]] [].
Proof. split; vm_compute; reflexivity. Qed.

(* what the side condition of uint_roundtrip excludes: 2^63 makes the encoder panic when it is repeated
   (`-(i64::MIN)`); a single 2^63 + 5 is written as a negative i64, which the decoder takes for a run *)
Example uint_above_i64 :
  uint_encode [9223372036854775808; 9223372036854775808] = None /\
  exists b, uint_encode [9223372036854775813] = Some b /\ uint_decode 1 b = Err EndOfBuffer.
Proof. split; [vm_compute; reflexivity|]. eexists. split; [vm_compute; reflexivity|vm_compute; reflexivity]. Qed.

(* an update with a key (XmlElement), a format, an embed, a weak link, GC and Skip, two clients, a delete set *)
Example update_v2_roundtrip_example :
  let w := {| wl_start := SRelative (mkid 3 4); wl_start_after := true;
              wl_end := SRoot [120]; wl_end_after := false |} in
  let u := {| u_blocks :=
                [(7, [BItem (mkid 7 0) None None (PId (mkid 5 0)) None (BDeleted 4);
                      BItem (mkid 7 4) (Some (mkid 7 3)) None PUnknown None (BFormat [98] [120]);
                      BItem (mkid 7 5) (Some (mkid 7 4)) None PUnknown None (BEmbed [119; 1; 97])]);
                 (5, [BItem (mkid 5 0) None None (PNamed [97]) (Some [98]) (BString [104; 195; 169]);
                      BItem (mkid 5 2) (Some (mkid 5 1)) None PUnknown None
                            (BAny [AInt (-5)%Z; AArray [ANull; AString [65]]]);
                      BGC (mkid 5 4) 3; BSkip (mkid 5 7) 2;
                      BItem (mkid 5 9) (Some (mkid 5 1)) (Some (mkid 7 0)) PUnknown None (BType (TWeak w));
                      BItem (mkid 5 10) None None (PNamed [97]) None (BType (TXmlElement [112]));
                      BItem (mkid 5 11) None None (PNamed [97]) None (BType (TXmlElement [112]))])];
              u_ds := [(5, [(0, 1, tt); (3, 4, tt)]); (9, [(1, 2, tt)])] |} in
  wf_update_v2 u = true /\
  exists bs, encode_update_v2 u = Some bs /\ decode_update_v2 bs = Ok u [].
Proof.
  split; [vm_compute; reflexivity|]. eexists. split; [vm_compute; reflexivity|]. vm_compute. reflexivity.
Qed.

(* OBSERVATION (not a panic): under v2 a block need not consume any input byte, so the size of the decoded update
   is not bounded by the size of the input.  21 bytes decode to 1000 GC blocks here; the two count fields go up to
   2^32 - 1 (checked against yrs: 23 bytes decode to 1 000 000 blocks). *)
Definition expansion_witness : list N := [0; 0; 1; 1; 0; 0; 1; 0; 1; 0; 0; 0; 3; 65; 230; 7; 1; 232; 7; 0; 0].
Example v2_expansion :
  match decode_update_v2 expansion_witness with
  | Ok u [] => map (fun cb => (fst cb, length (snd cb))) (u_blocks u) = [(1, 1000%nat)]
  | _ => False
  end.
Proof. vm_compute. reflexivity. Qed.

(* ================================================================================================ *)
(* assumptions of the main theorems                                                                  *)
(* ================================================================================================ *)
Print Assumptions idiff_roundtrip.
Print Assumptions uint_roundtrip.
Print Assumptions rle_roundtrip.
Print Assumptions str_roundtrip.
Print Assumptions update_v2_roundtrip.
Print Assumptions uint_decode_total.
Print Assumptions idiff_decode_total.
Print Assumptions str_decode_total.
Print Assumptions rle_decode_total.
Print Assumptions decode_update_v2_total.

(* ================================================================================================ *)
(* 12. clock differences of 2^30 and above (the former 31-bit limit of IntDiffOptRle)                *)
(* ================================================================================================ *)

(* An item whose origin has clock 2^30: first value of the left clock column, difference 2^30 to the initial 0.
   Before /repo d9039ca the encoder computed `diff << 1` in i32 and the origin came back as clock 3 * 2^30;
   now the difference is widened to i64 first.  The bytes are those yrs d9039ca produces
   (Update::decode_v1(v1 bytes).encode_v2(), test v2_clock_limit / v2_clock_cases of the scratch copy), and yrs
   decodes them back to origin-l: <1#1073741824>. *)
Definition clock_limit_update : update :=
  {| u_blocks := [(1, [BItem (mkid 1 1073741825) (Some (mkid 1 1073741824)) None PUnknown None (BDeleted 1)])];
     u_ds := [] |}.
Definition clock_limit_v2 : list N :=
  [0; 0; 2; 65; 0; 5; 128; 128; 128; 128; 16; 0; 1; 129; 1; 0; 0; 0; 1; 1; 1; 1; 129; 128; 128; 128; 4; 0].
Example update_v2_clock_limit_roundtrips :
  wf_update_v2 clock_limit_update = true /\
  encode_update_v2 clock_limit_update = Some clock_limit_v2 /\
  decode_update_v2 clock_limit_v2 = Ok clock_limit_update [].
Proof. repeat split; vm_compute; reflexivity. Qed.
