(* Round trip, totality and well-formedness of decoded values for the v1 codec of the attributed id map
   (IdMapCodec.v; yrs/src/id_map.rs impl Encode / Decode for IdMap<A>, A = String; Rust head 7f9cd1e: `==` on
   ContentAttributes compares both inclusions).

     1.  idm_roundtrip          idm_wf v = true -> length (idm_encode_v1 v) <= fuel ->
                                idm_decode_v1 fuel (idm_encode_v1 v ++ rest) = Ok v rest          (v itself)
     1'. idm_roundtrip_gen      idm_swf v = true (idm_wf without the order of first use) -> ... = Ok (idm_canon v) rest
         idm_canon_resolve      idm_resolve (idm_canon v) = idm_resolve v
     2.  idm_decode_total       length bs < fuel -> a value (and a shorter rest) or an error, never Panic / Fuel
     3.  idm_decoded_struct_wf  idm_decode_v1 fuel bs = Ok v rest -> idm_struct_wf v = true       (unconditional)
         idm_decoded_chain      ... -> no two touching ranges with equal attribute lists           (unconditional)
         idm_decoded_wf         ... -> length bs < 2^32 -> idm_enc_wf v = true
         idm_decoded_idempotent ... -> length bs < 2^32 -> exists v', idm_decode_v1 f' (idm_encode_v1 v) = Ok v' [] /\
                                idm_resolve v' = idm_resolve v      (v' = idm_canon v)
         idm_decoded_first_use_refuted: decoded values are not numbered in order of first use (the encoder renumbers)
         idm_decoded_reencode   a decoded value that is, decodes to itself again
     idm_attrs_eq_equiv         the equality of attribute lists is reflexive (well-formed table), symmetric, transitive
   About IdRanges::insert_with, for any value type / equality / merge (Ids/Ranges.v insert_with):
         idm_insert_with_some   never an index panic
         idm_insert_with_srt    keeps the list sorted, disjoint, non-empty, inside [min lo s, max hi e]
         idm_insert_with_vals   every value of the result is an old one, the new one, or an old one merged with the new
         idm_insert_with_cl     for a symmetric and transitive equality: no two touching neighbours with equal values *)
From Coq Require Import List NArith ZArith Bool Lia ZifyBool ZifyN ZifyNat.
From YV Require Import Gen.Consts Lib.Bytes Codec.Varint Codec.AnyCodec Codec.IdSetCodec Ids.Ranges Ids.RangesProofs
  Codec.VarintProofs Codec.AnyProofs Codec.FramingProofs Codec.UpdateProofs.
From YV Require Import Codec.IdMapCodec.
Import ListNotations.
Open Scope N_scope.
Ltac Zify.zify_post_hook ::= Z.div_mod_to_equations.

(* ------------------------------------------------------------------------------------------------ *)
(* unfolding equations of the fuelled loops                                                         *)
(* ------------------------------------------------------------------------------------------------ *)

Lemma idm_dec_attrs_eq : forall fuel n st bs acc,
  idm_dec_attrs fuel n st bs acc =
  if n =? 0 then Ok (st, rev acc) bs else
  match fuel with
  | O => Fuel
  | S f =>
    let* (x, rest) := idm_dec_attr fuel st bs in
    idm_dec_attrs f (n - 1) (fst x) rest (snd x :: acc)
  end.
Proof. destruct fuel; reflexivity. Qed.

Lemma idm_dec_ranges_eq : forall fuel n st bs acc,
  idm_dec_ranges fuel n st bs acc =
  if n =? 0 then Ok (st, rev acc) bs else
  match fuel with
  | O => Fuel
  | S f =>
    let* (x, rest) := idm_dec_range f st bs in
    idm_dec_ranges f (n - 1) (fst x) rest (snd x :: acc)
  end.
Proof. destruct fuel; reflexivity. Qed.

Lemma idm_dec_clients_eq : forall fuel n st last bs acc,
  idm_dec_clients fuel n st last bs acc =
  if n =? 0 then Ok (st, acc) bs else
  match fuel with
  | O => Fuel
  | S f =>
    let* (diff, r1) := read_var_u64 bs in
    match idm_add64_checked last diff with
    | None => Err UnexpectedValue
    | Some client =>
      let* (num_ranges, r2) := read_var_u32 r1 in
      let* (x, r3) := idm_dec_ranges f num_ranges st r2 [] in
      let* (c, r4) := client_id_new client r3 in
      match idm_normalize (fst (fst x)) (snd x) with
      | None => Panic P_INDEX
      | Some rs =>
        idm_dec_clients f (n - 1) (fst x) client r4 (match rs with [] => acc | _ => im_set acc c rs end)
      end
    end
  end.
Proof. destruct fuel; reflexivity. Qed.

(* ------------------------------------------------------------------------------------------------ *)
(* IdRanges::insert_with never indexes out of bounds (for any value type, any list)                 *)
(* ------------------------------------------------------------------------------------------------ *)

Section InsertSome.
Variable T : Type.
Variable veq : T -> T -> bool.
Variable vmerge : T -> T -> T.

Lemma idm_partition_point_le : forall (p : entry T -> bool) l, (partition_point p l <= length l)%nat.
Proof. induction l as [|x l IH]; cbn [partition_point length]; [lia|]. destruct (p x); lia. Qed.

Lemma idm_insert_general_some : forall (l : ranges T) s e v, insert_general veq vmerge l s e v <> None.
Proof.
  intros l s e v. unfold insert_general.
  pose proof (idm_partition_point_le (fun x => e_start x <? s) l) as Hpp.
  destruct (partition_point (fun x => e_start x <? s) l) as [|p] eqn:Ep.
  - destruct (take_while (fun x => e_start x <=? e) (skipn 0 l)) as [|first mid] eqn:Em.
    + cbn [length Nat.add Nat.eqb]. discriminate.
    + replace (Nat.eqb 0 (0 + length (first :: mid))) with false by (cbn [length]; lia).
      destruct (fold_left _ (first :: mid) _). discriminate.
  - destruct (nth_error l p) as [x|] eqn:En.
    2:{ apply nth_error_None in En. lia. }
    set (lo := if s <=? e_end x then p else S p).
    destruct (take_while (fun x => e_start x <=? e) (skipn lo l)) as [|first mid] eqn:Em.
    + replace (Nat.eqb lo (lo + length (@nil (entry T)))) with true by (cbn [length]; lia). discriminate.
    + replace (Nat.eqb lo (lo + length (first :: mid))) with false by (cbn [length]; lia).
      destruct (fold_left _ (first :: mid) _). discriminate.
Qed.

Lemma idm_insert_with_some : forall (l : ranges T) s e v, insert_with veq vmerge l s e v <> None.
Proof.
  intros l s e v. unfold insert_with. destruct (e <=? s); [discriminate|].
  match goal with |- match ?f with _ => _ end <> None => destruct f; [discriminate|] end.
  apply idm_insert_general_some.
Qed.
End InsertSome.

Lemma idm_normalize_some : forall tbl raw, idm_normalize tbl raw <> None.
Proof.
  intros tbl raw. unfold idm_normalize. generalize (@nil (entry attrs)).
  induction raw as [|x raw IH]; intro a; cbn [fold_left]; [discriminate|].
  cbn [idm_norm_step].
  destruct (insert_with (idm_attrs_eq tbl) (idm_attrs_merge tbl) a (e_start x) (e_end x) (e_val x)) eqn:E.
  - apply IH.
  - exfalso. eapply idm_insert_with_some. exact E.
Qed.

(* ------------------------------------------------------------------------------------------------ *)
(* 2. totality: a value or an error for every byte string                                           *)
(* ------------------------------------------------------------------------------------------------ *)

Lemma idm_bnd_dec_attr : forall fuel st bs, (length bs < fuel)%nat -> bnd (length bs) (idm_dec_attr fuel st bs).
Proof.
  intros fuel [tbl names] bs Hl. unfold idm_dec_attr.
  eapply bnd_bind; [apply bnd_read_var_u64|]. intros attr_id r1 H1.
  eapply (bnd_bind _ _ (S (length r1))).
  - destruct (N.of_nat (length tbl) <=? attr_id); [|cbn [bnd]; lia].
    eapply bnd_bind; [apply bnd_read_var_u64|]. intros name_id r2 H2.
    eapply (bnd_bind _ _ (S (length r2))).
    + destruct (N.of_nat (length names) <=? name_id); [|cbn [bnd]; lia].
      eapply bnd_bind; [apply bnd_read_string|]. intros nm r3 H3. cbn [bnd]. lia.
    + intros names' r3 H3.
      eapply bnd_bind; [apply bnd_decode_any; lia|]. intros a r4 H4.
      eapply (bnd_bind _ _ (S (length r4))).
      * unfold idm_from_any. destruct a; cbn [bnd]; auto.
      * intros value r5 H5. destruct (idm_nth names' name_id); cbn [bnd]; [lia|exact I].
  - intros st' r2 H2. destruct (idm_nth (fst st') attr_id); cbn [bnd]; [lia|exact I].
Qed.

Lemma idm_bnd_dec_attrs : forall fuel n st bs acc, (length bs < fuel)%nat ->
  bnd (S (length bs)) (idm_dec_attrs fuel n st bs acc).
Proof.
  induction fuel as [|f IH]; intros n st bs acc Hl; [lia|]. rewrite idm_dec_attrs_eq.
  destruct (n =? 0); [cbn; lia|].
  eapply bnd_bind; [apply idm_bnd_dec_attr; exact Hl|]. intros x rest Hr.
  eapply bnd_le; [|apply IH]; lia.
Qed.

Lemma idm_bnd_dec_range : forall fuel st bs, (length bs <= fuel)%nat -> bnd (length bs) (idm_dec_range fuel st bs).
Proof.
  intros fuel st bs Hl. unfold idm_dec_range.
  eapply bnd_bind; [apply bnd_read_var_u32|]. intros clock r1 H1.
  eapply bnd_bind; [apply bnd_read_var_u32|]. intros len r2 H2.
  eapply bnd_bind; [apply bnd_read_var_u32|]. intros alen r3 H3.
  eapply (bnd_bind _ _ (S (length r3))); [apply idm_bnd_dec_attrs; lia|]. intros x r4 H4.
  destruct (add32_checked clock len); cbn [bnd]; [lia|exact I].
Qed.

Lemma idm_bnd_dec_ranges : forall fuel n st bs acc, (length bs < fuel)%nat ->
  bnd (S (length bs)) (idm_dec_ranges fuel n st bs acc).
Proof.
  induction fuel as [|f IH]; intros n st bs acc Hl; [lia|]. rewrite idm_dec_ranges_eq.
  destruct (n =? 0); [cbn; lia|].
  eapply bnd_bind; [apply idm_bnd_dec_range; lia|]. intros x rest Hr.
  eapply bnd_le; [|apply IH]; lia.
Qed.

Lemma idm_bnd_dec_clients : forall fuel n st last bs acc, (length bs < fuel)%nat ->
  bnd (S (length bs)) (idm_dec_clients fuel n st last bs acc).
Proof.
  induction fuel as [|f IH]; intros n st last bs acc Hl; [lia|]. rewrite idm_dec_clients_eq.
  destruct (n =? 0); [cbn; lia|].
  eapply bnd_bind; [apply bnd_read_var_u64|]. intros diff r1 H1.
  destruct (idm_add64_checked last diff) as [client|]; [|exact I].
  eapply bnd_bind; [apply bnd_read_var_u32|]. intros nr r2 H2.
  eapply (bnd_bind _ _ (S (length r2))); [apply idm_bnd_dec_ranges; lia|]. intros x r3 H3.
  eapply bnd_bind; [apply bnd_client_id_new|]. intros c r4 H4.
  destruct (idm_normalize (fst (fst x)) (snd x)) as [rs|] eqn:En.
  2:{ exfalso. eapply idm_normalize_some. exact En. }
  eapply bnd_le; [|apply IH]; lia.
Qed.

Lemma idm_bnd_decode : forall fuel bs, (length bs < fuel)%nat -> bnd (length bs) (idm_decode_v1 fuel bs).
Proof.
  intros fuel bs Hl. unfold idm_decode_v1.
  eapply bnd_bind; [apply bnd_read_var_u32|]. intros n r1 H1.
  eapply (bnd_bind _ _ (S (length r1))); [apply idm_bnd_dec_clients; lia|]. intros x r2 H2.
  cbn [bnd]. lia.
Qed.

Theorem idm_decode_total : forall fuel bs, (length bs < fuel)%nat ->
  match idm_decode_v1 fuel bs with
  | Ok _ rest => (length rest < length bs)%nat
  | Err _ => True
  | Panic _ => False
  | Fuel => False
  end.
Proof. exact idm_bnd_decode. Qed.

(* ------------------------------------------------------------------------------------------------ *)
(* well-formed values                                                                               *)
(* ------------------------------------------------------------------------------------------------ *)

(* a table entry: the name is a string (valid UTF-8, length below 2^32), the value an Any string *)
Definition idm_attr_wf (d : idm_attr) : bool :=
  wf_str (fst d) && match snd d with AString s => wf_str s | _ => false end.

(* a range: non-empty, u32 bounds, at most 2^32 - 1 attributes, every index inside the table *)
Definition idm_entry_wf (tbl : idm_table) (x : entry attrs) : bool :=
  (e_start x <? e_end x) && (e_end x <? two32) && (N.of_nat (length (e_val x)) <? two32)
  && forallb (fun a => a <? N.of_nat (length tbl)) (e_val x).

(* sorted and disjoint: every range starts at or after the end of the previous one *)
Fixpoint idm_sorted (lo : N) (l : ranges attrs) : bool :=
  match l with
  | [] => true
  | x :: r => (lo <=? e_start x) && (e_start x <? e_end x) && idm_sorted (e_end x) r
  end.

(* ... and in addition two touching neighbours carry different attribute sets (IdRanges::insert_with would
   have coalesced them); the comparison is the one of the Rust: `last.1 == value` *)
Fixpoint idm_chain (tbl : idm_table) (prev : option (entry attrs)) (l : ranges attrs) : bool :=
  match l with
  | [] => true
  | x :: r =>
    (e_start x <? e_end x)
    && match prev with
       | None => true
       | Some p => (e_end p <=? e_start x) && negb ((e_start x <=? e_end p) && idm_attrs_eq tbl (e_val p) (e_val x))
       end
    && idm_chain tbl (Some x) r
  end.

(* order of first use: with n attributions numbered so far, the next index is one of them or n itself *)
Definition idm_fu_attr (n : nat) (a : N) : option nat :=
  if a <? N.of_nat n then Some n else if a =? N.of_nat n then Some (S n) else None.
Fixpoint idm_fu_attrs (n : nat) (l : attrs) : option nat :=
  match l with
  | [] => Some n
  | a :: r => match idm_fu_attr n a with Some n' => idm_fu_attrs n' r | None => None end
  end.
Fixpoint idm_fu_ranges (n : nat) (l : ranges attrs) : option nat :=
  match l with
  | [] => Some n
  | x :: r => match idm_fu_attrs n (e_val x) with Some n' => idm_fu_ranges n' r | None => None end
  end.
Fixpoint idm_fu_clients (n : nat) (l : idm_clients) : option nat :=
  match l with
  | [] => Some n
  | cr :: r => match idm_fu_ranges n (snd cr) with Some n' => idm_fu_clients n' r | None => None end
  end.
(* ... and every table entry is used *)
Definition idm_first_use (v : idm_value) : bool :=
  match idm_fu_clients 0 (snd v) with Some n => Nat.eqb n (length (fst v)) | None => false end.

(* what the encoder needs to write the value without truncation (`as u32`) or underflow (`end - start`,
   `client - last`), and what every decoded value satisfies (idm_decoded_wf) *)
Definition idm_ranges_ewf (tbl : idm_table) (l : ranges attrs) : bool :=
  (N.of_nat (length l) <? two32) && nonempty l && forallb (idm_entry_wf tbl) l && idm_sorted 0 l.
Definition idm_enc_wf (v : idm_value) : bool :=
  (N.of_nat (length (fst v)) <? two32) && forallb idm_attr_wf (fst v)
  && (N.of_nat (length (snd v)) <? two32)
  && forallb (fun cr => (fst cr <? two53) && idm_ranges_ewf (fst v) (snd cr)) (snd v)
  && ascb (map fst (snd v)).

(* the values the decoder returns unchanged: in addition neighbours are coalesced and the attributions are
   numbered in order of first use *)
Definition idm_wf (v : idm_value) : bool :=
  idm_enc_wf v && forallb (fun cr => idm_chain (fst v) None (snd cr)) (snd v) && idm_first_use v.

(* ------------------------------------------------------------------------------------------------ *)
(* small lemmas                                                                                     *)
(* ------------------------------------------------------------------------------------------------ *)

Definition idm_iota (n : nat) : list N := map N.of_nat (seq 0 n).

Lemma idm_find_seq : forall a n k,
  idm_find (N.eqb a) (map N.of_nat (seq k n)) (N.of_nat k) =
  if (N.of_nat k <=? a) && (a <? N.of_nat (k + n)) then Some a else None.
Proof.
  intros a. induction n as [|n IH]; intro k; cbn [seq map idm_find].
  - replace ((N.of_nat k <=? a) && (a <? N.of_nat (k + 0))) with false by lia. reflexivity.
  - destruct (N.eqb_spec a (N.of_nat k)) as [->|Hne].
    + replace ((N.of_nat k <=? N.of_nat k) && (N.of_nat k <? N.of_nat (k + S n))) with true by lia. reflexivity.
    + replace (N.of_nat k + 1) with (N.of_nat (S k)) by lia. rewrite IH.
      replace ((N.of_nat (S k) <=? a) && (a <? N.of_nat (S k + n)))
        with ((N.of_nat k <=? a) && (a <? N.of_nat (k + S n))) by lia. reflexivity.
Qed.

Lemma idm_find_iota : forall a n,
  idm_find (N.eqb a) (idm_iota n) 0 = if a <? N.of_nat n then Some a else None.
Proof.
  intros a n. unfold idm_iota. change 0 with (N.of_nat 0). rewrite idm_find_seq.
  replace ((N.of_nat 0 <=? a) && (a <? N.of_nat (0 + n))) with (a <? N.of_nat n) by lia. reflexivity.
Qed.

Lemma idm_iota_S : forall n, idm_iota n ++ [N.of_nat n] = idm_iota (S n).
Proof. intro n. unfold idm_iota. rewrite seq_S, map_app. reflexivity. Qed.

Lemma idm_iota_length : forall n, length (idm_iota n) = n.
Proof. intro n. unfold idm_iota. rewrite map_length, seq_length. reflexivity. Qed.

Lemma idm_bytes_eqb_eq : forall a b, idm_bytes_eqb a b = true -> a = b.
Proof.
  induction a as [|x a IH]; intros [|y b] H; cbn [idm_bytes_eqb] in H; try discriminate; [reflexivity|].
  apply andb_prop in H. destruct H as [Hx Hr]. apply N.eqb_eq in Hx. subst y. f_equal. apply IH, Hr.
Qed.

Lemma idm_find_spec : forall A (p : A -> bool) l k i, idm_find p l k = Some i ->
  k <= i /\ i - k < N.of_nat (length l) /\ exists x, nth_error l (N.to_nat (i - k)) = Some x /\ p x = true.
Proof.
  intros A p. induction l as [|y l IH]; intros k i H; cbn [idm_find] in H; [discriminate|].
  destruct (p y) eqn:Ep.
  - inversion H; subst i. replace (k - k) with 0 by lia. cbn [length]. split; [lia|]. split; [lia|].
    exists y. split; [reflexivity|exact Ep].
  - apply IH in H. destruct H as (Hk & Hl & x & Hn & Hp). cbn [length]. split; [lia|]. split; [lia|].
    exists x. split; [|exact Hp].
    replace (N.to_nat (i - k)) with (S (N.to_nat (i - (k + 1)))) by lia. exact Hn.
Qed.

Lemma idm_nth_some : forall A (l : list A) i x, nth_error l (N.to_nat i) = Some x -> idm_nth l i = Some x.
Proof.
  intros A l i x H. unfold idm_nth.
  assert (N.to_nat i < length l)%nat by (apply nth_error_Some; congruence).
  replace (i <? N.of_nat (length l)) with true by lia. exact H.
Qed.

Lemma idm_nth_lt : forall A (l : list A) i, i < N.of_nat (length l) -> exists x, idm_nth l i = Some x.
Proof.
  intros A l i H. unfold idm_nth. replace (i <? N.of_nat (length l)) with true by lia.
  destruct (nth_error l (N.to_nat i)) as [x|] eqn:E; [eauto|]. apply nth_error_None in E. lia.
Qed.

Lemma idm_nth_inv : forall A (l : list A) i x, idm_nth l i = Some x ->
  i < N.of_nat (length l) /\ nth_error l (N.to_nat i) = Some x.
Proof.
  intros A l i x H. unfold idm_nth in H. destruct (N.ltb_spec i (N.of_nat (length l))); [|discriminate]. auto.
Qed.

Lemma idm_nth_firstn : forall A (l : list A) n i, i < N.of_nat n -> idm_nth (firstn n l) i = idm_nth l i.
Proof.
  intros A l n i Hi. unfold idm_nth. rewrite firstn_length.
  destruct (N.ltb_spec i (N.of_nat (length l))).
  - replace (i <? N.of_nat (Nat.min n (length l))) with true by lia.
    rewrite <- (firstn_skipn n l) at 2. rewrite nth_error_app1; [reflexivity|]. rewrite firstn_length. lia.
  - replace (i <? N.of_nat (Nat.min n (length l))) with false by lia. reflexivity.
Qed.

Lemma idm_firstn_S : forall A (l : list A) n x, nth_error l n = Some x -> firstn n l ++ [x] = firstn (S n) l.
Proof.
  intros A. induction l as [|y l IH]; intros [|n] x H; cbn in H; try discriminate.
  - inversion H. reflexivity.
  - cbn [firstn app]. f_equal. apply IH. exact H.
Qed.

Lemma idm_u32_small : forall x, x < two32 -> idm_u32 x = x.
Proof. intros x H. unfold idm_u32. apply N.mod_small. exact H. Qed.

Lemma idm_forallb_nth : forall A (p : A -> bool) l n x, forallb p l = true -> nth_error l n = Some x -> p x = true.
Proof. intros A p l n x H Hn. rewrite forallb_forall in H. apply H. eapply nth_error_In. exact Hn. Qed.

(* ------------------------------------------------------------------------------------------------ *)
(* 1. round trip                                                                                    *)
(* ------------------------------------------------------------------------------------------------ *)

Section RoundTrip.
Variable tbl : idm_table.
Hypothesis Htl : N.of_nat (length tbl) < two32.
Hypothesis Htw : forallb idm_attr_wf tbl = true.

(* encoder state: the first n table entries have been written, in order; decoder state: the same entries *)
Lemma idm_attr_rt : forall a n n' names st' o,
  idm_fu_attr n a = Some n' -> (n' <= length tbl)%nat -> (length names <= n)%nat ->
  idm_enc_attr tbl (idm_iota n, names) a = (st', o) ->
  exists names', st' = (idm_iota n', names') /\ (length names' <= n')%nat /\ (1 <= length o)%nat /\
    forall f rest, idm_dec_attr (S f) (firstn n tbl, names) (o ++ rest) = Ok ((firstn n' tbl, names'), a) rest.
Proof.
  intros a n n' names st' o Hfu Hn' Hnm Henc. unfold idm_fu_attr in Hfu. unfold idm_enc_attr in Henc.
  rewrite idm_find_iota in Henc. destruct (N.ltb_spec a (N.of_nat n)) as [Hlt|Hge].
  - (* already written *)
    inversion Hfu; subst n'. inversion Henc; subst st' o. exists names.
    split; [reflexivity|]. split; [exact Hnm|]. split; [apply write_var_u32_length|].
    intros f rest. unfold idm_dec_attr, read_var_usize.
    rewrite idm_u32_small by lia. rewrite var_u64_of_u32_roundtrip by lia. cbn [bind].
    rewrite firstn_length. replace (N.of_nat (Nat.min n (length tbl)) <=? a) with false by lia. cbn [bind fst].
    destruct (idm_nth_lt _ (firstn n tbl) a) as [x ->]; [rewrite firstn_length; lia|]. reflexivity.
  - (* first use *)
    destruct (N.eqb_spec a (N.of_nat n)) as [->|]; [|discriminate]. inversion Hfu; subst n'.
    destruct (nth_error tbl n) as [[name value]|] eqn:En.
    2:{ apply nth_error_None in En. lia. }
    pose proof (idm_forallb_nth _ _ _ _ _ Htw En) as Hd. unfold idm_attr_wf in Hd. cbn [fst snd] in Hd.
    apply andb_prop in Hd. destruct Hd as [Hname Hval]. destruct value as [| | | | | | |s| | |]; try discriminate Hval.
    assert (Hnth : idm_nth tbl (N.of_nat n) = Some (name, AString s)).
    { apply idm_nth_some. rewrite Nat2N.id. exact En. }
    rewrite Hnth in Henc. rewrite idm_iota_length, idm_iota_S in Henc.
    assert (Hval' : forall f rest, decode_any (S f) (idm_enc_value (AString s) ++ rest) = Ok (AString s) rest).
    { intros f rest. apply any_roundtrip; [reflexivity|exact Hval|reflexivity]. }
    assert (Hfn : firstn n tbl ++ [(name, AString s)] = firstn (S n) tbl) by (apply idm_firstn_S; exact En).
    assert (Hlast : forall names' : list (list N), idm_nth (fst (firstn (S n) tbl, names')) (N.of_nat n) <> None).
    { intros names'. cbn [fst]. destruct (idm_nth_lt _ (firstn (S n) tbl) (N.of_nat n)) as [x ->]; [|discriminate].
      rewrite firstn_length. lia. }
    destruct (idm_find (idm_bytes_eqb name) names 0) as [i|] eqn:Ef.
    + (* known name *)
      apply idm_find_spec in Ef. destruct Ef as (_ & Hi & x & Hx & Heq). replace (i - 0) with i in * by lia.
      apply idm_bytes_eqb_eq in Heq. subst x.
      inversion Henc; subst st' o. exists names.
      split; [reflexivity|]. split; [lia|]. split; [rewrite app_length; pose proof (write_var_u32_length (idm_u32 (N.of_nat n))); lia|].
      intros f rest. unfold idm_dec_attr, read_var_usize. rewrite <- !app_assoc.
      rewrite !idm_u32_small by lia. rewrite var_u64_of_u32_roundtrip by lia. cbn [bind].
      rewrite firstn_length. replace (N.of_nat (Nat.min n (length tbl)) <=? N.of_nat n) with true by lia.
      rewrite var_u64_of_u32_roundtrip by lia. cbn [bind].
      replace (N.of_nat (length names) <=? i) with false by lia. cbn [bind].
      rewrite Hval'. cbn [bind idm_from_any].
      rewrite (idm_nth_some _ names i name Hx). rewrite Hfn. cbn [bind].
      specialize (Hlast names). destruct (idm_nth (fst (firstn (S n) tbl, names)) (N.of_nat n)); [reflexivity|congruence].
    + (* new name *)
      inversion Henc; subst st' o. exists (names ++ [name]).
      split; [reflexivity|]. split; [rewrite app_length; cbn [length]; lia|].
      split; [rewrite app_length; pose proof (write_var_u32_length (idm_u32 (N.of_nat n))); lia|].
      intros f rest. unfold idm_dec_attr, read_var_usize. rewrite <- !app_assoc.
      rewrite !idm_u32_small by lia. rewrite var_u64_of_u32_roundtrip by lia. cbn [bind].
      rewrite firstn_length. replace (N.of_nat (Nat.min n (length tbl)) <=? N.of_nat n) with true by lia.
      rewrite var_u64_of_u32_roundtrip by lia. cbn [bind].
      replace (N.of_nat (length names) <=? N.of_nat (length names)) with true by lia.
      rewrite str_roundtrip by exact Hname. cbn [bind].
      rewrite Hval'. cbn [bind idm_from_any].
      rewrite (idm_nth_some _ (names ++ [name]) (N.of_nat (length names)) name).
      2:{ rewrite Nat2N.id. rewrite nth_error_app2 by lia. rewrite Nat.sub_diag. reflexivity. }
      rewrite Hfn. cbn [bind].
      specialize (Hlast (names ++ [name])).
      destruct (idm_nth (fst (firstn (S n) tbl, names ++ [name])) (N.of_nat n)); [reflexivity|congruence].
Qed.
End RoundTrip.

(* first use: the counter only grows, and every index is below the final counter *)
Lemma idm_fu_attr_bound : forall n a n', idm_fu_attr n a = Some n' -> (n <= n')%nat /\ a < N.of_nat n'.
Proof.
  intros n a n' H. unfold idm_fu_attr in H. destruct (N.ltb_spec a (N.of_nat n)).
  - inversion H; subst. split; [lia|assumption].
  - destruct (N.eqb_spec a (N.of_nat n)); [|discriminate]. inversion H; subst. lia.
Qed.

Lemma idm_fu_attrs_bound : forall l n n', idm_fu_attrs n l = Some n' ->
  (n <= n')%nat /\ Forall (fun a => a < N.of_nat n') l.
Proof.
  induction l as [|a l IH]; intros n n' H; cbn [idm_fu_attrs] in H.
  - inversion H; subst. split; [lia|constructor].
  - destruct (idm_fu_attr n a) as [n1|] eqn:E; [|discriminate].
    apply idm_fu_attr_bound in E. apply IH in H. destruct E as [E1 E2]. destruct H as [H1 H2].
    split; [lia|]. constructor; [lia|exact H2].
Qed.

Lemma idm_fu_ranges_bound : forall l n n', idm_fu_ranges n l = Some n' ->
  (n <= n')%nat /\ Forall (fun x => Forall (fun a => a < N.of_nat n') (e_val x)) l.
Proof.
  induction l as [|x l IH]; intros n n' H; cbn [idm_fu_ranges] in H.
  - inversion H; subst. split; [lia|constructor].
  - destruct (idm_fu_attrs n (e_val x)) as [n1|] eqn:E; [|discriminate].
    apply idm_fu_attrs_bound in E. apply IH in H. destruct E as [E1 E2]. destruct H as [H1 H2].
    split; [lia|]. constructor; [|exact H2].
    eapply Forall_impl; [|exact E2]. cbn beta. intros a Ha. lia.
Qed.

Lemma idm_fu_clients_bound : forall l n n', idm_fu_clients n l = Some n' -> (n <= n')%nat.
Proof.
  induction l as [|x l IH]; intros n n' H; cbn [idm_fu_clients] in H.
  - inversion H; subst. lia.
  - destruct (idm_fu_ranges n (snd x)) as [n1|] eqn:E; [|discriminate].
    apply idm_fu_ranges_bound in E. apply IH in H. lia.
Qed.

(* the comparison of attribute lists only looks at the entries that are mentioned *)
Lemma idm_attr_eqb_firstn : forall tbl n x y, x < N.of_nat n -> y < N.of_nat n ->
  idm_attr_eqb (firstn n tbl) x y = idm_attr_eqb tbl x y.
Proof. intros tbl n x y Hx Hy. unfold idm_attr_eqb. rewrite !idm_nth_firstn by assumption. reflexivity. Qed.

Lemma idm_mem_firstn : forall tbl n x l, x < N.of_nat n -> Forall (fun a => a < N.of_nat n) l ->
  idm_mem (firstn n tbl) x l = idm_mem tbl x l.
Proof.
  intros tbl n x l Hx Hl. unfold idm_mem. induction Hl as [|y l Hy Hl IH]; cbn [existsb]; [reflexivity|].
  rewrite IH. rewrite idm_attr_eqb_firstn by assumption. reflexivity.
Qed.

Lemma idm_forallb_mem_firstn : forall tbl n a b,
  Forall (fun a => a < N.of_nat n) a -> Forall (fun a => a < N.of_nat n) b ->
  forallb (fun x => idm_mem (firstn n tbl) x b) a = forallb (fun x => idm_mem tbl x b) a.
Proof.
  intros tbl n a b Ha Hb. induction Ha as [|x a Hx Ha IH]; cbn [forallb]; [reflexivity|].
  rewrite IH. rewrite idm_mem_firstn by assumption. reflexivity.
Qed.

Lemma idm_attrs_eq_firstn : forall tbl n a b,
  Forall (fun a => a < N.of_nat n) a -> Forall (fun a => a < N.of_nat n) b ->
  idm_attrs_eq (firstn n tbl) a b = idm_attrs_eq tbl a b.
Proof.
  intros tbl n a b Ha Hb. unfold idm_attrs_eq.
  rewrite (idm_forallb_mem_firstn tbl n a b Ha Hb), (idm_forallb_mem_firstn tbl n b a Hb Ha). reflexivity.
Qed.

Lemma idm_chain_firstn : forall tbl n l prev,
  match prev with Some p => Forall (fun a => a < N.of_nat n) (e_val p) | None => True end ->
  Forall (fun x => Forall (fun a => a < N.of_nat n) (e_val x)) l ->
  idm_chain (firstn n tbl) prev l = idm_chain tbl prev l.
Proof.
  intros tbl n l. induction l as [|x l IH]; intros prev Hp Hl; cbn [idm_chain]; [reflexivity|].
  apply Forall_cons_iff in Hl. destruct Hl as [Hx Hl']. f_equal; [f_equal|apply IH; assumption].
  destruct prev as [p|]; [|reflexivity]. rewrite idm_attrs_eq_firstn by assumption. reflexivity.
Qed.

(* IdRanges::insert_with at the end of a list whose last range ends before / touches with another value: push *)
Lemma idm_insert_with_append : forall T (veq : T -> T -> bool) (vmerge : T -> T -> T) (l : ranges T) s e v,
  s < e ->
  match rev l with
  | [] => True
  | p :: _ => e_start p < e_end p /\ e_end p <= s /\ ((s <=? e_end p) && veq (e_val p) v) = false
  end ->
  insert_with veq vmerge l s e v = Some (l ++ [(s, e, v)]).
Proof.
  intros T veq vmerge l s e v Hse Hlast. unfold insert_with. replace (e <=? s) with false by lia.
  destruct (rev l) as [|[[ls le] lv] racc] eqn:Er.
  - assert (l = []) by (rewrite <- (rev_involutive l), Er; reflexivity). subst l. reflexivity.
  - unfold e_start, e_end, e_val in Hlast. cbn [fst snd] in Hlast. destruct Hlast as (H1 & H2 & H3).
    replace (ls <=? s) with true by lia. destruct (N.ltb_spec le s); [reflexivity|].
    replace (s <=? le) with true in H3 by lia. cbn [andb] in H3. rewrite H3.
    replace (s =? le) with true by lia. reflexivity.
Qed.

Lemma idm_normalize_chain : forall tbl l acc,
  match rev acc with [] => True | p :: _ => e_start p < e_end p end ->
  idm_chain tbl (hd_error (rev acc)) l = true ->
  fold_left (idm_norm_step tbl) l (Some acc) = Some (acc ++ l).
Proof.
  intros tbl. induction l as [|x l IH]; intros acc Hacc Hch; cbn [fold_left].
  - rewrite app_nil_r. reflexivity.
  - cbn [idm_chain] in Hch. apply andb_prop in Hch. destruct Hch as [Hch Hr].
    apply andb_prop in Hch. destruct Hch as [Hse Hp].
    cbn [idm_norm_step]. rewrite idm_insert_with_append.
    + replace (e_start x, e_end x, e_val x) with x by (destruct x as [[? ?] ?]; reflexivity).
      rewrite IH.
      * rewrite <- app_assoc. reflexivity.
      * rewrite rev_app_distr. cbn [rev app]. lia.
      * rewrite rev_app_distr. cbn [rev app hd_error]. exact Hr.
    + lia.
    + destruct (rev acc) as [|p racc]; [exact I|]. cbn [hd_error] in Hp.
      apply andb_prop in Hp. destruct Hp as [Hp1 Hp2]. apply negb_true_iff in Hp2.
      split; [exact Hacc|]. split; [lia|exact Hp2].
Qed.

Lemma idm_im_set_append : forall T (acc : idmap T) c r,
  (forall c', In c' (map fst acc) -> c' < c) -> im_set acc c r = acc ++ [(c, r)].
Proof.
  intros T. induction acc as [|[c0 r0] acc IH]; intros c r H; cbn [im_set app]; [reflexivity|].
  assert (c0 < c) by (apply H; left; reflexivity).
  replace (c0 =? c) with false by lia. replace (c <? c0) with false by lia.
  rewrite IH; [reflexivity|]. intros c' Hin. apply H. right. exact Hin.
Qed.

Section RoundTrip2.
Variable tbl : idm_table.
Hypothesis Htl : N.of_nat (length tbl) < two32.
Hypothesis Htw : forallb idm_attr_wf tbl = true.

Lemma idm_attrs_rt : forall l n n' names st' o,
  idm_fu_attrs n l = Some n' -> (n' <= length tbl)%nat -> (length names <= n)%nat ->
  idm_enc_attrs tbl (idm_iota n, names) l = (st', o) ->
  exists names', st' = (idm_iota n', names') /\ (length names' <= n')%nat /\ (length l <= length o)%nat /\
    forall f rest acc, (length o <= f)%nat ->
      idm_dec_attrs f (N.of_nat (length l)) (firstn n tbl, names) (o ++ rest) acc
      = Ok ((firstn n' tbl, names'), rev acc ++ l) rest.
Proof.
  induction l as [|a l IH]; intros n n' names st' o Hfu Hn' Hnm Henc.
  - cbn [idm_fu_attrs idm_enc_attrs] in *. inversion Hfu; subst n'. inversion Henc; subst st' o.
    exists names. split; [reflexivity|]. split; [exact Hnm|]. split; [cbn; lia|].
    intros f rest acc _. rewrite idm_dec_attrs_eq. cbn [length app]. change (N.of_nat 0 =? 0) with true. cbv iota.
    rewrite app_nil_r. reflexivity.
  - cbn [idm_fu_attrs] in Hfu. destruct (idm_fu_attr n a) as [n1|] eqn:E1; [|discriminate].
    cbn [idm_enc_attrs] in Henc.
    destruct (idm_enc_attr tbl (idm_iota n, names) a) as [st1 o1] eqn:Ea.
    destruct (idm_enc_attrs tbl st1 l) as [st2 o2] eqn:El. inversion Henc; subst st' o.
    pose proof (idm_fu_attrs_bound _ _ _ Hfu) as [Hmono _].
    destruct (idm_attr_rt tbl Htl Htw a n n1 names st1 o1 E1 ltac:(lia) Hnm Ea) as (names1 & -> & Hnm1 & Ho1 & Hd1).
    destruct (IH n1 n' names1 st2 o2 Hfu Hn' Hnm1 El) as (names2 & -> & Hnm2 & Ho2 & Hd2).
    exists names2. split; [reflexivity|]. split; [exact Hnm2|]. split; [rewrite app_length; cbn [length]; lia|].
    intros f rest acc Hf. rewrite app_length in Hf. rewrite idm_dec_attrs_eq. cbn [length].
    rewrite of_nat_S_eqb0, of_nat_S_pred. destruct f as [|f]; [lia|].
    rewrite <- app_assoc. rewrite Hd1. cbn [bind fst snd]. rewrite Hd2 by lia.
    cbn [rev]. rewrite <- app_assoc. reflexivity.
Qed.

Lemma idm_range_rt : forall x n n' names st' o,
  idm_fu_attrs n (e_val x) = Some n' -> (n' <= length tbl)%nat -> (length names <= n)%nat ->
  idm_entry_wf tbl x = true ->
  idm_enc_range tbl (idm_iota n, names) x = (st', o) ->
  exists names', st' = (idm_iota n', names') /\ (length names' <= n')%nat /\ (1 <= length o)%nat /\
    forall f rest, (length o <= S f)%nat ->
      idm_dec_range f (firstn n tbl, names) (o ++ rest) = Ok ((firstn n' tbl, names'), x) rest.
Proof.
  intros [[s e] v] n n' names st' o Hfu Hn' Hnm Hwf Henc. unfold idm_entry_wf, e_start, e_end, e_val in *.
  cbn [fst snd] in *. unfold idm_enc_range, e_start, e_end, e_val in Henc. cbn [fst snd] in Henc.
  destruct (idm_enc_attrs tbl (idm_iota n, names) v) as [st1 o1] eqn:Ea. inversion Henc; subst st' o.
  destruct (idm_attrs_rt v n n' names st1 o1 Hfu Hn' Hnm Ea) as (names1 & -> & Hnm1 & Ho1 & Hd1).
  exists names1. split; [reflexivity|]. split; [exact Hnm1|].
  split; [rewrite app_length; pose proof (write_var_u32_length s); lia|].
  intros f rest Hf. rewrite !app_length in Hf. pose proof (write_var_u32_length s).
  unfold idm_dec_range. rewrite <- !app_assoc.
  rewrite var_u32_roundtrip by lia. cbn [bind].
  rewrite var_u32_roundtrip by lia. cbn [bind].
  rewrite idm_u32_small by lia. rewrite var_u32_roundtrip by lia. cbn [bind].
  rewrite Hd1 by lia. cbn [bind fst snd rev app]. unfold add32_checked.
  replace (s + (e - s)) with e by lia. replace (e <? two32) with true by lia. reflexivity.
Qed.

Lemma idm_ranges_rt : forall l n n' names st' o,
  idm_fu_ranges n l = Some n' -> (n' <= length tbl)%nat -> (length names <= n)%nat ->
  forallb (idm_entry_wf tbl) l = true ->
  idm_enc_ranges tbl (idm_iota n, names) l = (st', o) ->
  exists names', st' = (idm_iota n', names') /\ (length names' <= n')%nat /\ (length l <= length o)%nat /\
    forall f rest acc, (length o <= f)%nat ->
      idm_dec_ranges f (N.of_nat (length l)) (firstn n tbl, names) (o ++ rest) acc
      = Ok ((firstn n' tbl, names'), rev acc ++ l) rest.
Proof.
  induction l as [|x l IH]; intros n n' names st' o Hfu Hn' Hnm Hwf Henc.
  - cbn [idm_fu_ranges idm_enc_ranges] in *. inversion Hfu; subst n'. inversion Henc; subst st' o.
    exists names. split; [reflexivity|]. split; [exact Hnm|]. split; [cbn; lia|].
    intros f rest acc _. rewrite idm_dec_ranges_eq. cbn [length app]. change (N.of_nat 0 =? 0) with true. cbv iota.
    rewrite app_nil_r. reflexivity.
  - cbn [idm_fu_ranges] in Hfu. destruct (idm_fu_attrs n (e_val x)) as [n1|] eqn:E1; [|discriminate].
    cbn [forallb] in Hwf. apply andb_prop in Hwf. destruct Hwf as [Hx Hl].
    cbn [idm_enc_ranges] in Henc.
    destruct (idm_enc_range tbl (idm_iota n, names) x) as [st1 o1] eqn:Ea.
    destruct (idm_enc_ranges tbl st1 l) as [st2 o2] eqn:El. inversion Henc; subst st' o.
    pose proof (idm_fu_ranges_bound _ _ _ Hfu) as [Hmono _].
    destruct (idm_range_rt x n n1 names st1 o1 E1 ltac:(lia) Hnm Hx Ea) as (names1 & -> & Hnm1 & Ho1 & Hd1).
    destruct (IH n1 n' names1 st2 o2 Hfu Hn' Hnm1 Hl El) as (names2 & -> & Hnm2 & Ho2 & Hd2).
    exists names2. split; [reflexivity|]. split; [exact Hnm2|]. split; [rewrite app_length; cbn [length]; lia|].
    intros f rest acc Hf. rewrite app_length in Hf. rewrite idm_dec_ranges_eq. cbn [length].
    rewrite of_nat_S_eqb0, of_nat_S_pred. destruct f as [|f]; [lia|].
    rewrite <- app_assoc. rewrite Hd1 by lia. cbn [bind fst snd]. rewrite Hd2 by lia.
    cbn [rev]. rewrite <- app_assoc. reflexivity.
Qed.

Definition idm_client_wf (cr : N * ranges attrs) : bool :=
  (fst cr <? two53) && idm_ranges_ewf tbl (snd cr) && idm_chain tbl None (snd cr).

Lemma idm_clients_rt : forall l n n' names last st' o,
  idm_fu_clients n l = Some n' -> (n' <= length tbl)%nat -> (length names <= n)%nat ->
  forallb idm_client_wf l = true ->
  asc_above last (map fst l) = true \/ (last = 0 /\ ascb (map fst l) = true) ->
  idm_enc_clients tbl (idm_iota n, names) last l = (st', o) ->
  exists names', st' = (idm_iota n', names') /\
    forall f rest (acc : idm_clients), (length o <= f)%nat ->
      (forall c' x, In c' (map fst acc) -> In x (map fst l) -> c' < x) ->
      idm_dec_clients f (N.of_nat (length l)) (firstn n tbl, names) last (o ++ rest) acc
      = Ok ((firstn n' tbl, names'), acc ++ l) rest.
Proof.
  induction l as [|[c rs] l IH]; intros n n' names last st' o Hfu Hn' Hnm Hwf Hasc Henc.
  - cbn [idm_fu_clients idm_enc_clients] in *. inversion Hfu; subst n'. inversion Henc; subst st' o.
    exists names. split; [reflexivity|].
    intros f rest acc _ _. rewrite idm_dec_clients_eq. cbn [length app]. change (N.of_nat 0 =? 0) with true. cbv iota.
    rewrite app_nil_r. reflexivity.
  - cbn [idm_fu_clients snd] in Hfu. destruct (idm_fu_ranges n rs) as [n1|] eqn:E1; [|discriminate].
    cbn [forallb] in Hwf. apply andb_prop in Hwf. destruct Hwf as [Hx Hl].
    unfold idm_client_wf in Hx. cbn [fst snd] in Hx. apply andb_prop in Hx. destruct Hx as [Hx Hchain].
    apply andb_prop in Hx. destruct Hx as [Hc Hrs]. unfold idm_ranges_ewf in Hrs.
    apply andb_prop in Hrs. destruct Hrs as [Hrs Hsorted]. apply andb_prop in Hrs. destruct Hrs as [Hrs Hent].
    apply andb_prop in Hrs. destruct Hrs as [Hlen Hne].
    cbn [idm_enc_clients] in Henc.
    destruct (idm_enc_ranges tbl (idm_iota n, names) rs) as [st1 o1] eqn:Ea.
    destruct (idm_enc_clients tbl st1 c l) as [st2 o2] eqn:El. inversion Henc; subst st' o.
    pose proof (idm_fu_clients_bound _ _ _ Hfu) as Hmono.
    pose proof (idm_fu_ranges_bound _ _ _ E1) as [_ Hidx].
    destruct (idm_ranges_rt rs n n1 names st1 o1 E1 ltac:(lia) Hnm Hent Ea) as (names1 & -> & Hnm1 & Ho1 & Hd1).
    assert (Hlc : last <= c /\ asc_above c (map fst l) = true).
    { cbn [map fst] in Hasc. destruct Hasc as [Hasc|[-> Hasc]].
      - cbn [asc_above] in Hasc. apply andb_prop in Hasc. split; [lia|tauto].
      - cbn [ascb] in Hasc. split; [lia|exact Hasc]. }
    destruct Hlc as [Hlast Hasc'].
    destruct (IH n1 n' names1 c st2 o2 Hfu Hn' Hnm1 Hl (or_introl Hasc') El) as (names2 & -> & Hd2).
    exists names2. split; [reflexivity|].
    intros f rest acc Hf Hacc. rewrite !app_length in Hf. pose proof (write_var_u64_length (c - last)).
    rewrite idm_dec_clients_eq. cbn [length].
    rewrite of_nat_S_eqb0, of_nat_S_pred. destruct f as [|f]; [lia|].
    rewrite <- !app_assoc. rewrite var_u64_roundtrip by (unfold two53, two64 in *; lia). cbn [bind].
    unfold idm_add64_checked. replace (last + (c - last)) with c by lia.
    replace (c <? two64) with true by (unfold two53, two64 in *; lia).
    rewrite idm_u32_small by lia. rewrite var_u32_roundtrip by lia. cbn [bind].
    rewrite Hd1 by lia. cbn [bind fst snd rev app].
    unfold client_id_new. rewrite Hc. cbn [bind].
    unfold idm_normalize. rewrite (idm_normalize_chain (firstn n1 tbl) rs []).
    2:{ exact I. }
    2:{ cbn [rev hd_error]. rewrite idm_chain_firstn; [exact Hchain|exact I|exact Hidx]. }
    cbn [app]. destruct rs as [|x0 rs0]; [discriminate Hne|]. cbv iota.
    rewrite idm_im_set_append.
    2:{ intros c' Hin. apply Hacc; [exact Hin|]. left. reflexivity. }
    rewrite Hd2.
    + rewrite <- app_assoc. reflexivity.
    + lia.
    + intros c' x Hin Hx. rewrite map_app in Hin. apply in_app_or in Hin. destruct Hin as [Hin|Hin].
      * apply Hacc; [exact Hin|]. right. exact Hx.
      * cbn [map fst In] in Hin. destruct Hin as [<-|[]]. eapply asc_above_lt; eassumption.
Qed.
End RoundTrip2.

Theorem idm_roundtrip : forall v fuel rest,
  idm_wf v = true -> (length (idm_encode_v1 v) <= fuel)%nat ->
  idm_decode_v1 fuel (idm_encode_v1 v ++ rest) = Ok v rest.
Proof.
  intros [tbl cs] fuel rest Hwf Hf. unfold idm_wf in Hwf. cbn [fst snd] in Hwf.
  apply andb_prop in Hwf. destruct Hwf as [Hwf Hfu]. apply andb_prop in Hwf. destruct Hwf as [Hwf Hch].
  unfold idm_enc_wf in Hwf. cbn [fst snd] in Hwf.
  apply andb_prop in Hwf. destruct Hwf as [Hwf Hasc]. apply andb_prop in Hwf. destruct Hwf as [Hwf Hcs].
  apply andb_prop in Hwf. destruct Hwf as [Hwf Hcl]. apply andb_prop in Hwf. destruct Hwf as [Htl Htw].
  unfold idm_first_use in Hfu. cbn [fst snd] in Hfu.
  destruct (idm_fu_clients 0 cs) as [n'|] eqn:Efu; [|discriminate]. apply Nat.eqb_eq in Hfu. subst n'.
  unfold idm_encode_v1 in *. cbn [fst snd] in *.
  destruct (idm_enc_clients tbl ([], []) 0 cs) as [st' o] eqn:Eenc. cbn [snd] in *.
  rewrite app_length in Hf.
  destruct (idm_clients_rt tbl ltac:(lia) Htw cs 0%nat (length tbl) [] 0 st' o Efu (Nat.le_refl _) (Nat.le_refl _))
    as (names' & -> & Hd).
  - rewrite forallb_forall in *. intros cr Hin. unfold idm_client_wf.
    rewrite (Hcs cr Hin), (Hch cr Hin). reflexivity.
  - right. split; [reflexivity|exact Hasc].
  - exact Eenc.
  - unfold idm_decode_v1. rewrite <- app_assoc. rewrite idm_u32_small by lia.
    rewrite var_u32_roundtrip by lia. cbn [bind].
    change (firstn 0 tbl) with (@nil idm_attr) in Hd. rewrite Hd; [|lia|intros c' x []].
    cbn [bind fst snd app]. rewrite firstn_all. reflexivity.
Qed.

(* ------------------------------------------------------------------------------------------------ *)
(* IdRanges::insert_with keeps a list sorted and disjoint, for any value type                        *)
(* ------------------------------------------------------------------------------------------------ *)

Section Sorted.
Variable T : Type.
Variable veq : T -> T -> bool.
Variable vmerge : T -> T -> T.

(* non-empty ranges inside [lo, hi], each starting at or after the end of the previous one *)
Fixpoint idm_srt (lo hi : N) (l : ranges T) : Prop :=
  match l with
  | [] => lo <= hi
  | x :: r => lo <= e_start x /\ e_start x < e_end x /\ idm_srt (e_end x) hi r
  end.

Fixpoint idm_last_end (lo : N) (l : ranges T) : N :=
  match l with [] => lo | x :: r => idm_last_end (e_end x) r end.

Lemma idm_srt_le : forall l lo hi, idm_srt lo hi l -> lo <= hi.
Proof.
  induction l as [|x l IH]; cbn [idm_srt]; intros lo hi H; [exact H|].
  destruct H as (H1 & H2 & H3). apply IH in H3. lia.
Qed.

Lemma idm_srt_weaken : forall l lo hi lo' hi', idm_srt lo hi l -> lo' <= lo -> hi <= hi' -> idm_srt lo' hi' l.
Proof.
  induction l as [|x l IH]; cbn [idm_srt]; intros lo hi lo' hi' H Hlo Hhi; [lia|].
  destruct H as (H1 & H2 & H3). split; [lia|]. split; [exact H2|]. eapply IH; [exact H3|lia|exact Hhi].
Qed.

Lemma idm_srt_app : forall a b lo hi,
  idm_srt lo hi (a ++ b) <-> idm_srt lo (idm_last_end lo a) a /\ idm_srt (idm_last_end lo a) hi b.
Proof.
  induction a as [|x a IH]; intros b lo hi; cbn [app idm_srt idm_last_end].
  - split; [intro H; split; [lia|exact H]|intros [_ H]; exact H].
  - rewrite IH. tauto.
Qed.

Lemma idm_srt_app_intro : forall a b lo m hi, idm_srt lo m a -> idm_srt m hi b -> idm_srt lo hi (a ++ b).
Proof.
  induction a as [|x a IH]; intros b lo m hi Ha Hb; cbn [app idm_srt] in *.
  - eapply idm_srt_weaken; [exact Hb|exact Ha|lia].
  - destruct Ha as (H1 & H2 & H3). split; [exact H1|]. split; [exact H2|]. eapply IH; eassumption.
Qed.

Lemma idm_last_end_app : forall a lo x, idm_last_end lo (a ++ [x]) = e_end x.
Proof. induction a as [|y a IH]; intros lo x; cbn [app idm_last_end]; [reflexivity|apply IH]. Qed.

Lemma idm_last_end_mono : forall a lo lo', lo' <= lo -> idm_last_end lo' a <= idm_last_end lo a.
Proof. destruct a as [|y a]; intros lo lo' H; cbn [idm_last_end]; [exact H|lia]. Qed.

Lemma idm_srt_snoc : forall a x lo hi,
  idm_srt lo hi (a ++ [x]) <->
  idm_srt lo (idm_last_end lo a) a /\ idm_last_end lo a <= e_start x /\ e_start x < e_end x /\ e_end x <= hi.
Proof. intros a x lo hi. rewrite idm_srt_app. cbn [idm_srt]. tauto. Qed.

Lemma idm_srt_all_ge : forall l lo hi, idm_srt lo hi l -> Forall (fun y => lo <= e_start y) l.
Proof.
  induction l as [|x l IH]; intros lo hi H; [constructor|]. cbn [idm_srt] in H. destruct H as (H1 & H2 & H3).
  constructor; [exact H1|]. apply IH in H3. eapply Forall_impl; [|exact H3]. cbn beta. intros y Hy. lia.
Qed.

Lemma idm_srt_length : forall l lo hi, idm_srt lo hi l -> lo + N.of_nat (length l) <= hi.
Proof.
  induction l as [|x l IH]; intros lo hi H; cbn [idm_srt length] in *; [lia|].
  destruct H as (H1 & H2 & H3). apply IH in H3. lia.
Qed.

(* push_coalesced on the reversed accumulator *)
Lemma idm_push_srt : forall acc lo hi s e v,
  idm_srt lo hi (rev acc) -> hi <= s -> s < e -> idm_srt lo e (rev (push_coalesced veq acc s e v)).
Proof.
  intros acc lo hi s e v H Hs Hse. unfold push_coalesced. replace (e <=? s) with false by lia.
  destruct acc as [|[[ls le] lv] acc'].
  - cbn [rev app idm_srt] in *. unfold e_start, e_end. cbn [fst snd]. lia.
  - cbn [rev] in H. pose proof H as H0. apply idm_srt_snoc in H. destruct H as (Ha & Hb1 & Hb2 & Hb3).
    unfold e_start, e_end in Hb1, Hb2, Hb3. cbn [fst snd] in Hb1, Hb2, Hb3.
    destruct ((s <=? le) && veq lv v).
    + cbn [rev]. apply idm_srt_snoc. unfold e_start, e_end. cbn [fst snd]. split; [exact Ha|]. lia.
    + cbn [rev]. apply idm_srt_snoc. unfold e_start, e_end. cbn [fst snd].
      rewrite idm_last_end_app. unfold e_end. cbn [fst snd]. split; [|lia].
      apply idm_srt_snoc. unfold e_start, e_end. cbn [fst snd]. split; [exact Ha|]. lia.
Qed.

Lemma idm_cpush : forall (c : bool) acc lo hi s e v,
  idm_srt lo hi (rev acc) -> (c = true -> hi <= s /\ s < e) ->
  idm_srt lo (if c then e else hi) (rev (if c then push_coalesced veq acc s e v else acc)).
Proof. intros [|] acc lo hi s e v H Hc; [|exact H]. destruct (Hc eq_refl). eapply idm_push_srt; eassumption. Qed.

Lemma idm_repl_step_srt : forall s e v cursor acc es ee ev lo hi,
  s < e -> idm_srt lo hi (rev acc) -> hi <= cursor -> cursor <= es -> es < ee -> es <= e -> (es < s -> s <= ee) ->
  exists hi', idm_srt lo hi' (rev (snd (repl_step T veq vmerge s e v (cursor, acc) (es, ee, ev))))
    /\ hi' <= ee /\ fst (repl_step T veq vmerge s e v (cursor, acc) (es, ee, ev)) = ee.
Proof.
  intros s e v cursor acc es ee ev lo hi Hse H0 Hhi Hcur Hes Hee Hpre.
  unfold repl_step. cbn [fst snd].
  set (c1 := (s <=? cursor) && (cursor <? es)).
  set (c2 := es <? s). set (c3 := N.max es s <? N.min ee e). set (c4 := e <? ee).
  pose proof (idm_cpush c1 acc lo hi cursor (N.min es e) v H0 ltac:(subst c1; lia)) as H1.
  pose proof (idm_cpush c2 _ lo _ es s ev H1 ltac:(subst c1 c2; destruct ((s <=? cursor) && (cursor <? es)) eqn:?; lia)) as H2.
  pose proof (idm_cpush c3 _ lo _ (N.max es s) (N.min ee e) (vmerge ev v) H2
                ltac:(subst c1 c2 c3; destruct ((s <=? cursor) && (cursor <? es)) eqn:?; destruct (es <? s) eqn:?; lia)) as H3.
  pose proof (idm_cpush c4 _ lo _ e ee ev H3
                ltac:(subst c1 c2 c3 c4; destruct ((s <=? cursor) && (cursor <? es)) eqn:?; destruct (es <? s) eqn:?;
                      destruct (N.max es s <? N.min ee e) eqn:?; lia)) as H4.
  eexists. split; [exact H4|]. split; [|reflexivity].
  subst c1 c2 c3 c4. destruct ((s <=? cursor) && (cursor <? es)) eqn:?; destruct (es <? s) eqn:?;
    destruct (N.max es s <? N.min ee e) eqn:?; destruct (e <? ee) eqn:?; lia.
Qed.

Lemma idm_repl_fold_srt : forall s e v, s < e -> forall mid cursor acc lo hi m,
  idm_srt cursor m mid -> Forall (fun x => e_start x <= e) mid ->
  Forall (fun x => e_start x < s -> s <= e_end x) mid ->
  idm_srt lo hi (rev acc) -> hi <= cursor ->
  exists hi', idm_srt lo hi' (rev (snd (fold_left (repl_step T veq vmerge s e v) mid (cursor, acc))))
    /\ hi' <= fst (fold_left (repl_step T veq vmerge s e v) mid (cursor, acc))
    /\ fst (fold_left (repl_step T veq vmerge s e v) mid (cursor, acc)) <= m.
Proof.
  intros s e v Hse. induction mid as [|[[es ee] ev] mid IH]; intros cursor acc lo hi m Hm Hle Hpre H0 Hhi.
  - cbn [fold_left fst snd idm_srt] in *. exists hi. auto.
  - cbn [fold_left]. cbn [idm_srt] in Hm. unfold e_start, e_end in Hm. cbn [fst snd] in Hm. destruct Hm as (Hm1 & Hm2 & Hm3).
    apply Forall_cons_iff in Hle. destruct Hle as [Hle1 Hle]. apply Forall_cons_iff in Hpre. destruct Hpre as [Hpre1 Hpre].
    unfold e_start, e_end in Hle1, Hpre1. cbn [fst snd] in Hle1, Hpre1.
    destruct (idm_repl_step_srt s e v cursor acc es ee ev lo hi Hse H0 Hhi Hm1 Hm2 Hle1 Hpre1) as (hi1 & Hs1 & Hh1 & Hc1).
    destruct (repl_step T veq vmerge s e v (cursor, acc) (es, ee, ev)) as [c1 acc1]. cbn [fst snd] in Hs1, Hc1. subst c1.
    apply (IH ee acc1 lo hi1 m); assumption.
Qed.

Lemma idm_nth_split2 : forall A (l : list A) i x1 x2, nth_error l i = Some x1 -> nth_error l (S i) = Some x2 ->
  l = firstn i l ++ x1 :: x2 :: skipn (S (S i)) l.
Proof.
  intros A. induction l as [|y l IH]; intros [|i] x1 x2 H1 H2; cbn in H1, H2; try discriminate.
  - destruct l as [|z l]; [discriminate|]. cbn in H2. inversion H1; inversion H2; subst. reflexivity.
  - cbn [firstn skipn app]. f_equal. apply IH; assumption.
Qed.

Lemma idm_coalesce_srt : forall l i lo hi, idm_srt lo hi l -> idm_srt lo hi (coalesce_pair veq l i).
Proof.
  intros l i lo hi H. unfold coalesce_pair.
  destruct (nth_error l i) as [[[s1 e1] v1]|] eqn:E1; [|exact H].
  destruct (nth_error l (S i)) as [[[s2 e2] v2]|] eqn:E2; [|exact H].
  destruct ((s2 <=? e1) && veq v1 v2); [|exact H].
  rewrite (idm_nth_split2 _ l i _ _ E1 E2) in H. apply idm_srt_app in H. destruct H as [Ha Hb].
  apply idm_srt_app. split; [exact Ha|]. cbn [idm_srt] in *. unfold e_start, e_end in *. cbn [fst snd] in *.
  destruct Hb as (H1 & H2 & H3 & H4 & H5). split; [exact H1|]. split; [lia|].
  replace (N.max e1 e2) with e2 by lia. exact H5.
Qed.

(* the index where the overlapping entries start *)
Definition idm_lo_of (l : ranges T) (s : N) : option nat :=
  match partition_point (fun x => e_start x <? s) l with
  | O => Some O
  | S p => match nth_error l p with
           | Some x => Some (if s <=? e_end x then p else partition_point (fun x => e_start x <? s) l)
           | None => None
           end
  end.

Lemma idm_pp_split : forall (p : entry T -> bool) l, exists pre post,
  l = pre ++ post /\ length pre = partition_point p l /\ Forall (fun x => p x = true) pre /\
  match post with [] => True | y :: _ => p y = false end.
Proof.
  intros p. induction l as [|x l IH].
  - exists [], []. cbn. auto.
  - cbn [partition_point]. destruct (p x) eqn:Ex.
    + destruct IH as (pre & post & -> & Hl & Hf & Hh). exists (x :: pre), post. cbn [app length].
      split; [reflexivity|]. split; [lia|]. split; [constructor; assumption|exact Hh].
    + exists [], (x :: l). cbn. auto.
Qed.

Lemma idm_lo_split : forall l s LO HI, idm_srt LO HI l -> LO <= s -> exists A B,
  l = A ++ B /\ idm_lo_of l s = Some (length A) /\ idm_last_end LO A <= s /\
  Forall (fun y => e_start y < s -> s <= e_end y) B.
Proof.
  intros l s LO HI Hs HLO. unfold idm_lo_of.
  destruct (idm_pp_split (fun x => e_start x <? s) l) as (pre & post & -> & Hl & Hf & Hh). rewrite <- Hl.
  assert (Hpost : forall m, idm_srt m HI post -> Forall (fun y => e_start y < s -> s <= e_end y) post).
  { intros m Hm. destruct post as [|y post]; [constructor|]. apply idm_srt_all_ge in Hm.
    apply Forall_cons_iff in Hm. destruct Hm as [_ Hm]. cbn [idm_srt] in *.
    assert (Hy : s <= e_start y) by lia.
    constructor; [lia|]. apply idm_srt_app in Hs. destruct Hs as [_ Hs]. cbn [idm_srt] in Hs.
    destruct Hs as (_ & Hy2 & Hs). apply idm_srt_all_ge in Hs. eapply Forall_impl; [|exact Hs]. cbn beta. intros z Hz. lia. }
  destruct (rev pre) as [|x rpre] eqn:Er.
  - assert (pre = []) by (rewrite <- (rev_involutive pre), Er; reflexivity). subst pre. cbn [length app] in *.
    exists [], post. cbn [app length idm_last_end]. split; [reflexivity|]. split; [reflexivity|]. split; [exact HLO|].
    eapply Hpost. exact Hs.
  - assert (Hpre : pre = rev rpre ++ [x]) by (rewrite <- (rev_involutive pre), Er; reflexivity). subst pre.
    rewrite app_length. cbn [length]. replace (length (rev rpre) + 1)%nat with (S (length (rev rpre))) by lia.
    rewrite <- app_assoc. cbn [app]. rewrite nth_error_len_app. cbn [hd_error].
    apply Forall_app in Hf. destruct Hf as [_ Hx]. apply Forall_cons_iff in Hx. destruct Hx as [Hx _].
    rewrite <- app_assoc in Hs. cbn [app] in Hs. pose proof Hs as Hs0. apply idm_srt_app in Hs. destruct Hs as [Ha Hb].
    cbn [idm_srt] in Hb. destruct Hb as (Hb1 & Hb2 & Hb3).
    destruct (N.leb_spec s (e_end x)) as [Hle|Hgt].
    + exists (rev rpre), (x :: post). split; [reflexivity|]. split; [reflexivity|]. split; [lia|].
      constructor; [intros _; exact Hle|]. apply idm_srt_all_ge in Hb3. eapply Forall_impl; [|exact Hb3].
      cbn beta. intros z Hz. lia.
    + exists (rev rpre ++ [x]), post. rewrite <- app_assoc. cbn [app]. split; [reflexivity|].
      rewrite app_length. cbn [length]. split; [f_equal; lia|]. rewrite idm_last_end_app. split; [lia|].
      eapply Hpost. exact Hb3.
Qed.

Lemma idm_skipn_add_app : forall A (a b : list A) n, skipn (length a + n) (a ++ b) = skipn n b.
Proof. intros A. induction a as [|x a IH]; intros b n; cbn [length Nat.add app skipn]; [reflexivity|apply IH]. Qed.

(* ---- touching neighbours with equal values ---- *)
Definition idm_touch (p x : entry T) : bool := (e_start x <=? e_end p) && veq (e_val p) (e_val x).

(* no element touches its predecessor with an equal value (prev: the element before the list, if any) *)
Fixpoint idm_cl (prev : option (entry T)) (l : ranges T) : Prop :=
  match l with
  | [] => True
  | x :: r => match prev with None => True | Some p => idm_touch p x = false end /\ idm_cl (Some x) r
  end.

Fixpoint idm_lastx (prev : option (entry T)) (l : ranges T) : option (entry T) :=
  match l with [] => prev | x :: r => idm_lastx (Some x) r end.

Lemma idm_cl_app : forall a b prev, idm_cl prev (a ++ b) <-> idm_cl prev a /\ idm_cl (idm_lastx prev a) b.
Proof.
  induction a as [|x a IH]; intros b prev; cbn [app idm_cl idm_lastx]; [tauto|]. rewrite IH. tauto.
Qed.

Lemma idm_cl_none : forall l prev, idm_cl prev l -> idm_cl None l.
Proof. intros [|x l] prev H; cbn [idm_cl] in *; tauto. Qed.

Lemma idm_lastx_app : forall a prev x, idm_lastx prev (a ++ [x]) = Some x.
Proof. induction a as [|y a IH]; intros prev x; cbn [app idm_lastx]; [reflexivity|apply IH]. Qed.

(* the condition on the last element only looks at its start and its value *)
Lemma idm_cl_snoc_same : forall a prev x y, e_start x = e_start y -> e_val x = e_val y ->
  idm_cl prev (a ++ [x]) -> idm_cl prev (a ++ [y]).
Proof.
  intros a prev x y Hs Hv H. apply idm_cl_app in H. apply idm_cl_app. destruct H as [Ha Hx]. split; [exact Ha|].
  cbn [idm_cl] in *. destruct (idm_lastx prev a); [|tauto]. unfold idm_touch in *. rewrite <- Hs, <- Hv. exact Hx.
Qed.

Lemma idm_push_cl : forall acc s e v, idm_cl None (rev acc) -> idm_cl None (rev (push_coalesced veq acc s e v)).
Proof.
  intros acc s e v H. unfold push_coalesced. destruct (e <=? s); [exact H|].
  destruct acc as [|[[ls le] lv] acc']; [cbn; auto|].
  destruct ((s <=? le) && veq lv v) eqn:E.
  - cbn [rev] in *. eapply idm_cl_snoc_same; [| |exact H]; reflexivity.
  - change (rev ((s, e, v) :: (ls, le, lv) :: acc')) with (rev ((ls, le, lv) :: acc') ++ [(s, e, v)]).
    apply idm_cl_app. split; [exact H|]. cbn [rev]. rewrite idm_lastx_app. cbn [idm_cl]. split; [|exact I].
    unfold idm_touch, e_start, e_end, e_val. cbn [fst snd]. exact E.
Qed.

Lemma idm_repl_step_cl : forall s e v st x, idm_cl None (rev (snd st)) ->
  idm_cl None (rev (snd (repl_step T veq vmerge s e v st x))).
Proof.
  intros s e v [cursor acc] [[es ee] ev] H. cbn [snd] in H. unfold repl_step. cbn [snd].
  repeat match goal with
  | |- idm_cl None (rev (if ?c then _ else _)) => destruct c
  | |- idm_cl None (rev (push_coalesced _ _ _ _ _)) => apply idm_push_cl
  end; exact H.
Qed.

Lemma idm_repl_fold_cl : forall s e v mid st, idm_cl None (rev (snd st)) ->
  idm_cl None (rev (snd (fold_left (repl_step T veq vmerge s e v) mid st))).
Proof.
  intros s e v. induction mid as [|x mid IH]; intros st H; cbn [fold_left]; [exact H|].
  apply IH. apply idm_repl_step_cl. exact H.
Qed.

(* the replacement is never empty *)
Lemma idm_push_ne : forall acc s e v, s < e -> push_coalesced veq acc s e v <> [].
Proof.
  intros acc s e v H. unfold push_coalesced. replace (e <=? s) with false by lia.
  destruct acc as [|[[ls le] lv] acc']; [discriminate|]. destruct ((s <=? le) && veq lv v); discriminate.
Qed.
Lemma idm_push_keep : forall acc s e v, acc <> [] -> push_coalesced veq acc s e v <> [].
Proof.
  intros acc s e v H. unfold push_coalesced. destruct (e <=? s); [exact H|].
  destruct acc as [|[[ls le] lv] acc']; [discriminate|]. destruct ((s <=? le) && veq lv v); discriminate.
Qed.
Lemma idm_repl_step_ne : forall s e v cursor acc es ee ev, s < e -> es < ee -> es <= e ->
  snd (repl_step T veq vmerge s e v (cursor, acc) (es, ee, ev)) <> [].
Proof.
  intros s e v cursor acc es ee ev Hse Hes Hee. unfold repl_step. cbn [snd].
  destruct (e <? ee) eqn:E4; [apply idm_push_ne; lia|].
  destruct (N.max es s <? N.min ee e) eqn:E3; [apply idm_push_ne; lia|].
  destruct (es <? s) eqn:E2; [apply idm_push_ne; lia|]. lia.
Qed.
Lemma idm_repl_step_keep : forall s e v st x, snd st <> [] -> snd (repl_step T veq vmerge s e v st x) <> [].
Proof.
  intros s e v [cursor acc] [[es ee] ev] H. cbn [snd] in H. unfold repl_step. cbn [snd].
  repeat match goal with
  | |- (if ?c then _ else _) <> [] => destruct c
  | |- push_coalesced _ _ _ _ _ <> [] => apply idm_push_keep
  end; exact H.
Qed.
Lemma idm_repl_fold_keep : forall s e v mid st, snd st <> [] ->
  snd (fold_left (repl_step T veq vmerge s e v) mid st) <> [].
Proof.
  intros s e v. induction mid as [|x mid IH]; intros st H; cbn [fold_left]; [exact H|].
  apply IH. apply idm_repl_step_keep. exact H.
Qed.

(* coalesce_pair repairs the one place where two touching equal neighbours may be left (veq an equivalence) *)
Lemma idm_firstn_S_app : forall A (P : list A) x r, firstn (S (length P)) (P ++ x :: r) = P ++ [x].
Proof. intros A. induction P as [|y P IH]; intros x r; cbn [length app firstn]; [reflexivity|]. f_equal. apply IH. Qed.

Lemma idm_coalesce_cl : (forall a b, veq a b = veq b a) ->
  (forall a b c, veq a b = true -> veq b c = true -> veq a c = true) ->
  forall l i lo hi prev, idm_srt lo hi l ->
  idm_cl prev (firstn (S i) l) -> idm_cl None (skipn (S i) l) -> idm_cl prev (coalesce_pair veq l i).
Proof.
  intros Hsym Htrans l i lo hi prev Hs H1 H2. unfold coalesce_pair.
  destruct (nth_error l i) as [[[s1 e1] v1]|] eqn:E1.
  2:{ apply nth_error_None in E1. rewrite firstn_all2 in H1 by lia. exact H1. }
  destruct (nth_error l (S i)) as [[[s2 e2] v2]|] eqn:E2.
  2:{ apply nth_error_None in E2. rewrite firstn_all2 in H1 by lia. exact H1. }
  pose proof (idm_nth_split2 _ l i _ _ E1 E2) as Hl.
  assert (Hi : length (firstn i l) = i).
  { apply firstn_length_le. assert (i < length l)%nat by (apply nth_error_Some; congruence). lia. }
  revert Hl Hi. generalize (firstn i l) (skipn (S (S i)) l). intros P S' Hl Hi. subst l i.
  rewrite idm_firstn_S_app in H1. rewrite skipn_S_len_app in H2.
  apply idm_srt_app in Hs. destruct Hs as [_ Hs]. cbn [idm_srt] in Hs. unfold e_start, e_end in Hs. cbn [fst snd] in Hs.
  destruct Hs as (_ & _ & Hs12 & Hs22 & _).
  destruct ((s2 <=? e1) && veq v1 v2) eqn:Ec.
  - apply andb_prop in Ec. destruct Ec as [_ Ev].
    change (P ++ (s1, N.max e1 e2, v1) :: S') with (P ++ [(s1, N.max e1 e2, v1)] ++ S'). rewrite app_assoc.
    apply idm_cl_app. split; [eapply idm_cl_snoc_same; [| |exact H1]; reflexivity|].
    rewrite idm_lastx_app. destruct S' as [|[[ys ye] yv] S'']; [exact I|].
    cbn [idm_cl] in *. destruct H2 as (_ & Hy & Hrest). split; [|exact Hrest].
    unfold idm_touch, e_start, e_end, e_val in *. cbn [fst snd] in *. replace (N.max e1 e2) with e2 by lia.
    destruct (ys <=? e2); [|reflexivity]. cbn [andb] in *.
    destruct (veq v1 yv) eqn:E1y; [|reflexivity].
    rewrite <- Hy. symmetry. apply (Htrans v2 v1 yv); [rewrite Hsym; exact Ev|exact E1y].
  - change (P ++ (s1, e1, v1) :: (s2, e2, v2) :: S') with (P ++ [(s1, e1, v1)] ++ (s2, e2, v2) :: S'). rewrite app_assoc.
    apply idm_cl_app. split; [exact H1|]. rewrite idm_lastx_app. cbn [idm_cl] in *. split; [|tauto].
    unfold idm_touch, e_start, e_end, e_val. cbn [fst snd]. exact Ec.
Qed.

Lemma idm_coalesce_app : forall A (W : ranges T) j, coalesce_pair veq (A ++ W) (length A + j) = A ++ coalesce_pair veq W j.
Proof.
  intros A W j. unfold coalesce_pair.
  replace (nth_error (A ++ W) (length A + j)) with (nth_error W j)
    by (rewrite nth_error_app2 by lia; f_equal; lia).
  replace (nth_error (A ++ W) (S (length A + j))) with (nth_error W (S j))
    by (rewrite nth_error_app2 by lia; f_equal; lia).
  destruct (nth_error W j) as [[[s1 e1] v1]|]; [|reflexivity].
  destruct (nth_error W (S j)) as [[[s2 e2] v2]|]; [|reflexivity].
  destruct ((s2 <=? e1) && veq v1 v2); [|reflexivity].
  rewrite firstn_app. rewrite firstn_all2 by lia. replace (length A + j - length A)%nat with j by lia.
  rewrite <- app_assoc. f_equal. f_equal. f_equal.
  replace (S (S (length A + j))) with (length A + S (S j))%nat by lia. apply idm_skipn_add_app.
Qed.

(* what insert_general does: cut out the overlapping stretch, put the replacement in, coalesce at both ends *)
Definition idm_splice (A repl R : ranges T) : ranges T :=
  let l2 := coalesce_pair veq (A ++ repl ++ R) (length A + (length repl - 1)) in
  match length A with O => l2 | S p => coalesce_pair veq l2 p end.

Lemma idm_splice_srt : forall A repl R lo hi, idm_srt lo hi (A ++ repl ++ R) -> idm_srt lo hi (idm_splice A repl R).
Proof. intros A repl R lo hi H. unfold idm_splice. destruct (length A); repeat apply idm_coalesce_srt; exact H. Qed.

Lemma idm_splice_cl : (forall a b, veq a b = veq b a) ->
  (forall a b c, veq a b = true -> veq b c = true -> veq a c = true) ->
  forall A repl R lo hi, repl <> [] -> idm_srt lo hi (A ++ repl ++ R) ->
  idm_cl None A -> idm_cl None repl -> idm_cl None R -> idm_cl None (idm_splice A repl R).
Proof.
  intros Hsym Htrans A repl R lo hi Hne Hs HA Hrepl HR. unfold idm_splice.
  assert (Hlen : S (length repl - 1) = length repl) by (destruct repl; [congruence|cbn [length]; lia]).
  rewrite idm_coalesce_app.
  assert (HZ : idm_cl None (coalesce_pair veq (repl ++ R) (length repl - 1))).
  { apply idm_srt_app in Hs. destruct Hs as [_ Hs].
    eapply (idm_coalesce_cl Hsym Htrans); [exact Hs| |]; rewrite Hlen.
    - rewrite firstn_len_app. exact Hrepl.
    - rewrite skipn_len_app. exact HR. }
  assert (Hs2 : idm_srt lo hi (A ++ coalesce_pair veq (repl ++ R) (length repl - 1))).
  { rewrite <- idm_coalesce_app. apply idm_coalesce_srt. exact Hs. }
  destruct (length A) as [|p] eqn:El.
  - destruct A; [|discriminate]. exact HZ.
  - eapply (idm_coalesce_cl Hsym Htrans); [exact Hs2| |]; rewrite <- El.
    + rewrite firstn_len_app. exact HA.
    + rewrite skipn_len_app. exact HZ.
Qed.

Lemma idm_insert_general_shape : forall l s e v LO HI l', s < e -> LO <= s -> idm_srt LO HI l ->
  insert_general veq vmerge l s e v = Some l' ->
  exists A mid R repl, l = A ++ mid ++ R /\ repl <> [] /\ idm_cl None repl /\
    idm_srt LO (N.max HI e) (A ++ repl ++ R) /\ l' = idm_splice A repl R.
Proof.
  intros l s e v LO HI l' Hse HLO Hs Hins. unfold insert_general in Hins. cbv zeta in Hins.
  change (match partition_point (fun x0 : entry T => e_start x0 <? s) l with
          | O => Some O
          | S p => match nth_error l p with
                   | Some x1 => Some (if s <=? e_end x1 then p else partition_point (fun x2 : entry T => e_start x2 <? s) l)
                   | None => None
                   end
          end) with (idm_lo_of l s) in Hins.
  destruct (idm_lo_split l s LO HI Hs HLO) as (A & B & -> & Hlo & HA & HB). rewrite Hlo in Hins.
  rewrite firstn_len_app, skipn_len_app in Hins.
  pose proof (tw_dw (fun x => e_start x <=? e) B) as Hsplit.
  pose proof (tw_forall (fun x => e_start x <=? e) B) as Hmid.
  pose proof (dw_head (fun x => e_start x <=? e) B) as HR.
  remember (take_while (fun x => e_start x <=? e) B) as mid eqn:Emid0.
  remember (drop_while (fun x => e_start x <=? e) B) as R eqn:ER0. clear Emid0 ER0.
  apply idm_srt_app in Hs. destruct Hs as [HsA HsB]. set (m1 := idm_last_end LO A) in *.
  assert (HsR : forall m, idm_srt m HI R -> idm_srt (N.max m e) (N.max HI e) R).
  { intros m Hm. destruct R as [|y R'].
    - cbn [idm_srt] in *. lia.
    - cbn [idm_srt] in *. destruct Hm as (Hm1 & Hm2 & Hm3). split; [lia|]. split; [exact Hm2|].
      eapply idm_srt_weaken; [exact Hm3|lia|lia]. }
  exists A, mid, R. subst B.
  destruct mid as [|first mid'].
  - (* nothing overlaps: insert, then coalesce with the neighbours *)
    cbn [length] in Hins. rewrite Nat.add_0_r, Nat.eqb_refl in Hins. cbn [app] in *.
    exists [(s, e, v)]. split; [reflexivity|]. split; [discriminate|]. split; [cbn; auto|]. split.
    + apply (idm_srt_app_intro A _ LO m1); [exact HsA|]. cbn [app idm_srt]. unfold e_start at 1, e_end at 1 2. cbn [fst snd].
      split; [exact HA|]. split; [exact Hse|].
      destruct R as [|y R'].
      * cbn [idm_srt]. lia.
      * cbn [idm_srt] in *. destruct HsB as (H1 & H2 & H3). split; [lia|]. split; [exact H2|].
        eapply idm_srt_weaken; [exact H3|lia|lia].
    + inversion Hins; subst l'. unfold idm_splice. cbn [length app Nat.sub]. rewrite Nat.add_0_r.
      destruct (length A); reflexivity.
  - (* rebuild the overlapping stretch *)
    replace (Nat.eqb (length A) (length A + length (first :: mid'))) with false in Hins by (cbn [length]; lia).
    apply idm_srt_app in HsB. destruct HsB as [Hsm HsR0].
    set (m2 := idm_last_end m1 (first :: mid')) in *.
    set (cursor0 := N.min (e_start first) s) in *.
    assert (Hsm' : idm_srt cursor0 m2 (first :: mid')).
    { cbn [idm_srt] in *. destruct Hsm as (H1 & H2 & H3). split; [subst cursor0; lia|]. split; assumption. }
    assert (Hmid' : Forall (fun x => e_start x <= e) (first :: mid')).
    { eapply Forall_impl; [|exact Hmid]. cbn beta. intros x Hx. lia. }
    assert (HB' : Forall (fun y => e_start y < s -> s <= e_end y) (first :: mid')).
    { apply Forall_app in HB. tauto. }
    destruct (idm_repl_fold_srt s e v Hse (first :: mid') cursor0 [] cursor0 cursor0 m2 Hsm' Hmid' HB')
      as (hi' & Hf1 & Hf2 & Hf3).
    { cbn [rev idm_srt]. lia. }
    { lia. }
    pose proof (idm_repl_fold_cl s e v (first :: mid') (cursor0, []) I) as Hfc.
    assert (Hfn : snd (fold_left (repl_step T veq vmerge s e v) (first :: mid') (cursor0, [])) <> []).
    { cbn [fold_left]. apply idm_repl_fold_keep. destruct first as [[es ee] ev].
      apply Forall_cons_iff in Hmid'. destruct Hmid' as [Hm0 _]. cbn [idm_srt] in Hsm.
      unfold e_start, e_end in Hm0, Hsm. cbn [fst snd] in Hm0, Hsm. apply idm_repl_step_ne; lia. }
    destruct (fold_left (repl_step T veq vmerge s e v) (first :: mid') (cursor0, [])) as [cursor' acc].
    cbn [fst snd] in Hf1, Hf2, Hf3, Hfc, Hfn.
    pose proof (idm_cpush (cursor' <? e) acc cursor0 hi' cursor' e v Hf1 ltac:(lia)) as Hf4.
    assert (Hc2 : idm_cl None (rev (if cursor' <? e then push_coalesced veq acc cursor' e v else acc))).
    { destruct (cursor' <? e); [apply idm_push_cl|]; exact Hfc. }
    assert (Hn2 : (if cursor' <? e then push_coalesced veq acc cursor' e v else acc) <> []).
    { destruct (cursor' <? e); [apply idm_push_keep|]; exact Hfn. }
    set (acc2 := if cursor' <? e then push_coalesced veq acc cursor' e v else acc) in *.
    rewrite idm_skipn_add_app, skipn_len_app in Hins.
    assert (Hm1c : m1 <= cursor0).
    { cbn [idm_srt] in Hsm. subst cursor0. lia. }
    assert (Hrn : rev acc2 <> []).
    { intro Hr. apply Hn2. rewrite <- (rev_involutive acc2), Hr. reflexivity. }
    exists (rev acc2). split; [reflexivity|]. split; [exact Hrn|]. split; [exact Hc2|]. split.
    + apply (idm_srt_app_intro A _ LO m1); [exact HsA|].
      apply (idm_srt_app_intro _ _ m1 (N.max m2 e)).
      * eapply idm_srt_weaken; [exact Hf4|exact Hm1c|]. destruct (cursor' <? e); lia.
      * apply HsR. exact HsR0.
    + unfold idm_splice.
      replace (length A + length (rev acc2))%nat with (S (length A + (length (rev acc2) - 1))) in Hins
        by (destruct (rev acc2); [congruence|cbn [length]; lia]).
      inversion Hins; subst l'. destruct (length A); reflexivity.
Qed.

Lemma idm_insert_general_srt : forall l s e v LO HI l', s < e -> LO <= s -> idm_srt LO HI l ->
  insert_general veq vmerge l s e v = Some l' -> idm_srt LO (N.max HI e) l'.
Proof.
  intros l s e v LO HI l' Hse HLO Hs Hins.
  destruct (idm_insert_general_shape l s e v LO HI l' Hse HLO Hs Hins) as (A & mid & R & repl & _ & _ & _ & Hs1 & ->).
  apply idm_splice_srt. exact Hs1.
Qed.

Lemma idm_insert_general_cl : (forall a b, veq a b = veq b a) ->
  (forall a b c, veq a b = true -> veq b c = true -> veq a c = true) ->
  forall l s e v LO HI l', s < e -> LO <= s -> idm_srt LO HI l -> idm_cl None l ->
  insert_general veq vmerge l s e v = Some l' -> idm_cl None l'.
Proof.
  intros Hsym Htrans l s e v LO HI l' Hse HLO Hs Hcl Hins.
  destruct (idm_insert_general_shape l s e v LO HI l' Hse HLO Hs Hins) as (A & mid & R & repl & -> & Hne & Hcr & Hs1 & ->).
  apply idm_cl_app in Hcl. destruct Hcl as [HcA Hcl]. apply idm_cl_app in Hcl. destruct Hcl as [_ HcR].
  apply idm_cl_none in HcR.
  eapply (idm_splice_cl Hsym Htrans); eassumption.
Qed.

Lemma idm_rev_cons_inv : forall A (l : list A) x r, rev l = x :: r -> l = rev r ++ [x].
Proof. intros A l x r H. rewrite <- (rev_involutive l), H. reflexivity. Qed.

Theorem idm_insert_with_srt : forall l s e v LO HI l', idm_srt LO HI l ->
  insert_with veq vmerge l s e v = Some l' -> idm_srt (N.min LO s) (N.max HI e) l'.
Proof.
  intros l s e v LO HI l' Hs Hins. unfold insert_with in Hins.
  destruct (N.leb_spec e s) as [Hes|Hse].
  { inversion Hins; subst l'. eapply idm_srt_weaken; [exact Hs|lia|lia]. }
  assert (Hgen : insert_general veq vmerge l s e v = Some l' -> idm_srt (N.min LO s) (N.max HI e) l').
  { apply idm_insert_general_srt; [exact Hse|lia|]. eapply idm_srt_weaken; [exact Hs|lia|lia]. }
  destruct (rev l) as [|[[ls le] lv] racc] eqn:Er; [exact (Hgen Hins)|].
  apply idm_rev_cons_inv in Er. subst l.
  assert (Hs' : idm_srt (N.min LO s) HI (rev racc ++ [(ls, le, lv)])) by (eapply idm_srt_weaken; [exact Hs|lia|lia]).
  apply idm_srt_snoc in Hs'. unfold e_start, e_end in Hs'. cbn [fst snd] in Hs'. destruct Hs' as (Ha & Hb1 & Hb2 & Hb3).
  assert (Hpush : idm_srt (N.min LO s) (N.max HI e) ((rev racc ++ [(ls, le, lv)]) ++ [(s, e, v)]) \/ s < le).
  { destruct (N.lt_ge_cases s le); [right; assumption|left].
    apply idm_srt_snoc. rewrite idm_last_end_app. unfold e_start, e_end. cbn [fst snd].
    split; [|lia]. apply idm_srt_snoc. unfold e_start, e_end. cbn [fst snd]. split; [exact Ha|]. lia. }
  destruct (ls <=? s); [|exact (Hgen Hins)].
  destruct (N.ltb_spec le s).
  { inversion Hins; subst l'. destruct Hpush; [assumption|lia]. }
  destruct (veq lv v).
  { inversion Hins; subst l'. cbn [rev]. apply idm_srt_snoc. unfold e_start, e_end. cbn [fst snd].
    split; [exact Ha|]. split; [exact Hb1|]. split; lia. }
  destruct (N.eqb_spec s le); [|exact (Hgen Hins)].
  inversion Hins; subst l'. destruct Hpush; [assumption|lia].
Qed.
Theorem idm_insert_with_cl : (forall a b, veq a b = veq b a) ->
  (forall a b c, veq a b = true -> veq b c = true -> veq a c = true) ->
  forall l s e v LO HI l', idm_srt LO HI l -> idm_cl None l ->
  insert_with veq vmerge l s e v = Some l' -> idm_cl None l'.
Proof.
  intros Hsym Htrans l s e v LO HI l' Hs Hcl Hins. unfold insert_with in Hins.
  destruct (N.leb_spec e s) as [Hes|Hse]; [inversion Hins; subst l'; exact Hcl|].
  assert (Hgen : insert_general veq vmerge l s e v = Some l' -> idm_cl None l').
  { apply (idm_insert_general_cl Hsym Htrans l s e v (N.min LO s) HI); [exact Hse|lia| |exact Hcl].
    eapply idm_srt_weaken; [exact Hs|lia|lia]. }
  destruct (rev l) as [|[[ls le] lv] racc] eqn:Er; [exact (Hgen Hins)|].
  apply idm_rev_cons_inv in Er. subst l.
  assert (Hpush : forall b, ((s <=? le) && veq lv v) = b -> b = false ->
                    idm_cl None ((rev racc ++ [(ls, le, lv)]) ++ [(s, e, v)])).
  { intros b Hb ->. apply idm_cl_app. split; [exact Hcl|]. rewrite idm_lastx_app. cbn [idm_cl]. split; [|exact I].
    unfold idm_touch, e_start, e_end, e_val. cbn [fst snd]. exact Hb. }
  destruct (ls <=? s); [|exact (Hgen Hins)].
  destruct (N.ltb_spec le s).
  { inversion Hins; subst l'. apply (Hpush _ eq_refl). lia. }
  destruct (veq lv v) eqn:Ev.
  { inversion Hins; subst l'. cbn [rev]. eapply idm_cl_snoc_same; [| |exact Hcl]; reflexivity. }
  destruct (N.eqb_spec s le); [|exact (Hgen Hins)].
  inversion Hins; subst l'. apply (Hpush _ eq_refl). apply andb_false_r.
Qed.
End Sorted.

(* ... and every value of the result is an old value, the new value, or an old value merged with the new one *)
Section Vals.
Variable T : Type.
Variable veq : T -> T -> bool.
Variable vmerge : T -> T -> T.
Variables P Q : T -> Prop.
Variable v : T.
Hypothesis HPQ : forall a, P a -> Q a.
Hypothesis HQv : Q v.
Hypothesis HQm : forall a, P a -> Q (vmerge a v).
Let P' (x : entry T) := P (e_val x).
Let Q' (x : entry T) := Q (e_val x).

Lemma idm_push_vals : forall acc s e w, Forall Q' acc -> Q w -> Forall Q' (push_coalesced veq acc s e w).
Proof.
  intros acc s e w Hacc Hw. unfold push_coalesced. destruct (e <=? s); [exact Hacc|].
  destruct acc as [|[[ls le] lv] acc']; [constructor; [exact Hw|constructor]|].
  destruct ((s <=? le) && veq lv w).
  - apply Forall_cons_iff in Hacc. destruct Hacc as [H1 H2]. constructor; assumption.
  - constructor; assumption.
Qed.

Lemma idm_repl_step_vals : forall s e st x, Forall Q' (snd st) -> P' x ->
  Forall Q' (snd (repl_step T veq vmerge s e v st x)).
Proof.
  intros s e [cursor acc] [[es ee] ev] Hacc Hx. unfold P', e_val in Hx. cbn [fst snd] in Hx, Hacc.
  unfold repl_step. cbn [snd].
  repeat match goal with
  | |- Forall Q' (if ?c then _ else _) => destruct c
  | |- Forall Q' (push_coalesced _ _ _ _ _) => apply idm_push_vals
  end; auto.
Qed.

Lemma idm_repl_fold_vals : forall s e mid st, Forall Q' (snd st) -> Forall P' mid ->
  Forall Q' (snd (fold_left (repl_step T veq vmerge s e v) mid st)).
Proof.
  intros s e. induction mid as [|x mid IH]; intros st Hst Hmid; cbn [fold_left]; [exact Hst|].
  apply Forall_cons_iff in Hmid. destruct Hmid as [Hx Hmid]. apply IH; [|exact Hmid].
  apply idm_repl_step_vals; assumption.
Qed.

Lemma idm_Forall_firstn : forall A (R : A -> Prop) l n, Forall R l -> Forall R (firstn n l).
Proof. intros A R l n H. rewrite <- (firstn_skipn n l) in H. apply Forall_app in H. tauto. Qed.
Lemma idm_Forall_skipn : forall A (R : A -> Prop) l n, Forall R l -> Forall R (skipn n l).
Proof. intros A R l n H. rewrite <- (firstn_skipn n l) in H. apply Forall_app in H. tauto. Qed.
Lemma idm_Forall_take_while : forall (R : entry T -> Prop) p l, Forall R l -> Forall R (take_while p l).
Proof. intros R p l H. rewrite <- (tw_dw p l) in H. apply Forall_app in H. tauto. Qed.

Lemma idm_coalesce_vals : forall l i, Forall Q' l -> Forall Q' (coalesce_pair veq l i).
Proof.
  intros l i H. unfold coalesce_pair.
  destruct (nth_error l i) as [[[s1 e1] v1]|] eqn:E1; [|exact H].
  destruct (nth_error l (S i)) as [[[s2 e2] v2]|] eqn:E2; [|exact H].
  destruct ((s2 <=? e1) && veq v1 v2); [|exact H].
  rewrite (idm_nth_split2 _ l i _ _ E1 E2) in H. apply Forall_app in H. destruct H as [Ha Hb].
  apply Forall_app. split; [exact Ha|]. apply Forall_cons_iff in Hb. destruct Hb as [H1 Hb].
  apply Forall_cons_iff in Hb. destruct Hb as [H2 Hb]. constructor; assumption.
Qed.

Lemma idm_insert_general_vals : forall l s e l', Forall P' l ->
  insert_general veq vmerge l s e v = Some l' -> Forall Q' l'.
Proof.
  intros l s e l' Hl Hins. unfold insert_general in Hins. cbv zeta in Hins.
  assert (HlQ : Forall Q' l) by (eapply Forall_impl; [|exact Hl]; intros a; apply HPQ).
  match type of Hins with match ?X with _ => _ end = _ => destruct X as [lo|]; [|discriminate] end.
  match type of Hins with (if ?c then _ else _) = _ => destruct c end.
  - inversion Hins; subst l'.
    assert (H1 : Forall Q' (firstn lo l ++ (s, e, v) :: skipn lo l)).
    { apply Forall_app. split; [apply idm_Forall_firstn; exact HlQ|].
      constructor; [exact HQv|apply idm_Forall_skipn; exact HlQ]. }
    destruct lo; repeat apply idm_coalesce_vals; exact H1.
  - remember (take_while (fun x => e_start x <=? e) (skipn lo l)) as mid eqn:Emid.
    assert (Hmid : Forall P' mid).
    { subst mid. apply idm_Forall_take_while, idm_Forall_skipn. exact Hl. }
    destruct mid as [|first mid']; [discriminate|].
    pose proof (idm_repl_fold_vals s e (first :: mid') (N.min (e_start first) s, []) (Forall_nil _) Hmid) as Hf.
    destruct (fold_left (repl_step T veq vmerge s e v) (first :: mid') (N.min (e_start first) s, [])) as [cursor' acc].
    cbn [snd] in Hf.
    assert (H1 : forall k, Forall Q' (firstn lo l ++ rev (if cursor' <? e then push_coalesced veq acc cursor' e v else acc)
                                  ++ skipn k l)).
    { intro k. apply Forall_app. split; [apply idm_Forall_firstn; exact HlQ|]. apply Forall_app.
      split; [|apply idm_Forall_skipn; exact HlQ]. apply Forall_rev.
      destruct (cursor' <? e); [apply idm_push_vals; assumption|exact Hf]. }
    inversion Hins; subst l'.
    repeat match goal with |- Forall Q' (match ?a with _ => _ end) => destruct a end;
      repeat apply idm_coalesce_vals; apply H1.
Qed.

Theorem idm_insert_with_vals : forall l s e l', Forall P' l ->
  insert_with veq vmerge l s e v = Some l' -> Forall Q' l'.
Proof.
  intros l s e l' Hl Hins. unfold insert_with in Hins.
  assert (HlQ : Forall Q' l) by (eapply Forall_impl; [|exact Hl]; intros a; apply HPQ).
  destruct (e <=? s); [inversion Hins; subst; exact HlQ|].
  pose proof (idm_insert_general_vals l s e l' Hl) as Hgen.
  assert (Hpush : Forall Q' (l ++ [(s, e, v)])).
  { apply Forall_app. split; [exact HlQ|]. constructor; [exact HQv|constructor]. }
  destruct (rev l) as [|[[ls le] lv] racc] eqn:Er; [exact (Hgen Hins)|].
  destruct (ls <=? s); [|exact (Hgen Hins)].
  destruct (le <? s); [inversion Hins; subst; exact Hpush|].
  destruct (veq lv v).
  { inversion Hins; subst l'.
    apply idm_rev_cons_inv in Er. subst l. apply Forall_app in HlQ. destruct HlQ as [H1 H2].
    apply Forall_cons_iff in H2. destruct H2 as [H2 _]. apply Forall_app. split; [exact H1|].
    constructor; [exact H2|constructor]. }
  destruct (s =? le); [inversion Hins; subst; exact Hpush|exact (Hgen Hins)].
Qed.
End Vals.
Arguments idm_srt {T}.
Arguments idm_last_end {T}.
Arguments idm_cl {T}.
Arguments idm_touch {T}.
Arguments idm_lastx {T}.

(* ------------------------------------------------------------------------------------------------ *)
(* 3. what the decoder returns                                                                      *)
(* ------------------------------------------------------------------------------------------------ *)

Lemma idm_read_string_wf : forall bs s rest, read_string bs = Ok s rest -> wf_str s = true.
Proof.
  intros bs s rest H. apply read_string_ok_valid in H. destruct H as [H Hu]. apply wf_str_iff. split; [|exact Hu].
  unfold read_buf in H. apply bind_ok in H. destruct H as (len & r1 & Hl & H).
  apply read_var_u32_range in Hl. unfold read_exact in H.
  destruct (N.ltb_spec (N.of_nat (length r1)) len); [discriminate|]. inversion H; subst.
  rewrite firstn_length. lia.
Qed.

Lemma idm_dec_elems_shape : forall dec k n bs acc a rest, dec_elems dec k n bs acc = Ok a rest -> exists l, a = AArray l.
Proof.
  intros dec. induction k as [|k IH]; intros n bs acc a rest H; rewrite dec_elems_eq in H; destruct (n =? 0);
    try discriminate; try (inversion H; eauto; fail).
  apply bind_ok in H. destruct H as (x & r1 & _ & H). eapply IH. exact H.
Qed.
Lemma idm_dec_entries_shape : forall dec k n bs acc a rest, dec_entries dec k n bs acc = Ok a rest -> exists l, a = AMap l.
Proof.
  intros dec. induction k as [|k IH]; intros n bs acc a rest H; rewrite dec_entries_eq in H; destruct (n =? 0);
    try discriminate; try (inversion H; eauto; fail).
  apply bind_ok in H. destruct H as (x & r1 & _ & H). apply bind_ok in H. destruct H as (y & r2 & _ & H).
  eapply IH. exact H.
Qed.

(* an Any string comes from tag 119 followed by read_string *)
Lemma idm_decode_any_string : forall fuel bs s rest, decode_any fuel bs = Ok (AString s) rest ->
  wf_str s = true /\ (length rest < length bs)%nat.
Proof.
  intros [|f] bs s rest H; [discriminate|]. unfold decode_any in H. rewrite decode_any_at_S in H.
  change (ANY_MAX_DEPTH <? 0) with false in H. cbv iota in H.
  destruct bs as [|tag r0]; [discriminate|]. cbn [read_u8 bind] in H.
  repeat match type of H with
  | (if ?c then _ else _) = _ => destruct c
  | Ok _ _ = Ok _ _ => discriminate H
  | rmap _ _ = Ok _ _ => apply rmap_ok in H; destruct H as (x & Hx & Heq)
  end; try discriminate.
  - inversion Heq; subst x. split; [eapply idm_read_string_wf; exact Hx|].
    apply read_string_shrinks in Hx. cbn [length]. lia.
  - apply bind_ok in H. destruct H as (len & r1 & _ & H). apply idm_dec_entries_shape in H. destruct H; discriminate.
  - apply bind_ok in H. destruct H as (len & r1 & _ & H). apply idm_dec_elems_shape in H. destruct H; discriminate.
Qed.

(* decoder state: every attribution decoded so far is well formed, every name a string *)
Definition idm_st_ok (st : idm_dstate) : Prop :=
  Forall (fun d => idm_attr_wf d = true) (fst st) /\ Forall (fun n => wf_str n = true) (snd st).

Lemma idm_dec_attr_inv : forall fuel st bs st' a rest,
  idm_dec_attr fuel st bs = Ok (st', a) rest -> idm_st_ok st ->
  idm_st_ok st' /\ (exists ext, fst st' = fst st ++ ext) /\ a < N.of_nat (length (fst st')) /\
  (length (fst st') + 1 + length rest <= length (fst st) + length bs)%nat.
Proof.
  intros fuel [tbl names] bs st' a rest H [Ht Hn]. cbn [fst snd] in Ht, Hn. unfold idm_dec_attr, read_var_usize in H.
  apply bind_ok in H. destruct H as (attr_id & r1 & E1 & H). apply read_var_u64_shrinks in E1.
  apply bind_ok in H. destruct H as (st1 & r2 & E2 & H).
  assert (Hst1 : idm_st_ok st1 /\ (exists ext, fst st1 = tbl ++ ext) /\
                 (length (fst st1) + length r2 <= length tbl + length r1)%nat).
  { destruct (N.of_nat (length tbl) <=? attr_id).
    - apply bind_ok in E2. destruct E2 as (name_id & r2' & E3 & E2). apply read_var_u64_shrinks in E3.
      apply bind_ok in E2. destruct E2 as (names' & r3 & E4 & E2).
      assert (Hn' : Forall (fun n => wf_str n = true) names' /\ (length r3 <= length r2')%nat).
      { destruct (N.of_nat (length names) <=? name_id).
        - apply bind_ok in E4. destruct E4 as (nm & r3' & E5 & E4). inversion E4; subst. split.
          + apply Forall_app. split; [exact Hn|]. constructor; [eapply idm_read_string_wf; exact E5|constructor].
          + apply read_string_shrinks in E5. lia.
        - inversion E4; subst. split; [exact Hn|lia]. }
      destruct Hn' as [Hn' Hr3].
      apply bind_ok in E2. destruct E2 as (a0 & r4 & E5 & E2).
      apply bind_ok in E2. destruct E2 as (value & r5 & E6 & E2).
      unfold idm_from_any in E6. destruct a0; try discriminate E6. inversion E6; subst value r5.
      apply idm_decode_any_string in E5. destruct E5 as [Hs Hr4].
      destruct (idm_nth names' name_id) as [name|] eqn:En; [|discriminate]. inversion E2; subst st1 r2.
      apply idm_nth_inv in En. destruct En as [_ En]. apply nth_error_In in En.
      cbn [fst snd]. split; [split|split].
      + apply Forall_app. split; [exact Ht|]. constructor; [|constructor]. unfold idm_attr_wf. cbn [fst snd].
        rewrite Hs, andb_true_r. rewrite Forall_forall in Hn'. apply Hn'. exact En.
      + exact Hn'.
      + eexists; reflexivity.
      + rewrite app_length. cbn [length]. lia.
    - inversion E2; subst st1 r2. cbn [fst snd]. split; [split; assumption|].
      split; [exists []; rewrite app_nil_r; reflexivity|lia]. }
  destruct Hst1 as (Hok1 & Hext1 & Hsz1).
  destruct (idm_nth (fst st1) attr_id) as [d|] eqn:Ed; [|discriminate]. inversion H; subst st' a rest.
  apply idm_nth_inv in Ed. destruct Ed as [Ed _]. cbn [fst]. split; [exact Hok1|]. split; [exact Hext1|].
  split; [exact Ed|]. unfold idm_dstate, idm_table, idm_attr in *. lia.
Qed.

Lemma idm_dec_attrs_inv : forall fuel n st bs acc st' l rest,
  idm_dec_attrs fuel n st bs acc = Ok (st', l) rest -> idm_st_ok st ->
  idm_st_ok st' /\ (exists ext, fst st' = fst st ++ ext) /\
  (exists l0, l = rev acc ++ l0 /\ Forall (fun a => a < N.of_nat (length (fst st'))) l0) /\
  (length (fst st') + length l + length rest <= length (fst st) + length acc + length bs)%nat.
Proof.
  induction fuel as [|f IH]; intros n st bs acc st' l rest H Hok; rewrite idm_dec_attrs_eq in H.
  - destruct (n =? 0); [|discriminate]. inversion H; subst. split; [exact Hok|].
    split; [exists []; rewrite app_nil_r; reflexivity|]. split; [exists []; rewrite app_nil_r; split; [reflexivity|constructor]|].
    rewrite rev_length. lia.
  - destruct (n =? 0).
    { inversion H; subst. split; [exact Hok|].
      split; [exists []; rewrite app_nil_r; reflexivity|]. split; [exists []; rewrite app_nil_r; split; [reflexivity|constructor]|].
      rewrite rev_length. lia. }
    apply bind_ok in H. destruct H as ([st1 a] & r1 & E1 & H). cbn [fst snd] in H.
    apply idm_dec_attr_inv in E1; [|exact Hok]. destruct E1 as (Hok1 & [ext1 Hext1] & Ha & Hsz1).
    apply IH in H; [|exact Hok1]. destruct H as (Hok' & [ext2 Hext2] & (l0 & -> & Hl0) & Hsz2).
    split; [exact Hok'|]. split; [exists (ext1 ++ ext2); rewrite Hext2, Hext1, app_assoc; reflexivity|].
    split.
    + exists (a :: l0). cbn [rev]. rewrite <- app_assoc. split; [reflexivity|]. constructor; [|exact Hl0].
      rewrite Hext2, app_length. lia.
    + cbn [length] in Hsz2. lia.
Qed.

Fixpoint idm_total (l : ranges attrs) : nat :=
  match l with [] => 0%nat | x :: r => (length (e_val x) + idm_total r)%nat end.

Lemma idm_dec_range_inv : forall fuel st bs st' x rest,
  idm_dec_range fuel st bs = Ok (st', x) rest -> idm_st_ok st ->
  idm_st_ok st' /\ (exists ext, fst st' = fst st ++ ext) /\
  e_end x < two32 /\ Forall (fun a => a < N.of_nat (length (fst st'))) (e_val x) /\
  (length (fst st') + length (e_val x) + 1 + length rest <= length (fst st) + length bs)%nat.
Proof.
  intros fuel st bs st' x rest H Hok. unfold idm_dec_range in H.
  apply bind_ok in H. destruct H as (clock & r1 & E1 & H). apply read_var_u32_shrinks in E1.
  apply bind_ok in H. destruct H as (len & r2 & E2 & H). apply read_var_u32_shrinks in E2.
  apply bind_ok in H. destruct H as (alen & r3 & E3 & H). apply read_var_u32_shrinks in E3.
  apply bind_ok in H. destruct H as ([st1 l] & r4 & E4 & H). cbn [fst snd] in H.
  apply idm_dec_attrs_inv in E4; [|exact Hok]. destruct E4 as (Hok1 & Hext1 & (l0 & -> & Hl0) & Hsz).
  unfold add32_checked in H. destruct (N.ltb_spec (clock + len) two32); [|discriminate].
  inversion H; subst st' x rest. unfold e_end, e_val. cbn [fst snd rev app length] in *.
  split; [exact Hok1|]. split; [exact Hext1|]. split; [assumption|]. split; [exact Hl0|]. lia.
Qed.

Definition idm_raw_ok (n : nat) (x : entry attrs) : Prop :=
  e_end x < two32 /\ Forall (fun a => a < N.of_nat n) (e_val x).

Lemma idm_raw_ok_mono : forall n n' x, (n <= n')%nat -> idm_raw_ok n x -> idm_raw_ok n' x.
Proof.
  intros n n' x Hn [H1 H2]. split; [exact H1|]. eapply Forall_impl; [|exact H2]. cbn beta. intros a Ha. lia.
Qed.

Lemma idm_dec_ranges_inv : forall fuel n st bs acc st' l rest,
  idm_dec_ranges fuel n st bs acc = Ok (st', l) rest -> idm_st_ok st ->
  idm_st_ok st' /\ (exists ext, fst st' = fst st ++ ext) /\
  (exists l0, l = rev acc ++ l0 /\ Forall (idm_raw_ok (length (fst st'))) l0 /\
     (length (fst st') + idm_total l0 + length rest <= length (fst st) + length bs)%nat).
Proof.
  induction fuel as [|f IH]; intros n st bs acc st' l rest H Hok; rewrite idm_dec_ranges_eq in H.
  - destruct (n =? 0); [|discriminate]. inversion H; subst. split; [exact Hok|].
    split; [exists []; rewrite app_nil_r; reflexivity|]. exists []. rewrite app_nil_r.
    split; [reflexivity|]. split; [constructor|]. cbn. lia.
  - destruct (n =? 0).
    { inversion H; subst. split; [exact Hok|].
      split; [exists []; rewrite app_nil_r; reflexivity|]. exists []. rewrite app_nil_r.
      split; [reflexivity|]. split; [constructor|]. cbn. lia. }
    apply bind_ok in H. destruct H as ([st1 x] & r1 & E1 & H). cbn [fst snd] in H.
    apply idm_dec_range_inv in E1; [|exact Hok]. destruct E1 as (Hok1 & [ext1 Hext1] & Hx1 & Hx2 & Hsz1).
    apply IH in H; [|exact Hok1]. destruct H as (Hok' & [ext2 Hext2] & (l0 & -> & Hl0 & Hsz2)).
    split; [exact Hok'|]. split; [exists (ext1 ++ ext2); rewrite Hext2, Hext1, app_assoc; reflexivity|].
    exists (x :: l0). cbn [rev]. rewrite <- app_assoc. split; [reflexivity|]. split.
    + constructor; [|exact Hl0]. apply (idm_raw_ok_mono (length (fst st1))); [rewrite Hext2, app_length; lia|].
      split; assumption.
    + cbn [idm_total]. unfold idm_dstate, idm_table, idm_attr, attrs in *. lia.
Qed.

(* attribute lists under Merge::merge *)
Lemma idm_attrs_merge_Forall : forall (R : N -> Prop) tbl b a, Forall R a -> Forall R b -> Forall R (idm_attrs_merge tbl a b).
Proof.
  intros R tbl. unfold idm_attrs_merge. induction b as [|x b IH]; intros a Ha Hb; cbn [fold_left]; [exact Ha|].
  apply Forall_cons_iff in Hb. destruct Hb as [Hx Hb]. apply IH; [|exact Hb].
  destruct (idm_mem tbl x a); [exact Ha|]. apply Forall_app. split; [exact Ha|]. constructor; [exact Hx|constructor].
Qed.

Lemma idm_attrs_merge_length : forall tbl b a, (length (idm_attrs_merge tbl a b) <= length a + length b)%nat.
Proof.
  intros tbl. unfold idm_attrs_merge. induction b as [|x b IH]; intros a; cbn [fold_left length]; [lia|].
  etransitivity; [apply IH|]. destruct (idm_mem tbl x a); [lia|]. rewrite app_length. cbn [length]. lia.
Qed.

(* the normalised list of one client *)
Definition idm_norm_ok (n B : nat) (rs : ranges attrs) : Prop :=
  (exists HI, idm_srt 0 HI rs /\ HI < two32) /\
  Forall (fun x => Forall (fun a => a < N.of_nat n) (e_val x)) rs /\
  Forall (fun x => (length (e_val x) <= B)%nat) rs.

Lemma idm_norm_fold_ok : forall tbl n raw acc B rs,
  idm_norm_ok n B acc -> Forall (idm_raw_ok n) raw ->
  fold_left (idm_norm_step tbl) raw (Some acc) = Some rs -> idm_norm_ok n (B + idm_total raw) rs.
Proof.
  intros tbl n. induction raw as [|x raw IH]; intros acc B rs Hacc Hraw H; cbn [fold_left] in H.
  - inversion H; subst. cbn [idm_total]. rewrite Nat.add_0_r. exact Hacc.
  - apply Forall_cons_iff in Hraw. destruct Hraw as [[Hx1 Hx2] Hraw]. cbn [idm_norm_step] in H.
    destruct (insert_with (idm_attrs_eq tbl) (idm_attrs_merge tbl) acc (e_start x) (e_end x) (e_val x)) as [acc1|] eqn:E.
    2:{ exfalso. revert H. clear. induction raw as [|y raw IH]; cbn [fold_left idm_norm_step]; [discriminate|exact IH]. }
    apply (IH acc1 (B + length (e_val x))%nat) in H; [|clear H IH|exact Hraw].
    + cbn [idm_total]. rewrite Nat.add_assoc. exact H.
    + destruct Hacc as ((HI & Hs & Hhi) & Hidx & Hlen). split; [|split].
      * exists (N.max HI (e_end x)). split; [|lia].
        pose proof (idm_insert_with_srt _ _ _ _ _ _ _ _ _ _ Hs E) as Hs'.
        replace (N.min 0 (e_start x)) with 0 in Hs' by lia. exact Hs'.
      * apply (idm_insert_with_vals _ (idm_attrs_eq tbl) (idm_attrs_merge tbl)
                 (fun v => Forall (fun a => a < N.of_nat n) v) (fun v => Forall (fun a => a < N.of_nat n) v)
                 (e_val x) (fun a Ha => Ha) Hx2
                 (fun a Ha => idm_attrs_merge_Forall _ tbl (e_val x) a Ha Hx2) acc (e_start x) (e_end x) acc1 Hidx E).
      * assert (H1 : forall a : attrs, (length a <= B)%nat -> (length a <= B + length (e_val x))%nat) by (intros; lia).
        assert (H2 : (length (e_val x) <= B + length (e_val x))%nat) by lia.
        assert (H3 : forall a : attrs, (length a <= B)%nat ->
                       (length (idm_attrs_merge tbl a (e_val x)) <= B + length (e_val x))%nat).
        { intros a Ha. pose proof (idm_attrs_merge_length tbl (e_val x) a). lia. }
        exact (idm_insert_with_vals _ (idm_attrs_eq tbl) (idm_attrs_merge tbl)
                 (fun v => (length v <= B)%nat) (fun v => (length v <= B + length (e_val x))%nat)
                 (e_val x) H1 H2 H3 acc (e_start x) (e_end x) acc1 Hlen E).
Qed.

Lemma idm_normalize_ok : forall tbl n raw rs, Forall (idm_raw_ok n) raw -> idm_normalize tbl raw = Some rs ->
  idm_norm_ok n (idm_total raw) rs.
Proof.
  intros tbl n raw rs Hraw H. apply (idm_norm_fold_ok tbl n raw [] 0%nat rs); [|exact Hraw|exact H].
  split; [exists 0; cbn [idm_srt]; split; [lia|reflexivity]|]. split; constructor.
Qed.

(* BTreeMap::insert on the model of the client map (generic versions of the id-set lemmas) *)
Lemma idm_asc_above_im_set : forall T (m : idmap T) lo c r,
  asc_above lo (map fst m) = true -> lo < c -> asc_above lo (map fst (im_set m c r)) = true.
Proof.
  intros T. induction m as [|[c' r'] m IH]; intros lo c r H Hlo; cbn [im_set map fst asc_above] in *.
  - rewrite andb_true_r. lia.
  - apply andb_prop in H. destruct H as [H1 H2].
    destruct (N.eqb_spec c' c) as [->|Hne]; cbn [map fst asc_above].
    + rewrite H2, andb_true_r. lia.
    + destruct (N.ltb_spec c c'); cbn [map fst asc_above].
      * rewrite H2, andb_true_r. lia.
      * rewrite IH by (try assumption; lia). rewrite andb_true_r. lia.
Qed.

Lemma idm_ascb_im_set : forall T (m : idmap T) c r, ascb (map fst m) = true -> ascb (map fst (im_set m c r)) = true.
Proof.
  intros T [|[c' r'] m] c r H; [reflexivity|]. cbn [im_set].
  cbn [map fst ascb] in H.
  destruct (N.eqb_spec c' c) as [->|Hne]; cbn [map fst ascb]; [exact H|].
  destruct (N.ltb_spec c c'); cbn [map fst ascb asc_above].
  - rewrite H, andb_true_r. lia.
  - apply idm_asc_above_im_set; [exact H|lia].
Qed.

Lemma idm_Forall_im_set : forall T (P : N * ranges T -> Prop) (m : idmap T) c r,
  Forall P m -> P (c, r) -> Forall P (im_set m c r).
Proof.
  intros T P. induction m as [|[c' r'] m IH]; intros c r Hm Hp; cbn [im_set]; [constructor; [exact Hp|constructor]|].
  apply Forall_cons_iff in Hm. destruct Hm as [Hm1 Hm2]. destruct (c' =? c); [constructor; assumption|].
  destruct (c <? c'); [constructor; [assumption|constructor; assumption]|]. constructor; [assumption|]. apply IH; assumption.
Qed.

Lemma idm_length_im_set_le : forall T (m : idmap T) c r, (length (im_set m c r) <= S (length m))%nat.
Proof.
  intros T. induction m as [|[c' r'] m IH]; intros c r; cbn [im_set length]; [lia|].
  destruct (c' =? c); cbn [length]; [lia|]. destruct (c <? c'); cbn [length]; [lia|]. specialize (IH c r). lia.
Qed.

Definition idm_client_ok (n M : nat) (cr : N * ranges attrs) : Prop :=
  fst cr < two53 /\ snd cr <> [] /\ idm_norm_ok n M (snd cr).
Definition idm_clients_ok (n M : nat) (cs : idm_clients) : Prop :=
  ascb (map fst cs) = true /\ Forall (idm_client_ok n M) cs.

Lemma idm_norm_ok_mono : forall n n' B B' rs, (n <= n')%nat -> (B <= B')%nat -> idm_norm_ok n B rs -> idm_norm_ok n' B' rs.
Proof.
  intros n n' B B' rs Hn HB (Hs & Hi & Hl). split; [exact Hs|]. split.
  - eapply Forall_impl; [|exact Hi]. cbn beta. intros x Hx. eapply Forall_impl; [|exact Hx]. cbn beta. intros a Ha. lia.
  - eapply Forall_impl; [|exact Hl]. cbn beta. intros x Hx. lia.
Qed.

Lemma idm_clients_ok_mono : forall n n' M cs, (n <= n')%nat -> idm_clients_ok n M cs -> idm_clients_ok n' M cs.
Proof.
  intros n n' M cs Hn [Ha Hf]. split; [exact Ha|]. eapply Forall_impl; [|exact Hf]. intros cr (H1 & H2 & H3).
  split; [exact H1|]. split; [exact H2|]. eapply idm_norm_ok_mono; [exact Hn| |exact H3]. lia.
Qed.

Lemma idm_dec_clients_inv : forall fuel n st last bs acc st' cs rest M,
  idm_dec_clients fuel n st last bs acc = Ok (st', cs) rest -> idm_st_ok st ->
  (length (fst st) + length bs <= M)%nat -> idm_clients_ok (length (fst st)) M acc ->
  idm_st_ok st' /\ idm_clients_ok (length (fst st')) M cs /\
  N.of_nat (length cs) <= N.of_nat (length acc) + n /\ (length (fst st') <= M)%nat.
Proof.
  induction fuel as [|f IH]; intros n st last bs acc st' cs rest M H Hok HM Hacc; rewrite idm_dec_clients_eq in H.
  - destruct (n =? 0); [|discriminate]. inversion H; subst. split; [exact Hok|]. split; [exact Hacc|]. lia.
  - destruct (N.eqb_spec n 0) as [Hn0|Hn0].
    { inversion H; subst. split; [exact Hok|]. split; [exact Hacc|]. lia. }
    apply bind_ok in H. destruct H as (diff & r1 & E1 & H). apply read_var_u64_shrinks in E1.
    destruct (idm_add64_checked last diff) as [client|]; [|discriminate].
    apply bind_ok in H. destruct H as (nr & r2 & E2 & H). apply read_var_u32_shrinks in E2.
    apply bind_ok in H. destruct H as ([st1 raw] & r3 & E3 & H). cbn [fst snd] in H.
    apply idm_dec_ranges_inv in E3; [|exact Hok]. destruct E3 as (Hok1 & [ext1 Hext1] & (l0 & Hraw & Hl0 & Hsz)).
    cbn [rev app] in Hraw. subst raw.
    apply bind_ok in H. destruct H as (c & r4 & Ec & H). apply client_id_new_ok in Ec. destruct Ec as (-> & -> & Hc).
    destruct (idm_normalize (fst st1) l0) as [rs|] eqn:En; [|discriminate].
    apply (idm_normalize_ok _ (length (fst st1))) in En; [|exact Hl0].
    assert (Hn1 : (length (fst st) <= length (fst st1))%nat) by (rewrite Hext1, app_length; lia).
    unfold idm_dstate, idm_table, idm_attr, attrs in *.
    apply (IH _ _ _ _ _ _ _ _ M) in H; [|exact Hok1|lia|].
    + destruct H as (Hok' & Hcs & Hcnt & HM'). split; [exact Hok'|]. split; [exact Hcs|]. split; [|exact HM'].
      destruct rs as [|x0 rs0]; [lia|].
      pose proof (idm_length_im_set_le _ acc client (x0 :: rs0)) as HH.
      unfold idm_clients, idmap, ranges, entry, attrs in *. lia.
    + apply (idm_clients_ok_mono _ _ _ _ Hn1) in Hacc. destruct rs as [|x0 rs0]; [exact Hacc|].
      destruct Hacc as [Ha Hf]. split; [apply idm_ascb_im_set; exact Ha|].
      apply idm_Forall_im_set; [exact Hf|]. split; [exact Hc|]. split; [discriminate|].
      eapply idm_norm_ok_mono; [apply Nat.le_refl| |exact En]. lia.
Qed.

(* ---- equality of attribute lists (same length, mutual inclusion by content) is an equivalence ---- *)
Lemma idm_bytes_eqb_refl : forall a, idm_bytes_eqb a a = true.
Proof. induction a as [|x a IH]; cbn [idm_bytes_eqb]; [reflexivity|]. rewrite IH, N.eqb_refl. reflexivity. Qed.
Lemma idm_bytes_eqb_sym : forall a b, idm_bytes_eqb a b = idm_bytes_eqb b a.
Proof.
  induction a as [|x a IH]; intros [|y b]; cbn [idm_bytes_eqb]; try reflexivity. rewrite IH, N.eqb_sym. reflexivity.
Qed.
Lemma idm_def_eqb_eq : forall p q, idm_def_eqb p q = true -> p = q.
Proof.
  intros [n1 v1] [n2 v2] H. unfold idm_def_eqb in H. cbn [fst snd] in H. apply andb_prop in H. destruct H as [Hn Hv].
  apply idm_bytes_eqb_eq in Hn. subst n2. destruct v1, v2; try discriminate Hv. cbn [idm_val_eqb] in Hv.
  apply idm_bytes_eqb_eq in Hv. subst. reflexivity.
Qed.
Lemma idm_def_eqb_sym : forall p q, idm_def_eqb p q = idm_def_eqb q p.
Proof.
  intros [n1 v1] [n2 v2]. unfold idm_def_eqb. cbn [fst snd]. rewrite idm_bytes_eqb_sym. f_equal.
  destruct v1, v2; try reflexivity. cbn [idm_val_eqb]. apply idm_bytes_eqb_sym.
Qed.
Lemma idm_attr_eqb_sym : forall tbl x y, idm_attr_eqb tbl x y = idm_attr_eqb tbl y x.
Proof.
  intros tbl x y. unfold idm_attr_eqb. destruct (idm_nth tbl x), (idm_nth tbl y); try apply N.eqb_sym. apply idm_def_eqb_sym.
Qed.
Lemma idm_attr_eqb_trans : forall tbl x y z,
  idm_attr_eqb tbl x y = true -> idm_attr_eqb tbl y z = true -> idm_attr_eqb tbl x z = true.
Proof.
  intros tbl x y z H1 H2. unfold idm_attr_eqb in *.
  destruct (idm_nth tbl x) as [p|] eqn:Ex, (idm_nth tbl y) as [q|] eqn:Ey, (idm_nth tbl z) as [r|] eqn:Ez;
    try (apply N.eqb_eq in H1; subst; congruence); try (apply N.eqb_eq in H2; subst; congruence).
  apply idm_def_eqb_eq in H2. subst r. exact H1.
Qed.
Lemma idm_attr_eqb_refl : forall tbl x, forallb idm_attr_wf tbl = true -> idm_attr_eqb tbl x x = true.
Proof.
  intros tbl x Hw. unfold idm_attr_eqb. destruct (idm_nth tbl x) as [[n v]|] eqn:Ex; [|apply N.eqb_refl].
  apply idm_nth_inv in Ex. destruct Ex as [_ Ex]. pose proof (idm_forallb_nth _ _ _ _ _ Hw Ex) as Hd.
  unfold idm_attr_wf in Hd. cbn [fst snd] in Hd. apply andb_prop in Hd. destruct Hd as [_ Hv].
  destruct v; try discriminate Hv. unfold idm_def_eqb. cbn [fst snd idm_val_eqb]. rewrite !idm_bytes_eqb_refl. reflexivity.
Qed.

Lemma idm_incl_trans : forall tbl a b c,
  forallb (fun x => idm_mem tbl x b) a = true -> forallb (fun x => idm_mem tbl x c) b = true ->
  forallb (fun x => idm_mem tbl x c) a = true.
Proof.
  intros tbl a b c H1 H2. rewrite forallb_forall in *. intros x Hx. specialize (H1 x Hx).
  unfold idm_mem in *. apply existsb_exists in H1. destruct H1 as (y & Hy & Hyx). specialize (H2 y Hy).
  apply existsb_exists in H2. destruct H2 as (z & Hz & Hzy). apply existsb_exists. exists z. split; [exact Hz|].
  eapply idm_attr_eqb_trans; eassumption.
Qed.

Lemma idm_attrs_eq_sym : forall tbl a b, idm_attrs_eq tbl a b = idm_attrs_eq tbl b a.
Proof.
  intros tbl a b. unfold idm_attrs_eq. rewrite (Nat.eqb_sym (length a)), <- !andb_assoc. f_equal. apply andb_comm.
Qed.
Lemma idm_attrs_eq_trans : forall tbl a b c,
  idm_attrs_eq tbl a b = true -> idm_attrs_eq tbl b c = true -> idm_attrs_eq tbl a c = true.
Proof.
  intros tbl a b c H1 H2. unfold idm_attrs_eq in *.
  apply andb_prop in H1. destruct H1 as [H1 H1c]. apply andb_prop in H1. destruct H1 as [H1a H1b].
  apply andb_prop in H2. destruct H2 as [H2 H2c]. apply andb_prop in H2. destruct H2 as [H2a H2b].
  rewrite (idm_incl_trans tbl a b c H1b H2b), (idm_incl_trans tbl c b a H2c H1c), !andb_true_r.
  apply Nat.eqb_eq in H1a, H2a. apply Nat.eqb_eq. congruence.
Qed.
Lemma idm_attrs_eq_refl : forall tbl a, forallb idm_attr_wf tbl = true -> idm_attrs_eq tbl a a = true.
Proof.
  intros tbl a Hw. unfold idm_attrs_eq. rewrite Nat.eqb_refl. cbn [andb].
  assert (H : forallb (fun x => idm_mem tbl x a) a = true).
  { apply forallb_forall. intros x Hx. unfold idm_mem. apply existsb_exists. exists x. split; [exact Hx|].
    apply idm_attr_eqb_refl. exact Hw. }
  rewrite H. reflexivity.
Qed.

Theorem idm_attrs_eq_equiv : forall tbl,
  (forallb idm_attr_wf tbl = true -> forall a, idm_attrs_eq tbl a a = true) /\
  (forall a b, idm_attrs_eq tbl a b = idm_attrs_eq tbl b a) /\
  (forall a b c, idm_attrs_eq tbl a b = true -> idm_attrs_eq tbl b c = true -> idm_attrs_eq tbl a c = true).
Proof.
  intro tbl. split; [intros Hw a; apply idm_attrs_eq_refl; exact Hw|]. split; [apply idm_attrs_eq_sym|apply idm_attrs_eq_trans].
Qed.

(* ---- so normalisation leaves no two touching ranges with equal attribute lists ---- *)
Lemma idm_srt_cl_chain : forall tbl (l : ranges attrs) prev lo hi, idm_srt lo hi l ->
  match prev with Some p => e_end p <= lo | None => True end ->
  idm_cl (idm_attrs_eq tbl) prev l -> idm_chain tbl prev l = true.
Proof.
  intros tbl. induction l as [|x l IH]; intros prev lo hi Hs Hp Hc; cbn [idm_chain]; [reflexivity|].
  cbn [idm_srt idm_cl] in Hs, Hc. destruct Hs as (H1 & H2 & H3). destruct Hc as [Hc1 Hc2].
  rewrite (IH (Some x) (e_end x) hi H3 (N.le_refl _) Hc2), andb_true_r.
  apply andb_true_intro. split; [lia|]. destruct prev as [p|]; [|reflexivity].
  unfold idm_touch in Hc1. rewrite Hc1. cbn [negb]. rewrite andb_true_r. lia.
Qed.

Lemma idm_norm_fold_cl : forall tbl raw acc rs,
  (exists HI, idm_srt 0 HI acc) -> idm_cl (idm_attrs_eq tbl) None acc ->
  fold_left (idm_norm_step tbl) raw (Some acc) = Some rs ->
  (exists HI, idm_srt 0 HI rs) /\ idm_cl (idm_attrs_eq tbl) None rs.
Proof.
  intros tbl. induction raw as [|x raw IH]; intros acc rs Hs Hc H; cbn [fold_left] in H.
  - inversion H; subst. split; assumption.
  - cbn [idm_norm_step] in H.
    destruct (insert_with (idm_attrs_eq tbl) (idm_attrs_merge tbl) acc (e_start x) (e_end x) (e_val x)) as [acc1|] eqn:E.
    2:{ exfalso. revert H. clear. induction raw as [|y raw IH]; cbn [fold_left idm_norm_step]; [discriminate|exact IH]. }
    destruct Hs as [HI Hs]. apply (IH acc1 rs); [| |exact H].
    + exists (N.max HI (e_end x)). pose proof (idm_insert_with_srt _ _ _ _ _ _ _ _ _ _ Hs E) as Hs'.
      replace (N.min 0 (e_start x)) with 0 in Hs' by lia. exact Hs'.
    + eapply (idm_insert_with_cl _ _ _ (idm_attrs_eq_sym tbl) (idm_attrs_eq_trans tbl)); [exact Hs|exact Hc|exact E].
Qed.

Lemma idm_normalize_chain_ok : forall tbl raw rs, idm_normalize tbl raw = Some rs -> idm_chain tbl None rs = true.
Proof.
  intros tbl raw rs H. destruct (idm_norm_fold_cl tbl raw [] rs) as [[HI Hs] Hc]; [exists 0; cbn; lia|exact I|exact H|].
  eapply idm_srt_cl_chain; [exact Hs|exact I|exact Hc].
Qed.

Definition idm_chain_ok (tbl : idm_table) (cr : N * ranges attrs) : Prop :=
  idm_chain tbl None (snd cr) = true /\
  Forall (fun x => Forall (fun a => a < N.of_nat (length tbl)) (e_val x)) (snd cr).

Lemma idm_chain_ok_ext : forall tbl ext cr, idm_chain_ok tbl cr -> idm_chain_ok (tbl ++ ext) cr.
Proof.
  intros tbl ext cr [Hc Hi]. split.
  - rewrite <- Hc. rewrite <- (firstn_len_app tbl ext) at 2. symmetry. apply idm_chain_firstn; [exact I|exact Hi].
  - eapply Forall_impl; [|exact Hi]. cbn beta. intros x Hx. eapply Forall_impl; [|exact Hx]. cbn beta. intros a Ha.
    rewrite app_length. lia.
Qed.

Lemma idm_dec_clients_chain : forall fuel n st last bs acc st' cs rest,
  idm_dec_clients fuel n st last bs acc = Ok (st', cs) rest -> idm_st_ok st ->
  Forall (idm_chain_ok (fst st)) acc -> Forall (idm_chain_ok (fst st')) cs.
Proof.
  induction fuel as [|f IH]; intros n st last bs acc st' cs rest H Hok Hacc; rewrite idm_dec_clients_eq in H.
  - destruct (n =? 0); [|discriminate]. inversion H; subst. exact Hacc.
  - destruct (n =? 0); [inversion H; subst; exact Hacc|].
    apply bind_ok in H. destruct H as (diff & r1 & _ & H).
    destruct (idm_add64_checked last diff) as [client|]; [|discriminate].
    apply bind_ok in H. destruct H as (nr & r2 & _ & H).
    apply bind_ok in H. destruct H as ([st1 raw] & r3 & E3 & H). cbn [fst snd] in H.
    apply idm_dec_ranges_inv in E3; [|exact Hok]. destruct E3 as (Hok1 & [ext1 Hext1] & (l0 & Hraw & Hl0 & _)).
    cbn [rev app] in Hraw. subst raw.
    apply bind_ok in H. destruct H as (c & r4 & Ec & H). apply client_id_new_ok in Ec. destruct Ec as (-> & -> & Hc).
    destruct (idm_normalize (fst st1) l0) as [rs|] eqn:En; [|discriminate].
    pose proof (idm_normalize_chain_ok _ _ _ En) as Hch.
    apply (idm_normalize_ok _ (length (fst st1))) in En; [|exact Hl0]. destruct En as (_ & Hidx & _).
    eapply IH; [exact H|exact Hok1|].
    assert (Hacc1 : Forall (idm_chain_ok (fst st1)) acc).
    { rewrite Hext1. eapply Forall_impl; [|exact Hacc]. intros cr. apply idm_chain_ok_ext. }
    destruct rs as [|x0 rs0]; [exact Hacc1|]. apply idm_Forall_im_set; [exact Hacc1|]. split; [exact Hch|exact Hidx].
Qed.

(* every decoded map is coalesced: no two touching ranges compare equal *)
Theorem idm_decoded_chain : forall fuel bs v rest,
  idm_decode_v1 fuel bs = Ok v rest -> forallb (fun cr => idm_chain (fst v) None (snd cr)) (snd v) = true.
Proof.
  intros fuel bs v rest H. unfold idm_decode_v1 in H.
  apply bind_ok in H. destruct H as (n & r1 & _ & H).
  apply bind_ok in H. destruct H as ([st' cs] & r2 & E2 & H). inversion H; subst v rest. cbn [fst snd].
  apply idm_dec_clients_chain in E2; [|split; constructor|constructor]. cbn [fst] in E2.
  apply forallb_forall. rewrite Forall_forall in E2. intros cr Hin. apply (E2 cr Hin).
Qed.

(* what holds for every decoded value; M is the length of the input *)
Definition idm_decoded_inv (M : nat) (v : idm_value) : Prop :=
  Forall (fun d => idm_attr_wf d = true) (fst v) /\ (length (fst v) <= M)%nat /\
  idm_clients_ok (length (fst v)) M (snd v) /\ N.of_nat (length (snd v)) < two32.

Theorem idm_decoded_inv_holds : forall fuel bs v rest,
  idm_decode_v1 fuel bs = Ok v rest -> idm_decoded_inv (length bs) v.
Proof.
  intros fuel bs v rest H. unfold idm_decode_v1 in H.
  apply bind_ok in H. destruct H as (n & r1 & E1 & H). pose proof (read_var_u32_range _ _ _ E1) as Hn.
  apply read_var_u32_shrinks in E1.
  apply bind_ok in H. destruct H as ([st' cs] & r2 & E2 & H). inversion H; subst v rest. cbn [fst snd].
  apply (idm_dec_clients_inv _ _ _ _ _ _ _ _ _ (length bs)) in E2.
  - destruct E2 as ([Ht _] & Hcs & Hcnt & HM). cbn [length] in Hcnt. unfold idm_decoded_inv. cbn [fst snd].
    split; [exact Ht|]. split; [exact HM|].
    split; [exact Hcs|]. cbn [fst snd]. lia.
  - split; constructor.
  - cbn [fst length]. lia.
  - split; [reflexivity|constructor].
Qed.

(* the structural part of idm_enc_wf, and the two length bounds that depend on the size of the input *)
Definition idm_struct_wf (v : idm_value) : bool :=
  forallb idm_attr_wf (fst v) && (N.of_nat (length (snd v)) <? two32)
  && forallb (fun cr =>
       (fst cr <? two53) && (N.of_nat (length (snd cr)) <? two32) && nonempty (snd cr)
       && forallb (fun x => (e_start x <? e_end x) && (e_end x <? two32)
                            && forallb (fun a => a <? N.of_nat (length (fst v))) (e_val x)) (snd cr)
       && idm_sorted 0 (snd cr)) (snd v)
  && ascb (map fst (snd v)).
Definition idm_sizes_wf (v : idm_value) : bool :=
  (N.of_nat (length (fst v)) <? two32)
  && forallb (fun cr => forallb (fun x => N.of_nat (length (e_val x)) <? two32) (snd cr)) (snd v).

Lemma idm_enc_wf_intro : forall v, idm_struct_wf v = true -> idm_sizes_wf v = true -> idm_enc_wf v = true.
Proof.
  intros [tbl cs] Hs Hz. unfold idm_enc_wf, idm_struct_wf, idm_sizes_wf in *. cbn [fst snd] in *.
  apply andb_prop in Hs. destruct Hs as [Hs Hasc]. apply andb_prop in Hs. destruct Hs as [Hs Hcs].
  apply andb_prop in Hs. destruct Hs as [Htw Hcl]. apply andb_prop in Hz. destruct Hz as [Htl Hzs].
  rewrite Htl, Htw, Hcl, Hasc, andb_true_r. cbn [andb].
  apply forallb_forall. intros cr Hin. rewrite forallb_forall in Hcs, Hzs. specialize (Hcs cr Hin). specialize (Hzs cr Hin).
  apply andb_prop in Hcs. destruct Hcs as [Hcs Hso]. apply andb_prop in Hcs. destruct Hcs as [Hcs Hen].
  apply andb_prop in Hcs. destruct Hcs as [Hcs Hne]. apply andb_prop in Hcs. destruct Hcs as [Hc Hln].
  cbn beta. unfold idm_ranges_ewf. apply andb_true_intro. split; [exact Hc|].
  apply andb_true_intro. split; [|exact Hso]. apply andb_true_intro. split; [apply andb_true_intro; split; [exact Hln|exact Hne]|].
  apply forallb_forall. intros x Hx. rewrite forallb_forall in Hen, Hzs. specialize (Hen x Hx). specialize (Hzs x Hx).
  apply andb_prop in Hen. destruct Hen as [Hen Hidx]. cbn beta. unfold idm_entry_wf.
  apply andb_true_intro. split; [|exact Hidx]. apply andb_true_intro. split; [exact Hen|exact Hzs].
Qed.

Lemma idm_srt_sorted : forall (l : ranges attrs) lo hi, idm_srt lo hi l -> idm_sorted lo l = true.
Proof.
  induction l as [|x l IH]; intros lo hi H; cbn [idm_srt idm_sorted] in *; [reflexivity|].
  destruct H as (H1 & H2 & H3). rewrite (IH _ _ H3). lia.
Qed.

Lemma idm_srt_entries : forall T (l : ranges T) lo hi, idm_srt lo hi l ->
  Forall (fun x => e_start x < e_end x /\ e_end x <= hi) l.
Proof.
  intros T. induction l as [|x l IH]; intros lo hi H; cbn [idm_srt] in *; [constructor|].
  destruct H as (H1 & H2 & H3). constructor; [|eapply IH; exact H3]. apply idm_srt_le in H3. lia.
Qed.

Lemma idm_inv_struct_wf : forall M v, idm_decoded_inv M v -> idm_struct_wf v = true.
Proof.
  intros M [tbl cs] (Ht & _ & [Hasc Hcs] & Hcnt). cbn [fst snd] in *. unfold idm_struct_wf. cbn [fst snd].
  rewrite Hasc, andb_true_r. apply andb_true_intro. split.
  - apply andb_true_intro. split; [|lia]. apply forallb_forall. rewrite Forall_forall in Ht. exact Ht.
  - apply forallb_forall. rewrite Forall_forall in Hcs. intros cr Hin. specialize (Hcs cr Hin).
    destruct cr as [c rs]. destruct Hcs as (Hc & Hne & ((HI & Hs & Hhi) & Hidx & _)). cbn [fst snd] in *.
    pose proof (idm_srt_length _ _ _ _ Hs) as Hlen. pose proof (idm_srt_entries _ _ _ _ Hs) as Hent.
    apply andb_true_intro. split; [|exact (idm_srt_sorted _ _ _ Hs)]. apply andb_true_intro. split.
    + destruct rs; [exfalso; apply Hne; reflexivity|]. cbn [nonempty]. cbn [length] in *.
      unfold idm_clients, idmap, ranges, entry, attrs in *. lia.
    + apply forallb_forall. intros x Hx. rewrite Forall_forall in Hent, Hidx.
      specialize (Hent x Hx). specialize (Hidx x Hx). unfold idm_clients, idmap, ranges, entry, attrs in *.
      apply andb_true_intro. split; [lia|].
      apply forallb_forall. intros a Ha. rewrite Forall_forall in Hidx. specialize (Hidx a Ha). lia.
Qed.

Lemma idm_inv_sizes_wf : forall M v, idm_decoded_inv M v -> N.of_nat M < two32 -> idm_sizes_wf v = true.
Proof.
  intros M [tbl cs] (_ & Htl & [_ Hcs] & _) HM. cbn [fst snd] in *. unfold idm_sizes_wf. cbn [fst snd].
  apply andb_true_intro. split; [lia|].
  apply forallb_forall. rewrite Forall_forall in Hcs. intros cr Hin. specialize (Hcs cr Hin).
  destruct Hcs as (_ & _ & (_ & _ & Hl)). apply forallb_forall. intros x Hx. rewrite Forall_forall in Hl.
  specialize (Hl x Hx). lia.
Qed.

(* 3. a decoded value has everything the encoder needs (unconditionally: the structure; for inputs shorter
   than 4 GiB: the two lengths the encoder casts to u32 as well) *)
Theorem idm_decoded_struct_wf : forall fuel bs v rest,
  idm_decode_v1 fuel bs = Ok v rest -> idm_struct_wf v = true.
Proof. intros fuel bs v rest H. eapply idm_inv_struct_wf, idm_decoded_inv_holds, H. Qed.

Theorem idm_decoded_wf : forall fuel bs v rest,
  idm_decode_v1 fuel bs = Ok v rest -> N.of_nat (length bs) < two32 -> idm_enc_wf v = true.
Proof.
  intros fuel bs v rest H Hl. pose proof (idm_decoded_inv_holds _ _ _ _ H) as Hinv.
  apply idm_enc_wf_intro; [exact (idm_inv_struct_wf _ _ Hinv)|exact (idm_inv_sizes_wf _ _ Hinv Hl)].
Qed.

(* ------------------------------------------------------------------------------------------------ *)
(* 1'. round trip for values that are not numbered in order of first use: the decoder returns the   *)
(*     normal form idm_canon v, which has the same content                                          *)
(* ------------------------------------------------------------------------------------------------ *)

Lemma idm_find_none : forall A (p : A -> bool) l k, idm_find p l k = None -> Forall (fun x => p x = false) l.
Proof.
  intros A p. induction l as [|x l IH]; intros k H; cbn [idm_find] in H; [constructor|].
  destruct (p x) eqn:E; [discriminate|]. constructor; [exact E|]. eapply IH. exact H.
Qed.

Lemma idm_nth_app1 : forall A (l ext : list A) i x, idm_nth l i = Some x -> idm_nth (l ++ ext) i = Some x.
Proof.
  intros A l ext i x H. apply idm_nth_inv in H. destruct H as [Hi Hn]. apply idm_nth_some.
  rewrite nth_error_app1 by lia. exact Hn.
Qed.

Lemma idm_nth_map : forall A B (f : A -> B) l i, idm_nth (map f l) i = option_map f (idm_nth l i).
Proof.
  intros A B f l i. unfold idm_nth. rewrite map_length. destruct (i <? N.of_nat (length l)); [|reflexivity].
  apply nth_error_map.
Qed.

Definition idm_lk (tbl : idm_table) (a : N) : idm_attr :=
  match idm_nth tbl a with Some d => d | None => ([], AUndefined) end.

Lemma idm_sel_eq : forall tbl vis, idm_sel tbl vis = map (idm_lk tbl) vis.
Proof. reflexivity. Qed.

(* a < length tbl and i is the number of a *)
Definition idm_prel (tbl : idm_table) (vis : list N) (a i : N) : Prop :=
  idm_nth vis i = Some a /\ a < N.of_nat (length tbl).

Lemma idm_prel_ext : forall tbl vis ext a i, idm_prel tbl vis a i -> idm_prel tbl (vis ++ ext) a i.
Proof. intros tbl vis ext a i [H1 H2]. split; [apply idm_nth_app1; exact H1|exact H2]. Qed.

Lemma idm_prel_lk : forall tbl vis a i, idm_prel tbl vis a i -> idm_nth (idm_sel tbl vis) i = idm_nth tbl a.
Proof.
  intros tbl vis a i [H1 H2]. rewrite idm_sel_eq, idm_nth_map, H1. cbn [option_map]. unfold idm_lk.
  destruct (idm_nth_lt _ tbl a H2) as [d ->]. reflexivity.
Qed.

Definition idm_erel (tbl : idm_table) (vis : list N) (x x' : entry attrs) : Prop :=
  e_start x = e_start x' /\ e_end x = e_end x' /\ Forall2 (idm_prel tbl vis) (e_val x) (e_val x').
Definition idm_crel (tbl : idm_table) (vis : list N) (cr cr' : N * ranges attrs) : Prop :=
  fst cr = fst cr' /\ Forall2 (idm_erel tbl vis) (snd cr) (snd cr').

Lemma idm_Forall2_impl : forall A B (R R' : A -> B -> Prop), (forall a b, R a b -> R' a b) ->
  forall l l', Forall2 R l l' -> Forall2 R' l l'.
Proof. intros A B R R' HR l l' H. induction H; constructor; auto. Qed.

Lemma idm_Forall2_length : forall A B (R : A -> B -> Prop) l l', Forall2 R l l' -> length l = length l'.
Proof. intros A B R l l' H. induction H; cbn [length]; congruence. Qed.

Lemma idm_arel_ext : forall tbl vis ext l l', Forall2 (idm_prel tbl vis) l l' -> Forall2 (idm_prel tbl (vis ++ ext)) l l'.
Proof. intros tbl vis ext l l' H. eapply idm_Forall2_impl; [|exact H]. intros a i. apply idm_prel_ext. Qed.
Lemma idm_rrel_ext : forall tbl vis ext l l', Forall2 (idm_erel tbl vis) l l' -> Forall2 (idm_erel tbl (vis ++ ext)) l l'.
Proof.
  intros tbl vis ext l l' H. eapply idm_Forall2_impl; [|exact H]. intros x x' (H1 & H2 & H3).
  split; [exact H1|]. split; [exact H2|]. apply idm_arel_ext. exact H3.
Qed.
Lemma idm_crel_ext : forall tbl vis ext l l', Forall2 (idm_crel tbl vis) l l' -> Forall2 (idm_crel tbl (vis ++ ext)) l l'.
Proof.
  intros tbl vis ext l l' H. eapply idm_Forall2_impl; [|exact H]. intros x x' (H1 & H2).
  split; [exact H1|]. apply idm_rrel_ext. exact H2.
Qed.

Lemma idm_rn_attr_rel : forall tbl vis a vis' i, a < N.of_nat (length tbl) -> idm_rn_attr vis a = (vis', i) ->
  (exists ext, vis' = vis ++ ext) /\ idm_prel tbl vis' a i.
Proof.
  intros tbl vis a vis' i Ha H. unfold idm_rn_attr in H. destruct (idm_find (N.eqb a) vis 0) as [j|] eqn:Ef.
  - inversion H; subst vis' i. split; [exists []; rewrite app_nil_r; reflexivity|]. split; [|exact Ha].
    apply idm_find_spec in Ef. destruct Ef as (_ & _ & x & Hx & Heq). apply N.eqb_eq in Heq. subst x.
    replace (j - 0) with j in Hx by lia. apply idm_nth_some. exact Hx.
  - inversion H; subst vis' i. split; [eexists; reflexivity|]. split; [|exact Ha].
    apply idm_nth_some. rewrite Nat2N.id, nth_error_app2 by lia. rewrite Nat.sub_diag. reflexivity.
Qed.

Lemma idm_rn_attrs_rel : forall tbl l vis vis' l', Forall (fun a => a < N.of_nat (length tbl)) l ->
  idm_rn_attrs vis l = (vis', l') -> (exists ext, vis' = vis ++ ext) /\ Forall2 (idm_prel tbl vis') l l'.
Proof.
  intros tbl. induction l as [|a l IH]; intros vis vis' l' Hl H; cbn [idm_rn_attrs] in H.
  - inversion H; subst. split; [exists []; rewrite app_nil_r; reflexivity|constructor].
  - apply Forall_cons_iff in Hl. destruct Hl as [Ha Hl].
    destruct (idm_rn_attr vis a) as [vis1 i] eqn:E1. destruct (idm_rn_attrs vis1 l) as [vis2 r'] eqn:E2.
    inversion H; subst vis' l'. apply (idm_rn_attr_rel tbl) in E1; [|exact Ha]. destruct E1 as [[ext1 ->] Hp].
    apply IH in E2; [|exact Hl]. destruct E2 as [[ext2 ->] Hr].
    split; [exists (ext1 ++ ext2); rewrite app_assoc; reflexivity|]. constructor; [apply idm_prel_ext; exact Hp|exact Hr].
Qed.

Definition idm_idx_ok (tbl : idm_table) (x : entry attrs) : Prop := Forall (fun a => a < N.of_nat (length tbl)) (e_val x).

Lemma idm_rn_ranges_rel : forall tbl l vis vis' l', Forall (idm_idx_ok tbl) l ->
  idm_rn_ranges vis l = (vis', l') -> (exists ext, vis' = vis ++ ext) /\ Forall2 (idm_erel tbl vis') l l'.
Proof.
  intros tbl. induction l as [|x l IH]; intros vis vis' l' Hl H; cbn [idm_rn_ranges] in H.
  - inversion H; subst. split; [exists []; rewrite app_nil_r; reflexivity|constructor].
  - apply Forall_cons_iff in Hl. destruct Hl as [Hx Hl].
    destruct (idm_rn_attrs vis (e_val x)) as [vis1 v'] eqn:E1. destruct (idm_rn_ranges vis1 l) as [vis2 r'] eqn:E2.
    inversion H; subst vis' l'. apply (idm_rn_attrs_rel tbl) in E1; [|exact Hx]. destruct E1 as [[ext1 ->] Hp].
    apply IH in E2; [|exact Hl]. destruct E2 as [[ext2 ->] Hr].
    split; [exists (ext1 ++ ext2); rewrite app_assoc; reflexivity|]. constructor; [|exact Hr].
    split; [reflexivity|]. split; [reflexivity|]. unfold e_val at 2. cbn [snd]. apply idm_arel_ext. exact Hp.
Qed.

Lemma idm_rn_clients_rel : forall tbl l vis vis' l', Forall (fun cr => Forall (idm_idx_ok tbl) (snd cr)) l ->
  idm_rn_clients vis l = (vis', l') -> (exists ext, vis' = vis ++ ext) /\ Forall2 (idm_crel tbl vis') l l'.
Proof.
  intros tbl. induction l as [|[c rs] l IH]; intros vis vis' l' Hl H; cbn [idm_rn_clients] in H.
  - inversion H; subst. split; [exists []; rewrite app_nil_r; reflexivity|constructor].
  - apply Forall_cons_iff in Hl. destruct Hl as [Hx Hl]. cbn [snd] in Hx.
    destruct (idm_rn_ranges vis rs) as [vis1 rs'] eqn:E1. destruct (idm_rn_clients vis1 l) as [vis2 r'] eqn:E2.
    inversion H; subst vis' l'. apply (idm_rn_ranges_rel tbl) in E1; [|exact Hx]. destruct E1 as [[ext1 ->] Hp].
    apply IH in E2; [|exact Hl]. destruct E2 as [[ext2 ->] Hr].
    split; [exists (ext1 ++ ext2); rewrite app_assoc; reflexivity|]. constructor; [|exact Hr].
    split; [reflexivity|]. cbn [snd]. apply idm_rrel_ext. exact Hp.
Qed.

(* the comparison of attribute lists only depends on the content *)
Lemma idm_attr_eqb_rel : forall tbl vis a i b j, idm_prel tbl vis a i -> idm_prel tbl vis b j ->
  idm_attr_eqb (idm_sel tbl vis) i j = idm_attr_eqb tbl a b.
Proof.
  intros tbl vis a i b j Ha Hb. unfold idm_attr_eqb. rewrite (idm_prel_lk _ _ _ _ Ha), (idm_prel_lk _ _ _ _ Hb).
  destruct Ha as [Ha1 Ha2], Hb as [Hb1 Hb2].
  destruct (idm_nth_lt _ tbl a Ha2) as [d1 ->]. destruct (idm_nth_lt _ tbl b Hb2) as [d2 ->]. reflexivity.
Qed.

Lemma idm_mem_rel : forall tbl vis a i l l', idm_prel tbl vis a i -> Forall2 (idm_prel tbl vis) l l' ->
  idm_mem (idm_sel tbl vis) i l' = idm_mem tbl a l.
Proof.
  intros tbl vis a i l l' Ha H. unfold idm_mem. induction H as [|b j l l' Hb H IH]; cbn [existsb]; [reflexivity|].
  rewrite IH, (idm_attr_eqb_rel tbl vis b j a i Hb Ha). reflexivity.
Qed.

Lemma idm_incl_rel : forall tbl vis a a' b b', Forall2 (idm_prel tbl vis) a a' -> Forall2 (idm_prel tbl vis) b b' ->
  forallb (fun x => idm_mem (idm_sel tbl vis) x b') a' = forallb (fun x => idm_mem tbl x b) a.
Proof.
  intros tbl vis a a' b b' Ha Hb. induction Ha as [|x i a a' Hx Ha IH]; cbn [forallb]; [reflexivity|].
  rewrite IH, (idm_mem_rel tbl vis x i b b' Hx Hb). reflexivity.
Qed.

Lemma idm_attrs_eq_rel : forall tbl vis a a' b b', Forall2 (idm_prel tbl vis) a a' -> Forall2 (idm_prel tbl vis) b b' ->
  idm_attrs_eq (idm_sel tbl vis) a' b' = idm_attrs_eq tbl a b.
Proof.
  intros tbl vis a a' b b' Ha Hb. unfold idm_attrs_eq.
  rewrite (idm_incl_rel tbl vis a a' b b' Ha Hb), (idm_incl_rel tbl vis b b' a a' Hb Ha).
  rewrite (idm_Forall2_length _ _ _ _ _ Ha), (idm_Forall2_length _ _ _ _ _ Hb). reflexivity.
Qed.

Lemma idm_chain_rel : forall tbl vis l l', Forall2 (idm_erel tbl vis) l l' -> forall prev prev',
  match prev, prev' with Some p, Some p' => idm_erel tbl vis p p' | None, None => True | _, _ => False end ->
  idm_chain (idm_sel tbl vis) prev' l' = idm_chain tbl prev l.
Proof.
  intros tbl vis l l' H. induction H as [|x x' l l' Hx H IH]; intros prev prev' Hp; cbn [idm_chain]; [reflexivity|].
  rewrite (IH (Some x) (Some x') Hx). destruct Hx as (Hx1 & Hx2 & Hx3).
  destruct x as [[sx ex] vx], x' as [[sx' ex'] vx']. unfold e_start, e_end, e_val in *. cbn [fst snd] in *. subst sx' ex'.
  destruct prev as [[[sp ep] vp]|], prev' as [[[sp' ep'] vp']|]; try contradiction; [|reflexivity].
  destruct Hp as (Hp1 & Hp2 & Hp3). unfold e_start, e_end, e_val in *. cbn [fst snd] in *. subst sp' ep'.
  rewrite (idm_attrs_eq_rel tbl vis _ _ _ _ Hp3 Hx3). reflexivity.
Qed.

Lemma idm_resolve_rel : forall tbl vis cs cs', Forall2 (idm_crel tbl vis) cs cs' ->
  idm_resolve (idm_sel tbl vis, cs') = idm_resolve (tbl, cs).
Proof.
  intros tbl vis cs cs' H. unfold idm_resolve. cbn [fst snd].
  induction H as [|[c rs] [c' rs'] cs cs' [Hc Hr] H IH]; cbn [map]; [reflexivity|]. rewrite IH. cbn [fst snd] in *. subst c'.
  f_equal. f_equal. clear -Hr. induction Hr as [|x x' rs rs' (H1 & H2 & H3) Hr IH]; cbn [map]; [reflexivity|].
  rewrite IH. destruct x as [[sx ex] vx], x' as [[sx' ex'] vx']. unfold e_start, e_end, e_val in *. cbn [fst snd] in *.
  subst sx' ex'. f_equal. f_equal.
  clear -H3. induction H3 as [|a i l l' Ha H3 IH]; cbn [map]; [reflexivity|]. rewrite IH, (idm_prel_lk _ _ _ _ Ha). reflexivity.
Qed.

Section RoundTripGen.
Variable tbl : idm_table.
Hypothesis Htl : N.of_nat (length tbl) < two32.
Hypothesis Htw : forallb idm_attr_wf tbl = true.

Definition idm_vis_ok (vis : list N) : Prop := NoDup vis /\ Forall (fun a => a < N.of_nat (length tbl)) vis.

Lemma idm_vis_len : forall vis, idm_vis_ok vis -> (length vis <= length tbl)%nat.
Proof.
  intros vis [Hnd Hin]. rewrite <- (idm_iota_length (length tbl)). apply NoDup_incl_length; [exact Hnd|].
  intros x Hx. rewrite Forall_forall in Hin. specialize (Hin x Hx). unfold idm_iota.
  replace x with (N.of_nat (N.to_nat x)) by lia. apply in_map. apply in_seq. lia.
Qed.

Lemma idm_sel_length : forall vis, length (idm_sel tbl vis) = length vis.
Proof. intro vis. unfold idm_sel. apply map_length. Qed.

Lemma idm_attr_rtg : forall a vis names st' o,
  a < N.of_nat (length tbl) -> idm_vis_ok vis -> (length names <= length vis)%nat ->
  idm_enc_attr tbl (vis, names) a = (st', o) ->
  exists names', st' = (fst (idm_rn_attr vis a), names') /\ idm_vis_ok (fst (idm_rn_attr vis a)) /\
    (length names' <= length (fst (idm_rn_attr vis a)))%nat /\ (1 <= length o)%nat /\
    forall f rest, idm_dec_attr (S f) (idm_sel tbl vis, names) (o ++ rest)
                   = Ok ((idm_sel tbl (fst (idm_rn_attr vis a)), names'), snd (idm_rn_attr vis a)) rest.
Proof.
  intros a vis names st' o Ha Hvis Hnm Henc. pose proof (idm_vis_len vis Hvis) as Hvl.
  unfold idm_enc_attr in Henc. unfold idm_rn_attr.
  destruct (idm_find (N.eqb a) vis 0) as [i|] eqn:Ef.
  - (* already written *)
    apply idm_find_spec in Ef. destruct Ef as (_ & Hi & _). replace (i - 0) with i in Hi by lia.
    inversion Henc; subst st' o. exists names. cbn [fst snd].
    split; [reflexivity|]. split; [exact Hvis|]. split; [exact Hnm|]. split; [apply write_var_u32_length|].
    intros f rest. unfold idm_dec_attr, read_var_usize.
    rewrite idm_u32_small by lia. rewrite var_u64_of_u32_roundtrip by lia. cbn [bind].
    rewrite idm_sel_length. replace (N.of_nat (length vis) <=? i) with false by lia. cbn [bind fst].
    destruct (idm_nth_lt _ (idm_sel tbl vis) i) as [x ->]; [rewrite idm_sel_length; lia|]. reflexivity.
  - (* first use *)
    apply idm_find_none in Ef. cbn [fst snd].
    assert (Hvis' : idm_vis_ok (vis ++ [a])).
    { destruct Hvis as [Hnd Hin]. split.
      - apply (NoDup_Add (a := a) (l := vis)); [rewrite <- (app_nil_r vis) at 1; apply Add_app|].
        split; [exact Hnd|]. intro Hina. rewrite Forall_forall in Ef. specialize (Ef a Hina). rewrite N.eqb_refl in Ef. discriminate.
      - apply Forall_app. split; [exact Hin|]. constructor; [exact Ha|constructor]. }
    pose proof (idm_vis_len _ Hvis') as Hvl'. rewrite app_length in Hvl'. cbn [length] in Hvl'.
    destruct (idm_nth_lt _ tbl a Ha) as [[name value] Hnth]. rewrite Hnth in Henc.
    pose proof Hnth as Hnth'. apply idm_nth_inv in Hnth'. destruct Hnth' as [_ En].
    pose proof (idm_forallb_nth _ _ _ _ _ Htw En) as Hd. unfold idm_attr_wf in Hd. cbn [fst snd] in Hd.
    apply andb_prop in Hd. destruct Hd as [Hname Hval]. destruct value as [| | | | | | |s| | |]; try discriminate Hval.
    assert (Hval' : forall f rest, decode_any (S f) (idm_enc_value (AString s) ++ rest) = Ok (AString s) rest).
    { intros f rest. apply any_roundtrip; [reflexivity|exact Hval|reflexivity]. }
    assert (Hfn : idm_sel tbl vis ++ [(name, AString s)] = idm_sel tbl (vis ++ [a])).
    { unfold idm_sel. rewrite map_app. cbn [map]. rewrite Hnth. reflexivity. }
    assert (Hlast : forall names' : list (list N), idm_nth (fst (idm_sel tbl (vis ++ [a]), names')) (N.of_nat (length vis)) <> None).
    { intros names'. cbn [fst]. destruct (idm_nth_lt _ (idm_sel tbl (vis ++ [a])) (N.of_nat (length vis))) as [x ->]; [|discriminate].
      rewrite idm_sel_length, app_length. cbn [length]. lia. }
    destruct (idm_find (idm_bytes_eqb name) names 0) as [i|] eqn:Efn.
    + apply idm_find_spec in Efn. destruct Efn as (_ & Hi & x & Hx & Heq). replace (i - 0) with i in * by lia.
      apply idm_bytes_eqb_eq in Heq. subst x.
      inversion Henc; subst st' o. exists names.
      split; [reflexivity|]. split; [exact Hvis'|]. split; [rewrite app_length; cbn [length]; lia|].
      split; [rewrite app_length; pose proof (write_var_u32_length (idm_u32 (N.of_nat (length vis)))); lia|].
      intros f rest. unfold idm_dec_attr, read_var_usize. rewrite <- !app_assoc.
      rewrite !idm_u32_small by lia. rewrite var_u64_of_u32_roundtrip by lia. cbn [bind].
      rewrite idm_sel_length. replace (N.of_nat (length vis) <=? N.of_nat (length vis)) with true by lia.
      rewrite var_u64_of_u32_roundtrip by lia. cbn [bind].
      replace (N.of_nat (length names) <=? i) with false by lia. cbn [bind].
      rewrite Hval'. cbn [bind idm_from_any].
      rewrite (idm_nth_some _ names i name Hx). rewrite Hfn. cbn [bind].
      match goal with |- match ?X with _ => _ end = _ => destruct X eqn:EX end; [reflexivity|exfalso; exact (Hlast _ EX)].
    + inversion Henc; subst st' o. exists (names ++ [name]).
      split; [reflexivity|]. split; [exact Hvis'|]. split; [rewrite !app_length; cbn [length]; lia|].
      split; [rewrite app_length; pose proof (write_var_u32_length (idm_u32 (N.of_nat (length vis)))); lia|].
      intros f rest. unfold idm_dec_attr, read_var_usize. rewrite <- !app_assoc.
      rewrite !idm_u32_small by lia. rewrite var_u64_of_u32_roundtrip by lia. cbn [bind].
      rewrite idm_sel_length. replace (N.of_nat (length vis) <=? N.of_nat (length vis)) with true by lia.
      rewrite var_u64_of_u32_roundtrip by lia. cbn [bind].
      replace (N.of_nat (length names) <=? N.of_nat (length names)) with true by lia.
      rewrite str_roundtrip by exact Hname. cbn [bind].
      rewrite Hval'. cbn [bind idm_from_any].
      rewrite (idm_nth_some _ (names ++ [name]) (N.of_nat (length names)) name).
      2:{ rewrite Nat2N.id. rewrite nth_error_app2 by lia. rewrite Nat.sub_diag. reflexivity. }
      rewrite Hfn. cbn [bind].
      match goal with |- match ?X with _ => _ end = _ => destruct X eqn:EX end; [reflexivity|exfalso; exact (Hlast _ EX)].
Qed.

Lemma idm_attrs_rtg : forall l vis names st' o,
  Forall (fun a => a < N.of_nat (length tbl)) l -> idm_vis_ok vis -> (length names <= length vis)%nat ->
  idm_enc_attrs tbl (vis, names) l = (st', o) ->
  exists names', st' = (fst (idm_rn_attrs vis l), names') /\ idm_vis_ok (fst (idm_rn_attrs vis l)) /\
    (length names' <= length (fst (idm_rn_attrs vis l)))%nat /\ (length l <= length o)%nat /\
    forall f rest acc, (length o <= f)%nat ->
      idm_dec_attrs f (N.of_nat (length l)) (idm_sel tbl vis, names) (o ++ rest) acc
      = Ok ((idm_sel tbl (fst (idm_rn_attrs vis l)), names'), rev acc ++ snd (idm_rn_attrs vis l)) rest.
Proof.
  induction l as [|a l IH]; intros vis names st' o Hl Hvis Hnm Henc.
  - cbn [idm_rn_attrs idm_enc_attrs fst snd] in *. inversion Henc; subst st' o.
    exists names. split; [reflexivity|]. split; [exact Hvis|]. split; [exact Hnm|]. split; [cbn; lia|].
    intros f rest acc _. rewrite idm_dec_attrs_eq. cbn [length app]. change (N.of_nat 0 =? 0) with true. cbv iota.
    rewrite app_nil_r. reflexivity.
  - apply Forall_cons_iff in Hl. destruct Hl as [Ha Hl]. cbn [idm_enc_attrs idm_rn_attrs] in *.
    destruct (idm_enc_attr tbl (vis, names) a) as [st1 o1] eqn:Ea.
    destruct (idm_enc_attrs tbl st1 l) as [st2 o2] eqn:El. inversion Henc; subst st' o.
    destruct (idm_attr_rtg a vis names st1 o1 Ha Hvis Hnm Ea) as (names1 & -> & Hvis1 & Hnm1 & Ho1 & Hd1).
    destruct (idm_rn_attr vis a) as [vis1 a'] eqn:E1. cbn [fst snd] in *.
    destruct (IH vis1 names1 st2 o2 Hl Hvis1 Hnm1 El) as (names2 & -> & Hvis2 & Hnm2 & Ho2 & Hd2).
    destruct (idm_rn_attrs vis1 l) as [vis2 r'] eqn:E2. cbn [fst snd] in *.
    exists names2. split; [reflexivity|]. split; [exact Hvis2|]. split; [exact Hnm2|].
    split; [rewrite app_length; cbn [length]; lia|].
    intros f rest acc Hf. rewrite app_length in Hf. rewrite idm_dec_attrs_eq. cbn [length].
    rewrite of_nat_S_eqb0, of_nat_S_pred. destruct f as [|f]; [lia|].
    rewrite <- app_assoc. rewrite Hd1. cbn [bind fst snd]. rewrite Hd2 by lia.
    cbn [rev]. rewrite <- app_assoc. reflexivity.
Qed.

Lemma idm_range_rtg : forall x vis names st' o,
  idm_entry_wf tbl x = true -> idm_vis_ok vis -> (length names <= length vis)%nat ->
  idm_enc_range tbl (vis, names) x = (st', o) ->
  exists names', st' = (fst (idm_rn_attrs vis (e_val x)), names') /\ idm_vis_ok (fst (idm_rn_attrs vis (e_val x))) /\
    (length names' <= length (fst (idm_rn_attrs vis (e_val x))))%nat /\ (1 <= length o)%nat /\
    forall f rest, (length o <= S f)%nat ->
      idm_dec_range f (idm_sel tbl vis, names) (o ++ rest)
      = Ok ((idm_sel tbl (fst (idm_rn_attrs vis (e_val x))), names'),
            (e_start x, e_end x, snd (idm_rn_attrs vis (e_val x)))) rest.
Proof.
  intros [[s e] v] vis names st' o Hwf Hvis Hnm Henc. unfold idm_entry_wf, e_start, e_end, e_val in *.
  cbn [fst snd] in *. unfold idm_enc_range, e_start, e_end, e_val in Henc. cbn [fst snd] in Henc.
  apply andb_prop in Hwf. destruct Hwf as [Hwf Hidx].
  assert (Hidx' : Forall (fun a => a < N.of_nat (length tbl)) v).
  { apply Forall_forall. rewrite forallb_forall in Hidx. intros a Hin. specialize (Hidx a Hin). lia. }
  destruct (idm_enc_attrs tbl (vis, names) v) as [st1 o1] eqn:Ea. inversion Henc; subst st' o.
  destruct (idm_attrs_rtg v vis names st1 o1 Hidx' Hvis Hnm Ea) as (names1 & -> & Hvis1 & Hnm1 & Ho1 & Hd1).
  exists names1. split; [reflexivity|]. split; [exact Hvis1|]. split; [exact Hnm1|].
  split; [rewrite app_length; pose proof (write_var_u32_length s); lia|].
  intros f rest Hf. rewrite !app_length in Hf. pose proof (write_var_u32_length s).
  unfold idm_dec_range. rewrite <- !app_assoc.
  rewrite var_u32_roundtrip by lia. cbn [bind].
  rewrite var_u32_roundtrip by lia. cbn [bind].
  rewrite idm_u32_small by lia. rewrite var_u32_roundtrip by lia. cbn [bind].
  rewrite Hd1 by lia. cbn [bind fst snd rev app]. unfold add32_checked.
  replace (s + (e - s)) with e by lia. replace (e <? two32) with true by lia. reflexivity.
Qed.

Lemma idm_ranges_rtg : forall l vis names st' o,
  forallb (idm_entry_wf tbl) l = true -> idm_vis_ok vis -> (length names <= length vis)%nat ->
  idm_enc_ranges tbl (vis, names) l = (st', o) ->
  exists names', st' = (fst (idm_rn_ranges vis l), names') /\ idm_vis_ok (fst (idm_rn_ranges vis l)) /\
    (length names' <= length (fst (idm_rn_ranges vis l)))%nat /\ (length l <= length o)%nat /\
    forall f rest acc, (length o <= f)%nat ->
      idm_dec_ranges f (N.of_nat (length l)) (idm_sel tbl vis, names) (o ++ rest) acc
      = Ok ((idm_sel tbl (fst (idm_rn_ranges vis l)), names'), rev acc ++ snd (idm_rn_ranges vis l)) rest.
Proof.
  induction l as [|x l IH]; intros vis names st' o Hwf Hvis Hnm Henc.
  - cbn [idm_rn_ranges idm_enc_ranges fst snd] in *. inversion Henc; subst st' o.
    exists names. split; [reflexivity|]. split; [exact Hvis|]. split; [exact Hnm|]. split; [cbn; lia|].
    intros f rest acc _. rewrite idm_dec_ranges_eq. cbn [length app]. change (N.of_nat 0 =? 0) with true. cbv iota.
    rewrite app_nil_r. reflexivity.
  - cbn [forallb] in Hwf. apply andb_prop in Hwf. destruct Hwf as [Hx Hl]. cbn [idm_enc_ranges idm_rn_ranges] in *.
    destruct (idm_enc_range tbl (vis, names) x) as [st1 o1] eqn:Ea.
    destruct (idm_enc_ranges tbl st1 l) as [st2 o2] eqn:El. inversion Henc; subst st' o.
    destruct (idm_range_rtg x vis names st1 o1 Hx Hvis Hnm Ea) as (names1 & -> & Hvis1 & Hnm1 & Ho1 & Hd1).
    destruct (idm_rn_attrs vis (e_val x)) as [vis1 v'] eqn:E1. cbn [fst snd] in *.
    destruct (IH vis1 names1 st2 o2 Hl Hvis1 Hnm1 El) as (names2 & -> & Hvis2 & Hnm2 & Ho2 & Hd2).
    destruct (idm_rn_ranges vis1 l) as [vis2 r'] eqn:E2. cbn [fst snd] in *.
    exists names2. split; [reflexivity|]. split; [exact Hvis2|]. split; [exact Hnm2|].
    split; [rewrite app_length; cbn [length]; lia|].
    intros f rest acc Hf. rewrite app_length in Hf. rewrite idm_dec_ranges_eq. cbn [length].
    rewrite of_nat_S_eqb0, of_nat_S_pred. destruct f as [|f]; [lia|].
    rewrite <- app_assoc. rewrite Hd1 by lia. cbn [bind fst snd]. rewrite Hd2 by lia.
    cbn [rev]. rewrite <- app_assoc. reflexivity.
Qed.

Lemma idm_clients_rtg : forall l vis names last st' o,
  forallb (idm_client_wf tbl) l = true ->
  asc_above last (map fst l) = true \/ (last = 0 /\ ascb (map fst l) = true) ->
  idm_vis_ok vis -> (length names <= length vis)%nat ->
  idm_enc_clients tbl (vis, names) last l = (st', o) ->
  exists names', st' = (fst (idm_rn_clients vis l), names') /\
    forall f rest (acc : idm_clients), (length o <= f)%nat ->
      (forall c' x, In c' (map fst acc) -> In x (map fst l) -> c' < x) ->
      idm_dec_clients f (N.of_nat (length l)) (idm_sel tbl vis, names) last (o ++ rest) acc
      = Ok ((idm_sel tbl (fst (idm_rn_clients vis l)), names'), acc ++ snd (idm_rn_clients vis l)) rest.
Proof.
  induction l as [|[c rs] l IH]; intros vis names last st' o Hwf Hasc Hvis Hnm Henc.
  - cbn [idm_rn_clients idm_enc_clients fst snd] in *. inversion Henc; subst st' o.
    exists names. split; [reflexivity|].
    intros f rest acc _ _. rewrite idm_dec_clients_eq. cbn [length app]. change (N.of_nat 0 =? 0) with true. cbv iota.
    rewrite app_nil_r. reflexivity.
  - cbn [forallb] in Hwf. apply andb_prop in Hwf. destruct Hwf as [Hx Hl].
    unfold idm_client_wf in Hx. cbn [fst snd] in Hx. apply andb_prop in Hx. destruct Hx as [Hx Hchain].
    apply andb_prop in Hx. destruct Hx as [Hc Hrs]. unfold idm_ranges_ewf in Hrs.
    apply andb_prop in Hrs. destruct Hrs as [Hrs Hsorted]. apply andb_prop in Hrs. destruct Hrs as [Hrs Hent].
    apply andb_prop in Hrs. destruct Hrs as [Hlen Hne].
    cbn [idm_enc_clients idm_rn_clients] in *.
    destruct (idm_enc_ranges tbl (vis, names) rs) as [st1 o1] eqn:Ea.
    destruct (idm_enc_clients tbl st1 c l) as [st2 o2] eqn:El. inversion Henc; subst st' o.
    destruct (idm_ranges_rtg rs vis names st1 o1 Hent Hvis Hnm Ea) as (names1 & -> & Hvis1 & Hnm1 & Ho1 & Hd1).
    assert (Hidx : Forall (idm_idx_ok tbl) rs).
    { apply Forall_forall. rewrite forallb_forall in Hent. intros x Hin. specialize (Hent x Hin).
      unfold idm_entry_wf in Hent. apply andb_prop in Hent. destruct Hent as [_ Hi].
      apply Forall_forall. rewrite forallb_forall in Hi. intros a Ha. specialize (Hi a Ha). lia. }
    destruct (idm_rn_ranges vis rs) as [vis1 rs'] eqn:E1. cbn [fst snd] in *.
    pose proof (idm_rn_ranges_rel tbl rs vis vis1 rs' Hidx E1) as [_ Hrel].
    assert (Hlc : last <= c /\ asc_above c (map fst l) = true).
    { cbn [map fst] in Hasc. destruct Hasc as [Hasc|[-> Hasc]].
      - cbn [asc_above] in Hasc. apply andb_prop in Hasc. split; [lia|tauto].
      - cbn [ascb] in Hasc. split; [lia|exact Hasc]. }
    destruct Hlc as [Hlast Hasc'].
    destruct (IH vis1 names1 c st2 o2 Hl (or_introl Hasc') Hvis1 Hnm1 El) as (names2 & -> & Hd2).
    destruct (idm_rn_clients vis1 l) as [vis2 r'] eqn:E2. cbn [fst snd] in *.
    exists names2. split; [reflexivity|].
    intros f rest acc Hf Hacc. rewrite !app_length in Hf. pose proof (write_var_u64_length (c - last)).
    rewrite idm_dec_clients_eq. cbn [length].
    rewrite of_nat_S_eqb0, of_nat_S_pred. destruct f as [|f]; [lia|].
    rewrite <- !app_assoc. rewrite var_u64_roundtrip by (unfold two53, two64 in *; lia). cbn [bind].
    unfold idm_add64_checked. replace (last + (c - last)) with c by lia.
    replace (c <? two64) with true by (unfold two53, two64 in *; lia).
    rewrite idm_u32_small by lia. rewrite var_u32_roundtrip by lia. cbn [bind].
    rewrite Hd1 by lia. cbn [bind fst snd rev app].
    unfold client_id_new. rewrite Hc. cbn [bind].
    unfold idm_normalize. rewrite (idm_normalize_chain (idm_sel tbl vis1) rs' []).
    2:{ exact I. }
    2:{ cbn [rev hd_error]. rewrite (idm_chain_rel tbl vis1 rs rs' Hrel None None I). exact Hchain. }
    cbn [app]. destruct rs as [|x0 rs0]; [discriminate Hne|]. inversion Hrel as [|? x0' ? rs0' ? ? Heq1 Heq2]; subst.
    cbv iota. rewrite idm_im_set_append.
    2:{ intros c' Hin. apply Hacc; [exact Hin|]. left. reflexivity. }
    rewrite Hd2.
    + rewrite <- app_assoc. reflexivity.
    + lia.
    + intros c' x Hin Hx. rewrite map_app in Hin. apply in_app_or in Hin. destruct Hin as [Hin|Hin].
      * apply Hacc; [exact Hin|]. right. exact Hx.
      * cbn [map fst In] in Hin. destruct Hin as [<-|[]]. eapply asc_above_lt; eassumption.
Qed.
End RoundTripGen.

(* the values the decoder maps to their normal form: idm_wf without the order of first use *)
Definition idm_swf (v : idm_value) : bool :=
  idm_enc_wf v && forallb (fun cr => idm_chain (fst v) None (snd cr)) (snd v).

Theorem idm_roundtrip_gen : forall v fuel rest,
  idm_swf v = true -> (length (idm_encode_v1 v) <= fuel)%nat ->
  idm_decode_v1 fuel (idm_encode_v1 v ++ rest) = Ok (idm_canon v) rest.
Proof.
  intros [tbl cs] fuel rest Hwf Hf. unfold idm_swf in Hwf. cbn [fst snd] in Hwf.
  apply andb_prop in Hwf. destruct Hwf as [Hwf Hch].
  unfold idm_enc_wf in Hwf. cbn [fst snd] in Hwf.
  apply andb_prop in Hwf. destruct Hwf as [Hwf Hasc]. apply andb_prop in Hwf. destruct Hwf as [Hwf Hcs].
  apply andb_prop in Hwf. destruct Hwf as [Hwf Hcl]. apply andb_prop in Hwf. destruct Hwf as [Htl Htw].
  unfold idm_encode_v1, idm_canon in *. cbn [fst snd] in *.
  destruct (idm_enc_clients tbl ([], []) 0 cs) as [st' o] eqn:Eenc. cbn [snd] in *.
  rewrite app_length in Hf.
  destruct (idm_clients_rtg tbl ltac:(lia) Htw cs [] [] 0 st' o) as (names' & -> & Hd).
  - rewrite forallb_forall in *. intros cr Hin. unfold idm_client_wf.
    rewrite (Hcs cr Hin), (Hch cr Hin). reflexivity.
  - right. split; [reflexivity|exact Hasc].
  - split; constructor.
  - cbn. lia.
  - exact Eenc.
  - unfold idm_decode_v1. rewrite <- app_assoc. rewrite idm_u32_small by lia.
    rewrite var_u32_roundtrip by lia. cbn [bind].
    change (idm_sel tbl []) with (@nil idm_attr) in Hd. rewrite Hd; [|lia|intros c' x []].
    cbn [bind fst snd app]. destruct (idm_rn_clients [] cs) as [vis cs']. reflexivity.
Qed.

Theorem idm_canon_resolve : forall v, idm_enc_wf v = true -> idm_resolve (idm_canon v) = idm_resolve v.
Proof.
  intros [tbl cs] Hwf. unfold idm_enc_wf in Hwf. cbn [fst snd] in Hwf.
  apply andb_prop in Hwf. destruct Hwf as [Hwf _]. apply andb_prop in Hwf. destruct Hwf as [_ Hcs].
  unfold idm_canon. cbn [fst snd]. destruct (idm_rn_clients [] cs) as [vis cs'] eqn:E.
  apply (idm_rn_clients_rel tbl) in E.
  - destruct E as [_ Hrel]. apply idm_resolve_rel. exact Hrel.
  - apply Forall_forall. rewrite forallb_forall in Hcs. intros cr Hin. specialize (Hcs cr Hin).
    apply andb_prop in Hcs. destruct Hcs as [_ Hr]. unfold idm_ranges_ewf in Hr.
    apply andb_prop in Hr. destruct Hr as [Hr _]. apply andb_prop in Hr. destruct Hr as [_ Hent].
    apply Forall_forall. rewrite forallb_forall in Hent. intros x Hx. specialize (Hent x Hx).
    unfold idm_entry_wf in Hent. apply andb_prop in Hent. destruct Hent as [_ Hi].
    apply Forall_forall. rewrite forallb_forall in Hi. intros a Ha. specialize (Hi a Ha). lia.
Qed.

(* 2'. decode . encode is idempotent on decoded maps: encoding a decoded map and decoding it again gives the
   same map up to the numbering of the attribution table *)
Theorem idm_decoded_idempotent : forall fuel bs v rest fuel',
  idm_decode_v1 fuel bs = Ok v rest -> N.of_nat (length bs) < two32 ->
  (length (idm_encode_v1 v) <= fuel')%nat ->
  exists v', idm_decode_v1 fuel' (idm_encode_v1 v) = Ok v' [] /\ idm_resolve v' = idm_resolve v.
Proof.
  intros fuel bs v rest fuel' H Hl Hf. pose proof (idm_decoded_wf _ _ _ _ H Hl) as Hwf.
  pose proof (idm_decoded_chain _ _ _ _ H) as Hch.
  exists (idm_canon v). split; [|apply idm_canon_resolve; exact Hwf].
  rewrite <- (app_nil_r (idm_encode_v1 v)) at 1. apply idm_roundtrip_gen; [|exact Hf].
  unfold idm_swf. rewrite Hwf, Hch. reflexivity.
Qed.

(* a decoded value that is coalesced and numbered in order of first use decodes to itself again *)
Corollary idm_decoded_reencode : forall fuel bs v rest fuel' rest',
  idm_decode_v1 fuel bs = Ok v rest -> N.of_nat (length bs) < two32 ->
  forallb (fun cr => idm_chain (fst v) None (snd cr)) (snd v) = true -> idm_first_use v = true ->
  (length (idm_encode_v1 v) <= fuel')%nat ->
  idm_decode_v1 fuel' (idm_encode_v1 v ++ rest') = Ok v rest'.
Proof.
  intros fuel bs v rest fuel' rest' H Hl Hch Hfu Hf. apply idm_roundtrip; [|exact Hf].
  unfold idm_wf. rewrite (idm_decoded_wf _ _ _ _ H Hl), Hch, Hfu. reflexivity.
Qed.

(* the statement of the round trip with the fuel bound of the other codecs *)
Corollary idm_roundtrip_fuel : forall v fuel rest,
  idm_wf v = true -> (length (idm_encode_v1 v) < fuel)%nat ->
  idm_decode_v1 fuel (idm_encode_v1 v ++ rest) = Ok v rest.
Proof. intros v fuel rest Hwf Hf. apply idm_roundtrip; [exact Hwf|lia]. Qed.

(* ------------------------------------------------------------------------------------------------ *)
(* ... and what does not hold for decoded values                                                    *)
(* ------------------------------------------------------------------------------------------------ *)

(* The decoder numbers the attributions in wire order, then normalises the ranges: an empty range is dropped,
   ranges are sorted, so the first use in the map is no longer the first definition on the wire.  The encoder
   renumbers (as yrs does: bytes and results of the real decoder in IdMapCases.v, D1): the value decoded from the
   re-encoding has another table but the same content. *)
Definition idm_first_use_witness : list N :=
  [1; 1; 2;  0; 0; 1; 0; 0; 1; 97; 119; 1; 120;  2; 2; 2; 1; 0; 119; 1; 121; 0].
Theorem idm_decoded_first_use_refuted : exists v v',
  idm_decode_v1 (S (length idm_first_use_witness)) idm_first_use_witness = Ok v [] /\
  idm_first_use v = false /\ idm_wf v = false /\
  idm_decode_v1 (S (length (idm_encode_v1 v))) (idm_encode_v1 v) = Ok v' [] /\
  v' <> v /\ idm_resolve v' = idm_resolve v /\ idm_wf v' = true.
Proof.
  eexists. eexists. split; [vm_compute; reflexivity|]. split; [vm_compute; reflexivity|].
  split; [vm_compute; reflexivity|]. split; [vm_compute; reflexivity|]. split; [discriminate|].
  split; vm_compute; reflexivity.
Qed.

(* Before 7f9cd1e `==` on ContentAttributes was one inclusion only (same length, every element of the left list
   occurs in the right one): not symmetric, not transitive on lists that name an attribute twice, and the input
     [2,3) [x,z]   [3,4) [x,y]   [4,5) [x,x]   [1,2) [x,x]        (x = (a,"x"), y = (a,"y"), z = (a,"z"))
   was normalised to [1,4) [x,x]  [4,5) [x,x], which decode . encode coalesced further.  With both inclusions the
   equality is an equivalence (idm_attrs_eq_equiv), every decoded map is coalesced (idm_decoded_chain) and
   decode . encode is the identity on decoded maps up to the numbering of the table (idm_decoded_idempotent).
   The former witness now (model and yrs, D3 in IdMapCases.v): *)
Definition idm_coalesced_witness : list N :=
  [1; 1; 4;  2; 1; 2; 0; 0; 1; 97; 119; 1; 120; 1; 0; 119; 1; 122;  3; 1; 2; 0; 2; 0; 119; 1; 121;
   4; 1; 2; 0; 0;  1; 1; 2; 0; 0].
Example idm_coalesced_witness_repaired : exists v v',
  idm_decode_v1 (S (length idm_coalesced_witness)) idm_coalesced_witness = Ok v [] /\
  snd v = [(1, [(1, 2, [0; 0]); (2, 3, [0; 1]); (3, 4, [0; 2]); (4, 5, [0; 0])])] /\
  forallb (fun cr => idm_chain (fst v) None (snd cr)) (snd v) = true /\
  idm_decode_v1 (S (length (idm_encode_v1 v))) (idm_encode_v1 v) = Ok v' [] /\
  v' = idm_canon v /\ idm_resolve v' = idm_resolve v.
Proof.
  eexists. eexists. split; [vm_compute; reflexivity|]. split; [vm_compute; reflexivity|].
  split; [vm_compute; reflexivity|]. split; [vm_compute; reflexivity|]. split; vm_compute; reflexivity.
Qed.

(* ------------------------------------------------------------------------------------------------ *)
(* summary                                                                                          *)
(*  1.  idm_roundtrip          idm_wf v -> length (encode v) <= fuel -> decode fuel (encode v ++ rest) = Ok v rest   *)
(*  1'. idm_roundtrip_gen      idm_swf v (no order of first use) -> ... = Ok (idm_canon v) rest;  idm_canon_resolve  *)
(*  2.  idm_decode_total       length bs < fuel -> value (shorter rest) or error, never Panic / Fuel                *)
(*  3.  idm_decoded_struct_wf  decode = Ok v -> idm_struct_wf v     (unconditional)                                 *)
(*      idm_decoded_chain      decode = Ok v -> every client list is coalesced (idm_chain)   (unconditional)        *)
(*      idm_decoded_wf         decode = Ok v -> length bs < 2^32 -> idm_enc_wf v                                     *)
(*      idm_decoded_idempotent decode = Ok v -> length bs < 2^32 -> decode (encode v) = Ok v' [] with the same view  *)
(*      idm_decoded_first_use_refuted: the last conjunct of idm_wf (order of first use) fails for decoded values     *)
(*      idm_decoded_reencode   with it, the decoded value round trips to itself                                     *)
(*  idm_attrs_eq_equiv: the repaired equality of attribute lists is an equivalence                                   *)
(*  insert_with (any value type): idm_insert_with_some, idm_insert_with_srt, idm_insert_with_vals,                   *)
(*                                idm_insert_with_cl (symmetric + transitive equality: the result is coalesced)      *)
(* ------------------------------------------------------------------------------------------------ *)
Print Assumptions idm_roundtrip.
Print Assumptions idm_decode_total.
Print Assumptions idm_decoded_struct_wf.
Print Assumptions idm_decoded_wf.
Print Assumptions idm_decoded_first_use_refuted.
Print Assumptions idm_decoded_reencode.
Print Assumptions idm_roundtrip_gen.
Print Assumptions idm_canon_resolve.
Print Assumptions idm_decoded_chain.
Print Assumptions idm_decoded_idempotent.
Print Assumptions idm_attrs_eq_equiv.
Print Assumptions idm_insert_with_cl.
Print Assumptions idm_insert_with_srt.
Print Assumptions idm_insert_with_vals.
