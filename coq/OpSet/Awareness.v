(* Awareness (sync/awareness.rs): per-client presence registers.
   state : client -> (clock, data) where data = None is "removed / null".  Transcription of
   Awareness::apply_update_internal, set_local_state_raw and remove_state (timestamps are not modelled:
   last_updated comes from an injected clock and is excluded from every comparison). *)
From Coq Require Import List NArith Bool.
Import ListNotations.
Open Scope N_scope.

Definition json := list N.
Definition aentry : Type := (N * option json)%type.          (* clock, data *)
Definition astate : Type := list (N * aentry).               (* client -> entry *)
Definition aupdate : Type := list (N * aentry).              (* one AwarenessUpdate, in iteration order *)

Fixpoint aget (s : astate) (c : N) : option aentry :=
  match s with [] => None | (c', e) :: r => if c' =? c then Some e else aget r c end.
Fixpoint aset (s : astate) (c : N) (e : aentry) : astate :=
  match s with
  | [] => [(c, e)]
  | (c', e') :: r => if c' =? c then (c, e) :: r else (c', e') :: aset r c e
  end.

Definition is_some {A} (o : option A) : bool := match o with Some _ => true | None => false end.

(* one entry of an incoming update *)
Definition apply_entry (local : N) (s : astate) (c : N) (inc : aentry) : astate :=
  let '(clock, new) := inc in
  match aget s c with
  | Some (k, d) =>
    let is_removed := (k =? clock) && negb (is_some new) && is_some d in
    if (k <? clock) || is_removed then
      match new with
      | None =>
        if (c =? local) && is_some d
        then aset s c (clock + 1, d)        (* never let a remote client remove the local state *)
        else aset s c (clock, None)
      | Some j => aset s c (clock, Some j)
      end
    else s
  | None => aset s c (clock, new)
  end.

Definition apply_update (local : N) (s : astate) (u : aupdate) : astate :=
  fold_left (fun s ce => apply_entry local s (fst ce) (snd ce)) u s.

(* Awareness::set_local_state_raw / remove_state *)
Definition set_local (local : N) (s : astate) (j : json) : astate :=
  match aget s local with
  | Some (k, _) => aset s local (k + 1, Some j)
  | None => aset s local (1, Some j)
  end.
Definition remove_state (s : astate) (c : N) : astate :=
  match aget s c with
  | Some (k, _) => aset s c (k + 1, None)
  | None => aset s c (1, None)
  end.

(* the order of the register: a higher clock wins, at equal clock null wins over data *)
Fixpoint json_eqb (x y : json) : bool :=
  match x, y with
  | [], [] => true
  | p :: x', q :: y' => (p =? q) && json_eqb x' y'
  | _, _ => false
  end.
Definition data_eqb (a b : option json) : bool :=
  match a, b with None, None => true | Some x, Some y => json_eqb x y | _, _ => false end.
Definition ale (a b : aentry) : bool :=
  (fst a <? fst b) || ((fst a =? fst b) && (negb (is_some (snd b)) || data_eqb (snd a) (snd b))).
