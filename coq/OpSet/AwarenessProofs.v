(* Machine-checked facts about the awareness registers of OpSet/Awareness.v.
   Stdlib only; no axioms.  Every numbered theorem is followed by Print Assumptions. *)
From Coq Require Import List NArith Bool Lia Permutation.
From YV Require Import OpSet.Awareness.
Import ListNotations.
Open Scope N_scope.

(* ====================================================================== *)
(* 0. aget / aset                                                          *)
(* ====================================================================== *)

Lemma aget_aset_same : forall s c e, aget (aset s c e) c = Some e.
Proof.
  intros s c e. induction s as [|[c0 e0] r IH]; cbn [aset aget].
  - rewrite N.eqb_refl. reflexivity.
  - destruct (c0 =? c) eqn:E; cbn [aget].
    + rewrite N.eqb_refl. reflexivity.
    + rewrite E. exact IH.
Qed.

Lemma aget_aset_other : forall s c e c', c' <> c -> aget (aset s c e) c' = aget s c'.
Proof.
  intros s c e c' H. induction s as [|[c0 e0] r IH]; cbn [aset aget].
  - destruct (c =? c') eqn:E; [apply N.eqb_eq in E; congruence | reflexivity].
  - destruct (c0 =? c) eqn:E; cbn [aget].
    + apply N.eqb_eq in E. subst c0.
      destruct (c =? c') eqn:E2; [apply N.eqb_eq in E2; congruence|reflexivity].
    + destruct (c0 =? c'); [reflexivity | exact IH].
Qed.

(* the entry [apply_entry] leaves at client [c], as a function of the entry that was there *)
Definition step_entry (is_local : bool) (o : option aentry) (inc : aentry) : aentry :=
  let '(clock, new) := inc in
  match o with
  | Some (k, d) =>
    if (k <? clock) || ((k =? clock) && negb (is_some new) && is_some d) then
      match new with
      | None => if is_local && is_some d then (clock + 1, d) else (clock, None)
      | Some j => (clock, Some j)
      end
    else (k, d)
  | None => (clock, new)
  end.

Lemma aget_apply_entry_same : forall local s c inc,
  aget (apply_entry local s c inc) c = Some (step_entry (c =? local) (aget s c) inc).
Proof.
  intros local s c [clock new]. unfold apply_entry, step_entry.
  destruct (aget s c) as [[k d]|] eqn:E.
  - destruct ((k <? clock) || ((k =? clock) && negb (is_some new) && is_some d)).
    + destruct new as [j|].
      * apply aget_aset_same.
      * destruct ((c =? local) && is_some d); apply aget_aset_same.
    + exact E.
  - apply aget_aset_same.
Qed.

Lemma aget_apply_entry_other : forall local s c inc c',
  c' <> c -> aget (apply_entry local s c inc) c' = aget s c'.
Proof.
  intros local s c [clock new] c' H. unfold apply_entry.
  destruct (aget s c) as [[k d]|] eqn:E.
  - destruct ((k <? clock) || ((k =? clock) && negb (is_some new) && is_some d)).
    + destruct new as [j|].
      * apply aget_aset_other; exact H.
      * destruct ((c =? local) && is_some d); apply aget_aset_other; exact H.
    + reflexivity.
  - apply aget_aset_other; exact H.
Qed.

Lemma apply_update_cons : forall local s ce u,
  apply_update local s (ce :: u) = apply_update local (apply_entry local s (fst ce) (snd ce)) u.
Proof. reflexivity. Qed.

Lemma apply_update_app : forall local s u v,
  apply_update local s (u ++ v) = apply_update local (apply_update local s u) v.
Proof. intros. unfold apply_update. apply fold_left_app. Qed.

(* ====================================================================== *)
(* 1. clocks never go backwards, entries never disappear                   *)
(* ====================================================================== *)

Lemma step_entry_clock : forall b k d inc, k <= fst (step_entry b (Some (k, d)) inc).
Proof.
  intros b k d [clock new]. unfold step_entry.
  destruct ((k <? clock) || ((k =? clock) && negb (is_some new) && is_some d)) eqn:C.
  - assert (Hk : k <= clock).
    { apply orb_true_iff in C. destruct C as [C|C].
      - apply N.ltb_lt in C. lia.
      - apply andb_true_iff in C. destruct C as [C _].
        apply andb_true_iff in C. destruct C as [C _]. apply N.eqb_eq in C. lia. }
    destruct new as [j|]; [cbn [fst]; exact Hk|].
    destruct (b && is_some d); cbn [fst]; lia.
  - cbn [fst]. lia.
Qed.

Lemma clock_monotone_entry : forall local s c0 inc c k d,
  aget s c = Some (k, d) ->
  exists k' d', aget (apply_entry local s c0 inc) c = Some (k', d') /\ k <= k'.
Proof.
  intros local s c0 inc c k d H.
  destruct (N.eq_dec c c0) as [E|E].
  - subst c0. rewrite aget_apply_entry_same, H.
    pose proof (step_entry_clock (c =? local) k d inc) as Hc.
    destruct (step_entry (c =? local) (Some (k, d)) inc) as [k' d'].
    exists k', d'. split; [reflexivity|exact Hc].
  - rewrite aget_apply_entry_other by exact E. exists k, d. split; [exact H|lia].
Qed.

Theorem clock_monotone : forall local s u c k d,
  aget s c = Some (k, d) ->
  exists k' d', aget (apply_update local s u) c = Some (k', d') /\ k <= k'.
Proof.
  intros local s u. revert s. induction u as [|ce u IH]; intros s c k d H.
  - exists k, d. split; [exact H|lia].
  - rewrite apply_update_cons.
    destruct (clock_monotone_entry local s (fst ce) (snd ce) c k d H) as (k1 & d1 & H1 & L1).
    destruct (IH _ c k1 d1 H1) as (k2 & d2 & H2 & L2).
    exists k2, d2. split; [exact H2|lia].
Qed.
Print Assumptions clock_monotone.

Theorem clock_monotone_set_local : forall local s j c k d,
  aget s c = Some (k, d) ->
  exists k' d', aget (set_local local s j) c = Some (k', d') /\ k <= k'.
Proof.
  intros local s j c k d H. unfold set_local.
  destruct (N.eq_dec c local) as [E|E].
  - subst c. rewrite H. rewrite aget_aset_same. exists (k + 1), (Some j). split; [reflexivity|lia].
  - exists k, d. split; [|lia].
    destruct (aget s local) as [[k0 d0]|]; rewrite aget_aset_other by exact E; exact H.
Qed.
Print Assumptions clock_monotone_set_local.

Theorem clock_monotone_remove_state : forall s c0 c k d,
  aget s c = Some (k, d) ->
  exists k' d', aget (remove_state s c0) c = Some (k', d') /\ k <= k'.
Proof.
  intros s c0 c k d H. unfold remove_state.
  destruct (N.eq_dec c c0) as [E|E].
  - subst c0. rewrite H. rewrite aget_aset_same. exists (k + 1), None. split; [reflexivity|lia].
  - exists k, d. split; [|lia].
    destruct (aget s c0) as [[k0 d0]|]; rewrite aget_aset_other by exact E; exact H.
Qed.
Print Assumptions clock_monotone_remove_state.

(* strictness of the two local operations: the clock of the touched client goes up by exactly one *)
Theorem set_local_bumps : forall local s j k d,
  aget s local = Some (k, d) -> aget (set_local local s j) local = Some (k + 1, Some j).
Proof. intros local s j k d H. unfold set_local. rewrite H. apply aget_aset_same. Qed.

Theorem remove_state_bumps : forall s c k d,
  aget s c = Some (k, d) -> aget (remove_state s c) c = Some (k + 1, None).
Proof. intros s c k d H. unfold remove_state. rewrite H. apply aget_aset_same. Qed.

(* ====================================================================== *)
(* 2. a lower clock never replaces a higher one                            *)
(* ====================================================================== *)

Theorem lower_never_replaces : forall local s c k d inc,
  aget s c = Some (k, d) -> fst inc < k -> apply_entry local s c inc = s.
Proof.
  intros local s c k d [clock new] H L. cbn [fst] in L. unfold apply_entry. rewrite H.
  assert (E1 : (k <? clock) = false) by (apply N.ltb_ge; lia).
  assert (E2 : (k =? clock) = false) by (apply N.eqb_neq; lia).
  rewrite E1, E2. reflexivity.
Qed.
Print Assumptions lower_never_replaces.

(* the same clock only replaces when it is a removal of live data *)
Theorem equal_clock_replaces_only_by_null : forall local s c k d j,
  aget s c = Some (k, d) -> apply_entry local s c (k, Some j) = s.
Proof.
  intros local s c k d j H. unfold apply_entry. rewrite H.
  rewrite N.ltb_irrefl, N.eqb_refl. reflexivity.
Qed.

(* ====================================================================== *)
(* 3. a remote message never erases the live local state                   *)
(* ====================================================================== *)

Lemma local_state_protected_entry : forall local s c inc k d,
  aget s local = Some (k, Some d) ->
  exists k' d', aget (apply_entry local s c inc) local = Some (k', Some d').
Proof.
  intros local s c inc k d H.
  destruct (N.eq_dec local c) as [E|E].
  - subst c. rewrite aget_apply_entry_same, H, N.eqb_refl.
    destruct inc as [clock new]. unfold step_entry.
    destruct ((k <? clock) || ((k =? clock) && negb (is_some new) && is_some (Some d))).
    + destruct new as [j|].
      * exists clock, j. reflexivity.
      * cbn [is_some andb]. exists (clock + 1), d. reflexivity.
    + exists k, d. reflexivity.
  - rewrite aget_apply_entry_other by exact E. exists k, d. exact H.
Qed.

Theorem local_state_protected : forall local s u k d,
  aget s local = Some (k, Some d) ->
  exists k' d', aget (apply_update local s u) local = Some (k', Some d').
Proof.
  intros local s u. revert s. induction u as [|ce u IH]; intros s k d H.
  - exists k, d. exact H.
  - rewrite apply_update_cons.
    destruct (local_state_protected_entry local s (fst ce) (snd ce) k d H) as (k1 & d1 & H1).
    eapply IH. exact H1.
Qed.
Print Assumptions local_state_protected.

(* what the local client keeps exactly when only nulls arrive for it: its own data *)
Lemma local_data_kept_entry : forall local s c clock k d,
  aget s local = Some (k, Some d) ->
  exists k', aget (apply_entry local s c (clock, None)) local = Some (k', Some d).
Proof.
  intros local s c clock k d H.
  destruct (N.eq_dec local c) as [E|E].
  - subst c. rewrite aget_apply_entry_same, H, N.eqb_refl. unfold step_entry.
    destruct ((k <? clock) || ((k =? clock) && negb (is_some None) && is_some (Some d))).
    + cbn [is_some andb]. exists (clock + 1). reflexivity.
    + exists k. reflexivity.
  - rewrite aget_apply_entry_other by exact E. exists k. exact H.
Qed.

Theorem local_data_kept_under_nulls : forall local s u k d,
  aget s local = Some (k, Some d) ->
  (forall e, In (local, e) u -> snd e = None) ->
  exists k', aget (apply_update local s u) local = Some (k', Some d).
Proof.
  intros local s u. revert s. induction u as [|[c [clock new]] u IH]; intros s k d H Hn.
  - exists k. exact H.
  - rewrite apply_update_cons. cbn [fst snd].
    assert (Hu : forall e, In (local, e) u -> snd e = None) by (intros e He; apply Hn; right; exact He).
    destruct (N.eq_dec local c) as [E|E].
    + subst c. assert (new = None) by (apply (Hn (clock, new)); left; reflexivity). subst new.
      destruct (local_data_kept_entry local s local clock k d H) as (k1 & H1).
      eapply IH; eassumption.
    + eapply IH; [|exact Hu]. rewrite aget_apply_entry_other by exact E. exact H.
Qed.
Print Assumptions local_data_kept_under_nulls.

(* ====================================================================== *)
(* 4. idempotence (unconditional: also for entries of the local client)    *)
(* ====================================================================== *)

(* [e] is absorbed by the state: applying it is the identity *)
Definition absorbed (s : astate) (c : N) (e : aentry) : Prop :=
  exists k d, aget s c = Some (k, d) /\
    (k <? fst e) || ((k =? fst e) && negb (is_some (snd e)) && is_some d) = false.

Lemma absorbed_noop : forall local s c e, absorbed s c e -> apply_entry local s c e = s.
Proof.
  intros local s c [clock new] (k & d & H & C). cbn [fst snd] in C.
  unfold apply_entry. rewrite H, C. reflexivity.
Qed.

Lemma cond_false : forall k clock (new d : option json),
  (k <? clock) || ((k =? clock) && negb (is_some new) && is_some d) = false <->
  (clock < k \/ (clock = k /\ (is_some new = true \/ is_some d = false))).
Proof.
  intros k clock new d.
  destruct (N.ltb_spec k clock) as [L|L]; cbn [orb].
  - split; [discriminate|]. intros [H|[H _]]; lia.
  - destruct (N.eqb_spec k clock) as [E|E]; cbn [andb].
    + subst. destruct (is_some new), (is_some d); cbn [negb andb]; split; intros; try discriminate;
        try reflexivity; try (right; split; [reflexivity|]; auto; fail).
      destruct H as [H|[_ [H|H]]]; [lia|discriminate|discriminate].
    + split; [|reflexivity]. intros _. left. lia.
Qed.

Lemma absorbed_step : forall b k (d : option json) (e e' : aentry),
  (k <? fst e') || ((k =? fst e') && negb (is_some (snd e')) && is_some d) = false ->
  let y := step_entry b (Some (k, d)) e in
  (fst y <? fst e') || ((fst y =? fst e') && negb (is_some (snd e')) && is_some (snd y)) = false.
Proof.
  intros b k d [clock new] [clock' new'] H. cbn [fst snd] in H. cbv zeta. unfold step_entry.
  apply cond_false in H.
  destruct ((k <? clock) || ((k =? clock) && negb (is_some new) && is_some d)) eqn:C.
  - assert (Hk : k < clock \/ (k = clock /\ new = None /\ is_some d = true)).
    { apply orb_true_iff in C. destruct C as [C|C].
      - apply N.ltb_lt in C. left. exact C.
      - apply andb_true_iff in C. destruct C as [C C3].
        apply andb_true_iff in C. destruct C as [C1 C2]. apply N.eqb_eq in C1.
        right. split; [exact C1|]. split; [|exact C3]. destruct new; [discriminate|reflexivity]. }
    destruct new as [j|].
    + cbn [fst snd]. apply cond_false.
      destruct Hk as [Hk|(Hk & Hn & _)]; [|discriminate]. left. destruct H as [H|[H _]]; lia.
    + destruct (b && is_some d); cbn [fst snd]; apply cond_false.
      * left. destruct Hk as [Hk|(Hk & _)]; destruct H as [H|[H _]]; lia.
      * destruct Hk as [Hk|(Hk & _ & Hd)].
        -- left. destruct H as [H|[H _]]; lia.
        -- destruct H as [H|[H [H'|H']]].
           ++ left. lia.
           ++ right. split; [lia|]. right. reflexivity.
           ++ right. split; [lia|]. right. reflexivity.
  - cbn [fst snd]. apply cond_false. exact H.
Qed.

Lemma absorbed_self : forall local s c e, absorbed (apply_entry local s c e) c e.
Proof.
  intros local s c e. unfold absorbed. rewrite aget_apply_entry_same.
  destruct e as [clock new]. cbn [fst snd]. unfold step_entry.
  destruct (aget s c) as [[k d]|].
  - destruct ((k <? clock) || ((k =? clock) && negb (is_some new) && is_some d)) eqn:C.
    + destruct new as [j|].
      * exists clock, (Some j). split; [reflexivity|]. apply cond_false. right. split; [reflexivity|].
        left. reflexivity.
      * destruct ((c =? local) && is_some d).
        -- exists (clock + 1), d. split; [reflexivity|]. apply cond_false. left. lia.
        -- exists clock, None. split; [reflexivity|]. apply cond_false. right. split; [reflexivity|].
           right. reflexivity.
    + exists k, d. split; [reflexivity|exact C].
  - exists clock, new. split; [reflexivity|]. apply cond_false. right. split; [reflexivity|].
    destruct new; [left|right]; reflexivity.
Qed.

Lemma absorbed_pres : forall local s c e c' e',
  absorbed s c' e' -> absorbed (apply_entry local s c e) c' e'.
Proof.
  intros local s c e c' e' (k & d & H & C). unfold absorbed.
  destruct (N.eq_dec c' c) as [E|E].
  - subst c'. rewrite aget_apply_entry_same, H.
    pose proof (absorbed_step (c =? local) k d e e' C) as Hs. cbv zeta in Hs.
    destruct (step_entry (c =? local) (Some (k, d)) e) as [k1 d1]. cbn [fst snd] in Hs.
    exists k1, d1. split; [reflexivity|exact Hs].
  - rewrite aget_apply_entry_other by exact E. exists k, d. split; assumption.
Qed.

Lemma absorbed_pres_update : forall local u s c' e',
  absorbed s c' e' -> absorbed (apply_update local s u) c' e'.
Proof.
  intros local u. induction u as [|ce u IH]; intros s c' e' H.
  - exact H.
  - rewrite apply_update_cons. apply IH. apply absorbed_pres. exact H.
Qed.

Lemma apply_update_absorbs_all : forall local u s,
  Forall (fun ce => absorbed (apply_update local s u) (fst ce) (snd ce)) u.
Proof.
  intros local u. induction u as [|ce u IH]; intros s.
  - constructor.
  - rewrite apply_update_cons. constructor.
    + apply absorbed_pres_update. apply absorbed_self.
    + apply IH.
Qed.

Lemma absorbed_all_noop : forall local u s,
  Forall (fun ce => absorbed s (fst ce) (snd ce)) u -> apply_update local s u = s.
Proof.
  intros local u. induction u as [|ce u IH]; intros s H.
  - reflexivity.
  - inversion H as [|? ? H1 H2]; subst. rewrite apply_update_cons.
    rewrite absorbed_noop by exact H1. apply IH. exact H2.
Qed.

(* Applying the same update a second time changes NOTHING (not even the representation), whatever the
   update mentions - including null entries for the live local client: the local-protection branch
   bumps the clock to clock+1, which then absorbs the same entry. *)
Theorem apply_update_idempotent : forall local s u,
  apply_update local (apply_update local s u) u = apply_update local s u.
Proof.
  intros local s u. apply absorbed_all_noop. apply apply_update_absorbs_all.
Qed.
Print Assumptions apply_update_idempotent.

(* more generally: re-applying any sub-multiset (any selection, in any order, any duplication) of an
   update that was already applied is the identity *)
Theorem apply_update_absorbs_resend : forall local s u v,
  (forall ce, In ce v -> In ce u) ->
  apply_update local (apply_update local s u) v = apply_update local s u.
Proof.
  intros local s u v H. apply absorbed_all_noop. apply Forall_forall. intros ce Hce.
  pose proof (apply_update_absorbs_all local u s) as Ha. rewrite Forall_forall in Ha.
  apply Ha. apply H. exact Hce.
Qed.
Print Assumptions apply_update_absorbs_resend.

(* ====================================================================== *)
(* 5. order-insensitivity for remote clients                               *)
(* ====================================================================== *)

(* rank of an entry: clock first, null above data at the same clock *)
Definition rank (e : aentry) : N := 2 * fst e + (if snd e then 0 else 1).

Definition joino (o : option aentry) (e : aentry) : aentry :=
  match o with None => e | Some a => if rank a <? rank e then e else a end.

Lemma step_entry_remote : forall o e, step_entry false o e = joino o e.
Proof.
  intros [[k d]|] [clock new]; unfold step_entry, joino, rank; cbn [fst snd andb]; [|reflexivity].
  destruct d, new; cbn [is_some negb andb];
    destruct (N.ltb_spec k clock), (N.eqb_spec k clock); cbn [orb andb];
    match goal with |- context [?a <? ?b] => destruct (N.ltb_spec a b) end;
    try lia; try reflexivity; subst; reflexivity.
Qed.

(* ale is the rank order (with equality of data at equal rank) *)
Lemma json_eqb_eq : forall x y, json_eqb x y = true <-> x = y.
Proof.
  induction x as [|p x IH]; intros [|q y]; cbn [json_eqb]; split; intros H; try discriminate;
    try reflexivity.
  - apply andb_true_iff in H. destruct H as [H1 H2]. apply N.eqb_eq in H1. apply IH in H2.
    subst. reflexivity.
  - inversion H; subst. rewrite N.eqb_refl. cbn [andb]. apply IH. reflexivity.
Qed.

Lemma ale_rank : forall a b, ale a b = true -> rank a <= rank b.
Proof.
  intros [ka da] [kb db]. unfold ale, rank. cbn [fst snd]. intros H.
  apply orb_true_iff in H. destruct H as [H|H].
  - apply N.ltb_lt in H. destruct da, db; lia.
  - apply andb_true_iff in H. destruct H as [H1 H2]. apply N.eqb_eq in H1. subst.
    destruct da, db; cbn [is_some negb orb data_eqb] in H2; try discriminate; lia.
Qed.

Lemma rank_lt_ale : forall a b, rank a < rank b -> ale a b = true.
Proof.
  intros [ka da] [kb db]. unfold ale, rank. cbn [fst snd]. intros H.
  destruct (N.ltb_spec ka kb) as [L|L]; [reflexivity|]. cbn [orb].
  assert (ka = kb) by (destruct da, db; lia). subst.
  rewrite N.eqb_refl. destruct da, db; cbn [is_some negb orb andb]; try reflexivity; lia.
Qed.

Definition entries_of (c : N) (u : aupdate) : list aentry :=
  map snd (filter (fun ce => fst ce =? c) u).

Lemma in_entries_of : forall c u e, In e (entries_of c u) <-> In (c, e) u.
Proof.
  intros c u e. unfold entries_of. rewrite in_map_iff. split.
  - intros ([c' e'] & H1 & H2). cbn [snd] in H1. subst e'.
    apply filter_In in H2. destruct H2 as [H2 H3]. cbn [fst] in H3. apply N.eqb_eq in H3.
    subst. exact H2.
  - intros H. exists (c, e). split; [reflexivity|]. apply filter_In. split; [exact H|].
    cbn [fst]. apply N.eqb_refl.
Qed.

Definition foldj (o : option aentry) (l : list aentry) : option aentry :=
  fold_left (fun o e => Some (joino o e)) l o.

(* for updates that do not mention the local client, the register of every client is the fold of the
   join over the incoming entries of that client *)
Lemma aget_apply_update_foldj : forall local u s c,
  (forall ce, In ce u -> fst ce <> local) ->
  aget (apply_update local s u) c = foldj (aget s c) (entries_of c u).
Proof.
  intros local u. induction u as [|ce u IH]; intros s c Hl.
  - reflexivity.
  - rewrite apply_update_cons.
    rewrite IH by (intros ce' H'; apply Hl; right; exact H').
    unfold entries_of. cbn [filter].
    destruct (fst ce =? c) eqn:E.
    + apply N.eqb_eq in E. cbn [map]. unfold foldj at 2. cbn [fold_left]. fold (foldj (Some (joino (aget s c) (snd ce)))
        (map snd (filter (fun ce0 => fst ce0 =? c) u))).
      f_equal. rewrite <- E. rewrite aget_apply_entry_same.
      assert (El : (fst ce =? local) = false).
      { apply N.eqb_neq. apply Hl. left. reflexivity. }
      rewrite El, step_entry_remote. reflexivity.
    + apply N.eqb_neq in E. rewrite aget_apply_entry_other by (intro; apply E; congruence).
      reflexivity.
Qed.

(* one datum per (client, clock) *)
Definition wf_entries (l : list aentry) : Prop :=
  forall e1 e2 j1 j2, In e1 l -> In e2 l -> fst e1 = fst e2 ->
    snd e1 = Some j1 -> snd e2 = Some j2 -> j1 = j2.

(* what the fold computes: a maximum of the rank; the initial entry wins ties *)
Definition is_best (o : option aentry) (l : list aentry) (r : option aentry) : Prop :=
  match r with
  | None => o = None /\ l = []
  | Some r => (o = Some r \/ In r l) /\
              (forall e, o = Some e \/ In e l -> rank e <= rank r) /\
              (forall e0, o = Some e0 -> rank e0 = rank r -> r = e0)
  end.

Lemma joino_cases : forall o e,
  (joino o e = e /\ (forall a, o = Some a -> rank a < rank e)) \/
  (exists a, o = Some a /\ joino o e = a /\ rank e <= rank a).
Proof.
  intros [a|] e; cbn [joino].
  - destruct (N.ltb_spec (rank a) (rank e)) as [L|L].
    + left. split; [reflexivity|]. intros a' Ha. inversion Ha; subst. exact L.
    + right. exists a. split; [reflexivity|]. split; [reflexivity|exact L].
  - left. split; [reflexivity|]. intros a Ha. discriminate.
Qed.

Lemma foldj_best : forall l o, is_best o l (foldj o l).
Proof.
  induction l as [|e l IH]; intros o.
  - unfold foldj. cbn [fold_left]. destruct o as [a|]; cbn [is_best].
    + split; [left; reflexivity|]. split.
      * intros e0 [H|[]]. inversion H; subst. lia.
      * intros e0 H _. inversion H. reflexivity.
    + split; reflexivity.
  - unfold foldj. cbn [fold_left]. fold (foldj (Some (joino o e)) l).
    specialize (IH (Some (joino o e))).
    destruct (foldj (Some (joino o e)) l) as [r|]; cbn [is_best] in *.
    + destruct IH as (Hin & Hmax & Htie).
      destruct (joino_cases o e) as [[Hj Hlt]|(a & Ho & Hj & Hle)].
      * rewrite Hj in *. split; [|split].
        -- destruct Hin as [Hin|Hin]; [inversion Hin; subst; right; left; reflexivity|right; right; exact Hin].
        -- intros e0 [H0|[H0|H0]].
           ++ specialize (Hlt _ H0). specialize (Hmax e (or_introl eq_refl)). lia.
           ++ subst e0. apply Hmax. left. reflexivity.
           ++ apply Hmax. right. exact H0.
        -- intros e0 H0 Hr. specialize (Hlt _ H0). specialize (Hmax e (or_introl eq_refl)). lia.
      * rewrite Hj in *. subst o. split; [|split].
        -- destruct Hin as [Hin|Hin]; [left; exact Hin|right; right; exact Hin].
        -- intros e0 [H0|[H0|H0]].
           ++ apply Hmax. left. exact H0.
           ++ subst e0. specialize (Hmax a (or_introl eq_refl)). lia.
           ++ apply Hmax. right. exact H0.
        -- intros e0 H0 Hr. apply Htie; [exact H0|exact Hr].
    + destruct IH as [IH _]. discriminate.
Qed.

Lemma rank_eq_inv : forall a b, rank a = rank b ->
  fst a = fst b /\ (snd a = None <-> snd b = None).
Proof.
  intros [ka da] [kb db]. unfold rank. cbn [fst snd]. intros H.
  destruct da, db; split; try lia; split; intros; try discriminate; try reflexivity; lia.
Qed.

Lemma best_unique : forall o l1 l2 r1 r2,
  (forall e, In e l1 <-> In e l2) -> wf_entries l1 ->
  is_best o l1 r1 -> is_best o l2 r2 -> r1 = r2.
Proof.
  intros o l1 l2 r1 r2 Hset Hwf H1 H2.
  destruct r1 as [r1|], r2 as [r2|]; cbn [is_best] in *.
  - destruct H1 as (Hin1 & Hmax1 & Htie1). destruct H2 as (Hin2 & Hmax2 & Htie2).
    assert (Hr : rank r1 = rank r2).
    { apply N.le_antisymm.
      - apply Hmax2. destruct Hin1 as [H|H]; [left; exact H|right; apply Hset; exact H].
      - apply Hmax1. destruct Hin2 as [H|H]; [left; exact H|right; apply Hset; exact H]. }
    assert (Hcase : (exists e0, o = Some e0 /\ rank e0 = rank r1) \/ (In r1 l1 /\ In r2 l1)).
    { destruct Hin1 as [Hin1|Hin1].
      - left. exists r1. split; [exact Hin1|reflexivity].
      - destruct Hin2 as [Hin2|Hin2].
        + left. exists r2. split; [exact Hin2|symmetry; exact Hr].
        + right. split; [exact Hin1|apply Hset; exact Hin2]. }
    destruct Hcase as [(e0 & Ho & He)|[Ha Hb]].
    + rewrite (Htie1 e0 Ho He). rewrite (Htie2 e0 Ho) by congruence. reflexivity.
    + destruct (rank_eq_inv r1 r2 Hr) as [Hk Hn].
      destruct r1 as [k1 d1], r2 as [k2 d2]. cbn [fst snd] in *. subst k2.
      destruct d1 as [j1|], d2 as [j2|].
      * rewrite (Hwf (k1, Some j1) (k1, Some j2) j1 j2 Ha Hb eq_refl eq_refl eq_refl). reflexivity.
      * destruct Hn as [_ Hn]. specialize (Hn eq_refl). discriminate.
      * destruct Hn as [Hn _]. specialize (Hn eq_refl). discriminate.
      * reflexivity.
  - destruct H1 as (Hin1 & _). destruct H2 as [Ho Hl]. subst.
    destruct Hin1 as [H|H]; [discriminate|]. apply Hset in H. destruct H.
  - destruct H2 as (Hin2 & _). destruct H1 as [Ho Hl]. subst.
    destruct Hin2 as [H|H]; [discriminate|]. apply Hset in H. destruct H.
  - reflexivity.
Qed.

(* well-formedness of an update: per client, one datum per clock *)
Definition wf_update (u : aupdate) : Prop := forall c, wf_entries (entries_of c u).

(* The general form (covers 5 and 6): two peers (possibly different [local]), extensionally equal
   starting states, the same SET of incoming entries (any order, any duplication), neither peer
   mentioned, and one datum per (client, clock) among the incoming entries.  Then all registers agree. *)
Theorem apply_set_insensitive : forall l1 l2 s1 s2 u1 u2,
  (forall c, aget s1 c = aget s2 c) ->
  (forall ce, In ce u1 <-> In ce u2) ->
  (forall ce, In ce u1 -> fst ce <> l1 /\ fst ce <> l2) ->
  wf_update u1 ->
  forall c, aget (apply_update l1 s1 u1) c = aget (apply_update l2 s2 u2) c.
Proof.
  intros l1 l2 s1 s2 u1 u2 Hs Hset Hl Hwf c.
  rewrite aget_apply_update_foldj by (intros ce H; apply (Hl ce H)).
  rewrite aget_apply_update_foldj by (intros ce H; apply Hset in H; apply (Hl ce H)).
  rewrite <- Hs.
  eapply best_unique; [| apply Hwf | apply foldj_best | apply foldj_best].
  intros e. rewrite !in_entries_of. apply Hset.
Qed.
Print Assumptions apply_set_insensitive.

(* 5, strong form: well-formedness is only needed among the incoming entries *)
Theorem apply_perm_strong : forall local s u1 u2,
  Permutation u1 u2 ->
  (forall ce, In ce u1 -> fst ce <> local) ->
  wf_update u1 ->
  forall c, aget (apply_update local s u1) c = aget (apply_update local s u2) c.
Proof.
  intros local s u1 u2 Hp Hl Hwf c.
  apply apply_set_insensitive; try assumption.
  - reflexivity.
  - intros ce. split; intros H; [eapply Permutation_in; [exact Hp|exact H]|
      eapply Permutation_in; [apply Permutation_sym; exact Hp|exact H]].
  - intros ce H. split; apply Hl; exact H.
Qed.
Print Assumptions apply_perm_strong.

(* 5, requested form: well-formedness of the incoming entries of each client TOGETHER with the entry
   the state already holds for it *)
Definition entries_with_state (c : N) (s : astate) (u : aupdate) : list aentry :=
  (match aget s c with Some e => [e] | None => [] end) ++ entries_of c u.

Theorem apply_perm : forall local s u1 u2,
  Permutation u1 u2 ->
  (forall ce, In ce u1 -> fst ce <> local) ->
  (forall c, wf_entries (entries_with_state c s u1)) ->
  forall c, aget (apply_update local s u1) c = aget (apply_update local s u2) c.
Proof.
  intros local s u1 u2 Hp Hl Hwf. apply apply_perm_strong; try assumption.
  intros c e1 e2 j1 j2 H1 H2. apply (Hwf c); unfold entries_with_state; apply in_or_app; right; assumption.
Qed.
Print Assumptions apply_perm.

(* the value every order computes: an [ale]-maximum of everything seen for that client *)
Theorem apply_update_is_max : forall local s u c,
  (forall ce, In ce u -> fst ce <> local) ->
  match aget (apply_update local s u) c with
  | None => aget s c = None /\ (forall e, ~ In (c, e) u)
  | Some r => (aget s c = Some r \/ In (c, r) u) /\
              (forall e, aget s c = Some e \/ In (c, e) u -> rank e <= rank r)
  end.
Proof.
  intros local s u c Hl. rewrite aget_apply_update_foldj by exact Hl.
  pose proof (foldj_best (entries_of c u) (aget s c)) as Hb.
  destruct (foldj (aget s c) (entries_of c u)) as [r|]; cbn [is_best] in Hb.
  - destruct Hb as (Hin & Hmax & _). split.
    + destruct Hin as [H|H]; [left; exact H|right; apply in_entries_of; exact H].
    + intros e [H|H]; apply Hmax; [left; exact H|right; apply in_entries_of; exact H].
  - destruct Hb as [Ho Hn]. split; [exact Ho|]. intros e He. apply in_entries_of in He.
    rewrite Hn in He. destruct He.
Qed.
Print Assumptions apply_update_is_max.

(* negative results *)

(* two different data at the same (client, clock): the first one applied wins *)
Example apply_not_commutative_illformed :
  aget (apply_update 0 [] [(1, (5, Some [1])); (1, (5, Some [2]))]) 1 = Some (5, Some [1]) /\
  aget (apply_update 0 [] [(1, (5, Some [2])); (1, (5, Some [1]))]) 1 = Some (5, Some [2]).
Proof. split; reflexivity. Qed.

(* entries for the LOCAL client are order-sensitive even with pairwise different clocks: the
   protection branch answers a null at clock 5 with (6, own data), which then shadows a later
   (6, Some j) for the same client *)
Example apply_not_commutative_local :
  aget (apply_update 7 [(7, (1, Some [9]))] [(7, (5, None)); (7, (6, Some [3]))]) 7 = Some (6, Some [9]) /\
  aget (apply_update 7 [(7, (1, Some [9]))] [(7, (6, Some [3])); (7, (5, None))]) 7 = Some (6, Some [3]).
Proof. split; reflexivity. Qed.

(* consequence: after the protection bump two peers can hold different data at the same
   (client, clock): the local peer has (6, [9]) while a peer that saw (6, Some [3]) first keeps [3] *)
Example protection_bump_collides :
  aget (apply_update 7 [(7, (1, Some [9]))] [(7, (5, None))]) 7 = Some (6, Some [9]) /\
  aget (apply_update 8 [(7, (1, Some [9]))] [(7, (5, None)); (7, (6, Some [3]))]) 7 = Some (6, Some [3]).
Proof. split; reflexivity. Qed.

(* ====================================================================== *)
(* 6. two peers                                                            *)
(* ====================================================================== *)

Theorem two_peers_agree : forall l1 l2 s1 s2 u1 u2,
  (forall c, aget s1 c = aget s2 c) ->
  (forall ce, In ce u1 <-> In ce u2) ->
  (forall ce, In ce u1 -> fst ce <> l1 /\ fst ce <> l2) ->
  wf_update u1 ->
  forall c, aget (apply_update l1 s1 u1) c = aget (apply_update l2 s2 u2) c.
Proof. exact apply_set_insensitive. Qed.
Print Assumptions two_peers_agree.
