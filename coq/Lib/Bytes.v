(* Byte strings, decoder results and machine arithmetic.
   A byte is an N (< 256 for well-formed input).  Every decoder returns
     Ok v rest   value and remaining input
     Err e       the Rust function returns Err(e)
     Panic site  the Rust function panics in a build with overflow checks / debug assertions
     Fuel        the model ran out of fuel (excluded by the theorems)                                *)
From Coq Require Import List NArith ZArith Bool.
Import ListNotations.
Open Scope N_scope.

Inductive err := EndOfBuffer | InvalidVarInt | UnexpectedValue | NotEnoughMemory | InvalidJSON | Custom.

Inductive res (A : Type) :=
| Ok (a : A) (rest : list N)
| Err (e : err)
| Panic (site : N)
| Fuel.
Arguments Ok {A}. Arguments Err {A}. Arguments Panic {A}. Arguments Fuel {A}.

Definition bind {A B} (r : res A) (f : A -> list N -> res B) : res B :=
  match r with
  | Ok a rest => f a rest
  | Err e => Err e
  | Panic s => Panic s
  | Fuel => Fuel
  end.
Notation "'let*' ( x , r ) := e1 'in' e2" := (bind e1 (fun x r => e2))
  (at level 200, x name, r name, e1 at level 100, e2 at level 200).

Definition rmap {A B} (f : A -> B) (r : res A) : res B := bind r (fun a rest => Ok (f a) rest).

(* panic sites (numbers only identify the Rust location in reports) *)
Definition P_SHL_I64 : N := 1.        (* varint.rs read_var_i64 / read_signed: `<< len` with len >= 64 *)
Definition P_NEG_I64 : N := 2.        (* `-num` on i64::MIN *)
Definition P_ADD_U32 : N := 3.        (* u32 `+` overflow *)
Definition P_CLIENT_ID : N := 4.      (* ClientID::new debug_assert (value >= 2^53) *)
Definition P_INDEX : N := 5.          (* slice index out of bounds *)
Definition P_SUB_U32 : N := 6.        (* u32 / usize `-` overflow *)
Definition P_SHL_USIZE : N := 7.      (* DecoderV2::read_usize shift overflow *)
Definition P_CAPACITY : N := 8.       (* with_capacity(n) capacity overflow / allocation failure (abort) *)

Definition two32 : N := 4294967296.
Definition two53 : N := 9007199254740992.
Definition two63 : N := 9223372036854775808.
Definition two64 : N := 18446744073709551616.

(* u32::wrapping_shl(x, s): shift amount masked to 5 bits, result truncated *)
Definition wshl32 (x s : N) : N := (N.shiftl x (s mod 32)) mod two32.
Definition wshl64 (x s : N) : N := (N.shiftl x (s mod 64)) mod two64.
Definition add32_checked (a b : N) : option N := let s := a + b in if s <? two32 then Some s else None.

Definition read_u8 (bs : list N) : res N :=
  match bs with
  | [] => Err EndOfBuffer
  | b :: rest => Ok b rest
  end.

(* Cursor::read_exact: `self.next + len > self.buf.len()` on usize; len < 2^64 always here, no overflow
   is possible because next <= buf.len() <= isize::MAX *)
Definition read_exact (n : N) (bs : list N) : res (list N) :=
  if N.of_nat (length bs) <? n then Err EndOfBuffer
  else Ok (firstn (N.to_nat n) bs) (skipn (N.to_nat n) bs).

(* big endian fixed width *)
Fixpoint be_value (bs : list N) (acc : N) : N :=
  match bs with
  | [] => acc
  | b :: r => be_value r (acc * 256 + b)
  end.
Fixpoint be_bytes (n : nat) (v : N) : list N :=
  match n with
  | O => []
  | S m => be_bytes m (v / 256) ++ [v mod 256]
  end.

Definition is_byte (b : N) : bool := b <? 256.

(* std::str::from_utf8: well-formed UTF-8 (Unicode table 3-7: no overlong forms, no surrogates, <= U+10FFFF) *)
Definition in_range (lo hi b : N) : bool := (lo <=? b) && (b <=? hi).
Definition cont (b : N) : bool := in_range 128 191 b.
Fixpoint utf8_valid_fuel (fuel : nat) (s : list N) : bool :=
  match fuel with
  | O => match s with [] => true | _ => false end
  | S f =>
    match s with
    | [] => true
    | b0 :: r =>
      if b0 <? 128 then utf8_valid_fuel f r
      else if in_range 194 223 b0 then
        match r with b1 :: r' => cont b1 && utf8_valid_fuel f r' | _ => false end
      else if b0 =? 224 then
        match r with b1 :: b2 :: r' => in_range 160 191 b1 && cont b2 && utf8_valid_fuel f r' | _ => false end
      else if in_range 225 236 b0 || in_range 238 239 b0 then
        match r with b1 :: b2 :: r' => cont b1 && cont b2 && utf8_valid_fuel f r' | _ => false end
      else if b0 =? 237 then
        match r with b1 :: b2 :: r' => in_range 128 159 b1 && cont b2 && utf8_valid_fuel f r' | _ => false end
      else if b0 =? 240 then
        match r with b1 :: b2 :: b3 :: r' => in_range 144 191 b1 && cont b2 && cont b3 && utf8_valid_fuel f r' | _ => false end
      else if in_range 241 243 b0 then
        match r with b1 :: b2 :: b3 :: r' => cont b1 && cont b2 && cont b3 && utf8_valid_fuel f r' | _ => false end
      else if b0 =? 244 then
        match r with b1 :: b2 :: b3 :: r' => in_range 128 143 b1 && cont b2 && cont b3 && utf8_valid_fuel f r' | _ => false end
      else false
    end
  end.
Definition utf8_valid (s : list N) : bool := utf8_valid_fuel (length s) s.
Definition bytes_ok (bs : list N) : bool := forallb is_byte bs.
