(* Observer dispatch at the end of a transaction: transcription of
     yrs/src/transaction.rs  TransactionMut::add_changed_type   -> evd_add_changed_type (trigger: evd_trigger)
                             TransactionMut::has_added           -> evd_mem _ (evd_ins st)
                             TransactionMut::delete              -> evd_step, arm EvdDel (one call of delete on one item;
                                                                    the recursion into the children of a deleted type is
                                                                    the next EvdDel effects of the list, in call order)
                             TransactionMut::call_type_observers -> evd_walk (loop up the parent chain, linked_by detour
                                                                    with the visited set) - the code AFTER the repair
                                                                    of finding A (`if entries.last() != Some(&event_idx)`,
                                                                    working tree of /repo); the pinned tree (1f736a8)
                                                                    is evd_walk_pre_dedup and the *_pre_dedup functions
                             TransactionMut::call_observers      -> evd_loop1 (for over `changed`), evd_loop2 (for over
                                                                    `changed_parents`), evd_call_observers
                             TransactionMut::commit / cleanup_fmt-> evd_commit (observers first, then the deletions of
                                                                    cleanup_fmt run through the same `delete`; observers
                                                                    are NOT called again)
     yrs/src/block.rs        Item::integrate (tail)              -> evd_step, arm EvdInteg (insert_set.insert, integrate_content
                                                                    for ContentDeleted, add_changed_type(parent), the
                                                                    `linked_by` branch for quoted items)
     yrs/src/branch.rs       BranchPtr::trigger / Branch::make_event -> evd_make_event (which Event kind by type_ref; the
                                                                    event is built whether or not an observer is registered)
                             BranchPtr::trigger_deep             -> the EvdDeep call emitted by evd_loop2
                             Branch::path                        -> evd_path_loop / evd_path (index of a child: path_index
                                                                    of YV.Crdt.Events)
     yrs/src/types/mod.rs    Events::new                         -> evd_sort (stable sort by path length)
                             Event::set_current_target, Event::path -> the path of an event is evd_path d target, d the deep
                                                                    observer being served
   Where the model is more abstract than the code:
   - a shared type is its position in the forest list (BranchPtr); item ids and parent_sub keys are interned N;
     a type id outside the forest reads as a root (no holder) - excluded by evd_forest_okb.
   - the forest is the one at commit. Holder -> parent pointers never change during a transaction; what changes is
     the insert set, the deleted flags and the delete set, and these are threaded through evd_run.
   - a transaction is the list of effects in the order the code produces them. An effect carries what the code reads at
     that moment: the parent (None = parent pointer is not a branch: GC'ed), parent_sub, the item, for a deletion the type
     the item holds (ItemContent::Type), and `links` = store.linked_by[item] if item.info.is_linked(), else [].
     The deletion of the left neighbour of a map entry (Item::integrate calls delete(left) BEFORE insert_set.insert) and
     the needs_deletion call (AFTER add_changed_type) are separate EvdDel effects at those places.
     An item whose parent cannot be resolved or was collected is integrated through integrate_gc and never reaches
     add_changed_type: it is not an effect. ItemContent::Deleted items are effects with dead = true (integrate_content
     sets the deleted flag and the delete set, `delete` is not called).
   - `changed` is an association list in first-insertion order; HashMap iteration order = the list order handed to
     evd_call_observers (theorems quantify over all permutations). Same for `changed_parents`.
   - the set of registered callbacks of one Observer is a boolean (member of obs / dobs): Observer::trigger calls each
     callback once, has_subscribers = non-empty (a dropped but not yet drained subscription still counts there; then
     trigger_deep calls nobody - not modelled).
   - the content of events is not modelled (see YV.Crdt.Events); an event = target, kind, the parent_sub set.
   - needs_cleanup (has_formatting && !local), subdocs, the update / after_transaction doc events: not modelled. cleanup_fmt
     is modelled by the list of items it deletes (evd_commit); which items it picks is not.
   Failure values: evd_walk / evd_path_loop return None when the fuel runs out; evd_path_loop returns None where the code
   unwraps `item.parent.as_branch()`; evd_loop2 returns None where the code indexes event_cache[i] out of range.
   `event_cache.len() - 1` is computed right after a push (never underflows); the model passes length cache' - 1 in nat.
   DispatchProofs.evd_call_observers_total shows that none of these values is reached when evd_forest_okb and
   evd_parents_knownb hold (quotations allowed). *)
From Coq Require Import List NArith Bool Arith.
From YV Require Import Crdt.Events.
Import ListNotations.
Open Scope N_scope.

Definition evd_ty := N.
Definition evd_key := N.
Definition evd_id := N.

Definition evd_mem (x : N) (l : list N) : bool := existsb (N.eqb x) l.

Inductive evd_kind := EvdArray | EvdMap | EvdText | EvdXmlElement | EvdXmlFragment | EvdXmlHook | EvdXmlText
                    | EvdSubDoc | EvdWeak | EvdUndefined.
Inductive evd_ekind := EvdEArray | EvdEMap | EvdEText | EvdEXmlFragment | EvdEXmlText | EvdEWeak.

(* Branch::make_event *)
Definition evd_make_event (k : evd_kind) : option evd_ekind :=
  match k with
  | EvdArray => Some EvdEArray
  | EvdMap => Some EvdEMap
  | EvdText => Some EvdEText
  | EvdXmlElement | EvdXmlFragment => Some EvdEXmlFragment
  | EvdXmlText => Some EvdEXmlText
  | EvdWeak => Some EvdEWeak
  | EvdXmlHook | EvdSubDoc | EvdUndefined => None
  end.

(* branch.item: the item holding the type; its parent, parent_sub; linked_by[item] when the item is marked linked *)
Record evd_holder := { evd_h_item : evd_id; evd_h_parent : option evd_ty; evd_h_sub : option evd_key; evd_h_links : list evd_ty }.
(* evd_n_seq: the branch.start -> right list, (item id, (len if countable else 0, interned values)) *)
Definition evd_sentry := (evd_id * (N * list tok))%type.
Record evd_node := { evd_n_holder : option evd_holder; evd_n_kind : evd_kind; evd_n_seq : list evd_sentry }.
Definition evd_forest := list evd_node.

Definition evd_node_of (f : evd_forest) (t : evd_ty) : option evd_node := nth_error f (N.to_nat t).
Definition evd_holder_of (f : evd_forest) (t : evd_ty) : option evd_holder :=
  match evd_node_of f t with Some n => evd_n_holder n | None => None end.
Definition evd_kind_of (f : evd_forest) (t : evd_ty) : evd_kind :=
  match evd_node_of f t with Some n => evd_n_kind n | None => EvdUndefined end.
Definition evd_seq_of (f : evd_forest) (t : evd_ty) : list evd_sentry :=
  match evd_node_of f t with Some n => evd_n_seq n | None => [] end.

(* ---------------------------------------------------------------------------------------------- *)
(* the transaction *)

Definition evd_osub_eqb (a b : option evd_key) : bool :=
  match a, b with Some x, Some y => x =? y | None, None => true | _, _ => false end.

Definition evd_subs := list (option evd_key).
Definition evd_changed_map := list (evd_ty * evd_subs).

Record evd_st := {
  evd_changed : evd_changed_map;   (* txn.changed *)
  evd_ins : list evd_id;           (* txn.insert_set *)
  evd_del : list evd_id;           (* items whose deleted flag is set *)
  evd_dset : list evd_id;          (* txn.delete_set *)
}.
Definition evd_st0 (del0 : list evd_id) : evd_st := {| evd_changed := []; evd_ins := []; evd_del := del0; evd_dset := [] |}.

Definition evd_set_changed (st : evd_st) (c : evd_changed_map) : evd_st :=
  {| evd_changed := c; evd_ins := evd_ins st; evd_del := evd_del st; evd_dset := evd_dset st |}.

(* HashSet::insert *)
Definition evd_subs_add (s : evd_subs) (k : option evd_key) : evd_subs :=
  if existsb (evd_osub_eqb k) s then s else s ++ [k].
(* changed.entry(parent).or_default().insert(parent_sub) *)
Fixpoint evd_changed_add (c : evd_changed_map) (t : evd_ty) (k : option evd_key) : evd_changed_map :=
  match c with
  | [] => [(t, [k])]
  | (t', s) :: r => if t' =? t then (t', evd_subs_add s k) :: r else (t', s) :: evd_changed_add r t k
  end.
(* changed.remove(&TypePtr::Branch(branch_ptr)) *)
Definition evd_changed_remove (c : evd_changed_map) (t : evd_ty) : evd_changed_map :=
  filter (fun p => negb (fst p =? t)) c.

(* the trigger condition of add_changed_type *)
Definition evd_trigger (f : evd_forest) (st : evd_st) (parent : evd_ty) : bool :=
  match evd_holder_of f parent with
  | Some h => negb (evd_mem (evd_h_item h) (evd_ins st)) && negb (evd_mem (evd_h_item h) (evd_del st))
  | None => true
  end.

Definition evd_add_changed_type (f : evd_forest) (st : evd_st) (parent : evd_ty) (sub : option evd_key) : evd_st :=
  if evd_trigger f st parent then evd_set_changed st (evd_changed_add (evd_changed st) parent sub) else st.

Inductive evd_effect :=
| EvdInteg (parent : evd_ty) (sub : option evd_key) (item : evd_id) (dead : bool) (links : list evd_ty)
    (* tail of Item::integrate; dead = the content is ItemContent::Deleted *)
| EvdDel (parent : option evd_ty) (sub : option evd_key) (item : evd_id) (inner : option evd_ty) (links : list evd_ty).
    (* one call of TransactionMut::delete; inner = the type held when the content is ItemContent::Type *)

(* the flags after the first statements of the effect, before any add_changed_type *)
Definition evd_mid (st : evd_st) (e : evd_effect) : evd_st :=
  match e with
  | EvdInteg _ _ item dead _ =>
      {| evd_changed := evd_changed st; evd_ins := item :: evd_ins st;
         evd_del := if dead then item :: evd_del st else evd_del st;
         evd_dset := if dead then item :: evd_dset st else evd_dset st |}
  | EvdDel _ _ item _ _ =>
      {| evd_changed := evd_changed st; evd_ins := evd_ins st; evd_del := item :: evd_del st; evd_dset := item :: evd_dset st |}
  end.

(* `if !item.is_deleted()` of delete; an integration always runs *)
Definition evd_effective (st : evd_st) (e : evd_effect) : bool :=
  match e with EvdInteg _ _ _ _ _ => true | EvdDel _ _ item _ _ => negb (evd_mem item (evd_del st)) end.

Definition evd_add_links (f : evd_forest) (st : evd_st) (links : list evd_ty) (sub : option evd_key) : evd_st :=
  fold_left (fun s l => evd_add_changed_type f s l sub) links st.

Definition evd_step (f : evd_forest) (st : evd_st) (e : evd_effect) : evd_st :=
  if evd_effective st e then
    match e with
    | EvdInteg parent sub _ _ links =>
        evd_add_links f (evd_add_changed_type f (evd_mid st e) parent sub) links sub
    | EvdDel parent sub _ inner links =>
        let st1 := evd_mid st e in
        let st2 := match parent with Some p => evd_add_changed_type f st1 p sub | None => st1 end in
        let st3 := match inner with Some t => evd_set_changed st2 (evd_changed_remove (evd_changed st2) t) | None => st2 end in
        evd_add_links f st3 links sub
    end
  else st.

Definition evd_run (f : evd_forest) (effs : list evd_effect) (st : evd_st) : evd_st := fold_left (evd_step f) effs st.

(* ---------------------------------------------------------------------------------------------- *)
(* Branch::path *)

Inductive evd_seg := EvdKey (k : evd_key) | EvdIndex (i : N).
Definition evd_path_t := list evd_seg.

Definition evd_sitem (st : evd_st) (p : evd_sentry) : sitem :=
  {| s_len := fst (snd p); s_vals := snd (snd p); s_deleted := evd_mem (fst p) (evd_del st);
     s_added := evd_mem (fst p) (evd_ins st); s_deld := evd_mem (fst p) (evd_dset st) |}.

(* number of items in front of the first one with the given id (the whole list when there is none: the loop of
   Branch::path then runs to the end) *)
Fixpoint evd_find_pos (id : evd_id) (l : list evd_sentry) : nat :=
  match l with
  | [] => O
  | p :: r => if fst p =? id then O else S (evd_find_pos id r)
  end.

Definition evd_seg_of (f : evd_forest) (st : evd_st) (h : evd_holder) (parent : evd_ty) : evd_seg :=
  match evd_h_sub h with
  | Some k => EvdKey k
  | None => EvdIndex (path_index (map (evd_sitem st) (evd_seq_of f parent)) (evd_find_pos (evd_h_item h) (evd_seq_of f parent)))
  end.

Definition evd_oid_eqb (a b : option evd_id) : bool :=
  match a, b with Some x, Some y => x =? y | None, None => true | _, _ => false end.

(* the `while let Some(item) = &child.item` loop; from_item = parent.item of the code *)
Fixpoint evd_path_loop (fuel : nat) (f : evd_forest) (st : evd_st) (from_item : option evd_id) (child : evd_ty)
                       (acc : evd_path_t) : option evd_path_t :=
  match fuel with
  | O => None
  | S fu =>
      match evd_holder_of f child with
      | None => Some acc
      | Some h =>
          if evd_oid_eqb from_item (Some (evd_h_item h)) then Some acc
          else match evd_h_parent h with
               | None => None                 (* item.parent.as_branch().unwrap() *)
               | Some p => evd_path_loop fu f st from_item p (evd_seg_of f st h p :: acc)
               end
      end
  end.

Definition evd_path (f : evd_forest) (st : evd_st) (from to : evd_ty) : option evd_path_t :=
  evd_path_loop (S (length f)) f st (option_map evd_h_item (evd_holder_of f from)) to [].

(* ---------------------------------------------------------------------------------------------- *)
(* call_type_observers *)

Definition evd_cp_map := list (evd_ty * list nat).   (* changed_parents: type -> indexes into event_cache *)

(* entries.last() *)
Fixpoint evd_last (l : list nat) : option nat :=
  match l with
  | [] => None
  | x :: r => match r with [] => Some x | _ :: _ => evd_last r end
  end.
Definition evd_last_is (l : list nat) (i : nat) : bool :=
  match evd_last l with Some x => Nat.eqb x i | None => false end.
(* `if entries.last() != Some(&event_idx) { entries.push(event_idx) }` *)
Definition evd_vec_push_dedup (l : list nat) (i : nat) : list nat := if evd_last_is l i then l else l ++ [i].

(* the code after the repair of call_type_observers:
     let entries = changed_parents.entry(current).or_default();
     let event_idx = event_cache.len() - 1;
     if entries.last() != Some(&event_idx) { entries.push(event_idx); }                       *)
Fixpoint evd_cp_push (cp : evd_cp_map) (d : evd_ty) (i : nat) : evd_cp_map :=
  match cp with
  | [] => [(d, [i])]
  | (d', l) :: r => if d' =? d then (d', evd_vec_push_dedup l i) :: r else (d', l) :: evd_cp_push r d i
  end.
(* the code before the repair (pinned tree): changed_parents.entry(current).or_default().push(idx) *)
Fixpoint evd_cp_push_pre_dedup (cp : evd_cp_map) (d : evd_ty) (i : nat) : evd_cp_map :=
  match cp with
  | [] => [(d, [i])]
  | (d', l) :: r => if d' =? d then (d', l ++ [i]) :: r else (d', l) :: evd_cp_push_pre_dedup r d i
  end.

Record evd_wst := {
  evd_w_cpt : list evd_ty;      (* txn.changed_parent_types, in push order *)
  evd_w_cp : evd_cp_map;
  evd_w_vis : list evd_ty;      (* visited *)
}.

Definition evd_visit (dobs : list evd_ty) (idx : nat) (w : evd_wst) (cur : evd_ty) : evd_wst :=
  {| evd_w_cpt := evd_w_cpt w ++ [cur];
     evd_w_cp := if evd_mem cur dobs then evd_cp_push (evd_w_cp w) cur idx else evd_w_cp w;
     evd_w_vis := evd_w_vis w |}.
Definition evd_mark (w : evd_wst) (l : evd_ty) : evd_wst :=
  {| evd_w_cpt := evd_w_cpt w; evd_w_cp := evd_w_cp w; evd_w_vis := l :: evd_w_vis w |}.

Fixpoint evd_walk (fuel : nat) (f : evd_forest) (dobs : list evd_ty) (idx : nat) (cur : evd_ty) (w : evd_wst)
                  : option evd_wst :=
  match fuel with
  | O => None
  | S fu =>
      let w1 := evd_visit dobs idx w cur in
      match evd_holder_of f cur with
      | None => Some w1
      | Some h =>
          let fix links (ls : list evd_ty) (w : evd_wst) : option evd_wst :=
            match ls with
            | [] => Some w
            | l :: r =>
                if evd_mem l (evd_w_vis w) then links r w
                else match evd_walk fu f dobs idx l (evd_mark w l) with
                     | None => None
                     | Some w' => links r w'
                     end
            end in
          match links (evd_h_links h) w1 with
          | None => None
          | Some w2 =>
              match evd_h_parent h with
              | Some p => evd_walk fu f dobs idx p w2
              | None => Some w2
              end
          end
      end
  end.

(* the walk of the pinned tree (before the repair), kept for evd_at_most_once_links_pre_dedup_refuted *)
Definition evd_visit_pre_dedup (dobs : list evd_ty) (idx : nat) (w : evd_wst) (cur : evd_ty) : evd_wst :=
  {| evd_w_cpt := evd_w_cpt w ++ [cur];
     evd_w_cp := if evd_mem cur dobs then evd_cp_push_pre_dedup (evd_w_cp w) cur idx else evd_w_cp w;
     evd_w_vis := evd_w_vis w |}.
Fixpoint evd_walk_pre_dedup (fuel : nat) (f : evd_forest) (dobs : list evd_ty) (idx : nat) (cur : evd_ty) (w : evd_wst)
                  : option evd_wst :=
  match fuel with
  | O => None
  | S fu =>
      let w1 := evd_visit_pre_dedup dobs idx w cur in
      match evd_holder_of f cur with
      | None => Some w1
      | Some h =>
          let fix links (ls : list evd_ty) (w : evd_wst) : option evd_wst :=
            match ls with
            | [] => Some w
            | l :: r =>
                if evd_mem l (evd_w_vis w) then links r w
                else match evd_walk_pre_dedup fu f dobs idx l (evd_mark w l) with
                     | None => None
                     | Some w' => links r w'
                     end
            end in
          match links (evd_h_links h) w1 with
          | None => None
          | Some w2 =>
              match evd_h_parent h with
              | Some p => evd_walk_pre_dedup fu f dobs idx p w2
              | None => Some w2
              end
          end
      end
  end.


(* enough for any forest: a walk is at most (number of types) chains of at most (number of types) steps *)
Definition evd_walk_fuel (f : evd_forest) : nat := S (length f * S (length f)).

(* ---------------------------------------------------------------------------------------------- *)
(* call_observers *)

Record evd_event := { evd_e_target : evd_ty; evd_e_kind : evd_ekind; evd_e_subs : evd_subs }.

Inductive evd_call :=
| EvdShallow (t : evd_ty) (e : evd_event)                        (* branch.observers.trigger(|f| f(txn, &e)) *)
| EvdDeep (d : evd_ty) (es : list (evd_event * evd_path_t)).     (* branch.deep_observers.trigger(|f| f(txn, &events)) *)

Record evd_l1 := { evd_l1_cache : list evd_event; evd_l1_calls : list evd_call; evd_l1_w : evd_wst }.

(* one iteration of `for (ptr, subs) in self.changed.iter()`; the visited set is fresh for every event *)
Definition evd_loop1_step (f : evd_forest) (obs dobs : list evd_ty) (s : evd_l1) (entry : evd_ty * evd_subs) : option evd_l1 :=
  let '(t, subs) := entry in
  match evd_make_event (evd_kind_of f t) with
  | None => Some s
  | Some k =>
      let e := {| evd_e_target := t; evd_e_kind := k; evd_e_subs := subs |} in
      let cache := evd_l1_cache s ++ [e] in
      let calls := if evd_mem t obs then evd_l1_calls s ++ [EvdShallow t e] else evd_l1_calls s in
      let w := evd_l1_w s in
      match evd_walk (evd_walk_fuel f) f dobs (length cache - 1)%nat t
                     {| evd_w_cpt := evd_w_cpt w; evd_w_cp := evd_w_cp w; evd_w_vis := [] |} with
      | None => None
      | Some w' => Some {| evd_l1_cache := cache; evd_l1_calls := calls; evd_l1_w := w' |}
      end
  end.

Fixpoint evd_loop1 (f : evd_forest) (obs dobs : list evd_ty) (s : evd_l1) (c : evd_changed_map) : option evd_l1 :=
  match c with
  | [] => Some s
  | entry :: r => match evd_loop1_step f obs dobs s entry with None => None | Some s' => evd_loop1 f obs dobs s' r end
  end.

(* the same two loops over the walk of the pinned tree *)
Definition evd_loop1_step_pre_dedup (f : evd_forest) (obs dobs : list evd_ty) (s : evd_l1) (entry : evd_ty * evd_subs) : option evd_l1 :=
  let '(t, subs) := entry in
  match evd_make_event (evd_kind_of f t) with
  | None => Some s
  | Some k =>
      let e := {| evd_e_target := t; evd_e_kind := k; evd_e_subs := subs |} in
      let cache := evd_l1_cache s ++ [e] in
      let calls := if evd_mem t obs then evd_l1_calls s ++ [EvdShallow t e] else evd_l1_calls s in
      let w := evd_l1_w s in
      match evd_walk_pre_dedup (evd_walk_fuel f) f dobs (length cache - 1)%nat t
                     {| evd_w_cpt := evd_w_cpt w; evd_w_cp := evd_w_cp w; evd_w_vis := [] |} with
      | None => None
      | Some w' => Some {| evd_l1_cache := cache; evd_l1_calls := calls; evd_l1_w := w' |}
      end
  end.

Fixpoint evd_loop1_pre_dedup (f : evd_forest) (obs dobs : list evd_ty) (s : evd_l1) (c : evd_changed_map) : option evd_l1 :=
  match c with
  | [] => Some s
  | entry :: r => match evd_loop1_step_pre_dedup f obs dobs s entry with None => None | Some s' => evd_loop1_pre_dedup f obs dobs s' r end
  end.

(* stable insertion sort by path length (Events::new: Vec::sort_by is stable) *)
Fixpoint evd_sort_insert (x : evd_event * evd_path_t) (l : list (evd_event * evd_path_t)) : list (evd_event * evd_path_t) :=
  match l with
  | [] => [x]
  | y :: r => if (length (snd y) <=? length (snd x))%nat then y :: evd_sort_insert x r else x :: l
  end.
Definition evd_sort (l : list (evd_event * evd_path_t)) : list (evd_event * evd_path_t) :=
  fold_left (fun acc x => evd_sort_insert x acc) l [].

(* event_cache[i], set_current_target(d), path *)
Fixpoint evd_collect (f : evd_forest) (st : evd_st) (cache : list evd_event) (d : evd_ty) (idxs : list nat)
                     : option (list (evd_event * evd_path_t)) :=
  match idxs with
  | [] => Some []
  | i :: r =>
      match nth_error cache i with
      | None => None
      | Some e =>
          match evd_path f st d (evd_e_target e), evd_collect f st cache d r with
          | Some p, Some l => Some ((e, p) :: l)
          | _, _ => None
          end
      end
  end.

(* `for (&branch, events) in changed_parents.iter()` *)
Fixpoint evd_loop2 (f : evd_forest) (st : evd_st) (cache : list evd_event) (cp : evd_cp_map) : option (list evd_call) :=
  match cp with
  | [] => Some []
  | (d, idxs) :: r =>
      match evd_collect f st cache d idxs, evd_loop2 f st cache r with
      | Some es, Some calls => Some (EvdDeep d (evd_sort es) :: calls)
      | _, _ => None
      end
  end.

Definition evd_w0 : evd_wst := {| evd_w_cpt := []; evd_w_cp := []; evd_w_vis := [] |}.
Definition evd_l10 : evd_l1 := {| evd_l1_cache := []; evd_l1_calls := []; evd_l1_w := evd_w0 |}.

(* call_observers with explicit iteration orders: `order` is the order in which the HashMap `changed` is
   iterated, `perm2` reorders `changed_parents` (a function on lists; theorems require it to be a permutation) *)
Definition evd_call_observers_with (f : evd_forest) (obs dobs : list evd_ty) (st : evd_st)
             (order : evd_changed_map) (perm2 : evd_cp_map -> evd_cp_map) : option (list evd_call * list evd_ty) :=
  match evd_loop1 f obs dobs evd_l10 order with
  | None => None
  | Some s =>
      match evd_loop2 f st (evd_l1_cache s) (perm2 (evd_w_cp (evd_l1_w s))) with
      | None => None
      | Some deep => Some (evd_l1_calls s ++ deep, evd_w_cpt (evd_l1_w s))
      end
  end.

Definition evd_call_observers (f : evd_forest) (obs dobs : list evd_ty) (st : evd_st) : option (list evd_call * list evd_ty) :=
  evd_call_observers_with f obs dobs st (evd_changed st) (fun cp => cp).

Definition evd_call_observers_with_pre_dedup (f : evd_forest) (obs dobs : list evd_ty) (st : evd_st)
             (order : evd_changed_map) (perm2 : evd_cp_map -> evd_cp_map) : option (list evd_call * list evd_ty) :=
  match evd_loop1_pre_dedup f obs dobs evd_l10 order with
  | None => None
  | Some s =>
      match evd_loop2 f st (evd_l1_cache s) (perm2 (evd_w_cp (evd_l1_w s))) with
      | None => None
      | Some deep => Some (evd_l1_calls s ++ deep, evd_w_cpt (evd_l1_w s))
      end
  end.
Definition evd_call_observers_pre_dedup (f : evd_forest) (obs dobs : list evd_ty) (st : evd_st) : option (list evd_call * list evd_ty) :=
  evd_call_observers_with_pre_dedup f obs dobs st (evd_changed st) (fun cp => cp).

(* commit: `if !self.changed.is_empty() { self.call_observers() }`, then cleanup_fmt deletes the items in `cleanup`
   through TransactionMut::delete (which extends `changed`), and nothing reads `changed` for observers afterwards *)
Definition evd_commit (f : evd_forest) (obs dobs : list evd_ty) (effs cleanup : list evd_effect) (del0 : list evd_id)
             : option (list evd_call * list evd_ty * evd_st) :=
  let st := evd_run f effs (evd_st0 del0) in
  let r := match evd_changed st with
           | [] => Some ([], [])
           | _ => evd_call_observers f obs dobs st
           end in
  match r with
  | None => None
  | Some (calls, cpt) => Some (calls, cpt, evd_run f cleanup st)
  end.

(* the set of calls as (deep?, observer, target, path) *)
Definition evd_triples (calls : list evd_call) : list (bool * evd_ty * evd_ty * evd_path_t) :=
  flat_map (fun c => match c with
                     | EvdShallow t e => [(false, t, evd_e_target e, [])]
                     | EvdDeep d es => map (fun ep => (true, d, evd_e_target (fst ep), snd ep)) es
                     end) calls.

(* ---------------------------------------------------------------------------------------------- *)
(* well-formedness, as boolean checks the harness can run *)

Definition evd_all_types (f : evd_forest) : list evd_ty := map N.of_nat (seq 0 (length f)).

(* parents come first in the numbering (a type is created after its parent), every pointer is in range *)
Definition evd_forest_okb (f : evd_forest) : bool :=
  forallb (fun t => match evd_holder_of f t with
                    | None => true
                    | Some h => match evd_h_parent h with Some p => p <? t | None => true end
                                && forallb (fun l => l <? N.of_nat (length f)) (evd_h_links h)
                    end) (evd_all_types f).
(* two types are not held by the same item *)
Definition evd_holders_distinctb (f : evd_forest) : bool :=
  forallb (fun t => forallb (fun u => match evd_holder_of f t, evd_holder_of f u with
                                      | Some h, Some g => implb (evd_h_item h =? evd_h_item g) (t =? u)
                                      | _, _ => true
                                      end) (evd_all_types f)) (evd_all_types f).
(* no quotation: linked_by is empty for every holder *)
Definition evd_no_linksb (f : evd_forest) : bool :=
  forallb (fun t => match evd_holder_of f t with Some h => match evd_h_links h with [] => true | _ => false end | None => true end)
          (evd_all_types f).
(* Branch::path never unwraps a parent that is not a branch *)
Definition evd_parents_knownb (f : evd_forest) : bool :=
  forallb (fun t => match evd_holder_of f t with Some h => match evd_h_parent h with Some _ => true | None => false end | None => true end)
          (evd_all_types f).

(* an effect agrees with the forest: the item an effect marks deleted holds type t exactly when the effect says so
   (inner is read from the item's content, and branch.item of that content is the item) *)
Definition evd_holds (f : evd_forest) (item : evd_id) (t : evd_ty) : bool :=
  match evd_holder_of f t with Some h => evd_h_item h =? item | None => false end.
Definition evd_otyp_eqb (a : option evd_ty) (t : evd_ty) : bool := match a with Some x => x =? t | None => false end.
Definition evd_eff_okb (f : evd_forest) (e : evd_effect) : bool :=
  match e with
  | EvdInteg p _ item dead links =>
      (p <? N.of_nat (length f)) && forallb (fun l => l <? N.of_nat (length f)) links &&
      (if dead then forallb (fun t => negb (evd_holds f item t)) (evd_all_types f) else true)
  | EvdDel p _ item inner links =>
      match p with Some p => p <? N.of_nat (length f) | None => true end &&
      match inner with Some t => t <? N.of_nat (length f) | None => true end &&
      forallb (fun l => l <? N.of_nat (length f)) links &&
      forallb (fun t => Bool.eqb (evd_holds f item t) (evd_otyp_eqb inner t)) (evd_all_types f)
  end.

(* what the event of a sequence type will report (tie to YV.Crdt.Events): the item list of type t with the
   flags of the state at commit *)
Definition evd_items_of (f : evd_forest) (st : evd_st) (t : evd_ty) : list sitem := map (evd_sitem st) (evd_seq_of f t).

(* ---------------------------------------------------------------------------------------------- *)
(* DRIVER for the executable tie: first-order arguments only.

   evd_deep_calls types events dobs : option (list (N * list (N * list (bool * N))))

   ARGUMENTS
   - types : list evd_drv_type. One element per shared type (Branch) of the document, root types included; the
     position in the list (from 0) is the TYPE INDEX used everywhere else. Order: PARENTS FIRST - a type must come
     after the type that contains its holder item (e.g. all roots first, then by creation; any topological order).
     Each element is the 6-tuple  (parent, parent_sub, holder, kind, seq, linked_by)  nested to the left, i.e. the Coq
     value ((((( parent, parent_sub), holder), kind), seq), linked_by):
       parent     : option N  - None for a root type (branch.item = None); Some p = type index of the branch that is
                                the parent of the holder item (branch.item.parent), p < own index.
       parent_sub : option N  - branch.item.parent_sub as an interned number (same string = same number, any
                                numbering), None when the holder sits in the parent's sequence. Ignored for roots.
       holder     : N         - branch.item.id as an interned number (one number per (client, clock); the same
                                interning as for the item ids in seq). Ignored for roots (give 0).
       kind       : N         - TypeRef::kind(): 0 Array, 1 Map, 2 Text, 3 XmlElement, 4 XmlFragment, 5 XmlHook,
                                6 XmlText, 7 WeakLink, 9 SubDoc, 15 (or anything else) Undefined.
       seq        : list (N * N * bool) - the items of branch.start, .right, .right ... in that order, AT COMMIT
                                (when the observers run), each as ((item id interned, len), deleted) with
                                len = item.len() if item.is_countable() else 0, deleted = item.is_deleted().
                                Only needed for types that hold other types in their sequence (it is used to compute
                                PathSegment::Index); [] is fine for the others. The holder of a child must appear in
                                the seq of its parent under the same interned id, as ONE entry.
       linked_by  : list N    - type indexes of the weak-link branches in store.linked_by[branch.item] at commit if
                                branch.item.info.is_linked(), else []. Ignored for roots.
   - events : list N - the type indexes for which call_observers created an event (keys of `changed` whose
     make_event returned Some), in the order the events were created = the order of the shallow callbacks when a
     shallow observer is registered on every type. No repetitions.
   - dobs : list N - the type indexes with at least one deep observer (deep_observers.has_subscribers()).

   RESULT
   Some calls: one element per call of a deep observer, SORTED BY THE INDEX OF THE OBSERVING TYPE, ascending (the code
   iterates a HashMap here; sort the recording the same way - every observing type is called at most once).
   Each element is (observer, events) with events in the order Events::iter() yields them, each event as
   (target type index, path) and path = Event::path() as a list of (true, interned key) for PathSegment::Key and
   (false, index) for PathSegment::Index.
   None: the input is inconsistent (evd_forest_okb fails: a parent or link index not smaller than / outside the
   list; an index in `events` out of range, repeated, or of a kind without event) or the transcription reached one
   of its failure values (cannot happen for inputs that pass these checks: evd_call_observers_total).
   This is the code AFTER the repair of finding A; evd_deep_calls_pre_dedup is the pinned tree. *)

Definition evd_drv_type := (option N * option N * N * N * list (N * N * bool) * list N)%type.

Definition evd_drv_kind (k : N) : evd_kind :=
  if k =? 0 then EvdArray else if k =? 1 then EvdMap else if k =? 2 then EvdText else if k =? 3 then EvdXmlElement
  else if k =? 4 then EvdXmlFragment else if k =? 5 then EvdXmlHook else if k =? 6 then EvdXmlText
  else if k =? 7 then EvdWeak else if k =? 9 then EvdSubDoc else EvdUndefined.

Definition evd_drv_node (t : evd_drv_type) : evd_node :=
  let '(parent, psub, hid, kind, sq, links) := t in
  {| evd_n_holder := match parent with
                     | None => None
                     | Some p => Some {| evd_h_item := hid; evd_h_parent := Some p; evd_h_sub := psub; evd_h_links := links |}
                     end;
     evd_n_kind := evd_drv_kind kind;
     evd_n_seq := map (fun e : N * N * bool => ((fst (fst e), (snd (fst e), [])) : evd_sentry)) sq |}.

Definition evd_drv_deleted (t : evd_drv_type) : list evd_id :=
  let '(_, _, _, _, sq, _) := t in flat_map (fun e : N * N * bool => if snd e then [fst (fst e)] else []) sq.

(* insertion sort of changed_parents by observing type *)
Fixpoint evd_drv_insert (en : evd_ty * list nat) (cp : evd_cp_map) : evd_cp_map :=
  match cp with
  | [] => [en]
  | y :: r => if fst y <=? fst en then y :: evd_drv_insert en r else en :: cp
  end.
Definition evd_drv_sort_cp (cp : evd_cp_map) : evd_cp_map := fold_left (fun acc en => evd_drv_insert en acc) cp [].

Fixpoint evd_drv_nodupb (l : list N) : bool :=
  match l with [] => true | x :: r => negb (evd_mem x r) && evd_drv_nodupb r end.

Definition evd_drv_seg (s : evd_seg) : bool * N := match s with EvdKey k => (true, k) | EvdIndex i => (false, i) end.

Definition evd_drv_out (calls : list evd_call) : list (N * list (N * list (bool * N))) :=
  flat_map (fun c => match c with
                     | EvdShallow _ _ => []
                     | EvdDeep d es => [(d, map (fun ep => (evd_e_target (fst ep), map evd_drv_seg (snd ep))) es)]
                     end) calls.

Definition evd_drv_checks (f : evd_forest) (events : list N) : bool :=
  evd_forest_okb f && evd_drv_nodupb events &&
  forallb (fun t => (t <? N.of_nat (length f)) &&
                    match evd_make_event (evd_kind_of f t) with Some _ => true | None => false end) events.

Definition evd_drv_state (types : list evd_drv_type) : evd_st :=
  {| evd_changed := []; evd_ins := []; evd_del := flat_map evd_drv_deleted types; evd_dset := [] |}.

Definition evd_deep_calls (types : list evd_drv_type) (events dobs : list N) : option (list (N * list (N * list (bool * N)))) :=
  let f := map evd_drv_node types in
  if evd_drv_checks f events then
    match evd_call_observers_with f [] dobs (evd_drv_state types) (map (fun t => (t, [])) events) evd_drv_sort_cp with
    | Some (calls, _) => Some (evd_drv_out calls)
    | None => None
    end
  else None.

Definition evd_deep_calls_pre_dedup (types : list evd_drv_type) (events dobs : list N) : option (list (N * list (N * list (bool * N)))) :=
  let f := map evd_drv_node types in
  if evd_drv_checks f events then
    match evd_call_observers_with_pre_dedup f [] dobs (evd_drv_state types) (map (fun t => (t, [])) events) evd_drv_sort_cp with
    | Some (calls, _) => Some (evd_drv_out calls)
    | None => None
    end
  else None.

(* txn.changed_parent_types() for the same input (type indexes in push order, with repetitions) *)
Definition evd_changed_parent_types (types : list evd_drv_type) (events : list N) : option (list N) :=
  let f := map evd_drv_node types in
  if evd_drv_checks f events then
    match evd_call_observers_with f [] [] (evd_drv_state types) (map (fun t => (t, [])) events) evd_drv_sort_cp with
    | Some (_, cpt) => Some cpt
    | None => None
    end
  else None.
