(* LOCAL edits of an array-like sequence at BLOCK level: the cursor `BlockIter` of yrs and its callers.

   Transcribed from the pinned tree (worktree /tmp/bit/repo, HEAD b84e8bf), files under yrs/src:

     bit_iter, bit_iter_new          block_iter.rs   struct BlockIter, BlockIter::new
     bit_finished                    block_iter.rs   BlockIter::finished
     bit_it_left, bit_it_right       block_iter.rs   BlockIter::left, BlockIter::right  (next_item = field bit_next)
     bit_can_forward                 block_iter.rs   BlockIter::can_forward
     bit_forward_loop                block_iter.rs   BlockIter::try_forward, `while self.can_forward(item, len)`
     bit_try_forward                 block_iter.rs   BlockIter::try_forward   (BlockIter::forward = panic on false: tag 14)
     bit_split_rel                   block_iter.rs   BlockIter::split_rel
     bit_insert_contents             block_iter.rs   BlockIter::insert_contents (Item::new, TransactionMut::integrate_item(.., 0),
                                                     the update of next_item / reached_end afterwards)
     bit_txn_delete                  transaction.rs  TransactionMut::delete (deleted flag, parent.content_len -= ..)
     bit_delete_inner                block_iter.rs   BlockIter::delete, `while let Some(block) = item.as_deref()`
     bit_delete_outer, bit_delete    block_iter.rs   BlockIter::delete, `while len > 0`
     bit_read                        block.rs        ItemContent::read(offset, buf)
     bit_slice_inner                 block_iter.rs   BlockIter::slice, `while let Some(item) = next_item`
     bit_slice_outer, bit_slice      block_iter.rs   BlockIter::slice, `while len > 0`
     bit_read_value                  block_iter.rs   BlockIter::read_value
     bit_values_loop                 block_iter.rs / types/array.rs   Values::next / ArrayIter::next, iterated to the end
     bit_array_insert                types/array.rs  Array::insert (insert_range = insert of a RangePrelim, a ContentAny of n values;
                                                     push_back = insert(len), push_front = insert(0))
     bit_array_remove_range          types/array.rs  Array::remove_range (remove = remove_range(i, 1)); XmlFragment::remove_range is the
                                                     same code (types/xml.rs:1117)
     bit_array_get                   types/array.rs  Array::get
     bit_array_iter                  types/array.rs  Array::iter (ArrayIter), collected
     bit_array_to_json               types/array.rs  ToJson for ArrayRef (one slice of branch.len() values)
     bit_get_at                      branch.rs       Branch::get_at
     bit_index_to_ptr                branch.rs       Branch::index_to_ptr (with Store::split_block = BlockStore::split_block)
     bit_insert_at                   branch.rs       Branch::insert_at (TransactionMut::create_item, parent_sub = None)
     bit_remove_at_loop, bit_remove_at   branch.rs   Branch::remove_at   (no caller in the pinned tree: dead code)
     bit_countable, bit_len          block.rs        Item::is_countable (= ItemContent::is_countable), Item::content_len / Item::len
     splits                          store.rs        Store::materialize of a get_item_clean_start slice = YataBlocks.yib_clean_start,
                                                     ItemPtr::splice = YataBlocks.yib_split_at / Blocks.blk_split
     integration                     YataBlocks.yib_integrate_ptrs (integrate_item with the given left / right pointers)

   OUT OF SCOPE: move ranges.  The pinned BlockIter has no move stack (`reduce_moves`, `curr_move*` are gone, see the TODO in
   try_forward l.121); ContentMove and `Array::move_to` are not modelled.  BlockIter::backward has no caller: not transcribed.

   MODEL.  One branch = [bit_branch]: its blocks in document order (YataBlocks.yib_seq: wire block + deleted flag) and the cached
   `content_len`.  The cursor is [bit_iter].

   WHERE THE MODEL IS MORE ABSTRACT THAN THE CODE
    1. Pointers.  An ItemPtr is the id of the first unit of the block (as in YataBlocks.v); `item.right` / `item.left` are the
       list neighbours ([bit_right] / [bit_left]), `branch.start` the head.  A pointer that does not dereference is failure 10
       (proved impossible).  The loops of Branch::get_at / index_to_ptr / remove_at walk `ptr = item.right` from `branch.start`
       and keep no pointer between calls: they are structural recursions on the list (one call per iteration), as the conflict
       loop of YataBlocks.v.  The loops of BlockIter keep explicit pointers and take fuel.
    2. Lengths.  `Item::len()` (clock length, UTF-16) and `Item::content_len(store.offset_kind)` are one function [bit_len]
       (= block_len), `Branch::block_len` and `Branch::content_len` one field [bit_clen]: exact for every content except
       ContentString under OffsetKind::Bytes.  Arrays and XML child lists never hold ContentString through the API (strings in
       arrays are Any::String inside ContentAny).  For the same reason `ItemContent::read` on a ContentString (one value per
       `char`) is modelled as one value per UTF-16 unit (Doc.content_units), and `s.block_offset(index, encoding)` in
       index_to_ptr / remove_at is the identity.
    3. Values.  `Out` values are the unit contents (Doc.ucontent) of Doc.content_units: one per element.  The content to insert
       (`Prelim::into_content`) is given as a wire content [bcontent]; `remainder.integrate` (filling a nested type) is not modelled.
    4. The store is this one sequence: the new id is a parameter (`store.client_id`, `blocks.get_clock(client)`);
       get_item_clean_start searches this sequence.  TransactionMut::delete: deleted flag and `content_len` only (as YataBlocks.v:
       no recursion into children, delete set, links, sub-documents, changed types).  integrate_item: yib_integrate_ptrs plus
       `parent.content_len += len` (block.rs:1097, for a countable item that arrives not deleted).
    5. u32 arithmetic is on N.  Overflow (`self.index + len`, `id.clock += rel`) is not modelled; every subtraction that can go
       below zero is an explicit failure 12.

   FAILURE VALUES (yib_fail tag; tags 1-3 are those of YataBlocks.v):
     10  a pointer does not dereference (cannot happen)
     11  a loop ran out of fuel (the code would not terminate)
     12  u32 underflow: `self.index -= len`, `len -= i.content_len(..)`, `parent.content_len -= ..`, `index -= len`
     13  panic "Index {} is outside of the range of an array" (Array::insert / remove_range: try_forward returned false)
     14  panic "Length exceeded" (BlockIter::delete: index + len > content_len)
     15  panic "Block iter couldn't move forward" (BlockIter::delete)
     16  unwrap / expect on None (`item.as_deref().unwrap()` in delete; "cannot insert empty value": Item::new returned None)
     17  panic "Cannot insert item at index over the length of an array" (Branch::insert_at)
     18  Branch::insert_at: index_to_ptr returned (None, None) for an index > 0 - the code would go on and insert at the START
         of the list; made a failure here, proved impossible when content_len is right *)
From Coq Require Import List NArith Bool.
From YV Require Import Codec.UpdateV1 Crdt.Doc Crdt.Blocks Crdt.YataBlocks.
Import ListNotations.
Open Scope N_scope.

(* ---------- blocks ---------- *)
Definition bit_countable (b : yib_blk) : bool :=
  match yib_b b with
  | BItem _ _ _ _ _ (BDeleted _) => false
  | BItem _ _ _ _ _ (BFormat _ _) => false
  | BItem _ _ _ _ _ _ => true
  | _ => false
  end.
Definition bit_len (b : yib_blk) : N := yib_len b.
Definition bit_live (b : yib_blk) : bool := negb (yib_del b) && bit_countable b.
(* the values of a block, one per element *)
Definition bit_units (b : yib_blk) : list ucontent :=
  match yib_b b with BItem _ _ _ _ _ c => content_units c | _ => [] end.

(* ---------- one branch ---------- *)
Record bit_branch := bit_mkbranch { bit_seq : yib_seq; bit_clen : N }.

(* item.right / item.left of the block p points to *)
Fixpoint bit_right (p : id) (s : yib_seq) : option id :=
  match s with
  | [] => None
  | b :: r => if id_eqb (yib_id b) p then yib_head_ptr r else bit_right p r
  end.
Fixpoint bit_left_from (prev : option id) (p : id) (s : yib_seq) : option id :=
  match s with
  | [] => None
  | b :: r => if id_eqb (yib_id b) p then prev else bit_left_from (Some (yib_id b)) p r
  end.
Definition bit_left (p : id) (s : yib_seq) : option id := bit_left_from None p s.

(* ---------- BlockIter ---------- *)
Record bit_iter := bit_mkiter { bit_index : N; bit_rel : N; bit_next : option id; bit_end : bool }.

Definition bit_iter_new (br : bit_branch) : bit_iter :=
  let st := yib_head_ptr (bit_seq br) in
  bit_mkiter 0 0 st (match st with None => true | Some _ => false end).

Definition bit_finished (br : bit_branch) (it : bit_iter) : bool :=
  bit_end it || (bit_index it =? bit_clen br).

Definition bit_it_left (s : yib_seq) (it : bit_iter) : option id :=
  if bit_end it then bit_next it
  else match bit_next it with Some p => bit_left p s | None => None end.
Definition bit_it_right (it : bit_iter) : option id :=
  if bit_end it then None else bit_next it.

Definition bit_can_forward (s : yib_seq) (re : bool) (item : option id) (len : N) : yib_res bool :=
  if negb re then
    if 0 <? len then yib_ok true
    else match item with
         | Some p => match yib_deref p s with
                     | Some b => yib_ok (negb (bit_countable b) || yib_del b || re)
                     | None => yib_fail 10
                     end
         | None => yib_ok false
         end
  else yib_ok false.

(* how the while loop of try_forward is left: normally (`break` or the loop condition) with item / len / self.rel /
   self.reached_end, or by `return false` *)
Inductive bit_loop_out :=
| bit_ldone (item : option id) (len rel : N) (re : bool)
| bit_lfalse (re : bool).

Fixpoint bit_forward_loop (fuel : nat) (s : yib_seq) (item : option id) (len rel : N) (re : bool)
  : yib_res bit_loop_out :=
  match fuel with
  | O => yib_fail 11
  | S f =>
    match bit_can_forward s re item len with
    | yib_fail t => yib_fail t
    | yib_ok false => yib_ok (bit_ldone item len rel re)
    | yib_ok true =>
      match item with
      | None => yib_ok (bit_lfalse re)                                 (* if item.is_none() { return false } *)
      | Some p =>
        match yib_deref p s with
        | None => yib_fail 10
        | Some b =>
          let step (len' : N) :=
            if re then yib_ok (bit_lfalse re)                          (* if self.reached_end { return false } *)
            else match bit_right p s with
                 | Some q => bit_forward_loop f s (Some q) len' rel re
                 | None => bit_forward_loop f s item len' rel true     (* self.reached_end = true *)
                 end in
          if bit_countable b && negb (yib_del b) && (0 <? len) then
            let item_len := bit_len b in
            if len <? item_len then yib_ok (bit_ldone item 0 len re)   (* self.rel = len; len = 0; break *)
            else step (len - item_len)
          else step len
        end
      end
    end
  end.

(* try_forward(len): the returned bool and the iterator afterwards *)
Definition bit_try_forward (fuel : nat) (br : bit_branch) (it : bit_iter) (len : N) : yib_res (bool * bit_iter) :=
  match bit_next it with
  | None => yib_ok (len =? 0, it)
  | Some _ =>
    if bit_clen br <? bit_index it + len then yib_ok (false, it)
    else
      let index1 := bit_index it + len in
      let len1 := if bit_rel it =? 0 then len else len + bit_rel it in
      match bit_forward_loop fuel (bit_seq br) (bit_next it) len1 0 (bit_end it) with
      | yib_fail t => yib_fail t
      | yib_ok (bit_lfalse re) => yib_ok (false, bit_mkiter index1 0 (bit_next it) re)
      | yib_ok (bit_ldone item len2 rel2 re2) =>
        if index1 <? len2 then yib_fail 12                             (* self.index -= len *)
        else yib_ok (true, bit_mkiter (index1 - len2) rel2 item re2)
      end
  end.

Definition bit_fuel (s : yib_seq) : nat := S (S (length s)).

(* ---------- insertion ---------- *)
(* split_rel: next_item = materialize(get_item_clean_start(next_item.id + rel)) *)
Definition bit_split_rel (s : yib_seq) (it : bit_iter) : yib_res (yib_seq * bit_iter) :=
  if 0 <? bit_rel it then
    match bit_next it with
    | Some p =>
      yib_bind (yib_clean_start (mkid (cl p) (ck p + bit_rel it)) s) (fun qs =>
        yib_ok (snd qs, bit_mkiter (bit_index it) 0 (fst qs) (bit_end it)))
    | None => yib_ok (s, it)
    end
  else yib_ok (s, it).

(* Item::new(id, left, left.last_id(), right, right.id, parent, None, content); None for an empty content *)
Definition bit_new_item (s : yib_seq) (newid : id) (par : parent) (c : bcontent) (left right : option id)
  : yib_res yib_blk :=
  if content_len c =? 0 then yib_fail 16
  else
    match (match left with
           | None => yib_ok None
           | Some p => match yib_deref p s with Some lb => yib_ok (Some (yib_last_id lb)) | None => yib_fail 10 end
           end) with
    | yib_fail t => yib_fail t
    | yib_ok origin => yib_ok (yib_mk (BItem newid origin right par None c) false)
    end.

(* integrate_item(block, 0) on the branch: the linking and `parent.content_len += ..` *)
Definition bit_integrate (br : bit_branch) (x : yib_blk) (left right : option id) : yib_res bit_branch :=
  yib_bind (yib_integrate_ptrs (bit_seq br) x left right false) (fun s' =>
    yib_ok (bit_mkbranch s' (if bit_countable x && negb (yib_is_deleted_content x)
                             then bit_clen br + bit_len x else bit_clen br))).

Definition bit_insert_contents (br : bit_branch) (it : bit_iter) (newid : id) (par : parent) (c : bcontent)
  : yib_res (bit_branch * bit_iter) :=
  yib_bind (bit_split_rel (bit_seq br) it) (fun si =>
    let s1 := fst si in let it1 := snd si in
    let right := bit_it_right it1 in
    let left := bit_it_left s1 it1 in
    yib_bind (bit_new_item s1 newid par c left right) (fun x =>
    yib_bind (bit_integrate (bit_mkbranch s1 (bit_clen br)) x left right) (fun br' =>
      yib_ok (br',
              match right with
              | Some r => bit_mkiter (bit_index it1) (bit_rel it1) (bit_right r (bit_seq br')) (bit_end it1)
              | None => bit_mkiter (bit_index it1) (bit_rel it1) left true
              end)))).

(* Array::insert(index, value) *)
Definition bit_array_insert (br : bit_branch) (index : N) (newid : id) (par : parent) (c : bcontent)
  : yib_res bit_branch :=
  match bit_try_forward (bit_fuel (bit_seq br)) br (bit_iter_new br) index with
  | yib_fail t => yib_fail t
  | yib_ok (false, _) => yib_fail 13
  | yib_ok (true, w) => yib_bind (bit_insert_contents br w newid par c) (fun r => yib_ok (fst r))
  end.

(* ---------- deletion ---------- *)
Fixpoint bit_set_deleted (p : id) (s : yib_seq) : yib_seq :=
  match s with
  | [] => []
  | b :: r => if id_eqb (yib_id b) p then yib_set_del b true :: r else b :: bit_set_deleted p r
  end.

(* TransactionMut::delete(item) *)
Definition bit_txn_delete (p : id) (br : bit_branch) : yib_res bit_branch :=
  match yib_deref p (bit_seq br) with
  | None => yib_fail 10
  | Some b =>
    if yib_del b then yib_ok br
    else if bit_countable b then
      if bit_clen br <? bit_len b then yib_fail 12
      else yib_ok (bit_mkbranch (bit_set_deleted p (bit_seq br)) (bit_clen br - bit_len b))
    else yib_ok (bit_mkbranch (bit_set_deleted p (bit_seq br)) (bit_clen br))
  end.

(* state of the loops of delete: the branch, `item`, `len`, self.rel, self.reached_end *)
Record bit_dstate := bit_mkd { bit_d_br : bit_branch; bit_d_item : option id; bit_d_len : N; bit_d_rel : N; bit_d_end : bool }.

Fixpoint bit_delete_inner (fuel : nat) (st : bit_dstate) : yib_res bit_dstate :=
  match fuel with
  | O => yib_fail 11
  | S f =>
    let br := bit_d_br st in
    match bit_d_item st with
    | None => yib_ok st
    | Some p =>
      match yib_deref p (bit_seq br) with
      | None => yib_fail 10
      | Some b =>
        if negb (yib_del b) && bit_countable b && negb (bit_d_end st) && (0 <? bit_d_len st) then
          (* if self.rel > 0 { item = materialize(clean_start(id + rel)); i = item.unwrap(); self.rel = 0 } *)
          yib_bind (if 0 <? bit_d_rel st then
                      yib_bind (yib_clean_start (mkid (cl (yib_id b)) (ck (yib_id b) + bit_d_rel st)) (bit_seq br))
                               (fun qs => match fst qs with Some q => yib_ok (q, snd qs) | None => yib_fail 16 end)
                    else yib_ok (p, bit_seq br)) (fun ps1 =>
          let p1 := fst ps1 in let s1 := snd ps1 in
          match yib_deref p1 s1 with
          | None => yib_fail 10
          | Some b1 =>
            (* if len < i.content_len() { materialize(clean_start(i.id + len)) } *)
            yib_bind (if bit_d_len st <? bit_len b1 then
                        yib_bind (yib_clean_start (mkid (cl (yib_id b1)) (ck (yib_id b1) + bit_d_len st)) s1)
                                 (fun qs => yib_ok (snd qs))
                      else yib_ok s1) (fun s2 =>
            match yib_deref p1 s2 with                                   (* `i` is read again after the split *)
            | None => yib_fail 10
            | Some b2 =>
              if bit_d_len st <? bit_len b2 then yib_fail 12             (* len -= i.content_len(encoding) *)
              else
                yib_bind (bit_txn_delete p1 (bit_mkbranch s2 (bit_clen br))) (fun br3 =>
                  match bit_right p1 (bit_seq br3) with
                  | Some q => bit_delete_inner f (bit_mkd br3 (Some q) (bit_d_len st - bit_len b2) 0 (bit_d_end st))
                  | None => bit_delete_inner f (bit_mkd br3 (Some p1) (bit_d_len st - bit_len b2) 0 true)
                  end)
            end)
          end)
        else yib_ok st
      end
    end
  end.

(* `while len > 0 { inner; if len > 0 { self.next_item = item; try_forward(0) or panic; item = self.next_item } }` *)
Fixpoint bit_delete_outer (fuel : nat) (index : N) (st : bit_dstate) : yib_res bit_dstate :=
  match fuel with
  | O => yib_fail 11
  | S f =>
    if bit_d_len st =? 0 then yib_ok st
    else
      yib_bind (bit_delete_inner (bit_fuel (bit_seq (bit_d_br st))) st) (fun st1 =>
        if 0 <? bit_d_len st1 then
          match bit_try_forward (bit_fuel (bit_seq (bit_d_br st1))) (bit_d_br st1)
                                (bit_mkiter index (bit_d_rel st1) (bit_d_item st1) (bit_d_end st1)) 0 with
          | yib_fail t => yib_fail t
          | yib_ok (false, _) => yib_fail 15
          | yib_ok (true, it2) =>
            bit_delete_outer f (bit_index it2)
                             (bit_mkd (bit_d_br st1) (bit_next it2) (bit_d_len st1) (bit_rel it2) (bit_end it2))
          end
        else bit_delete_outer f index st1)
  end.

(* BlockIter::delete(len) *)
Definition bit_delete (br : bit_branch) (it : bit_iter) (len : N) : yib_res (bit_branch * bit_iter) :=
  if bit_clen br <? bit_index it + len then yib_fail 14
  else
    yib_bind (bit_delete_outer (bit_fuel (bit_seq br)) (bit_index it)
                               (bit_mkd br (bit_next it) len (bit_rel it) (bit_end it))) (fun st =>
      yib_ok (bit_d_br st, bit_mkiter (bit_index it) (bit_d_rel st) (bit_d_item st) (bit_d_end st))).

(* Array::remove_range(index, len) *)
Definition bit_array_remove_range (br : bit_branch) (index len : N) : yib_res bit_branch :=
  match bit_try_forward (bit_fuel (bit_seq br)) br (bit_iter_new br) index with
  | yib_fail t => yib_fail t
  | yib_ok (false, _) => yib_fail 13
  | yib_ok (true, w) => yib_bind (bit_delete br w len) (fun r => yib_ok (fst r))
  end.

(* ---------- reading ---------- *)
(* ItemContent::read(offset, buf) with buf.len() = n: the values copied *)
Definition bit_read (b : yib_blk) (offset n : N) : list ucontent :=
  firstn (N.to_nat n) (skipn (N.to_nat offset) (bit_units b)).

(* state of the loops of slice: next_item, len, self.rel, self.reached_end, buf[..read] *)
Record bit_sstate := bit_mks { bit_s_item : option id; bit_s_len : N; bit_s_rel : N; bit_s_end : bool;
                               bit_s_buf : list ucontent }.

Fixpoint bit_slice_inner (fuel : nat) (s : yib_seq) (st : bit_sstate) : yib_res bit_sstate :=
  match fuel with
  | O => yib_fail 11
  | S f =>
    match bit_s_item st with
    | None => yib_ok st
    | Some p =>
      match yib_deref p s with
      | None => yib_fail 10
      | Some b =>
        if bit_countable b && negb (bit_s_end st) && (0 <? bit_s_len st) then
          let go_right (len' rel' : N) (buf' : list ucontent) :=
            match bit_right p s with
            | Some q => bit_slice_inner f s (bit_mks (Some q) len' rel' (bit_s_end st) buf')
            | None => bit_slice_inner f s (bit_mks (Some p) len' rel' true buf')
            end in
          if negb (yib_del b) then
            let vals := bit_read b (bit_s_rel st) (bit_s_len st) in
            let r := N.of_nat (length vals) in
            if bit_s_len st <? r then yib_fail 12
            else if bit_s_rel st + r =? bit_len b then go_right (bit_s_len st - r) 0 (bit_s_buf st ++ vals)
            else bit_slice_inner f s (bit_mks (Some p) (bit_s_len st - r) (bit_s_rel st + r) (bit_s_end st)
                                              (bit_s_buf st ++ vals))       (* continue *)
          else go_right (bit_s_len st) (bit_s_rel st) (bit_s_buf st)
        else yib_ok st
      end
    end
  end.

(* the outer loop; the result is the iterator afterwards and buf[..read] *)
Fixpoint bit_slice_outer (fuel : nat) (br : bit_branch) (index : N) (st : bit_sstate)
  : yib_res (bit_iter * list ucontent) :=
  match fuel with
  | O => yib_fail 11
  | S f =>
    if bit_s_len st =? 0 then
      yib_ok (bit_mkiter index (bit_s_rel st) (bit_s_item st) (bit_s_end st), bit_s_buf st)
    else if negb (bit_s_end st) then
      yib_bind (bit_slice_inner (bit_fuel (bit_seq br) + N.to_nat (bit_s_len st)) (bit_seq br) st) (fun st1 =>
        if negb (bit_s_end st1) && (0 <? bit_s_len st1) then
          match bit_try_forward (bit_fuel (bit_seq br)) br
                                (bit_mkiter index (bit_s_rel st1) (bit_s_item st1) (bit_s_end st1)) 0 with
          | yib_fail t => yib_fail t
          | yib_ok (okf, it2) =>
            if negb okf || (match bit_next it2 with None => true | Some _ => false end)
            then yib_ok (it2, bit_s_buf st1)                              (* return read *)
            else bit_slice_outer f br (bit_index it2)
                                 (bit_mks (bit_next it2) (bit_s_len st1) (bit_rel it2) (bit_end it2) (bit_s_buf st1))
          end
        else bit_slice_outer f br index st1)
    else
      (* reached end: next_item = None; break; self.index -= len *)
      if index <? bit_s_len st then yib_fail 12
      else yib_ok (bit_mkiter (index - bit_s_len st) (bit_s_rel st) None (bit_s_end st), bit_s_buf st)
  end.

(* BlockIter::slice(buf) with buf.len() = n.  `self.index -= len` at the end is with len = 0 on the normal exit. *)
Definition bit_slice (br : bit_branch) (it : bit_iter) (n : N) : yib_res (bit_iter * list ucontent) :=
  if bit_clen br <? bit_index it + n then yib_ok (it, [])
  else bit_slice_outer (bit_fuel (bit_seq br)) br (bit_index it + n)
                       (bit_mks (bit_next it) n (bit_rel it) (bit_end it) []).

(* read_value: Some(buf[0]) when slice returned non-zero *)
Definition bit_read_value (br : bit_branch) (it : bit_iter) : yib_res (bit_iter * option ucontent) :=
  yib_bind (bit_slice br it 1) (fun r =>
    yib_ok (fst r, match snd r with v :: _ => Some v | [] => None end)).

(* Array::get(index) *)
Definition bit_array_get (br : bit_branch) (index : N) : yib_res (option ucontent) :=
  match bit_try_forward (bit_fuel (bit_seq br)) br (bit_iter_new br) index with
  | yib_fail t => yib_fail t
  | yib_ok (false, _) => yib_ok None
  | yib_ok (true, w) => yib_bind (bit_read_value br w) (fun r => yib_ok (snd r))
  end.

(* ToJson for ArrayRef: one slice of branch.len() values; the code panics when read <> len (tag 16) *)
Definition bit_array_to_json (br : bit_branch) : yib_res (list ucontent) :=
  yib_bind (bit_slice br (bit_iter_new br) (bit_clen br)) (fun r =>
    if N.of_nat (length (snd r)) =? bit_clen br then yib_ok (snd r) else yib_fail 16).

(* ArrayIter::next / Values::next until None *)
Fixpoint bit_values_loop (fuel : nat) (br : bit_branch) (it : bit_iter) (acc : list ucontent)
  : yib_res (list ucontent) :=
  match fuel with
  | O => yib_fail 11
  | S f =>
    if bit_finished br it then yib_ok acc
    else yib_bind (bit_read_value br it) (fun r =>
           match snd r with
           | Some v => bit_values_loop f br (fst r) (acc ++ [v])
           | None => yib_ok acc
           end)
  end.
Definition bit_array_iter (br : bit_branch) : yib_res (list ucontent) :=
  bit_values_loop (S (N.to_nat (bit_clen br))) br (bit_iter_new br) [].

(* ---------- Branch::get_at / index_to_ptr / insert_at / remove_at (XML children) ---------- *)
(* get_at(index): the content and the offset inside it; here the value at that offset *)
Fixpoint bit_get_at (s : yib_seq) (index : N) : option ucontent :=
  match s with
  | [] => None
  | b :: r =>
    if negb (yib_del b) && bit_countable b then
      if index <? bit_len b then nth_error (bit_units b) (N.to_nat index)
      else bit_get_at r (index - bit_len b)
    else bit_get_at r index
  end.

(* index_to_ptr(start, index) = (left, right) and the sequence after the split; the walk is on the suffix [suf],
   [pre] = what has been passed *)
Fixpoint bit_index_to_ptr (pre suf : yib_seq) (index : N) : yib_res (option id * option id * yib_seq) :=
  match suf with
  | [] => yib_ok (None, None, pre)
  | b :: r =>
    if negb (yib_del b) && bit_countable b then
      if index =? bit_len b then yib_ok (Some (yib_id b), yib_head_ptr r, pre ++ suf)
      else if index <? bit_len b then
        (* store.split_block(item, index): None when splice returns None (offset 0) *)
        if index =? 0 then yib_ok (Some (yib_id b), None, pre ++ suf)
        else yib_bind (yib_split_at (yib_id b) index (pre ++ suf)) (fun s' =>
               yib_ok (Some (yib_id b), Some (mkid (cl (yib_id b)) (ck (yib_id b) + index)), s'))
      else bit_index_to_ptr (pre ++ [b]) r (index - bit_len b)
    else bit_index_to_ptr (pre ++ [b]) r index
  end.

(* Branch::insert_at(index, value) *)
Definition bit_insert_at (br : bit_branch) (index : N) (newid : id) (par : parent) (c : bcontent)
  : yib_res bit_branch :=
  if bit_clen br <? index then yib_fail 17
  else
    yib_bind (if index =? 0 then yib_ok (None, yib_head_ptr (bit_seq br), bit_seq br)
              else bit_index_to_ptr [] (bit_seq br) index) (fun lrs =>
      let left := fst (fst lrs) in let right := snd (fst lrs) in let s1 := snd lrs in
      if (negb (index =? 0)) && (match left with None => true | Some _ => false end) then yib_fail 18
      else
        yib_bind (bit_new_item s1 newid par c left right) (fun x =>
          bit_integrate (bit_mkbranch s1 (bit_clen br)) x left right)).

(* the loop of remove_at on the suffix that starts at `ptr`; returns the sequence, content_len and `remaining` *)
Fixpoint bit_remove_at_loop (pre suf : yib_seq) (clen remaining : N) : yib_res (yib_seq * N * N) :=
  match suf with
  | [] => yib_ok (pre, clen, remaining)
  | b :: r =>
    if remaining =? 0 then yib_ok (pre ++ suf, clen, remaining)
    else if negb (yib_del b) then
      let dec (x : yib_blk) := if bit_countable x then
                                 (if clen <? bit_len x then yib_fail 12 else yib_ok (clen - bit_len x))
                               else yib_ok clen in
      if remaining <? bit_len b then
        match blk_split (yib_b b) remaining with
        | Some (l, rr) =>
            yib_bind (dec (yib_mk l false)) (fun clen' =>
              yib_ok (pre ++ yib_mk l true :: yib_mk rr false :: r, clen', 0))
        | None => yib_fail 2
        end
      else yib_bind (dec b) (fun clen' =>
             bit_remove_at_loop (pre ++ [yib_set_del b true]) r clen' (remaining - bit_len b))
    else bit_remove_at_loop (pre ++ [b]) r clen remaining
  end.

(* the suffix that starts at the block p points to, and what is before it *)
Fixpoint bit_cut_at (p : id) (pre s : yib_seq) : option (yib_seq * yib_seq) :=
  match s with
  | [] => None
  | b :: r => if id_eqb (yib_id b) p then Some (pre, s) else bit_cut_at p (pre ++ [b]) r
  end.

(* Branch::remove_at(index, len): the branch afterwards and the number of removed elements *)
Definition bit_remove_at (br : bit_branch) (index len : N) : yib_res (bit_branch * N) :=
  yib_bind (if index =? 0 then yib_ok (None, yib_head_ptr (bit_seq br), bit_seq br)
            else bit_index_to_ptr [] (bit_seq br) index) (fun lrs =>
    let ptr := snd (fst lrs) in let s1 := snd lrs in
    match ptr with
    | None => yib_ok (bit_mkbranch s1 (bit_clen br), 0)
    | Some p =>
      match bit_cut_at p [] s1 with
      | None => yib_fail 10
      | Some (pre, suf) =>
        yib_bind (bit_remove_at_loop pre suf (bit_clen br) len) (fun r =>
          yib_ok (bit_mkbranch (fst (fst r)) (snd (fst r)), len - snd r))
      end
    end).

(* ---------- well-formedness (computable) ---------- *)
Fixpoint bit_vlen (s : yib_seq) : N :=
  match s with [] => 0 | b :: r => (if bit_live b then bit_len b else 0) + bit_vlen r end.
(* the sequence invariant of YataBlocks.v, and the cached length is the visible length *)
Definition bit_nostr_blk (b : yib_blk) : bool :=
  match yib_b b with BItem _ _ _ _ _ (BString _) => false | _ => true end.
(* no ContentString (abstraction 2): every other content of length > 1 can be split at every offset, a ContentString cannot
   be split inside a surrogate pair (Blocks.blk_content_split) *)
Definition bit_nostr (s : yib_seq) : bool := forallb bit_nostr_blk s.
Definition bit_ok (br : bit_branch) : bool :=
  yib_seq_ok (bit_seq br) && (bit_clen br =? bit_vlen (bit_seq br)) && bit_nostr (bit_seq br).
(* a block that is not countable is deleted: ContentDeleted arrives deleted (Item::integrate_content) and ContentFormat
   does not occur in arrays / XML child lists *)
Definition bit_noncountable_deleted (s : yib_seq) : bool := forallb (fun b => bit_countable b || yib_del b) s.
(* the content handed to insert: countable (what Prelim::into_content produces for arrays and XML children: Any / Binary / Embed / Type / Doc /
   JSON; no ContentString, abstraction 2), well-formed *)
Definition bit_content_ok (c : bcontent) : bool :=
  blk_content_wf c && match c with BDeleted _ | BFormat _ _ | BString _ => false | _ => true end.
(* the block Array::insert is about to create is fresh (YataBlocks.yib_fresh) whatever its origins turn out to be:
   its ids are not in the sequence and nothing refers to them *)
Definition bit_fresh (s : yib_seq) (newid : id) (c : bcontent) : bool :=
  forallb (fun u => let inr := fun i : id => (cl newid =? cl i) && (ck newid <=? ck i) && (ck i <? ck newid + content_len c) in
                    negb (inr (did u)) &&
                    match oorigin (d_op u) with Some o => negb (inr o) | None => true end &&
                    match ororigin (d_op u) with Some o => negb (inr o) | None => true end)
          (yib_expand s).
