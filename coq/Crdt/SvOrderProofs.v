From Coq Require Import List NArith Bool Lia.
From YV Require Import Crdt.SvOrder.
Import ListNotations.
Open Scope N_scope.

(* ---------- get ---------- *)
Lemma svo_wf_notin : forall s c, existsb (fun e => fst e =? c) s = false -> svo_get s c = 0.
Proof.
  induction s as [|[c' v] r IH]; intros c H; cbn [svo_get existsb fst] in *; [reflexivity|].
  apply orb_false_iff in H. destruct H as [H1 H2]. rewrite H1. apply IH, H2.
Qed.

Lemma svo_get_in : forall s c k, svo_wf s = true -> In (c, k) s -> svo_get s c = k.
Proof.
  induction s as [|[c' v] r IH]; intros c k Hwf Hin; [destruct Hin|].
  cbn [svo_wf svo_get] in *. apply andb_true_iff in Hwf. destruct Hwf as [Hn Hwf].
  destruct Hin as [Heq|Hin].
  - inversion Heq; subst. rewrite N.eqb_refl. reflexivity.
  - destruct (c' =? c) eqn:E.
    + apply N.eqb_eq in E; subst c'. apply negb_true_iff in Hn.
      assert (X : existsb (fun e => fst e =? c) r = true).
      { apply existsb_exists. exists (c, k). split; [exact Hin|]. cbn [fst]. apply N.eqb_refl. }
      congruence.
    + apply IH; assumption.
Qed.

Lemma svo_get_nonzero_in : forall s c, svo_get s c <> 0 -> In (c, svo_get s c) s.
Proof.
  induction s as [|[c' v] r IH]; intros c H; cbn [svo_get] in *; [congruence|].
  destruct (c' =? c) eqn:E.
  - apply N.eqb_eq in E; subst. left; reflexivity.
  - right. apply IH, H.
Qed.

(* ---------- the loops ---------- *)
Definition svo_is_less (r : svo_ord) : bool := match r with SvLess => true | _ => false end.
Definition svo_is_greater (r : svo_ord) : bool := match r with SvGreater => true | _ => false end.
Definition svo_verdict (lt gt : bool) : option svo_ord :=
  if lt && gt then None else if lt then Some SvLess else if gt then Some SvGreater else Some SvEqual.

(* a result of Less / Greater records that a smaller / larger clock has been seen and none of the other kind *)
Lemma svo_loop_verdict : forall ps res,
  svo_loop res ps =
  svo_verdict (svo_is_less res || existsb (fun p => fst p <? snd p) ps)
              (svo_is_greater res || existsb (fun p => snd p <? fst p) ps).
Proof.
  induction ps as [|[x y] r IH]; intros res.
  - cbn [svo_loop existsb]. rewrite !orb_false_r. destruct res; reflexivity.
  - cbn [svo_loop existsb fst snd]. unfold svo_step.
    destruct (N.compare_spec x y) as [E|L|G].
    + subst. rewrite IH, N.ltb_irrefl. cbn [orb]. reflexivity.
    + assert (Hxy : (x <? y) = true) by (apply N.ltb_lt; exact L).
      assert (Hyx : (y <? x) = false) by (apply N.ltb_ge; lia).
      rewrite Hxy, Hyx. cbn [orb]. rewrite orb_true_r.
      destruct res; [rewrite IH; cbn [svo_is_less svo_is_greater orb]; reflexivity
                    |rewrite IH; cbn [svo_is_less svo_is_greater orb]; reflexivity|].
      cbn [svo_is_greater orb]. unfold svo_verdict. cbn [andb]. reflexivity.
    + assert (Hxy : (x <? y) = false) by (apply N.ltb_ge; lia).
      assert (Hyx : (y <? x) = true) by (apply N.ltb_lt; exact G).
      rewrite Hxy, Hyx. cbn [orb]. rewrite orb_true_r.
      destruct res; [|rewrite IH; cbn [svo_is_less svo_is_greater orb]; reflexivity
                      |rewrite IH; cbn [svo_is_less svo_is_greater orb]; reflexivity].
      cbn [svo_is_less orb]. unfold svo_verdict. cbn [andb]. reflexivity.
Qed.

Lemma svo_loop_app : forall p1 p2 res,
  svo_loop res (p1 ++ p2) = match svo_loop res p1 with None => None | Some r => svo_loop r p2 end.
Proof.
  induction p1 as [|[x y] r IH]; intros p2 res; cbn [svo_loop app]; [reflexivity|].
  destruct (svo_step res x y); [apply IH|reflexivity].
Qed.

Lemma svo_partial_cmp_verdict : forall a b,
  svo_partial_cmp a b =
  svo_verdict (existsb (fun p => fst p <? snd p) (svo_pairs1 a b ++ svo_pairs2 a b))
              (existsb (fun p => snd p <? fst p) (svo_pairs1 a b ++ svo_pairs2 a b)).
Proof.
  intros a b. unfold svo_partial_cmp. rewrite <- svo_loop_app, svo_loop_verdict. reflexivity.
Qed.

(* some pair compares Less  <->  some client has a smaller clock in a than in b *)
Lemma svo_some_less : forall a b, svo_wf a = true -> svo_wf b = true ->
  (existsb (fun p => fst p <? snd p) (svo_pairs1 a b ++ svo_pairs2 a b) = true <-> exists c, svo_get a c < svo_get b c).
Proof.
  intros a b Ha Hb. rewrite existsb_exists. split.
  - intros [[x y] [Hin Hlt]]. cbn [fst snd] in Hlt. apply N.ltb_lt in Hlt.
    apply in_app_or in Hin. destruct Hin as [Hin|Hin]; apply in_map_iff in Hin; destruct Hin as [[c k] [Heq Hin]];
      cbn [fst snd] in Heq; injection Heq as Hx Hy; subst x y; exists c.
    + rewrite (svo_get_in a c k Ha Hin). exact Hlt.
    + rewrite (svo_get_in b c k Hb Hin). exact Hlt.
  - intros [c Hc]. exists (svo_get a c, svo_get b c). split; [|cbn [fst snd]; apply N.ltb_lt; exact Hc].
    apply in_or_app. right. apply in_map_iff. exists (c, svo_get b c). split; [reflexivity|].
    apply svo_get_nonzero_in. lia.
Qed.

Lemma svo_some_greater : forall a b, svo_wf a = true -> svo_wf b = true ->
  (existsb (fun p => snd p <? fst p) (svo_pairs1 a b ++ svo_pairs2 a b) = true <-> exists c, svo_get b c < svo_get a c).
Proof.
  intros a b Ha Hb. rewrite existsb_exists. split.
  - intros [[x y] [Hin Hlt]]. cbn [fst snd] in Hlt. apply N.ltb_lt in Hlt.
    apply in_app_or in Hin. destruct Hin as [Hin|Hin]; apply in_map_iff in Hin; destruct Hin as [[c k] [Heq Hin]];
      cbn [fst snd] in Heq; injection Heq as Hx Hy; subst x y; exists c.
    + rewrite (svo_get_in a c k Ha Hin). exact Hlt.
    + rewrite (svo_get_in b c k Hb Hin). exact Hlt.
  - intros [c Hc]. exists (svo_get a c, svo_get b c). split; [|cbn [fst snd]; apply N.ltb_lt; exact Hc].
    apply in_or_app. left. apply in_map_iff. exists (c, svo_get a c). split; [reflexivity|].
    apply svo_get_nonzero_in. lia.
Qed.

Lemma svo_not_ex_lt : forall a b, ~ (exists c, svo_get a c < svo_get b c) <-> svo_le b a.
Proof.
  intros a b. unfold svo_le. split.
  - intros H c. destruct (N.le_gt_cases (svo_get b c) (svo_get a c)) as [L|G]; [exact L|]. exfalso. apply H. exists c. exact G.
  - intros H [c Hc]. specialize (H c). lia.
Qed.

(* ---------- partial_cmp decides the pointwise order, whatever the iteration order of the two maps ---------- *)
Theorem svo_partial_cmp_spec : forall a b, svo_wf a = true -> svo_wf b = true ->
  match svo_partial_cmp a b with
  | Some SvEqual => svo_eqv a b
  | Some SvLess => svo_le a b /\ ~ svo_le b a
  | Some SvGreater => svo_le b a /\ ~ svo_le a b
  | None => ~ svo_le a b /\ ~ svo_le b a
  end.
Proof.
  intros a b Ha Hb. rewrite svo_partial_cmp_verdict.
  pose proof (svo_some_less a b Ha Hb) as HL. pose proof (svo_some_greater a b Ha Hb) as HG.
  pose proof (svo_not_ex_lt a b) as NL. pose proof (svo_not_ex_lt b a) as NG.
  destruct (existsb (fun p => fst p <? snd p) _) eqn:EL; destruct (existsb (fun p => snd p <? fst p) _) eqn:EG;
    unfold svo_verdict; cbn [andb].
  - split; intro H.
    + apply NG in H. apply H. apply HG. reflexivity.
    + apply NL in H. apply H. apply HL. reflexivity.
  - split.
    + apply NG. intro H. apply HG in H. discriminate.
    + intro H. apply NL in H. apply H, HL. reflexivity.
  - split.
    + apply NL. intro H. apply HL in H. discriminate.
    + intro H. apply NG in H. apply H, HG. reflexivity.
  - assert (L1 : svo_le b a) by (apply NL; intro H; apply HL in H; discriminate).
    assert (L2 : svo_le a b) by (apply NG; intro H; apply HG in H; discriminate).
    intro c. specialize (L1 c). specialize (L2 c). lia.
Qed.

Theorem svo_partial_cmp_complete : forall a b, svo_wf a = true -> svo_wf b = true ->
  (svo_eqv a b -> svo_partial_cmp a b = Some SvEqual) /\
  (svo_le a b -> ~ svo_le b a -> svo_partial_cmp a b = Some SvLess) /\
  (svo_le b a -> ~ svo_le a b -> svo_partial_cmp a b = Some SvGreater) /\
  (~ svo_le a b -> ~ svo_le b a -> svo_partial_cmp a b = None).
Proof.
  intros a b Ha Hb. pose proof (svo_partial_cmp_spec a b Ha Hb) as S.
  assert (EQ : svo_eqv a b -> svo_le a b /\ svo_le b a).
  { intros E; split; intro c; rewrite (E c); apply N.le_refl. }
  destruct (svo_partial_cmp a b) as [[| |]|]; repeat split; intros; try reflexivity; exfalso;
    try (destruct S as [S1 S2]); try (destruct (EQ H) as [E1 E2]); try tauto;
    try (apply H0; intro c; rewrite (S c); apply N.le_refl);
    try (apply H; intro c; rewrite (S c); apply N.le_refl).
Qed.

(* the verdict does not depend on the iteration order of either map *)
Theorem svo_partial_cmp_order_independent : forall a a' b b',
  svo_wf a = true -> svo_wf a' = true -> svo_wf b = true -> svo_wf b' = true ->
  svo_eqv a a' -> svo_eqv b b' -> svo_partial_cmp a b = svo_partial_cmp a' b'.
Proof.
  intros a a' b b' Ha Ha' Hb Hb' Ea Eb.
  assert (T : forall x y, svo_le x y <-> (forall c, svo_get x c <= svo_get y c)) by (intros; reflexivity).
  assert (Lab : svo_le a b <-> svo_le a' b') by (unfold svo_le; split; intros H c; specialize (H c); rewrite ?Ea, ?Eb in *; try exact H; rewrite <- Ea, <- Eb; exact H).
  assert (Lba : svo_le b a <-> svo_le b' a') by (unfold svo_le; split; intros H c; specialize (H c); rewrite ?Ea, ?Eb in *; try exact H; rewrite <- Ea, <- Eb; exact H).
  pose proof (svo_partial_cmp_spec a b Ha Hb) as S.
  destruct (svo_partial_cmp_complete a' b' Ha' Hb') as [C1 [C2 [C3 C4]]].
  destruct (svo_partial_cmp a b) as [[| |]|]; symmetry.
  - apply C2; tauto.
  - apply C1. intro c. rewrite <- Ea, <- Eb. apply S.
  - apply C3; tauto.
  - apply C4; tauto.
Qed.

(* ---------- set_max, set_min, merge ---------- *)
Lemma svo_get_set_max : forall s c k c', svo_get (svo_set_max s c k) c' = if c =? c' then N.max (svo_get s c) k else svo_get s c'.
Proof.
  induction s as [|[c0 v] r IH]; intros c k c'.
  - cbn [svo_set_max svo_get]. destruct (c =? c'); [lia|reflexivity].
  - cbn [svo_set_max svo_get]. destruct (c0 =? c) eqn:E0.
    + apply N.eqb_eq in E0; subst c0. cbn [svo_get]. destruct (c =? c'); reflexivity.
    + cbn [svo_get]. rewrite IH. destruct (c0 =? c') eqn:E1; [|reflexivity].
      apply N.eqb_eq in E1; subst c0. rewrite N.eqb_sym, E0. reflexivity.
Qed.

Lemma svo_get_set_min_present : forall s c k c', svo_get (svo_set_min s c k) c' =
  if c =? c' then (if existsb (fun e => fst e =? c) s then N.min (svo_get s c) k else k) else svo_get s c'.
Proof.
  induction s as [|[c0 v] r IH]; intros c k c'.
  - cbn [svo_set_min svo_get existsb]. reflexivity.
  - cbn [svo_set_min svo_get existsb fst]. destruct (c0 =? c) eqn:E0.
    + apply N.eqb_eq in E0; subst c0. cbn [svo_get orb]. destruct (c =? c'); reflexivity.
    + cbn [svo_get orb]. rewrite IH. destruct (c0 =? c') eqn:E1; [|reflexivity].
      apply N.eqb_eq in E1; subst c0. rewrite N.eqb_sym, E0. reflexivity.
Qed.

Lemma svo_set_max_keys : forall s c k x,
  existsb (fun e => fst e =? x) (svo_set_max s c k) = (c =? x) || existsb (fun e => fst e =? x) s.
Proof.
  induction s as [|[c0 v] r IH]; intros c k x.
  - cbn [svo_set_max existsb fst]. reflexivity.
  - cbn [svo_set_max]. destruct (c0 =? c) eqn:E0.
    + apply N.eqb_eq in E0; subst c0. cbn [existsb fst]. destruct (c =? x); reflexivity.
    + cbn [existsb fst]. rewrite IH. destruct (c0 =? x), (c =? x); reflexivity.
Qed.

Lemma svo_set_max_wf : forall s c k, svo_wf s = true -> svo_wf (svo_set_max s c k) = true.
Proof.
  induction s as [|[c0 v] r IH]; intros c k H; [reflexivity|].
  cbn [svo_set_max svo_wf] in *. apply andb_true_iff in H. destruct H as [H1 H2].
  destruct (c0 =? c) eqn:E0.
  - cbn [svo_wf]. rewrite H1, H2. reflexivity.
  - cbn [svo_wf]. rewrite svo_set_max_keys, (N.eqb_sym c c0), E0, IH by exact H2. cbn [orb]. rewrite H1. reflexivity.
Qed.

(* merge is the pointwise maximum *)
Theorem svo_get_merge : forall b a c, svo_wf b = true -> svo_get (svo_merge a b) c = N.max (svo_get a c) (svo_get b c).
Proof.
  unfold svo_merge. induction b as [|[c0 k0] r IH]; intros a c Hb.
  - cbn [fold_left svo_get]. lia.
  - cbn [fold_left fst snd svo_wf svo_get] in *. apply andb_true_iff in Hb. destruct Hb as [Hn Hr].
    rewrite IH by exact Hr. rewrite svo_get_set_max. destruct (c0 =? c) eqn:E.
    + apply N.eqb_eq in E; subst c0. apply negb_true_iff in Hn. rewrite (svo_wf_notin r c Hn). lia.
    + reflexivity.
Qed.

Theorem svo_merge_wf : forall b a, svo_wf a = true -> svo_wf (svo_merge a b) = true.
Proof.
  unfold svo_merge. induction b as [|[c0 k0] r IH]; intros a Ha; cbn [fold_left]; [exact Ha|].
  apply IH, svo_set_max_wf, Ha.
Qed.

(* merge is the least upper bound of the order partial_cmp decides *)
Theorem svo_merge_is_join : forall a b, svo_wf b = true ->
  svo_le a (svo_merge a b) /\ svo_le b (svo_merge a b) /\
  (forall x, svo_le a x -> svo_le b x -> svo_le (svo_merge a b) x).
Proof.
  intros a b Hb. repeat split.
  - intro c. rewrite svo_get_merge by exact Hb. lia.
  - intro c. rewrite svo_get_merge by exact Hb. lia.
  - intros x H1 H2 c. rewrite svo_get_merge by exact Hb. specialize (H1 c). specialize (H2 c). lia.
Qed.

Theorem svo_merge_laws : forall a b c, svo_wf a = true -> svo_wf b = true -> svo_wf c = true ->
  svo_eqv (svo_merge a b) (svo_merge b a) /\
  svo_eqv (svo_merge (svo_merge a b) c) (svo_merge a (svo_merge b c)) /\
  svo_eqv (svo_merge a a) a.
Proof.
  intros a b c Ha Hb Hc. repeat split; intro x.
  - rewrite !svo_get_merge by assumption. lia.
  - rewrite !svo_get_merge; try assumption; [lia|]. apply svo_merge_wf, Hb.
  - rewrite svo_get_merge by assumption. lia.
Qed.

(* a merge never takes a state vector down: the comparison of the old with the new one is Less or Equal *)
Theorem svo_merge_never_decreases : forall a b, svo_wf a = true -> svo_wf b = true ->
  svo_partial_cmp a (svo_merge a b) = Some SvLess \/ svo_partial_cmp a (svo_merge a b) = Some SvEqual.
Proof.
  intros a b Ha Hb. pose proof (svo_merge_wf b a Ha) as Hm.
  destruct (svo_merge_is_join a b Hb) as [L _].
  pose proof (svo_partial_cmp_spec a (svo_merge a b) Ha Hm) as S.
  destruct (svo_partial_cmp a (svo_merge a b)) as [[| |]|]; [left; reflexivity|right; reflexivity| |]; exfalso; tauto.
Qed.

(* set_max / set_min move one entry, up / down (set_min on an absent client inserts the clock) *)
Theorem svo_set_max_spec : forall s c k, svo_le s (svo_set_max s c k) /\ k <= svo_get (svo_set_max s c k) c /\
  (forall c', c' <> c -> svo_get (svo_set_max s c k) c' = svo_get s c').
Proof.
  intros s c k. repeat split.
  - intro c'. rewrite svo_get_set_max. destruct (c =? c') eqn:E; [apply N.eqb_eq in E; subst; lia|lia].
  - rewrite svo_get_set_max, N.eqb_refl. lia.
  - intros c' H. rewrite svo_get_set_max. destruct (c =? c') eqn:E; [apply N.eqb_eq in E; congruence|reflexivity].
Qed.

Theorem svo_set_min_spec : forall s c k, svo_get (svo_set_min s c k) c <= k /\
  (forall c', c' <> c -> svo_get (svo_set_min s c k) c' = svo_get s c').
Proof.
  intros s c k. split.
  - rewrite svo_get_set_min_present, N.eqb_refl. destruct (existsb _ s); lia.
  - intros c' H. rewrite svo_get_set_min_present. destruct (c =? c') eqn:E; [apply N.eqb_eq in E; congruence|reflexivity].
Qed.

(* the hypotheses are satisfiable and all four verdicts occur *)
Example svo_examples :
  svo_wf [(1, 2); (2, 2); (3, 3)] = true /\
  svo_partial_cmp [(1, 1); (2, 2); (3, 3)] [(3, 3); (1, 1); (2, 2)] = Some SvEqual /\
  svo_partial_cmp [(1, 1); (2, 2); (3, 2)] [(1, 1); (2, 2); (3, 3)] = Some SvLess /\
  svo_partial_cmp [(1, 2); (2, 2); (3, 3)] [(1, 1); (2, 2); (3, 3)] = Some SvGreater /\
  svo_partial_cmp [(1, 3); (2, 2); (3, 1)] [(1, 1); (2, 2); (3, 3)] = None /\
  svo_partial_cmp [(1, 1)] [(1, 1); (2, 1)] = Some SvLess /\
  svo_partial_cmp [(1, 0)] [] = Some SvEqual /\
  svo_partial_cmp [(1, 2)] [(2, 1)] = None /\
  svo_merge [(1, 1); (2, 5)] [(2, 3); (3, 4)] = [(1, 1); (2, 5); (3, 4)].
Proof. vm_compute. repeat split. Qed.

Print Assumptions svo_partial_cmp_spec.
Print Assumptions svo_partial_cmp_complete.
Print Assumptions svo_partial_cmp_order_independent.
Print Assumptions svo_merge_is_join.
Print Assumptions svo_merge_laws.
Print Assumptions svo_merge_never_decreases.
(* the second loop without its arm `Ordering::Greater if result == Some(Ordering::Less) => return None` *)
Definition svo_step_no_gt_arm (res : svo_ord) (x y : N) : option svo_ord :=
  match x ?= y with
  | Lt => match res with SvGreater => None | _ => Some SvLess end
  | Gt => Some SvGreater
  | Eq => Some res
  end.
Fixpoint svo_loop_no_gt_arm (res : svo_ord) (ps : list (N * N)) : option svo_ord :=
  match ps with
  | [] => Some res
  | (x, y) :: r => match svo_step_no_gt_arm res x y with None => None | Some res' => svo_loop_no_gt_arm res' r end
  end.
Definition svo_partial_cmp_no_gt_arm (a b : list (N * N)) : option svo_ord :=
  match svo_loop SvEqual (svo_pairs1 a b) with
  | None => None
  | Some r => svo_loop_no_gt_arm r (svo_pairs2 a b)
  end.

Lemma svo_loop_no_gt_arm_same : forall ps r,
  r = SvGreater \/ existsb (fun p => snd p <? fst p) ps = false ->
  svo_loop_no_gt_arm r ps = svo_loop r ps.
Proof.
  induction ps as [|[x y] ps IH]; intros r H; [reflexivity|].
  cbn [svo_loop_no_gt_arm svo_loop]. unfold svo_step_no_gt_arm, svo_step.
  cbn [existsb fst snd] in H.
  destruct (N.compare_spec x y) as [E|L|G].
  - apply IH. destruct H as [H|H]; [left; exact H|right]. apply orb_false_iff in H. apply H.
  - destruct r; try reflexivity; apply IH; destruct H as [H|H]; try discriminate; right; apply orb_false_iff in H; apply H.
  - assert (Hyx : (y <? x) = true) by (apply N.ltb_lt; exact G).
    destruct H as [H|H]; [subst r; apply IH; left; reflexivity|]. rewrite Hyx in H. discriminate.
Qed.

(* that arm of the second loop is unreachable: a client with a larger clock in `self` was met in the first loop *)
Theorem svo_second_loop_greater_arm_is_dead : forall a b, svo_wf a = true -> svo_wf b = true ->
  svo_partial_cmp_no_gt_arm a b = svo_partial_cmp a b.
Proof.
  intros a b Ha Hb. unfold svo_partial_cmp_no_gt_arm, svo_partial_cmp.
  destruct (svo_loop SvEqual (svo_pairs1 a b)) as [r|] eqn:E1; [|reflexivity].
  apply svo_loop_no_gt_arm_same.
  destruct (existsb (fun p => snd p <? fst p) (svo_pairs2 a b)) eqn:E2; [left|right; reflexivity].
  (* a Gt pair of the second loop is a Gt pair of the first *)
  assert (G1 : existsb (fun p => snd p <? fst p) (svo_pairs1 a b) = true).
  { apply existsb_exists in E2. destruct E2 as [[x y] [Hin Hlt]]. cbn [fst snd] in Hlt.
    apply in_map_iff in Hin. destruct Hin as [[c k] [Heq Hin]]. cbn [fst snd] in Heq. injection Heq as Hx Hy. subst x y.
    apply N.ltb_lt in Hlt. apply existsb_exists. exists (svo_get a c, svo_get b c). split.
    - apply in_map_iff. exists (c, svo_get a c). split; [reflexivity|]. apply svo_get_nonzero_in. lia.
    - cbn [fst snd]. rewrite (svo_get_in b c k Hb Hin). apply N.ltb_lt. exact Hlt. }
  rewrite svo_loop_verdict in E1. cbn [svo_is_less svo_is_greater orb] in E1. rewrite G1 in E1.
  unfold svo_verdict in E1. destruct (existsb (fun p => fst p <? snd p) (svo_pairs1 a b)); cbn [andb] in E1; congruence.
Qed.
Print Assumptions svo_second_loop_greater_arm_is_dead.
