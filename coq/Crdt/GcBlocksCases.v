(* Concrete cases for GcBlocks.v / GcBlocksProofs.v: non-vacuity of the hypotheses, the witnesses of the refuted
   statements (replayed against the Rust code in yrs/tests/gcb_replay.rs), and bounded sweeps (TESTS, not results)
   of the statements that are not proved: idempotence, "every marked clock is found", "a GC range appears only
   below a deleted type item that was itself collected". *)
From Coq Require Import List NArith Bool.
From YV Require Import Codec.UpdateV1 Codec.AnyCodec Ids.Ranges Crdt.Doc Crdt.Blocks Crdt.Merge Crdt.ApplyDelete Crdt.WriteBlocks.
From YV.Crdt Require Import GcBlocks GcBlocksProofs.
Import ListNotations.
Open Scope N_scope.

Definition gcb_c_rootm := PNamed [109].
Definition gcb_c_roott := PNamed [116].
Definition gcb_c_I (c k : N) := mkid c k.
(* a deleted array (1,0) under the root map, holding "ab" (1,1..2), a kept deleted "q" (2,0) and a nested deleted map
   (1,3) with one entry (1,4); a live "z" (1,5) in a root text *)
Definition gcb_c_T := gcb_mkcell (BItem (gcb_c_I 1 0) None None gcb_c_rootm (Some [107]) (BType TArray)) true false true.
Definition gcb_c_S := gcb_mkcell (BItem (gcb_c_I 1 1) None None (PId (gcb_c_I 1 0)) None (BString [97;98])) true false true.
Definition gcb_c_U := gcb_mkcell (BItem (gcb_c_I 1 3) (Some (gcb_c_I 1 2)) None (PId (gcb_c_I 1 0)) None (BType TMap)) true false true.
Definition gcb_c_A := gcb_mkcell (BItem (gcb_c_I 1 4) None None (PId (gcb_c_I 1 3)) (Some [120]) (BJson [[49]])) true false true.
Definition gcb_c_Z := gcb_mkcell (BItem (gcb_c_I 1 5) None None gcb_c_roott None (BString [122])) false false true.
Definition gcb_c_Q := gcb_mkcell (BItem (gcb_c_I 2 0) (Some (gcb_c_I 1 2)) (Some (gcb_c_I 1 3)) (PId (gcb_c_I 1 0)) None (BString [113])) true true true.
Definition gcb_c_S1 : gcb_store :=
  gcb_mkstore [(1, [gcb_c_T; gcb_c_S; gcb_c_U; gcb_c_A; gcb_c_Z]); (2, [gcb_c_Q])]
    [(gcb_c_rootm, gcb_mkbranch [] [([107], [gcb_c_I 1 0])]); (gcb_c_roott, gcb_mkbranch [gcb_c_I 1 5] []);
     (PId (gcb_c_I 1 0), gcb_mkbranch [gcb_c_I 1 1; gcb_c_I 2 0; gcb_c_I 1 3] []);
     (PId (gcb_c_I 1 3), gcb_mkbranch [] [([120], [gcb_c_I 1 4])])].
(* the same with the outer type kept (undo manager scope): nothing below it may go *)
Definition gcb_c_S2 : gcb_store :=
  gcb_mkstore [(1, [gcb_mkcell (gcb_blk gcb_c_T) true true true; gcb_c_S; gcb_c_U; gcb_c_A; gcb_c_Z]); (2, [gcb_c_Q])]
    (gcb_branches gcb_c_S1).

(* ---- hypotheses are satisfiable ---- *)
Example gcb_case_wf : (gcb_wf gcb_c_S1, gcb_ptr_ok gcb_c_S1, gcb_subtree_dead gcb_c_S1,
                        gcb_depth_le (gcb_gc_fuel gcb_c_S1) gcb_c_S1 (gcb_c_I 1 0)) = (true, true, true, true).
Proof. vm_compute. reflexivity. Qed.
Example gcb_case_wf_blist :
  adl_wf_blist (map gcb_abs [gcb_c_T; gcb_c_S; gcb_c_U; gcb_c_A; gcb_c_Z]) = true
  /\ gcb_contigb 0 [gcb_c_T; gcb_c_S; gcb_c_U; gcb_c_A; gcb_c_Z] = true.
Proof. vm_compute. auto. Qed.
Example gcb_case_aligned : gcb_ds_aligned gcb_c_S1 [(1, [(0, 5, tt)]); (2, [(0, 1, tt)])] = true
                           /\ gcb_ds_aligned gcb_c_S1 [(1, [(2, 5, tt)])] = false.
Proof. vm_compute. auto. Qed.

(* ---- the collector runs and does what the theorems say ---- *)
Definition gcb_c_ok {A : Type} (r : adl_res A) : bool := match r with adl_ok _ => true | adl_panic => false end.
Definition gcb_c_store_of (r : adl_res (gcb_store * list id)) (d : gcb_store) : gcb_store :=
  match r with adl_ok x => fst x | adl_panic => d end.

Example gcb_case_runs : gcb_c_ok (gcb_collect_all gcb_c_S1 None) = true
                        /\ gcb_c_ok (gcb_collect_all gcb_c_S1 (Some [(1, [(0, 5, tt)]); (2, [(0, 1, tt)])])) = true
                        /\ gcb_c_ok (gcb_collect gcb_c_S1 [(1, [(0, 5, tt)]); (2, [(0, 1, tt)])]) = true.
Proof. vm_compute. auto. Qed.

(* the kinds of the cells afterwards: T wiped, its children (the kept "q" included) GC ranges, the live "z" as before *)
Definition gcb_c_kind (c : gcb_cell) : N :=
  match gcb_blk c with BItem _ _ _ _ _ (BDeleted _) => 1 | BItem _ _ _ _ _ _ => 0 | BGC _ _ => 2 | BSkip _ _ => 3 end.
Definition gcb_c_kinds (st : gcb_store) := map (fun cb => (fst cb, map gcb_c_kind (snd cb))) (gcb_clients st).
Example gcb_case_result_all :
  gcb_c_kinds (gcb_c_store_of (gcb_collect_all gcb_c_S1 None) gcb_c_S1) = [(1, [1; 2; 2; 2; 0]); (2, [2])].
Proof. vm_compute. reflexivity. Qed.
(* a kept item inside a collected type IS destroyed (parent_gc || !keep) ... *)
Example gcb_case_kept_child_destroyed :
  gcb_keep gcb_c_Q = true /\
  gcb_get_client (gcb_clients (gcb_c_store_of (gcb_collect_all gcb_c_S1 None) gcb_c_S1)) 2
    = Some [gcb_mkcell (BGC (gcb_c_I 2 0) 1) true false false].
Proof. vm_compute. auto. Qed.
(* ... and when the outer type itself is kept, its children are visited one by one with parent_gc = false: "ab" wiped,
   the nested (not kept) map wiped and ITS entry turned into a GC range, the kept "q" untouched *)
Example gcb_case_kept_type :
  gcb_c_kinds (gcb_c_store_of (gcb_collect_all gcb_c_S2 None) gcb_c_S2) = [(1, [0; 1; 1; 2; 0]); (2, [0])].
Proof. vm_compute. reflexivity. Qed.

(* the squash that follows: the three GC ranges of client 1 become one *)
Example gcb_case_squash :
  match gcb_gc_api gcb_c_S1 None with
  | adl_ok st => map (fun cb => (fst cb, map (fun c => (mrg_clock (gcb_blk c), block_len (gcb_blk c), gcb_c_kind c)) (snd cb)))
                     (gcb_clients st)
  | adl_panic => []
  end = [(1, [(0, 1, 1); (1, 4, 2); (5, 1, 0)]); (2, [(0, 1, 2)])].
Proof. vm_compute. reflexivity. Qed.

(* ---- the witnesses of the refuted statements, as the replay sees them ---- *)
Example gcb_case_r1 : gcb_collect_all_pre_1f736a8 gcb_w1_store (Some gcb_w1_ds) = adl_panic
                      /\ gcb_find_index [gcb_w_str 1 0 [97] false] 1 = adl_panic            (* 1 / 0 *)
                      /\ gcb_collect_all gcb_w1_store (Some gcb_w1_ds) = adl_ok (gcb_w1_store, []).   (* 1f736a8 *)
Proof. vm_compute. auto. Qed.
Example gcb_case_r1b : gcb_collect_all_pre_1f736a8 gcb_w1b_store (Some gcb_w1b_ds) = adl_panic   (* inner[7] *)
                       /\ gcb_collect_all gcb_w1b_store (Some gcb_w1b_ds) = adl_ok (gcb_w1b_store, []).
Proof. vm_compute. auto. Qed.
(* R2: after gc(Some({1: [1,3)})) the block [0,2) has content Deleted(2), the block [2,3) still its value *)
Example gcb_case_r2 :
  gcb_c_kinds (gcb_c_store_of (gcb_collect_all gcb_w2_store (Some gcb_w2_ds)) gcb_w2_store) = [(1, [1; 0])]
  /\ map gcb_c_kind (filter (gcb_inside 1 3) [gcb_w_str 1 0 [97; 98] true; gcb_w_any 1 2 [107] true]) = [0].
Proof. vm_compute. auto. Qed.

(* ---- bounded sweeps (tests) ---- *)
Definition gcb_c_all_ranges (n : nat) : list (N * N * unit) :=
  flat_map (fun s => map (fun l => (N.of_nat s, N.of_nat (s + S l), tt)) (seq 0 (n - s))) (seq 0 n).
Definition gcb_c_stores := [gcb_c_S1; gcb_c_S2; gcb_w2_store].
Definition gcb_c_dss : list (option idset) :=
  None :: map (fun r => Some [(1, [r])]) (gcb_c_all_ranges 6) ++ map (fun r => Some [(1, [r]); (2, [(0, 1, tt)])]) (gcb_c_all_ranges 6).

(* idempotence: a second run with the same argument changes nothing and marks nothing *)
Definition gcb_c_idem (st : gcb_store) (ods : option idset) : bool :=
  match gcb_collect_all st ods with
  | adl_panic => true
  | adl_ok (st1, _) =>
    match gcb_marks_of st1 ods with
    | adl_ok (st2, mk2, _) =>
      match gcb_collect_marked st2 mk2 with
      | adl_ok st3 => (match gcb_marked_ids mk2 with [] => true | _ => false end)
                      && (if list_eq_dec N.eq_dec (map (fun c => mrg_clock (gcb_blk c)) (flat_map snd (gcb_clients st3)))
                                                  (map (fun c => mrg_clock (gcb_blk c)) (flat_map snd (gcb_clients st1)))
                          then true else false)
                      && forallb (fun p => (gcb_c_kind (fst p) =? gcb_c_kind (snd p)) && Bool.eqb (gcb_cnt (fst p)) (gcb_cnt (snd p)))
                                 (combine (flat_map snd (gcb_clients st3)) (flat_map snd (gcb_clients st1)))
      | adl_panic => false
      end
    | adl_panic => false
    end
  end.
Example gcb_case_idempotent_sweep :
  forallb (fun st => forallb (gcb_c_idem st) gcb_c_dss) gcb_c_stores = true.
Proof. vm_compute. reflexivity. Qed.

(* every marked clock is found by collect_marked (the `if let Some(index)` never skips) *)
Definition gcb_c_found (st : gcb_store) (ods : option idset) : bool :=
  match gcb_marks_of st ods with
  | adl_ok (st1, mk, _) => match gcb_collect_marked_chk st1 mk with adl_ok (_, fl) => fl | adl_panic => false end
  | adl_panic => true
  end.
Example gcb_case_found_sweep : forallb (fun st => forallb (gcb_c_found st) gcb_c_dss) gcb_c_stores = true.
Proof. vm_compute. reflexivity. Qed.

(* a cell becomes a GC range only if its parent is a deleted type item of the old store whose own cell changed *)
Definition gcb_c_cell_eqb (a b : gcb_cell) : bool :=
  (gcb_c_kind a =? gcb_c_kind b) && Bool.eqb (gcb_cnt a) (gcb_cnt b).
Definition gcb_c_gc_ok (st st' : gcb_store) : bool :=
  forallb (fun p =>
    let '(c, c') := p in
    if (gcb_c_kind c' =? 2) && negb (gcb_c_kind c =? 2) then
      gcb_del c &&
      match gcb_blk c with
      | BItem _ _ _ (PId j) _ _ =>
          gcb_dead_type st j &&
          match gcb_get_item st j, gcb_get_item st' j with
          | Some (_, x), Some (_, x') => negb (gcb_c_cell_eqb x x')
          | Some _, None => true                           (* became a GC range itself *)
          | None, _ => false
          end
      | _ => false
      end
    else true) (combine (flat_map snd (gcb_clients st)) (flat_map snd (gcb_clients st'))).
Example gcb_case_gc_only_below_collected_types_sweep :
  forallb (fun st => forallb (fun ods => match gcb_collect_all st ods with
                                         | adl_ok (st', _) => gcb_c_gc_ok st st'
                                         | adl_panic => true
                                         end) gcb_c_dss) gcb_c_stores = true.
Proof. vm_compute. reflexivity. Qed.

(* no delete set makes the repaired collector panic on S1 (theorem gcb_collect_all_total); before 1f736a8 every range
   of client 1 that starts beyond the list did *)
Example gcb_case_no_panic_sweep :
  forallb (fun ods => gcb_c_ok (gcb_collect_all gcb_c_S1 ods)) gcb_c_dss = true
  /\ gcb_c_ok (gcb_collect_all gcb_c_S1 (Some [(1, [(13, 14, tt)]); (7, [(0, 3, tt)])])) = true
  /\ gcb_c_ok (gcb_collect_all_pre_1f736a8 gcb_c_S1 (Some [(1, [(13, 14, tt)])])) = false.
Proof. vm_compute. auto. Qed.

(* the hypotheses of gcb_collect_all_total / gcb_idempotent_partial hold of the example stores *)
Example gcb_case_total_ok :
  forallb (fun st => gcb_total_ok st && gcb_clients_ok st) [gcb_c_S1; gcb_c_S2; gcb_w1_store; gcb_w1b_store; gcb_w2_store] = true
  /\ gcb_total_ok gcb_w3_store = false.
Proof. vm_compute. auto. Qed.
(* a cyclic pointer structure (an item listed as its own child) is rejected by gcb_all_safe *)
Example gcb_case_cycle_rejected :
  gcb_all_safe 7 (gcb_mkstore (gcb_clients gcb_c_S1)
                    [(PId (gcb_c_I 1 0), gcb_mkbranch [gcb_c_I 1 0] [])]) = false.
Proof. vm_compute. reflexivity. Qed.

(* the entry points of the tie *)
Example gcb_case_run :
  match gcb_run gcb_c_S1 None with adl_ok st => gcb_cells_view st | adl_panic => [] end
  = [(1, [(0, 1, 1, true); (1, 2, 2, true); (3, 1, 2, true); (4, 1, 2, true); (5, 1, 0, false)]); (2, [(0, 1, 2, true)])]
  /\ match gcb_run gcb_w2_store (Some [(1, [(1, 3)])]) with adl_ok st => gcb_cells_view st | adl_panic => [] end
  = [(1, [(0, 2, 1, true); (2, 1, 0, true)])].
Proof. vm_compute. auto. Qed.
