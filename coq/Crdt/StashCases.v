(* Concrete cases for Stash.v / StashProofs.v, all by vm_compute:
     1  F1: the model run of the history replayed against the Rust code in yrs/tests/itg2_stash.rs
        (an integrable block waits in the stash for the LOWEST clock recorded for a client)
     2  non-vacuity of the hypotheses of itg2_eventually_empty / itg2_progress_step on that history, and the
        theorems instantiated
     3  bounded tests: ALL deliveries (any batches, duplicates, at most 3 updates) of small histories; random
        histories / cuts / batches / duplicates
     4  one run of Update::integrate (itg2_run_heads), the shape of the block lists (itg2_shape_integrate, itg2_shape_no_holes): cases, and the
        witness that itg2_shape_no_holes needs distinct keys *)
From Coq Require Import List NArith ZArith Bool Lia.
From Coq Require Import ZifyBool ZifyN ZifyNat.
From YV Require Import Gen.Consts Lib.Bytes Codec.Varint Codec.AnyCodec Codec.IdSetCodec Codec.UpdateV1
  Ids.Ranges Crdt.Doc Crdt.Blocks Crdt.Merge Crdt.MergeProofs Crdt.Integrate Crdt.IntegrateProofs.
From YV.Crdt Require Import Stash StashProofs.
Import ListNotations.
Open Scope N_scope.

(* ================================================================================================ *)
(* 1. F1                                                                                            *)
(* ================================================================================================ *)
(* client 1 makes six independent blocks 1:0 .. 1:5 (six keys of a root map); client 2 overwrites the sixth
   (origin 1:5), client 3 the third (origin 1:2), client 4 is unrelated *)
Definition itg2_f1_y (k : N) : block := itg2_item 1 k 1 None None.
Definition itg2_f1_x : block := itg2_item 2 0 1 (Some (mkid 1 5)) None.
Definition itg2_f1_w : block := itg2_item 3 0 1 (Some (mkid 1 2)) None.
Definition itg2_f1_z : block := itg2_item 4 0 1 None None.
Definition itg2_f1_blocks : list block :=
  [itg2_f1_y 0; itg2_f1_y 1; itg2_f1_y 2; itg2_f1_y 3; itg2_f1_y 4; itg2_f1_y 5; itg2_f1_x; itg2_f1_w; itg2_f1_z].
Definition itg2_f1_deliveries : list update :=
  [itg2_single itg2_f1_x; itg2_single itg2_f1_w; itg2_single (itg2_f1_y 5); itg_empty_update; itg2_single itg2_f1_z;
   itg2_single (itg2_f1_y 2);
   itg2_single (itg2_f1_y 0); itg2_single (itg2_f1_y 1); itg2_single (itg2_f1_y 3); itg2_single (itg2_f1_y 4)].
(* what the Rust test prints: (has_pending, pending.missing, per client the block list (clock, len, is Skip)) *)
Definition itg2_f1_view (r : itg_res itg_store) :=
  match r with
  | itg_ok s => Some (itg_obs_has_pending s, itg_obs_missing s, itg_obs_pending s,
                      map (fun e => (fst e, map (fun g => (itg_sg_start g, itg_sg_len g, itg_sg_skip g)) (snd e))) (itg_blocks s))
  | _ => None
  end.
Example itg2_f1_trace :
  map itg2_f1_view (firstn 6 (itg2_trace itg_empty itg2_f1_deliveries)) =
  [ (* x *)      Some (true, [(1, 5)], [(2, [(0, 1, 0)])], []);
    (* w *)      Some (true, [(1, 2)], [(2, [(0, 1, 0)]); (3, [(0, 1, 0)])], []);
    (* 1:5: integrated behind a hole; x stays in the stash although its only dependency is integrated *)
                 Some (true, [(1, 2)], [(2, [(0, 1, 0)]); (3, [(0, 1, 0)])], [(1, [(0, 5, true); (5, 1, false)])]);
    (* empty *)  Some (true, [(1, 2)], [(2, [(0, 1, 0)]); (3, [(0, 1, 0)])], [(1, [(0, 5, true); (5, 1, false)])]);
    (* z *)      Some (true, [(1, 2)], [(2, [(0, 1, 0)]); (3, [(0, 1, 0)])],
                       [(1, [(0, 5, true); (5, 1, false)]); (4, [(0, 1, false)])]);
    (* 1:2 *)    Some (false, [], [],
                       [(1, [(0, 2, true); (2, 1, false); (3, 2, true); (5, 1, false)]); (2, [(0, 1, false)]);
                        (3, [(0, 1, false)]); (4, [(0, 1, false)])]) ].
Proof. vm_compute. reflexivity. Qed.

(* F1 is compatible with itg2_progress_step: after the delivery of 1:5 the stashed id 2:0 is ranked above the id 1:2
   of the history, which is not integrated (in the order of creation 1:2 comes before 2:0) - although 1:2 is no
   dependency of 2:0.  The retry is decided on the minimum clock recorded per client. *)

(* ================================================================================================ *)
(* 2. the hypotheses hold on F1; the theorems instantiated                                          *)
(* ================================================================================================ *)
Definition itg2_f1_H := itg2_group itg2_f1_blocks.
Definition itg2_f1_rho := itg2_rho_of itg2_f1_blocks.
Definition itg2_f1_W := itg2_units_of itg2_f1_blocks.

Example itg2_f1_history : itg2_history itg2_f1_H itg2_f1_rho.
Proof. apply itg2_history_b_ok. vm_compute. reflexivity. Qed.
Example itg2_f1_deliverable : Forall (itg2_deliverable itg2_f1_H itg2_f1_rho itg2_f1_W) itg2_f1_deliveries.
Proof.
  apply Forall_forall. intros u Hu. apply itg2_deliverable_b_ok.
  assert (Hb : forallb (itg2_deliverable_b itg2_f1_H itg2_f1_rho itg2_f1_W) itg2_f1_deliveries = true) by (vm_compute; reflexivity).
  rewrite forallb_forall in Hb. apply Hb. exact Hu.
Qed.
Example itg2_f1_covered : forall i, itg2_cov itg2_f1_H i = true -> itg2_cov_us itg2_f1_deliveries i = true.
Proof.
  intros i Hi. apply itg2_cov_ids in Hi.
  assert (Hb : forallb (fun i => itg2_cov_us itg2_f1_deliveries i) (itg2_ids itg2_f1_H) = true) by (vm_compute; reflexivity).
  rewrite forallb_forall in Hb. apply Hb. exact Hi.
Qed.
Example itg2_f1_units_nodup : itg2_nodup_ids_b itg2_f1_W = true.
Proof. vm_compute. reflexivity. Qed.
Example itg2_f1_units : NoDup (map xid itg2_f1_W).
Proof. apply itg2_nodup_ids_b_ok. vm_compute. reflexivity. Qed.
(* the theorems on F1 *)
Example itg2_f1_eventually_empty : forall s, itg2_run itg_empty itg2_f1_deliveries = itg_ok s ->
  itg_obs_has_pending s = false /\ itg_obs_holes s = [] /\ forall i, itg_has (itg_blocks s) i = itg2_cov itg2_f1_H i.
Proof.
  intros s Hs.
  destruct (itg2_eventually_empty itg2_f1_H itg2_f1_rho itg2_f1_W _ s itg2_f1_history itg2_f1_units
              itg2_f1_deliverable itg2_f1_covered Hs) as [A [_ [_ [B [C _]]]]].
  repeat split; assumption.
Qed.
(* after the third delivery (1:5) the stash is not empty and the stashed id 2:0 is held back (itg2_progress_step) *)
Example itg2_f1_progress : forall s, itg2_run itg_empty (firstn 3 itg2_f1_deliveries) = itg_ok s ->
  itg2_cov_pend (itg_pend s) (mkid 2 0) = true /\
  exists j, itg2_cov itg2_f1_H j = true /\ (itg2_f1_rho j < itg2_f1_rho (mkid 2 0))%nat /\ itg_has (itg_blocks s) j = false.
Proof.
  intros s Hs.
  assert (Hd : Forall (itg2_deliverable itg2_f1_H itg2_f1_rho itg2_f1_W) (firstn 3 itg2_f1_deliveries)).
  { apply Forall_forall. intros u Hu. apply itg2_deliverable_b_ok.
    assert (Hb : forallb (itg2_deliverable_b itg2_f1_H itg2_f1_rho itg2_f1_W) (firstn 3 itg2_f1_deliveries) = true)
      by (vm_compute; reflexivity).
    rewrite forallb_forall in Hb. apply Hb. exact Hu. }
  destruct (itg2_reach_I itg2_f1_H itg2_f1_rho itg2_f1_W _ s itg2_f1_history itg2_f1_units Hd Hs) as [_ B].
  assert (Hc : itg2_cov_pend (itg_pend s) (mkid 2 0) = true).
  { revert Hs. vm_compute. intros Hs. injection Hs as <-. reflexivity. }
  split; [exact Hc|]. unfold itg2_pend_blocked in B. destruct (itg_pend s) as [p|]; [|discriminate]. apply (B _ Hc).
Qed.
Example itg2_f1_end :
  match itg2_run itg_empty itg2_f1_deliveries with
  | itg_ok s => (itg_obs_has_pending s, itg_obs_holes s, itg_obs_ranges s)
  | _ => (true, [], [])
  end = (false, [], [(1, [(0, 6)]); (2, [(0, 1)]); (3, [(0, 1)]); (4, [(0, 1)])]).
Proof. vm_compute. reflexivity. Qed.

(* ---- the naive one-step statement is FALSE ----
   itg2_progress_naive : forall s u s' p c d b, (s reachable by deliveries) -> itg_pend s = Some p ->
     In (c, d) (u_blocks (itg_p_update p)) -> In b d -> itg_is_skip b = false ->
     (forall dep, In dep (itg_deps b) -> itg_has (itg_blocks s) dep = true) ->          (all dependencies integrated)
     (forall j, j < itg_clock b -> itg_has (itg_blocks s) (mkid c j) = true) ->          (all predecessors integrated)
     itg_apply_update_res s u = itg_ok s' ->
     itg_has (itg_blocks s') (mkid c (itg_clock b)) = true.                              (the next apply_update integrates b)
   Witness: F1 after its third delivery, b = x = 2:0, u = the empty update (any update that does not integrate 1:2
   would do).  The true statement is itg2_progress_step. *)
Definition itg2_f1_s3 : itg_store :=
  match itg2_run itg_empty (firstn 3 itg2_f1_deliveries) with itg_ok s => s | _ => itg_empty end.
Theorem itg2_progress_naive_refuted : exists s u s' p c d b,
  itg2_run itg_empty (firstn 3 itg2_f1_deliveries) = itg_ok s /\ itg_pend s = Some p /\
  In (c, d) (u_blocks (itg_p_update p)) /\ In b d /\ itg_is_skip b = false /\
  (forall dep, In dep (itg_deps b) -> itg_has (itg_blocks s) dep = true) /\
  (forall j, j < itg_clock b -> itg_has (itg_blocks s) (mkid c j) = true) /\
  itg_apply_update_res s u = itg_ok s' /\
  itg_has (itg_blocks s') (mkid c (itg_clock b)) = false /\ itg2_cov_pend (itg_pend s') (mkid c (itg_clock b)) = true.
Proof.
  exists itg2_f1_s3, itg_empty_update, itg2_f1_s3.
  exists (match itg_pend itg2_f1_s3 with Some p => p | None => itg_mkpending itg_empty_update [] end).
  exists 2, [itg2_f1_x], itg2_f1_x.
  split; [vm_compute; reflexivity|]. split; [vm_compute; reflexivity|]. split; [vm_compute; right; left; reflexivity|].
  split; [left; reflexivity|]. split; [reflexivity|]. split.
  - intros dep Hd. cbn in Hd. destruct Hd as [<-|[]]. vm_compute. reflexivity.
  - split; [intros j Hj; cbn in Hj; lia|]. split; [vm_compute; reflexivity|]. split; vm_compute; reflexivity.
Qed.

(* ---- a stale entry of the missing vector ----
   3:0 depends on 2:0 (same update: switch() records (2,0), then finds and integrates 2:0 and 3:0); 1:0 depends on the
   absent 4:0 and is set aside.  The stash that this run creates carries the entry (2,0), which is integrated: the NEXT
   apply_update (of anything) re-applies the stash once for nothing. *)
Example itg2_stale_entry :
  match itg_apply_update_res itg_empty
          {| u_blocks := [(3, [itg2_item 3 0 1 (Some (mkid 2 0)) None]); (2, [itg2_item 2 0 1 None None]);
                          (1, [itg2_item 1 0 1 (Some (mkid 4 0)) None])]; u_ds := [] |} with
  | itg_ok s => Some (itg_obs_missing s, itg_obs_pending s, itg_obs_ranges s, itg_test s)
  | _ => None
  end = Some ([(2, 0); (4, 0)], [(1, [(0, 1, 0)])], [(2, [(0, 1)]); (3, [(0, 1)])], true).
Proof. vm_compute. reflexivity. Qed.

(* ================================================================================================ *)
(* 3. bounded tests                                                                                 *)
(* ================================================================================================ *)
Definition itg2_seeds (a n : nat) : list N := map N.of_nat (seq a n).
Definition itg2_hist (n : nat) (nc seed : N) : list block := fst (itg2_gen_history n nc (itg2_rnd seed) [] []).

(* ALL deliveries of at most 3 updates, each any non-empty subset of the blocks (merged by merge_updates; overlaps
   are duplicates), that cover the history - for 30 random histories of 3 blocks over 2 or 3 clients:
   (deliveries run, all ended with nothing pending, no hole, the expected ranges) *)
Example itg2_exhaust_3 :
  let rs := map (fun s => itg2_exhaust 3 (itg2_hist 3 3 s)) (itg2_seeds 0 30) in
  (fold_right (fun r n => (fst r + n)%nat) O rs, forallb snd rs) = (8730%nat, true).
Proof. vm_compute. reflexivity. Qed.
(* ... at most 3 updates, 4 histories of 4 blocks *)
Example itg2_exhaust_4 :
  let rs := map (fun s => itg2_exhaust 3 (itg2_hist 4 3 s)) (itg2_seeds 100 4) in
  (fold_right (fun r n => (fst r + n)%nat) O rs, forallb snd rs) = (8964%nat, true).
Proof. vm_compute. reflexivity. Qed.

(* random histories (n blocks of length 1 or 2 over nc clients, origins / right origins among earlier ids), blocks
   of length 2 cut in two at random, nb batches merged by merge_updates, a third of the pieces delivered twice:
   (all ended as wanted, in how many a stash existed at some moment) *)
Definition itg2_sweep (n : nat) (nc nb : N) (a k : nat) : bool * nat :=
  let rs := map (itg2_case n nc nb) (itg2_seeds a k) in (forallb fst rs, length (filter snd rs)).
Example itg2_sweep_1 : itg2_sweep 6 3 4 1000 600 = (true, 580%nat).
Proof. vm_compute. reflexivity. Qed.
Example itg2_sweep_2 : itg2_sweep 4 2 2 0 600 = (true, 398%nat).
Proof. vm_compute. reflexivity. Qed.
Example itg2_sweep_3 : itg2_sweep 8 3 5 9000 300 = (true, 298%nat).
Proof. vm_compute. reflexivity. Qed.
(* the generated cases satisfy the hypotheses of the theorems (history, every delivery deliverable, coverage, one
   unit per id) *)
Example itg2_sweep_hyps : forallb (itg2_case_hyps 6 3 4) (itg2_seeds 1000 150) = true.
Proof. vm_compute. reflexivity. Qed.

(* ================================================================================================ *)
(* 4. one run of Update::integrate; the shape of the block lists; merge_updates                      *)

(* ================================================================================================ *)
(* concrete runs                                                                                    *)
(* ================================================================================================ *)
Definition itg2_rh_entry_b (missing : list (N * N)) (m : id) : bool :=
  match itg_get missing (cl m) with Some k => k <=? ck m | None => false end.
Definition itg2_rh_chk_head (blocks' : list (N * list itg_seg)) (missing : list (N * N)) (bs : list (N * list block))
  (c : N) (d : list block) : bool :=
  match d with
  | [] => false
  | h :: rest =>
      negb (itg_is_skip h) &&
      existsb (fun m => negb (itg_has blocks' m) && itg2_rh_entry_b missing m) (itg_deps h) &&
      match itg_get bs c with
      | Some D => (length d <=? length D)%nat && (if list_eq_dec N.eq_dec (map itg_clock (skipn (length D - length d) D)) (map itg_clock d) then true else false)
      | None => false
      end
  end.
Definition itg2_rh_chk (blocks : list (N * list itg_seg)) (bs : list (N * list block)) : option bool :=
  match itg_integrate blocks [] bs with
  | itg_ok (blocks', _, Some p) =>
      Some (itg_keys_distinct (map fst (u_blocks (itg_p_update p))) &&
            forallb (fun e => itg2_rh_chk_head blocks' (itg_p_missing p) bs (fst e) (snd e)) (u_blocks (itg_p_update p)))
  | itg_ok (_, _, None) => Some true
  | _ => None
  end.
Definition itg2_rh_it (c k : N) (o ro : option id) (n : N) : block := BItem (mkid c k) o ro (PNamed []) None (BDeleted n).

Example itg2_rh_t1 : itg2_rh_chk [] [(2, [itg2_rh_it 2 0 (Some (mkid 1 0)) None 1]); (1, [itg2_rh_it 1 0 (Some (mkid 3 0)) None 1])] = Some true.
Proof. vm_compute. reflexivity. Qed.
(* 2 -> 1 -> 2 (a later block of client 2) *)
Example itg2_rh_t2 : itg2_rh_chk [] [(2, [itg2_rh_it 2 0 (Some (mkid 1 0)) None 1; itg2_rh_it 2 1 None None 1]);
                              (1, [itg2_rh_it 1 0 (Some (mkid 2 1)) None 1; itg2_rh_it 1 1 None None 2])] = Some true.
Proof. vm_compute. reflexivity. Qed.
(* client 3 first (descending), depends on 2 which depends on 1 which depends on an absent client; client 4 is fine *)
Example itg2_rh_t3 : itg2_rh_chk [(5, [itg_mkseg 0 2 false])]
   [(4, [itg2_rh_it 4 0 (Some (mkid 5 1)) None 1; itg2_rh_it 4 1 (Some (mkid 3 0)) None 1]);
    (3, [itg2_rh_it 3 0 (Some (mkid 2 0)) None 1; itg2_rh_it 3 1 (Some (mkid 4 0)) None 1]);
    (2, [itg2_rh_it 2 0 (Some (mkid 1 1)) None 2]);
    (1, [itg2_rh_it 1 0 None None 1; itg2_rh_it 1 1 (Some (mkid 7 0)) (Some (mkid 4 1)) 1])] = Some true.
Proof. vm_compute. reflexivity. Qed.
(* Skips in front, an empty deque, a dependency on a Skip range of the store *)
Example itg2_rh_t4 : itg2_rh_chk [(1, [itg_mkseg 0 2 false; itg_mkseg 2 2 true; itg_mkseg 4 1 false])]
   [(3, [BSkip (mkid 3 0) 2; itg2_rh_it 3 2 (Some (mkid 1 3)) None 1; itg2_rh_it 3 3 None None 1]);
    (2, []);
    (1, [itg2_rh_it 1 5 (Some (mkid 3 3)) (Some (mkid 2 0)) 1; BSkip (mkid 1 6) 1; itg2_rh_it 1 7 (Some (mkid 1 0)) None 1])] = Some true.
Proof. vm_compute. reflexivity. Qed.
Example itg2_rh_t5 : itg2_rh_chk []
   [(3, [itg2_rh_it 3 0 (Some (mkid 2 0)) None 1; itg2_rh_it 3 1 None None 1]);
    (2, [itg2_rh_it 2 0 (Some (mkid 1 0)) None 1; itg2_rh_it 2 1 (Some (mkid 3 1)) None 1]);
    (1, [itg2_rh_it 1 0 (Some (mkid 2 1)) None 1])] = Some true.
Proof. vm_compute. reflexivity. Qed.


(* ================================================================================================ *)
(* tests (non-vacuity)                                                                              *)
(* ================================================================================================ *)
Fixpoint itg2_sh_shpb (l : list itg_seg) : bool :=
  match l with
  | [] => true
  | g :: r => (0 <? itg_sg_len g) &&
              (negb (itg_sg_skip g) || match r with g' :: _ => negb (itg_sg_skip g') | [] => false end) && itg2_sh_shpb r
  end.
Definition itg2_sh_shapeb (blocks : list (N * list itg_seg)) : bool := forallb (fun e => itg2_sh_shpb (snd e)) blocks.

Lemma itg2_sh_shpb_ok : forall l, itg2_sh_shpb l = true -> itg2_shape_l l.
Proof.
  intros l H. apply itg2_sh_shape_l_iff. induction l as [|g r IH]; [exact I|].
  cbn [itg2_sh_shpb] in H. apply andb_prop in H. destruct H as [H H3]. apply andb_prop in H. destruct H as [H1 H2].
  cbn [itg2_sh_shpn]. split; [lia|]. split; [|apply IH; exact H3].
  intros Hs. rewrite Hs in H2. cbn [negb orb] in H2. destruct r; [discriminate|exact H2].
Qed.

Definition itg2_sh_t_int (blocks : list (N * list itg_seg)) (bs : list (N * list block)) : list (N * list itg_seg) :=
  match itg_integrate blocks [] bs with itg_ok (b', _, _) => b' | _ => [(99, [])] end.
(* client 1: [2,5) arrives first (a Skip [0,2) is pushed in front), client 2: [0,1) *)
Definition itg2_sh_t1 := itg2_sh_t_int [] [(1, [itg2_item 1 2 3 None None]); (2, [itg2_item 2 0 1 None None])].
(* [0,1) of client 1 replaces the left part of the Skip *)
Definition itg2_sh_t2 := itg2_sh_t_int itg2_sh_t1 [(1, [itg2_item 1 0 1 None None])].
(* [1,2) fills the hole; client 2 goes on *)
Definition itg2_sh_t3 := itg2_sh_t_int itg2_sh_t2 [(1, [itg2_item 1 1 1 None None]); (2, [itg2_item 2 1 2 None None])].

Example itg2_sh_t1_val : itg2_sh_t1 = [(1, [itg_mkseg 0 2 true; itg_mkseg 2 3 false]); (2, [itg_mkseg 0 1 false])].
Proof. vm_compute. reflexivity. Qed.
Example itg2_sh_t2_val : itg2_sh_t2 = [(1, [itg_mkseg 0 1 false; itg_mkseg 1 1 true; itg_mkseg 2 3 false]); (2, [itg_mkseg 0 1 false])].
Proof. vm_compute. reflexivity. Qed.
Example itg2_sh_t3_val : itg2_sh_t3 = [(1, [itg_mkseg 0 1 false; itg_mkseg 1 1 false; itg_mkseg 2 3 false]);
                                 (2, [itg_mkseg 0 1 false; itg_mkseg 1 2 false])].
Proof. vm_compute. reflexivity. Qed.
Example itg2_sh_t_shapes : (itg2_sh_shapeb itg2_sh_t1 && itg2_sh_shapeb itg2_sh_t2 && itg2_sh_shapeb itg2_sh_t3) = true.
Proof. vm_compute. reflexivity. Qed.
(* (B): holes while the closure fails (t1, t2), none and one range per client at the end (t3) *)
Example itg2_sh_t_obs :
  itg_obs_holes (itg_mkstore itg2_sh_t1 None []) = [(1, [(0, 2)])] /\
  itg_obs_holes (itg_mkstore itg2_sh_t2 None []) = [(1, [(1, 2)])] /\
  itg_obs_holes (itg_mkstore itg2_sh_t3 None []) = [] /\
  itg_obs_ranges (itg_mkstore itg2_sh_t3 None []) = [(1, [(0, 5)]); (2, [(0, 3)])].
Proof. vm_compute. repeat split; reflexivity. Qed.
(* the hypothesis 0 < block_len of (A) is needed: a block of length 0 at the end of the list leaves an empty segment *)
Example itg2_sh_t_len0 : itg2_sh_shapeb (itg2_sh_t_int itg2_sh_t3 [(2, [itg2_item 2 3 0 None None])]) = false.
Proof. vm_compute. reflexivity. Qed.
(* (B) without NoDup (map fst blocks): the hidden second entry of client 1 is reported as a hole *)
Definition itg2_sh_dup : list (N * list itg_seg) := [(1, [itg_mkseg 0 1 false]); (1, [itg_mkseg 0 1 true])].
Lemma itg2_no_holes_dup_cex :
  itg_blocks_ok itg2_sh_dup /\ itg2_shape itg2_sh_dup /\
  (forall c j1 j2, itg_has itg2_sh_dup (mkid c j2) = true -> j1 < j2 -> itg_has itg2_sh_dup (mkid c j1) = true) /\
  itg_obs_holes (itg_mkstore itg2_sh_dup None []) = [(1, [(0, 1)])].
Proof.
  assert (Hg : forall c l, itg_get itg2_sh_dup c = Some l -> l = [itg_mkseg 0 1 false]).
  { intros c l H. unfold itg2_sh_dup in H. cbn [itg_get] in H. destruct (c =? 1); [injection H as <-; reflexivity|discriminate]. }
  split; [|split; [|split]].
  - intros c l H. rewrite (Hg _ _ H). split; [reflexivity|discriminate].
  - intros c l H. rewrite (Hg _ _ H). apply itg2_sh_shpb_ok. reflexivity.
  - intros c j1 j2 H Hlt. exfalso. unfold itg_has in H. cbn [cl ck] in H.
    destruct (itg_get itg2_sh_dup c) as [l|] eqn:E; [|discriminate]. rewrite (Hg _ _ E) in H.
    unfold itg_has_l, itg_in_seg, itg_sg_end in H. cbn [existsb itg_sg_skip itg_sg_start itg_sg_len negb andb orb] in H. lia.
  - vm_compute. reflexivity.
Qed.


(* ================================================================================================ *)
(* 9. concrete shapes (tests by vm_compute): overlaps are cut, gaps get one Skip, GC runs stay        *)
(* ================================================================================================ *)
Definition itg2_mg_ex_it (c k n : N) : block := BItem (mkid c k) None None (PNamed []) None (BDeleted n).
Definition itg2_mg_ex_up (bs : list (N * list block)) : update := {| u_blocks := bs; u_ds := [] |}.
(* a = [0,2) Skip[2,3) [3,4), b = [1,3): the overlap is cut, the hole of a is filled by the right half of b *)
Example itg2_mg_ex_overlap :
  u_blocks (itg_mrg (itg2_mg_ex_up [(1, [itg2_mg_ex_it 1 0 2; BSkip (mkid 1 2) 1; itg2_mg_ex_it 1 3 1])]) (itg2_mg_ex_up [(1, [itg2_mg_ex_it 1 1 2])]))
  = [(1, [itg2_mg_ex_it 1 0 2; BItem (mkid 1 2) (Some (mkid 1 1)) None (PNamed []) None (BDeleted 1); itg2_mg_ex_it 1 3 1])].
Proof. vm_compute. reflexivity. Qed.
(* clients in any order in the arguments; gaps between the arguments' blocks get a Skip; leading / trailing
   Skips of an argument are dropped *)
Example itg2_mg_ex_gaps :
  u_blocks (itg_mrg (itg2_mg_ex_up [(1, [itg2_mg_ex_it 1 0 2]); (2, [BSkip (mkid 2 3) 2; itg2_mg_ex_it 2 5 1; BSkip (mkid 2 6) 1])])
                    (itg2_mg_ex_up [(2, [itg2_mg_ex_it 2 0 2]); (1, [itg2_mg_ex_it 1 4 1; BSkip (mkid 1 5) 2; itg2_mg_ex_it 1 7 1])]))
  = [(2, [itg2_mg_ex_it 2 0 2; BSkip (mkid 2 2) 3; itg2_mg_ex_it 2 5 1]);
     (1, [itg2_mg_ex_it 1 0 2; BSkip (mkid 1 2) 2; itg2_mg_ex_it 1 4 1; BSkip (mkid 1 5) 2; itg2_mg_ex_it 1 7 1])].
Proof. vm_compute. reflexivity. Qed.
(* an argument that holds only a Skip contributes nothing; two such arguments give the empty update *)
Example itg2_mg_ex_only_skip :
  u_blocks (itg_mrg (itg2_mg_ex_up [(1, [BSkip (mkid 1 0) 2])]) (itg2_mg_ex_up [(1, [itg2_mg_ex_it 1 7 1])])) = [(1, [itg2_mg_ex_it 1 7 1])] /\
  u_blocks (itg_mrg (itg2_mg_ex_up [(1, [BSkip (mkid 1 0) 2])]) (itg2_mg_ex_up [(1, [BSkip (mkid 1 0) 2])])) = [].
Proof. split; vm_compute; reflexivity. Qed.


Print Assumptions itg2_progress_naive_refuted.
