(* Undo / redo (C12): unit-level model of yrs/src/undo.rs (handle_after_transaction, pop, try_process),
   ItemPtr::redo (block.rs) and Store::follow_redone for a FLAT scope: one array-like sequence and one
   map, one writing client, values are interned tokens.  Nested types are not modelled (see DESIGN.md).

   - every element is one unit with its own id (clock); `u_red` is Item::redone
   - a transaction is a list of calls; a capture step is a list of transactions of the tracked origin
     (the harness controls the clock, so grouping is explicit); transactions of other origins change the
     document and are not captured
   - redo of a sequence unit: ItemPtr::redo takes left = item.left and right = item (same parent, so the
     redone-tracing loops stop at once); integrate finds left.right == right and links the copy in between:
     the copy sits immediately before the tombstone it re-creates
   - redo of a map entry: walks right past entries that are re-created, deleted, about to be deleted or
     recorded as deleted on a stack; a live entry further right is a conflict (no copy); otherwise the copy
     is appended to the key's chain and integration deletes the previous last entry
   No proofs in this file. *)
From Coq Require Import List NArith Bool.
Import ListNotations.
Open Scope N_scope.

Definition utok := N.

Record uitem := { u_id : N; u_val : utok; u_del : bool; u_red : option N }.
Definition mk (i : N) (v : utok) (d : bool) (r : option N) : uitem := {| u_id := i; u_val := v; u_del := d; u_red := r |}.
Definition set_del (x : uitem) : uitem := mk (u_id x) (u_val x) true (u_red x).
Definition set_red (x : uitem) (r : N) : uitem := mk (u_id x) (u_val x) (u_del x) (Some r).

Record stackitem := { st_ins : list N; st_del : list N }.          (* StackItem: insertions, deletions (ascending ids) *)

Record ustate := {
  seqc : list uitem;                       (* the sequence, document order, tombstones included *)
  mapc : list (N * list uitem);            (* key -> chain of entries, oldest first; the last one is branch.map[key] *)
  unext : N;                                (* unext clock of the writing client *)
  ustack : list stackitem;                     (* undo stack, top first *)
  rstack : list stackitem;                     (* redo stack, top first *)
}.
Definition ustate0 : ustate := {| seqc := []; mapc := []; unext := 0; ustack := []; rstack := [] |}.

(* effects of one transaction: ids it inserted and ids it deleted (insert_set / delete_set) *)
Record ueff := { e_ins : list N; e_del : list N }.
Definition eff0 : ueff := {| e_ins := []; e_del := [] |}.
Definition eff_app (a b : ueff) : ueff := {| e_ins := e_ins a ++ e_ins b; e_del := e_del a ++ e_del b |}.

(* ---------------------------------------------------------------------------------------------- *)
(* document operations *)

(* Array::insert(pos): BlockIter::try_forward consumes pos visible units and then keeps moving over deleted
   units (can_forward with len = 0), so the new unit lands immediately BEFORE the pos-th visible unit
   (0-based), after any tombstones in front of it; at the very end when there are only pos visible units *)
Fixpoint insert_before_visible (l : list uitem) (pos : nat) (x : uitem) : list uitem :=
  match l with
  | [] => [x]
  | y :: r =>
      if u_del y then y :: insert_before_visible r pos x
      else match pos with
           | O => x :: y :: r
           | S p => y :: insert_before_visible r p x
           end
  end.

(* delete the pos-th uvisible unit (0-based); returns its id *)
Fixpoint delete_visible (l : list uitem) (pos : nat) : list uitem * option N :=
  match l with
  | [] => ([], None)
  | y :: r =>
      if u_del y then let '(r', o) := delete_visible r pos in (y :: r', o)
      else match pos with
           | O => (set_del y :: r, Some (u_id y))
           | S p => let '(r', o) := delete_visible r p in (y :: r', o)
           end
  end.

Definition uvisible (l : list uitem) : list utok := map u_val (filter (fun x => negb (u_del x)) l).
Definition nvisible (l : list uitem) : nat := length (uvisible l).

Fixpoint chain_of (m : list (N * list uitem)) (k : N) : list uitem :=
  match m with [] => [] | (k', c) :: r => if k' =? k then c else chain_of r k end.
Fixpoint set_chain (m : list (N * list uitem)) (k : N) (c : list uitem) : list (N * list uitem) :=
  match m with
  | [] => [(k, c)]
  | (k', c') :: r => if k' =? k then (k, c) :: r else (k', c') :: set_chain r k c
  end.

(* delete the last entry of a chain if it is live; returns its id *)
Fixpoint delete_last (c : list uitem) : list uitem * option N :=
  match c with
  | [] => ([], None)
  | [y] => if u_del y then ([y], None) else ([set_del y], Some (u_id y))
  | y :: r => let '(r', o) := delete_last r in (y :: r', o)
  end.

Definition umap_value (m : list (N * list uitem)) (k : N) : option utok :=
  match rev (chain_of m k) with
  | y :: _ => if u_del y then None else Some (u_val y)
  | [] => None
  end.

Inductive ucall :=
| CIns (pos : nat) (v : utok)      (* Array::insert(pos, v); pos is clamped to the length *)
| CDel (pos : nat)                (* Array::remove(pos); no-op when out of range *)
| CSet (k : N) (v : utok)          (* Map::insert *)
| CRem (k : N).                   (* Map::remove *)

Definition do_call (s : ustate) (c : ucall) : ustate * ueff :=
  match c with
  | CIns pos v =>
      let pos := Nat.min pos (nvisible (seqc s)) in
      let x := mk (unext s) v false None in
      ({| seqc := insert_before_visible (seqc s) pos x; mapc := mapc s; unext := unext s + 1; ustack := ustack s; rstack := rstack s |},
       {| e_ins := [unext s]; e_del := [] |})
  | CDel pos =>
      let '(l, o) := delete_visible (seqc s) pos in
      ({| seqc := l; mapc := mapc s; unext := unext s; ustack := ustack s; rstack := rstack s |},
       {| e_ins := []; e_del := match o with Some i => [i] | None => [] end |})
  | CSet k v =>
      let '(c0, o) := delete_last (chain_of (mapc s) k) in
      let x := mk (unext s) v false None in
      ({| seqc := seqc s; mapc := set_chain (mapc s) k (c0 ++ [x]); unext := unext s + 1; ustack := ustack s; rstack := rstack s |},
       {| e_ins := [unext s]; e_del := match o with Some i => [i] | None => [] end |})
  | CRem k =>
      let '(c0, o) := delete_last (chain_of (mapc s) k) in
      ({| seqc := seqc s; mapc := (match o with Some _ => set_chain (mapc s) k c0 | None => mapc s end); unext := unext s; ustack := ustack s; rstack := rstack s |},
       {| e_ins := []; e_del := match o with Some i => [i] | None => [] end |})
  end.

Definition do_txn (s : ustate) (cs : list ucall) : ustate * ueff :=
  fold_left (fun acc c => let '(s1, e1) := acc in let '(s2, e2) := do_call s1 c in (s2, eff_app e1 e2)) cs (s, eff0).

Definition eff_empty (e : ueff) : bool := match e_ins e, e_del e with [], [] => true | _, _ => false end.

(* a transaction of another origin: the document changes, the stacks do not *)
Definition other_txn (s : ustate) (cs : list ucall) : ustate := fst (do_txn s cs).

(* one capture step of the tracked origin (handle_after_transaction with `extend` for every transaction after
   the first captured one): a transaction that changed nothing is skipped; the first captured transaction
   clears the redo stack and pushes a new entry, later ones are merged into it *)
Fixpoint sort_insert (x : N) (l : list N) : list N :=
  match l with [] => [x] | y :: r => if x <? y then x :: l else if x =? y then l else y :: sort_insert x r end.
Definition sort_ids (l : list N) : list N := fold_right sort_insert [] l.

Definition tracked_step (s : ustate) (txns : list (list ucall)) : ustate :=
  let '(s', e) := fold_left (fun acc cs => let '(s1, e1) := acc in let '(s2, e2) := do_txn s1 cs in (s2, eff_app e1 e2)) txns (s, eff0) in
  if eff_empty e then s'
  else {| seqc := seqc s'; mapc := mapc s'; unext := unext s';
          ustack := {| st_ins := sort_ids (e_ins e); st_del := sort_ids (e_del e) |} :: ustack s'; rstack := [] |}.

(* ---------------------------------------------------------------------------------------------- *)
(* Store::follow_redone for one unit: the final copy of id (fuel: a chain never revisits an id) *)

Fixpoint ufind (l : list uitem) (i : N) : option uitem :=
  match l with [] => None | y :: r => if u_id y =? i then Some y else ufind r i end.
Definition all_items (s : ustate) : list uitem := seqc s ++ flat_map snd (mapc s).

Fixpoint ufollow (fuel : nat) (items : list uitem) (i : N) : option uitem :=
  match fuel with
  | O => None
  | S f => match ufind items i with
           | None => None
           | Some y => match u_red y with Some r => ufollow f items r | None => Some y end
           end
  end.

Definition umem (i : N) (l : list N) : bool := existsb (N.eqb i) l.

Fixpoint umark_deleted (l : list uitem) (i : N) : list uitem :=
  match l with [] => [] | y :: r => if u_id y =? i then set_del y :: r else y :: umark_deleted r i end.
Definition delete_id (s : ustate) (i : N) : ustate :=
  {| seqc := umark_deleted (seqc s) i; mapc := map (fun kc => (fst kc, umark_deleted (snd kc) i)) (mapc s);
     unext := unext s; ustack := ustack s; rstack := rstack s |}.

(* ---------------------------------------------------------------------------------------------- *)
(* ItemPtr::redo *)

(* sequence: put the copy immediately before the unit it re-creates and record the pointer *)
Fixpoint redo_in_seq (l : list uitem) (i : N) (fresh : N) : list uitem * bool :=
  match l with
  | [] => ([], false)
  | y :: r =>
      if u_id y =? i then (mk fresh (u_val y) false None :: set_red y fresh :: r, true)
      else let '(r', b) := redo_in_seq r i fresh in (y :: r', b)
  end.

Definition stack_deleted (st : list stackitem) (i : N) : bool := existsb (fun it => umem i (st_del it)) st.

(* map: entries to the right of the one re-created must all be passable *)
Definition passable (to_delete : list N) (s1 s2 : list stackitem) (y : uitem) : bool :=
  match u_red y with Some _ => true | None => false end || u_del y || umem (u_id y) to_delete || stack_deleted s1 (u_id y) || stack_deleted s2 (u_id y).

(* the unit that follows id i in a chain *)
Fixpoint right_of (c : list uitem) (i : N) : option uitem :=
  match c with
  | [] => None
  | y :: r => if u_id y =? i then (match r with z :: _ => Some z | [] => None end) else right_of r i
  end.

(* `while let Some(left_item) = left { if let Some(left_right) = left_item.right { if passable { left = left_right;
   follow redone; continue } } break }`: returns false when a non-passable entry remains to the right *)
Fixpoint walk_right (fuel : nat) (c : list uitem) (cur : N) (to_delete : list N) (s1 s2 : list stackitem) : bool :=
  match fuel with
  | O => false
  | S f =>
      match right_of c cur with
      | None => true
      | Some z =>
          if passable to_delete s1 s2 z then
            match ufollow (S (length c)) c (u_id z) with
            | Some w => walk_right f c (u_id w) to_delete s1 s2
            | None => false
            end
          else false
      end
  end.

Definition redo_in_chain (c : list uitem) (i : N) (fresh : N) (to_delete : list N) (s1 s2 : list stackitem) : option (list uitem) :=
  match ufind c i with
  | None => None
  | Some y =>
      if walk_right (S (length c)) c i to_delete s1 s2 then
        (* append the copy; integration deletes the previous last entry if it is live *)
        let c' := map (fun z => if u_id z =? i then set_red z fresh else z) c in
        let '(c'', _) := delete_last c' in
        Some (c'' ++ [mk fresh (u_val y) false None])
      else None
  end.

Fixpoint redo_in_maps (m : list (N * list uitem)) (i : N) (fresh : N) (to_delete : list N) (s1 s2 : list stackitem) : option (list (N * list uitem)) :=
  match m with
  | [] => None
  | (k, c) :: r =>
      if existsb (fun y => u_id y =? i) c then option_map (fun c' => (k, c') :: r) (redo_in_chain c i fresh to_delete s1 s2)
      else option_map (cons (k, c)) (redo_in_maps r i fresh to_delete s1 s2)
  end.

(* returns the new state, whether something was re-created (or had been already), and the ids the integration
   of the copy deleted (the previous last entry of the key) *)
Definition redo_item (s : ustate) (i : N) (to_delete : list N) (s1 s2 : list stackitem) : ustate * bool * ueff :=
  match ufind (all_items s) i with
  | None => (s, false, eff0)
  | Some y =>
      match u_red y with
      | Some _ => (s, true, eff0)                      (* already re-created: `return Some(existing copy)` *)
      | None =>
          if existsb (fun z => u_id z =? i) (seqc s) then
            let '(l, _) := redo_in_seq (seqc s) i (unext s) in
            ({| seqc := l; mapc := mapc s; unext := unext s + 1; ustack := ustack s; rstack := rstack s |}, true,
             {| e_ins := [unext s]; e_del := [] |})
          else
            match redo_in_maps (mapc s) i (unext s) to_delete s1 s2 with
            | Some m =>
                (* which live entry did the integration delete? the last live one of the key before the copy *)
                let before := filter (fun z => negb (u_del z)) (all_items s) in
                let s' := {| seqc := seqc s; mapc := m; unext := unext s + 1; ustack := ustack s; rstack := rstack s |} in
                let after := filter (fun z => negb (u_del z)) (all_items s') in
                let gone := filter (fun z => negb (existsb (fun w => u_id w =? u_id z) after)) before in
                (s', true, {| e_ins := [unext s]; e_del := map u_id gone |})
            | None => (s, false, eff0)
            end
      end
  end.

(* ---------------------------------------------------------------------------------------------- *)
(* UndoManager::try_process for one stack entry; s1 = the stack it was popped from (already popped), s2 = the other *)

Definition uprocess (s : ustate) (it : stackitem) (s1 s2 : list stackitem) : ustate * bool * ueff :=
  let items := all_items s in
  let fuel := S (length items) in
  (* insertions: resolve through re-created copies, keep the live ones *)
  let to_delete := flat_map (fun i => match ufollow fuel items i with
                                      | Some y => if u_del y then [] else [u_id y]
                                      | None => []
                                      end) (st_ins it) in
  let to_redo := filter (fun i => negb (umem i (st_ins it))) (st_del it) in
  let '(sa, ca, ea) := fold_left (fun acc i => let '(s0, c0, e0) := acc in
                                              let '(s1', c1, e1) := redo_item s0 i (st_ins it) s1 s2 in (s1', c0 || c1, eff_app e0 e1))
                                 to_redo (s, false, eff0) in
  let live_now := fun i => match ufind (all_items sa) i with Some y => negb (u_del y) | None => false end in
  let newly := filter live_now (rev to_delete) in
  let sb := fold_left delete_id (rev to_delete) sa in
  let changed := ca || negb (match to_delete with [] => true | _ => false end) in
  (sb, changed, {| e_ins := e_ins ea; e_del := e_del ea ++ newly |}).

(* pop entries until one performs a change; its own transaction is captured on the other stack *)
Fixpoint pop_undo (fuel : nat) (s : ustate) : ustate * bool :=
  match fuel with
  | O => (s, false)
  | S f =>
      match ustack s with
      | [] => (s, false)
      | it :: rest =>
          let '(s', changed, e) := uprocess s it rest (rstack s) in
          let s'' := {| seqc := seqc s'; mapc := mapc s'; unext := unext s'; ustack := rest;
                        rstack := if changed && negb (eff_empty e) then {| st_ins := sort_ids (e_ins e); st_del := sort_ids (e_del e) |} :: rstack s else rstack s |} in
          if changed then (s'', true) else pop_undo f s''
      end
  end.
Fixpoint pop_redo (fuel : nat) (s : ustate) : ustate * bool :=
  match fuel with
  | O => (s, false)
  | S f =>
      match rstack s with
      | [] => (s, false)
      | it :: rest =>
          let '(s', changed, e) := uprocess s it rest (ustack s) in
          let s'' := {| seqc := seqc s'; mapc := mapc s'; unext := unext s';
                        ustack := if changed && negb (eff_empty e) then {| st_ins := sort_ids (e_ins e); st_del := sort_ids (e_del e) |} :: ustack s else ustack s;
                        rstack := rest |} in
          if changed then (s'', true) else pop_redo f s''
      end
  end.
Definition undo (s : ustate) : ustate * bool := pop_undo (S (length (ustack s))) s.
Definition redo (s : ustate) : ustate * bool := pop_redo (S (length (rstack s))) s.

(* ---------------------------------------------------------------------------------------------- *)
(* programs and observable undo_content *)

Inductive uaction :=
| AStep (txns : list (list ucall))      (* one capture step of the tracked origin *)
| AOther (cs : list ucall)              (* a transaction of another origin *)
| AUndo
| ARedo.

Definition uact (s : ustate) (a : uaction) : ustate :=
  match a with
  | AStep txns => tracked_step s txns
  | AOther cs => other_txn s cs
  | AUndo => fst (undo s)
  | ARedo => fst (redo s)
  end.
Definition urun (s : ustate) (p : list uaction) : ustate := fold_left uact p s.

Definition keys_of (s : ustate) : list N := map fst (mapc s).
Definition undo_content (s : ustate) : list utok * list (N * option utok) :=
  (uvisible (seqc s), map (fun k => (k, umap_value (mapc s) k)) (keys_of s)).
(* undo_content equality up to keys that hold no value *)
Definition live_entries (s : ustate) : list (N * utok) :=
  flat_map (fun k => match umap_value (mapc s) k with Some v => [(k, v)] | None => [] end) (keys_of s).
