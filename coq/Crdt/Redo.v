(* Redo.v - NESTED undo / redo: unit-level model of
     yrs/src/block.rs        ItemPtr::redo, ItemPtr::keep, Item::detect_conflict, Item::resolve_conflict,
                             TransactionMut::integrate_item, Item::needs_deletion
     yrs/src/transaction.rs  TransactionMut::delete (recursive deletion of the children of a Type item)
     yrs/src/store.rs        Store::follow_redone
     yrs/src/branch.rs       Branch::is_parent_of
     yrs/src/undo.rs         UndoManager::should_skip / handle_after_transaction / reset / pop_blocking / try_process
   (commit 7da5187 of /repo).  Definitions only; theorems are in RedoProofs.v, concrete cases in RedoCases.v.

   Which definition transcribes which Rust function
     rdo_is_parent_of      Branch::is_parent_of (branch.rs), for a scope made of root types
     rdo_keep_walk         ItemPtr::keep (block.rs)
     rdo_delete            TransactionMut::delete (transaction.rs): mark, record in delete_set, recurse into the
                           live sequence children and into ALL `map.values()` of a Type item
     rdo_detect_conflict   Item::detect_conflict (block.rs)
     rdo_scan              the `while let Some(item) = o` loop of Item::resolve_conflict (block.rs)
     rdo_integrate         TransactionMut::integrate_item (block.rs) for an item whose left / right are given
     rdo_chase             `while let Some(id) = redone.as_ref()` loop over the parent's redone chain (ItemPtr::redo)
     rdo_mfollow/rdo_mwalk the "follow redone" loop / the `while let Some(left_item) = left` loop of the map case
     rdo_trace             the inner `while let Some(trace) = left_trace / right_trace` loops of the sequence case
     rdo_lloop/rdo_rloop   the outer `while let Some(left_item) = left` / `while let Some(right_item) = right` loops
     rdo_redo              ItemPtr::redo (block.rs)
     rdo_follow            Store::follow_redone (store.rs) for one unit
     rdo_op_apply          Array::insert / Array::remove / Map::insert / Map::remove on the container found by a path
     rdo_after_txn         UndoManager::handle_after_transaction (with should_skip)
     rdo_process           UndoManager::try_process
     rdo_pop               UndoManager::pop_blocking (undo_blocking / redo_blocking)
     rdo_render            the observable: recursive content of the root types (what get / to_json show)

   Where the model is MORE ABSTRACT than the code
   - unit level: every element is one item with its own id; blocks of several elements, splitting
     (get_item_clean_start / clean_end, materialize) and squashing (try_squash) are not modelled.  `last_id` = id.
   - one client: an id is the clock (N).  Transactions of another origin are made by the SAME client
     (AOther); `item.id.client < self.id.client` in resolve_conflict is therefore constantly false.
   - the store is ONE list of items in document order.  `left` / `right` of an item are derived: the nearest
     item to the left / right in that list with the same (parent, parent_sub); `branch.start` is the first
     sequence child, `branch.map[k]` is the LAST entry of the key's chain (the invariant integrate_item
     maintains).  A pointer structure in which an item is linked between neighbours that belong to another
     branch cannot be represented: where the code would produce one (a `left` / `right` handed to
     integrate_item whose parent or parent_sub differs from the new item's) the model returns RdoEForeign.
   - item.parent is RdoRoot name | RdoItem id.  `item.parent.as_branch().unwrap()` fails (RdoEParent) when the
     id does not resolve to an item of content Type.  A pointer that must exist and does not: RdoEDangling.
   - loops that follow `right` / `left` pointers of ONE chain run structurally over the (finite) list of the
     siblings (rdo_scan, rdo_lloop, rdo_rloop): they need no fuel.  Loops that follow `redone` pointers and the
     recursion into parents take fuel and return RdoEFuel on exhaustion.
   - garbage collection is not modelled (every tombstone keeps its content; `keep` is recorded but never read,
     except by rdo_keep_walk itself): this is `Options::skip_gc = true`, or a document in which all deletions
     are made by tracked transactions.  Subdocuments, weak links, formatting: not modelled.
   - IdSet: a sorted duplicate-free list of clocks.  `IdSet::blocks()` iterates in ascending order.
   - should_skip: `changed_parent_types` is not modelled; a transaction is captured iff its insert_set or
     delete_set holds an item below a root of the scope (is_parent_of).
   - time: `last_change` / capture_timeout is the flag rdo_ext ("the next captured transaction extends the
     top entry"); AStep begins with UndoManager::reset.
   - render serialises the tree into a list of N: leaf v = [0; v]; container of kind k =
     [1; k] ++ children ++ [2] ++ (key, entry)* in ascending key order ++ [3].  *)
From Coq Require Import List NArith Bool.
Import ListNotations.
Open Scope N_scope.

(* ---------------------------------------------------------------------------------------------- *)
(* result type *)

Inductive rdo_err := RdoEFuel | RdoEDangling | RdoEParent | RdoEForeign.
Inductive rdo_res (A : Type) := RdoOk (a : A) | RdoErr (e : rdo_err).
Arguments RdoOk {A} a.
Arguments RdoErr {A} e.
Definition rdo_bind {A B} (r : rdo_res A) (f : A -> rdo_res B) : rdo_res B :=
  match r with RdoOk a => f a | RdoErr e => RdoErr e end.
Notation "'rdo_let' x ':=' r 'in' k" := (rdo_bind r (fun x => k)) (at level 200, x pattern, r at level 100, k at level 200).
Definition rdo_is_ok {A} (r : rdo_res A) : bool := match r with RdoOk _ => true | RdoErr _ => false end.

(* ---------------------------------------------------------------------------------------------- *)
(* items and the store *)

Inductive rdo_parent := RdoRoot (name : N) | RdoItem (id : N).
Inductive rdo_content := RdoVal (v : N) | RdoType (kind : N).

Record rdo_item := {
  rdo_id : N;
  rdo_par : rdo_parent;
  rdo_sub : option N;
  rdo_cnt : rdo_content;
  rdo_del : bool;
  rdo_keep : bool;
  rdo_red : option N;
  rdo_org : option N;       (* origin *)
  rdo_rorg : option N;      (* right origin *)
}.

Definition rdo_set_del (x : rdo_item) : rdo_item :=
  {| rdo_id := rdo_id x; rdo_par := rdo_par x; rdo_sub := rdo_sub x; rdo_cnt := rdo_cnt x; rdo_del := true;
     rdo_keep := rdo_keep x; rdo_red := rdo_red x; rdo_org := rdo_org x; rdo_rorg := rdo_rorg x |}.
Definition rdo_set_keep (x : rdo_item) (b : bool) : rdo_item :=
  {| rdo_id := rdo_id x; rdo_par := rdo_par x; rdo_sub := rdo_sub x; rdo_cnt := rdo_cnt x; rdo_del := rdo_del x;
     rdo_keep := b; rdo_red := rdo_red x; rdo_org := rdo_org x; rdo_rorg := rdo_rorg x |}.
Definition rdo_set_red (x : rdo_item) (r : N) : rdo_item :=
  {| rdo_id := rdo_id x; rdo_par := rdo_par x; rdo_sub := rdo_sub x; rdo_cnt := rdo_cnt x; rdo_del := rdo_del x;
     rdo_keep := rdo_keep x; rdo_red := Some r; rdo_org := rdo_org x; rdo_rorg := rdo_rorg x |}.

Definition rdo_par_eqb (a b : rdo_parent) : bool :=
  match a, b with
  | RdoRoot x, RdoRoot y => x =? y
  | RdoItem x, RdoItem y => x =? y
  | _, _ => false
  end.
Definition rdo_on_eqb (a b : option N) : bool :=
  match a, b with Some x, Some y => x =? y | None, None => true | _, _ => false end.
Definition rdo_mem (i : N) (l : list N) : bool := existsb (N.eqb i) l.
Definition rdo_is_some {A} (o : option A) : bool := match o with Some _ => true | None => false end.

(* `trace.parent.as_branch().and_then(|p| p.item)` *)
Definition rdo_par_item (p : rdo_parent) : option N := match p with RdoRoot _ => None | RdoItem i => Some i end.

Fixpoint rdo_get (st : list rdo_item) (i : N) : option rdo_item :=
  match st with [] => None | y :: r => if rdo_id y =? i then Some y else rdo_get r i end.

Definition rdo_in_chain (par : rdo_parent) (sub : option N) (y : rdo_item) : bool :=
  rdo_par_eqb (rdo_par y) par && rdo_on_eqb (rdo_sub y) sub.
(* the sequence of a branch (sub = None) or the chain of a key, document order, tombstones included *)
Definition rdo_chain (st : list rdo_item) (par : rdo_parent) (sub : option N) : list rdo_item :=
  filter (rdo_in_chain par sub) st.

(* siblings to the left of id i, nearest first / to the right of id i, nearest first *)
Fixpoint rdo_split (st : list rdo_item) (i : N) (acc : list rdo_item) : option (list rdo_item * rdo_item * list rdo_item) :=
  match st with
  | [] => None
  | y :: r => if rdo_id y =? i then Some (acc, y, r) else rdo_split r i (y :: acc)
  end.
Definition rdo_lefts (st : list rdo_item) (i : N) : list N :=
  match rdo_split st i [] with
  | Some (before, x, _) => map rdo_id (filter (rdo_in_chain (rdo_par x) (rdo_sub x)) before)
  | None => []
  end.
Definition rdo_rights (st : list rdo_item) (i : N) : list N :=
  match rdo_split st i [] with
  | Some (_, x, after) => map rdo_id (filter (rdo_in_chain (rdo_par x) (rdo_sub x)) after)
  | None => []
  end.
Definition rdo_left (st : list rdo_item) (i : N) : option N := hd_error (rdo_lefts st i).
Definition rdo_right (st : list rdo_item) (i : N) : option N := hd_error (rdo_rights st i).

(* branch.start / branch.map.get(k) *)
Definition rdo_start (st : list rdo_item) (par : rdo_parent) (sub : option N) : option N :=
  option_map rdo_id (hd_error (rdo_chain st par sub)).
Definition rdo_map_get (st : list rdo_item) (par : rdo_parent) (k : N) : option N :=
  option_map rdo_id (hd_error (rev (rdo_chain st par (Some k)))).

Fixpoint rdo_update (st : list rdo_item) (i : N) (f : rdo_item -> rdo_item) : list rdo_item :=
  match st with [] => [] | y :: r => if rdo_id y =? i then f y :: r else y :: rdo_update r i f end.

(* link x after the item l (or in front of everything) *)
Fixpoint rdo_insert_after (st : list rdo_item) (l : N) (x : rdo_item) : list rdo_item :=
  match st with [] => [x] | y :: r => if rdo_id y =? l then y :: x :: r else y :: rdo_insert_after r l x end.
Definition rdo_link (st : list rdo_item) (l : option N) (x : rdo_item) : list rdo_item :=
  match l with None => x :: st | Some l => rdo_insert_after st l x end.

(* the keys used below a branch, ascending, without duplicates *)
Fixpoint rdo_sort_insert (x : N) (l : list N) : list N :=
  match l with [] => [x] | y :: r => if x <? y then x :: l else if x =? y then l else y :: rdo_sort_insert x r end.
Definition rdo_sort (l : list N) : list N := fold_right rdo_sort_insert [] l.
Definition rdo_keys (st : list rdo_item) (par : rdo_parent) : list N :=
  rdo_sort (flat_map (fun y => if rdo_par_eqb (rdo_par y) par then match rdo_sub y with Some k => [k] | None => [] end else []) st).

(* ---------------------------------------------------------------------------------------------- *)
(* a running transaction: the store, the next clock, insert_set and delete_set *)

Record rdo_txn := { rdo_st : list rdo_item; rdo_next : N; rdo_tins : list N; rdo_tdel : list N }.
Definition rdo_txn_with (t : rdo_txn) (st : list rdo_item) : rdo_txn :=
  {| rdo_st := st; rdo_next := rdo_next t; rdo_tins := rdo_tins t; rdo_tdel := rdo_tdel t |}.

(* Branch::is_parent_of for the roots of the scope *)
Fixpoint rdo_is_parent_of (fuel : nat) (st : list rdo_item) (scope : list N) (i : N) : bool :=
  match fuel with
  | O => false
  | S f =>
      match rdo_get st i with
      | None => false
      | Some x => match rdo_par x with
                  | RdoRoot n => rdo_mem n scope
                  | RdoItem p => rdo_is_parent_of f st scope p
                  end
      end
  end.
Definition rdo_in_scope (st : list rdo_item) (scope : list N) (i : N) : bool :=
  rdo_is_parent_of (S (length st)) st scope i.

(* ItemPtr::keep *)
Fixpoint rdo_keep_walk (fuel : nat) (st : list rdo_item) (i : N) (keep : bool) : list rdo_item :=
  match fuel with
  | O => st
  | S f =>
      match rdo_get st i with
      | None => st
      | Some x =>
          if Bool.eqb (rdo_keep x) keep then st
          else let st' := rdo_update st i (fun y => rdo_set_keep y keep) in
               match rdo_par x with
               | RdoRoot _ => st'
               | RdoItem p => rdo_keep_walk f st' p keep
               end
      end
  end.

(* TransactionMut::delete.  Returns the store and the ids newly marked (they go into delete_set). *)
Fixpoint rdo_delete (fuel : nat) (st : list rdo_item) (i : N) : rdo_res (list rdo_item * list N) :=
  match fuel with
  | O => RdoErr RdoEFuel
  | S f =>
      match rdo_get st i with
      | None => RdoErr RdoEDangling
      | Some x =>
          if rdo_del x then RdoOk (st, [])
          else
            let st1 := rdo_update st i rdo_set_del in
            match rdo_cnt x with
            | RdoVal _ => RdoOk (st1, [i])
            | RdoType _ =>
                let me := RdoItem i in
                let seqkids := map rdo_id (filter (fun y => negb (rdo_del y)) (rdo_chain st1 me None)) in
                let mapkids := flat_map (fun k => match rdo_map_get st1 me k with Some j => [j] | None => [] end) (rdo_keys st1 me) in
                fold_left (fun acc j => rdo_let (s, d) := acc in
                                        rdo_let (s', d') := rdo_delete f s j in RdoOk (s', d ++ d'))
                          (seqkids ++ mapkids) (RdoOk (st1, [i]))
            end
      end
  end.
Definition rdo_txn_delete (t : rdo_txn) (i : N) : rdo_res rdo_txn :=
  rdo_let (st, d) := rdo_delete (S (length (rdo_st t))) (rdo_st t) i in
  RdoOk {| rdo_st := st; rdo_next := rdo_next t; rdo_tins := rdo_tins t; rdo_tdel := rdo_tdel t ++ d |}.

(* ---------------------------------------------------------------------------------------------- *)
(* integrate_item for an item with given left / right *)

Definition rdo_detect_conflict (st : list rdo_item) (left right : option N) : bool :=
  match left, right with
  | None, None => true
  | None, Some r => rdo_is_some (rdo_left st r)
  | Some l, _ => negb (rdo_on_eqb (rdo_right st l) right)
  end.

(* the scan of resolve_conflict over the items `o, o.right, ...` (cands); before = items_before_origin,
   conf = conflicting_items.  Returns the final `left`. *)
Fixpoint rdo_scan (st : list rdo_item) (x : rdo_item) (right : option N) (cands : list rdo_item)
                  (left : option N) (before conf : list N) : option N :=
  match cands with
  | [] => left
  | it :: rest =>
      if rdo_on_eqb right (Some (rdo_id it)) then left
      else
        let before' := rdo_id it :: before in
        let conf' := rdo_id it :: conf in
        if rdo_on_eqb (rdo_org x) (rdo_org it) then
          (* case 1: `item.id.client < self.id.client` is false (one client) *)
          if rdo_on_eqb (rdo_rorg x) (rdo_rorg it) then left
          else rdo_scan st x right rest left before' conf'
        else
          match rdo_org it with
          | Some oid =>
              match rdo_get st oid with
              | Some _ =>
                  if rdo_mem oid before' then
                    if negb (rdo_mem oid conf') then rdo_scan st x right rest (Some (rdo_id it)) before' []
                    else rdo_scan st x right rest left before' conf'
                  else left
              | None => left
              end
          | None => left
          end
  end.

Definition rdo_resolve_conflict (st : list rdo_item) (x : rdo_item) (left right : option N) : option N :=
  let chain := rdo_chain st (rdo_par x) (rdo_sub x) in
  let cands := match left with
               | Some l => match rdo_split chain l [] with Some (_, _, after) => after | None => [] end
               | None => chain
               end in
  rdo_scan st x right cands left [] [].

Definition rdo_neighbour_ok (st : list rdo_item) (x : rdo_item) (o : option N) : bool :=
  match o with
  | None => true
  | Some j => match rdo_get st j with
              | Some y => rdo_in_chain (rdo_par x) (rdo_sub x) y
              | None => false
              end
  end.

(* Item::needs_deletion: parent item deleted, or a map entry that is not the right-most one *)
Definition rdo_parent_deleted (st : list rdo_item) (p : rdo_parent) : bool :=
  match p with
  | RdoRoot _ => false
  | RdoItem q => match rdo_get st q with Some y => rdo_del y | None => false end
  end.

Definition rdo_integrate (t : rdo_txn) (x : rdo_item) (left right : option N) : rdo_res rdo_txn :=
  let st := rdo_st t in
  if negb (rdo_neighbour_ok st x left && rdo_neighbour_ok st x right) then RdoErr RdoEForeign
  else
    let left' := if rdo_detect_conflict st left right then rdo_resolve_conflict st x left right else left in
    let st1 := rdo_link st left' x in
    let right' := rdo_right st1 (rdo_id x) in
    let t1 := {| rdo_st := st1; rdo_next := rdo_next t; rdo_tins := rdo_tins t ++ [rdo_id x]; rdo_tdel := rdo_tdel t |} in
    rdo_let t2 := (match right', rdo_sub x, left' with
                   | None, Some _, Some l => rdo_txn_delete t1 l     (* "this is the current attribute value of parent. delete right" *)
                   | _, _, _ => RdoOk t1
                   end) in
    if rdo_parent_deleted (rdo_st t2) (rdo_par x) || (rdo_is_some (rdo_sub x) && rdo_is_some right')
    then rdo_txn_delete t2 (rdo_id x)
    else RdoOk t2.

(* ---------------------------------------------------------------------------------------------- *)
(* ItemPtr::redo *)

Record rdo_sitem := { rdo_sins : list N; rdo_sdel : list N }.      (* StackItem: insertions, deletions *)
Definition rdo_stack_deleted (s : list rdo_sitem) (i : N) : bool := existsb (fun e => rdo_mem i (rdo_sdel e)) s.

(* `while let Some(id) = redone { parent_block = get(id); redone = parent_block.and_then(|p| p.redone) }` *)
Fixpoint rdo_chase (fuel : nat) (st : list rdo_item) (pb : option N) (redone : option N) : rdo_res (option N) :=
  match redone with
  | None => RdoOk pb
  | Some id =>
      match fuel with
      | O => RdoErr RdoEFuel
      | S f => match rdo_get st id with
               | None => RdoOk None
               | Some y => rdo_chase f st (Some id) (rdo_red y)
               end
      end
  end.

(* map case, inner loop: `while let Some(item) = left { if let Some(id) = item.redone { left = get(id) or break } else break }` *)
Fixpoint rdo_mfollow (fuel : nat) (st : list rdo_item) (cur : N) : rdo_res N :=
  match fuel with
  | O => RdoErr RdoEFuel
  | S f =>
      match rdo_get st cur with
      | None => RdoErr RdoEDangling
      | Some y => match rdo_red y with
                  | Some id => match rdo_get st id with
                               | None => RdoOk cur
                               | Some _ => rdo_mfollow f st id
                               end
                  | None => RdoOk cur
                  end
      end
  end.

Definition rdo_passable (to_delete : list N) (s1 s2 : list rdo_sitem) (y : rdo_item) : bool :=
  rdo_is_some (rdo_red y) || rdo_del y || rdo_mem (rdo_id y) to_delete
  || rdo_stack_deleted s1 (rdo_id y) || rdo_stack_deleted s2 (rdo_id y).

(* map case, outer loop *)
Fixpoint rdo_mwalk (fuel : nat) (st : list rdo_item) (cur : N) (to_delete : list N) (s1 s2 : list rdo_sitem) : rdo_res N :=
  match fuel with
  | O => RdoErr RdoEFuel
  | S f =>
      match rdo_right st cur with
      | None => RdoOk cur
      | Some lr =>
          match rdo_get st lr with
          | None => RdoErr RdoEDangling
          | Some y =>
              if rdo_passable to_delete s1 s2 y then
                rdo_let cur' := rdo_mfollow (S (length st)) st lr in
                rdo_mwalk f st cur' to_delete s1 s2
              else RdoOk cur
          end
      end
  end.

(* sequence case, inner loop: follow `redone` until the lineage's parent item is `pb` *)
Fixpoint rdo_trace (fuel : nat) (st : list rdo_item) (pb : option N) (tr : option N) : rdo_res (option N) :=
  match tr with
  | None => RdoOk None
  | Some j =>
      match fuel with
      | O => RdoErr RdoEFuel
      | S f =>
          match rdo_get st j with
          | None => RdoErr RdoEDangling
          | Some y =>
              if rdo_on_eqb pb (rdo_par_item (rdo_par y)) then RdoOk (Some j)
              else match rdo_red y with
                   | Some r => match rdo_get st r with
                               | Some _ => rdo_trace f st pb (Some r)
                               | None => RdoOk None
                               end
                   | None => RdoOk None
                   end
          end
      end
  end.

(* outer loops: cands = left, left.left, ... / right, right.right, ... *)
Fixpoint rdo_lloop (st : list rdo_item) (pb : option N) (cands : list N) : rdo_res (option N) :=
  match cands with
  | [] => RdoOk None
  | l :: rest =>
      rdo_let tr := rdo_trace (S (length st)) st pb (Some l) in
      match tr with
      | Some t => RdoOk (Some t)
      | None => rdo_lloop st pb rest
      end
  end.
Fixpoint rdo_rloop (st : list rdo_item) (pb : option N) (left : option N) (cands : list N) : rdo_res (option N) :=
  match cands with
  | [] => RdoOk None
  | r :: rest =>
      rdo_let tr := rdo_trace (S (length st)) st pb (Some r) in
      match tr with
      | Some t => if negb (rdo_on_eqb (Some t) left) then RdoOk (Some t) else rdo_rloop st pb left rest
      | None => rdo_rloop st pb left rest
      end
  end.

(* `item.parent.as_branch().unwrap()` *)
Definition rdo_unwrap_parent (st : list rdo_item) (p : rdo_parent) : rdo_res rdo_parent :=
  match p with
  | RdoRoot _ => RdoOk p
  | RdoItem q => match rdo_get st q with
                 | Some y => match rdo_cnt y with RdoType _ => RdoOk p | RdoVal _ => RdoErr RdoEParent end
                 | None => RdoErr RdoEParent
                 end
  end.

(* result: the transaction and `Some id` of the copy (or of the existing copy) / None *)
Fixpoint rdo_redo (fuel : nat) (t : rdo_txn) (i : N) (redo_items to_delete : list N) (s1 s2 : list rdo_sitem)
  : rdo_res (rdo_txn * option N) :=
  match fuel with
  | O => RdoErr RdoEFuel
  | S f =>
      match rdo_get (rdo_st t) i with
      | None => RdoErr RdoEDangling
      | Some item =>
          match rdo_red item with
          | Some r => RdoOk (t, match rdo_get (rdo_st t) r with Some _ => Some r | None => None end)
          | None =>
              (* make sure that parent is redone; result: (t', Some parent_block) or (t', None) = `return None` *)
              rdo_let ph1 :=
                (match rdo_par_item (rdo_par item) with
                 | None => RdoOk (t, Some None)
                 | Some p =>
                     match rdo_get (rdo_st t) p with
                     | None => RdoErr RdoEDangling
                     | Some pit =>
                         if rdo_del pit then
                           rdo_let (t', go) :=
                             (if rdo_is_some (rdo_red pit) then RdoOk (t, true)
                              else if negb (rdo_mem p redo_items) then RdoOk (t, false)
                              else rdo_let (t', o) := rdo_redo f t p redo_items to_delete s1 s2 in
                                   RdoOk (t', rdo_is_some o)) in
                           if negb go then RdoOk (t', None)
                           else
                             match rdo_get (rdo_st t') p with
                             | None => RdoErr RdoEDangling
                             | Some pit' =>
                                 rdo_let pb := rdo_chase (S (length (rdo_st t'))) (rdo_st t') (Some p) (rdo_red pit') in
                                 RdoOk (t', Some pb)
                             end
                         else RdoOk (t, Some (Some p))
                     end
                 end) in
              match ph1 with
              | (t1, None) => RdoOk (t1, None)
              | (t1, Some pb) =>
                  let st := rdo_st t1 in
                  rdo_let pbranch :=
                    (match pb with
                     | Some p => match rdo_get st p with
                                 | None => RdoErr RdoEDangling
                                 | Some y => match rdo_cnt y with
                                             | RdoType _ => RdoOk (RdoItem p)
                                             | RdoVal _ => rdo_unwrap_parent st (rdo_par item)
                                             end
                                 end
                     | None => rdo_unwrap_parent st (rdo_par item)
                     end) in
                  (* left / right; None = `return None` (conflict with a live entry) *)
                  rdo_let lr :=
                    (match rdo_sub item with
                     | Some k =>
                         if rdo_par_eqb (rdo_par item) pbranch && rdo_is_some (rdo_right st i) then
                           rdo_let l := rdo_mwalk (S (length st)) st i to_delete s1 s2 in
                           if rdo_is_some (rdo_right st l) then RdoOk None else RdoOk (Some (Some l, None))
                         else RdoOk (Some (rdo_map_get st pbranch k, None))
                     | None =>
                         rdo_let l := rdo_lloop st pb (rdo_lefts st i) in
                         rdo_let r := rdo_rloop st pb l (i :: rdo_rights st i) in
                         RdoOk (Some (l, r))
                     end) in
                  match lr with
                  | None => RdoOk (t1, None)
                  | Some (l, r) =>
                      let nid := rdo_next t1 in
                      let copy := {| rdo_id := nid; rdo_par := pbranch; rdo_sub := rdo_sub item; rdo_cnt := rdo_cnt item;
                                     rdo_del := false; rdo_keep := true; rdo_red := None; rdo_org := l; rdo_rorg := r |} in
                      let t2 := {| rdo_st := rdo_update st i (fun y => rdo_set_red y nid); rdo_next := nid + 1;
                                   rdo_tins := rdo_tins t1; rdo_tdel := rdo_tdel t1 |} in
                      rdo_let t3 := rdo_integrate t2 copy l r in
                      RdoOk (t3, Some nid)
                  end
              end
          end
      end
  end.

(* Store::follow_redone for one unit *)
Fixpoint rdo_follow (fuel : nat) (st : list rdo_item) (i : N) : rdo_res (option rdo_item) :=
  match fuel with
  | O => RdoErr RdoEFuel
  | S f =>
      match rdo_get st i with
      | None => RdoOk None
      | Some y => match rdo_red y with Some r => rdo_follow f st r | None => RdoOk (Some y) end
      end
  end.

(* ---------------------------------------------------------------------------------------------- *)
(* the calls of the user *)

Inductive rdo_stepk := RdoIdx (n : nat) | RdoKey (k : N).

Definition rdo_live (l : list rdo_item) : list rdo_item := filter (fun y => negb (rdo_del y)) l.

(* the live entry of a key *)
Definition rdo_entry (st : list rdo_item) (par : rdo_parent) (k : N) : option rdo_item :=
  match rdo_map_get st par k with
  | Some j => match rdo_get st j with Some y => if rdo_del y then None else Some y | None => None end
  | None => None
  end.

Fixpoint rdo_resolve (st : list rdo_item) (par : rdo_parent) (p : list rdo_stepk) : option rdo_parent :=
  match p with
  | [] => Some par
  | s :: r =>
      match (match s with
             | RdoIdx n => nth_error (rdo_live (rdo_chain st par None)) n
             | RdoKey k => rdo_entry st par k
             end) with
      | Some x => match rdo_cnt x with RdoType _ => rdo_resolve st (RdoItem (rdo_id x)) r | RdoVal _ => None end
      | None => None
      end
  end.

Inductive rdo_op :=
| RdoOIns (root : N) (path : list rdo_stepk) (pos : nat) (c : rdo_content)   (* Array::insert, pos clamped *)
| RdoODel (root : N) (path : list rdo_stepk) (pos : nat)                      (* Array::remove, no-op out of range *)
| RdoOSet (root : N) (path : list rdo_stepk) (k : N) (c : rdo_content)        (* Map::insert *)
| RdoORem (root : N) (path : list rdo_stepk) (k : N).                         (* Map::remove *)

(* Array::insert(pos): (left, right) = the item in front of the pos-th live unit and that unit; the new unit
   lands behind the tombstones that precede the pos-th live unit (BlockIter::try_forward) *)
Fixpoint rdo_ins_point (chain : list rdo_item) (pos : nat) (prev : option N) : option N * option N :=
  match chain with
  | [] => (prev, None)
  | y :: r =>
      if rdo_del y then rdo_ins_point r pos (Some (rdo_id y))
      else match pos with
           | O => (prev, Some (rdo_id y))
           | S p => rdo_ins_point r p (Some (rdo_id y))
           end
  end.

Definition rdo_new_item (t : rdo_txn) (par : rdo_parent) (sub : option N) (c : rdo_content) (l r : option N) : rdo_item :=
  {| rdo_id := rdo_next t; rdo_par := par; rdo_sub := sub; rdo_cnt := c; rdo_del := false; rdo_keep := false;
     rdo_red := None; rdo_org := l; rdo_rorg := r |}.
Definition rdo_bump (t : rdo_txn) : rdo_txn :=
  {| rdo_st := rdo_st t; rdo_next := rdo_next t + 1; rdo_tins := rdo_tins t; rdo_tdel := rdo_tdel t |}.

Definition rdo_op_apply (t : rdo_txn) (o : rdo_op) : rdo_res rdo_txn :=
  let st := rdo_st t in
  match o with
  | RdoOIns root path pos c =>
      match rdo_resolve st (RdoRoot root) path with
      | None => RdoOk t
      | Some par =>
          let '(l, r) := rdo_ins_point (rdo_chain st par None) pos None in
          rdo_integrate (rdo_bump t) (rdo_new_item t par None c l r) l r
      end
  | RdoODel root path pos =>
      match rdo_resolve st (RdoRoot root) path with
      | None => RdoOk t
      | Some par =>
          match nth_error (rdo_live (rdo_chain st par None)) pos with
          | Some y => rdo_txn_delete t (rdo_id y)
          | None => RdoOk t
          end
      end
  | RdoOSet root path k c =>
      match rdo_resolve st (RdoRoot root) path with
      | None => RdoOk t
      | Some par =>
          let l := rdo_map_get st par k in
          rdo_integrate (rdo_bump t) (rdo_new_item t par (Some k) c l None) l None
      end
  | RdoORem root path k =>
      match rdo_resolve st (RdoRoot root) path with
      | None => RdoOk t
      | Some par =>
          match rdo_entry st par k with
          | Some y => rdo_txn_delete t (rdo_id y)
          | None => RdoOk t
          end
      end
  end.

Fixpoint rdo_ops_apply (t : rdo_txn) (ops : list rdo_op) : rdo_res rdo_txn :=
  match ops with
  | [] => RdoOk t
  | o :: r => rdo_let t' := rdo_op_apply t o in rdo_ops_apply t' r
  end.

(* ---------------------------------------------------------------------------------------------- *)
(* the undo manager *)

Record rdo_state := {
  rdo_doc : list rdo_item;
  rdo_clock : N;
  rdo_scope : list N;            (* the root types of the scope *)
  rdo_us : list rdo_sitem;       (* undo stack, top first *)
  rdo_rs : list rdo_sitem;       (* redo stack, top first *)
  rdo_ext : bool;                (* last_change > 0 and inside the capture timeout *)
}.
Definition rdo_state0 (scope : list N) : rdo_state :=
  {| rdo_doc := []; rdo_clock := 0; rdo_scope := scope; rdo_us := []; rdo_rs := []; rdo_ext := false |}.

Definition rdo_begin (s : rdo_state) : rdo_txn :=
  {| rdo_st := rdo_doc s; rdo_next := rdo_clock s; rdo_tins := []; rdo_tdel := [] |}.

Inductive rdo_mode := RdoNormal | RdoUndoing | RdoRedoing.

Definition rdo_keep_all (st : list rdo_item) (scope : list N) (ids : list N) (keep : bool) : list rdo_item :=
  fold_left (fun s i => if rdo_in_scope s scope i then rdo_keep_walk (S (length s)) s i keep else s) ids st.

Definition rdo_merge (a b : list N) : list N := rdo_sort (a ++ b).

(* commit of a transaction of a tracked origin: handle_after_transaction *)
Definition rdo_after_txn (s : rdo_state) (t : rdo_txn) (mode : rdo_mode) : rdo_state :=
  let st := rdo_st t in
  let scope := rdo_scope s in
  let captured := existsb (rdo_in_scope st scope) (rdo_tins t ++ rdo_tdel t) in
  if negb captured then
    {| rdo_doc := st; rdo_clock := rdo_next t; rdo_scope := scope; rdo_us := rdo_us s; rdo_rs := rdo_rs s; rdo_ext := rdo_ext s |}
  else
    let ins := rdo_sort (rdo_tins t) in
    let del := rdo_sort (rdo_tdel t) in
    match mode with
    | RdoUndoing =>
        let st' := rdo_keep_all st scope del true in
        {| rdo_doc := st'; rdo_clock := rdo_next t; rdo_scope := scope; rdo_us := rdo_us s;
           rdo_rs := {| rdo_sins := ins; rdo_sdel := del |} :: rdo_rs s; rdo_ext := false |}
    | RdoRedoing =>
        let st' := rdo_keep_all st scope del true in
        {| rdo_doc := st'; rdo_clock := rdo_next t; rdo_scope := scope;
           rdo_us := {| rdo_sins := ins; rdo_sdel := del |} :: rdo_us s; rdo_rs := rdo_rs s; rdo_ext := rdo_ext s |}
    | RdoNormal =>
        (* the redo stack is dropped: its deletions are released *)
        let st0 := fold_left (fun s0 e => rdo_keep_all s0 scope (rdo_sdel e) false) (rdo_rs s) st in
        let us' := match rdo_us s with
                   | top :: rest =>
                       if rdo_ext s then {| rdo_sins := rdo_merge (rdo_sins top) ins; rdo_sdel := rdo_merge (rdo_sdel top) del |} :: rest
                       else {| rdo_sins := ins; rdo_sdel := del |} :: rdo_us s
                   | [] => [{| rdo_sins := ins; rdo_sdel := del |}]
                   end in
        let st' := rdo_keep_all st0 scope del true in
        {| rdo_doc := st'; rdo_clock := rdo_next t; rdo_scope := scope; rdo_us := us'; rdo_rs := []; rdo_ext := true |}
    end.

(* a transaction of an origin that is not tracked *)
Definition rdo_commit_other (s : rdo_state) (t : rdo_txn) : rdo_state :=
  {| rdo_doc := rdo_st t; rdo_clock := rdo_next t; rdo_scope := rdo_scope s; rdo_us := rdo_us s; rdo_rs := rdo_rs s; rdo_ext := rdo_ext s |}.

Definition rdo_reset (s : rdo_state) : rdo_state :=
  {| rdo_doc := rdo_doc s; rdo_clock := rdo_clock s; rdo_scope := rdo_scope s; rdo_us := rdo_us s; rdo_rs := rdo_rs s; rdo_ext := false |}.

(* try_process: None = `return false` before anything was changed (follow_redone failed) *)
Definition rdo_process (s : rdo_state) (e : rdo_sitem) (s1 s2 : list rdo_sitem) : rdo_res (rdo_txn * bool) :=
  let t0 := rdo_begin s in
  let st := rdo_st t0 in
  let scope := rdo_scope s in
  (* to_delete: the live final copies of the inserted units that lie in the scope *)
  rdo_let td :=
    fold_left (fun acc i =>
                 rdo_let o := acc in
                 match o with
                 | None => RdoOk None
                 | Some l =>
                     match rdo_get st i with
                     | None => RdoOk (Some l)
                     | Some _ =>
                         rdo_let fo := rdo_follow (S (length st)) st i in
                         match fo with
                         | None => RdoOk None
                         | Some y => if negb (rdo_del y) && rdo_in_scope st scope (rdo_id y) then RdoOk (Some (l ++ [rdo_id y])) else RdoOk (Some l)
                         end
                     end
                 end) (rdo_sins e) (RdoOk (Some [])) in
  match td with
  | None => RdoOk (t0, false)
  | Some to_delete =>
      let to_redo := filter (fun i => rdo_is_some (rdo_get st i) && rdo_in_scope st scope i && negb (rdo_mem i (rdo_sins e))) (rdo_sdel e) in
      rdo_let (t1, c1) :=
        fold_left (fun acc i => rdo_let (t, c) := acc in
                                rdo_let (t', o) := rdo_redo (S (length (rdo_st t))) t i to_redo (rdo_sins e) s1 s2 in
                                RdoOk (t', c || rdo_is_some o))
                  to_redo (RdoOk (t0, false)) in
      rdo_let t2 := fold_left (fun acc i => rdo_let t := acc in rdo_txn_delete t i) (rev to_delete) (RdoOk t1) in
      RdoOk (t2, c1 || rdo_is_some (hd_error to_delete))
  end.

(* pop_blocking *)
Fixpoint rdo_pop (fuel : nat) (s : rdo_state) (undoing : bool) : rdo_res (rdo_state * bool) :=
  match fuel with
  | O => RdoOk (s, false)
  | S f =>
      match (if undoing then rdo_us s else rdo_rs s) with
      | [] => RdoOk (s, false)
      | e :: rest =>
          let s0 := if undoing
                    then {| rdo_doc := rdo_doc s; rdo_clock := rdo_clock s; rdo_scope := rdo_scope s; rdo_us := rest; rdo_rs := rdo_rs s; rdo_ext := rdo_ext s |}
                    else {| rdo_doc := rdo_doc s; rdo_clock := rdo_clock s; rdo_scope := rdo_scope s; rdo_us := rdo_us s; rdo_rs := rest; rdo_ext := rdo_ext s |} in
          rdo_let (t, changed) := rdo_process s0 e rest (if undoing then rdo_rs s else rdo_us s) in
          let s' := rdo_after_txn s0 t (if undoing then RdoUndoing else RdoRedoing) in
          if changed then RdoOk (s', true) else rdo_pop f s' undoing
      end
  end.
Definition rdo_undo (s : rdo_state) : rdo_res (rdo_state * bool) := rdo_pop (S (length (rdo_us s))) s true.
Definition rdo_redo_call (s : rdo_state) : rdo_res (rdo_state * bool) := rdo_pop (S (length (rdo_rs s))) s false.

(* ---------------------------------------------------------------------------------------------- *)
(* programs *)

Inductive rdo_action :=
| RdoAStep (txns : list (list rdo_op))     (* reset(); then the transactions of the tracked origin, one capture step *)
| RdoAOther (ops : list rdo_op)            (* one transaction of another origin *)
| RdoAUndo
| RdoARedo.

Definition rdo_tracked_txn (s : rdo_state) (ops : list rdo_op) : rdo_res rdo_state :=
  rdo_let t := rdo_ops_apply (rdo_begin s) ops in RdoOk (rdo_after_txn s t RdoNormal).

Definition rdo_act (s : rdo_state) (a : rdo_action) : rdo_res rdo_state :=
  match a with
  | RdoAStep txns => fold_left (fun acc ops => rdo_let s1 := acc in rdo_tracked_txn s1 ops) txns (RdoOk (rdo_reset s))
  | RdoAOther ops => rdo_let t := rdo_ops_apply (rdo_begin s) ops in RdoOk (rdo_commit_other s t)
  | RdoAUndo => rdo_let (s', _) := rdo_undo s in RdoOk s'
  | RdoARedo => rdo_let (s', _) := rdo_redo_call s in RdoOk s'
  end.
Fixpoint rdo_run (s : rdo_state) (p : list rdo_action) : rdo_res rdo_state :=
  match p with
  | [] => RdoOk s
  | a :: r => rdo_let s' := rdo_act s a in rdo_run s' r
  end.

(* ---------------------------------------------------------------------------------------------- *)
(* the observable *)

Fixpoint rdo_render_item (fuel : nat) (st : list rdo_item) (x : rdo_item) : list N :=
  match fuel with
  | O => [4]
  | S f =>
      match rdo_cnt x with
      | RdoVal v => [0; v]
      | RdoType k =>
          let me := RdoItem (rdo_id x) in
          [1; k] ++ flat_map (rdo_render_item f st) (rdo_live (rdo_chain st me None)) ++ [2]
          ++ flat_map (fun key => match rdo_entry st me key with Some y => key :: rdo_render_item f st y | None => [] end) (rdo_keys st me)
          ++ [3]
      end
  end.
Definition rdo_render_root (st : list rdo_item) (root : N) : list N :=
  let me := RdoRoot root in
  flat_map (rdo_render_item (length st) st) (rdo_live (rdo_chain st me None)) ++ [2]
  ++ flat_map (fun key => match rdo_entry st me key with Some y => key :: rdo_render_item (length st) st y | None => [] end) (rdo_keys st me)
  ++ [3].
Definition rdo_render (s : rdo_state) (roots : list N) : list (list N) := map (rdo_render_root (rdo_doc s)) roots.

(* all renders along a program (after every action); [] when a failure value shows up *)
Fixpoint rdo_renders (s : rdo_state) (roots : list N) (p : list rdo_action) : list (list (list N)) :=
  match p with
  | [] => []
  | a :: r => match rdo_act s a with
              | RdoOk s' => rdo_render s' roots :: rdo_renders s' roots r
              | RdoErr _ => []
              end
  end.

(* ---------------------------------------------------------------------------------------------- *)
(* SPECIFICATION of the inverse law (statement only; port of mirror_step of /verif/coq/Crdt/UndoSpec.v to
   nested renders).  rdo_mu[j] = content of the scope when the undo stack held j entries; rdo_mr[i] = content a
   redo that pops the redo stack down to i entries must lead to. *)

Definition rdo_cont := list (list N).
Definition rdo_cont_eqb (a b : rdo_cont) : bool :=
  if list_eq_dec (list_eq_dec N.eq_dec) a b then true else false.
Record rdo_mirror := { rdo_mu : list rdo_cont; rdo_mr : list rdo_cont }.
Definition rdo_nth_cont (l : list rdo_cont) (j : nat) : rdo_cont := nth j l [].
Fixpoint rdo_all_eq_from (l : list rdo_cont) (lo n : nat) (c : rdo_cont) : bool :=
  match n with O => true | S m => rdo_cont_eqb (rdo_nth_cont l lo) c && rdo_all_eq_from l (S lo) m c end.
Fixpoint rdo_all_same_as_prev (l : list rdo_cont) (lo n : nat) : bool :=
  match n with O => true | S m => rdo_cont_eqb (rdo_nth_cont l lo) (rdo_nth_cont l (pred lo)) && rdo_all_same_as_prev l (S lo) m end.

Definition rdo_mirror_step (s : rdo_state) (m : rdo_mirror) (a : rdo_action) : option (rdo_state * rdo_mirror) :=
  match rdo_act s a with
  | RdoErr _ => None                                          (* a failure value violates the law *)
  | RdoOk s' =>
      let before := rdo_render s (rdo_scope s) in
      let cur := rdo_render s' (rdo_scope s) in
      let ul0 := length (rdo_us s) in let rl0 := length (rdo_rs s) in
      let ul1 := length (rdo_us s') in let rl1 := length (rdo_rs s') in
      match a with
      | RdoAStep _ =>
          if Nat.eqb ul1 (S ul0) then
            if Nat.eqb rl1 0 then Some (s', {| rdo_mu := firstn (S ul0) (rdo_mu m) ++ [cur]; rdo_mr := [] |}) else None
          else if Nat.eqb ul1 ul0 then
            if rdo_cont_eqb before cur then Some (s', m) else None
          else None
      | RdoAOther _ => Some (s', m)
      | RdoAUndo =>
          if Nat.ltb ul0 ul1 then None else
          let want := rdo_nth_cont (rdo_mu m) ul1 in
          if negb (rdo_cont_eqb cur want) then None
          else if negb (rdo_all_same_as_prev (rdo_mu m) (ul1 + 2) (ul0 - ul1 - 1)) then None
          else if Nat.eqb rl1 (S rl0) then
            Some (s', {| rdo_mu := firstn (S ul1) (rdo_mu m); rdo_mr := firstn rl0 (rdo_mr m) ++ [rdo_nth_cont (rdo_mu m) ul0] |})
          else if Nat.eqb rl1 rl0 then
            if rdo_cont_eqb cur before then Some (s', {| rdo_mu := firstn (S ul1) (rdo_mu m); rdo_mr := rdo_mr m |}) else None
          else None
      | RdoARedo =>
          if Nat.ltb rl0 rl1 then None else
          if Nat.eqb rl0 rl1 then (if rdo_cont_eqb cur before && Nat.eqb ul1 ul0 then Some (s', m) else None) else
          let want := rdo_nth_cont (rdo_mr m) rl1 in
          if Nat.eqb ul1 (S ul0) then
            if negb (rdo_cont_eqb cur want) then None
            else if negb (rdo_all_eq_from (rdo_mr m) (S rl1) (rl0 - rl1 - 1) before) then None
            else Some (s', {| rdo_mu := firstn (S ul0) (rdo_mu m) ++ [cur]; rdo_mr := firstn rl1 (rdo_mr m) |})
          else if Nat.eqb ul1 ul0 then
            if negb (rdo_cont_eqb cur before) then None
            else if negb (rdo_all_eq_from (rdo_mr m) rl1 (rl0 - rl1) before) then None
            else Some (s', {| rdo_mu := rdo_mu m; rdo_mr := firstn rl1 (rdo_mr m) |})
          else None
      end
  end.

Fixpoint rdo_mirror_run (s : rdo_state) (m : rdo_mirror) (p : list rdo_action) : bool :=
  match p with
  | [] => true
  | a :: r => match rdo_mirror_step s m a with Some (s', m') => rdo_mirror_run s' m' r | None => false end
  end.
Definition rdo_mirror0 (scope : list N) : rdo_mirror :=
  {| rdo_mu := [rdo_render (rdo_state0 scope) scope]; rdo_mr := [] |}.
Definition rdo_only_tracked (p : list rdo_action) : bool :=
  forallb (fun a => match a with RdoAOther _ => false | _ => true end) p.

(* THE INVERSE LAW for nested scopes, one origin: every program of capture steps (calls at any depth), undo
   and redo calls satisfies the oracle: undo lands on the content the scope had before the step it goes back
   to (passing only over steps that changed nothing visible), redo on the content after it. *)
Definition rdo_inverse_law (scope : list N) : Prop :=
  forall p, rdo_only_tracked p = true -> rdo_mirror_run (rdo_state0 scope) (rdo_mirror0 scope) p = true.

(* ---------------------------------------------------------------------------------------------- *)
(* definitions used by the proof of the inverse law for `steps ; undo ; redo` (RedoProofs.v, sections D, E, F) *)
(* RedoInv.v - definitions shared by the proof of the inverse law for `steps ; undo ; redo` (theorem 2, partial).
   Definitions only (boolean, testable).  Will be merged into RedoProofs.v. *)

Definition rdo_set_live (x : rdo_item) : rdo_item :=
  {| rdo_id := rdo_id x; rdo_par := rdo_par x; rdo_sub := rdo_sub x; rdo_cnt := rdo_cnt x; rdo_del := false;
     rdo_keep := rdo_keep x; rdo_red := rdo_red x; rdo_org := rdo_org x; rdo_rorg := rdo_rorg x |}.

(* the items an entry (I, D) re-creates: D minus I, present in the store *)
Definition rdo_i_redo (st : list rdo_item) (I D : list N) : list N :=
  filter (fun i => rdo_is_some (rdo_get st i) && negb (rdo_mem i I)) D.

(* the VIRTUAL store an entry (I, D) aims at: same items, same order; the items of I are dead, the re-created
   items are alive again (in the real result their COPIES are alive instead) *)
Definition rdo_i_flip (st : list rdo_item) (I D : list N) : list rdo_item :=
  map (fun x => if rdo_mem (rdo_id x) I then rdo_set_del x
                else if rdo_mem (rdo_id x) D then rdo_set_live x else x) st.

Definition rdo_i_all (st : list rdo_item) (f : rdo_item -> bool) : bool := forallb f st.
Definition rdo_i_isdel (st : list rdo_item) (i : N) : bool :=
  match rdo_get st i with Some y => rdo_del y | None => true end.

(* basic shape: ids distinct, parents exist, are older and are containers *)
Fixpoint rdo_i_nodup (l : list N) : bool :=
  match l with [] => true | x :: r => negb (rdo_mem x r) && rdo_i_nodup r end.
Definition rdo_i_wfp (st : list rdo_item) (next : N) : bool :=
  rdo_i_nodup (map rdo_id st) &&
  rdo_i_all st (fun x => (rdo_id x <? next) &&
     match rdo_par x with
     | RdoRoot _ => true
     | RdoItem p => (p <? rdo_id x) && match rdo_get st p with
                                       | Some y => match rdo_cnt y with RdoType _ => true | RdoVal _ => false end
                                       | None => false
                                       end
     end).

(* cascade: the children of a dead container are dead; in a key chain only the last entry can be alive *)
Definition rdo_i_cascade (st : list rdo_item) : bool :=
  rdo_i_all st (fun x => negb (rdo_parent_deleted st (rdo_par x)) || rdo_del x).
Definition rdo_i_lastlive (st : list rdo_item) : bool :=
  rdo_i_all st (fun x => match rdo_sub x with
                         | None => true
                         | Some _ => rdo_del x || negb (rdo_is_some (rdo_right st (rdo_id x)))
                         end).

(* at most one live entry per key chain *)
Definition rdo_i_ulive (st : list rdo_item) : bool :=
  rdo_i_all st (fun x => match rdo_sub x with
                         | None => true
                         | Some _ => rdo_del x || forallb (fun j => rdo_i_isdel st j) (rdo_rights st (rdo_id x))
                         end).

(* render of a VIRTUAL store: the entry of a key is the live entry of its chain, wherever it stands
   (on a legal document - rdo_i_lastlive - this is rdo_render_root) *)
Definition rdo_i_entry (st : list rdo_item) (par : rdo_parent) (k : N) : option rdo_item :=
  hd_error (rdo_live (rdo_chain st par (Some k))).
Fixpoint rdo_i_render_item (fuel : nat) (st : list rdo_item) (x : rdo_item) : list N :=
  match fuel with
  | O => [4]
  | S f =>
      match rdo_cnt x with
      | RdoVal v => [0; v]
      | RdoType k =>
          let me := RdoItem (rdo_id x) in
          [1; k] ++ flat_map (rdo_i_render_item f st) (rdo_live (rdo_chain st me None)) ++ [2]
          ++ flat_map (fun key => match rdo_i_entry st me key with Some y => key :: rdo_i_render_item f st y | None => [] end) (rdo_keys st me)
          ++ [3]
      end
  end.
Definition rdo_i_render_root (st : list rdo_item) (root : N) : list N :=
  let me := RdoRoot root in
  flat_map (rdo_i_render_item (length st) st) (rdo_live (rdo_chain st me None)) ++ [2]
  ++ flat_map (fun key => match rdo_i_entry st me key with Some y => key :: rdo_i_render_item (length st) st y | None => [] end) (rdo_keys st me)
  ++ [3].

(* the conditions under which processing the entry (I, D) on st produces (up to copies) rdo_i_flip st I D *)
Definition rdo_i_pc (st : list rdo_item) (next : N) (scope : list N) (I D : list N) : bool :=
  let R := rdo_i_redo st I D in
  rdo_i_wfp st next && rdo_i_cascade st && rdo_i_lastlive st &&
  rdo_i_all st (fun x => rdo_in_scope st scope (rdo_id x)) &&
  forallb (fun i => rdo_is_some (rdo_get st i)) I &&
  forallb (fun i => rdo_is_some (rdo_get st i)) D &&
  (* c2: the inserted items were never re-created; what lives below them belongs to them *)
  rdo_i_all st (fun x => negb (rdo_mem (rdo_id x) I) || negb (rdo_is_some (rdo_red x))) &&
  rdo_i_all st (fun x => rdo_del x || match rdo_par x with
                                      | RdoItem p => negb (rdo_mem p I) || rdo_mem (rdo_id x) I
                                      | RdoRoot _ => true
                                      end) &&
  (* c3: what is re-created is dead, was never re-created, and its parent is a root, alive and not inserted, or re-created too *)
  rdo_i_all st (fun x => negb (rdo_mem (rdo_id x) R) ||
     (rdo_del x && negb (rdo_is_some (rdo_red x)) &&
      match rdo_par x with
      | RdoRoot _ => true
      | RdoItem p => (negb (rdo_i_isdel st p) && negb (rdo_mem p I)) || rdo_mem p R
      end)) &&
  (* c4: map entries: everything to the right of a re-created entry was inserted by the entry and never re-created;
         at most one entry per chain is re-created *)
  rdo_i_all st (fun x => negb (rdo_mem (rdo_id x) R) || negb (rdo_is_some (rdo_sub x)) ||
     forallb (fun j => rdo_mem j I && negb (rdo_mem j R) &&
                       match rdo_get st j with Some y => negb (rdo_is_some (rdo_red y)) | None => false end)
             (rdo_rights st (rdo_id x))) &&
  (* c5: the children of a re-created container were never re-created *)
  rdo_i_all st (fun x => match rdo_par x with
                         | RdoItem p => negb (rdo_mem p R) || negb (rdo_is_some (rdo_red x))
                         | RdoRoot _ => true
                         end) &&
  (* the aim is again a legal document *)
  rdo_i_cascade (rdo_i_flip st I D) && rdo_i_ulive (rdo_i_flip st I D).

(* histories of capture steps only, all calls addressed to roots of the scope *)
Definition rdo_i_op_root (o : rdo_op) : N :=
  match o with RdoOIns r _ _ _ => r | RdoODel r _ _ => r | RdoOSet r _ _ _ => r | RdoORem r _ _ => r end.
Definition rdo_i_steps (scope : list N) (p : list rdo_action) : bool :=
  forallb (fun a => match a with
                    | RdoAStep txns => forallb (forallb (fun o => rdo_mem (rdo_i_op_root o) scope)) txns
                    | _ => false
                    end) p.
