(* Proofs about the dependency-driven delivery loop of Crdt/Doc.v (the "causal gap buffer"):
   operations whose explicit dependencies are not yet integrated are stashed and retried.

   Part 1 (Section Generic): the loop over an abstract state [St] with an integration function
   [integ] and a membership test [isin], assuming only that integration never forgets an id and
   adds the id of the integrated operation.
   Part 2: [integrate_x] / [integrated] of Doc.v satisfy these assumptions.
   Part 3: the theorems restated about [deliver] itself. *)
From Coq Require Import List NArith ZArith Bool Lia Permutation.
From YV Require Import Lib.Bytes Codec.UpdateV1 Ids.Ranges Crdt.Doc.
Import ListNotations.
Open Scope N_scope.

Lemma forallb_false_ex : forall (A : Type) (f : A -> bool) (l : list A),
  forallb f l = false -> exists a, In a l /\ f a = false.
Proof.
  intros A f l. induction l as [|a r IH]; cbn [forallb]; intros H.
  - discriminate.
  - destruct (f a) eqn:Ea.
    + cbn [andb] in H. destruct (IH H) as (b & Hb & Hfb). exists b. split; [right; exact Hb | exact Hfb].
    + exists a. split; [left; reflexivity | exact Ea].
Qed.

(* ====================================================================== *)
(* Part 1: the generic loop                                               *)
(* ====================================================================== *)
Section Generic.
  Variable St : Type.
  Variable integ : St -> xop -> St.
  Variable isin : St -> id -> bool.

  Definition gready (s : St) (x : xop) : bool := forallb (isin s) (deps x).

  Fixpoint gpass (s : St) (waiting : list xop) (kept : list xop) (progress : bool) : St * list xop * bool :=
    match waiting with
    | [] => (s, rev kept, progress)
    | x :: r =>
      if isin s (xid x) then gpass s r kept progress
      else if gready s x then gpass (integ s x) r kept true
      else gpass s r (x :: kept) progress
    end.

  Fixpoint gloop (fuel : nat) (s : St) (waiting : list xop) : St * list xop :=
    match fuel with
    | O => (s, waiting)
    | S f =>
      let '(s', w', progress) := gpass s waiting [] false in
      if progress then gloop f s' w' else (s', w')
    end.

  Definition gdeliver (s : St) (waiting : list xop) : St * list xop :=
    gloop (S (length waiting)) s waiting.

  (* (a) integration never forgets an id; (b) integration adds the id of the operation *)
  Hypothesis integ_keeps : forall s x i, isin s i = true -> isin (integ s x) i = true.
  Hypothesis integ_adds : forall s x, isin (integ s x) (xid x) = true.

  (* ---------- one pass ---------- *)
  Lemma gpass_spec : forall w s k p s' k' p',
    gpass s w k p = (s', k', p') ->
    exists k2,
      k' = rev k ++ k2
      /\ (forall i, isin s i = true -> isin s' i = true)
      /\ (forall x, In x w -> isin s' (xid x) = true \/ In x k2)
      /\ incl k2 w
      /\ (length k2 <= length w)%nat
      /\ (p = true -> p' = true)
      /\ (p = false -> p' = true -> (length k2 < length w)%nat)
      /\ (p' = false ->
          s' = s
          /\ k2 = filter (fun x => negb (isin s (xid x))) w
          /\ forall x, In x k2 -> gready s x = false).
  Proof.
    induction w as [|x r IH]; intros s k p s' k' p' H; cbn [gpass] in H.
    - inversion H; subst. exists [].
      split; [|split; [|split; [|split; [|split; [|split; [|split]]]]]].
      + rewrite app_nil_r. reflexivity.
      + auto.
      + intros x [].
      + intros x [].
      + cbn [length]. lia.
      + auto.
      + intros A B. congruence.
      + intros _. split; [reflexivity|split; [reflexivity|]]. intros x [].
    - destruct (isin s (xid x)) eqn:Ei; [|destruct (gready s x) eqn:Er].
      + (* duplicate of something integrated: trimmed *)
        apply IH in H. destruct H as (k2 & Hk & Hm & Hc & Hi & Hl & Hp & Hlt & Hf).
        exists k2.
        split; [|split; [|split; [|split; [|split; [|split; [|split]]]]]].
        * exact Hk.
        * exact Hm.
        * intros y [<-|Hy]; [left; apply Hm, Ei | apply Hc, Hy].
        * apply incl_tl, Hi.
        * cbn [length]. lia.
        * exact Hp.
        * intros _ _. cbn [length]. lia.
        * intros Hp'. destruct (Hf Hp') as (Hs & Hk2 & Hr).
          split; [exact Hs|split; [|exact Hr]].
          cbn [filter]. rewrite Ei. cbn [negb]. exact Hk2.
      + (* ready: integrated *)
        apply IH in H. destruct H as (k2 & Hk & Hm & Hc & Hi & Hl & Hp & Hlt & Hf).
        exists k2.
        split; [|split; [|split; [|split; [|split; [|split; [|split]]]]]].
        * exact Hk.
        * intros i Hi0. apply Hm, integ_keeps, Hi0.
        * intros y [<-|Hy]; [left; apply Hm, integ_adds | apply Hc, Hy].
        * apply incl_tl, Hi.
        * cbn [length]. lia.
        * intros _. apply Hp. reflexivity.
        * intros _ _. cbn [length]. lia.
        * intros Hp'. specialize (Hp eq_refl). congruence.
      + (* not ready: kept *)
        apply IH in H. destruct H as (k2 & Hk & Hm & Hc & Hi & Hl & Hp & Hlt & Hf).
        exists (x :: k2).
        split; [|split; [|split; [|split; [|split; [|split; [|split]]]]]].
        * rewrite Hk. cbn [rev]. rewrite <- app_assoc. reflexivity.
        * exact Hm.
        * intros y [<-|Hy]; [right; left; reflexivity|].
          destruct (Hc _ Hy) as [Hy'|Hy']; [left; exact Hy' | right; right; exact Hy'].
        * intros y [<-|Hy]; [left; reflexivity | right; apply Hi, Hy].
        * cbn [length]. lia.
        * exact Hp.
        * intros A B. specialize (Hlt A B). cbn [length]. lia.
        * intros Hp'. destruct (Hf Hp') as (Hs & Hk2 & Hr).
          split; [exact Hs|split].
          -- cbn [filter]. rewrite Ei. cbn [negb]. f_equal. exact Hk2.
          -- intros y [<-|Hy]; [exact Er | apply Hr, Hy].
  Qed.

  (* 1. nothing is lost by a pass *)
  Theorem pass_conserves : forall s w kept progress s' kept' progress',
    gpass s w kept progress = (s', kept', progress') ->
    exists k2,
      kept' = rev kept ++ k2
      /\ (forall x, In x w -> isin s' (xid x) = true \/ In x k2)
      /\ incl k2 w.
  Proof.
    intros s w k p s' k' p' H.
    destruct (gpass_spec _ _ _ _ _ _ _ H) as (k2 & Hk & _ & Hc & Hi & _).
    exists k2. auto.
  Qed.

  Theorem pass_monotone : forall s w kept progress s' kept' progress' i,
    gpass s w kept progress = (s', kept', progress') ->
    isin s i = true -> isin s' i = true.
  Proof.
    intros s w k p s' k' p' i H.
    destruct (gpass_spec _ _ _ _ _ _ _ H) as (k2 & _ & Hm & _). apply Hm.
  Qed.

  (* a pass that reports progress strictly shrinks the waiting list *)
  Theorem pass_progress_shrinks : forall s w s' w',
    gpass s w [] false = (s', w', true) -> (length w' < length w)%nat.
  Proof.
    intros s w s' w' H.
    destruct (gpass_spec _ _ _ _ _ _ _ H) as (k2 & Hk & _ & _ & _ & _ & _ & Hlt & _).
    cbn [rev app] in Hk. subst w'. apply Hlt; reflexivity.
  Qed.

  (* a pass without progress leaves the state unchanged and keeps exactly the not-ready ops *)
  Theorem pass_no_progress : forall s w s' w',
    gpass s w [] false = (s', w', false) ->
    s' = s
    /\ w' = filter (fun x => negb (isin s (xid x))) w
    /\ forall x, In x w' -> isin s (xid x) = false /\ gready s x = false.
  Proof.
    intros s w s' w' H.
    destruct (gpass_spec _ _ _ _ _ _ _ H) as (k2 & Hk & _ & _ & _ & _ & _ & _ & Hf).
    cbn [rev app] in Hk. subst w'.
    destruct (Hf eq_refl) as (Hs & Hk2 & Hr).
    split; [exact Hs|split; [exact Hk2|]].
    intros x Hx. split; [|apply Hr, Hx].
    rewrite Hk2 in Hx. apply filter_In in Hx. destruct Hx as [_ Hx].
    apply negb_true_iff in Hx. exact Hx.
  Qed.

  (* ---------- the loop ---------- *)
  Lemma gloop_spec : forall fuel s w s' st,
    (length w < fuel)%nat ->
    gloop fuel s w = (s', st) ->
    (forall i, isin s i = true -> isin s' i = true)
    /\ (forall x, In x w -> isin s' (xid x) = true \/ In x st)
    /\ incl st w
    /\ (forall x, In x st -> isin s' (xid x) = false /\ gready s' x = false).
  Proof.
    induction fuel as [|f IH]; intros s w s' st Hlen H.
    - lia.
    - cbn [gloop] in H.
      destruct (gpass s w [] false) as [[s1 w1] p1] eqn:E.
      destruct p1.
      + pose proof (pass_progress_shrinks _ _ _ _ E) as Hsh.
        destruct (gpass_spec _ _ _ _ _ _ _ E) as (k2 & Hk & Hm & Hc & Hi & _).
        cbn [rev app] in Hk. subst k2.
        assert (Hlen1 : (length w1 < f)%nat) by lia.
        destruct (IH _ _ _ _ Hlen1 H) as (Hm' & Hc' & Hi' & Hb').
        split; [|split; [|split]].
        * intros i Hi0. apply Hm', Hm, Hi0.
        * intros x Hx. destruct (Hc _ Hx) as [Hx'|Hx'].
          -- left. apply Hm', Hx'.
          -- apply Hc', Hx'.
        * intros x Hx. apply Hi, Hi', Hx.
        * exact Hb'.
      + inversion H; subst s1 w1. clear H.
        destruct (gpass_spec _ _ _ _ _ _ _ E) as (k2 & Hk & Hm & Hc & Hi & _).
        cbn [rev app] in Hk. subst k2.
        destruct (pass_no_progress _ _ _ _ E) as (Hs & _ & Hb).
        split; [|split; [|split]].
        * exact Hm.
        * exact Hc.
        * exact Hi.
        * intros x Hx. rewrite Hs. apply Hb, Hx.
  Qed.

  Lemma gdeliver_spec : forall s w s' st,
    gdeliver s w = (s', st) ->
    (forall i, isin s i = true -> isin s' i = true)
    /\ (forall x, In x w -> isin s' (xid x) = true \/ In x st)
    /\ incl st w
    /\ (forall x, In x st -> isin s' (xid x) = false /\ gready s' x = false).
  Proof.
    intros s w s' st H. unfold gdeliver in H.
    apply (gloop_spec (S (length w))); [lia | exact H].
  Qed.

  (* 1. nothing delivered is ever dropped: it is integrated or stashed; the stash holds nothing else *)
  Theorem gdeliver_never_drops : forall s w s' stash,
    gdeliver s w = (s', stash) ->
    (forall x, In x w -> isin s' (xid x) = true \/ In x stash) /\ incl stash w.
  Proof.
    intros s w s' st H. destruct (gdeliver_spec _ _ _ _ H) as (_ & Hc & Hi & _). auto.
  Qed.

  (* 2. what is stashed is not integrated and lacks a dependency *)
  Theorem gdeliver_stash_blocked : forall s w s' stash,
    gdeliver s w = (s', stash) ->
    forall x, In x stash ->
      isin s' (xid x) = false
      /\ gready s' x = false
      /\ exists i, In i (deps x) /\ isin s' i = false.
  Proof.
    intros s w s' st H x Hx. destruct (gdeliver_spec _ _ _ _ H) as (_ & _ & _ & Hb).
    destruct (Hb _ Hx) as [H1 H2]. split; [exact H1|split; [exact H2|]].
    unfold gready in H2. apply forallb_false_ex in H2. exact H2.
  Qed.

  (* the stash is empty exactly when every delivered operation is integrated *)
  Theorem gdeliver_stash_empty_iff : forall s w s' stash,
    gdeliver s w = (s', stash) ->
    (stash = [] <-> forall x, In x w -> isin s' (xid x) = true).
  Proof.
    intros s w s' st H. destruct (gdeliver_spec _ _ _ _ H) as (_ & Hc & Hi & Hb). split.
    - intros -> x Hx. destruct (Hc _ Hx) as [Hx'|[]]. exact Hx'.
    - intros Hall. destruct st as [|x t]; [reflexivity|].
      assert (Hx : In x (x :: t)) by (left; reflexivity).
      destruct (Hb _ Hx) as [H1 _]. rewrite (Hall _ (Hi _ Hx)) in H1. discriminate.
  Qed.

  (* 3. delivery never forgets an id *)
  Theorem gdeliver_monotone : forall s w i,
    isin s i = true -> isin (fst (gdeliver s w)) i = true.
  Proof.
    intros s w i Hi0. destruct (gdeliver s w) as [s' st] eqn:E.
    destruct (gdeliver_spec _ _ _ _ E) as (Hm & _). cbn [fst]. apply Hm, Hi0.
  Qed.

  (* 4. liveness: a dependency-closed, acyclic batch is integrated completely, whatever the arrival order *)
  Definition dep_ordered (s : St) (w' : list xop) : Prop :=
    forall pre x post, w' = pre ++ x :: post ->
      forall i, In i (deps x) -> isin s i = true \/ exists y, In y pre /\ xid y = i.

  Theorem gdeliver_liveness : forall s w w' s' stash,
    gdeliver s w = (s', stash) ->
    Permutation w w' ->
    dep_ordered s w' ->
    stash = [] /\ forall x, In x w -> isin s' (xid x) = true.
  Proof.
    intros s w w' s' st H HP Hord.
    destruct (gdeliver_spec _ _ _ _ H) as (Hm & Hc & Hi & Hb).
    assert (Hpre : forall pre post, w' = pre ++ post -> forall y, In y pre -> isin s' (xid y) = true).
    { induction pre as [|x pre IHpre] using rev_ind; intros post E y Hy.
      - destruct Hy.
      - rewrite <- app_assoc in E. cbn [app] in E.
        apply in_app_or in Hy. destruct Hy as [Hy|[<-|[]]].
        + apply (IHpre _ E _ Hy).
        + assert (Hxw : In x w).
          { apply (Permutation_in x (Permutation_sym HP)). rewrite E. apply in_elt. }
          destruct (Hc _ Hxw) as [Hx|Hx]; [exact Hx|].
          destruct (Hb _ Hx) as [_ Hnr].
          unfold gready in Hnr. apply forallb_false_ex in Hnr. destruct Hnr as (i & Hid & Hni).
          destruct (Hord _ _ _ E i Hid) as [Hs|(y0 & Hy0 & Hy0i)].
          * rewrite (Hm _ Hs) in Hni. discriminate.
          * rewrite <- Hy0i in Hni. rewrite (IHpre _ E _ Hy0) in Hni. discriminate. }
    assert (Hall : forall x, In x w -> isin s' (xid x) = true).
    { intros x Hx. apply (Hpre w' []); [rewrite app_nil_r; reflexivity|].
      apply (Permutation_in x HP Hx). }
    split; [|exact Hall].
    apply (proj2 (gdeliver_stash_empty_iff _ _ _ _ H)). exact Hall.
  Qed.

  (* 5. delivering again what is already integrated changes nothing *)
  Lemma gpass_all_in : forall w s k p,
    (forall x, In x w -> isin s (xid x) = true) ->
    gpass s w k p = (s, rev k, p).
  Proof.
    induction w as [|x r IH]; intros s k p Hall; cbn [gpass].
    - reflexivity.
    - rewrite (Hall x (or_introl eq_refl)). apply IH. intros y Hy. apply Hall. right. exact Hy.
  Qed.

  Theorem gdeliver_idempotent : forall s w,
    (forall x, In x w -> isin s (xid x) = true) ->
    gdeliver s w = (s, []).
  Proof.
    intros s w Hall. unfold gdeliver. cbn [gloop].
    rewrite (gpass_all_in _ _ _ _ Hall). reflexivity.
  Qed.

  (* ---------- with (c): integration adds exactly one id ---------- *)
  Section Exact.
    Hypothesis integ_exact : forall s x i, isin (integ s x) i = true -> isin s i = true \/ i = xid x.

    Lemma gpass_exact : forall w s k p s' k' p' i,
      gpass s w k p = (s', k', p') ->
      isin s' i = true -> isin s i = true \/ exists x, In x w /\ xid x = i.
    Proof.
      induction w as [|x r IH]; intros s k p s' k' p' i H Hi0; cbn [gpass] in H.
      - inversion H; subst. left. exact Hi0.
      - destruct (isin s (xid x)) eqn:Ei; [|destruct (gready s x) eqn:Er].
        + destruct (IH _ _ _ _ _ _ _ H Hi0) as [A|(y & Hy & Hyi)]; [left; exact A|].
          right. exists y. split; [right; exact Hy|exact Hyi].
        + destruct (IH _ _ _ _ _ _ _ H Hi0) as [A|(y & Hy & Hyi)].
          * destruct (integ_exact _ _ _ A) as [B|B]; [left; exact B|].
            right. exists x. split; [left; reflexivity|symmetry; exact B].
          * right. exists y. split; [right; exact Hy|exact Hyi].
        + destruct (IH _ _ _ _ _ _ _ H Hi0) as [A|(y & Hy & Hyi)]; [left; exact A|].
          right. exists y. split; [right; exact Hy|exact Hyi].
    Qed.

    Lemma gloop_exact : forall fuel s w s' st i,
      gloop fuel s w = (s', st) ->
      isin s' i = true -> isin s i = true \/ exists x, In x w /\ xid x = i.
    Proof.
      induction fuel as [|f IH]; intros s w s' st i H Hi0; cbn [gloop] in H.
      - inversion H; subst. left. exact Hi0.
      - destruct (gpass s w [] false) as [[s1 w1] p1] eqn:E.
        destruct (gpass_spec _ _ _ _ _ _ _ E) as (k2 & Hk & _ & _ & Hincl & _).
        cbn [rev app] in Hk. subst k2.
        assert (Hs1 : isin s1 i = true -> isin s i = true \/ exists x, In x w /\ xid x = i)
          by (apply (gpass_exact _ _ _ _ _ _ _ _ E)).
        destruct p1.
        + destruct (IH _ _ _ _ _ H Hi0) as [A|(y & Hy & Hyi)].
          * apply Hs1, A.
          * right. exists y. split; [apply Hincl, Hy|exact Hyi].
        + inversion H; subst. apply Hs1, Hi0.
    Qed.

    (* delivery integrates nothing but ids of delivered operations *)
    Theorem gdeliver_exact : forall s w i,
      isin (fst (gdeliver s w)) i = true ->
      isin s i = true \/ exists x, In x w /\ xid x = i.
    Proof.
      intros s w i. destruct (gdeliver s w) as [s' st] eqn:E. cbn [fst].
      apply (gloop_exact _ _ _ _ _ _ E).
    Qed.
  End Exact.
End Generic.

(* ====================================================================== *)
(* Part 2: [integrate_x] / [integrated] satisfy (a) (b) (c)               *)
(* ====================================================================== *)
Lemma id_eqb_eq : forall a b, id_eqb a b = true <-> a = b.
Proof.
  intros [a1 a2] [b1 b2]. unfold id_eqb. cbn [cl ck].
  rewrite andb_true_iff, !N.eqb_eq. split.
  - intros [-> ->]. reflexivity.
  - intros H. inversion H. auto.
Qed.

Lemma id_eqb_refl : forall a, id_eqb a a = true.
Proof. intros a. apply id_eqb_eq. reflexivity. Qed.

Definition ids_of (ls : list (seqkey * list ditem)) : list id :=
  flat_map (fun kl => map did (snd kl)) ls.

(* the set of integrated ids, as a predicate *)
Definition iset (d : doc) (i : id) : Prop := In i (ids_of (d_lists d)) \/ In i (d_gc d).

Lemma mem_id_In : forall i l, mem_id i l = true <-> In i l.
Proof.
  intros i l. unfold mem_id. rewrite existsb_exists. split.
  - intros (j & Hj & E). apply id_eqb_eq in E. subst j. exact Hj.
  - intros H. exists i. split; [exact H|apply id_eqb_refl].
Qed.

Lemma find_in_list_some : forall i l x, find_in_list i l = Some x -> In i (map did l).
Proof.
  intros i l. induction l as [|y r IH]; intros x H; cbn [find_in_list] in H.
  - discriminate.
  - cbn [map In]. destruct (id_eqb (did y) i) eqn:E.
    + left. apply id_eqb_eq. exact E.
    + right. apply (IH _ H).
Qed.

Lemma find_in_list_none : forall i l, find_in_list i l = None -> ~ In i (map did l).
Proof.
  intros i l. induction l as [|y r IH]; intros H; cbn [find_in_list] in H; cbn [map In].
  - tauto.
  - destruct (id_eqb (did y) i) eqn:E; [discriminate|].
    intros [A|A].
    + apply id_eqb_eq in A. congruence.
    + apply (IH H A).
Qed.

Lemma find_item_some : forall i ls kx, find_item i ls = Some kx -> In i (ids_of ls).
Proof.
  intros i ls. induction ls as [|[k l] r IH]; intros kx H; cbn [find_item] in H.
  - discriminate.
  - unfold ids_of. cbn [flat_map snd]. apply in_or_app.
    destruct (find_in_list i l) as [x|] eqn:E.
    + left. apply (find_in_list_some _ _ _ E).
    + right. apply (IH _ H).
Qed.

Lemma find_item_none : forall i ls, find_item i ls = None -> ~ In i (ids_of ls).
Proof.
  intros i ls. induction ls as [|[k l] r IH]; intros H; cbn [find_item] in H.
  - cbn. tauto.
  - unfold ids_of. cbn [flat_map snd]. intros A. apply in_app_or in A.
    destruct (find_in_list i l) as [x|] eqn:E; [discriminate|].
    destruct A as [A|A].
    + apply (find_in_list_none _ _ E A).
    + apply (IH H A).
Qed.

Lemma integrated_iff : forall d i, integrated d i = true <-> iset d i.
Proof.
  intros d i. unfold integrated, iset.
  destruct (find_item i (d_lists d)) as [kx|] eqn:E.
  - split; [intros _|reflexivity]. left. apply (find_item_some _ _ _ E).
  - rewrite mem_id_In. split; [intros H; right; exact H|].
    intros [A|A]; [|exact A]. exfalso. apply (find_item_none _ _ E A).
Qed.

(* --- set_list --- *)
Lemma set_list_same_ids : forall k l ls,
  map did l = map did (get_list k ls) -> ids_of (set_list k l ls) = ids_of ls.
Proof.
  intros k l ls. induction ls as [|[k' l'] r IH]; intros H; cbn [set_list get_list] in *.
  - unfold ids_of. cbn [flat_map snd]. rewrite H. reflexivity.
  - destruct (seqkey_eqb k' k).
    + unfold ids_of. cbn [flat_map snd]. rewrite H. reflexivity.
    + unfold ids_of in *. cbn [flat_map snd]. rewrite (IH H). reflexivity.
Qed.

Lemma set_list_ids_iff : forall k l ls i,
  (forall j, In j (map did (get_list k ls)) -> In j (map did l)) ->
  (In i (ids_of (set_list k l ls)) <-> In i (ids_of ls) \/ In i (map did l)).
Proof.
  intros k l ls i. induction ls as [|[k' l'] r IH]; intros H; cbn [set_list get_list] in *.
  - unfold ids_of. cbn [flat_map snd In]. rewrite app_nil_r. tauto.
  - destruct (seqkey_eqb k' k).
    + unfold ids_of. cbn [flat_map snd]. rewrite !in_app_iff.
      split; [tauto|]. intros [[A|A]|A]; auto.
    + unfold ids_of in *. cbn [flat_map snd]. rewrite !in_app_iff. rewrite (IH H). tauto.
Qed.

(* --- yata_insert --- *)
Lemma split_after_app : forall i l a b, split_after i l = Some (a, b) -> l = a ++ b.
Proof.
  intros i l. induction l as [|y r IH]; intros a b H; cbn [split_after] in H.
  - discriminate.
  - destruct (id_eqb (did y) i).
    + inversion H; subst. reflexivity.
    + destruct (split_after i r) as [[a' b']|] eqn:E; [|discriminate].
      inversion H; subst. cbn [app]. f_equal. apply IH. reflexivity.
Qed.

Lemma insert_at_ids : forall n (suf : list ditem) x i,
  In i (map did (firstn n suf ++ x :: skipn n suf)) <-> i = did x \/ In i (map did suf).
Proof.
  intros n suf x i.
  assert (E : In i (map did suf) <-> In i (map did (firstn n suf)) \/ In i (map did (skipn n suf))).
  { rewrite <- (firstn_skipn n suf) at 1. rewrite map_app, in_app_iff. tauto. }
  rewrite map_app, in_app_iff. cbn [map In]. rewrite E.
  split.
  - intros [A|[A|A]]; auto.
  - intros [A|[A|A]]; auto.
Qed.

Lemma yata_insert_ids : forall l x i,
  In i (map did (yata_insert l x)) <-> i = did x \/ In i (map did l).
Proof.
  intros l x i. unfold yata_insert.
  remember (match oorigin (d_op x) with
            | None => ([], l)
            | Some o => match split_after o l with Some p => p | None => ([], l) end
            end) as ps eqn:Eps.
  assert (Hl : l = fst ps ++ snd ps).
  { subst ps. destruct (oorigin (d_op x)) as [o|]; [|reflexivity].
    destruct (split_after o l) as [[a b]|] eqn:E; [|reflexivity].
    cbn [fst snd]. apply (split_after_app _ _ _ _ E). }
  clear Eps. destruct ps as [pre suf]. cbn [fst snd] in Hl.
  rewrite map_app, in_app_iff, insert_at_ids.
  rewrite Hl. rewrite map_app, in_app_iff. tauto.
Qed.

(* --- deletion only flips flags --- *)
Lemma mark_deleted_ids : forall i l, map did (mark_deleted i l) = map did l.
Proof.
  intros i l. induction l as [|y r IH]; cbn [mark_deleted map].
  - reflexivity.
  - destruct (id_eqb (did y) i); cbn [map].
    + reflexivity.
    + rewrite IH. reflexivity.
Qed.

Lemma map_flag_ids : forall l, map did (map (fun x => mkditem (d_op x) true) l) = map did l.
Proof.
  intros l. rewrite map_map. apply map_ext. intros x. reflexivity.
Qed.

Lemma map_hit_ids : forall (hit : seqkey -> bool) ls,
  ids_of (map (fun kl : seqkey * list ditem =>
                 if hit (fst kl) then (fst kl, map (fun x => mkditem (d_op x) true) (snd kl)) else kl) ls)
  = ids_of ls.
Proof.
  intros hit ls. unfold ids_of. induction ls as [|[k l] r IH]; cbn [map flat_map].
  - reflexivity.
  - rewrite IH. f_equal. cbn [fst snd]. destruct (hit k); cbn [snd]; [apply map_flag_ids|reflexivity].
Qed.

Lemma delete_children_ids : forall fuel ps ls, ids_of (delete_children fuel ps ls) = ids_of ls.
Proof.
  induction fuel as [|f IH]; intros ps ls; cbn [delete_children].
  - reflexivity.
  - destruct ps as [|p ps']; [reflexivity|].
    rewrite IH.
    exact (map_hit_ids (fun k : seqkey => match fst k with PId p0 => mem_id p0 (p :: ps') | _ => false end) ls).
Qed.

Lemma delete_item_ids : forall i d,
  ids_of (d_lists (delete_item i d)) = ids_of (d_lists d) /\ d_gc (delete_item i d) = d_gc d.
Proof.
  intros i d. unfold delete_item.
  destruct (find_item i (d_lists d)) as [[k x]|]; [|split; reflexivity].
  destruct (d_del x); [split; reflexivity|].
  cbn [d_lists d_gc]. split; [|reflexivity].
  assert (E : ids_of (set_list k (mark_deleted i (get_list k (d_lists d))) (d_lists d)) = ids_of (d_lists d)).
  { apply set_list_same_ids. apply mark_deleted_ids. }
  destruct (is_type x); [|exact E].
  rewrite delete_children_ids. exact E.
Qed.

Lemma iset_delete_item : forall j d i, iset (delete_item j d) i <-> iset d i.
Proof.
  intros j d i. unfold iset. destruct (delete_item_ids j d) as [E1 E2]. rewrite E1, E2. tauto.
Qed.

(* --- integration of one unit adds exactly its id --- *)
Lemma integrate_op_iset : forall d o i, iset (integrate_op d o) i <-> iset d i \/ i = oid o.
Proof.
  intros d o i. unfold integrate_op.
  destruct (resolve_parent o d) as [key|].
  - set (x := mkditem (mkop (oid o) (oorigin o) (ororigin o) (fst key) (snd key) (ocont o))
                      (match ocont o with UDeleted => true | _ => false end)).
    set (l' := yata_insert (get_list key (d_lists d)) x).
    set (d1 := mkdoc (set_list key l' (d_lists d)) (d_gc d)).
    assert (H1 : iset d1 i <-> iset d i \/ i = oid o).
    { unfold iset, d1. cbn [d_lists d_gc].
      rewrite set_list_ids_iff.
      - unfold l'. rewrite yata_insert_ids.
        assert (Hx : did x = oid o) by reflexivity. rewrite Hx.
        pose proof (set_list_ids_iff key (get_list key (d_lists d)) (d_lists d) i (fun j H => H)) as Hsame.
        rewrite (set_list_same_ids key (get_list key (d_lists d)) (d_lists d) eq_refl) in Hsame.
        tauto.
      - intros j Hj. unfold l'. apply yata_insert_ids. right. exact Hj. }
    clearbody d1.
    repeat match goal with
           | |- context [match ?e with _ => _ end] => destruct e
           end;
      rewrite ?iset_delete_item; exact H1.
  - unfold iset. cbn [d_lists d_gc In]. split.
    + intros [A|[A|A]]; auto.
    + intros [[A|A]|A]; auto.
Qed.

Lemma integrate_x_iset : forall d x i, iset (integrate_x d x) i <-> iset d i \/ i = xid x.
Proof.
  intros d [o|j] i; cbn [integrate_x xid].
  - apply integrate_op_iset.
  - unfold iset. cbn [d_lists d_gc In]. split.
    + intros [A|[A|A]]; auto.
    + intros [[A|A]|A]; auto.
Qed.

(* (a) *)
Theorem integrate_x_keeps : forall d x i, integrated d i = true -> integrated (integrate_x d x) i = true.
Proof.
  intros d x i H. apply integrated_iff. apply integrate_x_iset. left. apply integrated_iff. exact H.
Qed.
(* (b) *)
Theorem integrate_x_adds : forall d x, integrated (integrate_x d x) (xid x) = true.
Proof.
  intros d x. apply integrated_iff. apply integrate_x_iset. right. reflexivity.
Qed.
(* (c) *)
Theorem integrate_x_exact : forall d x i,
  integrated (integrate_x d x) i = true -> integrated d i = true \/ i = xid x.
Proof.
  intros d x i H. apply integrated_iff in H. apply integrate_x_iset in H.
  destruct H as [H|H]; [left; apply integrated_iff; exact H | right; exact H].
Qed.
Print Assumptions integrate_x_keeps.
Print Assumptions integrate_x_adds.
Print Assumptions integrate_x_exact.

(* ====================================================================== *)
(* Part 3: the theorems about [deliver]                                   *)
(* ====================================================================== *)
Lemma ready_gready : forall d x, ready d x = gready doc integrated d x.
Proof. reflexivity. Qed.

Lemma deliver_pass_gpass : forall w d k p,
  deliver_pass d w k p = gpass doc integrate_x integrated d w k p.
Proof.
  induction w as [|x r IH]; intros d k p; cbn [deliver_pass gpass].
  - reflexivity.
  - rewrite !IH. reflexivity.
Qed.

Lemma deliver_loop_gloop : forall fuel d w,
  deliver_loop fuel d w = gloop doc integrate_x integrated fuel d w.
Proof.
  induction fuel as [|f IH]; intros d w; cbn [deliver_loop gloop].
  - reflexivity.
  - rewrite deliver_pass_gpass.
    destruct (gpass doc integrate_x integrated d w [] false) as [[d1 w1] p1].
    destruct p1; [apply IH|reflexivity].
Qed.

Lemma deliver_gdeliver : forall d w, deliver d w = gdeliver doc integrate_x integrated d w.
Proof. intros d w. unfold deliver, gdeliver. apply deliver_loop_gloop. Qed.

(* 1 *)
Theorem deliver_pass_conserves : forall d w kept progress d' kept' progress',
  deliver_pass d w kept progress = (d', kept', progress') ->
  exists k2,
    kept' = rev kept ++ k2
    /\ (forall x, In x w -> integrated d' (xid x) = true \/ In x k2)
    /\ incl k2 w.
Proof.
  intros d w k p d' k' p' H. rewrite deliver_pass_gpass in H.
  exact (pass_conserves doc integrate_x integrated integrate_x_keeps integrate_x_adds _ _ _ _ _ _ _ H).
Qed.
Print Assumptions deliver_pass_conserves.

Theorem deliver_never_drops : forall d w d' stash,
  deliver d w = (d', stash) ->
  (forall x, In x w -> integrated d' (xid x) = true \/ In x stash) /\ incl stash w.
Proof.
  intros d w d' st H. rewrite deliver_gdeliver in H.
  exact (gdeliver_never_drops doc integrate_x integrated integrate_x_keeps integrate_x_adds _ _ _ _ H).
Qed.
Print Assumptions deliver_never_drops.

(* 2 *)
Theorem deliver_stash_blocked : forall d w d' stash,
  deliver d w = (d', stash) ->
  forall x, In x stash ->
    integrated d' (xid x) = false
    /\ ready d' x = false
    /\ exists i, In i (deps x) /\ integrated d' i = false.
Proof.
  intros d w d' st H. rewrite deliver_gdeliver in H.
  exact (gdeliver_stash_blocked doc integrate_x integrated integrate_x_keeps integrate_x_adds _ _ _ _ H).
Qed.
Print Assumptions deliver_stash_blocked.

Theorem deliver_stash_empty_iff : forall d w d' stash,
  deliver d w = (d', stash) ->
  (stash = [] <-> forall x, In x w -> integrated d' (xid x) = true).
Proof.
  intros d w d' st H. rewrite deliver_gdeliver in H.
  exact (gdeliver_stash_empty_iff doc integrate_x integrated integrate_x_keeps integrate_x_adds _ _ _ _ H).
Qed.
Print Assumptions deliver_stash_empty_iff.

(* 3 *)
Theorem deliver_monotone : forall d w i,
  integrated d i = true -> integrated (fst (deliver d w)) i = true.
Proof.
  intros d w i. rewrite deliver_gdeliver.
  apply (gdeliver_monotone doc integrate_x integrated integrate_x_keeps integrate_x_adds).
Qed.
Print Assumptions deliver_monotone.

(* 4 *)
Theorem deliver_liveness : forall d w w' d' stash,
  deliver d w = (d', stash) ->
  Permutation w w' ->
  (forall pre x post, w' = pre ++ x :: post ->
     forall i, In i (deps x) -> integrated d i = true \/ exists y, In y pre /\ xid y = i) ->
  stash = [] /\ forall x, In x w -> integrated d' (xid x) = true.
Proof.
  intros d w w' d' st H HP Hord. rewrite deliver_gdeliver in H.
  exact (gdeliver_liveness doc integrate_x integrated integrate_x_keeps integrate_x_adds _ _ _ _ _ H HP Hord).
Qed.
Print Assumptions deliver_liveness.

(* 5 *)
Theorem deliver_idempotent : forall d w,
  (forall x, In x w -> integrated d (xid x) = true) ->
  deliver d w = (d, []).
Proof.
  intros d w Hall. rewrite deliver_gdeliver.
  apply (gdeliver_idempotent doc integrate_x integrated). exact Hall.
Qed.
Print Assumptions deliver_idempotent.

(* bonus: delivery integrates nothing but ids of delivered operations *)
Theorem deliver_exact : forall d w i,
  integrated (fst (deliver d w)) i = true ->
  integrated d i = true \/ exists x, In x w /\ xid x = i.
Proof.
  intros d w i. rewrite deliver_gdeliver.
  apply (gdeliver_exact doc integrate_x integrated integrate_x_keeps integrate_x_adds integrate_x_exact).
Qed.
Print Assumptions deliver_exact.
