(* Update::merge_updates (yrs/src/update.rs), the k-way merge that merge_updates_v1 / merge_updates_v2 run on
   their decoded arguments.  Transcribed together with
     BlockSet::into_blocks(true) / IntoBlocks       [mrg_into_blocks]   clients descending, Skip blocks dropped
     Memo (current / take / move_next)              a decoder is the list of blocks it has not yielded yet;
                                                    current() = head, `take(); move_next()` = tail
     VecDeque::retain + make_contiguous().sort_by   [mrg_step]: filter + [mrg_sort] with [mrg_cmp_blocks]
     Block::same_type / is_skip / try_squash / splice   [mrg_same_type] [mrg_is_skip] [mrg_try_squash] [mrg_splice]
     BlockSet::add_block                            [mrg_add_block]
     IdSet::merge_with                              [mrg_merge_ds] (im_merge_with of Ids/Ranges.v)

   Points where the model takes a decision:
   * sort_by.  Since fix fd4802e the comparison function of merge_updates is a total preorder on blocks (client
     descending, then clock ascending, then non-Skip before Skip; an Item and a GC block with the same id tie):
     mrg_cmp_total_preorder in MergeProofs.v.  `slice::sort_by` is a stable sort, and for a total preorder the
     result of a stable sort is determined (elements that compare Equal keep their order), whatever the algorithm
     and the length.  [mrg_sort] is the procedure the standard library uses for at most 20 elements
     (`insertion_sort_shift_left(v, 1, is_less)`: element i is moved to the left while it is_less than its
     left neighbour); mrg_sort_decoders_stable_sorted and mrg_sort_decoders_determined in MergeProofs.v show it is a
     stable sort and that a stable sort is unique, so it describes sort_by
     for every number of decoders.  (Before the fix an Item and a GC block with the same id were each Less than
     the other; with more than 20 live decoders sort_by then returned other orders or panicked:
     gen/panic_witness.txt, which the fixed code merges without panic.)
     The deque is sorted in place, so the order reached in one round is the starting order of the next one:
     the state keeps the decoders in that order.
   * Block::try_squash on two Items is ItemPtr::try_squash, whose condition contains `self.right == Some(other)`.
     The items handled here were decoded and never integrated: `right` is None, except on the left half of an
     item that ItemPtr::splice has just cut, and that half is dropped by the `move_next()` that follows a failed
     squash.  curr_write is a decoded item or the right half of a cut one (`right: item.right.clone()` = None).
     Hence `self.right == Some(other)` is false and two Items are never squashed.  GC/GC and Skip/Skip are merged
     unconditionally (`a.merge(b); true`: the lengths are added).
   * Block::splice on an Item cuts the decoder's current item in place (it keeps the left half) and returns the
     right half; on GC / Skip ranges it only returns the sliced copy.  [mrg_splice] returns both what stays in
     the decoder and what is returned.  Strings are cut by split_str(.., Utf16) = [blk_split_str]; when the offset
     falls inside a surrogate pair the Rust item gets a `len` field that disagrees with its content, while the
     model always recomputes lengths from contents (as the wire format does).
   * Arithmetic is on N: `saturating_sub` is N.sub; the u32 subtractions `skip.len -= diff`,
     `curr_block.clock + len - skip.clock` (which would panic on underflow in a checked build) are N.sub as well.
     Both occur only when curr_write is a Skip at the top of the loop, which never happens
     (mrg_cw_never_skip in MergeProofs.v).
   * BlockSet is a HashMap: [u_blocks] lists its entries; IntoBlocks sorts them by key, descending (stable
     insertion, keys are distinct in a map).  The result lists clients in the order of their first add_block
     (which is descending client order, the order Update::encode writes them in). *)
From Coq Require Import List NArith ZArith Bool.
From YV Require Import Gen.Consts Lib.Bytes Codec.Varint Codec.AnyCodec Codec.IdSetCodec Codec.UpdateV1
  Codec.V2Cols Ids.Ranges Crdt.Doc Crdt.Blocks.
Import ListNotations.
Open Scope N_scope.

(* ---- Block accessors ---- *)
Definition mrg_client (b : block) : N := cl (block_id b).
Definition mrg_clock (b : block) : N := ck (block_id b).
(* block.id().clock + block.len() *)
Definition mrg_end (b : block) : N := mrg_clock b + block_len b.

Definition mrg_is_skip (b : block) : bool := match b with BSkip _ _ => true | _ => false end.
Definition mrg_same_type (a b : block) : bool :=
  match a, b with
  | BSkip _ _, BSkip _ _ => true
  | BItem _ _ _ _ _ _, BItem _ _ _ _ _ _ => true
  | BGC _ _, BGC _ _ => true
  | _, _ => false
  end.

(* ---- IntoBlocks ---- *)
(* client_blocks.sort_by(|a, b| b.0.cmp(&a.0)): stable, descending keys *)
Fixpoint mrg_insert_client (x : N * list block) (l : list (N * list block)) : list (N * list block) :=
  match l with
  | [] => [x]
  | y :: r => if fst y <=? fst x then x :: l else y :: mrg_insert_client x r
  end.
Definition mrg_sort_clients (l : list (N * list block)) : list (N * list block) :=
  fold_right mrg_insert_client [] l.
(* into_blocks(true): all blocks, client by client, Skip blocks left out *)
Definition mrg_into_blocks (u : update) : list block :=
  filter (fun b => negb (mrg_is_skip b)) (flat_map snd (mrg_sort_clients (u_blocks u))).

(* ---- the comparison function of the sort ---- *)
Definition mrg_cmp_blocks (left right : block) : comparison :=
  match mrg_client left ?= mrg_client right with
  | Eq =>
    match mrg_clock left ?= mrg_clock right with
    | Eq => if mrg_same_type left right then Eq
            else if mrg_is_skip left then Gt
            else if mrg_is_skip right then Lt
            else Eq                     (* an Item and a GC block with the same id: a tie (fix fd4802e) *)
    | Lt => if negb (mrg_is_skip left) || mrg_is_skip right then Lt else Lt      (* `ordering => ordering` *)
    | Gt => Gt
    end
  | Lt => Gt                                                                     (* ordering.reverse() *)
  | Gt => Lt
  end.
(* is_less of two decoders (both have a current block after `retain`) *)
Definition mrg_dec_lt (d1 d2 : list block) : bool :=
  match d1, d2 with
  | b1 :: _, b2 :: _ => match mrg_cmp_blocks b1 b2 with Lt => true | _ => false end
  | _, _ => false
  end.

(* ---- slice::sort_by for short slices: insertion_sort_shift_left(v, 1, is_less) ----
   [rp] is the sorted prefix in REVERSE order (its last element first); the new element moves to the left
   while it is_less than the element on its left. *)
Fixpoint mrg_insert_tail {A : Type} (lt : A -> A -> bool) (x : A) (rp : list A) : list A :=
  match rp with
  | [] => [x]
  | y :: r => if lt x y then y :: mrg_insert_tail lt x r else x :: rp
  end.
Definition mrg_sort {A : Type} (lt : A -> A -> bool) (l : list A) : list A :=
  rev (fold_left (fun rp x => mrg_insert_tail lt x rp) l []).

(* ---- Block::try_squash as merge_updates sees it (see the header) ---- *)
Definition mrg_try_squash (a b : block) : option block :=
  match a, b with
  | BSkip i n, BSkip _ m => Some (BSkip i (n + m))
  | BGC i n, BGC _ m => Some (BGC i (n + m))
  | _, _ => None
  end.

(* ---- Block::splice: (what the decoder's current block becomes, the block returned) ---- *)
Definition mrg_content_splice (c : bcontent) (k : N) : bcontent * bcontent :=
  match c with
  | BAny l => (BAny (firstn (N.to_nat k) l), BAny (skipn (N.to_nat k) l))
  | BJson l => (BJson (firstn (N.to_nat k) l), BJson (skipn (N.to_nat k) l))
  | BDeleted n => (BDeleted k, BDeleted (n - k))
  | BString s => let p := blk_split_str s k in (BString (fst p), BString (snd p))
  | _ => (c, c)       (* ItemContent::splice is None and is unwrapped: would need 0 < k < 1 *)
  end.
Definition mrg_splice (b : block) (k : N) : block * block :=
  match b with
  | BItem i o ro p ps c =>
      let cc := mrg_content_splice c k in
      (BItem i o ro p ps (fst cc),
       BItem (mkid (cl i) (ck i + k)) (Some (mkid (cl i) (ck i + k - 1))) ro p ps (snd cc))
  | BGC i n => (b, BGC (mkid (cl i) (ck i + k)) (n - k))
  | BSkip i n => (b, BSkip (mkid (cl i) (ck i + k)) (n - k))
  end.

(* ---- BlockSet::add_block ---- *)
Definition mrg_add_block (out : list (N * list block)) (b : block) : list (N * list block) :=
  add_client_blocks out (mrg_client b) [b].

(* ---- the inner loops ---- *)
(* while last <= curr_write_last && block.client >= curr_write.client { move_next(); iterated = true } *)
Fixpoint mrg_skip_written (cw_client cw_last : N) (d : list block) : list block * bool :=
  match d with
  | [] => ([], false)
  | b :: r =>
    if (mrg_end b <=? cw_last) && (cw_client <=? mrg_client b)
    then (fst (mrg_skip_written cw_client cw_last r), true)
    else (d, false)
  end.

(* the trailing `while let Some(next) = curr_decoder.current()`: blocks in direct succession are written *)
Fixpoint mrg_write_succ (first_client : N) (d : list block) (cw : block) (out : list (N * list block))
  : list block * block * list (N * list block) :=
  match d with
  | [] => (d, cw, out)
  | next :: r =>
    if (mrg_client next =? first_client) && (mrg_clock next =? mrg_end cw)
    then mrg_write_succ first_client r next (mrg_add_block out cw)
    else (d, cw, out)
  end.

(* ---- the end of the third branch ----
   if !curr_write_block.try_squash(curr_block) { add_block(curr_write); curr_write = block_slice.or_else(take);
   move_next() }: [d1'] is the decoder (its current block possibly cut by the splice), [other] is
   block_slice.or(current) *)
Definition mrg_squash_or_write (cwb' : block) (d1' : list block) (other : block) (out : list (N * list block))
  : list block * block * list (N * list block) :=
  match mrg_try_squash cwb' other with
  | Some merged => (d1', merged, out)
  | None => (tl d1', other, mrg_add_block out cwb')
  end.

(* third branch: curr_write_last >= curr_block.clock *)
Definition mrg_overlap (cwb cb : block) (r1 : list block) (out : list (N * list block))
  : list block * block * list (N * list block) :=
  let diff := mrg_end cwb - mrg_clock cb in                     (* saturating_sub *)
  if 0 <? diff then
    match cwb with
    | BSkip i n =>                                              (* prefer to slice Skip: skip.len -= diff *)
        mrg_squash_or_write (BSkip i (n - diff)) (cb :: r1) cb out
    | _ =>
        let lr := mrg_splice cb diff in                         (* block_slice = curr_block.splice(diff) *)
        mrg_squash_or_write cwb (fst lr :: r1) (snd lr) out
    end
  else mrg_squash_or_write cwb (cb :: r1) cb out.

(* the three-way branch; the decoder is [cb :: r1] *)
Definition mrg_branch (first_client : N) (cwb cb : block) (r1 : list block) (out : list (N * list block))
  : list block * block * list (N * list block) :=
  if negb (first_client =? mrg_client cwb) then
    (* add_block(curr_write); curr_write = curr_decoder.take(); curr_decoder.move_next() *)
    (r1, cb, mrg_add_block out cwb)
  else if mrg_end cwb <? mrg_clock cb then
    match cwb with
    | BSkip i n => (cb :: r1, BSkip i (mrg_clock cb + block_len cb - ck i), out)      (* extend existing skip *)
    | other => (cb :: r1, BSkip (mkid first_client (mrg_end cwb)) (mrg_clock cb - mrg_end cwb),
                mrg_add_block out other)
    end
  else mrg_overlap cwb cb r1 out.

(* ---- one pass through the body of `loop`, after the sort: [d] is the first decoder ----
   A result with an unchanged curr_write and no call of mrg_write_succ is one of the `continue`s. *)
Definition mrg_round (d : list block) (cw : option block) (out : list (N * list block))
  : list block * option block * list (N * list block) :=
  match d with
  | [] => (d, cw, out)                                     (* curr_decoder.current() is None: continue *)
  | curr_block :: d_tl =>
    let first_client := mrg_client curr_block in
    match cw with
    | None =>
      (* curr_write = curr_decoder.take(); curr_decoder.move_next(); *)
      let r := mrg_write_succ first_client d_tl curr_block out in
      (fst (fst r), Some (snd (fst r)), snd r)
    | Some cwb =>
      let cw_last := mrg_end cwb in
      let sk := mrg_skip_written (mrg_client cwb) cw_last d in
      let iterated := snd sk in
      match fst sk with
      | [] => ([], cw, out)                                (* continue *)
      | cb :: r1 =>
        if negb (mrg_client cb =? first_client) || (iterated && (cw_last <? mrg_clock cb))
        then (cb :: r1, cw, out)                           (* continue *)
        else
          let br := mrg_branch first_client cwb cb r1 out in
          let r := mrg_write_succ first_client (fst (fst br)) (snd (fst br)) (snd br) in
          (fst (fst r), Some (snd (fst r)), snd r)
      end
    end
  end.

(* ---- the loop ---- *)
Record mrg_state := mrg_mkst {
  mrg_decs : list (list block);           (* lazy_struct_decoders, in deque order *)
  mrg_cw : option block;                  (* curr_write *)
  mrg_out : list (N * list block)         (* result.blocks *)
}.

Definition mrg_has_current (d : list block) : bool := match d with [] => false | _ => true end.

(* inl: go round again; inr: `break` *)
Definition mrg_step (s : mrg_state) : mrg_state + mrg_state :=
  match mrg_sort mrg_dec_lt (filter mrg_has_current (mrg_decs s)) with
  | [] => inr (mrg_mkst [] (mrg_cw s) (mrg_out s))
  | d :: rest =>
    let '(d', cw', out') := mrg_round d (mrg_cw s) (mrg_out s) in
    inl (mrg_mkst (d' :: rest) cw' out')
  end.

(* explicit fuel: [mrg_iter n] runs at most 2^n rounds *)
Fixpoint mrg_iter (n : nat) (s : mrg_state) : mrg_state + mrg_state :=
  match n with
  | O => mrg_step s
  | S m => match mrg_iter m s with inl s' => mrg_iter m s' | inr r => inr r end
  end.

(* result.delete_set.merge_with(update.delete_set), in argument order *)
Definition mrg_merge_ds (us : list update) : idset :=
  fold_left (fun acc u => im_merge_with ueq umerge acc (u_ds u)) us [].

Definition mrg_blocks_nonempty (u : update) : bool := match u_blocks u with [] => false | _ => true end.
Definition mrg_init (us : list update) : mrg_state :=
  mrg_mkst (map mrg_into_blocks (filter mrg_blocks_nonempty us)) None [].

(* the final flush *)
Definition mrg_finish (us : list update) (s : mrg_state) : update :=
  {| u_blocks := match mrg_cw s with Some b => mrg_add_block (mrg_out s) b | None => mrg_out s end;
     u_ds := mrg_merge_ds us |}.

Definition mrg_merge_updates_fuel (n : nat) (us : list update) : option update :=
  match mrg_iter n (mrg_init us) with
  | inr s => Some (mrg_finish us s)
  | inl _ => None
  end.

(* number of blocks the decoders still hold *)
Definition mrg_remaining (ds : list (list block)) : nat := length (concat ds).
(* 2^(mrg_fuel us) > r * r + r where r = number of blocks to merge: enough (mrg_fuel_sufficient) *)
Definition mrg_fuel (us : list update) : nat :=
  let r := N.of_nat (mrg_remaining (mrg_decs (mrg_init us))) in
  S (N.to_nat (N.log2 (r * r + r + 1))).

Definition mrg_merge_updates (us : list update) : update :=
  match mrg_merge_updates_fuel (mrg_fuel us) us with
  | Some u => u
  | None => {| u_blocks := []; u_ds := [] |}        (* never: mrg_fuel_sufficient *)
  end.

(* ================================================================================================ *)
(* Well-formed arguments: views of one history (used by the theorems of MergeProofs.v; executable, so that a
   driver can tell on which inputs the theorems speak)                                               *)
(* ================================================================================================ *)
(* ---- decidable equality of units ---- *)
Fixpoint mrg_any_eqb (a b : any) : bool :=
  match a, b with
  | AUndefined, AUndefined => true
  | ANull, ANull => true
  | ABool x, ABool y => Bool.eqb x y
  | AInt x, AInt y => Z.eqb x y
  | AF32 x, AF32 y => N.eqb x y
  | AF64 x, AF64 y => N.eqb x y
  | ABigInt x, ABigInt y => N.eqb x y
  | AString x, AString y => bytes_eqb x y
  | ABuffer x, ABuffer y => bytes_eqb x y
  | AArray x, AArray y =>
      (fix go (x y : list any) : bool :=
         match x, y with
         | [], [] => true
         | a :: x', b :: y' => mrg_any_eqb a b && go x' y'
         | _, _ => false
         end) x y
  | AMap x, AMap y =>
      (fix go (x y : list (list N * any)) : bool :=
         match x, y with
         | [], [] => true
         | (k, a) :: x', (k', b) :: y' => bytes_eqb k k' && mrg_any_eqb a b && go x' y'
         | _, _ => false
         end) x y
  | _, _ => false
  end.

Definition mrg_scope_eqb (a b : scope) : bool :=
  match a, b with
  | SRoot x, SRoot y => bytes_eqb x y
  | SNested x, SNested y => id_eqb x y
  | SRelative x, SRelative y => id_eqb x y
  | _, _ => false
  end.
Definition mrg_weaklink_eqb (a b : weaklink) : bool :=
  mrg_scope_eqb (wl_start a) (wl_start b) && Bool.eqb (wl_start_after a) (wl_start_after b) &&
  mrg_scope_eqb (wl_end a) (wl_end b) && Bool.eqb (wl_end_after a) (wl_end_after b).
Definition mrg_tyref_eqb (a b : tyref) : bool :=
  match a, b with
  | TArray, TArray | TMap, TMap | TText, TText | TXmlFragment, TXmlFragment | TXmlHook, TXmlHook
  | TXmlText, TXmlText | TSubDoc, TSubDoc | TUndefined, TUndefined => true
  | TXmlElement x, TXmlElement y => bytes_eqb x y
  | TWeak x, TWeak y => mrg_weaklink_eqb x y
  | _, _ => false
  end.
Definition mrg_ucontent_eqb (a b : ucontent) : bool :=
  match a, b with
  | UDeleted, UDeleted => true
  | UString x, UString y => N.eqb x y
  | UJson x, UJson y => bytes_eqb x y
  | UBinary x, UBinary y => bytes_eqb x y
  | UEmbed x, UEmbed y => bytes_eqb x y
  | UFormat k j, UFormat k' j' => bytes_eqb k k' && bytes_eqb j j'
  | UType x, UType y => mrg_tyref_eqb x y
  | UAny x, UAny y => mrg_any_eqb x y
  | UDoc g o, UDoc g' o' => bytes_eqb g g' && mrg_any_eqb o o'
  | _, _ => false
  end.
Definition mrg_xop_eqb (a b : xop) : bool :=
  match a, b with
  | XGC i, XGC j => id_eqb i j
  | XItem x, XItem y =>
      id_eqb (oid x) (oid y) && oid_eqb (oorigin x) (oorigin y) && oid_eqb (ororigin x) (ororigin y) &&
      parent_eqb (oparent x) (oparent y) && okey_eqb (osub x) (osub y) && mrg_ucontent_eqb (ocont x) (ocont y)
  | _, _ => false
  end.

(* ---- per update: in the order IntoBlocks yields them the blocks are of descending clients and, within a
   client, of increasing clocks without overlap; no block is empty; strings are UTF-8 ---- *)
Definition mrg_before_b (a b : block) : bool :=
  (mrg_client b <? mrg_client a) || ((mrg_client a =? mrg_client b) && (mrg_end a <=? mrg_clock b)).
Fixpoint mrg_sorted_b (d : list block) : bool :=
  match d with
  | a :: r => match r with b :: _ => mrg_before_b a b | [] => true end && mrg_sorted_b r
  | [] => true
  end.
Definition mrg_block_ok (b : block) : bool := blk_wf b && (0 <? block_len b).

(* ---- across updates: the same id carries the same unit, as seen through [pi] ----
   [pi] = identity: the units are equal.  [pi] = [mrg_unit_norm]: they are equal up to the parent information,
   which the wire format only carries on items without origins (an item cut out of the middle of a run is
   written with its origin and without parent, while the first item of the run names the parent). *)
Definition mrg_unit_norm (x : xop) : xop :=
  match x with
  | XItem o =>
      match oorigin o, ororigin o with
      | None, None => x
      | _, _ => XItem (mkop (oid o) (oorigin o) (ororigin o) PUnknown None (ocont o))
      end
  | XGC _ => x
  end.
Definition mrg_agree_gen_b (pi : xop -> xop) (bs : list block) : bool :=
  let us := flat_map units_of_block bs in
  forallb (fun x => forallb (fun y => negb (id_eqb (xid x) (xid y)) || mrg_xop_eqb (pi x) (pi y)) us) us.
Definition mrg_agree_b (bs : list block) : bool := mrg_agree_gen_b (fun x => x) bs.
(* ---- a block that ends strictly inside another one can be cut there.  Only a string cut inside a surrogate
   pair fails this.  The condition is REDUNDANT: it follows from the two other conjuncts of [mrg_wf_gen]
   (agreement of the units and valid UTF-8: the unit before the cut would be the last unit of a valid string and
   a high surrogate) - mrg_cuts_redundant, mrg_wf_core, mrg_wf_norm_core in MergeProofs.v.  It is kept in the
   definition so that the predicate a driver evaluates is literally the hypothesis of the theorems. ---- *)
Definition mrg_cuts_b (bs : list block) : bool :=
  forallb (fun a => forallb (fun b =>
    negb ((mrg_client a =? mrg_client b) && (mrg_clock b <? mrg_end a) && (mrg_end a <? mrg_end b))
    || match blk_split b (mrg_end a - mrg_clock b) with Some _ => true | None => false end) bs) bs.

Definition mrg_wf_gen (pi : xop -> xop) (us : list update) : bool :=
  let ds := map mrg_into_blocks us in
  forallb (fun d => forallb mrg_block_ok d && mrg_sorted_b d) ds
  && mrg_agree_gen_b pi (concat ds) && mrg_cuts_b (concat ds).
(* units agree exactly *)
Definition mrg_wf (us : list update) : bool := mrg_wf_gen (fun x => x) us.
(* units agree up to the parent information of items that have an origin *)
Definition mrg_wf_norm (us : list update) : bool := mrg_wf_gen mrg_unit_norm us.

(* ---- membership in a delete set ---- *)
Definition mrg_ds_mem (m : idset) (c k : N) : bool :=
  match im_get m c with
  | Some r => existsb (fun e => (e_start e <=? k) && (k <? e_end e)) r
  | None => false
  end.
