(* RedoFix.v - the model of ItemPtr::redo AS REPAIRED in the two tracing loops of the sequence branch (block.rs; diff
   /tmp/c12f/repair.diff): `own_parent = item.parent.as_branch().and_then(|p| p.item)`; right after left_trace / right_trace
   was advanced through `redone`, a target whose parent's holder item equals own_parent ends the trace with None.
   Only the functions on the path are copied from Crdt/Redo.v (verbatim except for the calls): rdo_trace_fixed,
   rdo_lloop_fixed, rdo_rloop_fixed, rdo_redo_fixed, rdo_process_fixed, rdo_pop_fixed, rdo_undo_fixed,
   rdo_redo_call_fixed, rdo_act_fixed, rdo_run_fixed, rdo_renders_fixed.  Definitions only. *)
From Coq Require Import List NArith Bool.
Import ListNotations.
From YV Require Import Crdt.Redo.
Open Scope N_scope.

(* sequence case, inner loop AS REPAIRED (block.rs, the two tracing loops): right after the trace was advanced through
   `redone`, a copy that lives in the walked sequence itself (its parent's holder item == own_parent, the holder item of
   the parent of the item being re-created) ends the trace with None *)
Fixpoint rdo_trace_fixed (fuel : nat) (st : list rdo_item) (pb own : option N) (tr : option N) : rdo_res (option N) :=
  match tr with
  | None => RdoOk None
  | Some j =>
      match fuel with
      | O => RdoErr RdoEFuel
      | S f =>
          match rdo_get st j with
          | None => RdoErr RdoEDangling
          | Some y =>
              if rdo_on_eqb pb (rdo_par_item (rdo_par y)) then RdoOk (Some j)
              else match rdo_red y with
                   | Some r => match rdo_get st r with
                               | Some t => if rdo_on_eqb (rdo_par_item (rdo_par t)) own then RdoOk None
                                           else rdo_trace_fixed f st pb own (Some r)
                               | None => RdoOk None
                               end
                   | None => RdoOk None
                   end
          end
      end
  end.

Fixpoint rdo_lloop_fixed (st : list rdo_item) (pb own : option N) (cands : list N) : rdo_res (option N) :=
  match cands with
  | [] => RdoOk None
  | l :: rest =>
      rdo_let tr := rdo_trace_fixed (S (length st)) st pb own (Some l) in
      match tr with
      | Some t => RdoOk (Some t)
      | None => rdo_lloop_fixed st pb own rest
      end
  end.

Fixpoint rdo_rloop_fixed (st : list rdo_item) (pb own : option N) (left : option N) (cands : list N) : rdo_res (option N) :=
  match cands with
  | [] => RdoOk None
  | r :: rest =>
      rdo_let tr := rdo_trace_fixed (S (length st)) st pb own (Some r) in
      match tr with
      | Some t => if negb (rdo_on_eqb (Some t) left) then RdoOk (Some t) else rdo_rloop_fixed st pb own left rest
      | None => rdo_rloop_fixed st pb own left rest
      end
  end.

Fixpoint rdo_redo_fixed (fuel : nat) (t : rdo_txn) (i : N) (redo_items to_delete : list N) (s1 s2 : list rdo_sitem)
  : rdo_res (rdo_txn * option N) :=
  match fuel with
  | O => RdoErr RdoEFuel
  | S f =>
      match rdo_get (rdo_st t) i with
      | None => RdoErr RdoEDangling
      | Some item =>
          match rdo_red item with
          | Some r => RdoOk (t, match rdo_get (rdo_st t) r with Some _ => Some r | None => None end)
          | None =>
              (* make sure that parent is redone; result: (t', Some parent_block) or (t', None) = `return None` *)
              rdo_let ph1 :=
                (match rdo_par_item (rdo_par item) with
                 | None => RdoOk (t, Some None)
                 | Some p =>
                     match rdo_get (rdo_st t) p with
                     | None => RdoErr RdoEDangling
                     | Some pit =>
                         if rdo_del pit then
                           rdo_let (t', go) :=
                             (if rdo_is_some (rdo_red pit) then RdoOk (t, true)
                              else if negb (rdo_mem p redo_items) then RdoOk (t, false)
                              else rdo_let (t', o) := rdo_redo_fixed f t p redo_items to_delete s1 s2 in
                                   RdoOk (t', rdo_is_some o)) in
                           if negb go then RdoOk (t', None)
                           else
                             match rdo_get (rdo_st t') p with
                             | None => RdoErr RdoEDangling
                             | Some pit' =>
                                 rdo_let pb := rdo_chase (S (length (rdo_st t'))) (rdo_st t') (Some p) (rdo_red pit') in
                                 RdoOk (t', Some pb)
                             end
                         else RdoOk (t, Some (Some p))
                     end
                 end) in
              match ph1 with
              | (t1, None) => RdoOk (t1, None)
              | (t1, Some pb) =>
                  let st := rdo_st t1 in
                  rdo_let pbranch :=
                    (match pb with
                     | Some p => match rdo_get st p with
                                 | None => RdoErr RdoEDangling
                                 | Some y => match rdo_cnt y with
                                             | RdoType _ => RdoOk (RdoItem p)
                                             | RdoVal _ => rdo_unwrap_parent st (rdo_par item)
                                             end
                                 end
                     | None => rdo_unwrap_parent st (rdo_par item)
                     end) in
                  (* left / right; None = `return None` (conflict with a live entry) *)
                  rdo_let lr :=
                    (match rdo_sub item with
                     | Some k =>
                         if rdo_par_eqb (rdo_par item) pbranch && rdo_is_some (rdo_right st i) then
                           rdo_let l := rdo_mwalk (S (length st)) st i to_delete s1 s2 in
                           if rdo_is_some (rdo_right st l) then RdoOk None else RdoOk (Some (Some l, None))
                         else RdoOk (Some (rdo_map_get st pbranch k, None))
                     | None =>
                         rdo_let l := rdo_lloop_fixed st pb (rdo_par_item (rdo_par item)) (rdo_lefts st i) in
                         rdo_let r := rdo_rloop_fixed st pb (rdo_par_item (rdo_par item)) l (i :: rdo_rights st i) in
                         RdoOk (Some (l, r))
                     end) in
                  match lr with
                  | None => RdoOk (t1, None)
                  | Some (l, r) =>
                      let nid := rdo_next t1 in
                      let copy := {| rdo_id := nid; rdo_par := pbranch; rdo_sub := rdo_sub item; rdo_cnt := rdo_cnt item;
                                     rdo_del := false; rdo_keep := true; rdo_red := None; rdo_org := l; rdo_rorg := r |} in
                      let t2 := {| rdo_st := rdo_update st i (fun y => rdo_set_red y nid); rdo_next := nid + 1;
                                   rdo_tins := rdo_tins t1; rdo_tdel := rdo_tdel t1 |} in
                      rdo_let t3 := rdo_integrate t2 copy l r in
                      RdoOk (t3, Some nid)
                  end
              end
          end
      end
  end.

Definition rdo_process_fixed (s : rdo_state) (e : rdo_sitem) (s1 s2 : list rdo_sitem) : rdo_res (rdo_txn * bool) :=
  let t0 := rdo_begin s in
  let st := rdo_st t0 in
  let scope := rdo_scope s in
  (* to_delete: the live final copies of the inserted units that lie in the scope *)
  rdo_let td :=
    fold_left (fun acc i =>
                 rdo_let o := acc in
                 match o with
                 | None => RdoOk None
                 | Some l =>
                     match rdo_get st i with
                     | None => RdoOk (Some l)
                     | Some _ =>
                         rdo_let fo := rdo_follow (S (length st)) st i in
                         match fo with
                         | None => RdoOk None
                         | Some y => if negb (rdo_del y) && rdo_in_scope st scope (rdo_id y) then RdoOk (Some (l ++ [rdo_id y])) else RdoOk (Some l)
                         end
                     end
                 end) (rdo_sins e) (RdoOk (Some [])) in
  match td with
  | None => RdoOk (t0, false)
  | Some to_delete =>
      let to_redo := filter (fun i => rdo_is_some (rdo_get st i) && rdo_in_scope st scope i && negb (rdo_mem i (rdo_sins e))) (rdo_sdel e) in
      rdo_let (t1, c1) :=
        fold_left (fun acc i => rdo_let (t, c) := acc in
                                rdo_let (t', o) := rdo_redo_fixed (S (length (rdo_st t))) t i to_redo (rdo_sins e) s1 s2 in
                                RdoOk (t', c || rdo_is_some o))
                  to_redo (RdoOk (t0, false)) in
      rdo_let t2 := fold_left (fun acc i => rdo_let t := acc in rdo_txn_delete t i) (rev to_delete) (RdoOk t1) in
      RdoOk (t2, c1 || rdo_is_some (hd_error to_delete))
  end.

Fixpoint rdo_pop_fixed (fuel : nat) (s : rdo_state) (undoing : bool) : rdo_res (rdo_state * bool) :=
  match fuel with
  | O => RdoOk (s, false)
  | S f =>
      match (if undoing then rdo_us s else rdo_rs s) with
      | [] => RdoOk (s, false)
      | e :: rest =>
          let s0 := if undoing
                    then {| rdo_doc := rdo_doc s; rdo_clock := rdo_clock s; rdo_scope := rdo_scope s; rdo_us := rest; rdo_rs := rdo_rs s; rdo_ext := rdo_ext s |}
                    else {| rdo_doc := rdo_doc s; rdo_clock := rdo_clock s; rdo_scope := rdo_scope s; rdo_us := rdo_us s; rdo_rs := rest; rdo_ext := rdo_ext s |} in
          rdo_let (t, changed) := rdo_process_fixed s0 e rest (if undoing then rdo_rs s else rdo_us s) in
          let s' := rdo_after_txn s0 t (if undoing then RdoUndoing else RdoRedoing) in
          if changed then RdoOk (s', true) else rdo_pop_fixed f s' undoing
      end
  end.

Definition rdo_undo_fixed (s : rdo_state) : rdo_res (rdo_state * bool) := rdo_pop_fixed (S (length (rdo_us s))) s true.
Definition rdo_redo_call_fixed (s : rdo_state) : rdo_res (rdo_state * bool) := rdo_pop_fixed (S (length (rdo_rs s))) s false.

Definition rdo_act_fixed (s : rdo_state) (a : rdo_action) : rdo_res rdo_state :=
  match a with
  | RdoAStep txns => fold_left (fun acc ops => rdo_let s1 := acc in rdo_tracked_txn s1 ops) txns (RdoOk (rdo_reset s))
  | RdoAOther ops => rdo_let t := rdo_ops_apply (rdo_begin s) ops in RdoOk (rdo_commit_other s t)
  | RdoAUndo => rdo_let (s', _) := rdo_undo_fixed s in RdoOk s'
  | RdoARedo => rdo_let (s', _) := rdo_redo_call_fixed s in RdoOk s'
  end.

Fixpoint rdo_run_fixed (s : rdo_state) (p : list rdo_action) : rdo_res rdo_state :=
  match p with
  | [] => RdoOk s
  | a :: r => rdo_let s' := rdo_act_fixed s a in rdo_run_fixed s' r
  end.

Fixpoint rdo_renders_fixed (s : rdo_state) (roots : list N) (p : list rdo_action) : list (list (list N)) :=
  match p with
  | [] => []
  | a :: r => match rdo_act_fixed s a with
              | RdoOk s' => rdo_render s' roots :: rdo_renders_fixed s' roots r
              | RdoErr _ => []
              end
  end.
