(* Concrete cases for GcBlocksMore.v / GcBlocksMoreProofs.v. *)
From Coq Require Import List NArith Bool.
From YV Require Import Codec.UpdateV1 Ids.Ranges Crdt.Doc Crdt.Blocks Crdt.Merge Crdt.ApplyDelete Crdt.WriteBlocks
  Crdt.GcBlocks Crdt.GcBlocksProofs Crdt.GcBlocksCases.
From YV.Crdt Require Import GcBlocksMore GcBlocksMoreProofs.
Import ListNotations.
Open Scope N_scope.

(* the hypothesis of the squash theorems holds of the example stores, before and after the collector *)
Example gcb_case_lists_wf :
  forallb gcb_lists_wf [gcb_c_S1; gcb_c_S2; gcb_w1_store; gcb_w1b_store; gcb_w2_store] = true
  /\ match gcb_collect_all gcb_c_S1 None with adl_ok r => gcb_lists_wf (fst r) | adl_panic => false end = true.
Proof. vm_compute. auto. Qed.

(* commit step 6 (try_squash_with over the transaction's delete set) after step 5: the three GC ranges of client 1
   become one; same boundaries as step 8 produces after TransactionMut::gc(None) *)
Definition gcb_mc_bounds (r : adl_res gcb_store) : list (N * list (N * N * N * bool)) :=
  match r with adl_ok st => gcb_cells_view st | adl_panic => [] end.
Example gcb_case_step6 :
  gcb_mc_bounds (gcb_commit_deletes gcb_c_S1 [(1, [(0, 5, tt)]); (2, [(0, 1, tt)])])
  = [(1, [(0, 1, 1, true); (1, 4, 2, true); (5, 1, 0, false)]); (2, [(0, 1, 2, true)])]
  /\ gcb_mc_bounds (gcb_gc_api gcb_c_S1 None)
  = [(1, [(0, 1, 1, true); (1, 4, 2, true); (5, 1, 0, false)]); (2, [(0, 1, 2, true)])].
Proof. vm_compute. auto. Qed.
(* step 6 as written panics on a delete set that names a client the store has no list for
   (get_client_blocks_mut creates an empty list, `blocks.len() - 1` underflows); the delete set of a transaction
   never does *)
Example gcb_case_step6_unknown_client : gcb_try_squash_with gcb_c_S1 [(9, [(0, 1, tt)])] = adl_panic.
Proof. vm_compute. reflexivity. Qed.

(* two live neighbours that satisfy the condition of the code are squashed by step 8 when a public gc(Some(ds)) hands
   their ids to merge_blocks: cells change, units do not (gcb_merge_blocks_preserves) *)
Definition gcb_mc_live : gcb_store :=
  gcb_mkstore [(1, [gcb_mkcell (BItem (mkid 1 0) None None (PNamed [116]) None (BString [97])) false false true;
                    gcb_mkcell (BItem (mkid 1 1) (Some (mkid 1 0)) None (PNamed [116]) None (BString [98])) false false true])]
              [(PNamed [116], gcb_mkbranch [mkid 1 0; mkid 1 1] [])].
Example gcb_case_live_squash :
  gcb_mc_bounds (gcb_gc_api gcb_mc_live (Some [(1, [(0, 2, tt)])])) = [(1, [(0, 2, 0, false)])]
  /\ match gcb_gc_api gcb_mc_live (Some [(1, [(0, 2, tt)])]) with
     | adl_ok st => gcb_store_units st = gcb_store_units gcb_mc_live /\ map snd (gcb_branches st) = [gcb_mkbranch [mkid 1 0] []]
     | adl_panic => False
     end.
Proof. vm_compute. auto. Qed.
