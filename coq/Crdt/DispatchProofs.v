(* Theorems about the dispatch model (Dispatch.v). Specification-level definitions first (the declarative
   description of what call_observers delivers), then the proofs. *)
From Coq Require Import List NArith Bool Arith Lia Permutation Sorted.
From YV Require Import Crdt.Events Crdt.EventsProofs.
From YV.Crdt Require Import Dispatch.
Import ListNotations.
Open Scope N_scope.

(* ---------------------------------------------------------------------------------------------- *)
(* specification-level definitions *)

Definition evd_keys (st : evd_st) : list evd_ty := map fst (evd_changed st).

(* the types an effect reports to add_changed_type: the parent, then the links *)
Definition evd_targets (e : evd_effect) : list evd_ty :=
  match e with
  | EvdInteg p _ _ _ links => p :: links
  | EvdDel p _ _ _ links => match p with Some p => p :: links | None => links end
  end.

(* the holder item of t does not carry the deleted flag *)
Definition evd_holder_live (f : evd_forest) (st : evd_st) (t : evd_ty) : bool :=
  match evd_holder_of f t with Some h => negb (evd_mem (evd_h_item h) (evd_del st)) | None => true end.

(* "T was touched at a moment when the trigger condition held": the effect at position length pre *)
Definition evd_touched_at (f : evd_forest) (del0 : list evd_id) (pre : list evd_effect) (e : evd_effect) (t : evd_ty) : Prop :=
  let st := evd_run f pre (evd_st0 del0) in
  evd_effective st e = true /\ In t (evd_targets e) /\ evd_trigger f (evd_mid st e) t = true.

(* the parent chain of a type: t, parent t, ..., root *)
Fixpoint evd_chain_fuel (fuel : nat) (f : evd_forest) (t : evd_ty) : list evd_ty :=
  match fuel with
  | O => []
  | S fu => t :: match evd_holder_of f t with
                 | Some h => match evd_h_parent h with Some p => evd_chain_fuel fu f p | None => [] end
                 | None => []
                 end
  end.
Definition evd_chain (f : evd_forest) (t : evd_ty) : list evd_ty := evd_chain_fuel (S (N.to_nat t)) f t.

Fixpoint evd_upto (d : evd_ty) (l : list evd_ty) : list evd_ty :=
  match l with [] => [] | x :: r => if x =? d then [] else x :: evd_upto d r end.

(* the path segment that leads from the parent of t to t *)
Definition evd_seg_spec (f : evd_forest) (st : evd_st) (t : evd_ty) : evd_seg :=
  match evd_holder_of f t with
  | Some h => match evd_h_parent h with Some p => evd_seg_of f st h p | None => EvdIndex 0 end
  | None => EvdIndex 0
  end.
(* the segments from d (excluded) down to t *)
Definition evd_path_spec (f : evd_forest) (st : evd_st) (d t : evd_ty) : evd_path_t :=
  rev (map (evd_seg_spec f st) (evd_upto d (evd_chain f t))).

(* event_cache: one event per key of `changed` whose type_ref has an event kind, in iteration order *)
Definition evd_events_of (f : evd_forest) (c : evd_changed_map) : list evd_event :=
  flat_map (fun en => match evd_make_event (evd_kind_of f (fst en)) with
                      | Some k => [{| evd_e_target := fst en; evd_e_kind := k; evd_e_subs := snd en |}]
                      | None => [] end) c.
Definition evd_dedup (l : list evd_ty) : list evd_ty :=
  fold_left (fun acc x => if evd_mem x acc then acc else acc ++ [x]) l [].
Definition evd_spec_shallow (obs : list evd_ty) (cache : list evd_event) : list evd_call :=
  flat_map (fun e => if evd_mem (evd_e_target e) obs then [EvdShallow (evd_e_target e) e] else []) cache.
(* what a deep observer on d is handed, before sorting: the events of the changed types at or below d *)
Definition evd_spec_events_for (f : evd_forest) (st : evd_st) (cache : list evd_event) (d : evd_ty)
    : list (evd_event * evd_path_t) :=
  map (fun e => (e, evd_path_spec f st d (evd_e_target e)))
      (filter (fun e => evd_mem d (evd_chain f (evd_e_target e))) cache).
Definition evd_deep_keys (f : evd_forest) (dobs : list evd_ty) (cache : list evd_event) : list evd_ty :=
  evd_dedup (flat_map (fun e => filter (fun d => evd_mem d dobs) (evd_chain f (evd_e_target e))) cache).
Definition evd_spec_deep_call (f : evd_forest) (st : evd_st) (cache : list evd_event) (d : evd_ty) : evd_call :=
  EvdDeep d (evd_sort (evd_spec_events_for f st cache d)).
(* dkeys: the order in which `changed_parents` is iterated, a permutation of evd_deep_keys *)
Definition evd_spec_calls (f : evd_forest) (obs : list evd_ty) (st : evd_st) (order : evd_changed_map)
                          (dkeys : list evd_ty) : list evd_call :=
  let cache := evd_events_of f order in
  evd_spec_shallow obs cache ++ map (evd_spec_deep_call f st cache) dkeys.
Definition evd_shallow_obs (calls : list evd_call) : list evd_ty :=
  flat_map (fun c => match c with EvdShallow t _ => [t] | EvdDeep _ _ => [] end) calls.
Definition evd_deep_obs (calls : list evd_call) : list evd_ty :=
  flat_map (fun c => match c with EvdShallow _ _ => [] | EvdDeep d _ => [d] end) calls.
(* Events are ordered by path length *)
Definition evd_shorter (a b : evd_event * evd_path_t) : Prop := (length (snd a) <= length (snd b))%nat.

(* ---------------------------------------------------------------------------------------------- *)
(* 0. small facts *)

Lemma evd_mem_In x l : evd_mem x l = true <-> In x l.
Proof.
  unfold evd_mem. rewrite existsb_exists. split.
  - intros (y & Hy & E). apply N.eqb_eq in E. now subst.
  - intros H. exists x. split; trivial. apply N.eqb_refl.
Qed.
Lemma evd_mem_false x l : evd_mem x l = false <-> ~ In x l.
Proof. rewrite <- evd_mem_In. destruct (evd_mem x l); split; congruence. Qed.
Lemma evd_mem_cons x y l : evd_mem x (y :: l) = (x =? y) || evd_mem x l.
Proof. reflexivity. Qed.
Lemma evd_mem_app x l r : evd_mem x (l ++ r) = evd_mem x l || evd_mem x r.
Proof. unfold evd_mem. apply existsb_app. Qed.

(* ---------------------------------------------------------------------------------------------- *)
(* 1. the `changed` map *)

Lemma evd_changed_add_keys c t k x :
  In x (map fst (evd_changed_add c t k)) <-> In x (map fst c) \/ x = t.
Proof.
  induction c as [|[t' s] r IH]; cbn.
  - intuition.
  - destruct (t' =? t) eqn:E; cbn.
    + apply N.eqb_eq in E. subst. intuition.
    + rewrite IH. intuition.
Qed.
Lemma evd_changed_add_nodup c t k : NoDup (map fst c) -> NoDup (map fst (evd_changed_add c t k)).
Proof.
  induction c as [|[t' s] r IH]; cbn; intros H.
  - constructor; [intros []|constructor].
  - inversion H; subst. destruct (t' =? t) eqn:E; cbn.
    + now constructor.
    + constructor; [|now apply IH]. rewrite evd_changed_add_keys. apply N.eqb_neq in E. intuition.
Qed.
Lemma evd_changed_remove_keys c t x :
  In x (map fst (evd_changed_remove c t)) <-> In x (map fst c) /\ x <> t.
Proof.
  unfold evd_changed_remove. induction c as [|[t' s] r IH]; cbn; [intuition|].
  destruct (t' =? t) eqn:E; cbn.
  - apply N.eqb_eq in E. subst. rewrite IH. intuition. subst. intuition.
  - apply N.eqb_neq in E. rewrite IH. intuition. subst. intuition.
Qed.
Lemma evd_changed_remove_nodup c t : NoDup (map fst c) -> NoDup (map fst (evd_changed_remove c t)).
Proof.
  unfold evd_changed_remove. induction c as [|[t' s] r IH]; cbn; intros H; [constructor|].
  inversion H; subst. destruct (t' =? t); cbn; [now apply IH|].
  constructor; [|now apply IH]. intros Hin. apply H2.
  change (In t' (map fst (evd_changed_remove r t))) in Hin. now apply evd_changed_remove_keys in Hin.
Qed.

(* add_changed_type only touches `changed` *)
Lemma evd_act_flags f st p k :
  evd_ins (evd_add_changed_type f st p k) = evd_ins st /\
  evd_del (evd_add_changed_type f st p k) = evd_del st /\
  evd_dset (evd_add_changed_type f st p k) = evd_dset st.
Proof. unfold evd_add_changed_type. destruct (evd_trigger f st p); cbn; auto. Qed.
Lemma evd_trigger_flags f st st' t :
  evd_ins st' = evd_ins st -> evd_del st' = evd_del st -> evd_trigger f st' t = evd_trigger f st t.
Proof. intros H1 H2. unfold evd_trigger. now rewrite H1, H2. Qed.
Lemma evd_act_keys f st p k x :
  In x (evd_keys (evd_add_changed_type f st p k)) <-> In x (evd_keys st) \/ (x = p /\ evd_trigger f st p = true).
Proof.
  unfold evd_add_changed_type, evd_keys. destruct (evd_trigger f st p) eqn:E; cbn.
  - rewrite evd_changed_add_keys. intuition.
  - intuition. congruence.
Qed.
Lemma evd_act_nodup f st p k : NoDup (evd_keys st) -> NoDup (evd_keys (evd_add_changed_type f st p k)).
Proof.
  unfold evd_add_changed_type, evd_keys. destruct (evd_trigger f st p); cbn; trivial. apply evd_changed_add_nodup.
Qed.

Lemma evd_add_links_flags f links : forall st k,
  evd_ins (evd_add_links f st links k) = evd_ins st /\
  evd_del (evd_add_links f st links k) = evd_del st /\
  evd_dset (evd_add_links f st links k) = evd_dset st.
Proof.
  unfold evd_add_links. induction links as [|l r IH]; cbn; intros st k; auto.
  destruct (IH (evd_add_changed_type f st l k) k) as (A & B & C).
  destruct (evd_act_flags f st l k) as (A' & B' & C'). rewrite A, B, C. auto.
Qed.
Lemma evd_add_links_keys f links : forall st k x,
  In x (evd_keys (evd_add_links f st links k)) <-> In x (evd_keys st) \/ (In x links /\ evd_trigger f st x = true).
Proof.
  unfold evd_add_links. induction links as [|l r IH]; cbn; intros st k x.
  - intuition.
  - rewrite IH, evd_act_keys.
    destruct (evd_act_flags f st l k) as (A & B & _).
    rewrite (evd_trigger_flags f st _ x A B). intuition; subst; auto.
Qed.
Lemma evd_add_links_nodup f links : forall st k, NoDup (evd_keys st) -> NoDup (evd_keys (evd_add_links f st links k)).
Proof.
  unfold evd_add_links. induction links as [|l r IH]; cbn; intros st k H; trivial.
  apply IH. now apply evd_act_nodup.
Qed.

Lemma evd_mid_keys st e : evd_keys (evd_mid st e) = evd_keys st.
Proof. destruct e; reflexivity. Qed.

(* the keys of `changed` after one effect *)
Lemma evd_step_keys f st e x :
  In x (evd_keys (evd_step f st e)) <->
  if evd_effective st e then
    match e with
    | EvdInteg _ _ _ _ _ => In x (evd_keys st) \/ (In x (evd_targets e) /\ evd_trigger f (evd_mid st e) x = true)
    | EvdDel p _ _ inner links =>
        ((In x (evd_keys st) \/ (p = Some x /\ evd_trigger f (evd_mid st e) x = true)) /\ inner <> Some x)
        \/ (In x links /\ evd_trigger f (evd_mid st e) x = true)
    end
  else In x (evd_keys st).
Proof.
  unfold evd_step. destruct (evd_effective st e) eqn:Eff; [|reflexivity].
  destruct e as [p k item dead links | p k item inner links].
  - rewrite evd_add_links_keys, evd_act_keys, evd_mid_keys.
    destruct (evd_act_flags f (evd_mid st (EvdInteg p k item dead links)) p k) as (A & B & _).
    rewrite (evd_trigger_flags f _ _ x A B). cbn [evd_targets In]. intuition; subst; auto.
  - rewrite evd_add_links_keys.
    set (st1 := evd_mid st (EvdDel p k item inner links)).
    set (st2 := match p with Some p0 => evd_add_changed_type f st1 p0 k | None => st1 end).
    assert (F2 : evd_ins st2 = evd_ins st1 /\ evd_del st2 = evd_del st1).
    { subst st2. destruct p; [|auto]. destruct (evd_act_flags f st1 e k) as (A & B & _). auto. }
    assert (K2 : In x (evd_keys st2) <-> In x (evd_keys st) \/ (p = Some x /\ evd_trigger f st1 x = true)).
    { subst st2. destruct p.
      - rewrite evd_act_keys. subst st1. rewrite evd_mid_keys. split.
        + intros [H|[H1 H2]]; [now left|]. subst. right. auto.
        + intros [H|[H1 H2]]; [now left|]. inversion H1; subst. right. auto.
      - subst st1. rewrite evd_mid_keys. split; [auto|]. intros [H|[H _]]; [trivial|discriminate]. }
    destruct inner as [t|].
    + assert (E : evd_trigger f (evd_set_changed st2 (evd_changed_remove (evd_changed st2) t)) x = evd_trigger f st1 x).
      { apply evd_trigger_flags; cbn; tauto. }
      rewrite E. unfold evd_keys at 1. cbn [evd_set_changed evd_changed]. rewrite evd_changed_remove_keys.
      fold (evd_keys st2). rewrite K2.
      assert (N1 : x <> t <-> Some t <> Some x) by (split; intros H1 H3; apply H1; congruence).
      rewrite N1. tauto.
    + destruct F2 as (A & B). rewrite (evd_trigger_flags f st1 st2 x A B). assert (N0 : None <> Some x) by discriminate. tauto.
Qed.

Lemma evd_step_nodup f st e : NoDup (evd_keys st) -> NoDup (evd_keys (evd_step f st e)).
Proof.
  intros H. unfold evd_step. destruct (evd_effective st e); trivial.
  destruct e as [p k item dead links | p k item inner links].
  - apply evd_add_links_nodup, evd_act_nodup. now rewrite evd_mid_keys.
  - apply evd_add_links_nodup.
    assert (H2 : NoDup (evd_keys (match p with Some p0 => evd_add_changed_type f (evd_mid st (EvdDel p k item inner links)) p0 k
                                   | None => evd_mid st (EvdDel p k item inner links) end))).
    { destruct p; [apply evd_act_nodup|]; now rewrite evd_mid_keys. }
    destruct inner; trivial. unfold evd_keys. cbn. now apply evd_changed_remove_nodup.
Qed.

Lemma evd_run_snoc f effs e st : evd_run f (effs ++ [e]) st = evd_step f (evd_run f effs st) e.
Proof. unfold evd_run. now rewrite fold_left_app. Qed.

Lemma evd_run_nodup f effs : forall st, NoDup (evd_keys st) -> NoDup (evd_keys (evd_run f effs st)).
Proof.
  unfold evd_run. induction effs as [|e r IH]; cbn; intros st H; trivial. apply IH. now apply evd_step_nodup.
Qed.

(* the deleted flags only grow *)
Lemma evd_step_del_mono f st e x : In x (evd_del st) -> In x (evd_del (evd_step f st e)).
Proof.
  intros H. unfold evd_step. destruct (evd_effective st e); trivial.
  destruct e as [p k item dead links | p k item inner links].
  - destruct (evd_add_links_flags f links (evd_add_changed_type f (evd_mid st (EvdInteg p k item dead links)) p k) k) as (_ & B & _).
    rewrite B. destruct (evd_act_flags f (evd_mid st (EvdInteg p k item dead links)) p k) as (_ & B' & _). rewrite B'.
    cbn. destruct dead; cbn; auto.
  - match goal with |- In x (evd_del (evd_add_links f ?s links k)) =>
      destruct (evd_add_links_flags f links s k) as (_ & B & _); rewrite B end.
    assert (E : forall s, evd_del (match inner with Some t => evd_set_changed s (evd_changed_remove (evd_changed s) t) | None => s end) = evd_del s).
    { intros s. destruct inner; reflexivity. }
    rewrite E. destruct p as [p|].
    + destruct (evd_act_flags f (evd_mid st (EvdDel (Some p) k item inner links)) p k) as (_ & B' & _). rewrite B'. cbn. auto.
    + cbn. auto.
Qed.
Lemma evd_run_del_mono f effs : forall st x, In x (evd_del st) -> In x (evd_del (evd_run f effs st)).
Proof.
  unfold evd_run. induction effs as [|e r IH]; cbn; intros st x H; trivial. apply IH. now apply evd_step_del_mono.
Qed.
Lemma evd_holder_live_mono f effs st t :
  evd_holder_live f (evd_run f effs st) t = true -> evd_holder_live f st t = true.
Proof.
  unfold evd_holder_live. destruct (evd_holder_of f t) as [h|]; trivial.
  rewrite !negb_true_iff, !evd_mem_false. intros H Hin. apply H. now apply evd_run_del_mono.
Qed.

(* ---------------------------------------------------------------------------------------------- *)
(* 2. which types are keys of `changed` at commit *)

Lemma evd_step_flags f st e :
  evd_ins (evd_step f st e) = (if evd_effective st e then evd_ins (evd_mid st e) else evd_ins st) /\
  evd_del (evd_step f st e) = (if evd_effective st e then evd_del (evd_mid st e) else evd_del st) /\
  evd_dset (evd_step f st e) = (if evd_effective st e then evd_dset (evd_mid st e) else evd_dset st).
Proof.
  unfold evd_step. destruct (evd_effective st e); auto.
  destruct e as [p k item dead links | p k item inner links].
  - destruct (evd_add_links_flags f links (evd_add_changed_type f (evd_mid st (EvdInteg p k item dead links)) p k) k) as (A & B & C).
    destruct (evd_act_flags f (evd_mid st (EvdInteg p k item dead links)) p k) as (A' & B' & C').
    rewrite A, B, C, A', B', C'. auto.
  - match goal with |- evd_ins (evd_add_links f ?s links k) = _ /\ _ =>
      destruct (evd_add_links_flags f links s k) as (A & B & C); rewrite A, B, C end.
    set (st1 := evd_mid st (EvdDel p k item inner links)).
    assert (E : forall s, evd_ins (match inner with Some t => evd_set_changed s (evd_changed_remove (evd_changed s) t) | None => s end) = evd_ins s
                       /\ evd_del (match inner with Some t => evd_set_changed s (evd_changed_remove (evd_changed s) t) | None => s end) = evd_del s
                       /\ evd_dset (match inner with Some t => evd_set_changed s (evd_changed_remove (evd_changed s) t) | None => s end) = evd_dset s).
    { intros s. destruct inner; auto. }
    destruct (E (match p with Some p0 => evd_add_changed_type f st1 p0 k | None => st1 end)) as (E1 & E2 & E3).
    rewrite E1, E2, E3. destruct p as [p|]; auto. apply evd_act_flags.
Qed.

Lemma evd_all_types_In f t : In t (evd_all_types f) <-> t < N.of_nat (length f).
Proof.
  unfold evd_all_types. rewrite in_map_iff. split.
  - intros (n & E & Hn). apply in_seq in Hn. subst. lia.
  - intros H. exists (N.to_nat t). split; [apply N2Nat.id|]. apply in_seq. lia.
Qed.
Lemma evd_holder_in_range f t h : evd_holder_of f t = Some h -> t < N.of_nat (length f).
Proof.
  unfold evd_holder_of, evd_node_of. destruct (nth_error f (N.to_nat t)) eqn:E; [|discriminate].
  intros _. assert (H : (N.to_nat t < length f)%nat) by (apply nth_error_Some; congruence). lia.
Qed.

(* what evd_eff_okb gives for a deletion: the deleted item holds t exactly when the effect says inner = t *)
Lemma evd_eff_ok_del f p k item inner links t :
  evd_eff_okb f (EvdDel p k item inner links) = true -> evd_holds f item t = evd_otyp_eqb inner t.
Proof.
  cbn. rewrite !andb_true_iff. intros (((_ & Hin) & _) & Hall).
  destruct (N.ltb_spec t (N.of_nat (length f))) as [Hlt|Hge].
  - rewrite forallb_forall in Hall. specialize (Hall t (proj2 (evd_all_types_In f t) Hlt)).
    now apply eqb_prop in Hall.
  - assert (E1 : evd_holds f item t = false).
    { unfold evd_holds. destruct (evd_holder_of f t) eqn:E; trivial. apply evd_holder_in_range in E. lia. }
    rewrite E1. destruct inner as [u|]; cbn; trivial.
    apply N.ltb_lt in Hin. symmetry. apply N.eqb_neq. lia.
Qed.
Lemma evd_eff_ok_dead f p k item links t :
  evd_eff_okb f (EvdInteg p k item true links) = true -> evd_holds f item t = false.
Proof.
  cbn. rewrite !andb_true_iff. intros (_ & Hall).
  destruct (N.ltb_spec t (N.of_nat (length f))) as [Hlt|Hge].
  - rewrite forallb_forall in Hall. specialize (Hall t (proj2 (evd_all_types_In f t) Hlt)).
    now apply negb_true_iff in Hall.
  - unfold evd_holds. destruct (evd_holder_of f t) eqn:E; trivial. apply evd_holder_in_range in E. lia.
Qed.

Lemma evd_live_cons f st st' item t :
  evd_del st' = item :: evd_del st -> evd_holds f item t = false ->
  evd_holder_live f st' t = evd_holder_live f st t.
Proof.
  unfold evd_holder_live, evd_holds. intros E H. destruct (evd_holder_of f t) as [h|]; trivial.
  rewrite E, evd_mem_cons, H. reflexivity.
Qed.
Lemma evd_live_same f st st' t : evd_del st' = evd_del st -> evd_holder_live f st' t = evd_holder_live f st t.
Proof. unfold evd_holder_live. intros E. now rewrite E. Qed.
Lemma evd_trigger_live f st t : evd_trigger f st t = true -> evd_holder_live f st t = true.
Proof.
  unfold evd_trigger, evd_holder_live. destruct (evd_holder_of f t); trivial. now rewrite andb_true_iff.
Qed.
Lemma evd_held_dead f st st' item t :
  evd_del st' = item :: evd_del st -> evd_holds f item t = true ->
  evd_holder_live f st' t = false /\ evd_trigger f st' t = false.
Proof.
  unfold evd_holder_live, evd_trigger, evd_holds. intros E H. destruct (evd_holder_of f t) as [h|]; [|discriminate].
  rewrite E, evd_mem_cons, H. cbn. now rewrite andb_false_r.
Qed.

Lemma evd_split_snoc {A} (P : list A -> A -> Prop) (l : list A) (e : A) :
  (exists pre e0 post, l ++ [e] = pre ++ e0 :: post /\ P pre e0) <->
  (exists pre e0 post, l = pre ++ e0 :: post /\ P pre e0) \/ P l e.
Proof.
  split.
  - intros (pre & e0 & post & E & HP).
    assert (Hc : post = [] \/ exists post' x, post = post' ++ [x]).
    { destruct post as [|y post0] using rev_ind; [now left|right; eauto]. }
    destruct Hc as [->|(post' & x & ->)]; [|].
    + change (pre ++ [e0]) with (pre ++ [e0]) in E. apply app_inj_tail in E as [-> ->]. now right.
    + change (pre ++ e0 :: post' ++ [x]) with (pre ++ (e0 :: post') ++ [x]) in E.
      rewrite app_assoc in E. apply app_inj_tail in E as [-> ->]. left. eauto.
  - intros [(pre & e0 & post & -> & HP)|HP].
    + exists pre, e0, (post ++ [e]). split; trivial. now rewrite <- app_assoc.
    + exists l, e, []. auto.
Qed.

(* THEOREM 2, part (a): the keys of `changed` at commit. T is a key iff some effective effect reported T
   (as parent or as link) at a moment when T's holder was neither in the insert set nor flagged deleted - the
   flags being those right after the effect's own insert_set.insert / mark_as_deleted - and T's holder is
   still not deleted at commit. *)
Theorem evd_changed_iff : forall f effs del0 t,
  forallb (evd_eff_okb f) effs = true ->
  (In t (evd_keys (evd_run f effs (evd_st0 del0))) <->
   (exists pre e post, effs = pre ++ e :: post /\ evd_touched_at f del0 pre e t) /\
   evd_holder_live f (evd_run f effs (evd_st0 del0)) t = true).
Proof.
  intros f effs del0 t. induction effs as [|e effs IH] using rev_ind; intros Hok.
  - cbn. split; [intros []|]. intros ((pre & e & post & E & _) & _). destruct pre; discriminate.
  - rewrite forallb_app in Hok. apply andb_true_iff in Hok as [Hok He]. cbn in He. rewrite andb_true_r in He.
    specialize (IH Hok). rewrite evd_run_snoc. set (st := evd_run f effs (evd_st0 del0)) in *.
    rewrite (evd_split_snoc (fun pre e0 => evd_touched_at f del0 pre e0 t)).
    rewrite evd_step_keys. destruct (evd_step_flags f st e) as (_ & Fdel & _).
    unfold evd_touched_at at 2. fold st.
    destruct (evd_effective st e) eqn:Eff.
    + destruct e as [p k item dead links | p k item inner links].
      * (* integration *)
        assert (Hlive : evd_holder_live f (evd_step f st (EvdInteg p k item dead links)) t = evd_holder_live f st t).
        { destruct dead.
          - apply (evd_live_cons f st _ item); [exact Fdel|]. eapply evd_eff_ok_dead; eauto.
          - apply evd_live_same. exact Fdel. }
        assert (Hmid : evd_holder_live f (evd_mid st (EvdInteg p k item dead links)) t = evd_holder_live f st t).
        { destruct dead.
          - apply (evd_live_cons f st _ item); [reflexivity|]. eapply evd_eff_ok_dead; eauto.
          - apply evd_live_same. reflexivity. }
        rewrite Hlive. split.
        -- intros [Hk|[Ht Htr]].
           ++ apply IH in Hk as [Hs Hl]. auto.
           ++ split; [right; auto|]. rewrite <- Hmid. now apply evd_trigger_live.
        -- intros [[Hs|(_ & Ht & Htr)] Hl].
           ++ left. apply IH. auto.
           ++ right. auto.
      * (* deletion of a live item *)
        pose proof (evd_eff_ok_del f p k item inner links t He) as Hc.
        destruct (evd_holds f item t) eqn:Hh.
        -- (* the deleted item is T's holder: T leaves `changed`, and cannot come back *)
           assert (Hi : inner = Some t).
           { destruct inner as [u|]; cbn in Hc; [|discriminate]. symmetry in Hc. apply N.eqb_eq in Hc. now subst. }
           destruct (evd_held_dead f st _ item t Fdel Hh) as [Hd _].
           destruct (evd_held_dead f st (evd_mid st (EvdDel p k item inner links)) item t eq_refl Hh) as [_ Htr].
           rewrite Hd, Htr. split.
           ++ intros [[_ Hn]|[_ Hf]]; [contradiction|discriminate].
           ++ intros [_ Hf]. discriminate.
        -- assert (Hi : inner <> Some t).
           { intros ->. cbn in Hc. now rewrite N.eqb_refl in Hc. }
           assert (Hlive : evd_holder_live f (evd_step f st (EvdDel p k item inner links)) t = evd_holder_live f st t).
           { apply (evd_live_cons f st _ item); [exact Fdel|exact Hh]. }
           assert (Hmid : evd_holder_live f (evd_mid st (EvdDel p k item inner links)) t = evd_holder_live f st t).
           { apply (evd_live_cons f st _ item); [reflexivity|exact Hh]. }
           rewrite Hlive. split.
           ++ intros [[[Hk|[Hp Htr]] _]|[Hl Htr]].
              ** apply IH in Hk as [Hs Hl]. auto.
              ** split; [|rewrite <- Hmid; now apply evd_trigger_live].
                 right. split; trivial. split; trivial. subst p. cbn. now left.
              ** split; [|rewrite <- Hmid; now apply evd_trigger_live].
                 right. split; trivial. split; trivial. cbn. destruct p; [right|]; trivial.
           ++ intros [[Hs|(_ & Ht & Htr)] Hl].
              ** left. split; trivial. left. apply IH. auto.
              ** cbn in Ht. destruct p as [p|].
                 --- destruct Ht as [->|Ht]; [left; split; trivial; right; auto|right; auto].
                 --- right. auto.
    + (* delete of an item that is already deleted: nothing happens *)
      assert (Hlive : evd_holder_live f (evd_step f st e) t = evd_holder_live f st t) by (apply evd_live_same; exact Fdel).
      rewrite Hlive, IH. split.
      * intros [Hs Hl]. auto.
      * intros [[Hs|(Hf & _)] Hl]; [auto|discriminate].
Qed.
Print Assumptions evd_changed_iff.

(* ---------------------------------------------------------------------------------------------- *)
(* 3. the forest: what the boolean well-formedness checks give *)

Lemma evd_forest_ok_parent f t h p :
  evd_forest_okb f = true -> evd_holder_of f t = Some h -> evd_h_parent h = Some p -> p < t.
Proof.
  unfold evd_forest_okb. rewrite forallb_forall. intros H E Hp.
  specialize (H t (proj2 (evd_all_types_In f t) (evd_holder_in_range f t h E))).
  rewrite E, Hp in H. apply andb_true_iff in H as [H _]. now apply N.ltb_lt.
Qed.
Lemma evd_no_links_holder f t h : evd_no_linksb f = true -> evd_holder_of f t = Some h -> evd_h_links h = [].
Proof.
  unfold evd_no_linksb. rewrite forallb_forall. intros H E.
  specialize (H t (proj2 (evd_all_types_In f t) (evd_holder_in_range f t h E))).
  rewrite E in H. destruct (evd_h_links h); [reflexivity|discriminate].
Qed.
Lemma evd_parents_known f t h : evd_parents_knownb f = true -> evd_holder_of f t = Some h -> exists p, evd_h_parent h = Some p.
Proof.
  unfold evd_parents_knownb. rewrite forallb_forall. intros H E.
  specialize (H t (proj2 (evd_all_types_In f t) (evd_holder_in_range f t h E))).
  rewrite E in H. destruct (evd_h_parent h); [eauto|discriminate].
Qed.
Lemma evd_holders_distinct f t u h g :
  evd_holders_distinctb f = true -> evd_holder_of f t = Some h -> evd_holder_of f u = Some g ->
  evd_h_item h = evd_h_item g -> t = u.
Proof.
  unfold evd_holders_distinctb. rewrite forallb_forall. intros H E1 E2 Hi.
  specialize (H t (proj2 (evd_all_types_In f t) (evd_holder_in_range f t h E1))).
  rewrite forallb_forall in H.
  specialize (H u (proj2 (evd_all_types_In f u) (evd_holder_in_range f u g E2))).
  rewrite E1, E2, Hi, N.eqb_refl in H. cbn in H. now apply N.eqb_eq.
Qed.

Lemma evd_chain_fuel_indep f : evd_forest_okb f = true ->
  forall n m t, (N.to_nat t < n)%nat -> (N.to_nat t < m)%nat -> evd_chain_fuel n f t = evd_chain_fuel m f t.
Proof.
  intros Hf. induction n as [|n IH]; intros m t Hn Hm; [lia|]. destruct m as [|m]; [lia|].
  cbn. f_equal. destruct (evd_holder_of f t) as [h|] eqn:E; trivial.
  destruct (evd_h_parent h) as [p|] eqn:Ep; trivial.
  pose proof (evd_forest_ok_parent f t h p Hf E Ep). apply IH; lia.
Qed.
Lemma evd_chain_unfold f t : evd_forest_okb f = true ->
  evd_chain f t = t :: match evd_holder_of f t with
                       | Some h => match evd_h_parent h with Some p => evd_chain f p | None => [] end
                       | None => []
                       end.
Proof.
  intros Hf. unfold evd_chain at 1. cbn [evd_chain_fuel]. f_equal.
  destruct (evd_holder_of f t) as [h|] eqn:E; trivial.
  destruct (evd_h_parent h) as [p|] eqn:Ep; trivial.
  pose proof (evd_forest_ok_parent f t h p Hf E Ep). unfold evd_chain. apply evd_chain_fuel_indep; trivial; lia.
Qed.
Lemma evd_chain_le f : evd_forest_okb f = true -> forall n t x, In x (evd_chain_fuel n f t) -> x <= t.
Proof.
  intros Hf. induction n as [|n IH]; intros t x; cbn; [intros []|].
  intros [->|H]; [lia|]. destruct (evd_holder_of f t) as [h|] eqn:E; [|destruct H].
  destruct (evd_h_parent h) as [p|] eqn:Ep; [|destruct H].
  pose proof (evd_forest_ok_parent f t h p Hf E Ep). apply IH in H. lia.
Qed.
Lemma evd_chain_nodup f t : evd_forest_okb f = true -> NoDup (evd_chain f t).
Proof.
  intros Hf. unfold evd_chain. generalize (S (N.to_nat t)). intros n. revert t.
  induction n as [|n IH]; intros t; cbn; [constructor|].
  constructor.
  - destruct (evd_holder_of f t) as [h|] eqn:E; [|intros []].
    destruct (evd_h_parent h) as [p|] eqn:Ep; [|intros []].
    pose proof (evd_forest_ok_parent f t h p Hf E Ep). intros H0. apply (evd_chain_le f Hf) in H0. lia.
  - destruct (evd_holder_of f t) as [h|]; [|constructor]. destruct (evd_h_parent h); [apply IH|constructor].
Qed.
Lemma evd_chain_self f t : In t (evd_chain f t).
Proof. unfold evd_chain. cbn. now left. Qed.

(* ---------------------------------------------------------------------------------------------- *)
(* 4. call_type_observers without quotations: a fold over the parent chain *)

Lemma evd_walk_nolinks f dobs idx : evd_forest_okb f = true -> evd_no_linksb f = true ->
  forall fuel cur w, (0 < fuel)%nat -> (evd_holder_of f cur <> None -> (N.to_nat cur < fuel)%nat) ->
  evd_walk fuel f dobs idx cur w = Some (fold_left (evd_visit dobs idx) (evd_chain f cur) w).
Proof.
  intros Hf Hl. induction fuel as [|fu IH]; intros cur w H0 Hc; [lia|].
  rewrite (evd_chain_unfold f cur Hf). cbn [evd_walk fold_left].
  destruct (evd_holder_of f cur) as [h|] eqn:E; [|reflexivity].
  rewrite (evd_no_links_holder f cur h Hl E).
  destruct (evd_h_parent h) as [p|] eqn:Ep; [|reflexivity].
  pose proof (evd_forest_ok_parent f cur h p Hf E Ep).
  assert (N.to_nat cur < S fu)%nat by (apply Hc; discriminate).
  apply IH; [lia|intros _; lia].
Qed.

Lemma evd_walk_top f dobs idx t w : evd_forest_okb f = true -> evd_no_linksb f = true ->
  evd_walk (evd_walk_fuel f) f dobs idx t w = Some (fold_left (evd_visit dobs idx) (evd_chain f t) w).
Proof.
  intros Hf Hl. apply evd_walk_nolinks; trivial.
  - unfold evd_walk_fuel. lia.
  - intros Hn. destruct (evd_holder_of f t) as [h|] eqn:E; [|congruence].
    apply evd_holder_in_range in E. unfold evd_walk_fuel. rewrite Nat.mul_succ_r. lia.
Qed.

Definition evd_cp_get (cp : evd_cp_map) (d : evd_ty) : list nat :=
  match find (fun en => fst en =? d) cp with Some en => snd en | None => [] end.
Definition evd_cp_visit (dobs : list evd_ty) (idx : nat) (cp : evd_cp_map) (cur : evd_ty) : evd_cp_map :=
  if evd_mem cur dobs then evd_cp_push cp cur idx else cp.
Definition evd_set_add (acc : list evd_ty) (x : evd_ty) : list evd_ty := if evd_mem x acc then acc else acc ++ [x].

Lemma evd_cp_push_keys cp d i : map fst (evd_cp_push cp d i) = evd_set_add (map fst cp) d.
Proof.
  unfold evd_set_add. induction cp as [|[k l] r IH]; [reflexivity|].
  cbn [evd_cp_push map fst]. rewrite evd_mem_cons, (N.eqb_sym d k). destruct (k =? d); cbn [orb map fst]; trivial.
  rewrite IH. destruct (evd_mem d (map fst r)); reflexivity.
Qed.
Lemma evd_cp_push_get cp d i d' :
  evd_cp_get (evd_cp_push cp d i) d' = if d =? d' then evd_vec_push_dedup (evd_cp_get cp d) i else evd_cp_get cp d'.
Proof.
  induction cp as [|[k l] r IH].
  - unfold evd_cp_get. cbn. destruct (d =? d'); reflexivity.
  - cbn [evd_cp_push]. destruct (N.eqb_spec k d) as [->|Hkd].
    + unfold evd_cp_get. cbn [find fst snd]. rewrite N.eqb_refl. destruct (d =? d'); reflexivity.
    + assert (G : forall x, evd_cp_get ((k, l) :: x) d' = if k =? d' then l else evd_cp_get x d').
      { intros x. unfold evd_cp_get. cbn [find fst snd]. destruct (k =? d'); reflexivity. }
      assert (G2 : evd_cp_get ((k, l) :: r) d = evd_cp_get r d).
      { unfold evd_cp_get. cbn [find fst snd]. apply N.eqb_neq in Hkd. now rewrite Hkd. }
      rewrite !G, G2, IH. destruct (N.eqb_spec k d'); trivial. subst.
      destruct (N.eqb_spec d d'); [congruence|reflexivity].
Qed.

(* entries.last() on a list whose members are all smaller than the new index: the push happens *)
Lemma evd_last_In l x : evd_last l = Some x -> In x l.
Proof.
  induction l as [|y r IH]; [discriminate|]. cbn. destruct r as [|z r']; [intros H; inversion H; now left|].
  intros H. right. now apply IH.
Qed.
Lemma evd_vec_push_fresh l i : Forall (fun x => (x < i)%nat) l -> evd_vec_push_dedup l i = l ++ [i].
Proof.
  intros H. unfold evd_vec_push_dedup, evd_last_is. destruct (evd_last l) as [x|] eqn:E; trivial.
  apply evd_last_In in E. rewrite Forall_forall in H. specialize (H x E).
  destruct (Nat.eqb_spec x i); [lia|reflexivity].
Qed.
Lemma evd_vec_push_In l i x : In x (evd_vec_push_dedup l i) <-> In x l \/ x = i.
Proof.
  unfold evd_vec_push_dedup, evd_last_is. destruct (evd_last l) as [y|] eqn:E.
  - destruct (Nat.eqb_spec y i) as [->|Hne].
    + apply evd_last_In in E. intuition. now subst.
    + rewrite in_app_iff. cbn. intuition.
  - rewrite in_app_iff. cbn. intuition.
Qed.

Lemma evd_visit_fold dobs idx l : forall w,
  fold_left (evd_visit dobs idx) l w =
  {| evd_w_cpt := evd_w_cpt w ++ l; evd_w_cp := fold_left (evd_cp_visit dobs idx) l (evd_w_cp w); evd_w_vis := evd_w_vis w |}.
Proof.
  induction l as [|c r IH]; intros w; cbn.
  - rewrite app_nil_r. now destruct w.
  - rewrite IH. cbn. now rewrite <- app_assoc.
Qed.

Lemma evd_cp_fold_get dobs idx d l : NoDup l -> forall cp,
  (evd_mem d l = true -> Forall (fun x => (x < idx)%nat) (evd_cp_get cp d)) ->
  evd_cp_get (fold_left (evd_cp_visit dobs idx) l cp) d =
  evd_cp_get cp d ++ (if evd_mem d dobs && evd_mem d l then [idx] else []).
Proof.
  induction l as [|c r IH]; intros Hn cp Hb; cbn [fold_left].
  - cbn. now rewrite andb_false_r, app_nil_r.
  - inversion Hn; subst. rewrite evd_mem_cons in *.
    destruct (N.eqb_spec d c) as [->|Hne].
    + assert (Hr : evd_mem c r = false) by now apply evd_mem_false.
      rewrite (IH H2) by (rewrite Hr; discriminate). rewrite Hr, andb_false_r, app_nil_r. cbn [orb].
      rewrite andb_true_r. unfold evd_cp_visit. destruct (evd_mem c dobs); [|now rewrite app_nil_r].
      rewrite evd_cp_push_get, N.eqb_refl. apply evd_vec_push_fresh. now apply Hb.
    + cbn [orb] in *.
      assert (Hg : evd_cp_get (evd_cp_visit dobs idx cp c) d = evd_cp_get cp d).
      { unfold evd_cp_visit. destruct (evd_mem c dobs); trivial.
        rewrite evd_cp_push_get. destruct (N.eqb_spec c d); [congruence|reflexivity]. }
      rewrite (IH H2) by (now rewrite Hg). now rewrite Hg.
Qed.
Lemma evd_cp_fold_keys dobs idx l : forall cp,
  map fst (fold_left (evd_cp_visit dobs idx) l cp) = fold_left evd_set_add (filter (fun d => evd_mem d dobs) l) (map fst cp).
Proof.
  induction l as [|c r IH]; intros cp; cbn [fold_left filter]; trivial.
  rewrite IH. unfold evd_cp_visit. destruct (evd_mem c dobs); cbn [fold_left]; trivial. now rewrite evd_cp_push_keys.
Qed.

(* changed_parents after the events evs (numbered from b) have been walked *)
Fixpoint evd_cp_after (f : evd_forest) (dobs : list evd_ty) (b : nat) (evs : list evd_event) (cp0 : evd_cp_map) : evd_cp_map :=
  match evs with
  | [] => cp0
  | e :: r => evd_cp_after f dobs (S b) r (fold_left (evd_cp_visit dobs b) (evd_chain f (evd_e_target e)) cp0)
  end.
Fixpoint evd_idxs_for (f : evd_forest) (dobs : list evd_ty) (d : evd_ty) (b : nat) (evs : list evd_event) : list nat :=
  match evs with
  | [] => []
  | e :: r => (if evd_mem d dobs && evd_mem d (evd_chain f (evd_e_target e)) then [b] else []) ++ evd_idxs_for f dobs d (S b) r
  end.

Lemma evd_cp_after_get f dobs d : evd_forest_okb f = true -> forall evs b cp0,
  Forall (fun x => (x < b)%nat) (evd_cp_get cp0 d) ->
  evd_cp_get (evd_cp_after f dobs b evs cp0) d = evd_cp_get cp0 d ++ evd_idxs_for f dobs d b evs.
Proof.
  intros Hf. induction evs as [|e r IH]; intros b cp0 Hb; cbn [evd_cp_after evd_idxs_for].
  - now rewrite app_nil_r.
  - assert (Hg := evd_cp_fold_get dobs b d (evd_chain f (evd_e_target e)) (evd_chain_nodup f _ Hf) cp0 (fun _ => Hb)).
    rewrite IH; rewrite Hg; [now rewrite app_assoc|].
    apply Forall_app. split.
    + eapply Forall_impl; [|exact Hb]. cbn. intros x Hx. lia.
    + destruct (evd_mem d dobs && evd_mem d (evd_chain f (evd_e_target e))); repeat constructor.
Qed.
Lemma evd_cp_after_keys f dobs : forall evs b cp0,
  map fst (evd_cp_after f dobs b evs cp0) =
  fold_left evd_set_add (flat_map (fun e => filter (fun d => evd_mem d dobs) (evd_chain f (evd_e_target e))) evs) (map fst cp0).
Proof.
  induction evs as [|e r IH]; intros b cp0; cbn [evd_cp_after flat_map]; trivial.
  now rewrite IH, evd_cp_fold_keys, fold_left_app.
Qed.

Lemma evd_events_of_app f a b : evd_events_of f (a ++ b) = evd_events_of f a ++ evd_events_of f b.
Proof. unfold evd_events_of. apply flat_map_app. Qed.
Lemma evd_spec_shallow_app obs a b : evd_spec_shallow obs (a ++ b) = evd_spec_shallow obs a ++ evd_spec_shallow obs b.
Proof. unfold evd_spec_shallow. apply flat_map_app. Qed.

Lemma evd_events_of_cons f t subs r :
  evd_events_of f ((t, subs) :: r) =
  match evd_make_event (evd_kind_of f t) with
  | Some k => [{| evd_e_target := t; evd_e_kind := k; evd_e_subs := subs |}]
  | None => [] end ++ evd_events_of f r.
Proof. reflexivity. Qed.

(* the first loop of call_observers *)
Lemma evd_loop1_spec f obs dobs : evd_forest_okb f = true -> evd_no_linksb f = true ->
  forall order s, exists s',
    evd_loop1 f obs dobs s order = Some s' /\
    evd_l1_cache s' = evd_l1_cache s ++ evd_events_of f order /\
    evd_l1_calls s' = evd_l1_calls s ++ evd_spec_shallow obs (evd_events_of f order) /\
    evd_w_cp (evd_l1_w s') = evd_cp_after f dobs (length (evd_l1_cache s)) (evd_events_of f order) (evd_w_cp (evd_l1_w s)) /\
    evd_w_cpt (evd_l1_w s') = evd_w_cpt (evd_l1_w s) ++ flat_map (fun e => evd_chain f (evd_e_target e)) (evd_events_of f order).
Proof.
  intros Hf Hl. induction order as [|[t subs] r IH]; intros s.
  - exists s. cbn. rewrite !app_nil_r. auto.
  - cbn [evd_loop1 evd_loop1_step]. rewrite evd_events_of_cons.
    destruct (evd_make_event (evd_kind_of f t)) as [k|].
    + rewrite evd_walk_top by trivial. rewrite evd_visit_fold. cbn [evd_w_cpt evd_w_cp evd_w_vis].
      match goal with |- context [evd_loop1 f obs dobs ?s1 r] => destruct (IH s1) as (s' & E & Hc & Hk & Hcp & Hcpt) end.
      exists s'. split; [exact E|]. cbn [evd_l1_cache evd_l1_calls evd_l1_w evd_w_cp evd_w_cpt] in *.
      rewrite Hc, Hk, Hcp, Hcpt. rewrite !app_length. cbn [length app flat_map evd_e_target evd_cp_after].
      replace (length (evd_l1_cache s) + 1 - 1)%nat with (length (evd_l1_cache s)) by lia.
      replace (length (evd_l1_cache s) + 1)%nat with (S (length (evd_l1_cache s))) by lia.
      rewrite <- !app_assoc. cbn [app]. repeat split; trivial.
      unfold evd_spec_shallow at 2. cbn [flat_map evd_e_target].
      destruct (evd_mem t obs); [now rewrite <- app_assoc|reflexivity].
    + cbn [app]. apply IH.
Qed.

(* ---------------------------------------------------------------------------------------------- *)
(* 5. Branch::path from an ancestor *)

Lemma evd_path_loop_spec f st d : evd_forest_okb f = true -> evd_holders_distinctb f = true -> evd_parents_knownb f = true ->
  forall fuel child acc, (0 < fuel)%nat -> (evd_holder_of f child <> None -> (N.to_nat child < fuel)%nat) ->
  In d (evd_chain f child) ->
  evd_path_loop fuel f st (option_map evd_h_item (evd_holder_of f d)) child acc =
  Some (rev (map (evd_seg_spec f st) (evd_upto d (evd_chain f child))) ++ acc).
Proof.
  intros Hf Hd Hp. induction fuel as [|fu IH]; intros child acc H0 Hc Hin; [lia|].
  rewrite (evd_chain_unfold f child Hf) in *. cbn [evd_path_loop].
  destruct (evd_holder_of f child) as [h|] eqn:E.
  - destruct (evd_oid_eqb (option_map evd_h_item (evd_holder_of f d)) (Some (evd_h_item h))) eqn:Eq.
    + destruct (evd_holder_of f d) as [hd|] eqn:Ed; cbn in Eq; [|discriminate]. apply N.eqb_eq in Eq.
      assert (d = child) by (eapply evd_holders_distinct; eauto). subst.
      cbn [evd_upto]. now rewrite N.eqb_refl.
    + assert (Hne : child <> d).
      { intros ->. rewrite E in Eq. cbn in Eq. now rewrite N.eqb_refl in Eq. }
      destruct (evd_parents_known f child h Hp E) as [p Ep]. rewrite Ep in *.
      pose proof (evd_forest_ok_parent f child h p Hf E Ep).
      assert (N.to_nat child < S fu)%nat by (apply Hc; discriminate).
      destruct Hin as [Hin|Hin]; [congruence|].
      cbn [evd_upto]. apply N.eqb_neq in Hne. rewrite Hne. cbn [map rev].
      rewrite (IH p _); [|lia|intros _; lia|exact Hin].
      assert (Es : evd_seg_spec f st child = evd_seg_of f st h p) by (unfold evd_seg_spec; now rewrite E, Ep).
      rewrite <- app_assoc. cbn [app]. now rewrite Es.
  - destruct Hin as [->|[]]. cbn [evd_upto]. now rewrite N.eqb_refl.
Qed.

(* THEOREM 4, paths: for a deep observer d at or above the target t, Event::path is the list of child
   segments from d down to t (empty for d = t); its length is the number of types strictly below d on the chain *)
Theorem evd_path_correct : forall f st d t,
  evd_forest_okb f = true -> evd_holders_distinctb f = true -> evd_parents_knownb f = true ->
  In d (evd_chain f t) ->
  evd_path f st d t = Some (evd_path_spec f st d t).
Proof.
  intros f st d t Hf Hd Hp Hin. unfold evd_path, evd_path_spec.
  rewrite (evd_path_loop_spec f st d Hf Hd Hp); trivial; [now rewrite app_nil_r|lia|].
  intros Hn. destruct (evd_holder_of f t) as [h|] eqn:E; [|congruence]. apply evd_holder_in_range in E. lia.
Qed.
Print Assumptions evd_path_correct.

(* ---------------------------------------------------------------------------------------------- *)
(* 6. the second loop of call_observers *)

Lemma evd_collect_spec f st dobs d : evd_forest_okb f = true -> evd_holders_distinctb f = true -> evd_parents_knownb f = true ->
  evd_mem d dobs = true ->
  forall r pre, evd_collect f st (pre ++ r) d (evd_idxs_for f dobs d (length pre) r) = Some (evd_spec_events_for f st r d).
Proof.
  intros Hf Hd Hp Hm. induction r as [|e r IH]; intros pre; [reflexivity|].
  cbn [evd_idxs_for]. rewrite Hm. cbn [andb].
  assert (IH' := IH (pre ++ [e])). rewrite <- app_assoc, app_length in IH'. cbn [app length] in IH'.
  replace (length pre + 1)%nat with (S (length pre)) in IH' by lia.
  unfold evd_spec_events_for. cbn [filter].
  destruct (evd_mem d (evd_chain f (evd_e_target e))) eqn:Ein.
  - cbn [app evd_collect]. rewrite nth_error_app2 by lia. rewrite Nat.sub_diag. cbn [nth_error].
    rewrite evd_path_correct by (trivial; now apply evd_mem_In). rewrite IH'. reflexivity.
  - cbn [app]. exact IH'.
Qed.

Lemma evd_loop2_spec f st cache (h : evd_ty -> list (evd_event * evd_path_t)) : forall cp,
  (forall en, In en cp -> evd_collect f st cache (fst en) (snd en) = Some (h (fst en))) ->
  evd_loop2 f st cache cp = Some (map (fun d => EvdDeep d (evd_sort (h d))) (map fst cp)).
Proof.
  induction cp as [|[d idxs] r IH]; intros H; [reflexivity|].
  cbn [evd_loop2 map fst]. pose proof (H (d, idxs) (or_introl eq_refl)) as H1. cbn [fst snd] in H1. rewrite H1.
  rewrite IH; [reflexivity|]. intros en Hen. apply H. now right.
Qed.

Lemma evd_set_add_In acc x y : In y (evd_set_add acc x) <-> In y acc \/ y = x.
Proof.
  unfold evd_set_add. destruct (evd_mem x acc) eqn:E.
  - apply evd_mem_In in E. intuition. now subst.
  - rewrite in_app_iff. cbn. intuition.
Qed.
Lemma evd_set_add_nodup acc x : NoDup acc -> NoDup (evd_set_add acc x).
Proof.
  unfold evd_set_add. destruct (evd_mem x acc) eqn:E; trivial. intros H.
  apply evd_mem_false in E. apply (Permutation_NoDup (Permutation_cons_append acc x)). now constructor.
Qed.
Lemma evd_fold_set_add_In l : forall acc y, In y (fold_left evd_set_add l acc) <-> In y acc \/ In y l.
Proof.
  induction l as [|x r IH]; intros acc y; cbn; [intuition|]. rewrite IH, evd_set_add_In. intuition.
Qed.
Lemma evd_fold_set_add_nodup l : forall acc, NoDup acc -> NoDup (fold_left evd_set_add l acc).
Proof. induction l as [|x r IH]; intros acc H; cbn; trivial. apply IH. now apply evd_set_add_nodup. Qed.
Lemma evd_dedup_In l y : In y (evd_dedup l) <-> In y l.
Proof. unfold evd_dedup. change (In y (fold_left evd_set_add l []) <-> In y l). rewrite evd_fold_set_add_In. cbn. intuition. Qed.
Lemma evd_dedup_nodup l : NoDup (evd_dedup l).
Proof. unfold evd_dedup. change (NoDup (fold_left evd_set_add l [])). apply evd_fold_set_add_nodup. constructor. Qed.

Lemma evd_cp_get_entry cp : NoDup (map fst cp) -> forall d idxs, In (d, idxs) cp -> evd_cp_get cp d = idxs.
Proof.
  induction cp as [|[k l] r IH]; intros Hn d idxs Hin; [destruct Hin|].
  cbn in Hn. inversion Hn; subst. unfold evd_cp_get. cbn [find fst snd].
  destruct Hin as [E|Hin].
  - inversion E; subst. now rewrite N.eqb_refl.
  - destruct (N.eqb_spec k d) as [->|Hne].
    + exfalso. apply H1. apply in_map_iff. exists (d, idxs). auto.
    + now apply IH.
Qed.

Lemma evd_deep_keys_In f dobs cache d :
  In d (evd_deep_keys f dobs cache) <->
  evd_mem d dobs = true /\ exists e, In e cache /\ In d (evd_chain f (evd_e_target e)).
Proof.
  unfold evd_deep_keys. rewrite evd_dedup_In, in_flat_map. split.
  - intros (e & He & Hd). apply filter_In in Hd as [Hd Hm]. eauto.
  - intros (Hm & e & He & Hd). exists e. split; trivial. apply filter_In. auto.
Qed.

(* MAIN LEMMA: without quotations, call_observers never fails and delivers exactly the declarative list of calls,
   for every iteration order of `changed` (the list `order`) and of `changed_parents` (perm2). *)
Theorem evd_call_observers_spec : forall f obs dobs st order perm2,
  evd_forest_okb f = true -> evd_no_linksb f = true -> evd_holders_distinctb f = true -> evd_parents_knownb f = true ->
  (forall cp, Permutation (perm2 cp) cp) ->
  exists dkeys,
    Permutation dkeys (evd_deep_keys f dobs (evd_events_of f order)) /\
    (perm2 = (fun cp => cp) -> dkeys = evd_deep_keys f dobs (evd_events_of f order)) /\
    evd_call_observers_with f obs dobs st order perm2 =
    Some (evd_spec_calls f obs st order dkeys,
          flat_map (fun e => evd_chain f (evd_e_target e)) (evd_events_of f order)).
Proof.
  intros f obs dobs st order perm2 Hf Hl Hd Hp Hperm.
  unfold evd_call_observers_with.
  destruct (evd_loop1_spec f obs dobs Hf Hl order evd_l10) as (s' & E & Hc & Hk & Hcp & Hcpt).
  rewrite E. cbn [evd_l10 evd_l1_cache evd_l1_calls evd_l1_w evd_w0 evd_w_cp evd_w_cpt app length] in *.
  set (evs := evd_events_of f order) in *. set (cp := evd_w_cp (evd_l1_w s')) in *.
  assert (Hkeys : map fst cp = evd_deep_keys f dobs evs).
  { rewrite Hcp, evd_cp_after_keys. reflexivity. }
  assert (Hnd : NoDup (map fst cp)) by (rewrite Hkeys; apply evd_dedup_nodup).
  rewrite Hc.
  rewrite (evd_loop2_spec f st evs (evd_spec_events_for f st evs) (perm2 cp)).
  - exists (map fst (perm2 cp)). split; [|split].
    + rewrite <- Hkeys. apply Permutation_map, Hperm.
    + intros ->. exact Hkeys.
    + rewrite Hk, Hcpt. reflexivity.
  - intros [d idxs] Hin. cbn [fst snd].
    apply (Permutation_in _ (Hperm cp)) in Hin.
    assert (Hg := evd_cp_get_entry cp Hnd d idxs Hin).
    rewrite Hcp, evd_cp_after_get in Hg by (trivial; constructor). cbn in Hg. subst idxs.
    assert (Hm : evd_mem d dobs = true).
    { assert (Hin' : In d (map fst cp)) by (apply in_map_iff; exists (d, evd_cp_get cp d); split; trivial;
                                            now rewrite <- (evd_cp_get_entry cp Hnd d _ Hin) in Hin).
      rewrite Hkeys in Hin'. now apply evd_deep_keys_In in Hin'. }
    apply (evd_collect_spec f st dobs d Hf Hd Hp Hm evs []).
Qed.
Print Assumptions evd_call_observers_spec.

(* ---------------------------------------------------------------------------------------------- *)
(* 7. Events::new: a stable sort by path length *)

Lemma evd_sort_insert_perm x l : Permutation (evd_sort_insert x l) (x :: l).
Proof.
  induction l as [|y r IH]; cbn; [reflexivity|].
  destruct (length (snd y) <=? length (snd x))%nat; [|reflexivity].
  rewrite IH. apply perm_swap.
Qed.
Lemma evd_sort_fold_perm l : forall acc, Permutation (fold_left (fun acc x => evd_sort_insert x acc) l acc) (acc ++ l).
Proof.
  induction l as [|x r IH]; intros acc; cbn; [now rewrite app_nil_r|].
  rewrite IH, evd_sort_insert_perm. cbn [app]. apply Permutation_middle.
Qed.
Lemma evd_sort_perm l : Permutation (evd_sort l) l.
Proof. unfold evd_sort. now rewrite evd_sort_fold_perm. Qed.

Lemma evd_sort_insert_sorted x l : StronglySorted evd_shorter l -> StronglySorted evd_shorter (evd_sort_insert x l).
Proof.
  induction l as [|y r IH]; cbn; intros H.
  - repeat constructor.
  - inversion H; subst. destruct (Nat.leb_spec (length (snd y)) (length (snd x))) as [Hle|Hgt].
    + constructor; [now apply IH|].
      apply (Permutation_Forall (Permutation_sym (evd_sort_insert_perm x r))). constructor; trivial.
    + constructor; trivial. constructor; [unfold evd_shorter; lia|].
      eapply Forall_impl; [|exact H3]. unfold evd_shorter. intros z Hz. lia.
Qed.
Lemma evd_sort_sorted l : StronglySorted evd_shorter (evd_sort l).
Proof.
  unfold evd_sort. assert (H : StronglySorted evd_shorter []) by constructor. revert H. generalize (@nil (evd_event * evd_path_t)).
  induction l as [|x r IH]; intros acc H; cbn; trivial. apply IH. now apply evd_sort_insert_sorted.
Qed.

(* stability: events whose paths have the same length stay in the order of event_cache *)
Definition evd_len_is (n : nat) (ep : evd_event * evd_path_t) : bool := (length (snd ep) =? n)%nat.
Lemma evd_sort_insert_stable n x l : StronglySorted evd_shorter l ->
  filter (evd_len_is n) (evd_sort_insert x l) = filter (evd_len_is n) l ++ (if evd_len_is n x then [x] else []).
Proof.
  induction l as [|y r IH]; intros H; cbn [evd_sort_insert filter].
  - destruct (evd_len_is n x); reflexivity.
  - inversion H; subst. destruct (Nat.leb_spec (length (snd y)) (length (snd x))) as [Hle|Hgt]; cbn [filter].
    + rewrite (IH H2). destruct (evd_len_is n y); reflexivity.
    + destruct (evd_len_is n x) eqn:Ex; [|now rewrite app_nil_r].
      assert (Hnil : filter (evd_len_is n) (y :: r) = []).
      { apply Nat.eqb_eq in Ex. assert (Hall : Forall (fun z => evd_len_is n z = false) (y :: r)).
        { constructor; [apply Nat.eqb_neq; lia|]. eapply Forall_impl; [|exact H3].
          unfold evd_shorter. intros z Hz. apply Nat.eqb_neq. lia. }
        clear - Hall. induction Hall as [|z w Hz _ IHw]; cbn; trivial. now rewrite Hz. }
      cbn [filter] in Hnil. rewrite Hnil. reflexivity.
Qed.
Lemma evd_sort_stable n l : filter (evd_len_is n) (evd_sort l) = filter (evd_len_is n) l.
Proof.
  unfold evd_sort.
  assert (G : forall l acc, StronglySorted evd_shorter acc ->
              filter (evd_len_is n) (fold_left (fun acc x => evd_sort_insert x acc) l acc) =
              filter (evd_len_is n) acc ++ filter (evd_len_is n) l).
  { clear l. induction l as [|x r IH]; intros acc H; cbn [fold_left filter]; [now rewrite app_nil_r|].
    rewrite IH by now apply evd_sort_insert_sorted. rewrite evd_sort_insert_stable by trivial.
    rewrite <- app_assoc. destruct (evd_len_is n x); reflexivity. }
  rewrite G by constructor. reflexivity.
Qed.
Print Assumptions evd_sort_stable.

(* ---------------------------------------------------------------------------------------------- *)
(* 8. THEOREM 1: at most once *)

Definition evd_eventful (f : evd_forest) (t : evd_ty) : bool :=
  match evd_make_event (evd_kind_of f t) with Some _ => true | None => false end.

Lemma evd_events_targets f order :
  map evd_e_target (evd_events_of f order) = filter (evd_eventful f) (map fst order).
Proof.
  induction order as [|[t subs] r IH]; [reflexivity|].
  rewrite evd_events_of_cons. cbn [map fst filter]. unfold evd_eventful at 1.
  destruct (evd_make_event (evd_kind_of f t)); cbn [app map evd_e_target]; now rewrite IH.
Qed.
Lemma evd_events_In f order e :
  In e (evd_events_of f order) <->
  In (evd_e_target e, evd_e_subs e) order /\ evd_make_event (evd_kind_of f (evd_e_target e)) = Some (evd_e_kind e).
Proof.
  unfold evd_events_of. rewrite in_flat_map. split.
  - intros ([t subs] & Hin & He). cbn [fst snd] in He.
    destruct (evd_make_event (evd_kind_of f t)) eqn:Ek; [|destruct He]. destruct He as [<-|[]]. cbn. auto.
  - intros [Hin Hk]. exists (evd_e_target e, evd_e_subs e). split; trivial. cbn [fst snd]. rewrite Hk.
    left. now destruct e.
Qed.
Lemma evd_nodup_map_filter {A B} (g : A -> B) (p : A -> bool) (l : list A) : NoDup (map g l) -> NoDup (map g (filter p l)).
Proof.
  induction l as [|x r IH]; cbn; intros H; [constructor|]. inversion H; subst.
  destruct (p x); cbn; [|now apply IH]. constructor; [|now apply IH].
  intros Hin. apply H2. apply in_map_iff in Hin as (y & E & Hy). apply filter_In in Hy as [Hy _].
  apply in_map_iff. eauto.
Qed.

Lemma evd_shallow_obs_app a b : evd_shallow_obs (a ++ b) = evd_shallow_obs a ++ evd_shallow_obs b.
Proof. apply flat_map_app. Qed.
Lemma evd_deep_obs_app a b : evd_deep_obs (a ++ b) = evd_deep_obs a ++ evd_deep_obs b.
Proof. apply flat_map_app. Qed.
Lemma evd_shallow_obs_shallow obs cache :
  evd_shallow_obs (evd_spec_shallow obs cache) = filter (fun t => evd_mem t obs) (map evd_e_target cache).
Proof.
  induction cache as [|e r IH]; [reflexivity|].
  change (e :: r) with ([e] ++ r). rewrite evd_spec_shallow_app, evd_shallow_obs_app, IH.
  cbn. destruct (evd_mem (evd_e_target e) obs); reflexivity.
Qed.
Lemma evd_deep_obs_shallow obs cache : evd_deep_obs (evd_spec_shallow obs cache) = [].
Proof.
  induction cache as [|e r IH]; [reflexivity|].
  change (e :: r) with ([e] ++ r). rewrite evd_spec_shallow_app, evd_deep_obs_app, IH.
  cbn. destruct (evd_mem (evd_e_target e) obs); reflexivity.
Qed.
Lemma evd_shallow_obs_deep f st cache ks : evd_shallow_obs (map (evd_spec_deep_call f st cache) ks) = [].
Proof. induction ks as [|k r IH]; [reflexivity|]. cbn. exact IH. Qed.
Lemma evd_deep_obs_deep f st cache ks : evd_deep_obs (map (evd_spec_deep_call f st cache) ks) = ks.
Proof. induction ks as [|k r IH]; [reflexivity|]. cbn. now f_equal. Qed.

Lemma evd_spec_calls_shallow_obs f obs st order dkeys :
  evd_shallow_obs (evd_spec_calls f obs st order dkeys) =
  filter (fun t => evd_mem t obs) (filter (evd_eventful f) (map fst order)).
Proof.
  unfold evd_spec_calls. now rewrite evd_shallow_obs_app, evd_shallow_obs_shallow, evd_shallow_obs_deep, app_nil_r, evd_events_targets.
Qed.
Lemma evd_spec_calls_deep_obs f obs st order dkeys : evd_deep_obs (evd_spec_calls f obs st order dkeys) = dkeys.
Proof. unfold evd_spec_calls. now rewrite evd_deep_obs_app, evd_deep_obs_shallow, evd_deep_obs_deep. Qed.
Lemma evd_spec_calls_deep_In f obs st order dkeys d es :
  In (EvdDeep d es) (evd_spec_calls f obs st order dkeys) <->
  In d dkeys /\ es = evd_sort (evd_spec_events_for f st (evd_events_of f order) d).
Proof.
  unfold evd_spec_calls. rewrite in_app_iff. split.
  - intros [H|H].
    + unfold evd_spec_shallow in H. apply in_flat_map in H as (e & _ & H).
      destruct (evd_mem (evd_e_target e) obs); [destruct H as [H|[]]; discriminate|destruct H].
    + apply in_map_iff in H as (k & E & Hk). unfold evd_spec_deep_call in E. inversion E; subst. auto.
  - intros [Hd ->]. right. apply in_map_iff. exists d. auto.
Qed.

Theorem evd_at_most_once : forall f obs dobs st order perm2 calls cpt,
  evd_forest_okb f = true -> evd_no_linksb f = true -> evd_holders_distinctb f = true -> evd_parents_knownb f = true ->
  (forall cp, Permutation (perm2 cp) cp) ->
  NoDup (map fst order) ->
  evd_call_observers_with f obs dobs st order perm2 = Some (calls, cpt) ->
  NoDup (evd_shallow_obs calls) /\
  NoDup (evd_deep_obs calls) /\
  forall d es, In (EvdDeep d es) calls -> NoDup (map (fun ep => evd_e_target (fst ep)) es).
Proof.
  intros f obs dobs st order perm2 calls cpt Hf Hl Hd Hp Hperm Hn Hcall.
  destruct (evd_call_observers_spec f obs dobs st order perm2 Hf Hl Hd Hp Hperm) as (dkeys & Hpk & _ & E).
  rewrite E in Hcall. inversion Hcall; subst. clear Hcall.
  split; [|split].
  - rewrite evd_spec_calls_shallow_obs. now apply NoDup_filter, NoDup_filter.
  - rewrite evd_spec_calls_deep_obs. apply (Permutation_NoDup (Permutation_sym Hpk)). apply evd_dedup_nodup.
  - intros d es Hin. apply evd_spec_calls_deep_In in Hin as [_ ->].
    apply (Permutation_NoDup (Permutation_map _ (Permutation_sym (evd_sort_perm _)))).
    unfold evd_spec_events_for. rewrite map_map. cbn [fst].
    apply evd_nodup_map_filter. rewrite evd_events_targets. now apply NoDup_filter.
Qed.
Print Assumptions evd_at_most_once.

(* the same for commit: the keys of `changed` are always distinct, whatever the effects *)
Theorem evd_at_most_once_commit : forall f obs dobs effs cleanup del0 calls cpt st',
  evd_forest_okb f = true -> evd_no_linksb f = true -> evd_holders_distinctb f = true -> evd_parents_knownb f = true ->
  evd_commit f obs dobs effs cleanup del0 = Some (calls, cpt, st') ->
  NoDup (evd_shallow_obs calls) /\
  NoDup (evd_deep_obs calls) /\
  forall d es, In (EvdDeep d es) calls -> NoDup (map (fun ep => evd_e_target (fst ep)) es).
Proof.
  intros f obs dobs effs cleanup del0 calls cpt st' Hf Hl Hd Hp Hc. unfold evd_commit in Hc.
  set (st := evd_run f effs (evd_st0 del0)) in *.
  assert (Hn : NoDup (evd_keys st)) by (apply evd_run_nodup; constructor).
  destruct (evd_changed st) as [|en r] eqn:Ech.
  - inversion Hc; subst. cbn. repeat split; try constructor. intros d es [].
  - destruct (evd_call_observers f obs dobs st) as [[calls0 cpt0]|] eqn:E; [|discriminate].
    inversion Hc; subst. unfold evd_call_observers in E.
    eapply evd_at_most_once; eauto. intros cp. reflexivity.
Qed.
Print Assumptions evd_at_most_once_commit.

(* ---------------------------------------------------------------------------------------------- *)
(* 9. THEOREM 2: a shallow observer fires iff its type is a key of `changed` *)

Lemma evd_commit_calls f obs dobs effs cleanup del0 calls cpt st' :
  evd_forest_okb f = true -> evd_no_linksb f = true -> evd_holders_distinctb f = true -> evd_parents_knownb f = true ->
  evd_commit f obs dobs effs cleanup del0 = Some (calls, cpt, st') ->
  let st := evd_run f effs (evd_st0 del0) in
  calls = evd_spec_calls f obs st (evd_changed st) (evd_deep_keys f dobs (evd_events_of f (evd_changed st))) /\
  st' = evd_run f cleanup st.
Proof.
  intros Hf Hl Hd Hp Hc st. unfold evd_commit in Hc. fold st in Hc.
  assert (Hr : match evd_changed st with [] => Some ([], []) | _ :: _ => evd_call_observers f obs dobs st end =
               Some (evd_spec_calls f obs st (evd_changed st) (evd_deep_keys f dobs (evd_events_of f (evd_changed st))),
                     flat_map (fun e => evd_chain f (evd_e_target e)) (evd_events_of f (evd_changed st)))).
  { destruct (evd_call_observers_spec f obs dobs st (evd_changed st) (fun cp => cp) Hf Hl Hd Hp (fun cp => Permutation_refl cp))
      as (dkeys & _ & Hk & E).
    specialize (Hk eq_refl). subst dkeys. fold (evd_call_observers f obs dobs st) in E. rewrite <- E.
    unfold evd_call_observers. destruct (evd_changed st); reflexivity. }
  rewrite Hr in Hc. inversion Hc; subst. split; reflexivity.
Qed.

Theorem evd_fires_when_touched : forall f obs dobs effs cleanup del0 calls cpt st' t,
  evd_forest_okb f = true -> evd_no_linksb f = true -> evd_holders_distinctb f = true -> evd_parents_knownb f = true ->
  forallb (evd_eff_okb f) effs = true ->
  evd_commit f obs dobs effs cleanup del0 = Some (calls, cpt, st') ->
  (In t (evd_shallow_obs calls) <->
   evd_mem t obs = true /\ evd_eventful f t = true /\
   (exists pre e post, effs = pre ++ e :: post /\ evd_touched_at f del0 pre e t) /\
   evd_holder_live f (evd_run f effs (evd_st0 del0)) t = true).
Proof.
  intros f obs dobs effs cleanup del0 calls cpt st' t Hf Hl Hd Hp Hok Hc.
  destruct (evd_commit_calls f obs dobs effs cleanup del0 calls cpt st' Hf Hl Hd Hp Hc) as [-> _].
  rewrite evd_spec_calls_shallow_obs, !filter_In.
  change (map fst (evd_changed (evd_run f effs (evd_st0 del0)))) with (evd_keys (evd_run f effs (evd_st0 del0))).
  rewrite (evd_changed_iff f effs del0 t Hok). tauto.
Qed.
Print Assumptions evd_fires_when_touched.

(* the two "in particular" clauses: a type whose holder is in the insert set (created in this transaction), or
   flagged deleted, at every moment it is reported, is not a key of `changed` *)
Theorem evd_created_or_deleted_silent : forall f effs del0 t h,
  forallb (evd_eff_okb f) effs = true ->
  evd_holder_of f t = Some h ->
  (forall pre e post, effs = pre ++ e :: post -> In t (evd_targets e) ->
     let st := evd_mid (evd_run f pre (evd_st0 del0)) e in
     In (evd_h_item h) (evd_ins st) \/ In (evd_h_item h) (evd_del st)) ->
  ~ In t (evd_keys (evd_run f effs (evd_st0 del0))).
Proof.
  intros f effs del0 t h Hok Hh Hall Hin.
  apply (evd_changed_iff f effs del0 t Hok) in Hin as [(pre & e & post & E & _ & Ht & Htr) _].
  specialize (Hall pre e post E Ht). cbn in Hall. unfold evd_trigger in Htr. rewrite Hh in Htr.
  apply andb_true_iff in Htr as [H1 H2]. rewrite negb_true_iff, evd_mem_false in H1, H2. tauto.
Qed.
Print Assumptions evd_created_or_deleted_silent.

(* ---------------------------------------------------------------------------------------------- *)
(* 10. THEOREM 4: deep observers *)

Theorem evd_deep_complete_and_ordered : forall f obs dobs st order perm2 calls cpt,
  evd_forest_okb f = true -> evd_no_linksb f = true -> evd_holders_distinctb f = true -> evd_parents_knownb f = true ->
  (forall cp, Permutation (perm2 cp) cp) ->
  evd_call_observers_with f obs dobs st order perm2 = Some (calls, cpt) ->
  (* which deep observers are called: those at or above a type that produced an event *)
  (forall d, In d (evd_deep_obs calls) <->
             evd_mem d dobs = true /\ exists e, In e (evd_events_of f order) /\ In d (evd_chain f (evd_e_target e))) /\
  (* with what *)
  (forall d es, In (EvdDeep d es) calls ->
     (forall e p, In (e, p) es <->
                  In e (evd_events_of f order) /\ In d (evd_chain f (evd_e_target e)) /\
                  p = evd_path_spec f st d (evd_e_target e)) /\
     (forall e p, In (e, p) es -> evd_path f st d (evd_e_target e) = Some p /\
                                  length p = length (evd_upto d (evd_chain f (evd_e_target e)))) /\
     StronglySorted evd_shorter es /\
     (forall n, filter (evd_len_is n) es = filter (evd_len_is n) (evd_spec_events_for f st (evd_events_of f order) d))) /\
  (* txn.changed_parent_types: every type on the chain of every event target, one entry per event and type *)
  cpt = flat_map (fun e => evd_chain f (evd_e_target e)) (evd_events_of f order).
Proof.
  intros f obs dobs st order perm2 calls cpt Hf Hl Hd Hp Hperm Hcall.
  destruct (evd_call_observers_spec f obs dobs st order perm2 Hf Hl Hd Hp Hperm) as (dkeys & Hpk & _ & E).
  rewrite E in Hcall. inversion Hcall; subst. clear Hcall.
  split; [|split; [|reflexivity]].
  - intros d. rewrite evd_spec_calls_deep_obs. rewrite <- evd_deep_keys_In. split; apply Permutation_in; [|symmetry]; exact Hpk.
  - intros d es Hin. apply evd_spec_calls_deep_In in Hin as [Hdk ->].
    assert (Hmem : forall e p, In (e, p) (evd_sort (evd_spec_events_for f st (evd_events_of f order) d)) <->
                     In e (evd_events_of f order) /\ In d (evd_chain f (evd_e_target e)) /\
                     p = evd_path_spec f st d (evd_e_target e)).
    { intros e p. split.
      - intros H. apply (Permutation_in _ (evd_sort_perm _)) in H. unfold evd_spec_events_for in H.
        apply in_map_iff in H as (e0 & E0 & H0). inversion E0; subst. apply filter_In in H0 as [H0 H1].
        apply evd_mem_In in H1. auto.
      - intros (H0 & H1 & ->). apply (Permutation_in _ (Permutation_sym (evd_sort_perm _))).
        unfold evd_spec_events_for. apply in_map_iff. exists e. split; trivial. apply filter_In. split; trivial.
        now apply evd_mem_In. }
    split; [exact Hmem|]. split; [|split].
    + intros e p H. apply Hmem in H as (_ & H1 & ->). split; [now apply evd_path_correct|].
      unfold evd_path_spec. now rewrite rev_length, map_length.
    + apply evd_sort_sorted.
    + intros n. apply evd_sort_stable.
Qed.
Print Assumptions evd_deep_complete_and_ordered.

(* ---------------------------------------------------------------------------------------------- *)
(* 11. THEOREM 5: iteration orders do not matter *)

Lemma evd_perm_filter {A} (p : A -> bool) l l' : Permutation l l' -> Permutation (filter p l) (filter p l').
Proof.
  induction 1; cbn.
  - constructor.
  - destruct (p x); [now constructor|trivial].
  - destruct (p x), (p y); try reflexivity. apply perm_swap.
  - etransitivity; eauto.
Qed.
Lemma evd_flat_map_perm {A B} (g g' : A -> list B) l l' :
  Permutation l l' -> (forall x, Permutation (g x) (g' x)) -> Permutation (flat_map g l) (flat_map g' l').
Proof.
  intros Hp Hg. transitivity (flat_map g l'); [now apply Permutation_flat_map|].
  clear Hp. induction l' as [|x r IH]; cbn; [constructor|]. now apply Permutation_app.
Qed.

Lemma evd_triples_app a b : evd_triples (a ++ b) = evd_triples a ++ evd_triples b.
Proof. apply flat_map_app. Qed.
Lemma evd_triples_shallow obs cache :
  evd_triples (evd_spec_shallow obs cache) =
  flat_map (fun e => if evd_mem (evd_e_target e) obs then [(false, evd_e_target e, evd_e_target e, [])] else []) cache.
Proof.
  induction cache as [|e r IH]; [reflexivity|].
  change (e :: r) with ([e] ++ r). rewrite evd_spec_shallow_app, evd_triples_app, IH. cbn.
  destruct (evd_mem (evd_e_target e) obs); reflexivity.
Qed.
Lemma evd_triples_deep f st cache ks :
  evd_triples (map (evd_spec_deep_call f st cache) ks) =
  flat_map (fun d => map (fun ep => (true, d, evd_e_target (fst ep), snd ep)) (evd_sort (evd_spec_events_for f st cache d))) ks.
Proof. induction ks as [|k r IH]; [reflexivity|]. cbn. now rewrite <- IH. Qed.

Theorem evd_order_independent : forall f obs dobs st order order' perm2 perm2',
  evd_forest_okb f = true -> evd_no_linksb f = true -> evd_holders_distinctb f = true -> evd_parents_knownb f = true ->
  Permutation order order' ->
  (forall cp, Permutation (perm2 cp) cp) -> (forall cp, Permutation (perm2' cp) cp) ->
  exists calls cpt calls' cpt',
    evd_call_observers_with f obs dobs st order perm2 = Some (calls, cpt) /\
    evd_call_observers_with f obs dobs st order' perm2' = Some (calls', cpt') /\
    Permutation (evd_triples calls) (evd_triples calls') /\
    Permutation cpt cpt'.
Proof.
  intros f obs dobs st order order' perm2 perm2' Hf Hl Hd Hp Hord H2 H2'.
  destruct (evd_call_observers_spec f obs dobs st order perm2 Hf Hl Hd Hp H2) as (dk & Hdk & _ & E).
  destruct (evd_call_observers_spec f obs dobs st order' perm2' Hf Hl Hd Hp H2') as (dk' & Hdk' & _ & E').
  do 4 eexists. split; [exact E|]. split; [exact E'|].
  assert (Hev : Permutation (evd_events_of f order) (evd_events_of f order')).
  { unfold evd_events_of. now apply Permutation_flat_map. }
  split.
  - unfold evd_spec_calls. rewrite !evd_triples_app, !evd_triples_shallow, !evd_triples_deep.
    apply Permutation_app.
    + now apply Permutation_flat_map.
    + apply evd_flat_map_perm.
      * rewrite Hdk, Hdk'. apply NoDup_Permutation; try apply evd_dedup_nodup.
        intros d. rewrite !evd_deep_keys_In. split; intros (Hm & e & He & Hc); split; trivial; exists e; split; trivial.
        -- now apply (Permutation_in _ Hev).
        -- now apply (Permutation_in _ (Permutation_sym Hev)).
      * intros d. apply Permutation_map. rewrite !evd_sort_perm. unfold evd_spec_events_for.
        now apply Permutation_map, evd_perm_filter.
  - now apply Permutation_flat_map.
Qed.
Print Assumptions evd_order_independent.

(* ---------------------------------------------------------------------------------------------- *)
(* 12. THEOREM 3: touched but unchanged; changed implies fired; when the edit script is empty *)

(* does the item contribute an Added or Removed entry to event_change_set *)
Definition evd_cs_emits (it : sitem) : bool :=
  if s_deleted it then s_deld it && negb (s_added it) else s_added it.
Definition evd_cs_loudb (st : list change * option change) : bool :=
  match fst st with
  | _ :: _ => true
  | [] => match snd st with Some (Added _) | Some (Removed _) => true | _ => false end
  end.
Lemma evd_cs_step_loud st it : evd_cs_loudb (cs_step st it) = evd_cs_loudb st || evd_cs_emits it.
Proof.
  destruct st as [delta last]. destruct it as [len vals del add deld]. unfold cs_step, evd_cs_emits, evd_cs_loudb.
  cbn [s_deleted s_added s_deld s_len s_vals].
  destruct del, deld, add; cbn [andb negb]; destruct last as [[vs|c|c]|]; destruct delta; cbn; reflexivity.
Qed.
Lemma evd_cs_fold_loud items : forall st,
  evd_cs_loudb (fold_left cs_step items st) = evd_cs_loudb st || existsb evd_cs_emits items.
Proof.
  induction items as [|it r IH]; intros st; cbn [fold_left existsb]; [now rewrite orb_false_r|].
  now rewrite IH, evd_cs_step_loud, orb_assoc.
Qed.
Lemma evd_cs_finish_nil st : cs_finish st = [] <-> evd_cs_loudb st = false.
Proof.
  destruct st as [delta last]. unfold cs_finish, evd_cs_loudb. cbn [fst snd].
  destruct last as [[vs|c|c]|]; destruct delta; cbn; split; intros H; try reflexivity; try discriminate;
    try (destruct delta; discriminate).
Qed.

(* the edit script of a sequence event is empty exactly when no item of the type was (a) deleted by this
   transaction without having been added by it, or (b) added by it and still live *)
Theorem evd_change_set_nil_iff : forall items, change_set items = [] <-> existsb evd_cs_emits items = false.
Proof.
  intros items. unfold change_set. rewrite evd_cs_finish_nil, evd_cs_fold_loud. reflexivity.
Qed.
Print Assumptions evd_change_set_nil_iff.

(* the same for one map key *)
Definition evd_key_noopb (chain : list kitem) : bool :=
  match rev chain with
  | [] => true
  | item :: lefts =>
      if k_added item then
        if k_deld item then match first_not_added lefts with Some p => negb (k_deld p) | None => true end
        else false
      else negb (k_deld item)
  end.
Theorem evd_keys_change_none_iff : forall chain, keys_change chain = None <-> evd_key_noopb chain = true.
Proof.
  intros chain. unfold keys_change, evd_key_noopb. destruct (rev chain) as [|item lefts]; [tauto|].
  destruct (k_added item), (k_deld item); cbn; try (split; [discriminate|discriminate]); try tauto.
  - destruct (first_not_added lefts) as [p|]; [|tauto]. destruct (k_deld p); cbn; split; try discriminate; trivial.
  - destruct (first_not_added lefts) as [p|]; [destruct (k_deld p)|]; split; discriminate.
Qed.
Print Assumptions evd_keys_change_none_iff.

(* content changed => some item carries a flag of this transaction *)
Lemma evd_seq_changed_touched items :
  seq_before items <> seq_after items -> existsb (fun it => s_added it || s_deld it) items = true.
Proof.
  intros H. destruct (existsb (fun it => s_added it || s_deld it) items) eqn:E; trivial. exfalso. apply H. clear H.
  induction items as [|it r IH]; [reflexivity|]. cbn in E. apply orb_false_iff in E as [E1 E2].
  apply orb_false_iff in E1 as [Ea Ed].
  unfold seq_before, seq_after in *. cbn [flat_map]. rewrite (IH E2). f_equal.
  unfold s_visible_before, s_visible_after. rewrite Ea, Ed. cbn. now rewrite orb_false_r.
Qed.
Lemma evd_key_changed_touched chain :
  key_before chain <> key_after chain -> existsb (fun p => k_added p || k_deld p) chain = true.
Proof.
  intros H. destruct (existsb (fun p => k_added p || k_deld p) chain) eqn:E; trivial. exfalso. apply H. clear H.
  unfold key_before, key_after. rewrite <- (rev_involutive chain) in E |- * at 1.
  destruct (rev chain) as [|item lefts]; [reflexivity|]. cbn [rev] in *.
  rewrite existsb_app in E. apply orb_false_iff in E as [_ E]. cbn in E. rewrite orb_false_r in E.
  apply orb_false_iff in E as [Ea Ed]. rewrite lna_snoc, Ea, Ed. rewrite orb_false_r.
  destruct (k_deleted item); reflexivity.
Qed.
Print Assumptions evd_key_changed_touched.

Definition evd_eff_item (e : evd_effect) : evd_id := match e with EvdInteg _ _ i _ _ | EvdDel _ _ i _ _ => i end.
(* the effects on the items of T's sequence name T as parent (the parent pointer of an item is where it sits) *)
Definition evd_parent_ok (f : evd_forest) (t : evd_ty) (effs : list evd_effect) : Prop :=
  forall e, In e effs -> evd_mem (evd_eff_item e) (map fst (evd_seq_of f t)) = true -> In t (evd_targets e).

Lemma evd_flag_origin f effs del0 i :
  In i (evd_ins (evd_run f effs (evd_st0 del0))) \/ In i (evd_dset (evd_run f effs (evd_st0 del0))) ->
  exists pre e post, effs = pre ++ e :: post /\
                     (evd_effective (evd_run f pre (evd_st0 del0)) e = true /\ evd_eff_item e = i).
Proof.
  induction effs as [|e effs IH] using rev_ind.
  - cbn. intros [[]|[]].
  - rewrite evd_run_snoc. set (st := evd_run f effs (evd_st0 del0)) in *.
    rewrite (evd_split_snoc (fun pre e0 => evd_effective (evd_run f pre (evd_st0 del0)) e0 = true /\ evd_eff_item e0 = i)).
    fold st. destruct (evd_step_flags f st e) as (Fi & _ & Fd). rewrite Fi, Fd.
    destruct (evd_effective st e) eqn:Eff; [|intros H; left; now apply IH].
    destruct e as [p k item dead links | p k item inner links]; cbn [evd_mid evd_ins evd_dset evd_eff_item].
    + intros [[->|H]|H]; [right; auto|left; apply IH; auto|].
      destruct dead; [destruct H as [->|H]; [right; auto|]|]; left; apply IH; auto.
    + intros [H|[->|H]]; [left; apply IH; auto|right; auto|left; apply IH; auto].
Qed.

Lemma evd_step_ins_mono f st e x : In x (evd_ins st) -> In x (evd_ins (evd_step f st e)).
Proof.
  intros H. destruct (evd_step_flags f st e) as (Fi & _ & _). rewrite Fi.
  destruct (evd_effective st e); trivial. destruct e; cbn; auto.
Qed.
Lemma evd_run_ins_mono f effs : forall st x, In x (evd_ins st) -> In x (evd_ins (evd_run f effs st)).
Proof.
  unfold evd_run. induction effs as [|e r IH]; cbn; intros st x H; trivial. apply IH. now apply evd_step_ins_mono.
Qed.
Lemma evd_trigger_antitone f st st' t :
  (forall x, In x (evd_ins st) -> In x (evd_ins st')) -> (forall x, In x (evd_del st) -> In x (evd_del st')) ->
  evd_trigger f st' t = true -> evd_trigger f st t = true.
Proof.
  unfold evd_trigger. intros Hi Hd. destruct (evd_holder_of f t) as [h|]; trivial.
  rewrite !andb_true_iff, !negb_true_iff, !evd_mem_false. intros [H1 H2]. split; intros H; [apply H1|apply H2]; auto.
Qed.

(* the converse that holds: if the holder of T is neither added nor deleted at commit (then it was neither at any
   earlier moment), a change of T's sequence content puts T among the keys of `changed` - and then
   evd_fires_when_touched calls T's observers, evd_deep_complete_and_ordered those of its ancestors *)
Theorem evd_content_changed_fires : forall f effs del0 t,
  forallb (evd_eff_okb f) effs = true ->
  evd_parent_ok f t effs ->
  let st := evd_run f effs (evd_st0 del0) in
  evd_trigger f st t = true ->
  seq_before (evd_items_of f st t) <> seq_after (evd_items_of f st t) ->
  In t (evd_keys st).
Proof.
  intros f effs del0 t Hok Hpar st Htr Hch.
  apply evd_seq_changed_touched in Hch. apply existsb_exists in Hch as (it & Hit & Hfl).
  unfold evd_items_of in Hit. apply in_map_iff in Hit as (p & <- & Hp).
  cbn [evd_sitem s_added s_deld] in Hfl.
  assert (Hor : In (fst p) (evd_ins st) \/ In (fst p) (evd_dset st)).
  { apply orb_true_iff in Hfl as [H|H]; apply evd_mem_In in H; auto. }
  apply evd_flag_origin in Hor as (pre & e & post & E & Heff & Hitem).
  apply (evd_changed_iff f effs del0 t Hok). split; [|now apply evd_trigger_live].
  exists pre, e, post. split; trivial. split; trivial. split.
  - apply Hpar; [rewrite E; apply in_or_app; right; now left|].
    rewrite Hitem. apply evd_mem_In. apply in_map_iff. eauto.
  - assert (Est : st = evd_run f post (evd_step f (evd_run f pre (evd_st0 del0)) e)).
    { subst st. rewrite E. unfold evd_run. rewrite fold_left_app. reflexivity. }
    destruct (evd_step_flags f (evd_run f pre (evd_st0 del0)) e) as (Fi & Fd & _). rewrite Heff in Fi, Fd.
    apply (evd_trigger_antitone f _ st t); trivial.
    + intros x Hx. rewrite Est. apply evd_run_ins_mono. now rewrite Fi.
    + intros x Hx. rewrite Est. apply evd_run_del_mono. now rewrite Fd.
Qed.
Print Assumptions evd_content_changed_fires.

(* The property as asked - "a type whose content did not change fires no event" - is false:
     forall f obs dobs effs del0 calls cpt st' t, evd_commit f obs dobs effs [] del0 = Some (calls, cpt, st') ->
       seq_before (evd_items_of f st' t) = seq_after (evd_items_of f st' t) -> ~ In t (evd_shallow_obs calls)
   Witness: one root array, one item integrated and then deleted in the same transaction. The observer is called,
   the edit script is empty (replay: evd_dispatch.rs, evd_noop_event). *)
Theorem evd_no_event_when_unchanged_refuted :
  exists f obs dobs effs del0 calls cpt st' t,
    evd_forest_okb f = true /\ evd_no_linksb f = true /\ forallb (evd_eff_okb f) effs = true /\
    evd_commit f obs dobs effs [] del0 = Some (calls, cpt, st') /\
    seq_before (evd_items_of f st' t) = seq_after (evd_items_of f st' t) /\
    change_set (evd_items_of f st' t) = [] /\
    In t (evd_shallow_obs calls) /\ In t (evd_deep_obs calls).
Proof.
  exists [{| evd_n_holder := None; evd_n_kind := EvdArray; evd_n_seq := [(1, (1, [7]))] |}], [0], [0],
         [EvdInteg 0 None 1 false []; EvdDel (Some 0) None 1 None []], [].
  do 3 eexists. exists 0. repeat split; try (vm_compute; reflexivity).
  - vm_compute. now left.
  - vm_compute. now left.
Qed.
Print Assumptions evd_no_event_when_unchanged_refuted.

(* exactly when does a fired sequence event carry an empty script: the type is a key of `changed` and no item
   of it is emitting *)
Theorem evd_empty_script_iff : forall f obs dobs effs cleanup del0 calls cpt st' t,
  evd_forest_okb f = true -> evd_no_linksb f = true -> evd_holders_distinctb f = true -> evd_parents_knownb f = true ->
  forallb (evd_eff_okb f) effs = true ->
  evd_commit f obs dobs effs cleanup del0 = Some (calls, cpt, st') ->
  let st := evd_run f effs (evd_st0 del0) in
  (In t (evd_shallow_obs calls) /\ change_set (evd_items_of f st t) = [] <->
   evd_mem t obs = true /\ evd_eventful f t = true /\ In t (evd_keys st) /\
   existsb evd_cs_emits (evd_items_of f st t) = false).
Proof.
  intros f obs dobs effs cleanup del0 calls cpt st' t Hf Hl Hd Hp Hok Hc st.
  rewrite (evd_fires_when_touched f obs dobs effs cleanup del0 calls cpt st' t Hf Hl Hd Hp Hok Hc).
  rewrite evd_change_set_nil_iff. unfold st. rewrite (evd_changed_iff f effs del0 t Hok). tauto.
Qed.
Print Assumptions evd_empty_script_iff.

(* with quotations (linked_by) "at most once" FAILED in the pinned tree (1f736a8, before the repair of
   call_type_observers) for the list of events of a deep observer: the holder of
   type 1 is quoted by link 2, both below the root 0; the walk reaches 0 twice. Full statement refuted:
     forall f ... , evd_call_observers_pre_dedup f obs dobs st = Some (calls, cpt) -> In (EvdDeep d es) calls ->
       NoDup (map (fun ep => evd_e_target (fst ep)) es)     (without evd_no_linksb)
   Replay against the pinned tree: evd_dispatch.rs, evd_deep_duplicate_through_link.
   For the repaired code the statement holds: evd_at_most_once_with_links below. *)
Theorem evd_at_most_once_links_pre_dedup_refuted :
  exists f obs dobs st calls cpt d es,
    evd_forest_okb f = true /\ evd_holders_distinctb f = true /\ evd_parents_knownb f = true /\
    NoDup (evd_keys st) /\
    evd_call_observers_pre_dedup f obs dobs st = Some (calls, cpt) /\
    In (EvdDeep d es) calls /\ ~ NoDup (map (fun ep => evd_e_target (fst ep)) es).
Proof.
  exists [{| evd_n_holder := None; evd_n_kind := EvdMap; evd_n_seq := [] |};
          {| evd_n_holder := Some {| evd_h_item := 10; evd_h_parent := Some 0; evd_h_sub := Some 1; evd_h_links := [2] |};
             evd_n_kind := EvdMap; evd_n_seq := [] |};
          {| evd_n_holder := Some {| evd_h_item := 11; evd_h_parent := Some 0; evd_h_sub := Some 2; evd_h_links := [] |};
             evd_n_kind := EvdWeak; evd_n_seq := [] |}],
         [], [0],
         {| evd_changed := [(1, [Some 5])]; evd_ins := [20]; evd_del := []; evd_dset := [] |}.
  do 2 eexists. exists 0. eexists. repeat split; try (vm_compute; reflexivity).
  - repeat constructor. intros [].
  - vm_compute. left. reflexivity.
  - vm_compute. intros H. inversion H; subst. apply H2. now left.
Qed.
Print Assumptions evd_at_most_once_links_pre_dedup_refuted.

(* ---------------------------------------------------------------------------------------------- *)
(* 13. with quotations: the shallow part of theorems 1 and 2 needs no hypothesis on the forest *)

Lemma evd_loop1_calls f obs dobs : forall order s s',
  evd_loop1 f obs dobs s order = Some s' ->
  evd_l1_calls s' = evd_l1_calls s ++ evd_spec_shallow obs (evd_events_of f order).
Proof.
  induction order as [|[t subs] r IH]; intros s s' H.
  - cbn in H. inversion H; subst. cbn. now rewrite app_nil_r.
  - cbn [evd_loop1 evd_loop1_step] in H. rewrite evd_events_of_cons.
    destruct (evd_make_event (evd_kind_of f t)) as [k|].
    + match type of H with context [evd_walk ?a ?b ?c ?d ?e ?g] => destruct (evd_walk a b c d e g) as [w'|]; [|discriminate] end.
      apply IH in H. cbn [evd_l1_calls] in H. rewrite H. rewrite evd_spec_shallow_app.
      unfold evd_spec_shallow at 2. cbn [flat_map evd_e_target app]. rewrite app_nil_r.
      destruct (evd_mem t obs); [now rewrite <- app_assoc|reflexivity].
    + cbn [app]. now apply IH.
Qed.
Lemma evd_loop2_shallow f st cache : forall cp deep, evd_loop2 f st cache cp = Some deep -> evd_shallow_obs deep = [].
Proof.
  induction cp as [|[d idxs] r IH]; intros deep H; cbn in H.
  - inversion H. reflexivity.
  - destruct (evd_collect f st cache d idxs); [|discriminate].
    destruct (evd_loop2 f st cache r) as [calls|]; [|discriminate]. inversion H; subst. cbn. now apply IH.
Qed.

Theorem evd_shallow_dispatch_with_links : forall f obs dobs st order perm2 calls cpt t,
  NoDup (map fst order) ->
  evd_call_observers_with f obs dobs st order perm2 = Some (calls, cpt) ->
  NoDup (evd_shallow_obs calls) /\
  (In t (evd_shallow_obs calls) <-> evd_mem t obs = true /\ evd_eventful f t = true /\ In t (map fst order)).
Proof.
  intros f obs dobs st order perm2 calls cpt t Hn H. unfold evd_call_observers_with in H.
  destruct (evd_loop1 f obs dobs evd_l10 order) as [s|] eqn:E1; [|discriminate].
  destruct (evd_loop2 f st (evd_l1_cache s) (perm2 (evd_w_cp (evd_l1_w s)))) as [deep|] eqn:E2; [|discriminate].
  inversion H; subst. apply evd_loop1_calls in E1. cbn in E1. apply evd_loop2_shallow in E2.
  rewrite evd_shallow_obs_app, E2, app_nil_r, E1, evd_shallow_obs_shallow, evd_events_targets. split.
  - now apply NoDup_filter, NoDup_filter.
  - rewrite !filter_In. tauto.
Qed.
Print Assumptions evd_shallow_dispatch_with_links.

(* ---------------------------------------------------------------------------------------------- *)
(* 14. with quotations (the repaired call_type_observers): the walk never runs out of fuel, every deep observer on
   the parent chain of the target receives the event, and exactly once *)

Definition evd_links_fold (walkf : evd_ty -> evd_wst -> option evd_wst) : list evd_ty -> evd_wst -> option evd_wst :=
  fix links (ls : list evd_ty) (w : evd_wst) : option evd_wst :=
    match ls with
    | [] => Some w
    | l :: r =>
        if evd_mem l (evd_w_vis w) then links r w
        else match walkf l (evd_mark w l) with
             | None => None
             | Some w' => links r w'
             end
    end.
Lemma evd_walk_unfold fu f dobs idx cur w :
  evd_walk (S fu) f dobs idx cur w =
  let w1 := evd_visit dobs idx w cur in
  match evd_holder_of f cur with
  | None => Some w1
  | Some h =>
      match evd_links_fold (evd_walk fu f dobs idx) (evd_h_links h) w1 with
      | None => None
      | Some w2 => match evd_h_parent h with Some p => evd_walk fu f dobs idx p w2 | None => Some w2 end
      end
  end.
Proof. reflexivity. Qed.

Definition evd_unvis (f : evd_forest) (w : evd_wst) : nat :=
  length (filter (fun t => negb (evd_mem t (evd_w_vis w))) (evd_all_types f)).

Lemma evd_filter_len_le {A} (p q : A -> bool) l :
  (forall x, q x = true -> p x = true) -> (length (filter q l) <= length (filter p l))%nat.
Proof.
  intros H. induction l as [|y r IH]; cbn; [lia|].
  destruct (q y) eqn:Eq; [rewrite (H y Eq); cbn; lia|]. destruct (p y); cbn; lia.
Qed.
Lemma evd_filter_len_lt {A} (p q : A -> bool) l x :
  In x l -> p x = true -> q x = false -> (forall y, q y = true -> p y = true) ->
  (length (filter q l) < length (filter p l))%nat.
Proof.
  intros Hin Hp Hq H. induction l as [|y r IH]; [destruct Hin|]. cbn.
  destruct Hin as [->|Hin].
  - rewrite Hp, Hq. cbn. pose proof (evd_filter_len_le p q r H). lia.
  - specialize (IH Hin). destruct (q y) eqn:Eq; [rewrite (H y Eq); cbn; lia|]. destruct (p y); cbn; lia.
Qed.

(* the walk only adds: visited links, and indexes in changed_parents - and only the index idx *)
(* the index vector of one deep observer: strictly increasing, below n *)
Definition evd_vec_good (l : list nat) (n : nat) : Prop := StronglySorted lt l /\ Forall (fun i => (i < n)%nat) l.
Definition evd_cp_bounded (cp : evd_cp_map) (n : nat) : Prop := Forall (fun en => evd_vec_good (snd en) n) cp.

Lemma evd_last_max l i : StronglySorted lt l -> Forall (fun x => (x < S i)%nat) l -> In i l -> evd_last l = Some i.
Proof.
  induction l as [|x r IH]; intros Hs Hb Hin; [destruct Hin|].
  inversion Hs; subst. inversion Hb; subst. cbn [evd_last]. destruct r as [|y r'].
  - destruct Hin as [->|[]]. reflexivity.
  - destruct Hin as [->|Hin].
    + exfalso. inversion H2; subst. inversion H4; subst. lia.
    + now apply IH.
Qed.
Lemma evd_sorted_snoc l i : StronglySorted lt l -> Forall (fun x => (x < i)%nat) l -> StronglySorted lt (l ++ [i]).
Proof.
  induction l as [|x r IH]; intros Hs Hb; cbn; [repeat constructor|].
  inversion Hs; subst. inversion Hb; subst. constructor; [now apply IH|].
  apply Forall_app. split; trivial. repeat constructor. trivial.
Qed.
Lemma evd_vec_push_good l i : evd_vec_good l (S i) -> evd_vec_good (evd_vec_push_dedup l i) (S i).
Proof.
  intros [Hs Hb]. unfold evd_vec_push_dedup. destruct (evd_last_is l i) eqn:E; [now split|].
  assert (Hlt : Forall (fun x => (x < i)%nat) l).
  { apply Forall_forall. intros x Hx. pose proof (proj1 (Forall_forall _ _) Hb x Hx) as Hxb. cbn in Hxb.
    destruct (Nat.eq_dec x i) as [->|Hne]; [|lia]. exfalso.
    unfold evd_last_is in E. rewrite (evd_last_max l i Hs Hb Hx), Nat.eqb_refl in E. discriminate. }
  split; [now apply evd_sorted_snoc|]. apply Forall_app. split; trivial. repeat constructor.
Qed.
Lemma evd_cp_push_bounded cp d i : evd_cp_bounded cp (S i) -> evd_cp_bounded (evd_cp_push cp d i) (S i).
Proof.
  unfold evd_cp_bounded. induction cp as [|[k l] r IH]; intros H; cbn [evd_cp_push].
  - constructor; [|constructor]. cbn. split; repeat constructor.
  - inversion H; subst. destruct (k =? d).
    + constructor; trivial. cbn [snd] in *. now apply evd_vec_push_good.
    + constructor; trivial. now apply IH.
Qed.
Lemma evd_cp_push_nodup cp d i : NoDup (map fst cp) -> NoDup (map fst (evd_cp_push cp d i)).
Proof.
  rewrite evd_cp_push_keys. unfold evd_set_add. destruct (evd_mem d (map fst cp)) eqn:E; trivial.
  intros H. apply evd_mem_false in E. apply (Permutation_NoDup (Permutation_cons_append _ d)). now constructor.
Qed.

(* the walk only adds: visited links, and the index idx in changed_parents - at most once per observer *)
Definition evd_w_le (idx : nat) (w w' : evd_wst) : Prop :=
  incl (evd_w_vis w) (evd_w_vis w') /\
  (forall d i, In i (evd_cp_get (evd_w_cp w) d) -> In i (evd_cp_get (evd_w_cp w') d)) /\
  (evd_cp_bounded (evd_w_cp w) (S idx) -> evd_cp_bounded (evd_w_cp w') (S idx)) /\
  (NoDup (map fst (evd_w_cp w)) -> NoDup (map fst (evd_w_cp w'))).
Lemma evd_w_le_refl idx w : evd_w_le idx w w.
Proof. split; [apply incl_refl|auto]. Qed.
Lemma evd_w_le_trans idx a b c : evd_w_le idx a b -> evd_w_le idx b c -> evd_w_le idx a c.
Proof. intros (H1 & H2 & H3 & H4) (H5 & H6 & H7 & H8). split; [eapply incl_tran; eauto|repeat split; eauto]. Qed.
Lemma evd_w_le_visit dobs idx w cur : evd_w_le idx w (evd_visit dobs idx w cur).
Proof.
  split; [apply incl_refl|split; [|split]].
  - intros d i H. cbn. destruct (evd_mem cur dobs); trivial.
    rewrite evd_cp_push_get. destruct (cur =? d) eqn:E; trivial. apply N.eqb_eq in E. subst.
    apply evd_vec_push_In. now left.
  - intros H. cbn. destruct (evd_mem cur dobs); trivial. now apply evd_cp_push_bounded.
  - intros H. cbn. destruct (evd_mem cur dobs); trivial. now apply evd_cp_push_nodup.
Qed.
Lemma evd_w_le_mark idx w l : evd_w_le idx w (evd_mark w l).
Proof. split; [apply incl_tl, incl_refl|auto]. Qed.
Lemma evd_visit_has dobs idx w cur : evd_mem cur dobs = true -> In idx (evd_cp_get (evd_w_cp (evd_visit dobs idx w cur)) cur).
Proof. intros H. cbn. rewrite H, evd_cp_push_get, N.eqb_refl. apply evd_vec_push_In. now right. Qed.

Lemma evd_unvis_mono f idx w w' : evd_w_le idx w w' -> (evd_unvis f w' <= evd_unvis f w)%nat.
Proof.
  intros [H _]. unfold evd_unvis. apply evd_filter_len_le. intros x. rewrite !negb_true_iff, !evd_mem_false.
  intros Hn Hi. apply Hn. now apply H.
Qed.
Lemma evd_unvis_mark f w l : l < N.of_nat (length f) -> evd_mem l (evd_w_vis w) = false ->
  (S (evd_unvis f (evd_mark w l)) <= evd_unvis f w)%nat.
Proof.
  intros Hl Hm. unfold evd_unvis. apply (evd_filter_len_lt _ _ _ l).
  - now apply evd_all_types_In.
  - now rewrite Hm.
  - cbn. now rewrite N.eqb_refl.
  - intros y. cbn. rewrite !negb_true_iff. intros H. apply orb_false_iff in H. tauto.
Qed.

Lemma evd_links_in_range f t h l : evd_forest_okb f = true -> evd_holder_of f t = Some h -> In l (evd_h_links h) ->
  l < N.of_nat (length f).
Proof.
  unfold evd_forest_okb. rewrite forallb_forall. intros H E Hl.
  specialize (H t (proj2 (evd_all_types_In f t) (evd_holder_in_range f t h E))).
  rewrite E in H. apply andb_true_iff in H as [_ H]. rewrite forallb_forall in H. apply N.ltb_lt. now apply H.
Qed.

(* fuel: one unit per type on the current chain, plus a whole chain for every link not yet visited *)
Lemma evd_walk_total_gen f dobs idx : evd_forest_okb f = true ->
  forall fuel cur w,
    (0 < fuel)%nat ->
    (evd_holder_of f cur <> None -> (N.to_nat cur + 1 + evd_unvis f w * length f <= fuel)%nat) ->
    exists w', evd_walk fuel f dobs idx cur w = Some w' /\ evd_w_le idx w w' /\ forall d, In d (evd_chain f cur) -> evd_mem d dobs = true -> In idx (evd_cp_get (evd_w_cp w') d).
Proof.
  intros Hf. induction fuel as [|fu IH]; intros cur w H0 Hc; [lia|].
  rewrite evd_walk_unfold. cbn zeta. rewrite (evd_chain_unfold f cur Hf).
  set (w1 := evd_visit dobs idx w cur).
  assert (L1 : evd_w_le idx w w1) by apply evd_w_le_visit.
  destruct (evd_holder_of f cur) as [h|] eqn:E.
  2:{ exists w1. split; trivial. split; trivial. intros d [->|[]] Hm. now apply evd_visit_has. }
  assert (Hfuel : (N.to_nat cur + 1 + evd_unvis f w * length f <= S fu)%nat) by (apply Hc; discriminate).
  assert (Hcur : (N.to_nat cur < length f)%nat) by (apply evd_holder_in_range in E; lia).
  (* the for loop over linked_by *)
  assert (Hlinks : forall ls wa, (forall l, In l ls -> l < N.of_nat (length f)) -> evd_w_le idx w1 wa ->
            exists wb, evd_links_fold (evd_walk fu f dobs idx) ls wa = Some wb /\ evd_w_le idx wa wb).
  { induction ls as [|l r IHl]; intros wa Hr La.
    - exists wa. split; [reflexivity|apply evd_w_le_refl].
    - cbn [evd_links_fold]. destruct (evd_mem l (evd_w_vis wa)) eqn:Ev.
      + apply IHl; trivial. intros x Hx. apply Hr. now right.
      + assert (Hl : l < N.of_nat (length f)) by (apply Hr; now left).
        pose proof (evd_unvis_mark f wa l Hl Ev) as Hu.
        pose proof (evd_unvis_mono f idx w wa (evd_w_le_trans _ _ _ _ L1 La)) as Hu2.
        assert (Hx : (S (evd_unvis f (evd_mark wa l)) * length f <= evd_unvis f w * length f)%nat)
          by (apply Nat.mul_le_mono_r; lia).
        cbn [Nat.mul] in Hx.
        destruct (IH l (evd_mark wa l)) as (wc & Ew & Lc & _).
        * lia.
        * intros _. lia.
        * rewrite Ew. destruct (IHl wc) as (wb & Eb & Lb).
          -- intros x Hx0. apply Hr. now right.
          -- eapply evd_w_le_trans; [exact La|]. eapply evd_w_le_trans; [apply evd_w_le_mark|exact Lc].
          -- exists wb. split; trivial. eapply evd_w_le_trans; [apply evd_w_le_mark|]. eapply evd_w_le_trans; eauto. }
  destruct (Hlinks (evd_h_links h) w1) as (w2 & E2 & L2).
  { intros l Hl. eapply evd_links_in_range; eauto. }
  { apply evd_w_le_refl. }
  rewrite E2.
  assert (Hself : evd_mem cur dobs = true -> In idx (evd_cp_get (evd_w_cp w2) cur)).
  { intros Hm. apply L2. now apply evd_visit_has. }
  destruct (evd_h_parent h) as [p|] eqn:Ep.
  - pose proof (evd_forest_ok_parent f cur h p Hf E Ep) as Hlt.
    pose proof (evd_unvis_mono f idx w w2 (evd_w_le_trans _ _ _ _ L1 L2)) as Hu.
    destruct (IH p w2) as (w3 & E3 & L3 & H3).
    + lia.
    + intros _. assert (Hx : (evd_unvis f w2 * length f <= evd_unvis f w * length f)%nat) by (apply Nat.mul_le_mono_r; lia). lia.
    + exists w3. split; trivial. split.
      * eapply evd_w_le_trans; [exact L1|]. eapply evd_w_le_trans; eauto.
      * intros d [->|Hd] Hm; [apply L3; auto|auto].
  - exists w2. split; trivial. split; [eapply evd_w_le_trans; eauto|]. intros d [->|[]] Hm. auto.
Qed.

Lemma evd_unvis_le f w : (evd_unvis f w <= length f)%nat.
Proof.
  unfold evd_unvis.
  assert (G : forall (p : N -> bool) l, (length (filter p l) <= length l)%nat).
  { intros p l. induction l as [|x r IH]; cbn; [lia|]. destruct (p x); cbn; lia. }
  etransitivity; [apply G|]. unfold evd_all_types. now rewrite map_length, seq_length.
Qed.

(* THEOREM (quotations): for every forest whose parents come first, evd_walk_fuel is enough, whatever linked_by holds *)
Theorem evd_walk_total : forall f dobs idx t w,
  evd_forest_okb f = true ->
  exists w', evd_walk (evd_walk_fuel f) f dobs idx t w = Some w' /\ evd_w_le idx w w' /\
             forall d, In d (evd_chain f t) -> evd_mem d dobs = true -> In idx (evd_cp_get (evd_w_cp w') d).
Proof.
  intros f dobs idx t w Hf.
  destruct (evd_walk_total_gen f dobs idx Hf (evd_walk_fuel f) t w) as (w' & E & Hle & H).
  - unfold evd_walk_fuel. lia.
  - intros Hn. destruct (evd_holder_of f t) as [h|] eqn:Eh; [|congruence]. apply evd_holder_in_range in Eh.
    pose proof (evd_unvis_le f w) as Hu. unfold evd_walk_fuel. rewrite Nat.mul_succ_r.
    assert (evd_unvis f w * length f <= length f * length f)%nat by (apply Nat.mul_le_mono_r; lia). lia.
  - eauto.
Qed.
Print Assumptions evd_walk_total.

(* Branch::path never fails when every holder has a branch as parent, wherever it starts *)
Lemma evd_path_loop_total f st from : evd_forest_okb f = true -> evd_parents_knownb f = true ->
  forall fuel child acc, (0 < fuel)%nat -> (evd_holder_of f child <> None -> (N.to_nat child < fuel)%nat) ->
  exists p, evd_path_loop fuel f st from child acc = Some p.
Proof.
  intros Hf Hp. induction fuel as [|fu IH]; intros child acc H0 Hc; [lia|]. cbn [evd_path_loop].
  destruct (evd_holder_of f child) as [h|] eqn:E; [|eauto].
  destruct (evd_oid_eqb from (Some (evd_h_item h))); [eauto|].
  destruct (evd_parents_known f child h Hp E) as [p Ep]. rewrite Ep.
  pose proof (evd_forest_ok_parent f child h p Hf E Ep).
  assert (N.to_nat child < S fu)%nat by (apply Hc; discriminate).
  apply IH; [lia|intros _; lia].
Qed.
Lemma evd_path_total f st d t : evd_forest_okb f = true -> evd_parents_knownb f = true -> exists p, evd_path f st d t = Some p.
Proof.
  intros Hf Hp. unfold evd_path. apply evd_path_loop_total; trivial; [lia|].
  intros Hn. destruct (evd_holder_of f t) as [h|] eqn:E; [|congruence]. apply evd_holder_in_range in E. lia.
Qed.
Lemma evd_collect_total f st cache d : evd_forest_okb f = true -> evd_parents_knownb f = true ->
  forall idxs, Forall (fun i => (i < length cache)%nat) idxs -> exists es, evd_collect f st cache d idxs = Some es.
Proof.
  intros Hf Hp. induction idxs as [|i r IH]; intros H; [cbn; eauto|]. inversion H; subst. cbn [evd_collect].
  destruct (nth_error cache i) as [e|] eqn:E; [|apply nth_error_None in E; lia].
  destruct (evd_path_total f st d (evd_e_target e) Hf Hp) as [p ->]. destruct (IH H3) as [es ->]. eauto.
Qed.
Lemma evd_loop2_total f st cache : evd_forest_okb f = true -> evd_parents_knownb f = true ->
  forall cp, evd_cp_bounded cp (length cache) -> exists calls, evd_loop2 f st cache cp = Some calls.
Proof.
  intros Hf Hp. induction cp as [|[d idxs] r IH]; intros H; [cbn; eauto|]. inversion H; subst. cbn [evd_loop2].
  destruct (evd_collect_total f st cache d Hf Hp idxs (proj2 H2)) as [es ->]. destruct (IH H3) as [calls ->]. eauto.
Qed.
Lemma evd_cp_bounded_mono cp n m : (n <= m)%nat -> evd_cp_bounded cp n -> evd_cp_bounded cp m.
Proof.
  intros Hnm H. unfold evd_cp_bounded in *. eapply Forall_impl; [|exact H]. intros en [Hs He]. split; trivial.
  eapply Forall_impl; [|exact He]. intros i Hi. cbn in Hi. lia.
Qed.
Lemma evd_loop1_total f obs dobs : evd_forest_okb f = true ->
  forall order s, evd_cp_bounded (evd_w_cp (evd_l1_w s)) (length (evd_l1_cache s)) -> NoDup (map fst (evd_w_cp (evd_l1_w s))) ->
  exists s', evd_loop1 f obs dobs s order = Some s' /\
             evd_cp_bounded (evd_w_cp (evd_l1_w s')) (length (evd_l1_cache s')) /\ NoDup (map fst (evd_w_cp (evd_l1_w s'))).
Proof.
  intros Hf. induction order as [|[t subs] r IH]; intros s Hb Hn; [cbn; eauto|].
  cbn [evd_loop1 evd_loop1_step]. destruct (evd_make_event (evd_kind_of f t)) as [k|]; [|now apply IH].
  match goal with |- context [evd_walk ?a ?b ?c ?d ?e ?g] =>
    destruct (evd_walk_total b c d e g Hf) as (w' & -> & (_ & _ & Hbd & Hnd) & _) end.
  cbn [evd_w_cp] in Hbd, Hnd.
  apply IH; cbn [evd_l1_w evd_l1_cache evd_w_cp] in *; [|now apply Hnd].
  rewrite app_length in *. cbn [length] in *.
  replace (S (length (evd_l1_cache s) + 1 - 1))%nat with (length (evd_l1_cache s) + 1)%nat in Hbd by lia.
  apply Hbd. eapply evd_cp_bounded_mono; [|exact Hb]. lia.
Qed.

(* THEOREM (quotations allowed): call_observers as written reaches none of its failure values - fuel, the unwrap in
   Branch::path, the index into event_cache - when parents come first in the numbering and every holder has a
   branch as parent *)
Theorem evd_call_observers_total : forall f obs dobs st order perm2,
  evd_forest_okb f = true -> evd_parents_knownb f = true -> (forall cp, Permutation (perm2 cp) cp) ->
  exists r, evd_call_observers_with f obs dobs st order perm2 = Some r.
Proof.
  intros f obs dobs st order perm2 Hf Hp Hperm. unfold evd_call_observers_with.
  destruct (evd_loop1_total f obs dobs Hf order evd_l10) as (s & -> & Hb & _); [constructor|constructor|].
  destruct (evd_loop2_total f st (evd_l1_cache s) Hf Hp (perm2 (evd_w_cp (evd_l1_w s)))) as [deep ->]; [|eauto].
  unfold evd_cp_bounded in *. apply (Permutation_Forall (Permutation_sym (Hperm _))). exact Hb.
Qed.
Print Assumptions evd_call_observers_total.

(* with quotations a deep observer on the parent chain of a changed type still receives its event (and possibly
   events of types that are not below it: those reached through links) *)
Lemma evd_loop1_cache f obs dobs : forall order s s',
  evd_loop1 f obs dobs s order = Some s' -> evd_l1_cache s' = evd_l1_cache s ++ evd_events_of f order.
Proof.
  induction order as [|[t subs] r IH]; intros s s' H.
  - cbn in H. inversion H; subst. cbn. now rewrite app_nil_r.
  - cbn [evd_loop1 evd_loop1_step] in H. rewrite evd_events_of_cons.
    destruct (evd_make_event (evd_kind_of f t)) as [k|].
    + match type of H with context [evd_walk ?a ?b ?c ?d ?e ?g] => destruct (evd_walk a b c d e g) as [w'|]; [|discriminate] end.
      apply IH in H. cbn [evd_l1_cache] in H. rewrite H. now rewrite <- app_assoc.
    + cbn [app]. now apply IH.
Qed.
Lemma evd_loop1_receives f obs dobs : evd_forest_okb f = true -> forall order s s',
  evd_loop1 f obs dobs s order = Some s' ->
  (forall d i, In i (evd_cp_get (evd_w_cp (evd_l1_w s)) d) -> In i (evd_cp_get (evd_w_cp (evd_l1_w s')) d)) /\
  (forall j e, nth_error (evd_events_of f order) j = Some e ->
     forall d, In d (evd_chain f (evd_e_target e)) -> evd_mem d dobs = true ->
     In (length (evd_l1_cache s) + j)%nat (evd_cp_get (evd_w_cp (evd_l1_w s')) d)).
Proof.
  intros Hf. induction order as [|[t subs] r IH]; intros s s' H.
  - cbn in H. inversion H; subst. split; [auto|]. intros j e Hj. destruct j; discriminate.
  - cbn [evd_loop1 evd_loop1_step] in H. rewrite evd_events_of_cons.
    destruct (evd_make_event (evd_kind_of f t)) as [k|]; [|cbn [app]; now apply IH].
    match type of H with context [evd_walk ?a ?b ?c ?d ?e ?g] =>
      destruct (evd_walk_total b c d e g Hf) as (w' & Ew & (_ & Hmono & _) & Hin); rewrite Ew in H end.
    apply IH in H as [H1 H2]. cbn [evd_l1_w evd_l1_cache evd_w_cp] in *. split.
    + intros d i Hi. apply H1, Hmono, Hi.
    + intros j e Hj d Hd Hm. destruct j as [|j]; cbn [app nth_error] in Hj.
      * inversion Hj; subst. cbn [evd_e_target] in Hd. apply H1.
        specialize (Hin d Hd Hm). rewrite app_length in Hin. cbn in Hin.
        replace (length (evd_l1_cache s) + 0)%nat with (length (evd_l1_cache s) + 1 - 1)%nat by lia. exact Hin.
      * specialize (H2 j e Hj d Hd Hm). rewrite app_length in H2. cbn in H2.
        replace (length (evd_l1_cache s) + S j)%nat with (length (evd_l1_cache s) + 1 + j)%nat by lia. exact H2.
Qed.
Lemma evd_cp_get_entry_ex cp d i : In i (evd_cp_get cp d) -> exists idxs, In (d, idxs) cp /\ In i idxs.
Proof.
  unfold evd_cp_get. destruct (find (fun en => fst en =? d) cp) as [[k l]|] eqn:E; [|intros []].
  apply find_some in E as [Hin Hk]. cbn in Hk. apply N.eqb_eq in Hk. subst. cbn. eauto.
Qed.
Lemma evd_collect_has f st cache d : forall idxs es i e,
  evd_collect f st cache d idxs = Some es -> In i idxs -> nth_error cache i = Some e -> exists p, In (e, p) es.
Proof.
  induction idxs as [|j r IH]; intros es i e H Hi He; [destruct Hi|]. cbn [evd_collect] in H.
  destruct (nth_error cache j) as [e'|] eqn:Ej; [|discriminate].
  destruct (evd_path f st d (evd_e_target e')) as [p|]; [|discriminate].
  destruct (evd_collect f st cache d r) as [l|] eqn:El; [|discriminate]. inversion H; subst.
  destruct Hi as [->|Hi].
  - rewrite He in Ej. inversion Ej; subst. exists p. now left.
  - destruct (IH l i e eq_refl Hi He) as [q Hq]. exists q. now right.
Qed.
Lemma evd_loop2_has f st cache : forall cp calls d idxs,
  evd_loop2 f st cache cp = Some calls -> In (d, idxs) cp ->
  exists es, evd_collect f st cache d idxs = Some es /\ In (EvdDeep d (evd_sort es)) calls.
Proof.
  induction cp as [|[k l] r IH]; intros calls d idxs H Hin; [destruct Hin|]. cbn [evd_loop2] in H.
  destruct (evd_collect f st cache k l) as [es|] eqn:Ec; [|discriminate].
  destruct (evd_loop2 f st cache r) as [calls0|] eqn:El; [|discriminate]. inversion H; subst.
  destruct Hin as [E|Hin].
  - inversion E; subst. exists es. split; trivial. now left.
  - destruct (IH calls0 d idxs eq_refl Hin) as (es' & E1 & E2). exists es'. split; trivial. now right.
Qed.

(* ---- the repaired call_type_observers: at most once, with arbitrary linked_by ---- *)
Lemma evd_sorted_nodup l : StronglySorted lt l -> NoDup l.
Proof.
  induction 1 as [|x r Hs IH Hf]; constructor; trivial. intros Hin. rewrite Forall_forall in Hf. specialize (Hf x Hin). lia.
Qed.
Lemma evd_loop2_inv f st cache : forall cp deep d es,
  evd_loop2 f st cache cp = Some deep -> In (EvdDeep d es) deep ->
  exists idxs es0, In (d, idxs) cp /\ evd_collect f st cache d idxs = Some es0 /\ es = evd_sort es0.
Proof.
  induction cp as [|[k l] r IH]; intros deep d es H Hin; cbn [evd_loop2] in H.
  - inversion H; subst. destruct Hin.
  - destruct (evd_collect f st cache k l) as [es0|] eqn:Ec; [|discriminate].
    destruct (evd_loop2 f st cache r) as [calls0|] eqn:El; [|discriminate]. inversion H; subst.
    destruct Hin as [E|Hin].
    + inversion E; subst. exists l, es0. split; [now left|auto].
    + destruct (IH calls0 d es eq_refl Hin) as (idxs & es1 & H1 & H2 & H3). exists idxs, es1. split; [now right|auto].
Qed.
Lemma evd_loop2_deep_obs f st cache : forall cp deep, evd_loop2 f st cache cp = Some deep -> evd_deep_obs deep = map fst cp.
Proof.
  induction cp as [|[k l] r IH]; intros deep H; cbn [evd_loop2] in H.
  - inversion H. reflexivity.
  - destruct (evd_collect f st cache k l); [|discriminate]. destruct (evd_loop2 f st cache r) as [calls0|]; [|discriminate].
    inversion H; subst. cbn. f_equal. now apply IH.
Qed.
Lemma evd_collect_events f st cache d : forall idxs es,
  evd_collect f st cache d idxs = Some es -> map (fun ep => Some (fst ep)) es = map (nth_error cache) idxs.
Proof.
  induction idxs as [|i r IH]; intros es H; cbn [evd_collect] in H.
  - inversion H. reflexivity.
  - destruct (nth_error cache i) as [e|] eqn:Ei; [|discriminate].
    destruct (evd_path f st d (evd_e_target e)); [|discriminate].
    destruct (evd_collect f st cache d r) as [l|]; [|discriminate]. inversion H; subst. cbn. rewrite Ei. f_equal. now apply IH.
Qed.
Lemma evd_nodup_targets (cache : list evd_event) : NoDup (map evd_e_target cache) ->
  forall idxs (es : list (evd_event * evd_path_t)), NoDup idxs ->
  map (fun ep => Some (fst ep)) es = map (nth_error cache) idxs ->
  NoDup (map (fun ep => evd_e_target (fst ep)) es).
Proof.
  intros Hc. induction idxs as [|i r IH]; intros es Hn H; destruct es as [|[e p] es]; try discriminate; [constructor|].
  cbn in H. inversion H. inversion Hn; subst. cbn. constructor; [|now apply IH].
  intros Hin. apply in_map_iff in Hin as ([e' p'] & Et & Hin'). cbn in Et.
  assert (Hs : In (Some e') (map (nth_error cache) r)).
  { rewrite <- H2. apply in_map_iff. exists (e', p'). auto. }
  apply in_map_iff in Hs as (j & Ej & Hj).
  assert (Hij : i = j).
  { apply (proj1 (NoDup_nth_error (map evd_e_target cache)) Hc).
    - rewrite map_length. apply nth_error_Some. congruence.
    - rewrite !nth_error_map, <- H1, Ej. cbn. now rewrite Et. }
  subst. contradiction.
Qed.
Lemma evd_spec_shallow_no_deep obs cache d es : ~ In (EvdDeep d es) (evd_spec_shallow obs cache).
Proof.
  unfold evd_spec_shallow. intros H. apply in_flat_map in H as (e & _ & H).
  destruct (evd_mem (evd_e_target e) obs); [destruct H as [H|[]]; discriminate|destruct H].
Qed.
Lemma evd_nodup_map_inj {A B} (g : A -> B) l x y : NoDup (map g l) -> In x l -> In y l -> g x = g y -> x = y.
Proof.
  induction l as [|z r IH]; intros Hn Hx Hy E; [destruct Hx|]. cbn in Hn. inversion Hn; subst.
  destruct Hx as [->|Hx], Hy as [->|Hy]; trivial.
  - exfalso. apply H1. rewrite E. now apply in_map.
  - exfalso. apply H1. rewrite <- E. now apply in_map.
  - now apply IH.
Qed.
Lemma evd_deep_call_unique calls d es es' :
  NoDup (evd_deep_obs calls) -> In (EvdDeep d es) calls -> In (EvdDeep d es') calls -> es' = es.
Proof.
  induction calls as [|c r IH]; intros Hn H1 H2; [destruct H1|].
  assert (Hin : forall x, In (EvdDeep d x) r -> In d (evd_deep_obs r)).
  { intros x Hx. unfold evd_deep_obs. apply in_flat_map. exists (EvdDeep d x). split; trivial. now left. }
  destruct c as [t e|d0 es0]; cbn in Hn.
  - destruct H1 as [H1|H1]; [discriminate|]. destruct H2 as [H2|H2]; [discriminate|]. now apply IH.
  - inversion Hn; subst. destruct H1 as [H1|H1], H2 as [H2|H2].
    + inversion H1; inversion H2; subst. reflexivity.
    + inversion H1; subst. exfalso. apply H3. eapply Hin; eauto.
    + inversion H2; subst. exfalso. apply H3. eapply Hin; eauto.
    + now apply IH.
Qed.

(* what loop 1 leaves in changed_parents, for any forest whose parents come first: per deep observer a strictly
   increasing vector of indexes into event_cache (event i is pushed only while event_cache.len() - 1 = i, and
   `entries.last() != Some(&i)` removes the repetitions of i), one entry per observer *)
Lemma evd_loop1_shape f obs dobs order s : evd_forest_okb f = true ->
  evd_loop1 f obs dobs evd_l10 order = Some s ->
  evd_l1_cache s = evd_events_of f order /\
  evd_l1_calls s = evd_spec_shallow obs (evd_events_of f order) /\
  evd_cp_bounded (evd_w_cp (evd_l1_w s)) (length (evd_l1_cache s)) /\
  NoDup (map fst (evd_w_cp (evd_l1_w s))).
Proof.
  intros Hf E1.
  destruct (evd_loop1_total f obs dobs Hf order evd_l10) as (s' & E & Hb & Hn); [constructor|constructor|].
  rewrite E1 in E. inversion E; subst s'.
  pose proof (evd_loop1_cache f obs dobs order _ _ E1) as Hc. pose proof (evd_loop1_calls f obs dobs order _ _ E1) as Hk.
  cbn in Hc, Hk. auto.
Qed.

(* THEOREM 1 for the repaired code, quotations allowed *)
Theorem evd_at_most_once_with_links : forall f obs dobs st order perm2 calls cpt,
  evd_forest_okb f = true ->
  (forall cp, Permutation (perm2 cp) cp) ->
  NoDup (map fst order) ->
  evd_call_observers_with f obs dobs st order perm2 = Some (calls, cpt) ->
  NoDup (evd_shallow_obs calls) /\
  NoDup (evd_deep_obs calls) /\
  forall d es, In (EvdDeep d es) calls -> NoDup (map (fun ep => evd_e_target (fst ep)) es).
Proof.
  intros f obs dobs st order perm2 calls cpt Hf Hperm Hn H.
  split; [exact (proj1 (evd_shallow_dispatch_with_links f obs dobs st order perm2 calls cpt 0 Hn H))|].
  unfold evd_call_observers_with in H.
  destruct (evd_loop1 f obs dobs evd_l10 order) as [s|] eqn:E1; [|discriminate].
  destruct (evd_loop2 f st (evd_l1_cache s) (perm2 (evd_w_cp (evd_l1_w s)))) as [deep|] eqn:E2; [|discriminate].
  inversion H; subst. clear H.
  destruct (evd_loop1_shape f obs dobs order s Hf E1) as (Hc & Hk & Hb & Hnd).
  split.
  - rewrite evd_deep_obs_app, Hk, evd_deep_obs_shallow, (evd_loop2_deep_obs _ _ _ _ _ E2). cbn [app].
    apply (Permutation_NoDup (Permutation_sym (Permutation_map fst (Hperm _)))). exact Hnd.
  - intros d es Hin. apply in_app_or in Hin as [Hin|Hin]; [rewrite Hk in Hin; now apply evd_spec_shallow_no_deep in Hin|].
    destruct (evd_loop2_inv _ _ _ _ _ d es E2 Hin) as (idxs & es0 & Hcp & Hcol & ->).
    apply (Permutation_in _ (Hperm _)) in Hcp.
    unfold evd_cp_bounded in Hb. rewrite Forall_forall in Hb. destruct (Hb _ Hcp) as [Hs _]. cbn [snd] in Hs.
    apply (Permutation_NoDup (Permutation_map _ (Permutation_sym (evd_sort_perm _)))).
    apply (evd_nodup_targets (evd_l1_cache s)) with (idxs := idxs).
    + rewrite Hc, evd_events_targets. now apply NoDup_filter.
    + now apply evd_sorted_nodup.
    + now apply (evd_collect_events f st _ d).
Qed.
Print Assumptions evd_at_most_once_with_links.

(* with quotations a deep observer on the parent chain of a changed type receives its event EXACTLY once (repaired
   code): one call for d, one entry for e in it. Still partial: which further events reach d through links, and
   their paths (Branch::path from a link's observer runs to the root), are not characterised. *)
Theorem evd_deep_receives_with_links_partial : forall f obs dobs st order perm2 calls cpt e d,
  evd_forest_okb f = true -> (forall cp, Permutation (perm2 cp) cp) ->
  NoDup (map fst order) ->
  evd_call_observers_with f obs dobs st order perm2 = Some (calls, cpt) ->
  In e (evd_events_of f order) -> In d (evd_chain f (evd_e_target e)) -> evd_mem d dobs = true ->
  exists es p,
    In (EvdDeep d es) calls /\ (forall es', In (EvdDeep d es') calls -> es' = es) /\
    In (e, p) es /\
    (forall e' p', In (e', p') es -> evd_e_target e' = evd_e_target e -> (e', p') = (e, p)).
Proof.
  intros f obs dobs st order perm2 calls cpt e d Hf Hperm Hn H0 He Hd Hm.
  destruct (evd_at_most_once_with_links f obs dobs st order perm2 calls cpt Hf Hperm Hn H0) as (_ & Hdo & Hev).
  pose proof H0 as H. unfold evd_call_observers_with in H.
  destruct (evd_loop1 f obs dobs evd_l10 order) as [s|] eqn:E1; [|discriminate].
  destruct (evd_loop2 f st (evd_l1_cache s) (perm2 (evd_w_cp (evd_l1_w s)))) as [deep|] eqn:E2; [|discriminate].
  inversion H; subst. clear H.
  pose proof (evd_loop1_cache f obs dobs order _ _ E1) as Hc. cbn in Hc.
  destruct (evd_loop1_receives f obs dobs Hf order _ _ E1) as [_ Hr]. cbn [evd_l10 evd_l1_cache length] in Hr.
  apply In_nth_error in He as [j Hj]. specialize (Hr j e Hj d Hd Hm). cbn [Nat.add] in Hr.
  apply evd_cp_get_entry_ex in Hr as (idxs & Hin & Hji).
  apply (Permutation_in _ (Permutation_sym (Hperm _))) in Hin.
  destruct (evd_loop2_has f st _ _ _ d idxs E2 Hin) as (es & Ec & Hcall).
  rewrite Hc in Ec. destruct (evd_collect_has f st _ d idxs es j e Ec Hji Hj) as [p Hp].
  assert (Hcall' : In (EvdDeep d (evd_sort es)) (evd_l1_calls s ++ deep)) by (apply in_or_app; now right).
  assert (Hp' : In (e, p) (evd_sort es)) by (apply (Permutation_in _ (Permutation_sym (evd_sort_perm es))); exact Hp).
  exists (evd_sort es), p. split; [exact Hcall'|]. split; [|split; [exact Hp'|]].
  - intros es' H'. eapply evd_deep_call_unique; eauto.
  - intros e' p' Hin' Et.
    apply (evd_nodup_map_inj (fun ep => evd_e_target (fst ep)) (evd_sort es)); trivial. now apply (Hev d).
Qed.
Print Assumptions evd_deep_receives_with_links_partial.

(* where the walk stops: nowhere before the root. That the holders on the way are neither added nor deleted is a
   property of the state, not something call_type_observers checks: it follows when the flags are closed downwards
   (a child of a type deleted / created in this transaction is itself deleted / created in it) *)
Definition evd_closedb (f : evd_forest) (st : evd_st) : bool :=
  forallb (fun c => match evd_holder_of f c with
                    | Some h => match evd_h_parent h with
                                | Some p => match evd_holder_of f p with
                                            | Some hp => implb (evd_mem (evd_h_item hp) (evd_del st)) (evd_mem (evd_h_item h) (evd_del st))
                                                         && implb (evd_mem (evd_h_item hp) (evd_ins st)) (evd_mem (evd_h_item h) (evd_ins st))
                                            | None => true end
                                | None => true end
                    | None => true end) (evd_all_types f).
Theorem evd_chain_clean : forall f st t d,
  evd_forest_okb f = true -> evd_closedb f st = true ->
  evd_trigger f st t = true -> In d (evd_chain f t) -> evd_trigger f st d = true.
Proof.
  intros f st t d Hf Hcl. unfold evd_chain. generalize (S (N.to_nat t)). intros n. revert t.
  induction n as [|n IH]; intros t Ht Hd; [destruct Hd|]. cbn in Hd. destruct Hd as [->|Hd]; trivial.
  destruct (evd_holder_of f t) as [h|] eqn:E; [|destruct Hd]. destruct (evd_h_parent h) as [p|] eqn:Ep; [|destruct Hd].
  apply (IH p); trivial. unfold evd_closedb in Hcl. rewrite forallb_forall in Hcl.
  specialize (Hcl t (proj2 (evd_all_types_In f t) (evd_holder_in_range f t h E))). rewrite E, Ep in Hcl.
  unfold evd_trigger in *. rewrite E in Ht. destruct (evd_holder_of f p) as [hp|]; trivial.
  apply andb_true_iff in Ht as [H1 H2]. apply andb_true_iff in Hcl as [C1 C2].
  rewrite negb_true_iff in H1, H2. rewrite H2 in C1. rewrite H1 in C2.
  destruct (evd_mem (evd_h_item hp) (evd_del st)); [discriminate|]. destruct (evd_mem (evd_h_item hp) (evd_ins st)); [discriminate|]. reflexivity.
Qed.
Print Assumptions evd_chain_clean.

(* ---------------------------------------------------------------------------------------------- *)
(* 15. the driver of the executable tie *)

Lemma evd_drv_insert_perm en cp : Permutation (evd_drv_insert en cp) (en :: cp).
Proof.
  induction cp as [|y r IH]; cbn; [reflexivity|]. destruct (fst y <=? fst en); [|reflexivity].
  rewrite IH. apply perm_swap.
Qed.
Lemma evd_drv_sort_cp_perm cp : Permutation (evd_drv_sort_cp cp) cp.
Proof.
  unfold evd_drv_sort_cp.
  assert (G : forall l acc, Permutation (fold_left (fun acc en => evd_drv_insert en acc) l acc) (acc ++ l)).
  { induction l as [|x r IH]; intros acc; cbn; [now rewrite app_nil_r|].
    rewrite IH, evd_drv_insert_perm. cbn [app]. apply Permutation_middle. }
  now rewrite G.
Qed.
Lemma evd_drv_parents_known types : evd_parents_knownb (map evd_drv_node types) = true.
Proof.
  unfold evd_parents_knownb. apply forallb_forall. intros t _.
  unfold evd_holder_of, evd_node_of. rewrite nth_error_map.
  destruct (nth_error types (N.to_nat t)) as [[[[[[parent psub] hid] kind] sq] links]|]; cbn; trivial.
  destruct parent; reflexivity.
Qed.
Lemma evd_drv_nodupb_ok l : evd_drv_nodupb l = true -> NoDup l.
Proof.
  induction l as [|x r IH]; cbn; [constructor|]. rewrite andb_true_iff, negb_true_iff. intros [H1 H2].
  constructor; [now apply evd_mem_false|now apply IH].
Qed.

(* on inputs that pass its checks the driver answers, every observing type occurs once, and no call lists the
   same target twice (quotations allowed) *)
Theorem evd_deep_calls_ok : forall types events dobs,
  evd_drv_checks (map evd_drv_node types) events = true ->
  exists r, evd_deep_calls types events dobs = Some r /\
            NoDup (map fst r) /\
            forall d es, In (d, es) r -> NoDup (map fst es).
Proof.
  intros types events dobs Hck. unfold evd_deep_calls. rewrite Hck.
  set (f := map evd_drv_node types). set (st := evd_drv_state types). set (order := map (fun t => (t, [])) events).
  unfold evd_drv_checks in Hck. fold f in Hck. apply andb_true_iff in Hck as [Hck _]. apply andb_true_iff in Hck as [Hf Hnd].
  destruct (evd_call_observers_total f [] dobs st order evd_drv_sort_cp Hf (evd_drv_parents_known types) evd_drv_sort_cp_perm)
    as [[calls cpt] E].
  rewrite E. eexists. split; [reflexivity|].
  assert (Hn : NoDup (map fst order)).
  { unfold order. rewrite map_map. cbn. rewrite map_id. now apply evd_drv_nodupb_ok. }
  destruct (evd_at_most_once_with_links f [] dobs st order evd_drv_sort_cp calls cpt Hf evd_drv_sort_cp_perm Hn E) as (_ & H2 & H3).
  assert (Hfst : map fst (evd_drv_out calls) = evd_deep_obs calls).
  { clear. induction calls as [|c r IH]; [reflexivity|]. destruct c; cbn; [exact IH|now f_equal]. }
  split; [now rewrite Hfst|].
  intros d es Hin. unfold evd_drv_out in Hin. apply in_flat_map in Hin as (c & Hc & Hin).
  destruct c as [t e|d0 es0]; [destruct Hin|]. destruct Hin as [Hin|[]]. inversion Hin; subst.
  rewrite map_map. cbn [fst]. now apply (H3 d).
Qed.
Print Assumptions evd_deep_calls_ok.
