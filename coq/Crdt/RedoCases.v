(* RedoCases.v - concrete cases by vm_compute: bounded sweeps (TESTS, not theorems) of the inverse law in the
   model, the witnesses of the `_refuted` theorems, non-vacuity of the hypotheses used in RedoProofs.v, and the
   histories replayed on the real code (yrs/tests/rdo_nested.rs in the worktree). *)
From Coq Require Import List NArith Bool.
Import ListNotations.
From YV.Crdt Require Import Redo RedoProofs.


Open Scope N_scope.

(* ---------------------------------------------------------------------------------------------- *)
(* 1. bounded sweep of the inverse law (scope = roots 0 and 1): all programs of length <= 5 over 12 actions
      that build, fill, delete and overwrite nested containers.  A TEST of rdo_inverse_law, not a proof. *)

Definition rdo_k_acts (d : nat) : list rdo_action :=
  let v := 10 + N.of_nat d in
  [ RdoAUndo; RdoARedo;
    RdoAStep [[RdoOSet 1 [] 0 (RdoType 0)]];
    RdoAStep [[RdoOIns 1 [RdoKey 0] 0 (RdoVal v)]];
    RdoAStep [[RdoOIns 1 [RdoKey 0] 1 (RdoType 1)]];
    RdoAStep [[RdoODel 1 [RdoKey 0] 0]];
    RdoAStep [[RdoORem 1 [] 0]];
    RdoAStep [[RdoOSet 1 [] 0 (RdoVal v)]];
    RdoAStep [[RdoOIns 0 [] 0 (RdoType 1)]];
    RdoAStep [[RdoOSet 0 [RdoIdx 0] 0 (RdoVal v)]];
    RdoAStep [[RdoORem 0 [RdoIdx 0] 0]];
    RdoAStep [[RdoODel 0 [] 0]] ].

Fixpoint rdo_k_check (d n : nat) (s : rdo_state) (m : rdo_mirror) : bool :=
  match n with
  | O => true
  | S n' => forallb (fun a => match rdo_mirror_step s m a with
                              | Some (s', m') => rdo_k_check (S d) n' s' m'
                              | None => false
                              end) (rdo_k_acts d)
  end.

Example rdo_inverse_law_sweep5 : rdo_k_check 0 5 (rdo_state0 [0;1]) (rdo_mirror0 [0;1]) = true.
Proof. vm_compute. reflexivity. Qed.
Print Assumptions rdo_inverse_law_sweep5.

(* ---------------------------------------------------------------------------------------------- *)
(* 2. FINDING A (theorem 3): a map entry written by ANOTHER origin into a re-created container is deleted by
      a later undo of the tracked origin, although the container it lives in stays.  Replayed on the real
      code: yrs/tests/rdo_nested.rs, test rdo_foreign_entry_overwritten. *)

Definition rdo_k_foreign_hist : list rdo_action :=
  [ RdoAStep [[RdoOSet 1 [] 0 (RdoType 1)]];            (* id 0: container C at key 0 of root 1 *)
    RdoAStep [[RdoOSet 1 [RdoKey 0] 1 (RdoVal 11)]];    (* id 1: C.k1 = 11 *)
    RdoAStep [[RdoORem 1 [RdoKey 0] 1]];                (* delete id 1 *)
    RdoAStep [[RdoORem 1 [] 0]];                        (* delete C *)
    RdoAUndo;                                           (* id 2: C' = copy of C (empty) *)
    RdoAOther [RdoOSet 1 [RdoKey 0] 1 (RdoVal 99)] ].   (* id 3: another origin writes C'.k1 = 99 *)

Definition rdo_k_item_live (s : rdo_res rdo_state) (i : N) : option bool :=
  match s with RdoOk s => option_map (fun x => negb (rdo_del x)) (rdo_get (rdo_doc s) i) | RdoErr _ => None end.
Definition rdo_k_render1 (s : rdo_res rdo_state) : list N :=
  match s with RdoOk s => rdo_render_root (rdo_doc s) 1 | RdoErr _ => [] end.

Example rdo_k_foreign_before :
  let s := rdo_run (rdo_state0 [0;1]) rdo_k_foreign_hist in
  rdo_k_item_live s 3 = Some true /\ rdo_k_item_live s 2 = Some true /\
  rdo_k_render1 s = [2; 0; 1; 1; 2; 1; 0; 99; 3; 3].
Proof. vm_compute. repeat split. Qed.
Print Assumptions rdo_k_foreign_before.
Example rdo_k_foreign_after :
  let s := rdo_run (rdo_state0 [0;1]) (rdo_k_foreign_hist ++ [RdoAUndo]) in
  rdo_k_item_live s 3 = Some false (* the foreign entry is gone *) /\
  rdo_k_item_live s 2 = Some true  (* its container is still there: its insertion was not undone *) /\
  rdo_k_render1 s = [2; 0; 1; 1; 2; 1; 0; 11; 3; 3].
Proof. vm_compute. repeat split. Qed.
Print Assumptions rdo_k_foreign_after.
(* the same entry history in a container that is never re-created: the conflict check keeps the foreign entry *)
Example rdo_k_foreign_flat_contrast :
  rdo_k_render1 (rdo_run (rdo_state0 [0;1])
    [RdoAStep [[RdoOSet 1 [] 1 (RdoVal 11)]]; RdoAStep [[RdoORem 1 [] 1]]; RdoAOther [RdoOSet 1 [] 1 (RdoVal 99)]; RdoAUndo])
  = [2; 1; 0; 99; 3].
Proof. vm_compute. reflexivity. Qed.
Print Assumptions rdo_k_foreign_flat_contrast.

(* ---------------------------------------------------------------------------------------------- *)
(* 3. FINDING B (theorem 2, real code only): the history on which the real code loses an element
      (yrs/tests/rdo_nested.rs, test rdo_squashed_copy_split: after the last undo the code shows
      [38; {}; 52], the element 50 is lost because ItemPtr::redo splits the squashed block (52, 50') it is
      re-creating).  The unit-level model has no blocks: it satisfies the law on this history. *)

Definition rdo_k_split_hist : list rdo_action :=
  [ RdoAStep [[RdoOSet 1 [] 1 (RdoType 0)]; [RdoOIns 1 [RdoKey 1] 0 (RdoVal 38)]];
    RdoAStep [[RdoOIns 1 [RdoKey 1] 1 (RdoType 1); RdoOIns 1 [RdoKey 1] 2 (RdoVal 50)]];
    RdoAStep [[RdoOIns 1 [RdoKey 1] 2 (RdoVal 52)]];
    RdoAStep [[RdoODel 1 [RdoKey 1] 3]];
    RdoAUndo;
    RdoAStep [[RdoOSet 1 [] 1 (RdoVal 64)]];
    RdoAUndo ].
Example rdo_k_split_model_ok : rdo_mirror_run (rdo_state0 [0;1]) (rdo_mirror0 [0;1]) rdo_k_split_hist = true.
Proof. vm_compute. reflexivity. Qed.
Print Assumptions rdo_k_split_model_ok.
Example rdo_k_split_model_render :
  rdo_k_render1 (rdo_run (rdo_state0 [0;1]) rdo_k_split_hist) = [2; 1; 1; 0; 0; 38; 1; 1; 2; 3; 0; 52; 0; 50; 2; 3; 3].
Proof. vm_compute. reflexivity. Qed.
Print Assumptions rdo_k_split_model_render.
(* the copy 50' (id 5) has origin 4 (= 52) and the right origin of 52 (id 3): try_squash joins them *)
Example rdo_k_split_squashable :
  match rdo_run (rdo_state0 [0;1]) (firstn 5 rdo_k_split_hist) with
  | RdoOk s => match rdo_get (rdo_doc s) 4, rdo_get (rdo_doc s) 5, rdo_get (rdo_doc s) 3 with
               | Some a, Some b, Some c => (rdo_org b, rdo_rorg b, rdo_rorg a, rdo_red c, rdo_right (rdo_doc s) 4)
               | _, _, _ => (None, None, None, None, None)
               end
  | RdoErr _ => (None, None, None, None, None)
  end = (Some 4, Some 3, Some 3, Some 5, Some 5).
Proof. vm_compute. reflexivity. Qed.
Print Assumptions rdo_k_split_squashable.

(* ---------------------------------------------------------------------------------------------- *)
(* 4. re-creation inside re-created containers, two generations, with positions traced through copies *)
Example rdo_k_two_generations :
  rdo_mirror_run (rdo_state0 [0;1]) (rdo_mirror0 [0;1])
    [ RdoAStep [[RdoOIns 0 [] 0 (RdoType 0)]];
      RdoAStep [[RdoOIns 0 [RdoIdx 0] 0 (RdoVal 1); RdoOIns 0 [RdoIdx 0] 1 (RdoVal 2); RdoOIns 0 [RdoIdx 0] 2 (RdoVal 3)]];
      RdoAStep [[RdoODel 0 [RdoIdx 0] 1]];
      RdoAStep [[RdoODel 0 [] 0]];
      RdoAUndo; RdoARedo; RdoAUndo; RdoAUndo; RdoAUndo; RdoARedo; RdoARedo; RdoARedo; RdoAUndo; RdoAUndo; RdoAUndo; RdoAUndo ] = true.
Proof. vm_compute. reflexivity. Qed.
Print Assumptions rdo_k_two_generations.

From Coq Require Import List NArith Bool.
Import ListNotations.

Open Scope N_scope.

(* ---------------------------------------------------------------------------------------------- *)
(* 5. the hypotheses of theorem 2 (partial) are not vacuous, and a bounded TEST of the statements behind it:
      for every state reached by capture steps (all programs of length <= 3 over 14 nested steps) and every
      captured step s0 -> s1 with top entry e = (I, D): rdo_i_pc holds, processing e renders like the virtual
      store rdo_i_flip and like s0; the redo entry e' satisfies rdo_i_pc again, processing it renders like s1. *)

Definition rdo_k_sc : list N := [0;1].
Definition rdo_k_steps (d : nat) : list rdo_action :=
  let v := 10 + N.of_nat d in
  [ RdoAStep [[RdoOSet 1 [] 0 (RdoType 0)]];
    RdoAStep [[RdoOIns 1 [RdoKey 0] 0 (RdoVal v)]];
    RdoAStep [[RdoOIns 1 [RdoKey 0] 1 (RdoType 1)]];
    RdoAStep [[RdoODel 1 [RdoKey 0] 0]];
    RdoAStep [[RdoORem 1 [] 0]];
    RdoAStep [[RdoOSet 1 [] 0 (RdoVal v)]];
    RdoAStep [[RdoOIns 0 [] 0 (RdoType 1)]];
    RdoAStep [[RdoOSet 0 [RdoIdx 0] 0 (RdoVal v)]];
    RdoAStep [[RdoORem 0 [RdoIdx 0] 0]];
    RdoAStep [[RdoODel 0 [] 0]];
    RdoAStep [[RdoOSet 1 [] 0 (RdoType 0)]; [RdoOIns 1 [RdoKey 0] 0 (RdoVal v); RdoOIns 1 [RdoKey 0] 0 (RdoType 0)]];
    RdoAStep [[RdoOIns 1 [RdoKey 0] 0 (RdoVal v); RdoODel 1 [RdoKey 0] 1; RdoORem 1 [] 0]];
    RdoAStep [[RdoOSet 0 [RdoIdx 0] 0 (RdoVal v); RdoOSet 0 [RdoIdx 0] 0 (RdoType 0); RdoOIns 0 [RdoIdx 0; RdoKey 0] 0 (RdoVal v)]];
    RdoAStep [[RdoOIns 1 [RdoKey 0; RdoIdx 0] 0 (RdoVal v)]; [RdoODel 1 [RdoKey 0] 0]] ].

Definition rdo_k_rend (st : list rdo_item) : list (list N) := map (rdo_render_root st) rdo_k_sc.
Definition rdo_k_rendv (st : list rdo_item) : list (list N) := map (rdo_i_render_root st) rdo_k_sc.
Definition rdo_k_with_us (s : rdo_state) (us : list rdo_sitem) : rdo_state :=
  {| rdo_doc := rdo_doc s; rdo_clock := rdo_clock s; rdo_scope := rdo_scope s; rdo_us := us; rdo_rs := rdo_rs s; rdo_ext := rdo_ext s |}.
Definition rdo_k_with_rs (s : rdo_state) (rs : list rdo_sitem) : rdo_state :=
  {| rdo_doc := rdo_doc s; rdo_clock := rdo_clock s; rdo_scope := rdo_scope s; rdo_us := rdo_us s; rdo_rs := rs; rdo_ext := rdo_ext s |}.

Definition rdo_k_check1 (s0 : rdo_state) (a : rdo_action) : bool :=
  match rdo_act s0 a with
  | RdoErr _ => false
  | RdoOk s1 =>
      if Nat.eqb (length (rdo_us s1)) (S (length (rdo_us s0))) then
        match rdo_us s1 with
        | [] => false
        | e :: rest =>
            let s1' := rdo_k_with_us s1 rest in
            rdo_i_pc (rdo_doc s1) (rdo_clock s1) rdo_k_sc (rdo_sins e) (rdo_sdel e) &&
            match rdo_process s1' e rest (rdo_rs s1) with
            | RdoErr _ => false
            | RdoOk (t, ch) =>
                rdo_cont_eqb (rdo_k_rend (rdo_st t)) (rdo_k_rendv (rdo_i_flip (rdo_doc s1) (rdo_sins e) (rdo_sdel e))) &&
                rdo_cont_eqb (rdo_k_rend (rdo_st t)) (rdo_k_rend (rdo_doc s0)) &&
                let s2 := rdo_after_txn s1' t RdoUndoing in
                if ch then
                  match rdo_rs s2 with
                  | [] => false
                  | e' :: rest' =>
                      rdo_i_pc (rdo_doc s2) (rdo_clock s2) rdo_k_sc (rdo_sins e') (rdo_sdel e') &&
                      match rdo_process (rdo_k_with_rs s2 rest') e' rest' (rdo_us s2) with
                      | RdoErr _ => false
                      | RdoOk (t3, ch3) =>
                          ch3 &&
                          rdo_cont_eqb (rdo_k_rend (rdo_st t3)) (rdo_k_rendv (rdo_i_flip (rdo_doc s2) (rdo_sins e') (rdo_sdel e'))) &&
                          rdo_cont_eqb (rdo_k_rend (rdo_st t3)) (rdo_k_rend (rdo_doc s1))
                      end
                  end
                else rdo_cont_eqb (rdo_k_rend (rdo_doc s1)) (rdo_k_rend (rdo_doc s0))
            end
        end
      else rdo_cont_eqb (rdo_k_rend (rdo_doc s1)) (rdo_k_rend (rdo_doc s0))
  end.
Fixpoint rdo_k_sweep (d n : nat) (s : rdo_state) : bool :=
  match n with
  | O => true
  | S n' => forallb (fun a => rdo_k_check1 s a && match rdo_act s a with RdoOk s' => rdo_k_sweep (S d) n' s' | RdoErr _ => false end) (rdo_k_steps d)
  end.
Example rdo_k_pc_sweep3 : rdo_k_sweep 0 3 (rdo_state0 rdo_k_sc) = true.
Proof. vm_compute. reflexivity. Qed.
Print Assumptions rdo_k_pc_sweep3.

(* a concrete instance: a container with two children is overwritten; the entry of that step satisfies rdo_i_pc *)
Example rdo_k_pc_nonvacuous :
  match rdo_run (rdo_state0 [0;1])
          [ RdoAStep [[RdoOSet 1 [] 0 (RdoType 0)]; [RdoOIns 1 [RdoKey 0] 0 (RdoVal 7); RdoOIns 1 [RdoKey 0] 1 (RdoType 1)]];
            RdoAStep [[RdoOSet 1 [] 0 (RdoVal 9)]] ] with
  | RdoOk s => match rdo_us s with
               | e :: _ => (rdo_sins e, rdo_sdel e, rdo_i_redo (rdo_doc s) (rdo_sins e) (rdo_sdel e),
                            rdo_i_pc (rdo_doc s) (rdo_clock s) [0;1] (rdo_sins e) (rdo_sdel e))
               | [] => ([], [], [], false)
               end
  | RdoErr _ => ([], [], [], false)
  end = ([3], [0; 1; 2], [0; 1; 2], true).
Proof. vm_compute. reflexivity. Qed.
Print Assumptions rdo_k_pc_nonvacuous.

(* ---------------------------------------------------------------------------------------------- *)
(* 6. the hypotheses of rdo_inverse_law_nested_steps_partial are not vacuous: a history of steps whose last
      step deletes two elements of a nested array (2 re-created sequence items below a live container); the
      entry of that step and the redo entry pushed by the undo are both in the class rdo_d2_cls_union, the
      step is captured, undo and redo report a change. *)

Definition rdo_k_cls_hist : list rdo_action :=
  [ RdoAStep [[RdoOIns 0 [] 0 (RdoType 0)]];
    RdoAStep [[RdoOIns 0 [RdoIdx 0] 0 (RdoVal 1); RdoOIns 0 [RdoIdx 0] 1 (RdoVal 2); RdoOIns 0 [RdoIdx 0] 2 (RdoVal 3)]] ].
Definition rdo_k_cls_last : rdo_action := RdoAStep [[RdoODel 0 [RdoIdx 0] 0; RdoODel 0 [RdoIdx 0] 1]].
Example rdo_k_cls_nonvacuous :
  match rdo_run (rdo_state0 [0]) rdo_k_cls_hist with
  | RdoOk s0 =>
      match rdo_act s0 rdo_k_cls_last with
      | RdoOk s1 =>
          match rdo_us s1, rdo_undo s1 with
          | e :: _, RdoOk (s2, b) =>
              match rdo_rs s2, rdo_redo_call s2 with
              | [e'], RdoOk (s3, b3) =>
                  (rdo_i_steps [0] (rdo_k_cls_hist ++ [rdo_k_cls_last]),
                   Nat.eqb (length (rdo_us s1)) (S (length (rdo_us s0))),
                   rdo_i_redo (rdo_doc s1) (rdo_sins e) (rdo_sdel e),
                   rdo_d2_cls_union (rdo_doc s1) (rdo_sins e) (rdo_sdel e),
                   rdo_d2_cls_union (rdo_doc s2) (rdo_sins e') (rdo_sdel e'),
                   b, b3,
                   rdo_render_root (rdo_doc s0) 0, rdo_render_root (rdo_doc s1) 0,
                   rdo_render_root (rdo_doc s2) 0, rdo_render_root (rdo_doc s3) 0)
              | _, _ => (false, false, [], false, false, false, false, [], [], [], [])
              end
          | _, _ => (false, false, [], false, false, false, false, [], [], [], [])
          end
      | RdoErr _ => (false, false, [], false, false, false, false, [], [], [], [])
      end
  | RdoErr _ => (false, false, [], false, false, false, false, [], [], [], [])
  end
  = (true, true, [1; 3], true, true, true, true,
     [1; 0; 0; 1; 0; 2; 0; 3; 2; 3; 2; 3], [1; 0; 0; 2; 2; 3; 2; 3],
     [1; 0; 0; 1; 0; 2; 0; 3; 2; 3; 2; 3], [1; 0; 0; 2; 2; 3; 2; 3]).
Proof. vm_compute. reflexivity. Qed.
Print Assumptions rdo_k_cls_nonvacuous.
